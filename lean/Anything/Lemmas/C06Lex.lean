import Anything.Lemmas.C06Defs
import Anything.Lemmas.Number
import Anything.Props.C12
/-!
# C06, stage C — the token list of a rendered expression

`toks e ws` is the in-order token list of `e` with one WHITESPACE token per non-empty blank of
the layout `ws`; `LayoutOK e ws` are the side conditions of the property on the layout;
`lex_render`: the lexer produces exactly `toks e ws` on `render e ws`.
-/

namespace Anything.C06
open Anything Anything.Lexer Anything.Spec Anything.Spec.Arith Anything.Spec.Decimal
open Anything.Lemmas.Number

/-! ### Definitions -/

/-- A blank: white space only (possibly empty). -/
def Blank (b : List Char) : Prop := ∀ c ∈ b, isWhitespace c = true

/-- The token of a blank: none for the empty blank. -/
def blankTok (b : List Char) : List Token := if b = [] then [] else [⟨.WHITESPACE, b⟩]

def opTok : BinOp → Token
  | .add => ⟨.PLUS, ['+']⟩
  | .sub => ⟨.DASH, ['-']⟩
  | .mul => ⟨.STAR, ['*']⟩
  | .div => ⟨.SLASH, ['/']⟩
  | .pow => ⟨.CARET, ['^']⟩

/-- The layout that remains after rendering. -/
abbrev after (e : NExpr) (ws : Layout) : Layout := (render e ws).2
abbrev afterArgs (es : List NExpr) (ws : Layout) : Layout := (renderArgs es ws).2
/-- The `n`-th blank of a layout and the layout after `n` blanks. -/
abbrev blank1 (ws : Layout) : List Char := (nextBlank ws).1
abbrev rest1 (ws : Layout) : Layout := (nextBlank ws).2

mutual
/-- In-order token list of an expression under a layout (threaded exactly as in `render`). -/
def toks : NExpr → Layout → List Token
  | .lit l, ws =>
    if l.percent then
      [⟨.NUMBER, renderNumber l⟩] ++ blankTok (blank1 ws) ++ [⟨.PERCENTAGE, ['%']⟩]
    else [⟨.NUMBER, renderNumber l⟩]
  | .bin op a b, ws =>
    let ws1 := after a ws
    toks a ws ++ blankTok (blank1 ws1) ++ [opTok op] ++ blankTok (blank1 (rest1 ws1)) ++
      toks b (rest1 (rest1 ws1))
  | .paren e, ws =>
    [⟨.OPEN_PAREN, ['(']⟩] ++ blankTok (blank1 ws) ++ toks e (rest1 ws) ++
      blankTok (blank1 (after e (rest1 ws))) ++ [⟨.CLOSE_PAREN, [')']⟩]
  | .call f args, ws =>
    [⟨.WORD, f.name⟩, ⟨.OPEN_PAREN, ['(']⟩] ++
      (match args with
        | [] => blankTok (blank1 ws ++ blank1 (rest1 ws))
        | _ => blankTok (blank1 ws) ++ toksArgs args (rest1 ws) ++
                blankTok (blank1 (afterArgs args (rest1 ws)))) ++
      [⟨.CLOSE_PAREN, [')']⟩]
def toksArgs : List NExpr → Layout → List Token
  | [], _ => []
  | [e], ws => toks e ws
  | e :: e' :: es, ws =>
    let ws1 := after e ws
    toks e ws ++ blankTok (blank1 ws1) ++ [⟨.COMMA, [',']⟩] ++ blankTok (blank1 (rest1 ws1)) ++
      toksArgs (e' :: es) (rest1 (rest1 ws1))
end

/-- The leftmost operand is a literal written without a sign. -/
def startsUnsigned : NExpr → Bool
  | .lit l => l.sign.isNone
  | .bin _ a _ => startsUnsigned a
  | _ => false

mutual
/-- The side conditions of the property on a layout: every blank position holds white space
only (possibly nothing), and a binary `+` / `-` directly followed by an unsigned literal is
followed by at least one blank (otherwise the lexer reads the sign as part of the literal).
Every literal is well formed. -/
def LayoutOK : NExpr → Layout → Prop
  | .lit l, ws => l.WF ∧ (l.percent = true → Blank (blank1 ws))
  | .bin op a b, ws =>
    let ws1 := after a ws
    LayoutOK a ws ∧ Blank (blank1 ws1) ∧ Blank (blank1 (rest1 ws1)) ∧
      LayoutOK b (rest1 (rest1 ws1)) ∧
      ((op = .add ∨ op = .sub) → blank1 (rest1 ws1) = [] → startsUnsigned b = false)
  | .paren e, ws =>
    Blank (blank1 ws) ∧ LayoutOK e (rest1 ws) ∧ Blank (blank1 (after e (rest1 ws)))
  | .call _ args, ws =>
    Blank (blank1 ws) ∧ LayoutOKArgs args (rest1 ws) ∧
      Blank (blank1 (afterArgs args (rest1 ws)))
def LayoutOKArgs : List NExpr → Layout → Prop
  | [], _ => True
  | [e], ws => LayoutOK e ws
  | e :: e' :: es, ws =>
    let ws1 := after e ws
    LayoutOK e ws ∧ Blank (blank1 ws1) ∧ Blank (blank1 (rest1 ws1)) ∧
      LayoutOKArgs (e' :: es) (rest1 (rest1 ws1))
end

/-- Side conditions on the layout of a whole query: leading blank, expression, trailing blank. -/
def QueryLayoutOK (e : NExpr) (ws : Layout) : Prop :=
  Blank (blank1 ws) ∧ LayoutOK e (rest1 ws) ∧ Blank (blank1 (after e (rest1 ws)))

/-- Token list of a whole query. -/
def queryToks (e : NExpr) (ws : Layout) : List Token :=
  blankTok (blank1 ws) ++ toks e (rest1 ws) ++ blankTok (blank1 (after e (rest1 ws)))

/-! ### Rendering in projection form -/

theorem render_lit (l : Literal) (ws : Layout) :
    render (.lit l) ws = if l.percent then (renderNumber l ++ blank1 ws ++ ['%'], rest1 ws)
      else (renderNumber l, ws) := by
  simp only [Arith.render]

theorem render_bin (op : BinOp) (a b : NExpr) (ws : Layout) :
    render (.bin op a b) ws =
      ((render a ws).1 ++ blank1 (after a ws) ++ op.sym ++ blank1 (rest1 (after a ws)) ++
        (render b (rest1 (rest1 (after a ws)))).1, after b (rest1 (rest1 (after a ws)))) := by
  simp only [Arith.render]

theorem render_paren (e : NExpr) (ws : Layout) :
    render (.paren e) ws =
      (['('] ++ blank1 ws ++ (render e (rest1 ws)).1 ++ blank1 (after e (rest1 ws)) ++ [')'],
        rest1 (after e (rest1 ws))) := by
  simp only [Arith.render]

theorem render_call (f : Fn) (args : List NExpr) (ws : Layout) :
    render (.call f args) ws =
      (f.name ++ ['('] ++ blank1 ws ++ (renderArgs args (rest1 ws)).1 ++
        blank1 (afterArgs args (rest1 ws)) ++ [')'], rest1 (afterArgs args (rest1 ws))) := by
  simp only [Arith.render]

theorem renderArgs_nil (ws : Layout) : renderArgs [] ws = ([], ws) := by simp only [renderArgs]

theorem renderArgs_one (e : NExpr) (ws : Layout) : renderArgs [e] ws = render e ws := by
  simp only [renderArgs]

theorem renderArgs_cons (e e' : NExpr) (es : List NExpr) (ws : Layout) :
    renderArgs (e :: e' :: es) ws =
      ((render e ws).1 ++ blank1 (after e ws) ++ [','] ++ blank1 (rest1 (after e ws)) ++
        (renderArgs (e' :: es) (rest1 (rest1 (after e ws)))).1,
        afterArgs (e' :: es) (rest1 (rest1 (after e ws)))) := by
  simp only [renderArgs]

/-! ### The extent of a number token -/

/-- The input ends here or continues with a character that cannot continue a number. -/
def NumStop (rest : List Char) : Prop :=
  ∀ c r, rest = c :: r → isDigit c = false ∧ c ≠ '.' ∧ c ≠ 'e' ∧ c ≠ 'E'

theorem digitChar_isDigit {d : Nat} (h : d < 10) : isDigit (digitChar d) = true :=
  (digitChar_facts ⟨d, h⟩).1

theorem cn_stop (dot : Bool) (rest : List Char) (h : NumStop rest) : countNumber dot rest = 0 := by
  cases rest with
  | nil => rw [countNumber]
  | cons c r =>
    obtain ⟨h1, h2, h3, h4⟩ := h c r rfl
    rw [countNumber.eq_def]
    simp [h1, h2, h3, h4]

theorem cn_digits (ds : List Nat) (hd : ∀ d ∈ ds, d < 10) (dot : Bool) (rest : List Char) :
    countNumber dot (ds.map digitChar ++ rest) = ds.length + countNumber dot rest := by
  induction ds with
  | nil => simp
  | cons d ds ih =>
    have h1 := digitChar_isDigit (hd d (by simp))
    simp only [List.map_cons, List.cons_append, List.length_cons]
    rw [countNumber.eq_def]
    simp only [h1, ↓reduceIte]
    rw [ih (fun x hx => hd x (by simp [hx]))]
    omega

theorem cw_digits (ds : List Nat) (hd : ∀ d ∈ ds, d < 10) (rest : List Char) (h : NumStop rest) :
    countWhile isDigit (ds.map digitChar ++ rest) = ds.length := by
  induction ds with
  | nil =>
    cases rest with
    | nil => rfl
    | cons c r => simp [countWhile, (h c r rfl).1]
  | cons d ds ih =>
    have h1 := digitChar_isDigit (hd d (by simp))
    simp only [List.map_cons, List.cons_append, List.length_cons, countWhile, h1, ↓reduceIte]
    rw [ih (fun x hx => hd x (by simp [hx]))]
    omega

theorem drop_map_append (ds : List Nat) (rest : List Char) :
    (ds.map digitChar ++ rest).drop ds.length = rest := by
  have : ds.length = (ds.map digitChar).length := by simp
  rw [this, List.drop_left]

theorem cn_exp (dot : Bool) (exp : Option Exponent) (rest : List Char)
    (hwf : ∀ e, exp = some e → e.WF) (h : NumStop rest) :
    countNumber dot (renderExp exp ++ rest) = (renderExp exp).length := by
  cases exp with
  | none => simpa [renderExp] using cn_stop dot rest h
  | some e =>
    obtain ⟨hne, hd⟩ := hwf e rfl
    have hm : ∀ m : Char, (m = 'e' ∨ m = 'E') →
        isDigit m = false ∧ (m == '.') = false ∧ (m == 'e' || m == 'E') = true := by
      intro m hm; rcases hm with rfl | rfl <;> decide
    obtain ⟨c1, c2, c3⟩ := hm (if e.upper then 'E' else 'e') (by cases e.upper <;> simp)
    simp only [renderExp, List.append_assoc, List.cons_append,
      List.length_cons, List.length_append, List.length_map]
    rw [countNumber.eq_def]
    simp only [c1, c2, c3, Bool.false_eq_true, ↓reduceIte, Bool.false_and]
    cases hs : e.sign with
    | some sg =>
      have hsg : ∃ b, renderSign (some sg) = [b] ∧ isSign b = true := by
        cases sg <;> exact ⟨_, rfl, by decide⟩
      obtain ⟨b, hb, hbs⟩ := hsg
      simp only [hb, List.nil_append,
        List.cons_append, List.length_nil, List.length_cons, hbs, ↓reduceIte,
        cw_digits e.digits hd rest h, drop_map_append, cn_stop dot rest h]
      omega
    | none =>
      cases hds : e.digits with
      | nil => exact absurd hds hne
      | cons d ds =>
        have hd' : ∀ x ∈ ds, x < 10 := fun x hx => hd x (by simp [hds, hx])
        have hd10 : d < 10 := hd d (by simp [hds])
        obtain ⟨f1, _, _, _, _, _, f7, f8⟩ := digitChar_facts ⟨d, hd10⟩
        have hns : isSign (digitChar d) = false := by
          simp only [isSign, Bool.or_eq_false_iff]; exact ⟨f7, f8⟩
        simp only [renderSign, List.nil_append, List.map_cons, List.cons_append, hns, f1,
          Bool.false_eq_true, ↓reduceIte, cw_digits ds hd' rest h, drop_map_append,
          cn_stop dot rest h, List.length_nil, List.length_cons]
        omega

/-- The mantissa and exponent (everything but the sign) of a literal. -/
def body (l : Literal) : List Char := l.int.map digitChar ++ (renderFrac l.frac ++ renderExp l.exp)

theorem renderNumber_eq (l : Literal) : renderNumber l = renderSign l.sign ++ body l := rfl

theorem lit_exp_wf {l : Literal} (h : l.WF) : ∀ e, l.exp = some e → e.WF := by
  intro e he
  have := h.2.2.2
  rw [he] at this
  exact this

theorem cn_fracexp (l : Literal) (h : l.WF) (rest : List Char) (hr : NumStop rest) :
    countNumber false (renderFrac l.frac ++ renderExp l.exp ++ rest) =
      (renderFrac l.frac ++ renderExp l.exp).length := by
  cases hf : l.frac with
  | none =>
    simp only [renderFrac, List.nil_append]
    exact cn_exp false l.exp rest (lit_exp_wf h) hr
  | some fs =>
    have hfs : ∀ d ∈ fs, d < 10 := by
      intro d hd; apply h.2.1; simp [fracDigits, hf, hd]
    simp only [renderFrac, List.cons_append, List.length_cons, List.length_append, List.length_map]
    rw [countNumber.eq_def]
    have c1 : isDigit '.' = false := by decide
    simp only [c1, Bool.false_eq_true, ↓reduceIte, beq_self_eq_true, Bool.not_false, Bool.and_self]
    rw [List.append_assoc, cn_digits fs hfs, cn_exp true l.exp rest (lit_exp_wf h) hr]
    omega

theorem cn_body (l : Literal) (h : l.WF) (rest : List Char) (hr : NumStop rest) :
    countNumber false (body l ++ rest) = (body l).length := by
  simp only [body, List.append_assoc, List.length_append, List.length_map]
  rw [cn_digits l.int h.1, ← List.append_assoc, cn_fracexp l h rest hr, List.length_append]

theorem body_ne_nil (l : Literal) (h : l.WF) : body l ≠ [] := by
  intro hb
  simp only [body, List.append_eq_nil_iff, List.map_eq_nil_iff] at hb
  obtain ⟨h1, h2, _⟩ := hb
  rcases h.2.2.1 with h3 | h3
  · exact h3 h1
  · cases hf : l.frac with
    | none => simp [fracDigits, hf] at h3
    | some fs => simp [renderFrac, hf] at h2

/-! ### One token at a time -/

/-- Outcomes of the character tests of `nextNormal`, in order. -/
def tests (c : Char) : List Bool :=
  [isWhitespace c, c == '{', c == '.', c == ',', isDigit c, c == '*', c == '/', c == '+', c == '-',
   c == '^', c == '%', c == '(', c == ')']

macro "nn_neg" h:ident : tactic =>
  `(tactic| rw [if_neg (by rw [$h:ident]; exact Bool.false_ne_true)])
macro "nn_pos" h:ident : tactic => `(tactic| rw [if_pos $h:ident])

theorem nn_ws (c : Char) (r : List Char) (h : isWhitespace c = true) :
    nextNormal c r = (.WHITESPACE, 1 + countWhile isWhitespace r, false) := by
  unfold nextNormal; nn_pos h

theorem nn_dot (c : Char) (r : List Char) (h : tests c = [false, false, true, false, false, false,
    false, false, false, false, false, false, false]) (hn : countNumber true r ≠ 0) :
    nextNormal c r = (.NUMBER, 1 + countNumber true r, false) := by
  simp only [tests, List.cons.injEq, and_true] at h
  obtain ⟨h1, h2, h3, h4, h5, h6, h7, h8, h9, h10, h11, h12, h13⟩ := h
  unfold nextNormal
  nn_neg h1; nn_neg h2; nn_pos h3
  simp only [beq_iff_eq, hn, ↓reduceIte]

theorem nn_comma (c : Char) (r : List Char) (h : tests c = [false, false, false, true, false, false,
    false, false, false, false, false, false, false]) : nextNormal c r = (.COMMA, 1, false) := by
  simp only [tests, List.cons.injEq, and_true] at h
  obtain ⟨h1, h2, h3, h4, h5, h6, h7, h8, h9, h10, h11, h12, h13⟩ := h
  unfold nextNormal
  nn_neg h1; nn_neg h2; nn_neg h3; nn_pos h4

theorem nn_digit (c : Char) (r : List Char) (h : tests c = [false, false, false, false, true, false,
    false, false, false, false, false, false, false]) :
    nextNormal c r = (.NUMBER, countNumber false (c :: r), false) := by
  simp only [tests, List.cons.injEq, and_true] at h
  obtain ⟨h1, h2, h3, h4, h5, h6, h7, h8, h9, h10, h11, h12, h13⟩ := h
  unfold nextNormal
  nn_neg h1; nn_neg h2; nn_neg h3; nn_neg h4; nn_pos h5

theorem nn_star (c : Char) (r : List Char) (h : tests c = [false, false, false, false, false, true,
    false, false, false, false, false, false, false]) (hr : ∀ r', r ≠ '*' :: r') :
    nextNormal c r = (.STAR, 1, false) := by
  simp only [tests, List.cons.injEq, and_true] at h
  obtain ⟨h1, h2, h3, h4, h5, h6, h7, h8, h9, h10, h11, h12, h13⟩ := h
  unfold nextNormal
  nn_neg h1; nn_neg h2; nn_neg h3; nn_neg h4; nn_neg h5; nn_pos h6
  split
  · exact absurd rfl (hr _)
  · rfl

theorem nn_slash (c : Char) (r : List Char) (h : tests c = [false, false, false, false, false, false,
    true, false, false, false, false, false, false]) : nextNormal c r = (.SLASH, 1, false) := by
  simp only [tests, List.cons.injEq, and_true] at h
  obtain ⟨h1, h2, h3, h4, h5, h6, h7, h8, h9, h10, h11, h12, h13⟩ := h
  unfold nextNormal
  nn_neg h1; nn_neg h2; nn_neg h3; nn_neg h4; nn_neg h5; nn_neg h6; nn_pos h7

theorem nn_plus (c : Char) (r : List Char) (h : tests c = [false, false, false, false, false, false,
    false, true, false, false, false, false, false]) :
    nextNormal c r = if countNumber false r > 0 then (.NUMBER, 1 + countNumber false r, false)
      else (.PLUS, 1, false) := by
  simp only [tests, List.cons.injEq, and_true] at h
  obtain ⟨h1, h2, h3, h4, h5, h6, h7, h8, h9, h10, h11, h12, h13⟩ := h
  unfold nextNormal
  nn_neg h1; nn_neg h2; nn_neg h3; nn_neg h4; nn_neg h5; nn_neg h6; nn_neg h7; nn_pos h8

theorem nn_dash (c : Char) (r : List Char) (h : tests c = [false, false, false, false, false, false,
    false, false, true, false, false, false, false]) :
    nextNormal c r = if countNumber false r > 0 then (.NUMBER, 1 + countNumber false r, false)
      else (.DASH, 1, false) := by
  simp only [tests, List.cons.injEq, and_true] at h
  obtain ⟨h1, h2, h3, h4, h5, h6, h7, h8, h9, h10, h11, h12, h13⟩ := h
  unfold nextNormal
  nn_neg h1; nn_neg h2; nn_neg h3; nn_neg h4; nn_neg h5; nn_neg h6; nn_neg h7; nn_neg h8; nn_pos h9

theorem nn_caret (c : Char) (r : List Char) (h : tests c = [false, false, false, false, false, false,
    false, false, false, true, false, false, false]) : nextNormal c r = (.CARET, 1, false) := by
  simp only [tests, List.cons.injEq, and_true] at h
  obtain ⟨h1, h2, h3, h4, h5, h6, h7, h8, h9, h10, h11, h12, h13⟩ := h
  unfold nextNormal
  nn_neg h1; nn_neg h2; nn_neg h3; nn_neg h4; nn_neg h5; nn_neg h6; nn_neg h7; nn_neg h8; nn_neg h9
  nn_pos h10

theorem nn_pct (c : Char) (r : List Char) (h : tests c = [false, false, false, false, false, false,
    false, false, false, false, true, false, false]) : nextNormal c r = (.PERCENTAGE, 1, false) := by
  simp only [tests, List.cons.injEq, and_true] at h
  obtain ⟨h1, h2, h3, h4, h5, h6, h7, h8, h9, h10, h11, h12, h13⟩ := h
  unfold nextNormal
  nn_neg h1; nn_neg h2; nn_neg h3; nn_neg h4; nn_neg h5; nn_neg h6; nn_neg h7; nn_neg h8; nn_neg h9
  nn_neg h10; nn_pos h11

theorem nn_open (c : Char) (r : List Char) (h : tests c = [false, false, false, false, false, false,
    false, false, false, false, false, true, false]) : nextNormal c r = (.OPEN_PAREN, 1, false) := by
  simp only [tests, List.cons.injEq, and_true] at h
  obtain ⟨h1, h2, h3, h4, h5, h6, h7, h8, h9, h10, h11, h12, h13⟩ := h
  unfold nextNormal
  nn_neg h1; nn_neg h2; nn_neg h3; nn_neg h4; nn_neg h5; nn_neg h6; nn_neg h7; nn_neg h8; nn_neg h9
  nn_neg h10; nn_neg h11; nn_pos h12

theorem nn_close (c : Char) (r : List Char) (h : tests c = [false, false, false, false, false, false,
    false, false, false, false, false, false, true]) : nextNormal c r = (.CLOSE_PAREN, 1, false) := by
  simp only [tests, List.cons.injEq, and_true] at h
  obtain ⟨h1, h2, h3, h4, h5, h6, h7, h8, h9, h10, h11, h12, h13⟩ := h
  unfold nextNormal
  nn_neg h1; nn_neg h2; nn_neg h3; nn_neg h4; nn_neg h5; nn_neg h6; nn_neg h7; nn_neg h8; nn_neg h9
  nn_neg h10; nn_neg h11; nn_neg h12; nn_pos h13

theorem nn_word (c : Char) (r : List Char) (h : tests c = [false, false, false, false, false, false,
    false, false, false, false, false, false, false])
    (hn : countWhile isWordChar (c :: r) > 0)
    (hto : ((c :: r).take (countWhile isWordChar (c :: r)) == ['t', 'o']) = false) :
    nextNormal c r = (.WORD, countWhile isWordChar (c :: r), false) := by
  simp only [tests, List.cons.injEq, and_true] at h
  obtain ⟨h1, h2, h3, h4, h5, h6, h7, h8, h9, h10, h11, h12, h13⟩ := h
  unfold nextNormal
  nn_neg h1; nn_neg h2; nn_neg h3; nn_neg h4; nn_neg h5; nn_neg h6; nn_neg h7; nn_neg h8; nn_neg h9
  nn_neg h10; nn_neg h11; nn_neg h12; nn_neg h13
  simp only [hn, ↓reduceIte, hto, Bool.false_eq_true]

/-! ### Token streams -/

/-- The lexer turns `s` into `ts` (with any sufficient fuel, in normal mode). -/
def Lexes (s : List Char) (ts : List Token) : Prop :=
  ∀ fuel, s.length ≤ fuel → lexFuel fuel false s = ts

theorem lexes_nil : Lexes [] [] := by
  intro fuel _
  cases fuel <;> rfl

theorem lexes_lex {s : List Char} {ts : List Token} (h : Lexes s ts) : lex s = ts :=
  h _ (Nat.le_refl _)

/-- One token: `nextNormal` on the first character gives kind `k` and the length of `text`. -/
theorem lexes_cons {c : Char} {r text rest : List Char} {k : Syntax} {ts : List Token}
    (hsplit : text ++ rest = c :: r) (hne : text ≠ [])
    (hn : nextNormal c r = (k, text.length, false))
    (h : Lexes rest ts) : Lexes (text ++ rest) (⟨k, text⟩ :: ts) := by
  intro fuel hf
  have hpos : 0 < text.length := List.length_pos_of_ne_nil hne
  obtain ⟨fuel', rfl⟩ : ∃ f, fuel = f + 1 := ⟨fuel - 1, by simp at hf; omega⟩
  have hstep : step false (text ++ rest) = some (⟨k, text⟩, rest, false) := by
    rw [hsplit]
    simp only [step, nextTok, Bool.false_eq_true, ↓reduceIte, hn]
    rw [← hsplit, List.take_left', List.drop_left'] <;> rfl
  simp only [lexFuel, hstep]
  rw [h fuel' (by simp at hf; omega)]

/-! ### Heads of character lists -/

/-- Every possible first character satisfies `P` (vacuous for the empty list). -/
def Head (P : Char → Prop) (s : List Char) : Prop := ∀ c r, s = c :: r → P c

theorem head_nil (P : Char → Prop) : Head P [] := fun _ _ h => by cases h

theorem head_cons {P : Char → Prop} {c : Char} {r : List Char} (h : P c) : Head P (c :: r) :=
  fun c' _ h' => by cases h'; exact h

theorem head_mono {P Q : Char → Prop} {s : List Char} (h : Head P s) (hpq : ∀ c, P c → Q c) :
    Head Q s := fun c r hs => hpq c (h c r hs)

theorem head_append {P : Char → Prop} {a b : List Char} (ha : ∀ c ∈ a, P c) (hb : Head P b) :
    Head P (a ++ b) := by
  cases a with
  | nil => simpa using hb
  | cons c a' => exact head_cons (ha c (by simp))

/-- First characters of an operand. -/
def operandStarts : List Char :=
  ['0', '1', '2', '3', '4', '5', '6', '7', '8', '9', '.', '+', '-', '(', 'r', 'f', 'c']
/-- First characters of an operand that does not begin with an unsigned literal. -/
def signedStarts : List Char := ['+', '-', '(', 'r', 'f', 'c']
/-- Characters that may follow an expression. -/
def stops : List Char := ['+', '-', '*', '/', '^', ')', ',']

def ExprStop (s : List Char) : Prop := Head (fun c => isWhitespace c = true ∨ c ∈ stops) s
def NoWS (s : List Char) : Prop := Head (fun c => isWhitespace c = false) s

theorem ws_not_num {c : Char} (h : isWhitespace c = true) :
    isDigit c = false ∧ c ≠ '.' ∧ c ≠ 'e' ∧ c ≠ 'E' ∧ c ≠ '*' ∧ c ≠ '%' := by
  refine ⟨?_, ?_, ?_, ?_, ?_, ?_⟩
  · cases hd : isDigit c with
    | false => rfl
    | true =>
      exfalso
      have h0 : '0'.toNat = 48 := by decide
      have h9 : '9'.toNat = 57 := by decide
      simp only [isDigit, h0, h9, Bool.and_eq_true, decide_eq_true_eq] at hd
      simp only [isWhitespace, Bool.or_eq_true, Bool.and_eq_true, decide_eq_true_eq,
        beq_iff_eq] at h
      omega
  all_goals (intro hc; subst hc; revert h; decide)

theorem exprStop_numStop {s : List Char} (h : ExprStop s) : NumStop s := by
  intro c r hs
  rcases h c r hs with hw | hm
  · obtain ⟨a, b, c', d, _⟩ := ws_not_num hw
    exact ⟨a, b, c', d⟩
  · have : ∀ c ∈ stops, isDigit c = false ∧ c ≠ '.' ∧ c ≠ 'e' ∧ c ≠ 'E' := by decide
    exact this c hm

theorem exprStop_blank {b s : List Char} (hb : Blank b) (hs : ExprStop s) : ExprStop (b ++ s) :=
  head_append (fun c hc => Or.inl (hb c hc)) hs

theorem operandStart_facts : ∀ c ∈ operandStarts, isWhitespace c = false ∧ c ≠ '*' := by decide

theorem signedStart_facts : ∀ c ∈ signedStarts,
    isDigit c = false ∧ c ≠ '.' ∧ c ≠ 'e' ∧ c ≠ 'E' := by decide

theorem stops_noWS : ∀ c ∈ stops, isWhitespace c = false := by decide

theorem digitChar_mem {d : Nat} (h : d < 10) : digitChar d ∈ operandStarts := by
  have : ∀ d : Fin 10, digitChar d.val ∈ operandStarts := by decide
  exact this ⟨d, h⟩

theorem signed_sub : ∀ c ∈ signedStarts, c ∈ operandStarts := by decide

/-- The first character of a rendered expression. -/
theorem render_head : ∀ (e : NExpr) (ws : Layout), LayoutOK e ws →
    ∃ c r, (Arith.render e ws).1 = c :: r ∧ c ∈ operandStarts ∧
      (startsUnsigned e = false → c ∈ signedStarts)
  | .lit l, ws, h => by
    have hwf : l.WF := h.1
    have hnum : ∃ c r, renderNumber l = c :: r ∧ c ∈ operandStarts ∧
        (l.sign.isNone = false → c ∈ signedStarts) := by
      rw [renderNumber_eq]
      cases hs : l.sign with
      | some sg => cases sg <;> exact ⟨_, _, rfl, by decide, fun _ => by decide⟩
      | none =>
        simp only [renderSign, List.nil_append, Option.isNone_none, reduceCtorEq, false_implies,
          and_true]
        cases hi : l.int with
        | cons d ds =>
          have : d < 10 := hwf.1 d (by simp [hi])
          exact ⟨digitChar d, List.map digitChar ds ++ (renderFrac l.frac ++ renderExp l.exp),
            by simp [body, hi], digitChar_mem this⟩
        | nil =>
          cases hf : l.frac with
          | none =>
            have := hwf.2.2.1
            simp [hi, fracDigits, hf] at this
          | some fs => exact ⟨'.', List.map digitChar fs ++ renderExp l.exp,
              by simp [body, hi, hf, renderFrac], by decide⟩
    obtain ⟨c, r, hr, hc, hsg⟩ := hnum
    rw [render_lit]
    split
    · exact ⟨c, r ++ (blank1 ws ++ ['%']), by simp [hr], hc, hsg⟩
    · exact ⟨c, r, hr, hc, hsg⟩
  | .bin op a b, ws, h => by
    obtain ⟨c, r, hr, hc, hsg⟩ := render_head a ws h.1
    rw [render_bin]
    exact ⟨c, _, by simp only [hr, List.cons_append]; rfl, hc, hsg⟩
  | .paren e, ws, _ => by
    rw [render_paren]
    exact ⟨'(', _, by simp only [List.cons_append, List.nil_append]; rfl, by decide,
      fun _ => by decide⟩
  | .call f args, ws, _ => by
    rw [render_call]
    cases f <;> exact ⟨_, _, by simp only [Fn.name]; rfl, by decide,
      fun _ => by decide⟩

/-! ### Lexing one token of a rendering -/

theorem cw_ws (b rest : List Char) (hb : Blank b) (hr : NoWS rest) :
    countWhile isWhitespace (b ++ rest) = b.length := by
  induction b with
  | nil =>
    cases rest with
    | nil => rfl
    | cons c r => simp [countWhile, hr c r rfl]
  | cons c b ih =>
    simp only [List.cons_append, countWhile, hb c (by simp), ↓reduceIte, List.length_cons]
    rw [ih (fun x hx => hb x (by simp [hx]))]
    omega

theorem lex_blank {b rest : List Char} {ts : List Token} (hb : Blank b) (hr : NoWS rest)
    (h : Lexes rest ts) : Lexes (b ++ rest) (blankTok b ++ ts) := by
  cases b with
  | nil => simpa [blankTok] using h
  | cons c b' =>
    simp only [blankTok, reduceCtorEq, ↓reduceIte, List.singleton_append]
    refine lexes_cons (c := c) (r := b' ++ rest) rfl (by simp) ?_ h
    rw [nn_ws c _ (hb c (by simp)), cw_ws b' rest (fun x hx => hb x (by simp [hx])) hr]
    simp [Nat.add_comm]

theorem digit_tests {d : Nat} (h : d < 10) : tests (digitChar d) =
    [false, false, false, false, true, false, false, false, false, false, false, false, false] := by
  have : ∀ d : Fin 10, tests (digitChar d.val) =
    [false, false, false, false, true, false, false, false, false, false, false, false, false] := by
    decide
  exact this ⟨d, h⟩

theorem lex_number {l : Literal} {rest : List Char} {ts : List Token} (hwf : l.WF)
    (hr : NumStop rest) (h : Lexes rest ts) :
    Lexes (renderNumber l ++ rest) (⟨.NUMBER, renderNumber l⟩ :: ts) := by
  have hb := cn_body l hwf rest hr
  have hne := body_ne_nil l hwf
  cases hs : l.sign with
  | some sg =>
    have hpos : countNumber false (body l ++ rest) > 0 := by
      rw [hb]; exact List.length_pos_of_ne_nil hne
    cases sg with
    | plus =>
      refine lexes_cons (c := '+') (r := body l ++ rest)
        (by simp [renderNumber_eq, hs, renderSign]) (by simp [renderNumber_eq, hs, renderSign]) ?_ h
      rw [nn_plus _ _ (by decide), if_pos hpos, hb]
      simp [renderNumber_eq, hs, renderSign, Nat.add_comm]
    | minus =>
      refine lexes_cons (c := '-') (r := body l ++ rest)
        (by simp [renderNumber_eq, hs, renderSign]) (by simp [renderNumber_eq, hs, renderSign]) ?_ h
      rw [nn_dash _ _ (by decide), if_pos hpos, hb]
      simp [renderNumber_eq, hs, renderSign, Nat.add_comm]
  | none =>
    have hrn : renderNumber l = body l := by simp [renderNumber_eq, hs, renderSign]
    rw [hrn]
    cases hi : l.int with
    | cons d ds =>
      have hd : d < 10 := hwf.1 d (by simp [hi])
      have hbody : body l = digitChar d :: (ds.map digitChar ++ (renderFrac l.frac ++ renderExp l.exp)) := by
        simp [body, hi]
      refine lexes_cons (c := digitChar d)
        (r := (ds.map digitChar ++ (renderFrac l.frac ++ renderExp l.exp)) ++ rest)
        (by rw [hbody]; rfl) hne ?_ h
      rw [nn_digit _ _ (digit_tests hd), ← List.cons_append, ← hbody, hb]
    | nil =>
      cases hf : l.frac with
      | none =>
        have := hwf.2.2.1
        simp [hi, fracDigits, hf] at this
      | some fs =>
        have hfs : ∀ d ∈ fs, d < 10 := by
          intro d hd; apply hwf.2.1; simp [fracDigits, hf, hd]
        have hfne : fs ≠ [] := by
          have := hwf.2.2.1
          simpa [hi, fracDigits, hf] using this
        have hbody : body l = '.' :: (fs.map digitChar ++ renderExp l.exp) := by
          simp [body, hi, hf, renderFrac]
        have hcn : countNumber true ((fs.map digitChar ++ renderExp l.exp) ++ rest) =
            (fs.map digitChar ++ renderExp l.exp).length := by
          rw [List.append_assoc, cn_digits fs hfs, cn_exp true l.exp rest (lit_exp_wf hwf) hr]
          simp
        refine lexes_cons (c := '.') (r := (fs.map digitChar ++ renderExp l.exp) ++ rest)
          (by rw [hbody]; rfl) hne ?_ h
        rw [nn_dot _ _ (by decide) (by
          rw [hcn]
          have := List.length_pos_of_ne_nil hfne
          simp only [List.length_append, List.length_map]; omega), hcn, hbody]
        simp [Nat.add_comm]

theorem lex_op {op : BinOp} {rest : List Char} {ts : List Token}
    (h1 : Head (fun c => c ≠ '*') rest) (h2 : (op = .add ∨ op = .sub) → NumStop rest)
    (h : Lexes rest ts) : Lexes (op.sym ++ rest) (opTok op :: ts) := by
  cases op with
  | add =>
    refine lexes_cons (c := '+') (r := rest) rfl (by simp [BinOp.sym]) ?_ h
    rw [nn_plus _ _ (by decide), cn_stop false rest (h2 (Or.inl rfl))]; rfl
  | sub =>
    refine lexes_cons (c := '-') (r := rest) rfl (by simp [BinOp.sym]) ?_ h
    rw [nn_dash _ _ (by decide), cn_stop false rest (h2 (Or.inr rfl))]; rfl
  | mul =>
    refine lexes_cons (c := '*') (r := rest) rfl (by simp [BinOp.sym]) ?_ h
    rw [nn_star _ _ (by decide) (fun r' hr => h1 '*' r' hr rfl)]; rfl
  | div =>
    refine lexes_cons (c := '/') (r := rest) rfl (by simp [BinOp.sym]) ?_ h
    rw [nn_slash _ _ (by decide)]; rfl
  | pow =>
    refine lexes_cons (c := '^') (r := rest) rfl (by simp [BinOp.sym]) ?_ h
    rw [nn_caret _ _ (by decide)]; rfl

theorem lex_open {rest : List Char} {ts : List Token} (h : Lexes rest ts) :
    Lexes (['('] ++ rest) (⟨.OPEN_PAREN, ['(']⟩ :: ts) :=
  lexes_cons (c := '(') (r := rest) rfl (by simp) (by rw [nn_open _ _ (by decide)]; rfl) h

theorem lex_close {rest : List Char} {ts : List Token} (h : Lexes rest ts) :
    Lexes ([')'] ++ rest) (⟨.CLOSE_PAREN, [')']⟩ :: ts) :=
  lexes_cons (c := ')') (r := rest) rfl (by simp) (by rw [nn_close _ _ (by decide)]; rfl) h

theorem lex_comma {rest : List Char} {ts : List Token} (h : Lexes rest ts) :
    Lexes ([','] ++ rest) (⟨.COMMA, [',']⟩ :: ts) :=
  lexes_cons (c := ',') (r := rest) rfl (by simp) (by rw [nn_comma _ _ (by decide)]; rfl) h

theorem lex_pct {rest : List Char} {ts : List Token} (h : Lexes rest ts) :
    Lexes (['%'] ++ rest) (⟨.PERCENTAGE, ['%']⟩ :: ts) :=
  lexes_cons (c := '%') (r := rest) rfl (by simp) (by rw [nn_pct _ _ (by decide)]; rfl) h

theorem cw_word (name : List Char) (x : Char) (r : List Char)
    (hn : ∀ c ∈ name, isWordChar c = true) (hx : isWordChar x = false) :
    countWhile isWordChar (name ++ x :: r) = name.length := by
  induction name with
  | nil => simp [countWhile, hx]
  | cons c name ih =>
    simp only [List.cons_append, countWhile, hn c (by simp), ↓reduceIte, List.length_cons]
    rw [ih (fun y hy => hn y (by simp [hy]))]
    omega

theorem lex_word {f : Fn} {rest : List Char} {ts : List Token} (h : Lexes ('(' :: rest) ts) :
    Lexes (f.name ++ '(' :: rest) (⟨.WORD, f.name⟩ :: ts) := by
  have hw : ∀ c ∈ f.name, isWordChar c = true := by cases f <;> decide
  have hcw := cw_word f.name '(' rest hw (by decide)
  obtain ⟨c, r, hcr, ht⟩ : ∃ c r, f.name = c :: r ∧ tests c =
      [false, false, false, false, false, false, false, false, false, false, false, false, false] := by
    cases f <;> exact ⟨_, _, rfl, by decide⟩
  have hsplit : f.name ++ '(' :: rest = c :: (r ++ '(' :: rest) := by rw [hcr]; rfl
  refine lexes_cons (c := c) (r := r ++ '(' :: rest) hsplit (by rw [hcr]; simp) ?_ h
  rw [nn_word c (r ++ '(' :: rest) ht (by rw [← hsplit, hcw, hcr]; simp) (by
    rw [← hsplit, hcw, List.take_left']
    · cases f <;> decide
    · rfl), ← hsplit, hcw]

/-! ### Lexing a rendered expression -/

theorem sym_stop (op : BinOp) (r : List Char) : ExprStop (op.sym ++ r) := by
  cases op <;> exact head_cons (Or.inr (by decide))

theorem sym_noWS (op : BinOp) (r : List Char) : NoWS (op.sym ++ r) := by
  cases op <;> exact head_cons (by decide)

theorem noWS_of_start {s r : List Char} {c : Char} (hs : s = c :: r) (hc : c ∈ operandStarts)
    (rest : List Char) : NoWS (s ++ rest) := by
  rw [hs]; exact head_cons (operandStart_facts c hc).1

/-- What may follow a binary operator: a blank and then an operand. -/
theorem after_op {b2 sb r rest : List Char} {c : Char} (hb : Blank b2) (hs : sb = c :: r)
    (hc : c ∈ operandStarts) :
    Head (fun c => c ≠ '*') (b2 ++ (sb ++ rest)) ∧
    ((b2 = [] → c ∈ signedStarts) → NumStop (b2 ++ (sb ++ rest))) := by
  constructor
  · refine head_append (fun x hx => (ws_not_num (hb x hx)).2.2.2.2.1) ?_
    rw [hs]; exact head_cons (operandStart_facts c hc).2
  · intro hsg
    cases b2 with
    | nil =>
      rw [hs]
      exact head_cons (signedStart_facts c (hsg rfl))
    | cons x b2' =>
      obtain ⟨a1, a2, a3, a4, _⟩ := ws_not_num (hb x (by simp))
      exact head_cons ⟨a1, a2, a3, a4⟩

mutual
theorem lex_e : ∀ (e : NExpr) (ws : Layout) (rest : List Char) (ts : List Token),
    LayoutOK e ws → ExprStop rest → Lexes rest ts →
    Lexes ((Arith.render e ws).1 ++ rest) (toks e ws ++ ts)
  | .lit l, ws, rest, ts, hl, hs, h => by
    rw [render_lit]
    simp only [toks]
    by_cases hp : l.percent = true
    · simp only [hp, ↓reduceIte, List.append_assoc, List.cons_append, List.nil_append]
      have hb := hl.2 hp
      refine lex_number hl.1 ?_ (lex_blank hb (head_cons (by decide)) (lex_pct h))
      intro c r hcr
      cases hbl : blank1 ws with
      | nil =>
        rw [hbl] at hcr
        simp only [List.nil_append, List.cons.injEq] at hcr
        rw [← hcr.1]; decide
      | cons x b' =>
        rw [hbl] at hcr
        simp only [List.cons_append, List.cons.injEq] at hcr
        obtain ⟨a1, a2, a3, a4, _⟩ := ws_not_num (hb x (by simp [hbl]))
        rw [← hcr.1]; exact ⟨a1, a2, a3, a4⟩
    · have hp' : l.percent = false := by simpa using hp
      simp only [hp', Bool.false_eq_true, ↓reduceIte, List.cons_append, List.nil_append]
      exact lex_number hl.1 (exprStop_numStop hs) h
  | .bin op a b, ws, rest, ts, hl, hs, h => by
    obtain ⟨ha, hb1, hb2, hb, hsg⟩ := hl
    obtain ⟨c, r, hcr, hc, hcs⟩ := render_head b _ hb
    rw [render_bin]
    simp only [toks, List.append_assoc]
    obtain ⟨ao1, ao2⟩ := after_op (rest := rest) hb2 hcr hc
    refine lex_e a ws _ _ ha (exprStop_blank hb1 (sym_stop op _))
      (lex_blank hb1 (sym_noWS op _) (lex_op ao1 (fun hop => ao2 fun hnil => hcs (hsg hop hnil))
        (lex_blank hb2 (noWS_of_start hcr hc rest) (lex_e b _ rest ts hb hs h))))
  | .paren e, ws, rest, ts, hl, hs, h => by
    obtain ⟨hb1, he, hb2⟩ := hl
    obtain ⟨c, r, hcr, hc, _⟩ := render_head e _ he
    rw [render_paren]
    simp only [toks, List.append_assoc]
    exact lex_open (lex_blank hb1 (noWS_of_start hcr hc _)
      (lex_e e _ _ _ he (exprStop_blank hb2 (head_cons (Or.inr (by decide))))
        (lex_blank hb2 (head_cons (by decide)) (lex_close h))))
  | .call f args, ws, rest, ts, hl, hs, h => by
    obtain ⟨hb1, hargs, hb2⟩ := hl
    rw [render_call]
    simp only [toks, List.append_assoc, List.cons_append, List.nil_append]
    refine lex_word (lex_open ?_)
    match args, hargs, hb2 with
    | [], _, hb2 =>
      simp only [renderArgs_nil, List.nil_append]
      have hbb : Blank (blank1 ws ++ blank1 (rest1 ws)) := by
        intro c hc
        rcases List.mem_append.mp hc with hc | hc
        · exact hb1 c hc
        · simp only [afterArgs, renderArgs_nil] at hb2
          exact hb2 c hc
      simp only [afterArgs, renderArgs_nil]
      have := lex_blank hbb (head_cons (by decide)) (lex_close h)
      simpa [List.append_assoc] using this
    | e :: es, hargs, hb2 =>
      have hhead : NoWS ((renderArgs (e :: es) (rest1 ws)).1 ++
          (blank1 (afterArgs (e :: es) (rest1 ws)) ++ ([')'] ++ rest))) := by
        cases es with
        | nil =>
          obtain ⟨c, r, hcr, hc, _⟩ := render_head e _ hargs
          rw [renderArgs_one]; exact noWS_of_start hcr hc _
        | cons e' es' =>
          obtain ⟨c, r, hcr, hc, _⟩ := render_head e _ hargs.1
          rw [renderArgs_cons]
          simp only [List.append_assoc]
          exact noWS_of_start hcr hc _
      simp only [List.append_assoc]
      exact lex_blank hb1 hhead (lex_args (e :: es) _ _ _ hargs
        (exprStop_blank hb2 (head_cons (Or.inr (by decide))))
        (lex_blank hb2 (head_cons (by decide)) (lex_close h)))
theorem lex_args : ∀ (es : List NExpr) (ws : Layout) (rest : List Char) (ts : List Token),
    LayoutOKArgs es ws → ExprStop rest → Lexes rest ts →
    Lexes ((renderArgs es ws).1 ++ rest) (toksArgs es ws ++ ts)
  | [], ws, rest, ts, _, _, h => by
    simpa [renderArgs_nil, toksArgs] using h
  | [e], ws, rest, ts, hl, hs, h => by
    rw [renderArgs_one]
    simp only [toksArgs]
    exact lex_e e ws rest ts hl hs h
  | e :: e' :: es, ws, rest, ts, hl, hs, h => by
    obtain ⟨he, hb1, hb2, hrest⟩ := hl
    have hhead : NoWS ((renderArgs (e' :: es) (rest1 (rest1 (after e ws)))).1 ++ rest) := by
      cases es with
      | nil =>
        obtain ⟨c, r, hcr, hc, _⟩ := render_head e' _ hrest
        rw [renderArgs_one]; exact noWS_of_start hcr hc _
      | cons e'' es' =>
        obtain ⟨c, r, hcr, hc, _⟩ := render_head e' _ hrest.1
        rw [renderArgs_cons]
        simp only [List.append_assoc]
        exact noWS_of_start hcr hc _
    rw [renderArgs_cons]
    simp only [toksArgs, List.append_assoc]
    exact lex_e e ws _ _ he (exprStop_blank hb1 (head_cons (Or.inr (by decide))))
      (lex_blank hb1 (head_cons (by decide)) (lex_comma (lex_blank hb2 hhead
        (lex_args (e' :: es) _ rest ts hrest hs h))))
end

/-- The lexer on a rendered query. -/
theorem lex_query (e : NExpr) (ws : Layout) (h : QueryLayoutOK e ws) :
    lex (renderQuery e ws) = queryToks e ws := by
  obtain ⟨hb0, he, hb1⟩ := h
  obtain ⟨c, r, hcr, hc, _⟩ := render_head e _ he
  apply lexes_lex
  have : renderQuery e ws = blank1 ws ++ ((Arith.render e (rest1 ws)).1 ++
      (blank1 (after e (rest1 ws)) ++ [])) := by
    simp [renderQuery]
  rw [this]
  have h2 : queryToks e ws = blankTok (blank1 ws) ++ (toks e (rest1 ws) ++
      (blankTok (blank1 (after e (rest1 ws))) ++ [])) := by
    simp [queryToks]
  rw [h2]
  exact lex_blank hb0 (noWS_of_start hcr hc _)
    (lex_e e _ _ _ he (exprStop_blank hb1 (head_nil _)) (lex_blank hb1 (head_nil _) lexes_nil))

/-! ### `Lexes` is what `lex` computes -/

theorem lexFuel_irrelevant : ∀ (f1 f2 : Nat) (e : Bool) (s : List Char), s.length ≤ f1 →
    s.length ≤ f2 → lexFuel f1 e s = lexFuel f2 e s := by
  intro f1
  induction f1 with
  | zero =>
    intro f2 e s h1 _
    have : s = [] := List.eq_nil_of_length_eq_zero (by omega)
    subst this
    cases f2 <;> rfl
  | succ n ih =>
    intro f2 e s h1 h2
    cases hs : s with
    | nil => cases f2 <;> rfl
    | cons c cs =>
      subst hs
      obtain ⟨t, rest, e', hstep, _, _, hlt⟩ := Props.C12.C12_progress e (c :: cs) (by simp)
      obtain ⟨m, rfl⟩ : ∃ m, f2 = m + 1 := ⟨f2 - 1, by simp at h2; omega⟩
      simp only [lexFuel, hstep]
      rw [ih m e' rest (by simp at h1 hlt; omega) (by simp at h2 hlt; omega)]

theorem lexes_lex_self (s : List Char) : Lexes s (lex s) := by
  intro fuel hf
  exact lexFuel_irrelevant fuel s.length false s hf (Nat.le_refl _)

/-! ### The default layout (one space at every blank position) is admissible -/

theorem rest1_nil : rest1 [] = [] := rfl

mutual
theorem after_nil : ∀ e : NExpr, (Arith.render e []).2 = []
  | .lit l => by rw [render_lit]; split <;> rfl
  | .bin op a b => by
    rw [render_bin]
    simp only [after, after_nil a, rest1_nil]
    exact after_nil b
  | .paren e => by
    rw [render_paren]
    simp only [after, rest1_nil, after_nil e]
  | .call f args => by
    rw [render_call]
    simp only [afterArgs, rest1_nil, afterArgs_nil args]
theorem afterArgs_nil : ∀ es : List NExpr, (renderArgs es []).2 = []
  | [] => by rw [renderArgs_nil]
  | [e] => by rw [renderArgs_one]; exact after_nil e
  | e :: e' :: es => by
    rw [renderArgs_cons]
    simp only [after, afterArgs, after_nil e, rest1_nil]
    exact afterArgs_nil (e' :: es)
end

theorem blank_default : Blank (blank1 []) := by
  intro c hc
  simp only [blank1, nextBlank, List.mem_singleton] at hc
  subst hc; decide

mutual
theorem layoutOK_nil : ∀ e : NExpr, WF e → LayoutOK e []
  | .lit l, h => ⟨h, fun _ => blank_default⟩
  | .bin op a b, h => by
    simp only [WF] at h
    simp only [LayoutOK, after, after_nil a]
    exact ⟨layoutOK_nil a h.1, blank_default, blank_default, layoutOK_nil b h.2.1,
      fun _ hb => by simp [blank1, rest1, nextBlank] at hb⟩
  | .paren e, h => by
    simp only [WF] at h
    simp only [LayoutOK]
    refine ⟨blank_default, layoutOK_nil e h, ?_⟩
    show Blank (blank1 (Arith.render e []).2)
    rw [after_nil e]; exact blank_default
  | .call f args, h => by
    simp only [WF] at h
    simp only [LayoutOK]
    refine ⟨blank_default, layoutOKArgs_nil args h, ?_⟩
    show Blank (blank1 (renderArgs args []).2)
    rw [afterArgs_nil args]; exact blank_default
theorem layoutOKArgs_nil : ∀ es : List NExpr, WFList es → LayoutOKArgs es []
  | [], _ => trivial
  | [e], h => by
    simp only [WFList] at h
    simp only [LayoutOKArgs]
    exact layoutOK_nil e h.1
  | e :: e' :: es, h => by
    simp only [WFList] at h
    simp only [LayoutOKArgs, after, after_nil e]
    exact ⟨layoutOK_nil e h.1, blank_default, blank_default,
      layoutOKArgs_nil (e' :: es) (by simp only [WFList]; exact h.2)⟩
end

/-- Every well-formed expression has an admissible layout: the default one. -/
theorem queryLayoutOK_nil (e : NExpr) (h : WF e) : QueryLayoutOK e [] := by
  refine ⟨blank_default, layoutOK_nil e h, ?_⟩
  show Blank (blank1 (Arith.render e []).2)
  rw [after_nil e]; exact blank_default

end Anything.C06
