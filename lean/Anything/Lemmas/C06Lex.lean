import Anything.Lemmas.C06Defs
import Anything.Lemmas.Number
/-!
# C06, stage C — the token list of a rendered expression

`toks e ws` is the in-order token list of `e` with one WHITESPACE token per non-empty blank of
the layout `ws`; `LayoutOK e ws` are the side conditions of the property on the layout;
`lex_render`: the lexer produces exactly `toks e ws` on `render e ws`.
-/

namespace Anything.C06
open Anything Anything.Lexer Anything.Spec Anything.Spec.Arith Anything.Spec.Decimal
open Anything.Lemmas.Number

/-! ### Definitions -/

/-- A blank: white space only (possibly empty). -/
def Blank (b : List Char) : Prop := ∀ c ∈ b, isWhitespace c = true

/-- The token of a blank: none for the empty blank. -/
def blankTok (b : List Char) : List Token := if b = [] then [] else [⟨.WHITESPACE, b⟩]

def opTok : BinOp → Token
  | .add => ⟨.PLUS, ['+']⟩
  | .sub => ⟨.DASH, ['-']⟩
  | .mul => ⟨.STAR, ['*']⟩
  | .div => ⟨.SLASH, ['/']⟩
  | .pow => ⟨.CARET, ['^']⟩

/-- The layout that remains after rendering. -/
abbrev after (e : NExpr) (ws : Layout) : Layout := (render e ws).2
abbrev afterArgs (es : List NExpr) (ws : Layout) : Layout := (renderArgs es ws).2
/-- The `n`-th blank of a layout and the layout after `n` blanks. -/
abbrev blank1 (ws : Layout) : List Char := (nextBlank ws).1
abbrev rest1 (ws : Layout) : Layout := (nextBlank ws).2

mutual
/-- In-order token list of an expression under a layout (threaded exactly as in `render`). -/
def toks : NExpr → Layout → List Token
  | .lit l, ws =>
    if l.percent then
      [⟨.NUMBER, renderNumber l⟩] ++ blankTok (blank1 ws) ++ [⟨.PERCENTAGE, ['%']⟩]
    else [⟨.NUMBER, renderNumber l⟩]
  | .bin op a b, ws =>
    let ws1 := after a ws
    toks a ws ++ blankTok (blank1 ws1) ++ [opTok op] ++ blankTok (blank1 (rest1 ws1)) ++
      toks b (rest1 (rest1 ws1))
  | .paren e, ws =>
    [⟨.OPEN_PAREN, ['(']⟩] ++ blankTok (blank1 ws) ++ toks e (rest1 ws) ++
      blankTok (blank1 (after e (rest1 ws))) ++ [⟨.CLOSE_PAREN, [')']⟩]
  | .call f args, ws =>
    [⟨.WORD, f.name⟩, ⟨.OPEN_PAREN, ['(']⟩] ++
      (match args with
        | [] => blankTok (blank1 ws ++ blank1 (rest1 ws))
        | _ => blankTok (blank1 ws) ++ toksArgs args (rest1 ws) ++
                blankTok (blank1 (afterArgs args (rest1 ws)))) ++
      [⟨.CLOSE_PAREN, [')']⟩]
def toksArgs : List NExpr → Layout → List Token
  | [], _ => []
  | [e], ws => toks e ws
  | e :: e' :: es, ws =>
    let ws1 := after e ws
    toks e ws ++ blankTok (blank1 ws1) ++ [⟨.COMMA, [',']⟩] ++ blankTok (blank1 (rest1 ws1)) ++
      toksArgs (e' :: es) (rest1 (rest1 ws1))
end

/-- The leftmost operand is a literal written without a sign. -/
def startsUnsigned : NExpr → Bool
  | .lit l => l.sign.isNone
  | .bin _ a _ => startsUnsigned a
  | _ => false

mutual
/-- The side conditions of the property on a layout: every blank position holds white space
only (possibly nothing), and a binary `+` / `-` directly followed by an unsigned literal is
followed by at least one blank (otherwise the lexer reads the sign as part of the literal).
Every literal is well formed. -/
def LayoutOK : NExpr → Layout → Prop
  | .lit l, ws => l.WF ∧ (l.percent = true → Blank (blank1 ws))
  | .bin op a b, ws =>
    let ws1 := after a ws
    LayoutOK a ws ∧ Blank (blank1 ws1) ∧ Blank (blank1 (rest1 ws1)) ∧
      LayoutOK b (rest1 (rest1 ws1)) ∧
      ((op = .add ∨ op = .sub) → blank1 (rest1 ws1) = [] → startsUnsigned b = false)
  | .paren e, ws =>
    Blank (blank1 ws) ∧ LayoutOK e (rest1 ws) ∧ Blank (blank1 (after e (rest1 ws)))
  | .call _ args, ws =>
    Blank (blank1 ws) ∧ LayoutOKArgs args (rest1 ws) ∧
      Blank (blank1 (afterArgs args (rest1 ws)))
def LayoutOKArgs : List NExpr → Layout → Prop
  | [], _ => True
  | [e], ws => LayoutOK e ws
  | e :: e' :: es, ws =>
    let ws1 := after e ws
    LayoutOK e ws ∧ Blank (blank1 ws1) ∧ Blank (blank1 (rest1 ws1)) ∧
      LayoutOKArgs (e' :: es) (rest1 (rest1 ws1))
end

/-- Side conditions on the layout of a whole query: leading blank, expression, trailing blank. -/
def QueryLayoutOK (e : NExpr) (ws : Layout) : Prop :=
  Blank (blank1 ws) ∧ LayoutOK e (rest1 ws) ∧ Blank (blank1 (after e (rest1 ws)))

/-- Token list of a whole query. -/
def queryToks (e : NExpr) (ws : Layout) : List Token :=
  blankTok (blank1 ws) ++ toks e (rest1 ws) ++ blankTok (blank1 (after e (rest1 ws)))

/-! ### Rendering in projection form -/

theorem render_lit (l : Literal) (ws : Layout) :
    render (.lit l) ws = if l.percent then (renderNumber l ++ blank1 ws ++ ['%'], rest1 ws)
      else (renderNumber l, ws) := by
  simp only [Arith.render]; rfl

theorem render_bin (op : BinOp) (a b : NExpr) (ws : Layout) :
    render (.bin op a b) ws =
      ((render a ws).1 ++ blank1 (after a ws) ++ op.sym ++ blank1 (rest1 (after a ws)) ++
        (render b (rest1 (rest1 (after a ws)))).1, after b (rest1 (rest1 (after a ws)))) := by
  simp only [Arith.render]

theorem render_paren (e : NExpr) (ws : Layout) :
    render (.paren e) ws =
      (['('] ++ blank1 ws ++ (render e (rest1 ws)).1 ++ blank1 (after e (rest1 ws)) ++ [')'],
        rest1 (after e (rest1 ws))) := by
  simp only [Arith.render]

theorem render_call (f : Fn) (args : List NExpr) (ws : Layout) :
    render (.call f args) ws =
      (f.name ++ ['('] ++ blank1 ws ++ (renderArgs args (rest1 ws)).1 ++
        blank1 (afterArgs args (rest1 ws)) ++ [')'], rest1 (afterArgs args (rest1 ws))) := by
  simp only [Arith.render]

theorem renderArgs_nil (ws : Layout) : renderArgs [] ws = ([], ws) := by simp only [renderArgs]

theorem renderArgs_one (e : NExpr) (ws : Layout) : renderArgs [e] ws = render e ws := by
  simp only [renderArgs]

theorem renderArgs_cons (e e' : NExpr) (es : List NExpr) (ws : Layout) :
    renderArgs (e :: e' :: es) ws =
      ((render e ws).1 ++ blank1 (after e ws) ++ [','] ++ blank1 (rest1 (after e ws)) ++
        (renderArgs (e' :: es) (rest1 (rest1 (after e ws)))).1,
        afterArgs (e' :: es) (rest1 (rest1 (after e ws)))) := by
  simp only [renderArgs]

end Anything.C06
