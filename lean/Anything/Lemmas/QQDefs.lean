import Anything.Model.Eval
import Anything.Spec.Quantity
import Anything.Lemmas.C06Defs
import Anything.Lemmas.KnownUnits
import Anything.Props.C04
/-!
# Quantity expressions end to end — definitions shared by `Lemmas/QQ*.lean` and
`Props/QuantityQuery.lean`

* the items of a written unit expression (`unitItems`): what `Spec.Quantity.renderUnit`
  writes, item by item, with the token kind the lexer gives each item and the node kind
  `Grammar.unit` wraps it in;
* `RepUnit`, `RepresentsQ` (and the levelled `RepresentsQL`): C06's `Represents` extended with
  WITH_UNIT nodes and OP_CAST operators whose right operand is a UNIT node;
* the side conditions of the evaluator theorem (`UnitsOK`, `Determinate`), the relation `Agree`
  between a result of the evaluator and a value of the specification, and `OutcomeQ`.
-/

namespace Anything.QQ
open Anything Anything.Eval Anything.Spec Anything.Spec.Arith Anything.Spec.Decimal
open Anything.Spec.Quantity Anything.Spec.SI Anything.C06

/-! ### Written unit expressions -/

/-- The word a factor is written as: prefix literal directly followed by the name literal. -/
abbrev word (t : RTerm) : List Char := t.pfxLit ++ t.nameLit

/-- The factors written before the `/`. -/
def nums (u : List RTerm) : List RTerm := u.filter (fun t => t.power > 0)
/-- The factors written after the `/`. -/
def dens (u : List RTerm) : List RTerm := u.filter (fun t => t.power < 0)

/-- One item of a written unit expression: the kind of the node `Grammar.unit` builds for it,
the kind of the token the lexer makes of it, and its text. -/
structure UItem where
  kind : Syntax
  tk : Syntax
  text : List Char
  deriving Repr, DecidableEq

def starItem : UItem := ⟨.OP_MUL, .STAR, ['*']⟩
def slashItem : UItem := ⟨.OP_DIV, .SLASH, ['/']⟩
def caretItem : UItem := ⟨.OP_POWER, .CARET, ['^']⟩
def oneItem : UItem := ⟨.NUMBER, .NUMBER, ['1']⟩

/-- `word`, then `^ p` unless `p = 1` (cf. `renderTerm`). -/
def termItems (t : RTerm) (p : Int) : List UItem :=
  ⟨.WORD, .WORD, word t⟩ :: (if p = 1 then [] else [caretItem, ⟨.NUMBER, .NUMBER, renderInt p⟩])

/-- Cf. `joinStar`. -/
def joinItems : List (List UItem) → List UItem
  | [] => []
  | [x] => x
  | x :: y :: xs => x ++ starItem :: joinItems (y :: xs)

/-- The items of `renderUnit u`, in order. -/
def unitItems (u : List RTerm) : List UItem :=
  (if (nums u).isEmpty then [oneItem] else joinItems ((nums u).map (fun t => termItems t t.power))) ++
  (if (dens u).isEmpty then [] else slashItem :: joinItems ((dens u).map (fun t => termItems t (-t.power))))

/-- The tokens of a written unit expression. -/
def unitToks (u : List RTerm) : List Token := (unitItems u).map (fun i => ⟨i.tk, i.text⟩)

/-! ### Trees -/

/-- The tree `x` is a UNIT node whose children with children are, in order, the items of the
written unit expression `u`: same node kinds, same texts. (This is all `eval::unit` looks at.) -/
def RepUnit (x : Tree) (u : List RTerm) : Prop :=
  x.kind = .UNIT ∧
    (opKids x.kids).map (fun y => (y.kind, y.text)) = (unitItems u).map (fun i => (i.kind, i.text))

/-- `FoldRQ R acc [o₁, x₁, …, oₙ, xₙ] e`: C06's `FoldR` with one more step, `cast`: an OP_CAST
operator node followed by a UNIT node extends `acc` to `acc to u`. -/
inductive FoldRQ (R : Tree → QExpr → Prop) : QExpr → List Tree → QExpr → Prop
  | nil (acc : QExpr) : FoldRQ R acc [] acc
  | cons {acc : QExpr} {o x : Tree} {op : BinOp} {b e : QExpr} {rest : List Tree} :
      o.kind = opKind op → R x b → FoldRQ R (.bin op acc b) rest e →
      FoldRQ R acc (o :: x :: rest) e
  | cast {acc : QExpr} {o x : Tree} {u : List RTerm} {e : QExpr} {rest : List Tree} :
      o.kind = .OP_CAST → RepUnit x u → FoldRQ R (.cast acc u) rest e →
      FoldRQ R acc (o :: x :: rest) e

/-- The tree `t` represents the quantity expression `e`.

* `num`: a NUMBER node (with a child) whose source text is the literal;
* `qty`: a WITH_UNIT node whose first child is the NUMBER token of the literal and whose first
  child with children, after it, is a UNIT node spelling the unit expression;
* `paren`: an OPERATION node with exactly one child that has children;
* `chain`: an OPERATION node whose children with children are `x₀ o₁ x₁ … oₙ xₙ` (`n ≥ 1`), each
  `oᵢ xᵢ` an operator node and an operand, or an OP_CAST node and a UNIT node; it represents the
  left-nested expression. -/
inductive RepresentsQ : Tree → QExpr → Prop
  | num {t : Tree} {l : Literal} : t.kind = .NUMBER → t.hasChildren = true →
      t.text = renderNumber l → RepresentsQ t (.num l)
  | qty {id : Nat} {v un : Tree} {rest more : List Tree} {l : Literal} {u : List RTerm} :
      v.kind = .NUMBER → v.text = renderNumber l → opKids rest = un :: more → RepUnit un u →
      RepresentsQ (.node id .WITH_UNIT (v :: rest)) (.qty l u)
  | paren {id : Nat} {ks : List Tree} {x : Tree} {e : QExpr} : opKids ks = [x] →
      RepresentsQ x e → RepresentsQ (.node id .OPERATION ks) (.paren e)
  | chain {id : Nat} {ks : List Tree} {x₀ : Tree} {rest : List Tree} {e₀ e : QExpr} :
      opKids ks = x₀ :: rest → rest ≠ [] → RepresentsQ x₀ e₀ →
      FoldRQ RepresentsQ e₀ rest e → RepresentsQ (.node id .OPERATION ks) e

set_option inductive.autoPromoteIndices false in
/-- `FoldRQ` with all operators of ONE priority `p` (`to` has priority 1). -/
inductive FoldRQL (R : Tree → QExpr → Prop) : Nat → QExpr → List Tree → QExpr → Prop
  | nil (p : Nat) (acc : QExpr) : FoldRQL R p acc [] acc
  | cons {p : Nat} {acc : QExpr} {o x : Tree} {op : BinOp} {b e : QExpr} {rest : List Tree} :
      o.kind = opKind op → op.prio = p → R x b → FoldRQL R p (.bin op acc b) rest e →
      FoldRQL R p acc (o :: x :: rest) e
  | cast {p : Nat} {acc : QExpr} {o x : Tree} {u : List RTerm} {e : QExpr} {rest : List Tree} :
      o.kind = .OP_CAST → p = 1 → RepUnit x u → FoldRQL R p (.cast acc u) rest e →
      FoldRQL R p acc (o :: x :: rest) e

/-- `RepresentsQ`, levelled the way the grammar builds the tree: all operators of one OPERATION
node — at any depth — have the same priority. -/
inductive RepresentsQL : Tree → QExpr → Prop
  | num {t : Tree} {l : Literal} : t.kind = .NUMBER → t.hasChildren = true →
      t.text = renderNumber l → RepresentsQL t (.num l)
  | qty {id : Nat} {v un : Tree} {rest more : List Tree} {l : Literal} {u : List RTerm} :
      v.kind = .NUMBER → v.text = renderNumber l → opKids rest = un :: more → RepUnit un u →
      RepresentsQL (.node id .WITH_UNIT (v :: rest)) (.qty l u)
  | paren {id : Nat} {ks : List Tree} {x : Tree} {e : QExpr} : opKids ks = [x] →
      RepresentsQL x e → RepresentsQL (.node id .OPERATION ks) (.paren e)
  | chain {id : Nat} {ks : List Tree} {x₀ : Tree} {rest : List Tree} {e₀ e : QExpr} {p : Nat} :
      opKids ks = x₀ :: rest → rest ≠ [] → RepresentsQL x₀ e₀ →
      FoldRQL RepresentsQL p e₀ rest e → RepresentsQL (.node id .OPERATION ks) e

/-! ### The grammar's own reading of a rendering -/

/-- Priority of the outermost construct: `to` binds loosest, atoms tightest. -/
def qprio : QExpr → Nat
  | .bin op _ _ => op.prio
  | .cast _ _ => 1
  | _ => 100

/-- The AST is the one the documented grammar assigns to its own rendering (left-associative
operators; `to` has the lowest priority, so a cast stands at the top of an expression or of a
parenthesised group — `a + b to u` is `(a + b) to u` — and chains to the left). Literals are
well formed. Looked-up facts are out of scope. -/
def WFQ : QExpr → Prop
  | .num l => l.WF
  | .qty l _ => l.WF
  | .bin op a b => WFQ a ∧ WFQ b ∧ op.prio ≤ qprio a ∧ op.prio < qprio b
  | .paren e => WFQ e
  | .cast e _ => WFQ e
  | .fact _ _ _ => False

/-! ### Side conditions of the evaluator theorem -/

/-- A literal the number reader accepts (its `u32` guards), written without a percent sign
(`Spec.Quantity.render` does not write one). -/
def LitOKQ (l : Literal) : Prop := LitOK l ∧ l.percent = false

/-- The written factor is read by the tool the way the specification resolves it: the word
`prefix ++ name` is read by the unit-word parser as exactly this prefix and this unit (this
excludes the ambiguous spellings, e.g. `m` + `in` which the tool reads as `min`; by `C05_names` it
holds for every typeable unit name without prefix), the unit is proportional (no `°C`/`°F`), and
the power is an `i32` (its absolute value is what is written after `^`). -/
structure TermOK (t : RTerm) : Prop where
  reads : ∃ ut, resolve t = some ut ∧ UnitWord.parseWord (word t) = some [(ut.pfx, ut.key)] ∧
    isAffine ut.key = false
  pow : -2147483647 ≤ t.power ∧ t.power ≤ 2147483647

/-- No unit occurs with two different prefixes (`km*mm` is refused by the tool:
`prefixMismatch`). -/
def Coherent (sem : UnitSem) : Prop := ∀ a ∈ sem, ∀ b ∈ sem, a.key = b.key → a.pfx = b.pfx

def UnitOK (u : List RTerm) : Prop :=
  (∀ t ∈ u, TermOK t) ∧ ∀ sem, resolveAll u = some sem → Coherent sem

/-- Literals and units of the expression are in scope; the exponent of `^` is a literal. -/
def UnitsOK : QExpr → Prop
  | .num l => LitOKQ l
  | .qty l u => LitOKQ l ∧ UnitOK u
  | .bin op a b => UnitsOK a ∧ UnitsOK b ∧ (op = .pow → ∃ l, b = .num l)
  | .paren e => UnitsOK e
  | .cast e u => UnitsOK e ∧ UnitOK u
  | .fact _ _ _ => False

/-- How the operands of a `+` / `-` may be related for the tool and the specification to agree:
both plain numbers; one plain number and one quantity whose unit the specification determines
(a literal with unit, a cast, or such a thing plus/minus a plain number); or two quantities
that both have a dimension. Excluded: a plain number next to a product or quotient (the
specification leaves the unit, hence the meaning of the plain number, undetermined and answers
`other`; the tool adopts whatever unit it displays) and dimensionless non-plain values such as
`2 m / 1 m` (the tool treats an empty unit as a plain number). -/
def AddOK (x y : Val) : Prop :=
  (x.plain = true ∧ y.plain = true) ∨
  (x.plain = true ∧ y.plain = false ∧ y.unit.isSome = true) ∨
  (x.plain = false ∧ y.plain = true ∧ x.unit.isSome = true) ∨
  (x.plain = false ∧ y.plain = false ∧ x.q.dim ≠ DimVec.zero ∧ y.q.dim ≠ DimVec.zero)

/-- A cast applies to a plain number, or converts a quantity with a dimension into a unit with
a dimension. -/
def CastOK (v : Val) (sem : UnitSem) : Prop :=
  v.plain = true ∨ (v.q.dim ≠ DimVec.zero ∧ dims sem ≠ DimVec.zero)

/-- Every `+`, `-` and `to` of the expression is applied to operands for which the tool's rule
"an empty unit is a plain number" and the specification's "a plain number is a literal without
unit" coincide (`AddOK`, `CastOK`). -/
def Determinate : QExpr → Prop
  | .bin op a b => Determinate a ∧ Determinate b ∧
      ((op = .add ∨ op = .sub) → ∀ x y, denote false a = .ok x → denote false b = .ok y → AddOK x y)
  | .paren e => Determinate e
  | .cast e u => Determinate e ∧
      ∀ v sem, denote false e = .ok v → resolveAll u = some sem → CastOK v sem
  | _ => True

/-- A bound on the absolute value of every unit power of the tool's result, when the unit the
tool displays is determined by what is written: the sum of the written powers for a literal with
unit or a cast, the larger of both sides for `+`/`-`, the bound of the base times the exponent
for `^`. Undetermined (`none`) for products and quotients. -/
def powBound : QExpr → Option Nat
  | .num _ => some 0
  | .qty _ u => (resolveAll u).map (fun sem => (sem.map (fun t => t.power.natAbs)).sum)
  | .paren e => powBound e
  | .cast _ u => (resolveAll u).map (fun sem => (sem.map (fun t => t.power.natAbs)).sum)
  | .bin op a b =>
    match op with
    | .add | .sub =>
      (match powBound a, powBound b with
       | some x, some y => some (max x y)
       | _, _ => none)
    | .pow =>
      (match b with
       | .num l => (powBound a).map (fun B => B * (Decimal.value l).num.natAbs)
       | _ => none)
    | _ => none
  | .fact _ _ _ => none

/-- `a ^ b` certainly stays within `i32`: the exponent is an `i32` literal and the bound on the
unit powers of the base times the exponent is an `i32`. -/
def PowSafe (a b : QExpr) : Prop :=
  ∃ B l, powBound a = some B ∧ b = .num l ∧ (Decimal.value l).num.natAbs ≤ 2147483647 ∧
    B * (Decimal.value l).num.natAbs ≤ 2147483647

/-- The expression contains a `^` whose base is a quantity and which is not `PowSafe`: the one
place where the tool checks `i32` overflow of unit powers (`badArgument`), which the
specification does not model. -/
def PowRisk : QExpr → Prop
  | .bin op a b => PowRisk a ∨ PowRisk b ∨
      (op = .pow ∧ (∃ x, denote false a = .ok x ∧ x.plain = false) ∧ ¬ PowSafe a b)
  | .paren e => PowRisk e
  | .cast e _ => PowRisk e
  | _ => False

/-! ### Results -/

/-- The compound has the dimensions and the exact scale of the specification-level unit. -/
def SameUnit (c : Compound) (sem : UnitSem) : Prop :=
  SI.dims (semOf c) = SI.dims sem ∧ SI.scale (semOf c) = SI.scale sem

/-- A result of the evaluator agrees with a value of the specification: same SI value and
dimensions; a plain number has the empty unit; when the specification determines the unit the
result is expressed in (`Val.unit`), the result's unit has its dimensions and scale. The unit
is made of proportional units of the table. -/
structure Agree (r : Numeric) (v : Val) : Prop where
  si : Props.C04.siQ r = v.q
  plain : v.plain = true → r.unit = []
  unit : ∀ sem, v.unit = some sem → SameUnit r.unit sem ∧ proportional sem = true
  prop : Proportional r.unit
  known : AllKnown r.unit

/-- The unit powers of the result respect `powBound`. -/
def PowBounded (r : Numeric) (e : QExpr) : Prop :=
  ∀ B, powBound e = some B → ∀ en ∈ r.unit, en.2.power.natAbs ≤ B

/-- How a result of the evaluator matches the specification's reading of `e`: a value that
agrees with it, or an error (`err kind span`, never a panic) when the specification has none.
Only if the expression raises a quantity to a power that is not `PowSafe` (`PowRisk`) the tool may
also refuse with `badArgument` (a unit power would leave the `i32` range). The description log is
untouched. -/
def OutcomeQ (e : QExpr) (d : List Desc) (res : Except EvalErr Numeric × List Desc) : Prop :=
  match denote false e with
  | .ok v => (∃ r, res = (.ok r, d) ∧ Agree r v ∧ PowBounded r e) ∨
      (PowRisk e ∧ ∃ s t, res = (.error (.err .badArgument s t), d))
  | .error _ => ∃ k s t, res = (.error (.err k s t), d)

end Anything.QQ
