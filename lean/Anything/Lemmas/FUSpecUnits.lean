import Anything.Lemmas.FUVal
import Anything.Lemmas.QQQuery
import Anything.Lemmas.C9QSpec
/-!
# The full expression language — facts about written units and temperature conversions, at the
level of the abstract syntax (no trees)

* `unitC_ok`: for a unit expression in the scope of `QQ.UnitOK`, the compound `unitC u` has the
  dimensions and the exact scale of the specification's reading, is made of proportional known
  units, and its powers are bounded by the written powers (from `QQ.unitFacts` through a
  canonical UNIT tree);
* `unitC_written`: a lone temperature scale stands for `cmp s p`;
* `factor_offset_prop`, `factor_prop_offset`: `Compound.factor` between a lone temperature scale and
  a proportional compound of the dimension of a temperature, through kelvin.
-/

namespace Anything.FU
open Anything Anything.Eval Anything.Spec Anything.Spec.Arith Anything.Spec.Decimal
open Anything.Spec.Quantity Anything.Spec.SI Anything.C06 Anything.QQ Anything.C9Q
open Anything.Props.C09 Anything.Props.C04

/-! ### A canonical UNIT tree -/

/-- A UNIT node spelling `u`: one node per item. -/
def unitTree (u : List RTerm) : Tree :=
  .node 0 .UNIT ((unitItems u).map (fun i => .node 0 i.kind [.tok 0 i.tk i.text]))

theorem repUnit_unitTree (u : List RTerm) : RepUnit (unitTree u) u := by
  refine ⟨rfl, ?_⟩
  simp only [unitTree, Tree.kids]
  have h : ∀ l : List UItem,
      (opKids (l.map (fun i => Tree.node 0 i.kind [.tok 0 i.tk i.text]))).map
        (fun y => (y.kind, y.text)) = l.map (fun i => (i.kind, i.text)) := by
    intro l
    induction l with
    | nil => rfl
    | cons i l ih =>
      simp only [List.map_cons, opKids, List.filter_cons, Tree.hasChildren, List.isEmpty_cons,
        Bool.not_false, ↓reduceIte, List.map_cons, Tree.kind, Tree.text, Tree.textList,
        List.append_nil, List.cons.injEq, true_and]
      exact ih
  exact h _

theorem wordOK_of_termOK {t : RTerm} (h : TermOK t) : WordOK t := by
  obtain ⟨ut, h1, h2, _⟩ := h.reads
  exact ⟨⟨ut, h1, h2⟩, h.pow⟩

theorem unitRuns_of_unitOK {u : List RTerm} (hu : UnitOK u) : UnitRuns u := by
  obtain ⟨sem, hs⟩ := unitOK_resolves u hu
  refine unitRuns_of u (fun t ht => wordOK_of_termOK (hu.1 t ht)) ?_
  rw [← unitOK_sem hu hs]
  exact hu.2 sem hs

/-- **The compound of a written unit expression in the scope of `QQ.UnitOK`.** -/
theorem unitC_ok (u : List RTerm) (sem : UnitSem) (hu : UnitOK u) (hs : resolveAll u = some sem) :
    unitOf u = some (unitC u) ∧ SameUnit (unitC u) sem ∧ Proportional (unitC u) ∧
      AllKnown (unitC u) ∧
      ∀ en ∈ unitC u, en.2.power.natAbs ≤ (sem.map (fun t => t.power.natAbs)).sum := by
  have hr := unitRuns_of_unitOK hu
  obtain ⟨T', hT'⟩ := hr.2
  obtain ⟨T, hT, h1, h2, h3, h4⟩ := unitFacts.fwd (unitTree u) u sem 0 [] (repUnit_unitTree u) hu hs
  have h5 := (unit_unitOf (unitTree u) u T' 0 [] (repUnit_unitTree u) hr hT').1
  rw [hT] at h5
  have hTT : T = T' := by
    simp only [Prod.mk.injEq, Except.ok.injEq, and_true] at h5
    exact h5
  subst hTT
  have hc : unitC u = T := by simp [unitC, hT']
  rw [hc]
  exact ⟨hT', h1, h2, h3, h4⟩

theorem unitC_written {s : TScale} {p : Int} {t : RTerm} (h : Written s p t) :
    unitC [t] = cmp s p := by
  simp [unitC, unitOf_written h]

/-! ### Temperature scales -/

theorem semOf_cmp (s : TScale) (p : Int) : semOf (cmp s p) = [⟨p, key s, 1⟩] := rfl

theorem dims_cmp (s : TScale) (p : Int) : dims (semOf (cmp s p)) = dimK := by
  rw [semOf_cmp, dims_scale]

theorem cmp_ne_nil (s : TScale) (p : Int) : cmp s p ≠ [] := by
  intro h; cases h

theorem allKnown_cmp (s : TScale) (p : Int) : AllKnown (cmp s p) := by
  intro e he
  have he' : e = (key s, { power := 1, pfx := p }) := by
    simpa [Props.C09.cmp] using he
  subst he'
  cases s <;> rfl

theorem dimK_ne_zero : dimK ≠ DimVec.zero := by decide

/-- A lone temperature scale converted to a proportional compound of the dimension of a
temperature: the kelvin point divided by the scale of the target. -/
theorem factor_offset_prop (T : Compound) (s : TScale) (p : Int) (x : Rat) (hT : T ≠ [])
    (pT : Proportional T) (hd : dims (semOf T) = dimK) :
    Compound.factor T (cmp s p) x = .ok (some (toK s (x * (10 : Rat) ^ p) / scaleC T)) := by
  unfold Compound.factor
  have e1 : T.isEmpty = false := by cases T <;> simp_all
  have e2 : (cmp s p).isEmpty = false := rfl
  have hsb := (sameBases_iff_dims T (cmp s p)).mpr (by rw [hd, dims_cmp])
  simp only [e1, e2, Bool.or_self, Bool.false_eq_true, ↓reduceIte, hsb, Bool.not_true,
    scaleIn_cmp, bind, Except.bind, scaleOut_prop T pT, pure, Except.pure]

/-- A proportional compound of the dimension of a temperature converted to a lone temperature
scale: through kelvin. -/
theorem factor_prop_offset (src : Compound) (t : TScale) (q : Int) (x : Rat) (hs : src ≠ [])
    (ps : Proportional src) (hd : dims (semOf src) = dimK) :
    Compound.factor (cmp t q) src x =
      .ok (some (fromK t (x * scaleC src) / (10 : Rat) ^ q)) := by
  unfold Compound.factor
  have e1 : src.isEmpty = false := by cases src <;> simp_all
  have e2 : (cmp t q).isEmpty = false := rfl
  have hsb := (sameBases_iff_dims (cmp t q) src).mpr (by rw [hd, dims_cmp])
  simp only [e1, e2, Bool.or_self, Bool.false_eq_true, ↓reduceIte, hsb, Bool.not_true,
    scaleIn_prop true src ps, bind, Except.bind, scaleOut_cmp, pure, Except.pure]

/-- A lone KELVIN scale is in the scope of `QQ.UnitOK`. -/
theorem unitOK_written_K {p : Int} {t : RTerm} (h : Written .K p t) : UnitOK [t] := by
  obtain ⟨h1, h2, _, _⟩ := written_facts h
  constructor
  · intro x hx
    rw [List.mem_singleton.mp hx]
    exact ⟨⟨_, h1, h2, rfl⟩, by rw [h.pow]; decide⟩
  · intro sem hs
    rw [resolveAll_written h] at hs
    cases hs
    exact coherent_single _

end Anything.FU
