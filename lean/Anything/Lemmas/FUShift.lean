import Anything.Lemmas.FUDefs
import Anything.Lemmas.QQShift
import Anything.Lemmas.UQShift
/-!
# The full expression language — precedence climbing

The specification-level shift-reduce machine of `Lemmas/QQShift.lean` / `Lemmas/UQShift.lean` with
`FExprU` in the stack: operators are the binary operators and `to` (`QQ.QOp`, reused); operands are
expressions or — after `to` — written unit expressions. Calls, like parentheses, literals and
phrases, are atoms. No code of the model is involved here.
-/

namespace Anything.FU
open Anything.Spec Anything.Spec.Arith Anything.Spec.Quantity Anything.C06 Anything.QQ Anything.UQ

/-- Operands of the flat reading: an expression, or (after `to`) a written unit expression. -/
inductive FOpd
  | ex (e : FExprU)
  | un (u : List RTerm)

/-- The expression of an operand (junk for a unit). -/
def FOpd.get : FOpd → FExprU
  | .ex e => e
  | .un u => .cast (.fact [] 0 []) u

/-- Apply an operator (junk when the kinds do not match). -/
def mkF : QOp → FExprU → FOpd → FExprU
  | .bin op, a, .ex b => .bin op a b
  | .cast, a, .un u => .cast a u
  | _, a, _ => a

/-- A frame: the left operand accumulated so far and the operator waiting for its right
operand. Head of the list = innermost frame. -/
abbrev StackF := List (FExprU × QOp)

/-- The flat reading of an expression. -/
def flatF : FExprU → FOpd × List (QOp × FOpd)
  | .bin op a b => ((flatF a).1, (flatF a).2 ++ (.bin op, (flatF b).1) :: (flatF b).2)
  | .cast a u => ((flatF a).1, (flatF a).2 ++ [(.cast, .un u)])
  | e => (.ex e, [])

/-- The operand `cur` has been read and the operator `op` comes next. -/
def reduceF (cur : FOpd) (op : QOp) : StackF → StackF
  | [] => [(cur.get, op)]
  | (acc, o) :: rest =>
    if op.prio < o.prio then reduceF (.ex (mkF o acc cur)) op rest
    else if o.prio < op.prio then (cur.get, op) :: (acc, o) :: rest
    else (mkF o acc cur, op) :: rest

/-- End of input: close every frame, innermost first. -/
def closeAllF (cur : FOpd) : StackF → FOpd
  | [] => cur
  | (acc, o) :: rest => closeAllF (.ex (mkF o acc cur)) rest

/-- Consume `(operator, operand)` pairs. -/
def runF (st : StackF) (cur : FOpd) : List (QOp × FOpd) → StackF × FOpd
  | [] => (st, cur)
  | (op, x) :: rest => runF (reduceF cur op st) x rest

theorem runF_append (st : StackF) (cur : FOpd) (l1 l2 : List (QOp × FOpd)) :
    runF st cur (l1 ++ l2) = runF (runF st cur l1).1 (runF st cur l1).2 l2 := by
  induction l1 generalizing st cur with
  | nil => rfl
  | cons p l1 ih => obtain ⟨op, x⟩ := p; simp only [List.cons_append, runF, ih]

def topPrioF : StackF → Nat
  | [] => 0
  | (_, o) :: _ => o.prio

theorem qprioF_pos (e : FExprU) : 0 < qprioF e := by
  cases e <;> simp only [qprioF] <;> first | omega | (have := two_le_prio ‹_›; omega)

/-- Two machine states that no later operator of priority `≤ p`, nor the end of the input,
can tell apart. -/
def EquivF (p : Nat) (s1 s2 : StackF × FOpd) : Prop :=
  (∀ op : QOp, op.prio ≤ p → reduceF s1.2 op s1.1 = reduceF s2.2 op s2.1) ∧
  closeAllF s1.2 s1.1 = closeAllF s2.2 s2.1

theorem reduceF_push (cur : FOpd) (op : QOp) (st : StackF) (h : topPrioF st < op.prio) :
    reduceF cur op st = (cur.get, op) :: st := by
  cases st with
  | nil => rfl
  | cons f rest =>
    obtain ⟨acc, o⟩ := f
    simp only [topPrioF] at h
    have : ¬ op.prio < o.prio := by omega
    simp [reduceF, this, h]

theorem topPrioF_lt_one {st : StackF} (h : topPrioF st < 1) : st = [] := by
  cases st with
  | nil => rfl
  | cons f rest =>
    obtain ⟨acc, o⟩ := f
    have := qop_prio_pos o
    simp only [topPrioF] at h
    omega

/-- **Key lemma.** Reading the flat form of a well-formed expression `e` on top of a stack whose
innermost frame binds less tightly than `e` leaves the machine in a state equivalent to
having read `e` as a single operand. -/
theorem run_flatF : ∀ (e : FExprU), WFF e → ∀ st : StackF, topPrioF st < qprioF e →
    EquivF (qprioF e) (runF st (flatF e).1 (flatF e).2) (st, .ex e)
  | .num l, _, st, _ => ⟨fun _ _ => rfl, rfl⟩
  | .qty l u, _, st, _ => ⟨fun _ _ => rfl, rfl⟩
  | .paren e, _, st, _ => ⟨fun _ _ => rfl, rfl⟩
  | .fact _ _ _, _, st, _ => ⟨fun _ _ => rfl, rfl⟩
  | .call _ _ _, _, st, _ => ⟨fun _ _ => rfl, rfl⟩
  | .cast a u, hwf, st, hst => by
    simp only [WFF] at hwf
    simp only [qprioF] at hst ⊢
    have hnil := topPrioF_lt_one hst
    subst hnil
    have ea := run_flatF a hwf [] (by simpa [topPrioF] using qprioF_pos a)
    simp only [flatF, runF_append, runF]
    rw [ea.1 .cast (by have := qprioF_pos a; simp only [QOp.prio_cast]; omega)]
    refine ⟨fun op hop => ?_, ?_⟩
    · have h1 : ¬ op.prio < 1 := by have := qop_prio_pos op; omega
      have h2 : ¬ 1 < op.prio := by omega
      simp only [reduceF, QOp.prio_cast, h1, h2, ↓reduceIte, mkF, FOpd.get]
    · simp only [reduceF, closeAllF, mkF, FOpd.get]
  | .bin o a b, hwf, st, hst => by
    simp only [WFF] at hwf
    obtain ⟨wa, wb, hpa, hpb⟩ := hwf
    simp only [qprioF] at hst ⊢
    have ea := run_flatF a wa st (by omega)
    simp only [flatF, runF_append, runF]
    rw [ea.1 (.bin o) hpa, reduceF_push (.ex a) (.bin o) st hst]
    have eb := run_flatF b wb ((a, .bin o) :: st) (by simpa only [topPrioF, QOp.prio_bin] using hpb)
    simp only [FOpd.get] at eb ⊢
    refine ⟨fun op hop => ?_, ?_⟩
    · rw [eb.1 op (by omega)]
      simp only [reduceF, QOp.prio_bin]
      by_cases hlt : op.prio < o.prio
      · simp only [hlt, ↓reduceIte, mkF]
      · have heq : ¬ o.prio < op.prio := by omega
        simp only [hlt, heq, ↓reduceIte, mkF]
        rw [reduceF_push _ op st (by omega)]
        rfl
    · rw [eb.2]; rfl

/-- **Precedence-climbing correctness.** -/
theorem closeAll_run_flatF (e : FExprU) (hwf : WFF e) :
    closeAllF (runF [] (flatF e).1 (flatF e).2).2 (runF [] (flatF e).1 (flatF e).2).1 = .ex e := by
  have := (run_flatF e hwf [] (by simpa [topPrioF] using qprioF_pos e)).2
  simpa [closeAllF] using this

/-! ### Typing of the machine states -/

/-- No `to` frame. -/
def NoToF (st : StackF) : Prop := ∀ f ∈ st, f.2 ≠ QOp.cast

/-- The current operand is a unit exactly when the stack is ONE `to` frame; otherwise the stack
has no `to` frame at all. -/
def WTf (st : StackF) : FOpd → Prop
  | .ex _ => NoToF st
  | .un _ => ∃ acc, st = [(acc, .cast)]

/-- Operator and right operand fit. -/
def MatchF : QOp → FOpd → Prop
  | .bin _, .ex _ => True
  | .cast, .un _ => True
  | _, _ => False

theorem noToF_nil : NoToF [] := fun _ h => nomatch h

theorem NoToF.tail {f : FExprU × QOp} {st : StackF} (h : NoToF (f :: st)) : NoToF st :=
  fun g hg => h g (by simp [hg])

theorem NoToF.cons {acc : FExprU} {b : BinOp} {st : StackF} (h : NoToF st) :
    NoToF ((acc, .bin b) :: st) := by
  intro g hg
  rcases List.mem_cons.mp hg with rfl | hg
  · simp
  · exact h g hg

theorem wtF_match {acc : FExprU} {o : QOp} {st : StackF} {cur : FOpd}
    (h : WTf ((acc, o) :: st) cur) : MatchF o cur := by
  cases cur with
  | ex e =>
    have := h (acc, o) (by simp)
    cases o with
    | bin b => trivial
    | cast => exact absurd rfl this
  | un u =>
    obtain ⟨acc', h⟩ := h
    simp only [List.cons.injEq, Prod.mk.injEq] at h
    obtain ⟨⟨_, rfl⟩, _⟩ := h
    trivial

theorem wtF_close {acc : FExprU} {o : QOp} {st : StackF} {cur : FOpd}
    (h : WTf ((acc, o) :: st) cur) : WTf st (.ex (mkF o acc cur)) := by
  cases cur with
  | ex e => exact NoToF.tail h
  | un u =>
    obtain ⟨acc', h⟩ := h
    simp only [List.cons.injEq, Prod.mk.injEq] at h
    obtain ⟨_, rfl⟩ := h
    exact noToF_nil

theorem noToF_reduce (b : BinOp) : ∀ (st : StackF) (cur : FOpd), NoToF st →
    NoToF (reduceF cur (.bin b) st)
  | [], cur, _ => by
    intro g hg
    simp only [reduceF, List.mem_singleton] at hg
    subst hg; simp
  | (acc, o) :: rest, cur, h => by
    simp only [reduceF]
    split
    · exact noToF_reduce b rest _ h.tail
    · split
      · exact NoToF.cons h
      · exact NoToF.cons h.tail

/-- `to` closes every frame. -/
theorem reduceF_to : ∀ (st : StackF) (cur : FOpd), WTf st cur →
    ∃ v, reduceF cur .cast st = [(v, .cast)]
  | [], cur, _ => ⟨_, rfl⟩
  | (acc, o) :: rest, cur, h => by
    have hm := wtF_match h
    cases o with
    | bin b =>
      have : (QOp.cast).prio < (QOp.bin b).prio := by
        have := two_le_prio b; simp only [QOp.prio_bin, QOp.prio_cast]; omega
      simp only [reduceF, this, ↓reduceIte]
      exact reduceF_to rest _ (wtF_close h)
    | cast =>
      cases cur with
      | ex e => exact absurd hm (by simp [MatchF])
      | un u =>
        obtain ⟨acc', h⟩ := h
        simp only [List.cons.injEq, Prod.mk.injEq] at h
        obtain ⟨_, rfl⟩ := h
        exact ⟨mkF .cast acc (.un u), by simp [reduceF]⟩

/-- Reading a well-formed expression on a stack without `to` frame leaves a well-typed state;
unless the expression is a cast, the last operand read is an expression. -/
theorem wt_runF : ∀ (e : FExprU), WFF e → ∀ st : StackF, NoToF st →
    WTf (runF st (flatF e).1 (flatF e).2).1 (runF st (flatF e).1 (flatF e).2).2 ∧
    (2 ≤ qprioF e → ∃ x, (runF st (flatF e).1 (flatF e).2).2 = .ex x)
  | .num l, _, st, h => ⟨h, fun _ => ⟨_, rfl⟩⟩
  | .qty l u, _, st, h => ⟨h, fun _ => ⟨_, rfl⟩⟩
  | .paren e, _, st, h => ⟨h, fun _ => ⟨_, rfl⟩⟩
  | .fact _ _ _, _, st, h => ⟨h, fun _ => ⟨_, rfl⟩⟩
  | .call _ _ _, _, st, h => ⟨h, fun _ => ⟨_, rfl⟩⟩
  | .cast a u, hwf, st, h => by
    simp only [WFF] at hwf
    obtain ⟨wa, _⟩ := wt_runF a hwf st h
    obtain ⟨v, hv⟩ := reduceF_to _ _ wa
    simp only [flatF, runF_append, runF, hv, qprioF]
    exact ⟨⟨v, rfl⟩, fun h => by omega⟩
  | .bin o a b, hwf, st, h => by
    simp only [WFF] at hwf
    obtain ⟨wfa, wfb, hpa, hpb⟩ := hwf
    have h2 := two_le_prio o
    obtain ⟨wa, xa⟩ := wt_runF a wfa st h
    obtain ⟨x, hx⟩ := xa (by omega)
    rw [hx] at wa
    have hn : NoToF (reduceF (.ex x) (.bin o) (runF st (flatF a).1 (flatF a).2).1) :=
      noToF_reduce o _ _ wa
    obtain ⟨wb, xb⟩ := wt_runF b wfb _ hn
    simp only [flatF, runF_append, runF, hx]
    exact ⟨wb, fun _ => xb (by omega)⟩

/-! ### The last operand read is an atom -/

/-- An operand that `Grammar.value` / `Grammar.unit` reads in one go: an expression that is not
an operator application, or a unit. -/
def AtomOpdF : FOpd → Prop
  | .ex e => qprioF e = 100
  | .un _ => True

theorem runF_last_atom : ∀ (l : List (QOp × FOpd)) (st : StackF) (cur : FOpd),
    AtomOpdF cur → (∀ x ∈ l, AtomOpdF x.2) → AtomOpdF (runF st cur l).2
  | [], _, _, h, _ => h
  | (op, x) :: rest, st, cur, _, hl =>
    runF_last_atom rest _ x (hl (op, x) (by simp)) (fun y hy => hl y (by simp [hy]))

theorem flatF_atoms : ∀ e : FExprU, AtomOpdF (flatF e).1 ∧ ∀ x ∈ (flatF e).2, AtomOpdF x.2
  | .num _ => ⟨rfl, fun _ h => nomatch h⟩
  | .qty _ _ => ⟨rfl, fun _ h => nomatch h⟩
  | .paren _ => ⟨rfl, fun _ h => nomatch h⟩
  | .fact _ _ _ => ⟨rfl, fun _ h => nomatch h⟩
  | .call _ _ _ => ⟨rfl, fun _ h => nomatch h⟩
  | .cast a u => by
    obtain ⟨h1, h2⟩ := flatF_atoms a
    refine ⟨h1, fun x hx => ?_⟩
    simp only [flatF, List.mem_append, List.mem_singleton] at hx
    rcases hx with hx | rfl
    · exact h2 x hx
    · trivial
  | .bin op a b => by
    obtain ⟨h1, h2⟩ := flatF_atoms a
    obtain ⟨h3, h4⟩ := flatF_atoms b
    refine ⟨h1, fun x hx => ?_⟩
    simp only [flatF, List.mem_append, List.mem_cons] at hx
    rcases hx with hx | rfl | hx
    · exact h2 x hx
    · exact h3
    · exact h4 x hx

/-- After reading the flat form of any expression the current operand is an atom. -/
theorem run_flat_atomF (e : FExprU) (st : StackF) :
    AtomOpdF (runF st (flatF e).1 (flatF e).2).2 :=
  runF_last_atom _ st _ (flatF_atoms e).1 (flatF_atoms e).2

end Anything.FU
