import Anything.Lemmas.AMap
import Anything.Model.Compound
/-!
# `Powers`: canonical form and the dimension comparison of `Compound::factor`

A `Powers` built by `Powers.insert` from the empty map is strictly sorted and has
no zero entry (canonical); on canonical maps `sameBases` decides equality of the
represented function `UnitKey → Int`.
-/

namespace Anything
open AMap

namespace Powers

/-- The function a `Powers` represents. -/
def pw (p : Powers) (k : UnitKey) : Int := (AMap.get? p k).getD 0

def NoZero (p : Powers) : Prop := ∀ e ∈ p, e.2 ≠ 0

structure Canon (p : Powers) : Prop where
  sorted : AMap.Sorted p
  nz : NoZero p

theorem canon_nil : Canon [] := ⟨AMap.sorted_nil, fun _ h => by simp at h⟩

@[simp] theorem pw_nil (k : UnitKey) : pw [] k = 0 := rfl

theorem noZero_insert {p : Powers} (h : NoZero p) (k : UnitKey) (v : Int) (hv : v ≠ 0) :
    NoZero (AMap.insert p k v) := by
  intro e he
  rcases AMap.mem_insert he with he | he
  · subst he; exact hv
  · exact h e he

theorem noZero_erase {p : Powers} (h : NoZero p) (k : UnitKey) : NoZero (AMap.erase p k) :=
  fun e he => h e (AMap.mem_erase he)

theorem canon_insert {p : Powers} (h : Canon p) (u : UnitKey) (n : Int) : Canon (insert p u n) := by
  unfold insert
  split
  · split
    · rename_i hn
      exact ⟨AMap.sorted_insert h.sorted _ _, noZero_insert h.nz _ _ hn⟩
    · exact h
  · split
    · exact ⟨AMap.sorted_erase h.sorted _, noZero_erase h.nz _⟩
    · rename_i hn
      exact ⟨AMap.sorted_insert h.sorted _ _, noZero_insert h.nz _ _ hn⟩

/-- `Powers::insert` adds pointwise. -/
theorem pw_insert {p : Powers} (h : Canon p) (u : UnitKey) (n : Int) (k : UnitKey) :
    pw (insert p u n) k = pw p k + (if u = k then n else 0) := by
  unfold insert
  split
  · rename_i hnone
    split
    · simp only [pw, AMap.get?_insert]
      split
      · rename_i hk; subst hk; simp [hnone]
      · simp
    · rename_i hn
      have : n = 0 := by simpa using hn
      subst this; simp
  · rename_i old hold
    split
    · rename_i hz
      simp only [pw, AMap.get?_erase h.sorted]
      split
      · rename_i hk; subst hk; simp [hold]; omega
      · simp
    · simp only [pw, AMap.get?_insert]
      split
      · rename_i hk; subst hk; simp [hold]
      · simp

/-- On canonical maps the represented function determines the list. -/
theorem canon_ext {l r : Powers} (hl : Canon l) (hr : Canon r) (h : ∀ k, pw l k = pw r k) : l = r := by
  apply AMap.ext_sorted hl.sorted hr.sorted
  intro k
  have hk := h k
  unfold pw at hk
  cases hlk : AMap.get? l k with
  | none =>
    cases hrk : AMap.get? r k with
    | none => rfl
    | some b =>
      have := hr.nz _ (AMap.mem_of_get? hrk)
      simp [hlk, hrk] at hk; exact absurd hk.symm this
  | some a =>
    cases hrk : AMap.get? r k with
    | none =>
      have := hl.nz _ (AMap.mem_of_get? hlk)
      simp [hlk, hrk] at hk; exact absurd hk this
    | some b => simp [hlk, hrk] at hk; rw [hk]

end Powers

namespace Compound
open Powers

/-- **The dimension comparison is equality.** On canonical maps, "same length and
every right-hand entry present on the left" holds exactly when the two maps are equal. -/
theorem sameBases_iff {l r : Powers} (hl : Canon l) (hr : Canon r) :
    sameBases l r = true ↔ l = r := by
  constructor
  · intro h
    simp only [sameBases, Bool.and_eq_true, beq_iff_eq, List.all_eq_true] at h
    obtain ⟨hlen, hall⟩ := h
    have hsub : r ⊆ l := by
      intro e he
      have := hall e he
      exact AMap.mem_of_get? this
    have hnd : r.Nodup := by
      have := hr.sorted
      refine List.Pairwise.imp ?_ this
      intro a b hab heq
      subst heq
      rw [UnitKey.lt_irrefl] at hab; exact absurd hab (by simp)
    have hperm : r.Perm l :=
      (List.subperm_of_subset hnd hsub).perm_of_length_le (by omega)
    apply AMap.ext_sorted hl.sorted hr.sorted
    intro k
    cases hlk : AMap.get? l k with
    | none =>
      cases hrk : AMap.get? r k with
      | none => rfl
      | some b =>
        have := hsub (AMap.mem_of_get? hrk)
        rw [AMap.get?_of_mem hl.sorted this] at hlk
        exact absurd hlk (by simp)
    | some a =>
      have hm := AMap.mem_of_get? hlk
      have := hperm.symm.subset hm
      rw [AMap.get?_of_mem hr.sorted this]
  · intro h
    subst h
    simp only [sameBases, beq_self_eq_true, Bool.true_and, List.all_eq_true, beq_iff_eq]
    intro e he
    exact AMap.get?_of_mem hl.sorted he

end Compound
end Anything
