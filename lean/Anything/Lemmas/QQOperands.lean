import Anything.Lemmas.QQParseDefs
import Anything.Lemmas.C06Parse
/-!
# Quantity expressions end to end — the parser on the operands

`unitSpecQ`: `Grammar.unit` on the tokens of a written unit expression (`UnitSpecQ`);
`valueSpecQ_num`, `valueSpecQ_qty`: `Grammar.value` on a plain number and on a number with a
written unit expression (`ValueSpecQ`). Helper lemmas live in `Anything.QQ.Opd`.
-/

namespace Anything.QQ
open Anything Anything.Parser Anything.Grammar Anything.PTotal Anything.Spec.Arith
open Anything.Spec.Quantity Anything.Spec.Decimal Anything.C06

namespace Opd

/-- The node kind `unitTrail` gives a token kind. -/
def trailKind (k : Syntax) : Option Syntax :=
  match k with
  | .WORD => some .WORD | .TO => some .WORD | .NUMBER => some .NUMBER
  | .STAR => some .OP_MUL | .SLASH => some .OP_DIV
  | .CARET => some .OP_POWER | .STARSTAR => some .OP_POWER
  | _ => none

theorem unitTrail_unfold (F : Nat) :
    unitTrail (F + 1) = (nth 0 0 >>= fun k =>
      match trailKind k with
      | some kind => bumpNode kind >>= fun _ => unitTrail F
      | none => if k == .WHITESPACE then pure (some 1) else pure none) := by
  conv_lhs => unfold unitTrail
  rfl

/-- An item `unitTrail` bumps with its own node kind. -/
def TrailItem (i : UItem) : Prop := trailKind i.tk = some i.kind

theorem trail_star : TrailItem starItem := rfl
theorem trail_slash : TrailItem slashItem := rfl
theorem trail_caret : TrailItem caretItem := rfl
theorem trail_one : TrailItem oneItem := rfl

theorem trail_termItems (t : RTerm) (p : Int) : ∀ i ∈ termItems t p, TrailItem i := by
  intro i hi
  unfold termItems at hi
  split at hi
  · simp at hi; subst hi; rfl
  · simp at hi
    rcases hi with rfl | rfl | rfl <;> rfl

theorem trail_joinItems : ∀ (xs : List (List UItem)), (∀ x ∈ xs, ∀ i ∈ x, TrailItem i) →
    ∀ i ∈ joinItems xs, TrailItem i
  | [], _ => by simp [joinItems]
  | [x], h => by simpa [joinItems] using h
  | x :: y :: xs, h => by
    intro i hi
    simp only [joinItems, List.mem_append, List.mem_cons] at hi
    rcases hi with hi | rfl | hi
    · exact h x (by simp) i hi
    · exact trail_star
    · exact trail_joinItems (y :: xs) (fun z hz => h z (by simp [hz])) i hi

theorem trail_unitItems (u : List RTerm) : ∀ i ∈ unitItems u, TrailItem i := by
  intro i hi
  have hj : ∀ (l : List RTerm) (f : RTerm → Int), ∀ i ∈ joinItems (l.map (fun t => termItems t (f t))), TrailItem i := by
    intro l f
    apply trail_joinItems
    intro x hx
    simp only [List.mem_map] at hx
    obtain ⟨t, _, rfl⟩ := hx
    exact trail_termItems t _
  unfold unitItems at hi
  rw [List.mem_append] at hi
  rcases hi with hi | hi
  · split at hi
    · simp at hi; subst hi; exact trail_one
    · exact hj _ (fun t => t.power) i hi
  · split at hi
    · simp at hi
    · rw [List.mem_cons] at hi
      rcases hi with rfl | hi
      · exact trail_slash
      · exact hj _ (fun t => -t.power) i hi

/-- The first item: a NUMBER (`1`) or a WORD, wrapped in a node of the same kind. -/
def HeadItem (i : UItem) : Prop := (i.tk = .NUMBER ∨ i.tk = .WORD) ∧ i.kind = i.tk

theorem joinItems_head (x : List UItem) (xs : List (List UItem)) (i : UItem) (r : List UItem)
    (hx : x = i :: r) : ∃ r', joinItems (x :: xs) = i :: r' := by
  subst hx
  cases xs with
  | nil => exact ⟨r, rfl⟩
  | cons y ys => exact ⟨r ++ starItem :: joinItems (y :: ys), by simp [joinItems]⟩

theorem unitItems_head (u : List RTerm) : ∃ i rest, unitItems u = i :: rest ∧ HeadItem i := by
  unfold unitItems
  split
  · exact ⟨oneItem, _, rfl, Or.inl rfl, rfl⟩
  · rename_i hne
    cases hn : nums u with
    | nil => simp [hn] at hne
    | cons t ts =>
      simp only [List.map_cons]
      obtain ⟨r', hr'⟩ := joinItems_head (termItems t t.power) (ts.map fun t => termItems t t.power)
        ⟨.WORD, .WORD, word t⟩ _ rfl
      rw [hr']
      exact ⟨_, _, rfl, Or.inr rfl, rfl⟩


/-! ### The trees `unit` builds for the items -/

/-- The token of an item. -/
abbrev tokOf (i : UItem) : Token := ⟨i.tk, i.text⟩

/-- `X` are the nodes `bumpNode` builds for the items, in order. -/
inductive ItemTrees : List Tree → List UItem → Prop
  | nil : ItemTrees [] []
  | cons {X : List Tree} {is : List UItem} (id id' : Nat) (i : UItem) : ItemTrees X is →
      ItemTrees (.node id i.kind [.tok id' i.tk i.text] :: X) (i :: is)

theorem itemTrees_opKids {X : List Tree} {is : List UItem} (h : ItemTrees X is) : opKids X = X := by
  induction h with
  | nil => rfl
  | cons id id' i _ ih =>
    simp only [opKids] at ih ⊢
    simp [Tree.hasChildren, ih]

theorem itemTrees_map {X : List Tree} {is : List UItem} (h : ItemTrees X is) :
    X.map (fun y => (y.kind, y.text)) = is.map (fun i => (i.kind, i.text)) := by
  induction h with
  | nil => rfl
  | cons id id' i _ ih =>
    rw [List.map_cons, List.map_cons, ih]
    simp [Tree.kind, Tree.text, Tree.textList]

/-! ### `unitTrail` on the further items -/

theorem unitTrail_items : ∀ (items : List UItem) (F : Nat) (s : PState) (K : List Token),
    (∀ i ∈ items, TrailItem i) → s.toks = items.map tokOf ++ K → trailKind (headKind K) = none →
    C06.Good s.b → NoNext s.b → items.length + 1 ≤ F →
    Tot (unitTrail F) s (fun r s' =>
      r = (if headKind K == .WHITESPACE then some 1 else none) ∧ s'.toks = K ∧
      (∃ X, s'.b.forest = s.b.forest ++ X ∧ ItemTrees X items) ∧ C06.Good s'.b ∧ NoNext s'.b ∧
      Ext s.b.forest.length s.b s'.b)
  | [], F, s, K, _, ht, hK, g, nn, hF => by
    obtain ⟨F, rfl⟩ : ∃ F', F = F' + 1 := ⟨F - 1, by omega⟩
    rw [unitTrail_unfold]
    simp only [List.map_nil, List.nil_append] at ht
    refine tot_nth_ws [] K (by simpa using ht) ?_
    simp only [hK]
    split
    · rename_i hw
      exact tot_pure ⟨by simp, ht, ⟨[], by simp, .nil⟩, g, nn, Ext.refl (Nat.le_refl _)⟩
    · rename_i hw
      exact tot_pure ⟨by simp, ht, ⟨[], by simp, .nil⟩, g, nn, Ext.refl (Nat.le_refl _)⟩
  | i :: items, F, s, K, hti, ht, hK, g, nn, hF => by
    obtain ⟨F, rfl⟩ : ∃ F', F = F' + 1 := ⟨F - 1, by omega⟩
    rw [unitTrail_unfold]
    simp only [List.map_cons, List.cons_append] at ht
    refine tot_nth_ws [] _ (by simpa using ht) ?_
    have hi : trailKind i.tk = some i.kind := hti i (by simp)
    simp only [headKind, hi]
    refine tot_seq (bumpNode_exact i.kind ht g) fun _ s1 ⟨ht1, ⟨id, id', hf1⟩, g1, n1, e1⟩ => ?_
    refine tot_mono (unitTrail_items items F s1 K (fun j hj => hti j (by simp [hj])) ht1 hK g1 n1
      (by simp only [List.length_cons] at hF; omega))
      fun r s2 ⟨hr, ht2, ⟨X, hf2, hX⟩, g2, n2, e2⟩ => ?_
    refine ⟨hr, ht2, ⟨_ :: X, by rw [hf2, hf1]; simp, .cons id id' i hX⟩, g2, n2,
      e1.trans (e2.mono (by rw [hf1]; simp))⟩


/-! ### `unitLoop` -/

theorem unitLoop_stop (F : Nat) (c : Option Nat) (skip : Nat) (s : PState)
    (h : kAt s (skip + 0) ≠ .NUMBER ∧ kAt s (skip + 0) ≠ .WORD) :
    unitLoop (F + 1) c skip s = .ok (c, s) := by
  unfold unitLoop
  have hn : nth skip 0 s = .ok (kAt s (skip + 0), s) := rfl
  simp only [bind, hn]
  have : (kAt s (skip + 0) == Syntax.NUMBER || kAt s (skip + 0) == Syntax.WORD) = false := by
    simpa using h
  simp only [this, Bool.false_eq_true, ↓reduceIte]
  rfl

theorem followKindQ_cases {k : Syntax} (h : FollowKindQ k) :
    k ≠ .NUMBER ∧ k ≠ .WORD ∧ k ≠ .PERCENTAGE ∧ k ≠ .WHITESPACE := by
  rcases h with h | h | h | h | h | h | h | h <;> subst h <;> simp

/-- What `unitTrail` and the next round of `unitLoop` see after the unit expression. -/
theorem ufollow_stop {K : List Token} (hK : UFollowQ K) :
    trailKind (headKind K) = none ∧
    ((headKind K == Syntax.WHITESPACE) = false ∨
      ((headKind K == Syntax.WHITESPACE) = true ∧
        ∀ s' : PState, s'.toks = K → kAt s' (1 + 0) ≠ .NUMBER ∧ kAt s' (1 + 0) ≠ .WORD)) := by
  obtain ⟨Wk, K', rfl, hwk, hfk, hglue⟩ := hK
  cases Wk with
  | nil =>
    simp only [List.nil_append]
    rcases hglue rfl with h | h | h | h <;> rw [h] <;> exact ⟨rfl, Or.inl rfl⟩
  | cons w Wk' =>
    have hw : w.kind = .WHITESPACE := hwk w (by simp)
    simp only [List.cons_append, headKind, hw]
    refine ⟨rfl, Or.inr ⟨rfl, ?_⟩⟩
    intro s' hs'
    unfold kAt
    rw [hs']
    cases Wk' with
    | nil =>
      have := followKindQ_cases hfk
      cases K' with
      | nil => simp
      | cons t r => simpa [headKind] using ⟨this.1, this.2.1⟩
    | cons w' r =>
      have hw' : w'.kind = .WHITESPACE := hwk w' (by simp)
      simp [hw']

theorem unitLoop_items (i : UItem) (rest : List UItem) (F : Nat) (s : PState) (W K : List Token)
    (hi : HeadItem i) (hrest : ∀ j ∈ rest, TrailItem j) (g : C06.Good s.b)
    (ht : s.toks = W ++ ((i :: rest).map tokOf ++ K)) (hw : AllWS W) (hK : UFollowQ K)
    (hF : rest.length + 2 ≤ F) :
    Tot (unitLoop (F + 1) none W.length) s (fun r s' => ∃ c Wt X, r = some c ∧ s'.toks = K ∧
      s'.b.forest = s.b.forest ++ Wt ++ X ∧ WSTrees Wt ∧ ItemTrees X (i :: rest) ∧
      Pos s'.b c (s.b.forest.length + Wt.length) ∧ C06.Good s'.b ∧ NoNext s'.b ∧
      Ext s.b.forest.length s.b s'.b) := by
  obtain ⟨F, rfl⟩ : ∃ F', F = F' + 1 := ⟨F - 1, by omega⟩
  obtain ⟨kind, tk, text⟩ := i
  obtain ⟨hk1, hk2⟩ := hi
  simp only at hk1 hk2
  subst hk2
  obtain ⟨hK0, hstop⟩ := ufollow_stop hK
  unfold unitLoop
  simp only [List.map_cons, List.cons_append] at ht
  refine tot_nth_ws W _ ht ?_
  have hcond : (kind == Syntax.NUMBER || kind == Syntax.WORD) = true := by
    rcases hk1 with h | h <;> simp [h]
  simp only [headKind, hcond, ↓reduceIte]
  refine tot_seq (bumpN_ws W ht hw g) fun _ s1 ⟨ht1, ⟨Wt, hf1, hWt, hlen⟩, g1, _, e1⟩ => ?_
  refine tot_seq (P := fun r s' => ∃ c, r = some c ∧ s'.toks = s1.toks ∧
      s'.b.forest = s1.b.forest ∧ C06.Good s'.b ∧ Pos s'.b c s1.b.forest.length ∧
      Ext s1.b.forest.length s1.b s'.b) ?_ fun r s2 ⟨c, hr, ht2, hf2, g2, p2, e2⟩ => ?_
  · refine tot_seq (checkpoint_exact g1) fun c s2 ⟨ht2, hf2, _, g2, p2, e2⟩ => ?_
    exact tot_pure ⟨c, rfl, ht2, hf2, g2, p2, e2⟩
  subst hr
  refine tot_seq (bumpNode_exact kind (ht2.trans ht1) g2)
    fun _ s3 ⟨ht3, ⟨id, id', hf3⟩, g3, n3, e3⟩ => ?_
  refine tot_seq (unitTrail_items rest (F + 1) s3 K hrest ht3 hK0 g3 n3 (by omega))
    fun r s4 ⟨hr, ht4, ⟨X, hf4, hX⟩, g4, n4, e4⟩ => ?_
  have hl1 : s1.b.forest.length = s.b.forest.length + Wt.length := by rw [hf1]; simp
  have hl3 : s1.b.forest.length ≤ s3.b.forest.length := by rw [hf3, hf2]; simp
  have e3' : Ext s1.b.forest.length s2.b s3.b := by rw [← hf2]; exact e3
  have e14 : Ext s1.b.forest.length s1.b s4.b := (e2.trans e3').trans (e4.mono hl3)
  have hpos : Pos s4.b c (s.b.forest.length + Wt.length) := by
    rw [← hl1]
    exact (e3'.trans (e4.mono hl3)).pos c _ (Nat.le_refl _) p2
  have hfin : ∃ c' Wt' X', some c = some c' ∧ s4.toks = K ∧
      s4.b.forest = s.b.forest ++ Wt' ++ X' ∧ WSTrees Wt' ∧
      ItemTrees X' (⟨kind, kind, text⟩ :: rest) ∧
      Pos s4.b c' (s.b.forest.length + Wt'.length) ∧ C06.Good s4.b ∧ NoNext s4.b ∧
      Ext s.b.forest.length s.b s4.b :=
    ⟨c, Wt, _ :: X, rfl, ht4, by rw [hf4, hf3, hf2, hf1]; simp, hWt,
      ItemTrees.cons id id' ⟨kind, kind, text⟩ hX, hpos, g4, n4,
      e1.trans (e14.mono (by rw [hf1]; simp))⟩
  rcases hstop with hs | ⟨hs, hk⟩
  · rw [hs] at hr
    simp only [Bool.false_eq_true, ↓reduceIte] at hr
    subst hr
    exact tot_pure hfin
  · rw [hs] at hr
    simp only [↓reduceIte] at hr
    subst hr
    exact ⟨_, _, unitLoop_stop F (some c) 1 s4 (hk s4 ht4), hfin⟩

end Opd

open Opd in
/-- `Grammar.unit` on the tokens of a written unit expression. -/
theorem unitSpecQ (u : List RTerm) : UnitSpecQ u := by
  obtain ⟨i, rest, hu, hi⟩ := unitItems_head u
  refine ⟨(unitItems u).length + 2, ?_⟩
  intro s W K g ht hw hK
  have hrest : ∀ j ∈ rest, TrailItem j := fun j hj => trail_unitItems u j (by rw [hu]; simp [hj])
  have hFu : (unitItems u).length + 2 = (rest.length + 2) + 1 := by rw [hu]; simp
  rw [hFu]
  unfold Grammar.unit
  have ht' : s.toks = W ++ ((i :: rest).map tokOf ++ K) := by rw [ht, unitToks, hu]
  refine tot_seq (unitLoop_items i rest _ s W K hi hrest g ht' hw hK (Nat.le_refl _))
    fun r s1 ⟨c, Wt, X, hr, ht1, hf1, hWt, hX, p1, g1, n1, e1⟩ => ?_
  subst hr
  simp only
  have hne : X ≠ [] := by cases hX; simp
  have hlt : s.b.forest.length + Wt.length < s1.b.forest.length := by
    rw [hf1]
    have : 0 < X.length := List.length_pos_iff.mpr hne
    simp; omega
  refine tot_seq (closeAt_wrap .UNIT g1 n1 p1 hlt) fun _ s2 ⟨ht2, ⟨id, hf2⟩, g2, n2, p2, e2⟩ => ?_
  have hl : s.b.forest.length + Wt.length = (s.b.forest ++ Wt).length := by simp
  have hf2' : s2.b.forest = s.b.forest ++ Wt ++ [.node id .UNIT X] := by
    rw [hf2, hf1, hl, List.take_left', List.drop_left'] <;> rfl
  refine tot_pure ⟨c, Wt, .node id .UNIT X, rfl, ht2.trans ht1, hf2', hWt, ⟨rfl, ?_⟩, ?_, p2, g2, n2,
    e1.trans (e2.mono (by omega))⟩
  · simp only [Tree.kids]
    rw [itemTrees_opKids hX, itemTrees_map hX, hu]
  · cases X with
    | nil => exact absurd rfl hne
    | cons x X => rfl


namespace Opd

theorem followKindQ_notWS {K' : List Token} (h : FollowKindQ (headKind K')) : NotWSHead K' := by
  intro t r hK
  subst hK
  exact (followKindQ_cases h).2.2.2

/-- `C06.value_num` with the larger follow set `FollowKindQ` (it contains `to`). -/
theorem value_numQ {s : PState} (F : Nat) (W : List Token) (txt : List Char) (K : List Token)
    (ht : s.toks = W ++ ⟨.NUMBER, txt⟩ :: K) (hw : AllWS W) (hK : FollowQ K) (h : C06.Good s.b) :
    Tot (Grammar.value (F + 2) W.length) s (fun r s' => ∃ cur Wt id id', r = some cur ∧ s'.toks = K ∧
      s'.b.forest = s.b.forest ++ Wt ++ [.node id .NUMBER [.tok id' .NUMBER txt]] ∧
      WSTrees Wt ∧ Wt.length = W.length ∧ Pos s'.b cur (s.b.forest.length + W.length) ∧
      C06.Good s'.b ∧ NoNext s'.b ∧ Ext s.b.forest.length s.b s'.b) := by
  obtain ⟨Wk, K', rfl, hwk, hfk⟩ := hK
  unfold Grammar.value
  refine tot_nth_ws W _ ht ?_
  simp only [headKind]
  refine tot_seq (bumpN_ws W ht hw h) fun _ s1 ⟨ht1, ⟨Wt, hf1, hWt, hlen⟩, g1, _, e1⟩ => ?_
  refine tot_seq (checkpoint_exact g1) fun c s2 ⟨ht2, hf2, _, g2, p2, e2⟩ => ?_
  refine tot_seq (bump_exact (ht2.trans ht1) g2) fun _ s3 ⟨ht3, ⟨id', hf3⟩, g3, n3, e3⟩ => ?_
  refine tot_countSkip_ws Wk K' ht3 hwk (followKindQ_notWS hfk) ?_
  have hkinds : headKind K' ≠ .PERCENTAGE ∧ headKind K' ≠ .NUMBER ∧ headKind K' ≠ .WORD := by
    have := followKindQ_cases hfk
    exact ⟨this.2.2.1, this.1, this.2.1⟩
  refine tot_seq (P := fun kind s' => Syntax.NUMBER = kind ∧ s3 = s') ?_ fun kind s4 ⟨hkind, hs4⟩ => ?_
  · refine tot_nth_ws Wk K' ht3 ?_
    have : (headKind K' == Syntax.PERCENTAGE) = false := by simp [hkinds.1]
    simp only [this, Bool.false_eq_true, ↓reduceIte]
    refine ⟨_, s3, ?_, rfl, rfl⟩
    simp only [bind, unit_none F Wk K' ht3 hkinds.2]
    rfl
  subst hkind hs4
  have hlen3 : s3.b.forest = s.b.forest ++ Wt ++ [.tok id' .NUMBER txt] := by
    rw [hf3, hf2, hf1]
  have hpos3 : Pos s3.b c (s.b.forest.length + W.length) := by
    have := e3.pos c _ (Nat.le_refl _) (hf2 ▸ p2)
    rw [hf2, hf1] at this
    simpa [hlen] using this
  refine tot_seq (closeAt_wrap .NUMBER g3 n3 hpos3 (by rw [hlen3]; simp [hlen]))
    fun _ s5 ⟨ht5, ⟨id, hf5⟩, g5, n5, p5, e5⟩ => ?_
  refine tot_pure ⟨c, Wt, id, id', rfl, ht5.trans ht3, ?_, hWt, hlen, p5, g5, n5, ?_⟩
  · rw [hf5, hlen3]
    have hl : s.b.forest.length + W.length = (s.b.forest ++ Wt).length := by simp [hlen]
    rw [hl, List.take_left', List.drop_left'] <;> rfl
  · have hle : s.b.forest.length ≤ s1.b.forest.length := by rw [hf1]; simp
    have e23 : Ext s1.b.forest.length s1.b s3.b := e2.trans (by rw [← hf2]; exact e3)
    have e5' : Ext s1.b.forest.length s3.b s5.b := by
      have : s1.b.forest.length = s.b.forest.length + W.length := by rw [hf1]; simp [hlen]
      rw [this]; exact e5
    exact e1.trans ((e23.trans e5').mono hle)

end Opd

open Opd in
/-- `Grammar.value` on a plain number. -/
theorem valueSpecQ_num (l : Spec.Decimal.Literal) : ValueSpecQ (.num l) := by
  refine ⟨2, ?_⟩
  intro ws s W0 K _ _ hg ht hw0 hK
  have hK' : FollowQ K := by simpa [FollowsQ, endsUnit] using hK
  simp only [toksQ, List.cons_append, List.nil_append] at ht
  refine tot_mono (value_numQ 0 W0 _ K ht hw0 hK' hg)
    fun r s' ⟨cur, Wt, id, id', hr, ht', hf', hWt, hlen, hpos, g', n', e'⟩ => ?_
  refine ⟨cur, Wt, _, hr, ht', hf', hWt, .num rfl rfl ?_, hlen ▸ hpos, g', n', e'⟩
  simp [Tree.text, Tree.textList]


open Opd in
/-- `Grammar.value` on a number with a written unit expression. -/
theorem valueSpecQ_qty (l : Spec.Decimal.Literal) (u : List RTerm) : ValueSpecQ (.qty l u) := by
  obtain ⟨Fu, hU⟩ := unitSpecQ u
  refine ⟨Fu + 1, ?_⟩
  intro ws s W0 K _ _ hg ht hw0 hK
  have hK' : UFollowQ K := by simpa [FollowsQ, endsUnit] using hK
  simp only [toksQ, List.cons_append, List.nil_append, List.append_assoc] at ht
  obtain ⟨i, rest, hu, hi⟩ := unitItems_head u
  have hhead : headKind (unitToks u ++ K) = i.tk := by rw [unitToks, hu]; rfl
  have hkinds : headKind (unitToks u ++ K) ≠ .PERCENTAGE ∧
      headKind (unitToks u ++ K) ≠ .WHITESPACE := by
    rw [hhead]
    rcases hi.1 with h | h <;> rw [h] <;> simp
  have hnw : NotWSHead (unitToks u ++ K) := by
    intro t r htr
    have := hkinds.2
    rw [htr] at this
    exact this
  unfold Grammar.value
  refine tot_nth_ws W0 _ ht ?_
  simp only [headKind]
  refine tot_seq (bumpN_ws W0 ht hw0 hg) fun _ s1 ⟨ht1, ⟨Wt, hf1, hWt, hlen⟩, g1, _, e1⟩ => ?_
  refine tot_seq (checkpoint_exact g1) fun c s2 ⟨ht2, hf2, _, g2, p2, e2⟩ => ?_
  refine tot_seq (bump_exact (ht2.trans ht1) g2) fun _ s3 ⟨ht3, ⟨id', hf3⟩, g3, n3, e3⟩ => ?_
  refine tot_countSkip_ws (blankTok (blank1 ws)) (unitToks u ++ K) ht3 (allWS_blankTok _) hnw ?_
  refine tot_seq (P := fun kind s' => Syntax.WITH_UNIT = kind ∧ s'.toks = K ∧
      (∃ Wq x, s'.b.forest = s3.b.forest ++ Wq ++ [x] ∧ WSTrees Wq ∧ RepUnit x u ∧
        x.hasChildren = true) ∧ C06.Good s'.b ∧ NoNext s'.b ∧ Ext s3.b.forest.length s3.b s'.b) ?_
    fun kind s4 ⟨hkind, ht4, ⟨Wq, x, hf4, hWq, hx, hxc⟩, g4, n4, e4⟩ => ?_
  · refine tot_nth_ws (blankTok (blank1 ws)) (unitToks u ++ K) ht3 ?_
    have : (headKind (unitToks u ++ K) == Syntax.PERCENTAGE) = false := by simp [hkinds.1]
    simp only [this, Bool.false_eq_true, ↓reduceIte]
    refine tot_seq (hU s3 _ K g3 ht3 (allWS_blankTok _) hK')
      fun r s4 ⟨cur, Wq, x, hr, ht4, hf4, hWq, hx, hxc, _, g4, n4, e4⟩ => ?_
    subst hr
    exact tot_pure ⟨rfl, ht4, ⟨Wq, x, hf4, hWq, hx, hxc⟩, g4, n4, e4⟩
  subst hkind
  have hlen3 : s3.b.forest = s.b.forest ++ Wt ++ [.tok id' .NUMBER (renderNumber l)] := by
    rw [hf3, hf2, hf1]
  have hpos3 : Pos s3.b c (s.b.forest.length + W0.length) := by
    have := e3.pos c _ (Nat.le_refl _) (hf2 ▸ p2)
    rw [hf2, hf1] at this
    simpa [hlen] using this
  have hpos4 : Pos s4.b c (s.b.forest.length + W0.length) :=
    e4.pos c _ (by rw [hlen3]; simp [hlen]) hpos3
  refine tot_seq (closeAt_wrap .WITH_UNIT g4 n4 hpos4 (by rw [hf4, hlen3]; simp [hlen]))
    fun _ s5 ⟨ht5, ⟨id, hf5⟩, g5, n5, p5, e5⟩ => ?_
  refine tot_pure ⟨c, Wt, .node id .WITH_UNIT (.tok id' .NUMBER (renderNumber l) :: (Wq ++ [x])),
    rfl, ht5.trans ht4, ?_, hWt, ?_, hlen ▸ p5, g5, n5, ?_⟩
  · rw [hf5, hf4, hlen3]
    have hl : s.b.forest.length + W0.length = (s.b.forest ++ Wt).length := by simp [hlen]
    have hassoc : s.b.forest ++ Wt ++ [Tree.tok id' .NUMBER (renderNumber l)] ++ Wq ++ [x]
        = (s.b.forest ++ Wt) ++ (Tree.tok id' .NUMBER (renderNumber l) :: (Wq ++ [x])) := by
      simp
    rw [hassoc, hl, List.take_left', List.drop_left'] <;> rfl
  · refine .qty (un := x) (more := []) rfl rfl ?_ hx
    rw [opKids_append, opKids_ws hWq, opKids_single hxc]
    rfl
  · have hle : s.b.forest.length ≤ s1.b.forest.length := by rw [hf1]; simp
    have hl1 : s1.b.forest.length = s.b.forest.length + W0.length := by rw [hf1]; simp [hlen]
    have e23 : Ext s1.b.forest.length s1.b s3.b := e2.trans (by rw [← hf2]; exact e3)
    have e4' : Ext s1.b.forest.length s3.b s4.b := e4.mono (by rw [hlen3, hl1]; simp [hlen])
    have e5' : Ext s1.b.forest.length s4.b s5.b := by rw [hl1]; exact e5
    exact e1.trans (((e23.trans e4').trans e5').mono hle)

end Anything.QQ
