import Anything.Lemmas.FUParseDefs
import Anything.Lemmas.UQParse
import Anything.Lemmas.UQCall2
/-!
# The full expression language — `Grammar.value` on the atoms

`ValueSpecF` for every atom of `FExprU`: number and percent literals, literals with a written unit
expression, fact phrases, parenthesised groups and builtin calls (one and two arguments), the
latter two relative to `OpSpecF` of the enclosed expression. Ported from `Lemmas/UQOperands.lean`,
`Lemmas/UQParse.lean`, `Lemmas/UQCall.lean`, `Lemmas/UQCall2.lean`; the token-level lemmas
(`UQ.value_numC`, `C06.value_pct`, `UQ.unitSpecC`, `UQ.value_phraseQ`) are reused unchanged.
-/

namespace Anything.FU
open Anything Anything.Lexer Anything.Parser Anything.Grammar Anything.PTotal Anything.Spec
open Anything.Spec.Arith Anything.Spec.Decimal Anything.Spec.Quantity Anything.C06 Anything.QQ
open Anything.QQ.Opd Anything.UQ

/-! ### Trees have children -/

theorem hasChildren_of_repF {x : Tree} {e : FExprU} (h : RepF x e) : x.hasChildren = true := by
  cases h with
  | num _ hc _ _ => exact hc
  | pct _ _ _ => rfl
  | qty _ _ _ _ _ => rfl
  | fact _ hc _ => exact hc
  | paren hk _ => exact node_hasChildren hk
  | chain hk _ _ _ _ => exact node_hasChildren hk
  | call1 hk _ _ _ _ => exact node_hasChildren hk
  | call2 hk _ _ _ _ _ _ _ _ => exact node_hasChildren hk

/-! ### Heads of token lists -/

/-- The token list of a well-formed expression starts with a NUMBER, WORD or OPEN_PAREN token. -/
theorem toksF_head : ∀ (e : FExprU) (ws : Layout), WFF e → ∃ t r, toksF e ws = t :: r ∧
    (t.kind = .NUMBER ∨ t.kind = .WORD ∨ t.kind = .OPEN_PAREN)
  | .num l, ws, _ => by
    by_cases hp : l.percent = true
    · simp only [toksF, hp, ↓reduceIte, List.cons_append, List.nil_append]
      exact ⟨_, _, rfl, Or.inl rfl⟩
    · simp only [toksF, hp, Bool.false_eq_true, ↓reduceIte]
      exact ⟨_, _, rfl, Or.inl rfl⟩
  | .qty l u, ws, _ => by
    simp only [toksF, List.cons_append, List.nil_append]
    exact ⟨_, _, rfl, Or.inl rfl⟩
  | .bin op a b, ws, hwf => by
    simp only [WFF] at hwf
    obtain ⟨t, r, h, hk⟩ := toksF_head a ws hwf.1
    simp only [toksF, h]
    exact ⟨t, _, rfl, hk⟩
  | .paren e, ws, _ => by
    simp only [toksF]
    exact ⟨_, _, rfl, Or.inr (Or.inr rfl)⟩
  | .cast a u, ws, hwf => by
    simp only [WFF] at hwf
    obtain ⟨t, r, h, hk⟩ := toksF_head a ws hwf
    simp only [toksF, h]
    exact ⟨t, _, rfl, hk⟩
  | .fact _ _ _, _, _ => ⟨_, _, rfl, Or.inr (Or.inl rfl)⟩
  | .call f arg prec, ws, _ => by
    simp only [toksF, List.cons_append]
    exact ⟨_, _, rfl, Or.inr (Or.inl rfl)⟩

theorem toksF_notWS (e : FExprU) (ws : Layout) (K : List Token) (hwf : WFF e) :
    NotWSHead (toksF e ws ++ K) := by
  obtain ⟨t, r, h, hk⟩ := toksF_head e ws hwf
  intro t' r' heq
  rw [h] at heq
  cases heq
  rcases hk with h | h | h <;> rw [h] <;> simp

theorem headKind_toksF_ne_close (e : FExprU) (ws : Layout) (K : List Token) (hwf : WFF e) :
    (headKind (toksF e ws ++ K) == Syntax.CLOSE_PAREN) = false := by
  obtain ⟨t, r, h, hk⟩ := toksF_head e ws hwf
  rw [h]
  simp only [List.cons_append, headKind]
  rcases hk with h | h | h <;> rw [h] <;> rfl

/-! ### Literals -/

/-- `Grammar.value` on a number literal: a NUMBER node, or — a percent literal — a PERCENTAGE
node. -/
theorem valueSpecF_num (l : Literal) : ValueSpecF (.num l) := by
  refine ⟨2, ?_⟩
  intro ws s W0 K _ hlay hg ht hw0 hK
  have hK' : FollowC K := by simpa [FollowsF, endsUnitF] using hK
  by_cases hp : l.percent = true
  · simp only [toksF, hp, ↓reduceIte, List.append_assoc, List.cons_append, List.nil_append,
      pctTok] at ht
    refine tot_mono (value_pct 1 W0 _ (blankTok (blank1 ws)) ⟨.PERCENTAGE, ['%']⟩ K ht hw0
      (allWS_blankTok _) rfl hg)
      fun r s' ⟨cur, Wt, id, id', more, hr, ht', hf', hWt, hlen, hpos, g', n', e'⟩ => ?_
    exact ⟨cur, Wt, _, hr, ht', hf', hWt, .pct rfl rfl hp, hlen ▸ hpos, g', n', e'⟩
  · have hp' : l.percent = false := by simpa using hp
    simp only [toksF, hp', Bool.false_eq_true, ↓reduceIte, List.cons_append, List.nil_append] at ht
    refine tot_mono (value_numC 0 W0 _ K ht hw0 hK' hg)
      fun r s' ⟨cur, Wt, id, id', hr, ht', hf', hWt, hlen, hpos, g', n', e'⟩ => ?_
    refine ⟨cur, Wt, _, hr, ht', hf', hWt, .num rfl rfl hp' ?_, hlen ▸ hpos, g', n', e'⟩
    simp [Tree.text, Tree.textList]

/-- `Grammar.value` on a number with a written unit expression. -/
theorem valueSpecF_qty (l : Literal) (u : List RTerm) : ValueSpecF (.qty l u) := by
  obtain ⟨Fu, hU⟩ := unitSpecC u
  refine ⟨Fu + 1, ?_⟩
  intro ws s W0 K hwf _ hg ht hw0 hK
  have hK' : UFollowC K := by simpa [FollowsF, endsUnitF] using hK
  have hpf : l.percent = false := hwf.2
  simp only [toksF, List.cons_append, List.nil_append, List.append_assoc] at ht
  obtain ⟨i, rest, hu, hi⟩ := unitItems_head u
  have hhead : headKind (unitToks u ++ K) = i.tk := by rw [unitToks, hu]; rfl
  have hkinds : headKind (unitToks u ++ K) ≠ .PERCENTAGE ∧
      headKind (unitToks u ++ K) ≠ .WHITESPACE := by
    rw [hhead]
    rcases hi.1 with h | h <;> rw [h] <;> simp
  have hnw : NotWSHead (unitToks u ++ K) := by
    intro t r htr
    have := hkinds.2
    rw [htr] at this
    exact this
  unfold Grammar.value
  refine tot_nth_ws W0 _ ht ?_
  simp only [headKind]
  refine tot_seq (bumpN_ws W0 ht hw0 hg) fun _ s1 ⟨ht1, ⟨Wt, hf1, hWt, hlen⟩, g1, _, e1⟩ => ?_
  refine tot_seq (checkpoint_exact g1) fun c s2 ⟨ht2, hf2, _, g2, p2, e2⟩ => ?_
  refine tot_seq (bump_exact (ht2.trans ht1) g2) fun _ s3 ⟨ht3, ⟨id', hf3⟩, g3, n3, e3⟩ => ?_
  refine tot_countSkip_ws (blankTok (blank1 ws)) (unitToks u ++ K) ht3 (allWS_blankTok _) hnw ?_
  refine tot_seq (P := fun kind s' => Syntax.WITH_UNIT = kind ∧ s'.toks = K ∧
      (∃ Wq x, s'.b.forest = s3.b.forest ++ Wq ++ [x] ∧ WSTrees Wq ∧ RepUnit x u ∧
        x.hasChildren = true) ∧ C06.Good s'.b ∧ NoNext s'.b ∧ Ext s3.b.forest.length s3.b s'.b) ?_
    fun kind s4 ⟨hkind, ht4, ⟨Wq, x, hf4, hWq, hx, hxc⟩, g4, n4, e4⟩ => ?_
  · refine tot_nth_ws (blankTok (blank1 ws)) (unitToks u ++ K) ht3 ?_
    have : (headKind (unitToks u ++ K) == Syntax.PERCENTAGE) = false := by simp [hkinds.1]
    simp only [this, Bool.false_eq_true, ↓reduceIte]
    refine tot_seq (hU s3 _ K g3 ht3 (allWS_blankTok _) hK')
      fun r s4 ⟨cur, Wq, x, hr, ht4, hf4, hWq, hx, hxc, _, g4, n4, e4⟩ => ?_
    subst hr
    exact tot_pure ⟨rfl, ht4, ⟨Wq, x, hf4, hWq, hx, hxc⟩, g4, n4, e4⟩
  subst hkind
  have hlen3 : s3.b.forest = s.b.forest ++ Wt ++ [.tok id' .NUMBER (renderNumber l)] := by
    rw [hf3, hf2, hf1]
  have hpos3 : Pos s3.b c (s.b.forest.length + W0.length) := by
    have := e3.pos c _ (Nat.le_refl _) (hf2 ▸ p2)
    rw [hf2, hf1] at this
    simpa [hlen] using this
  have hpos4 : Pos s4.b c (s.b.forest.length + W0.length) :=
    e4.pos c _ (by rw [hlen3]; simp [hlen]) hpos3
  refine tot_seq (closeAt_wrap .WITH_UNIT g4 n4 hpos4 (by rw [hf4, hlen3]; simp [hlen]))
    fun _ s5 ⟨ht5, ⟨id, hf5⟩, g5, n5, p5, e5⟩ => ?_
  refine tot_pure ⟨c, Wt, .node id .WITH_UNIT (.tok id' .NUMBER (renderNumber l) :: (Wq ++ [x])),
    rfl, ht5.trans ht4, ?_, hWt, ?_, hlen ▸ p5, g5, n5, ?_⟩
  · rw [hf5, hf4, hlen3]
    have hl : s.b.forest.length + W0.length = (s.b.forest ++ Wt).length := by simp [hlen]
    have hassoc : s.b.forest ++ Wt ++ [Tree.tok id' .NUMBER (renderNumber l)] ++ Wq ++ [x]
        = (s.b.forest ++ Wt) ++ (Tree.tok id' .NUMBER (renderNumber l) :: (Wq ++ [x])) := by
      simp
    rw [hassoc, hl, List.take_left', List.drop_left'] <;> rfl
  · refine .qty (un := x) (more := []) rfl rfl hpf ?_ hx
    rw [opKids_append, opKids_ws hWq, opKids_single hxc]
    rfl
  · have hle : s.b.forest.length ≤ s1.b.forest.length := by rw [hf1]; simp
    have hl1 : s1.b.forest.length = s.b.forest.length + W0.length := by rw [hf1]; simp [hlen]
    have e23 : Ext s1.b.forest.length s1.b s3.b := e2.trans (by rw [← hf2]; exact e3)
    have e4' : Ext s1.b.forest.length s3.b s4.b := e4.mono (by rw [hlen3, hl1]; simp [hlen])
    have e5' : Ext s1.b.forest.length s4.b s5.b := by rw [hl1]; exact e5
    exact e1.trans (((e23.trans e4').trans e5').mono hle)

/-- `Grammar.value` on a fact phrase. -/
theorem valueSpecF_fact (p : List Char) (v : Rat) (u : List (UnitKey × Int × Int)) :
    ValueSpecF (.fact p v u) := by
  refine ⟨(factMore p).length + 1 + 1, ?_⟩
  intro ws s W0 K hwf _ hg ht hw0 hK
  have hK' : FollowC K := by simpa [FollowsF, endsUnitF] using hK
  simp only [toksF] at ht
  refine tot_mono (value_phraseQ ((factMore p).length + 1) W0 (factFirst p) (factMore p) K ht hw0 hK'
    hg (Nat.le_refl _))
    fun r s' ⟨cur, Wt, x, hr, ht', hf', hWt, hlen, hk, hc, htx, hpos, g', n', e'⟩ => ?_
  exact ⟨cur, Wt, x, hr, ht', hf', hWt, .fact hk hc (htx.trans hwf.2), hlen ▸ hpos, g', n', e'⟩

/-! ### Parenthesised groups -/

theorem valueSpecF_paren (e : FExprU) (ho : OpSpecF e) : ValueSpecF (.paren e) := by
  obtain ⟨Fo, ho⟩ := ho
  refine ⟨Fo + 1, ?_⟩
  intro ws s W0 K hwf hlay hg ht hw0 _
  obtain ⟨hb1, le, hb2⟩ := hlay
  simp only [WFF] at hwf
  simp only [toksF, openTok, closeTok, List.append_assoc, List.cons_append, List.nil_append] at ht
  unfold Grammar.value
  refine tot_nth_ws W0 _ ht ?_
  simp only [headKind]
  refine tot_seq (bumpN_ws W0 ht hw0 hg) fun _ s1 ⟨ht1, ⟨Wt, hf1, hWt, hlen⟩, g1, _, e1⟩ => ?_
  refine tot_seq (checkpoint_exact g1) fun c s2 ⟨ht2, hf2, _, g2, p2, e2⟩ => ?_
  refine tot_seq (bump_exact (ht2.trans ht1) g2) fun _ s3 ⟨ht3, ⟨ido, hf3⟩, g3, _, e3⟩ => ?_
  refine tot_countSkip_ws (blankTok (blank1 ws)) _ ht3 (allWS_blankTok _) (toksF_notWS e _ _ hwf) ?_
  refine tot_seq (ho (rest1 ws) s3 (blankTok (blank1 ws)) (blankTok (blank1 (afterF e (rest1 ws))))
    (⟨.CLOSE_PAREN, [')']⟩ :: K) hwf le g3 ht3 (allWS_blankTok _) (allWS_blankTok _)
    (Or.inl rfl)) fun r s4 ⟨Wt', x, hr, ht4, hf4, hWt', hx, g4, _, e4⟩ => ?_
  subst hr
  simp only
  refine tot_seq (eat_yes _ _ K .CLOSE_PAREN ht4 (allWS_blankTok _) rfl g4)
    fun b s5 ⟨hb, ht5, ⟨Fw, idc, hf5, hFw, _⟩, g5, n5, e5⟩ => ?_
  subst hb
  simp only [Bool.not_true, Bool.false_eq_true, ↓reduceIte]
  have hl1 : s1.b.forest.length = s.b.forest.length + Wt.length := by rw [hf1]; simp
  have hf3' : s3.b.forest = s.b.forest ++ Wt ++ [.tok ido .OPEN_PAREN ['(']] := by
    rw [hf3, hf2, hf1]
  have hf5' : s5.b.forest = (s.b.forest ++ Wt) ++
      (.tok ido .OPEN_PAREN ['('] :: (Wt' ++ [x] ++ Fw ++ [.tok idc .CLOSE_PAREN [')']])) := by
    rw [hf5, hf4, hf3']; simp
  have hle3 : s1.b.forest.length ≤ s3.b.forest.length := by rw [hf3', hl1]; simp
  have hle4 : s1.b.forest.length ≤ s4.b.forest.length := by rw [hf4]; simp; omega
  have e25 : Ext s1.b.forest.length s2.b s5.b :=
    ((hf2 ▸ e3 : Ext s1.b.forest.length s2.b s3.b).trans (e4.mono hle3)).trans (e5.mono hle4)
  have p5 : Pos s5.b c (s.b.forest.length + Wt.length) := hl1 ▸ e25.pos c _ (Nat.le_refl _) p2
  refine tot_seq (closeAt_wrap .OPERATION g5 n5 p5 (by rw [hf5']; simp))
    fun _ s6 ⟨ht6, ⟨id, hf6⟩, g6, n6, p6, e6⟩ => ?_
  refine tot_pure ⟨c, Wt, .node id .OPERATION (.tok ido .OPEN_PAREN ['('] ::
    (Wt' ++ [x] ++ Fw ++ [.tok idc .CLOSE_PAREN [')']])), rfl, ht6.trans ht5, ?_, hWt, ?_, p6, g6,
    n6, ?_⟩
  · rw [hf6, hf5']
    have hl : s.b.forest.length + Wt.length = (s.b.forest ++ Wt).length := by simp
    rw [hl, List.take_left' rfl, List.drop_left' rfl]
  · refine .paren ?_ hx
    rw [show (Tree.tok ido Syntax.OPEN_PAREN ['('] :: (Wt' ++ [x] ++ Fw ++ [Tree.tok idc Syntax.CLOSE_PAREN [')']]))
      = [Tree.tok ido Syntax.OPEN_PAREN ['(']] ++ Wt' ++ [x] ++ Fw ++ [Tree.tok idc Syntax.CLOSE_PAREN [')']] by simp]
    simp only [opKids_append, opKids_tok, opKids_ws hWt', opKids_ws hFw,
      opKids_single (hasChildren_of_repF hx), List.nil_append, List.append_nil]
  · have hle : s.b.forest.length ≤ s1.b.forest.length := by omega
    exact e1.trans (((e2.trans e25).trans (hl1 ▸ e6)).mono hle)

/-! ### Calls -/

/-- `operation` on a single NUMBER token followed — after a blank — by `)`, `,` or the end: one
loop iteration, nothing to close. -/
theorem operation_numberF {s : PState} (Wa Wk K' : List Token) (txt : List Char)
    (hg : C06.Good s.b) (ht : s.toks = Wa ++ (⟨.NUMBER, txt⟩ :: (Wk ++ K'))) (hwa : AllWS Wa)
    (hwk : AllWS Wk) (hend : EndKindC (headKind K')) :
    Tot (operation (0 + 2 + 1 + 1) Wa.length) s (fun r s' => ∃ Wt id id', r = some Wk.length ∧
      s'.toks = Wk ++ K' ∧
      s'.b.forest = s.b.forest ++ Wt ++ [.node id .NUMBER [.tok id' .NUMBER txt]] ∧ WSTrees Wt ∧
      C06.Good s'.b ∧ NoNext s'.b ∧ Ext s.b.forest.length s.b s'.b) := by
  unfold operation
  refine tot_seq (checkpoint_exact hg) fun opn s1 ⟨ht1, hf1, _, g1, p1, e1⟩ => ?_
  rw [opLoop_unfold _ _ _ _ _ rfl]
  refine tot_seq (value_numC 0 Wa txt (Wk ++ K') (ht1.trans ht) hwa
    ⟨Wk, K', rfl, hwk, endKindC_follow hend⟩ g1)
    fun r s2 ⟨cur, Wt, id, id', hr, ht2, hf2, hWt, _, _, g2, n2, e2⟩ => ?_
  subst hr
  simp only
  unfold afterValue
  refine tot_countSkip_ws Wk K' ht2 hwk (followKindC_notWS (endKindC_follow hend)) ?_
  refine tot_nth_ws Wk K' ht2 ?_
  have : opInfo (headKind K') = none := by
    rcases hend with h | h | h <;> rw [h] <;> rfl
  simp only [this, closeAll]
  refine tot_seq (tot_pure (Q := fun _ s' => s' = s2) rfl) fun _ s3 hs => ?_
  subst hs
  exact tot_pure ⟨Wt, id, id', rfl, ht2, by rw [hf2, hf1], hWt, g2, n2, e1.trans (hf1 ▸ e2)⟩

/-- `callArguments` around any run of `argsLoop` that stops before a blank and `)`: an
FN_ARGUMENTS node around what the loop built, then the blank and the closing parenthesis. -/
theorem callArguments_wrap {Fa : Nat} {s : PState} {Wk K : List Token} {R : List Tree → Prop}
    (hg : C06.Good s.b) (hwk : AllWS Wk)
    (ha : ∀ s1 : PState, s1.toks = s.toks → C06.Good s1.b →
      Tot (argsLoop Fa) s1 (fun r s' => ∃ A, r = some Wk.length ∧
        s'.toks = Wk ++ ⟨.CLOSE_PAREN, [')']⟩ :: K ∧ s'.b.forest = s1.b.forest ++ A ∧ A ≠ [] ∧
        R A ∧ C06.Good s'.b ∧ NoNext s'.b ∧ Ext s1.b.forest.length s1.b s'.b)) :
    Tot (callArguments (Fa + 1)) s (fun r s' => ∃ aid aks tail, r = true ∧ s'.toks = K ∧
      s'.b.forest = s.b.forest ++ [.node aid .FN_ARGUMENTS aks] ++ tail ∧ opKids tail = [] ∧
      R aks ∧ C06.Good s'.b ∧ NoNext s'.b ∧ Ext s.b.forest.length s.b s'.b) := by
  unfold callArguments
  refine tot_seq (checkpoint_exact hg) fun c s1 ⟨ht1, hf1, _, g1, p1, e1⟩ => ?_
  refine tot_seq (ha s1 ht1 g1) fun r s2 ⟨A, hr, ht2, hf2, hAne, hA, g2, n2, e2⟩ => ?_
  subst hr
  simp only
  have p2 : Pos s2.b c s.b.forest.length := hf1 ▸ e2.pos c _ (Nat.le_refl _) (hf1 ▸ p1)
  refine tot_seq (closeAt_wrap .FN_ARGUMENTS g2 n2 p2 (by
    rw [hf2, hf1]
    have := List.length_pos_of_ne_nil hAne
    simp; omega)) fun _ s3 ⟨ht3, ⟨aid, hf3⟩, g3, _, _, e3⟩ => ?_
  have hf3' : s3.b.forest = s.b.forest ++ [.node aid .FN_ARGUMENTS A] := by
    rw [hf3, hf2, hf1, List.take_left' rfl, List.drop_left' rfl]
  refine tot_mono (eat_yes _ ⟨.CLOSE_PAREN, [')']⟩ K .CLOSE_PAREN (ht3.trans ht2) hwk rfl g3)
    fun b s4 ⟨hb, ht4, ⟨Fw, idc, hf4, hFw, _⟩, g4, n4, e4⟩ => ?_
  refine ⟨aid, A, Fw ++ [.tok idc .CLOSE_PAREN [')']], hb, ht4,
    by rw [hf4, hf3']; simp, ?_, hA, g4, n4, ?_⟩
  · rw [opKids_append, opKids_ws hFw, opKids_tok]; rfl
  · exact e1.trans (((hf1 ▸ e2).trans e3).trans (e4.mono (by rw [hf3']; simp)))

/-- `Grammar.value` on a WORD token glued to `(`: a function name; around any run of
`callArguments` the tree is an FN_CALL node `[FN_NAME, (, FN_ARGUMENTS …, )]`. -/
theorem value_callG (f : Fn) {Fc : Nat} {s : PState} {W0 T K : List Token}
    {R : List Tree → Prop} (hg : C06.Good s.b)
    (ht : s.toks = W0 ++ (⟨.WORD, f.name⟩ :: ⟨.OPEN_PAREN, ['(']⟩ :: T)) (hw0 : AllWS W0)
    (hR : ∀ aks, R aks → ∃ x r, opKids aks = x :: r)
    (hc : ∀ s6 : PState, s6.toks = T → C06.Good s6.b →
      Tot (callArguments Fc) s6 (fun r s' => ∃ aid aks tail, r = true ∧ s'.toks = K ∧
        s'.b.forest = s6.b.forest ++ [.node aid .FN_ARGUMENTS aks] ++ tail ∧ opKids tail = [] ∧
        R aks ∧ C06.Good s'.b ∧ NoNext s'.b ∧ Ext s6.b.forest.length s6.b s'.b)) :
    Tot (Grammar.value (Fc + 1) W0.length) s (fun r s' => ∃ cur Wt idc ks nm aid aks,
      r = some cur ∧ s'.toks = K ∧ s'.b.forest = s.b.forest ++ Wt ++ [.node idc .FN_CALL ks] ∧
      WSTrees Wt ∧ opKids ks = [nm, .node aid .FN_ARGUMENTS aks] ∧ nm.kind = .FN_NAME ∧
      nm.text = f.name ∧ R aks ∧
      Pos s'.b cur (s.b.forest.length + Wt.length) ∧ C06.Good s'.b ∧ NoNext s'.b ∧
      Ext s.b.forest.length s.b s'.b) := by
  unfold Grammar.value
  refine tot_nth_ws W0 _ ht ?_
  simp only [headKind]
  refine tot_seq (bumpN_ws W0 ht hw0 hg) fun _ s1 ⟨ht1, ⟨Wt, hf1, hWt, hlen⟩, g1, _, e1⟩ => ?_
  refine tot_seq (checkpoint_exact g1) fun start s2 ⟨ht2, hf2, _, g2, p2, e2⟩ => ?_
  refine tot_seq (checkpoint_exact g2) fun c s3 ⟨ht3, hf3, _, g3, p3, e3⟩ => ?_
  have ht3' := (ht3.trans ht2).trans ht1
  refine tot_seq (bumpNode_exact .WORD ht3' g3) fun _ s4 ⟨ht4, ⟨idw, idt, hf4⟩, g4, n4, e4⟩ => ?_
  have ht4' : s4.toks = [] ++ (⟨.OPEN_PAREN, ['(']⟩ :: T) := ht4
  refine tot_nth_ws [] _ ht4' ?_
  simp only [headKind, beq_self_eq_true, ↓reduceIte]
  have hl1 : s1.b.forest.length = s.b.forest.length + Wt.length := by rw [hf1]; simp
  have hl2 : s2.b.forest.length = s1.b.forest.length := by rw [hf2]
  have hl3 : s3.b.forest.length = s1.b.forest.length := by rw [hf3, hf2]
  have hf4' : s4.b.forest = (s.b.forest ++ Wt) ++ [.node idw .WORD [.tok idt .WORD f.name]] := by
    rw [hf4, hf3, hf2, hf1]
  have e3' : Ext s1.b.forest.length s2.b s3.b := hl2 ▸ e3
  have e4' : Ext s1.b.forest.length s3.b s4.b := hl3 ▸ e4
  have p4 : Pos s4.b c (s.b.forest.length + Wt.length) :=
    hl1 ▸ e4'.pos c _ (Nat.le_refl _) (hl2 ▸ p3)
  refine tot_seq (closeAt_wrap .FN_NAME g4 n4 p4 (by rw [hf4']; simp))
    fun _ s5 ⟨ht5, ⟨idn, hf5⟩, g5, _, _, e5⟩ => ?_
  have hl : s.b.forest.length + Wt.length = (s.b.forest ++ Wt).length := by simp
  rw [hf4', hl, List.take_left' rfl, List.drop_left' rfl] at hf5
  refine tot_seq (bump_exact (ht5.trans ht4) g5) fun _ s6 ⟨ht6, ⟨idp, hf6⟩, g6, _, e6⟩ => ?_
  refine tot_seq (hc s6 ht6 g6)
    fun r s7 ⟨aid, aks, tail, hr, ht7, hf7, htail, haks, g7, n7, e7⟩ => ?_
  subst hr
  simp only [Bool.not_true, Bool.false_eq_true, ↓reduceIte]
  have e5' : Ext s1.b.forest.length s4.b s5.b := hl1 ▸ e5
  have e6' : Ext s1.b.forest.length s5.b s6.b := e6.mono (by rw [hf5, hl1]; simp)
  have e7' : Ext s1.b.forest.length s6.b s7.b := e7.mono (by rw [hf6, hf5, hl1]; simp)
  have e27 : Ext s1.b.forest.length s2.b s7.b :=
    (((e3'.trans e4').trans e5').trans e6').trans e7'
  have p7 : Pos s7.b c (s.b.forest.length + Wt.length) :=
    hl1 ▸ ((e4'.trans e5').trans (e6'.trans e7')).pos c _ (Nat.le_refl _) (hl2 ▸ p3)
  have hf7' : s7.b.forest = (s.b.forest ++ Wt) ++
      (.node idn .FN_NAME [.node idw .WORD [.tok idt .WORD f.name]] ::
        .tok idp .OPEN_PAREN ['('] :: .node aid .FN_ARGUMENTS aks :: tail) := by
    rw [hf7, hf6, hf5]; simp
  refine tot_seq (closeAt_wrap .FN_CALL g7 n7 p7 (by rw [hf7']; simp))
    fun _ s8 ⟨ht8, ⟨idc, hf8⟩, g8, n8, _, e8⟩ => ?_
  rw [hf7', hl, List.take_left' rfl, List.drop_left' rfl] at hf8
  have e28 : Ext s1.b.forest.length s2.b s8.b := e27.trans (hl1 ▸ e8)
  refine tot_pure ⟨start, Wt, idc, _, .node idn .FN_NAME [.node idw .WORD [.tok idt .WORD f.name]],
    aid, aks, rfl, ht8.trans ht7, hf8, hWt, ?_, rfl, ?_, haks,
    hl1 ▸ e28.pos start _ (Nat.le_refl _) p2, g8, n8,
    e1.trans ((e2.trans e28).mono (by omega))⟩
  · have hnm : opKids [Tree.node idn .FN_NAME [.node idw .WORD [.tok idt .WORD f.name]]] =
        [Tree.node idn .FN_NAME [.node idw .WORD [.tok idt .WORD f.name]]] := rfl
    have hsplit : (Tree.node idn .FN_NAME [.node idw .WORD [.tok idt .WORD f.name]] ::
          .tok idp .OPEN_PAREN ['('] :: .node aid .FN_ARGUMENTS aks :: tail) =
        [Tree.node idn .FN_NAME [.node idw .WORD [.tok idt .WORD f.name]]] ++
          [.tok idp .OPEN_PAREN ['(']] ++ [.node aid .FN_ARGUMENTS aks] ++ tail := by simp
    obtain ⟨x0, r0, hx0⟩ := hR aks haks
    rw [hsplit]
    simp only [opKids_append, hnm, opKids_tok, htail, List.append_nil]
    rw [opKids_single (node_hasChildren hx0)]
    rfl
  · simp [Tree.text, Tree.textList]

/-- `argsLoop` on the one argument `e` followed by a blank and the closing parenthesis. -/
theorem argsLoop_oneF {e : FExprU} {Fo : Nat}
    (ho : ∀ (ws : Layout) (s : PState) (W0 Wk K' : List Token), WFF e → LayoutOKF e ws →
      C06.Good s.b →
      s.toks = W0 ++ (toksF e ws ++ (Wk ++ K')) → AllWS W0 → AllWS Wk → EndKindC (headKind K') →
      Tot (operation Fo W0.length) s (fun r s' => ∃ Wt x, r = some Wk.length ∧
        s'.toks = Wk ++ K' ∧
        s'.b.forest = s.b.forest ++ Wt ++ [x] ∧ WSTrees Wt ∧ RepF x e ∧
        C06.Good s'.b ∧ NoNext s'.b ∧ Ext s.b.forest.length s.b s'.b))
    (ws : Layout) (s : PState) (Wa Wk K : List Token) (hwf : WFF e) (hlay : LayoutOKF e ws)
    (hg : C06.Good s.b)
    (ht : s.toks = Wa ++ (toksF e ws ++ (Wk ++ ⟨.CLOSE_PAREN, [')']⟩ :: K))) (hwa : AllWS Wa)
    (hwk : AllWS Wk) :
    Tot (argsLoop (Fo + 1)) s (fun r s' => ∃ A, r = some Wk.length ∧
      s'.toks = Wk ++ ⟨.CLOSE_PAREN, [')']⟩ :: K ∧ s'.b.forest = s.b.forest ++ A ∧ A ≠ [] ∧
      (∃ x, opKids A = [x] ∧ RepF x e) ∧
      C06.Good s'.b ∧ NoNext s'.b ∧ Ext s.b.forest.length s.b s'.b) := by
  unfold argsLoop
  refine tot_countSkip_ws Wa _ ht hwa (toksF_notWS e ws _ hwf) ?_
  refine tot_nth_ws Wa _ ht ?_
  simp only [headKind_toksF_ne_close e ws _ hwf, Bool.false_eq_true, ↓reduceIte]
  refine tot_seq (ho ws s Wa Wk (⟨.CLOSE_PAREN, [')']⟩ :: K) hwf hlay hg ht hwa hwk (Or.inl rfl))
    fun r s1 ⟨Wt, x, hr, ht1, hf1, hWt, hx, g1, n1, e1⟩ => ?_
  subst hr
  simp only
  have hno := eat_no (s := s1) Wk (⟨.CLOSE_PAREN, [')']⟩ :: K) .COMMA ht1 (by simp [headKind])
  refine ⟨some Wk.length, s1, ?_, Wt ++ [x], rfl, ht1, by rw [hf1]; simp, by simp, ⟨x, ?_, hx⟩,
    g1, n1, e1⟩
  · simp only [bind, hno]; rfl
  · rw [opKids_append, opKids_ws hWt, opKids_single (hasChildren_of_repF hx)]; rfl

/-- `argsLoop` on the two arguments `e , n` followed by a blank and the closing parenthesis. -/
theorem argsLoop_twoF {e : FExprU} {Fo : Nat}
    (ho : ∀ (ws : Layout) (s : PState) (W0 Wk K' : List Token), WFF e → LayoutOKF e ws →
      C06.Good s.b →
      s.toks = W0 ++ (toksF e ws ++ (Wk ++ K')) → AllWS W0 → AllWS Wk → EndKindC (headKind K') →
      Tot (operation Fo W0.length) s (fun r s' => ∃ Wt x, r = some Wk.length ∧
        s'.toks = Wk ++ K' ∧
        s'.b.forest = s.b.forest ++ Wt ++ [x] ∧ WSTrees Wt ∧ RepF x e ∧
        C06.Good s'.b ∧ NoNext s'.b ∧ Ext s.b.forest.length s.b s'.b))
    (n : Literal) (ws : Layout) (s : PState) (Wa W1 W2 W3 K : List Token) (hwf : WFF e)
    (hlay : LayoutOKF e ws) (hg : C06.Good s.b)
    (ht : s.toks = Wa ++ (toksF e ws ++ (W1 ++ (⟨.COMMA, [',']⟩ ::
      (W2 ++ (⟨.NUMBER, renderNumber n⟩ :: (W3 ++ ⟨.CLOSE_PAREN, [')']⟩ :: K)))))))
    (hwa : AllWS Wa) (hw1 : AllWS W1) (hw2 : AllWS W2) (hw3 : AllWS W3) :
    Tot (argsLoop (Fo + ((0 + 2 + 1 + 1) + 1) + 1)) s (fun r s' => ∃ A, r = some W3.length ∧
      s'.toks = W3 ++ ⟨.CLOSE_PAREN, [')']⟩ :: K ∧ s'.b.forest = s.b.forest ++ A ∧ A ≠ [] ∧
      (∃ x y, opKids A = [x, y] ∧ RepF x e ∧ y.kind = .NUMBER ∧ y.hasChildren = true ∧
        y.text = renderNumber n) ∧
      C06.Good s'.b ∧ NoNext s'.b ∧ Ext s.b.forest.length s.b s'.b) := by
  unfold argsLoop
  refine tot_countSkip_ws Wa _ ht hwa (toksF_notWS e ws _ hwf) ?_
  refine tot_nth_ws Wa _ ht ?_
  simp only [headKind_toksF_ne_close e ws _ hwf, Bool.false_eq_true, ↓reduceIte]
  refine tot_seq (tot_le (le_operation (Nat.le_add_right Fo ((0 + 2 + 1 + 1) + 1)) _)
    (ho ws s Wa W1 (⟨.COMMA, [',']⟩ :: _) hwf hlay hg ht hwa hw1 (Or.inr (Or.inl rfl))))
    fun r s1 ⟨Wt, x, hr1, ht1, hf1, hWt, hx, g1, _, e1⟩ => ?_
  subst hr1
  simp only
  refine tot_seq (eat_yes _ _ _ .COMMA ht1 hw1 rfl g1)
    fun b s2 ⟨hb, ht2, ⟨Fw, idc, hf2, hFw, _⟩, g2, _, e2⟩ => ?_
  subst hb
  simp only [Bool.not_true, Bool.false_eq_true, ↓reduceIte]
  -- the second round: the number
  refine tot_le (le_argsLoop (show (0 + 2 + 1 + 1) + 1 ≤ Fo + ((0 + 2 + 1 + 1) + 1) by omega)) ?_
  unfold argsLoop
  have hnw : NotWSHead (⟨.NUMBER, renderNumber n⟩ :: (W3 ++ ⟨.CLOSE_PAREN, [')']⟩ :: K)) := by
    intro t r h
    cases h
    simp
  refine tot_countSkip_ws _ _ ht2 hw2 hnw ?_
  refine tot_nth_ws _ _ ht2 ?_
  have hk : (headKind (⟨.NUMBER, renderNumber n⟩ :: (W3 ++ ⟨.CLOSE_PAREN, [')']⟩ :: K)) ==
      Syntax.CLOSE_PAREN) = false := rfl
  simp only [hk, Bool.false_eq_true, ↓reduceIte]
  refine tot_seq (operation_numberF W2 W3 (⟨.CLOSE_PAREN, [')']⟩ :: K) (renderNumber n) g2 ht2 hw2
    hw3 (Or.inl rfl)) fun r s3 ⟨Wt3, id, id', hr3, ht3, hf3, hWt3, g3, n3, e3⟩ => ?_
  subst hr3
  simp only
  have hno := eat_no (s := s3) W3 (⟨.CLOSE_PAREN, [')']⟩ :: K) .COMMA ht3 (by simp [headKind])
  have hyc : (Tree.node id .NUMBER [.tok id' .NUMBER (renderNumber n)]).hasChildren = true := rfl
  refine ⟨some _, s3, ?_, Wt ++ [x] ++ Fw ++ [.tok idc .COMMA [',']] ++ Wt3 ++
      [.node id .NUMBER [.tok id' .NUMBER (renderNumber n)]], rfl, ht3,
    by rw [hf3, hf2, hf1]; simp, by simp,
    ⟨x, .node id .NUMBER [.tok id' .NUMBER (renderNumber n)], ?_, hx, rfl, hyc, ?_⟩, g3, n3, ?_⟩
  · simp only [bind, hno]; rfl
  · simp only [opKids_append, opKids_ws hWt, opKids_ws hFw, opKids_ws hWt3, opKids_tok,
      opKids_single (hasChildren_of_repF hx), opKids_single hyc,
      List.nil_append, List.append_nil]
    rfl
  · simp [Tree.text, Tree.textList]
  · have h12 : s.b.forest.length ≤ s1.b.forest.length := by rw [hf1]; simp
    have h13 : s.b.forest.length ≤ s2.b.forest.length := by rw [hf2, hf1]; simp
    exact (e1.trans (e2.mono h12)).trans (e3.mono h13)

/-- **`Grammar.value` on a builtin call** `f(arg)` / `f(arg, n)`: the argument is read by
`operation` inside `callArguments` (ended by `)` resp. `,`), the precision as a one-token
expression. No condition on what follows: the closing parenthesis ends the call. -/
theorem valueSpecF_call (f : Fn) (arg : FExprU) (prec : Option Literal) (ho : OpSpecF arg) :
    ValueSpecF (.call f arg prec) := by
  obtain ⟨Fo, ho⟩ := ho
  cases prec with
  | none =>
    refine ⟨(Fo + 1) + 1 + 1, ?_⟩
    intro ws s W0 K hwf hlay hg ht hw0 _
    obtain ⟨hwfa, _⟩ := hwf
    obtain ⟨_, le, _, _⟩ := hlay
    have ht : s.toks = W0 ++ (⟨.WORD, f.name⟩ :: ⟨.OPEN_PAREN, ['(']⟩ ::
        (blankTok (blank1 ws) ++ (toksF arg (rest1 ws) ++
          (blankTok (blank1 (afterF arg (rest1 ws))) ++ ⟨.CLOSE_PAREN, [')']⟩ :: K)))) := by
      rw [ht]; simp [toksF, openTok, closeTok]
    refine tot_mono (value_callG f (R := fun aks => ∃ x, opKids aks = [x] ∧ RepF x arg) hg ht hw0
      (fun aks ⟨x, h, _⟩ => ⟨x, [], h⟩) fun s6 ht6 g6 =>
        callArguments_wrap g6 (allWS_blankTok (blank1 (afterF arg (rest1 ws)))) fun s1 ht1 g1 =>
          argsLoop_oneF ho (rest1 ws) s1 _ _ K hwfa le g1 (ht1.trans ht6) (allWS_blankTok _)
            (allWS_blankTok _))
      fun r s' ⟨cur, Wt, idc, ks, nm, aid, aks, hr, ht', hf', hWt, hks, hnk, hnt, ⟨x, hx1, hx⟩,
        hpos, g', n', e'⟩ => ?_
    exact ⟨cur, Wt, _, hr, ht', hf', hWt, .call1 hks hnk hnt hx1 hx, hpos, g', n', e'⟩
  | some n =>
    refine ⟨(Fo + ((0 + 2 + 1 + 1) + 1) + 1) + 1 + 1, ?_⟩
    intro ws s W0 K hwf hlay hg ht hw0 _
    obtain ⟨hwfa, hwn⟩ := hwf
    obtain ⟨_, hnp⟩ := hwn n rfl
    obtain ⟨_, le, _, _⟩ := hlay
    have ht : s.toks = W0 ++ (⟨.WORD, f.name⟩ :: ⟨.OPEN_PAREN, ['(']⟩ ::
        (blankTok (blank1 ws) ++ (toksF arg (rest1 ws) ++
        (blankTok (blank1 (afterF arg (rest1 ws))) ++ (⟨.COMMA, [',']⟩ ::
          (blankTok (blank1 (rest1 (afterF arg (rest1 ws)))) ++ (⟨.NUMBER, renderNumber n⟩ ::
            (blankTok (blank1 (rest1 (rest1 (afterF arg (rest1 ws))))) ++
              ⟨.CLOSE_PAREN, [')']⟩ :: K)))))))) := by
      rw [ht]; simp [toksF, openTok, closeTok, commaTok]
    refine tot_mono (value_callG f (R := fun aks => ∃ x y, opKids aks = [x, y] ∧ RepF x arg ∧
        y.kind = .NUMBER ∧ y.hasChildren = true ∧ y.text = renderNumber n) hg ht hw0
      (fun aks ⟨x, y, h, _⟩ => ⟨x, [y], h⟩) fun s6 ht6 g6 =>
        callArguments_wrap g6
          (allWS_blankTok (blank1 (rest1 (rest1 (afterF arg (rest1 ws)))))) fun s1 ht1 g1 =>
          argsLoop_twoF ho n (rest1 ws) s1 _ _ _ _ K hwfa le g1 (ht1.trans ht6) (allWS_blankTok _)
            (allWS_blankTok _) (allWS_blankTok _) (allWS_blankTok _))
      fun r s' ⟨cur, Wt, idc, ks, nm, aid, aks, hr, ht', hf', hWt, hks, hnk, hnt,
        ⟨x, y, hxy, hx, hyk, hyc, hyt⟩, hpos, g', n', e'⟩ => ?_
    exact ⟨cur, Wt, _, hr, ht', hf', hWt, .call2 hks hnk hnt hxy hx hyk hyc hnp hyt, hpos, g', n',
      e'⟩

end Anything.FU
