import Anything.Lemmas.FUParseDefs
import Anything.Lemmas.UQParse
import Anything.Lemmas.UQCall2
/-!
# The full expression language — `Grammar.value` on the atoms

`ValueSpecF` for every atom of `FExprU`: number and percent literals, literals with a written unit
expression, fact phrases, parenthesised groups and builtin calls (one and two arguments), the
latter two relative to `OpSpecF` of the enclosed expression. Ported from `Lemmas/UQOperands.lean`,
`Lemmas/UQParse.lean`, `Lemmas/UQCall.lean`, `Lemmas/UQCall2.lean`; the token-level lemmas
(`UQ.value_numC`, `C06.value_pct`, `UQ.unitSpecC`, `UQ.value_phraseQ`) are reused unchanged.
-/

namespace Anything.FU
open Anything Anything.Lexer Anything.Parser Anything.Grammar Anything.PTotal Anything.Spec
open Anything.Spec.Arith Anything.Spec.Decimal Anything.Spec.Quantity Anything.C06 Anything.QQ
open Anything.QQ.Opd Anything.UQ

/-! ### Trees have children -/

theorem hasChildren_of_repF {x : Tree} {e : FExprU} (h : RepF x e) : x.hasChildren = true := by
  cases h with
  | num _ hc _ _ => exact hc
  | pct _ _ _ => rfl
  | qty _ _ _ _ _ => rfl
  | fact _ hc _ => exact hc
  | paren hk _ => exact node_hasChildren hk
  | chain hk _ _ _ _ => exact node_hasChildren hk
  | call1 hk _ _ _ _ => exact node_hasChildren hk
  | call2 hk _ _ _ _ _ _ _ _ => exact node_hasChildren hk

/-! ### Heads of token lists -/

/-- The token list of a well-formed expression starts with a NUMBER, WORD or OPEN_PAREN token. -/
theorem toksF_head : ∀ (e : FExprU) (ws : Layout), WFF e → ∃ t r, toksF e ws = t :: r ∧
    (t.kind = .NUMBER ∨ t.kind = .WORD ∨ t.kind = .OPEN_PAREN)
  | .num l, ws, _ => by
    by_cases hp : l.percent = true
    · simp only [toksF, hp, ↓reduceIte, List.cons_append, List.nil_append]
      exact ⟨_, _, rfl, Or.inl rfl⟩
    · simp only [toksF, hp, Bool.false_eq_true, ↓reduceIte]
      exact ⟨_, _, rfl, Or.inl rfl⟩
  | .qty l u, ws, _ => by
    simp only [toksF, List.cons_append, List.nil_append]
    exact ⟨_, _, rfl, Or.inl rfl⟩
  | .bin op a b, ws, hwf => by
    simp only [WFF] at hwf
    obtain ⟨t, r, h, hk⟩ := toksF_head a ws hwf.1
    simp only [toksF, h]
    exact ⟨t, _, rfl, hk⟩
  | .paren e, ws, _ => by
    simp only [toksF]
    exact ⟨_, _, rfl, Or.inr (Or.inr rfl)⟩
  | .cast a u, ws, hwf => by
    simp only [WFF] at hwf
    obtain ⟨t, r, h, hk⟩ := toksF_head a ws hwf
    simp only [toksF, h]
    exact ⟨t, _, rfl, hk⟩
  | .fact _ _ _, _, _ => ⟨_, _, rfl, Or.inr (Or.inl rfl)⟩
  | .call f arg prec, ws, _ => by
    simp only [toksF, List.cons_append]
    exact ⟨_, _, rfl, Or.inr (Or.inl rfl)⟩

theorem toksF_notWS (e : FExprU) (ws : Layout) (K : List Token) (hwf : WFF e) :
    NotWSHead (toksF e ws ++ K) := by
  obtain ⟨t, r, h, hk⟩ := toksF_head e ws hwf
  intro t' r' heq
  rw [h] at heq
  cases heq
  rcases hk with h | h | h <;> rw [h] <;> simp

theorem headKind_toksF_ne_close (e : FExprU) (ws : Layout) (K : List Token) (hwf : WFF e) :
    (headKind (toksF e ws ++ K) == Syntax.CLOSE_PAREN) = false := by
  obtain ⟨t, r, h, hk⟩ := toksF_head e ws hwf
  rw [h]
  simp only [List.cons_append, headKind]
  rcases hk with h | h | h <;> rw [h] <;> rfl

/-! ### Literals -/

/-- `Grammar.value` on a number literal: a NUMBER node, or — a percent literal — a PERCENTAGE
node. -/
theorem valueSpecF_num (l : Literal) : ValueSpecF (.num l) := by
  refine ⟨2, ?_⟩
  intro ws s W0 K _ hlay hg ht hw0 hK
  have hK' : FollowC K := by simpa [FollowsF, endsUnitF] using hK
  by_cases hp : l.percent = true
  · simp only [toksF, hp, ↓reduceIte, List.append_assoc, List.cons_append, List.nil_append,
      pctTok] at ht
    refine tot_mono (value_pct 1 W0 _ (blankTok (blank1 ws)) ⟨.PERCENTAGE, ['%']⟩ K ht hw0
      (allWS_blankTok _) rfl hg)
      fun r s' ⟨cur, Wt, id, id', more, hr, ht', hf', hWt, hlen, hpos, g', n', e'⟩ => ?_
    exact ⟨cur, Wt, _, hr, ht', hf', hWt, .pct rfl rfl hp, hlen ▸ hpos, g', n', e'⟩
  · have hp' : l.percent = false := by simpa using hp
    simp only [toksF, hp', Bool.false_eq_true, ↓reduceIte, List.cons_append, List.nil_append] at ht
    refine tot_mono (value_numC 0 W0 _ K ht hw0 hK' hg)
      fun r s' ⟨cur, Wt, id, id', hr, ht', hf', hWt, hlen, hpos, g', n', e'⟩ => ?_
    refine ⟨cur, Wt, _, hr, ht', hf', hWt, .num rfl rfl hp' ?_, hlen ▸ hpos, g', n', e'⟩
    simp [Tree.text, Tree.textList]

/-- `Grammar.value` on a number with a written unit expression. -/
theorem valueSpecF_qty (l : Literal) (u : List RTerm) : ValueSpecF (.qty l u) := by
  obtain ⟨Fu, hU⟩ := unitSpecC u
  refine ⟨Fu + 1, ?_⟩
  intro ws s W0 K hwf _ hg ht hw0 hK
  have hK' : UFollowC K := by simpa [FollowsF, endsUnitF] using hK
  have hpf : l.percent = false := hwf.2
  simp only [toksF, List.cons_append, List.nil_append, List.append_assoc] at ht
  obtain ⟨i, rest, hu, hi⟩ := unitItems_head u
  have hhead : headKind (unitToks u ++ K) = i.tk := by rw [unitToks, hu]; rfl
  have hkinds : headKind (unitToks u ++ K) ≠ .PERCENTAGE ∧
      headKind (unitToks u ++ K) ≠ .WHITESPACE := by
    rw [hhead]
    rcases hi.1 with h | h <;> rw [h] <;> simp
  have hnw : NotWSHead (unitToks u ++ K) := by
    intro t r htr
    have := hkinds.2
    rw [htr] at this
    exact this
  unfold Grammar.value
  refine tot_nth_ws W0 _ ht ?_
  simp only [headKind]
  refine tot_seq (bumpN_ws W0 ht hw0 hg) fun _ s1 ⟨ht1, ⟨Wt, hf1, hWt, hlen⟩, g1, _, e1⟩ => ?_
  refine tot_seq (checkpoint_exact g1) fun c s2 ⟨ht2, hf2, _, g2, p2, e2⟩ => ?_
  refine tot_seq (bump_exact (ht2.trans ht1) g2) fun _ s3 ⟨ht3, ⟨id', hf3⟩, g3, n3, e3⟩ => ?_
  refine tot_countSkip_ws (blankTok (blank1 ws)) (unitToks u ++ K) ht3 (allWS_blankTok _) hnw ?_
  refine tot_seq (P := fun kind s' => Syntax.WITH_UNIT = kind ∧ s'.toks = K ∧
      (∃ Wq x, s'.b.forest = s3.b.forest ++ Wq ++ [x] ∧ WSTrees Wq ∧ RepUnit x u ∧
        x.hasChildren = true) ∧ C06.Good s'.b ∧ NoNext s'.b ∧ Ext s3.b.forest.length s3.b s'.b) ?_
    fun kind s4 ⟨hkind, ht4, ⟨Wq, x, hf4, hWq, hx, hxc⟩, g4, n4, e4⟩ => ?_
  · refine tot_nth_ws (blankTok (blank1 ws)) (unitToks u ++ K) ht3 ?_
    have : (headKind (unitToks u ++ K) == Syntax.PERCENTAGE) = false := by simp [hkinds.1]
    simp only [this, Bool.false_eq_true, ↓reduceIte]
    refine tot_seq (hU s3 _ K g3 ht3 (allWS_blankTok _) hK')
      fun r s4 ⟨cur, Wq, x, hr, ht4, hf4, hWq, hx, hxc, _, g4, n4, e4⟩ => ?_
    subst hr
    exact tot_pure ⟨rfl, ht4, ⟨Wq, x, hf4, hWq, hx, hxc⟩, g4, n4, e4⟩
  subst hkind
  have hlen3 : s3.b.forest = s.b.forest ++ Wt ++ [.tok id' .NUMBER (renderNumber l)] := by
    rw [hf3, hf2, hf1]
  have hpos3 : Pos s3.b c (s.b.forest.length + W0.length) := by
    have := e3.pos c _ (Nat.le_refl _) (hf2 ▸ p2)
    rw [hf2, hf1] at this
    simpa [hlen] using this
  have hpos4 : Pos s4.b c (s.b.forest.length + W0.length) :=
    e4.pos c _ (by rw [hlen3]; simp [hlen]) hpos3
  refine tot_seq (closeAt_wrap .WITH_UNIT g4 n4 hpos4 (by rw [hf4, hlen3]; simp [hlen]))
    fun _ s5 ⟨ht5, ⟨id, hf5⟩, g5, n5, p5, e5⟩ => ?_
  refine tot_pure ⟨c, Wt, .node id .WITH_UNIT (.tok id' .NUMBER (renderNumber l) :: (Wq ++ [x])),
    rfl, ht5.trans ht4, ?_, hWt, ?_, hlen ▸ p5, g5, n5, ?_⟩
  · rw [hf5, hf4, hlen3]
    have hl : s.b.forest.length + W0.length = (s.b.forest ++ Wt).length := by simp [hlen]
    have hassoc : s.b.forest ++ Wt ++ [Tree.tok id' .NUMBER (renderNumber l)] ++ Wq ++ [x]
        = (s.b.forest ++ Wt) ++ (Tree.tok id' .NUMBER (renderNumber l) :: (Wq ++ [x])) := by
      simp
    rw [hassoc, hl, List.take_left', List.drop_left'] <;> rfl
  · refine .qty (un := x) (more := []) rfl rfl hpf ?_ hx
    rw [opKids_append, opKids_ws hWq, opKids_single hxc]
    rfl
  · have hle : s.b.forest.length ≤ s1.b.forest.length := by rw [hf1]; simp
    have hl1 : s1.b.forest.length = s.b.forest.length + W0.length := by rw [hf1]; simp [hlen]
    have e23 : Ext s1.b.forest.length s1.b s3.b := e2.trans (by rw [← hf2]; exact e3)
    have e4' : Ext s1.b.forest.length s3.b s4.b := e4.mono (by rw [hlen3, hl1]; simp [hlen])
    have e5' : Ext s1.b.forest.length s4.b s5.b := by rw [hl1]; exact e5
    exact e1.trans (((e23.trans e4').trans e5').mono hle)

/-- `Grammar.value` on a fact phrase. -/
theorem valueSpecF_fact (p : List Char) (v : Rat) (u : List (UnitKey × Int × Int)) :
    ValueSpecF (.fact p v u) := by
  refine ⟨(factMore p).length + 1 + 1, ?_⟩
  intro ws s W0 K hwf _ hg ht hw0 hK
  have hK' : FollowC K := by simpa [FollowsF, endsUnitF] using hK
  simp only [toksF] at ht
  refine tot_mono (value_phraseQ ((factMore p).length + 1) W0 (factFirst p) (factMore p) K ht hw0 hK'
    hg (Nat.le_refl _))
    fun r s' ⟨cur, Wt, x, hr, ht', hf', hWt, hlen, hk, hc, htx, hpos, g', n', e'⟩ => ?_
  exact ⟨cur, Wt, x, hr, ht', hf', hWt, .fact hk hc (htx.trans hwf.2), hlen ▸ hpos, g', n', e'⟩

/-! ### Parenthesised groups -/

theorem valueSpecF_paren (e : FExprU) (ho : OpSpecF e) : ValueSpecF (.paren e) := by
  obtain ⟨Fo, ho⟩ := ho
  refine ⟨Fo + 1, ?_⟩
  intro ws s W0 K hwf hlay hg ht hw0 _
  obtain ⟨hb1, le, hb2⟩ := hlay
  simp only [WFF] at hwf
  simp only [toksF, openTok, closeTok, List.append_assoc, List.cons_append, List.nil_append] at ht
  unfold Grammar.value
  refine tot_nth_ws W0 _ ht ?_
  simp only [headKind]
  refine tot_seq (bumpN_ws W0 ht hw0 hg) fun _ s1 ⟨ht1, ⟨Wt, hf1, hWt, hlen⟩, g1, _, e1⟩ => ?_
  refine tot_seq (checkpoint_exact g1) fun c s2 ⟨ht2, hf2, _, g2, p2, e2⟩ => ?_
  refine tot_seq (bump_exact (ht2.trans ht1) g2) fun _ s3 ⟨ht3, ⟨ido, hf3⟩, g3, _, e3⟩ => ?_
  refine tot_countSkip_ws (blankTok (blank1 ws)) _ ht3 (allWS_blankTok _) (toksF_notWS e _ _ hwf) ?_
  refine tot_seq (ho (rest1 ws) s3 (blankTok (blank1 ws)) (blankTok (blank1 (afterF e (rest1 ws))))
    (⟨.CLOSE_PAREN, [')']⟩ :: K) hwf le g3 ht3 (allWS_blankTok _) (allWS_blankTok _)
    (Or.inl rfl)) fun r s4 ⟨Wt', x, hr, ht4, hf4, hWt', hx, g4, _, e4⟩ => ?_
  subst hr
  simp only
  refine tot_seq (eat_yes _ _ K .CLOSE_PAREN ht4 (allWS_blankTok _) rfl g4)
    fun b s5 ⟨hb, ht5, ⟨Fw, idc, hf5, hFw, _⟩, g5, n5, e5⟩ => ?_
  subst hb
  simp only [Bool.not_true, Bool.false_eq_true, ↓reduceIte]
  have hl1 : s1.b.forest.length = s.b.forest.length + Wt.length := by rw [hf1]; simp
  have hf3' : s3.b.forest = s.b.forest ++ Wt ++ [.tok ido .OPEN_PAREN ['(']] := by
    rw [hf3, hf2, hf1]
  have hf5' : s5.b.forest = (s.b.forest ++ Wt) ++
      (.tok ido .OPEN_PAREN ['('] :: (Wt' ++ [x] ++ Fw ++ [.tok idc .CLOSE_PAREN [')']])) := by
    rw [hf5, hf4, hf3']; simp
  have hle3 : s1.b.forest.length ≤ s3.b.forest.length := by rw [hf3', hl1]; simp
  have hle4 : s1.b.forest.length ≤ s4.b.forest.length := by rw [hf4]; simp; omega
  have e25 : Ext s1.b.forest.length s2.b s5.b :=
    ((hf2 ▸ e3 : Ext s1.b.forest.length s2.b s3.b).trans (e4.mono hle3)).trans (e5.mono hle4)
  have p5 : Pos s5.b c (s.b.forest.length + Wt.length) := hl1 ▸ e25.pos c _ (Nat.le_refl _) p2
  refine tot_seq (closeAt_wrap .OPERATION g5 n5 p5 (by rw [hf5']; simp))
    fun _ s6 ⟨ht6, ⟨id, hf6⟩, g6, n6, p6, e6⟩ => ?_
  refine tot_pure ⟨c, Wt, .node id .OPERATION (.tok ido .OPEN_PAREN ['('] ::
    (Wt' ++ [x] ++ Fw ++ [.tok idc .CLOSE_PAREN [')']])), rfl, ht6.trans ht5, ?_, hWt, ?_, p6, g6,
    n6, ?_⟩
  · rw [hf6, hf5']
    have hl : s.b.forest.length + Wt.length = (s.b.forest ++ Wt).length := by simp
    rw [hl, List.take_left' rfl, List.drop_left' rfl]
  · refine .paren ?_ hx
    rw [show (Tree.tok ido Syntax.OPEN_PAREN ['('] :: (Wt' ++ [x] ++ Fw ++ [Tree.tok idc Syntax.CLOSE_PAREN [')']]))
      = [Tree.tok ido Syntax.OPEN_PAREN ['(']] ++ Wt' ++ [x] ++ Fw ++ [Tree.tok idc Syntax.CLOSE_PAREN [')']] by simp]
    simp only [opKids_append, opKids_tok, opKids_ws hWt', opKids_ws hFw,
      opKids_single (hasChildren_of_repF hx), List.nil_append, List.append_nil]
  · have hle : s.b.forest.length ≤ s1.b.forest.length := by omega
    exact e1.trans (((e2.trans e25).trans (hl1 ▸ e6)).mono hle)

end Anything.FU
