import Anything.Lemmas.C06Defs
import Anything.Props.C01
import Anything.Props.C07
import Anything.Props.C10
/-!
# C06, stage A — the evaluator on trees that represent an expression

No parser reasoning: `eval_represents` is an induction on the fuel with an inner induction
on the operator chain of one OPERATION node.
-/

namespace Anything.C06
open Anything Anything.Eval Anything.Spec Anything.Spec.Arith Anything.Spec.Decimal

/-! ### Sizes and children -/

theorem kidsAt_map (off : Nat) (ks : List Tree) : (kidsAt off ks).map (·.t) = ks := by
  induction ks generalizing off with
  | nil => rfl
  | cons t ts ih => simp [kidsAt, ih]

theorem filter_kids_map (l : List At) :
    (l.filter (fun k => k.t.hasChildren)).map (·.t) = opKids (l.map (·.t)) := by
  induction l with
  | nil => rfl
  | cons a l ih =>
    simp only [List.filter_cons, opKids, List.map_cons]
    split
    · simp only [List.map_cons]; rw [ih]; rfl
    · rw [ih]; rfl

theorem at_opKids (a : At) :
    (a.kids.filter (fun k => k.t.hasChildren)).map (·.t) = opKids a.t.kids := by
  rw [filter_kids_map, At.kids, kidsAt_map]

theorem size_pos (t : Tree) : 1 ≤ size t := by
  cases t <;> simp [size]

theorem sizeList_append (a b : List Tree) : sizeList (a ++ b) = sizeList a + sizeList b := by
  induction a with
  | nil => simp [sizeList]
  | cons t ts ih => simp [sizeList, ih, Nat.add_assoc]

theorem sizeList_filter_le (p : Tree → Bool) (ks : List Tree) :
    sizeList (ks.filter p) ≤ sizeList ks := by
  induction ks with
  | nil => simp [sizeList]
  | cons t ts ih =>
    simp only [List.filter_cons]
    split <;> simp only [sizeList] <;> omega

theorem size_node (id : Nat) (k : Syntax) (ks : List Tree) :
    size (.node id k ks) = sizeList ks + 1 := by simp [size]

theorem opKids_size_le (ks : List Tree) : sizeList (opKids ks) ≤ sizeList ks :=
  sizeList_filter_le _ ks

/-! ### Outcomes -/

/-- The five binary operations of the evaluator on arbitrary numerics. -/
def binEval (cfg : Cfg) (op : BinOp) (s e : Nat) (a b : Numeric) : EvalM Numeric :=
  match op with
  | .add => Eval.add s e a b false
  | .sub => Eval.add s e a b true
  | .mul => Eval.mulDiv cfg s e a b false
  | .div => Eval.mulDiv cfg s e a b true
  | .pow => Eval.pow s e a b

theorem bin_outcome (cfg : Cfg) (op : BinOp) (s e : Nat) (a b : Rat) (d : List Desc) :
    Outcome (applyBin op a b) d (binEval cfg op s e (plain a) (plain b) d) := by
  have hE : binEval cfg op s e (plain a) (plain b) = Props.C01.evalBin cfg op s e a b := by
    cases op <;> rfl
  rw [hE]
  cases h : applyBin op a b with
  | ok v => exact Props.C01.C01_bin_ok cfg op s e a b v d h
  | error x =>
    obtain ⟨k, hk⟩ := Props.C01.C01_bin_err cfg op s e a b d x h
    exact ⟨k, s, e, hk⟩

/-- The outcome of the operator loop: a forced plain number or an error. -/
def FoldOutcome (r : Except ArithErr Rat) (d : List Desc)
    (res : Except EvalErr Delayed × List Desc) : Prop :=
  match r with
  | .ok v => res = (.ok (.num (plain v)), d)
  | .error _ => ∃ k s e, res = (.error (.err k s e), d)

theorem denote_bin_ok {op : BinOp} {a b : NExpr} {x y : Rat} (ha : denote a = .ok x)
    (hb : denote b = .ok y) : denote (.bin op a b) = applyBin op x y := by
  simp only [denote, ha, hb]

theorem denote_bin_errL {op : BinOp} {a b : NExpr} {x : ArithErr} (ha : denote a = .error x) :
    ∃ y, denote (.bin op a b) = .error y := by
  simp only [denote, ha]; exact ⟨_, rfl⟩

theorem denote_bin_errR {op : BinOp} {a b : NExpr} {x : ArithErr} (hb : denote b = .error x) :
    ∃ y, denote (.bin op a b) = .error y := by
  simp only [denote, hb]
  cases denote a with
  | ok v => exact ⟨_, rfl⟩
  | error z => exact ⟨_, rfl⟩

theorem foldR_err {R : Tree → NExpr → Prop} {acc e : NExpr} {ts : List Tree}
    (h : FoldR R acc ts e) : (∃ x, denote acc = .error x) → ∃ y, denote e = .error y := by
  induction h with
  | nil acc => exact id
  | cons _ _ _ ih =>
    intro ⟨x, hx⟩
    exact ih (denote_bin_errL hx)

theorem foldR_litsOK {R : Tree → NExpr → Prop} {acc e : NExpr} {ts : List Tree}
    (h : FoldR R acc ts e) : LitsOK e → LitsOK acc := by
  induction h with
  | nil acc => exact id
  | cons _ _ _ ih => intro he; exact (ih he).1

theorem foldR_roundOK {R : Tree → NExpr → Prop} {acc e : NExpr} {ts : List Tree}
    (h : FoldR R acc ts e) : RoundOK e → RoundOK acc := by
  induction h with
  | nil acc => exact id
  | cons _ _ _ ih => intro he; exact (ih he).1

/-! ### One step of the operator loop -/

theorem opFold_step (cfg : Cfg) (F : Nat) (node : At) (base : Delayed) (o x : At)
    (rest : List At) (op : BinOp) (ho : o.t.kind = opKind op) :
    opFold cfg (F + 1) node base (o :: x :: rest) =
      (do let r ← eval cfg F x
          let b ← force cfg F base
          let v ← binEval cfg op node.off node.stop b r
          opFold cfg F node (.num v) rest) := by
  cases op <;> simp only [opKind] at ho <;> simp [opFold, ho, binEval]

theorem bind_apply {α β : Type} (m : EvalM α) (f : α → EvalM β) (d : List Desc) :
    (m >>= f) d = match m d with
      | (.ok a, d') => f a d'
      | (.error e, d') => (.error e, d') := rfl

theorem force_num (cfg : Cfg) (F : Nat) (n : Numeric) (d : List Desc) :
    force cfg F (.num n) d = (.ok n, d) := by
  cases F <;> simp [force, pure]

theorem mem_sizeList {x : Tree} {ts : List Tree} (h : x ∈ ts) : size x ≤ sizeList ts := by
  induction ts with
  | nil => cases h
  | cons t ts ih =>
    simp only [sizeList]
    rcases List.mem_cons.mp h with rfl | h
    · omega
    · have := ih h; omega

/-- The statement proved by induction on the fuel. -/
def EvalOK (cfg : Cfg) (f : Nat) : Prop :=
  ∀ (t : Tree) (e : NExpr) (off : Nat) (d : List Desc), 2 * size t ≤ f → Represents t e →
    LitsOK e → RoundOK e → Outcome (denote e) d (eval cfg f ⟨off, t⟩ d)

/-- The operator loop from a forced accumulator. -/
theorem fold_num (cfg : Cfg) (N : Nat) (ih : ∀ f, f ≤ N → EvalOK cfg f)
    {acc e : NExpr} {ts : List Tree} (h : FoldR Represents acc ts e) :
    ∀ (rest : List At) (F : Nat) (v : Rat) (node : At) (d : List Desc),
      rest.map (·.t) = ts → F ≤ N + 1 → denote acc = .ok v → 2 * sizeList ts ≤ F →
      LitsOK e → RoundOK e →
      FoldOutcome (denote e) d (opFold cfg F node (.num (plain v)) rest d) := by
  induction h with
  | nil acc =>
    intro rest F v node d hr _ hv _ _ _
    have : rest = [] := by simpa using hr
    subst this
    simp only [FoldOutcome, hv]
    cases F <;> simp [opFold, pure]
  | @cons acc o x op b e ts' ho hx htail ihf =>
    intro rest F v node d hr hF hv hsz hl hro
    match rest, hr with
    | oa :: xa :: rest', hr =>
      simp only [List.map_cons, List.cons.injEq] at hr
      obtain ⟨h1, h2, h3⟩ := hr
      simp only [sizeList] at hsz
      have hxs := size_pos x
      have hos := size_pos o
      obtain ⟨F', rfl⟩ : ∃ F', F = F' + 1 := ⟨F - 1, by omega⟩
      have hlb := foldR_litsOK htail hl
      have hrb := foldR_roundOK htail hro
      rw [opFold_step cfg F' node _ oa xa rest' op (h1 ▸ ho)]
      have hxo := ih F' (by omega) x b xa.off d (by omega) hx hlb.2 hrb.2
      have hxa : (⟨xa.off, x⟩ : At) = xa := by cases xa; simp_all
      rw [hxa] at hxo
      simp only [bind_apply]
      cases hb : denote b with
      | error y =>
        rw [hb] at hxo
        obtain ⟨k, s, e', hk⟩ := hxo
        rw [hk]
        obtain ⟨z, hz⟩ := foldR_err htail (denote_bin_errR (op := op) (a := acc) hb)
        rw [hz]
        exact ⟨k, s, e', rfl⟩
      | ok y =>
        rw [hb] at hxo
        simp only [Outcome] at hxo
        rw [hxo]
        simp only [force_num]
        have hbo := bin_outcome cfg op node.off node.stop v y d
        have hden := denote_bin_ok (op := op) hv hb
        cases hap : applyBin op v y with
        | error z =>
          rw [hap] at hbo
          obtain ⟨k, s, e', hk⟩ := hbo
          rw [hk]
          obtain ⟨z', hz⟩ := foldR_err htail ⟨z, hden.trans hap⟩
          rw [hz]
          exact ⟨k, s, e', rfl⟩
        | ok w =>
          rw [hap] at hbo
          simp only [Outcome] at hbo
          rw [hbo]
          exact ihf rest' F' w node d h3 (by omega) (hden.trans hap) (by omega) hl hro

/-! ### Literals -/

theorem value_percent_false (l : Literal) (h : l.percent = false) :
    value { l with percent := false } = value l := by
  cases l; simp_all

theorem value_percent_true (l : Literal) (h : l.percent = true) :
    value l = value { l with percent := false } / 100 := by
  simp [value, h, fracDigits]

theorem fromStr_lit (l : Literal) (h : LitOK l) :
    Number.fromStr (renderNumber l) = some (value { l with percent := false }) :=
  Props.C07.C07_fromStr l h.1 h.2.1 h.2.2

/-! ### Lists of `At` against lists of trees -/

theorem map_eq_one {l : List At} {x : Tree} (h : l.map (·.t) = [x]) :
    ∃ a, l = [a] ∧ a.t = x := by
  match l, h with
  | [a], h => exact ⟨a, rfl, by simpa using h⟩

theorem map_eq_cons {l : List At} {x : Tree} {xs : List Tree} (h : l.map (·.t) = x :: xs) :
    ∃ a l', l = a :: l' ∧ a.t = x ∧ l'.map (·.t) = xs := by
  match l, h with
  | a :: l', h =>
    simp only [List.map_cons, List.cons.injEq] at h
    exact ⟨a, l', rfl, h.1, h.2⟩

theorem at_eta (a : At) : (⟨a.off, a.t⟩ : At) = a := by cases a; rfl

theorem filter_sub_size (a : At) :
    sizeList ((a.kids.filter (fun k => k.t.hasChildren)).map (·.t)) ≤ sizeList a.t.kids := by
  rw [at_opKids]; exact opKids_size_le _

/-! ### Function calls -/

/-- Outcome of evaluating an argument list. -/
def ArgsOutcome (r : Except ArithErr (List Rat)) (d : List Desc)
    (res : Except EvalErr (List Numeric) × List Desc) : Prop :=
  match r with
  | .ok vs => res = (.ok (vs.map plain), d)
  | .error _ => ∃ k s e, res = (.error (.err k s e), d)

theorem denoteList_cons_ok {e : NExpr} {es : List NExpr} {v : Rat} {vs : List Rat}
    (h1 : denote e = .ok v) (h2 : denoteList es = .ok vs) :
    denoteList (e :: es) = .ok (v :: vs) := by
  simp only [denoteList, h1, h2]

theorem denoteList_cons_errL {e : NExpr} {es : List NExpr} {x : ArithErr}
    (h1 : denote e = .error x) : ∃ y, denoteList (e :: es) = .error y := by
  simp only [denoteList, h1]; exact ⟨_, rfl⟩

theorem denoteList_cons_errR {e : NExpr} {es : List NExpr} {x : ArithErr}
    (h2 : denoteList es = .error x) : ∃ y, denoteList (e :: es) = .error y := by
  simp only [denoteList, h2]
  cases denote e with
  | ok v => exact ⟨_, rfl⟩
  | error z => exact ⟨_, rfl⟩

theorem denoteList_ok_cons {e : NExpr} {es : List NExpr} {ws : List Rat}
    (h : denoteList (e :: es) = .ok ws) :
    ∃ v vs, ws = v :: vs ∧ denote e = .ok v ∧ denoteList es = .ok vs := by
  simp only [denoteList] at h
  split at h
  · rename_i v vs h1 h2
    exact ⟨v, vs, by cases h; rfl, h1, h2⟩
  · cases h
  · cases h

theorem denoteList_ok_two {args : List NExpr} {x n : Rat} (h : denoteList args = .ok [x, n]) :
    ∃ a b, args = [a, b] ∧ denote b = .ok n := by
  match args, h with
  | [], h => simp [denoteList] at h
  | [a], h =>
    obtain ⟨v, vs, h1, _, h3⟩ := denoteList_ok_cons h
    simp only [List.cons.injEq] at h1
    rw [← h1.2] at h3
    simp [denoteList] at h3
  | [a, b], h =>
    obtain ⟨v, vs, h1, _, h3⟩ := denoteList_ok_cons h
    simp only [List.cons.injEq] at h1
    obtain ⟨v', vs', h1', h2', _⟩ := denoteList_ok_cons h3
    rw [← h1.2] at h1'
    simp only [List.cons.injEq] at h1'
    exact ⟨a, b, rfl, h1'.1 ▸ h2'⟩
  | a :: b :: c :: r, h =>
    obtain ⟨v, vs, h1, _, h3⟩ := denoteList_ok_cons h
    simp only [List.cons.injEq] at h1
    obtain ⟨v', vs', h1', _, h3'⟩ := denoteList_ok_cons h3
    rw [← h1.2] at h1'
    simp only [List.cons.injEq] at h1'
    obtain ⟨v'', vs'', h1'', _, _⟩ := denoteList_ok_cons h3'
    rw [← h1'.2] at h1''
    cases h1''

/-- The builtin a function name dispatches to. -/
def callEval (cfg : Cfg) (f : Fn) (s e : Nat) (args : List Numeric) : EvalM Numeric :=
  match f with
  | .round => builtinRound cfg s e args
  | .floor => builtinFloor s e args
  | .ceil => builtinCeil s e args

theorem call_outcome (cfg : Cfg) (f : Fn) (s e : Nat) (vs : List Rat) (d : List Desc)
    (hr : f = .round → ∀ x n, vs = [x, n] →
      isInt n = true ∧ -2147483648 ≤ n.num ∧ n.num ≤ 2147483647) :
    Outcome (applyFn f vs) d (callEval cfg f s e (vs.map plain) d) := by
  cases f with
  | floor =>
    match vs with
    | [] => exact ⟨_, _, _, Props.C10.C10_arity_floor s e [] (by simp) d⟩
    | [x] => exact Props.C10.C10_builtin_floor s e (plain x) d
    | x :: y :: r => exact ⟨_, _, _, Props.C10.C10_arity_floor s e _ (by simp) d⟩
  | ceil =>
    match vs with
    | [] => exact ⟨_, _, _, Props.C10.C10_arity_ceil s e [] (by simp) d⟩
    | [x] => exact Props.C10.C10_builtin_ceil s e (plain x) d
    | x :: y :: r => exact ⟨_, _, _, Props.C10.C10_arity_ceil s e _ (by simp) d⟩
  | round =>
    match vs, hr with
    | [], _ => exact ⟨_, _, _, Props.C10.C10_arity_round cfg s e [] (by simp) d⟩
    | [x], _ => exact Props.C10.C10_builtin_round1 cfg s e (plain x) d
    | [x, n], hr =>
      obtain ⟨hi, hlo, hhi⟩ := hr rfl x n rfl
      have hden : n.den = 1 := by simpa [isInt] using hi
      have hn : ((n.num : Int) : Rat) = n := Rat.coe_int_num_of_den_eq_one hden
      have := Props.C10.C10_builtin_round2 cfg s e (plain x) n.num [] ⟨hlo, hhi⟩ d
      rw [hn] at this
      simp only [applyFn, hi, ↓reduceIte, Outcome]
      exact this
    | x :: y :: z :: r, _ =>
      exact ⟨_, _, _, Props.C10.C10_arity_round cfg s e (List.map plain (x :: y :: z :: r))
        (by simp) d⟩

theorem args_ok (cfg : Cfg) (N : Nat) (ih : ∀ f, f ≤ N → EvalOK cfg f)
    {ts : List Tree} {es : List NExpr} (h : ArgsR Represents ts es) :
    ∀ (rest : List At) (F : Nat) (d : List Desc), rest.map (·.t) = ts → F ≤ N + 1 →
      2 * sizeList ts + 1 ≤ F → LitsOKList es → RoundOKList es →
      ArgsOutcome (denoteList es) d (evalArgs cfg F rest d) := by
  induction h with
  | nil =>
    intro rest F d hr _ _ _ _
    have : rest = [] := by simpa using hr
    subst this
    simp [ArgsOutcome, denoteList, evalArgs, pure]
  | @cons x e xs es hx _ iha =>
    intro rest F d hr hF hsz hl hro
    obtain ⟨a, rest', rfl, hax, hrest'⟩ := map_eq_cons hr
    simp only [sizeList] at hsz
    have px := size_pos x
    obtain ⟨F', rfl⟩ : ∃ F', F = F' + 1 := ⟨F - 1, by omega⟩
    simp only [LitsOKList, RoundOKList] at hl hro
    have h1 := ih F' (by omega) x e a.off d (by omega) hx hl.1 hro.1
    rw [← hax, at_eta] at h1
    have h2 := iha rest' F' d hrest' (by omega) (by omega) hl.2 hro.2
    simp only [evalArgs, bind_apply]
    cases he : denote e with
    | error y =>
      rw [he] at h1
      obtain ⟨k, s, e', hk⟩ := h1
      obtain ⟨z, hz⟩ := denoteList_cons_errL (es := es) he
      rw [hk, hz]
      exact ⟨k, s, e', rfl⟩
    | ok v =>
      rw [he] at h1
      simp only [Outcome] at h1
      rw [h1]
      cases hes : denoteList es with
      | error y =>
        rw [hes] at h2
        obtain ⟨k, s, e', hk⟩ := h2
        obtain ⟨z, hz⟩ := denoteList_cons_errR (e := e) hes
        simp only [hk, hz]
        exact ⟨k, s, e', rfl⟩
      | ok vs =>
        rw [hes] at h2
        simp only [ArgsOutcome] at h2
        simp only [h2, denoteList_cons_ok he hes, ArgsOutcome, List.map_cons]
        rfl

/-! ### The evaluator -/

theorem force_node (cfg : Cfg) (F : Nat) (a : At) :
    force cfg (F + 1) (.node a) = eval cfg F a := by
  rw [force]


theorem kind_node (id : Nat) (k : Syntax) (ks : List Tree) : (Tree.node id k ks).kind = k := rfl
theorem kids_node (id : Nat) (k : Syntax) (ks : List Tree) : (Tree.node id k ks).kids = ks := rfl


theorem evalOK_all (cfg : Cfg) : ∀ f, EvalOK cfg f := by
  intro f
  induction f using Nat.strong_induction_on with
  | _ f ih =>
    intro t e off d hsz hrep hl hro
    have hpos := size_pos t
    obtain ⟨F, rfl⟩ : ∃ F, f = F + 1 := ⟨f - 1, by omega⟩
    have ih' : ∀ g, g ≤ F → EvalOK cfg g := fun g hg => ih g (by omega)
    cases hrep with
    | @num _ l hk hc hp ht =>
      simp only [eval, hk, ht, fromStr_lit l hl, value_percent_false l hp]
      simp [Outcome, denote, pure, plain]
    | @pct id n ks l hk ht hp =>
      simp only [eval, At.kids, kids_node, kind_node, kidsAt, hk, ht, fromStr_lit l hl]
      simp [Outcome, denote, pure, plain, value_percent_true l hp]
    | @paren id ks x e' hop hx =>
      have hL := at_opKids ⟨off, .node id .OPERATION ks⟩
      simp only [kids_node, hop] at hL
      obtain ⟨xa, hLeq, hxa⟩ := map_eq_one hL
      have hs1 := opKids_size_le ks
      simp only [hop, sizeList, size_node] at hs1 hsz
      obtain ⟨F', rfl⟩ : ∃ F', F = F' + 1 := ⟨F - 1, by omega⟩
      simp only [eval, kind_node, hLeq, opFold, bind_apply, pure, force]
      have := ih' F' (by omega) x e' xa.off d (by omega) hx hl hro
      rw [← hxa, at_eta] at this
      simpa [denote] using this
    | @chain id ks x₀ rest0 e₀ _ hop hne hx0 hfold0 =>
      obtain ⟨o, x₁, rest, rfl, hfold⟩ : ∃ o x₁ rest, rest0 = o :: x₁ :: rest ∧
          FoldR Represents e₀ (o :: x₁ :: rest) e := by
        cases hfold0 with
        | nil => exact absurd rfl hne
        | cons h1 h2 h3 => exact ⟨_, _, _, rfl, .cons h1 h2 h3⟩
      have hL := at_opKids ⟨off, .node id .OPERATION ks⟩
      simp only [kids_node, hop] at hL
      obtain ⟨x0a, L1, hLeq, hx0a, hL1⟩ := map_eq_cons hL
      obtain ⟨oa, L2, rfl, hoa, hL2⟩ := map_eq_cons hL1
      obtain ⟨x1a, resta, rfl, hx1a, hresta⟩ := map_eq_cons hL2
      have hs1 := opKids_size_le ks
      simp only [hop, sizeList, size_node] at hs1 hsz
      have p0 := size_pos x₀
      have p1 := size_pos x₁
      have p2 := size_pos o
      obtain ⟨F', rfl⟩ : ∃ F', F = F' + 2 := ⟨F - 2, by omega⟩
      cases hfold with
      | @cons _ _ _ op b _ _ ho hx1 htail =>
        have hlb := foldR_litsOK htail hl
        have hrb := foldR_roundOK htail hro
        simp only [eval, kind_node, hLeq]
        rw [bind_apply, opFold_step cfg (F' + 1) _ _ oa x1a resta op (hoa ▸ ho)]
        have h1 := ih' (F' + 1) (by omega) x₁ b x1a.off d (by omega) hx1 hlb.2 hrb.2
        rw [← hx1a, at_eta] at h1
        have h0 := ih' F' (by omega) x₀ e₀ x0a.off d (by omega) hx0 hlb.1 hrb.1
        rw [← hx0a, at_eta] at h0
        rw [force_node]
        simp only [bind_apply]
        cases hb : denote b with
        | error y =>
          rw [hb] at h1
          obtain ⟨k, s, e', hk⟩ := h1
          rw [hk]
          obtain ⟨z, hz⟩ := foldR_err htail (denote_bin_errR (op := op) (a := e₀) hb)
          rw [hz]
          exact ⟨k, s, e', rfl⟩
        | ok y =>
          rw [hb] at h1
          simp only [Outcome] at h1
          rw [h1]
          cases ha : denote e₀ with
          | error y0 =>
            rw [ha] at h0
            obtain ⟨k, s, e', hk⟩ := h0
            simp only [hk]
            obtain ⟨z, hz⟩ := foldR_err htail (denote_bin_errL (op := op) (b := b) ha)
            rw [hz]
            exact ⟨k, s, e', rfl⟩
          | ok v =>
            rw [ha] at h0
            simp only [Outcome] at h0
            simp only [h0]
            have hbo := bin_outcome cfg op off (At.stop ⟨off, .node id .OPERATION ks⟩) v y d
            have hden := denote_bin_ok (op := op) ha hb
            cases hap : applyBin op v y with
            | error z =>
              rw [hap] at hbo
              obtain ⟨k, s, e', hk⟩ := hbo
              simp only [hk]
              obtain ⟨z', hz⟩ := foldR_err htail ⟨z, hden.trans hap⟩
              rw [hz]
              exact ⟨k, s, e', rfl⟩
            | ok w =>
              rw [hap] at hbo
              simp only [Outcome] at hbo
              simp only [hbo]
              have hf := fold_num cfg (F' + 2) ih' htail resta (F' + 1) w
                ⟨off, .node id .OPERATION ks⟩ d hresta (by omega) (hden.trans hap) (by omega) hl hro
              cases hde : denote e with
              | error z =>
                rw [hde] at hf
                obtain ⟨k, s, e', hk⟩ := hf
                simp only [hk]
                exact ⟨k, s, e', rfl⟩
              | ok u =>
                rw [hde] at hf
                simp only [FoldOutcome] at hf
                simp only [hf, Outcome]
                rfl
    | @call0 id ks nm f hop =>
      have hL := at_opKids ⟨off, .node id .FN_CALL ks⟩
      simp only [kids_node, hop] at hL
      obtain ⟨nma, hLeq, _⟩ := map_eq_one hL
      have hden : denote (.call f []) = .error .arity := by
        cases f <;> simp [denote, denoteList, applyFn]
      rw [hden]
      simp only [eval, kind_node, hLeq]
      split
      · exact ⟨_, _, _, rfl⟩
      · exact ⟨_, _, _, rfl⟩
    | @call id aid ks aks nm f x xs args more hop hnk hnt hak hargs =>
      have hL := at_opKids ⟨off, .node id .FN_CALL ks⟩
      simp only [kids_node, hop] at hL
      obtain ⟨nma, L1, hLeq, hnma, hL1⟩ := map_eq_cons hL
      obtain ⟨arga, morea, rfl, harga, _⟩ := map_eq_cons hL1
      have hs1 := opKids_size_le ks
      have hs2 := opKids_size_le aks
      simp only [hop, hak, sizeList, size_node] at hs1 hs2 hsz
      have p0 := size_pos nm
      have hA := at_opKids arga
      rw [harga] at hA
      simp only [kids_node, hak] at hA
      simp only [LitsOK, RoundOK] at hl hro
      have hao := args_ok cfg F ih' hargs _ F d hA (by omega) (by simp only [sizeList]; omega)
        hl hro.1
      have hk1 : (nma.t.kind != Syntax.FN_NAME) = false := by rw [hnma, hnk]; rfl
      have hk2 : (arga.t.kind != Syntax.FN_ARGUMENTS) = false := by rw [harga]; rfl
      simp only [eval, kind_node, hLeq, hk1, hk2, Bool.false_eq_true, ↓reduceIte, bind_apply]
      simp only [denote]
      cases hdl : denoteList args with
      | error y =>
        rw [hdl] at hao
        obtain ⟨k, s, e', hk⟩ := hao
        simp only [hk]
        exact ⟨k, s, e', rfl⟩
      | ok vs =>
        rw [hdl] at hao
        simp only [ArgsOutcome] at hao
        simp only [hao]
        have hco := call_outcome cfg f off (At.stop ⟨off, .node id .FN_CALL ks⟩) vs d (by
          intro hf x' n hvs
          subst hvs
          obtain ⟨a, b, hab, hbn⟩ := denoteList_ok_two hdl
          exact hro.2 hf a b hab n hbn)
        rw [hnma, hnt]
        cases f <;> simpa [Fn.name, callEval] using hco

/-! ### The levelled relation implies the plain one -/

theorem foldRL_to_foldR {RL R : Tree → NExpr → Prop} {p : Nat} {acc e : NExpr} {ts : List Tree}
    (h : FoldRL RL p acc ts e) (hR : ∀ x ∈ ts, ∀ b, RL x b → R x b) : FoldR R acc ts e := by
  induction h with
  | nil p acc => exact .nil _
  | cons ho _ hx _ ih =>
    exact .cons ho (hR _ (by simp) _ hx) (ih fun x hx b hb => hR x (by simp [hx]) b hb)

theorem argsR_map {RL R : Tree → NExpr → Prop} {ts : List Tree} {es : List NExpr}
    (h : ArgsR RL ts es) (hR : ∀ x ∈ ts, ∀ b, RL x b → R x b) : ArgsR R ts es := by
  induction h with
  | nil => exact .nil
  | cons hx _ ih =>
    exact .cons (hR _ (by simp) _ hx) (ih fun x hx b hb => hR x (by simp [hx]) b hb)

theorem opKids_mem_size {ks : List Tree} {x : Tree} (h : x ∈ opKids ks) : size x ≤ sizeList ks :=
  mem_sizeList (List.mem_of_mem_filter h)

theorem repL_to_rep_aux : ∀ (n : Nat) (t : Tree) (e : NExpr), size t ≤ n → RepresentsL t e →
    Represents t e := by
  intro n
  induction n with
  | zero => intro t e h; have := size_pos t; omega
  | succ n ih =>
    intro t e hsz h
    cases h with
    | num h1 h2 h3 h4 => exact .num h1 h2 h3 h4
    | pct h1 h2 h3 => exact .pct h1 h2 h3
    | @paren id ks x e' hk hx =>
      simp only [size_node] at hsz
      have := opKids_mem_size (ks := ks) (x := x) (by rw [hk]; simp)
      exact .paren hk (ih x e' (by omega) hx)
    | @chain id ks x₀ rest e₀ _ p hk hne hx hf =>
      simp only [size_node] at hsz
      have h0 := opKids_mem_size (ks := ks) (x := x₀) (by rw [hk]; simp)
      refine .chain hk hne (ih x₀ e₀ (by omega) hx) (foldRL_to_foldR hf ?_)
      intro x hx b hb
      have := opKids_mem_size (ks := ks) (x := x) (by rw [hk]; simp [hx])
      exact ih x b (by omega) hb
    | call0 hk => exact .call0 hk
    | @call id aid ks aks nm f x xs args more hk h1 h2 hak hargs =>
      simp only [size_node] at hsz
      have ha := opKids_mem_size (ks := ks) (x := .node aid .FN_ARGUMENTS aks) (by rw [hk]; simp)
      simp only [size_node] at ha
      refine .call hk h1 h2 hak (argsR_map hargs ?_)
      intro y hy b hb
      have := opKids_mem_size (ks := aks) (x := y) (by rw [hak]; exact hy)
      exact ih y b (by omega) hb

theorem repL_to_rep {t : Tree} {e : NExpr} (h : RepresentsL t e) : Represents t e :=
  repL_to_rep_aux (size t) t e (Nat.le_refl _) h

end Anything.C06
