import Anything.Lemmas.PrintedParse
/-!
# The three printing paths of `Display.fmt` (helper file for `Props/C08`)

* `emitTake_spec` — the long-division invariant shared by all paths;
* `NatCrit` — the value-level criterion, stated over natural numbers only;
* `formatWhole_good`, `formatBig_good`, `small_good` — every path prints a
  `render`ed text whose fields satisfy the criterion.
-/

namespace Anything.Lemmas.Printed
open Anything Anything.Display Anything.Spec Anything.Spec.Printed
open Anything.Spec.Decimal (digitsVal)
open Anything.Lemmas.Number (digitsVal_cons digitsVal_nil digitsVal_append digitsVal_lt)

/-! ## long division -/

theorem emitStep_zero (den : Nat) : emitStep 0 den = none := by simp [emitStep]

theorem emitStep_pos {rem den : Nat} (h : rem ≠ 0) :
    emitStep rem den = some (rem * 10 / den, rem * 10 % den) := by
  have := Nat.div_add_mod (rem * 10) den
  simp only [emitStep, h, ↓reduceIte, Option.some.injEq, Prod.mk.injEq, true_and]
  omega

theorem emitTake_zero_rem (den k : Nat) : emitTake den k 0 = ([], 0) := by
  cases k <;> simp [emitTake, emitStep_zero]

theorem emitTake_succ_pos {rem den : Nat} (k : Nat) (h : rem ≠ 0) :
    emitTake den (k + 1) rem =
      (rem * 10 / den :: (emitTake den k (rem * 10 % den)).1, (emitTake den k (rem * 10 % den)).2) := by
  simp [emitTake, emitStep_pos h]

/-- The long-division invariant: after `emitTake den k rem` with `rem < den` the
digits `ds` (each `< 10`) and the remainder `rem'` satisfy
`rem · 10^|ds| = ds · den + rem'`, `rem' < den`, and fewer than `k` digits are
produced only when nothing is left. -/
theorem emitTake_spec {den : Nat} (hden : 0 < den) : ∀ (k rem : Nat), rem < den →
    (∀ d ∈ (emitTake den k rem).1, d < 10) ∧ (emitTake den k rem).2 < den ∧
    rem * 10 ^ (emitTake den k rem).1.length =
      digitsVal (emitTake den k rem).1 * den + (emitTake den k rem).2 ∧
    (emitTake den k rem).1.length ≤ k ∧
    ((emitTake den k rem).1.length < k → (emitTake den k rem).2 = 0) := by
  intro k
  induction k with
  | zero => intro rem hrem; simp [emitTake, digitsVal_nil, hrem]
  | succ k ih =>
    intro rem hrem
    by_cases h0 : rem = 0
    · subst h0; simp [emitTake_zero_rem, digitsVal_nil, hden]
    · rw [emitTake_succ_pos k h0]
      have hmod : rem * 10 % den < den := Nat.mod_lt _ hden
      obtain ⟨i1, i2, i3, i4, i5⟩ := ih (rem * 10 % den) hmod
      have hdm := Nat.div_add_mod (rem * 10) den
      have hd10 : rem * 10 / den < 10 := by
        rw [Nat.div_lt_iff_lt_mul hden]; omega
      refine ⟨?_, i2, ?_, ?_, ?_⟩
      · intro d hd
        simp only [List.mem_cons] at hd
        rcases hd with rfl | hd
        · exact hd10
        · exact i1 d hd
      · simp only [List.length_cons, digitsVal_cons]
        generalize (emitTake den k (rem * 10 % den)).1.length = j at *
        generalize digitsVal (emitTake den k (rem * 10 % den)).1 = D at *
        generalize (emitTake den k (rem * 10 % den)).2 = r2 at *
        generalize rem * 10 / den = d at *
        generalize rem * 10 % den = r1 at *
        calc rem * 10 ^ (j + 1) = (rem * 10) * 10 ^ j := by ring
          _ = (den * d + r1) * 10 ^ j := by rw [hdm]
          _ = den * d * 10 ^ j + r1 * 10 ^ j := by ring
          _ = den * d * 10 ^ j + (D * den + r2) := by rw [i3]
          _ = (d * 10 ^ j + D) * den + r2 := by ring
      · simp only [List.length_cons]; omega
      · simp only [List.length_cons]; intro h; exact i5 (by omega)

theorem emitTake_ne_nil {den rem : Nat} (k : Nat) (h : rem ≠ 0) :
    (emitTake den (k + 1) rem).1 ≠ [] := by
  rw [emitTake_succ_pos k h]; simp

/-! ## the value criterion over natural numbers -/

/-- `N / den`, cut off toward zero at the last printed digit of `rd`, is what `rd`
shows; the part cut off is `R / D` units in the last place. -/
def NatCrit (N den : Nat) (rd : Read) : Prop :=
  ∃ D R p q : Nat, 0 < D ∧ R < D ∧
    rd.exp - (rd.fracDigits.length : Int) = (p : Int) - (q : Int) ∧
    N * 10 ^ q * D = (digitsVal (rd.intDigits ++ rd.fracDigits) * D + R) * 10 ^ p * den ∧
    rd.mark = decide (R ≠ 0)

/-- Integer/fraction form: `N · 10^q = V · den + R`. -/
theorem natCrit_of_eq {N den : Nat} {rd : Read} (R q : Nat) (hden : 0 < den) (hR : R < den)
    (h : N * 10 ^ q = digitsVal (rd.intDigits ++ rd.fracDigits) * den + R)
    (hexp : rd.exp - (rd.fracDigits.length : Int) = -(q : Int))
    (hmark : rd.mark = decide (R ≠ 0)) : NatCrit N den rd := by
  refine ⟨den, R, 0, q, hden, hR, by simpa using hexp, ?_, hmark⟩
  rw [h]; ring

theorem digitsVal_eq_zero_iff (ds : List Nat) : digitsVal ds = 0 ↔ ∀ d ∈ ds, d = 0 := by
  induction ds with
  | nil => simp [digitsVal_nil]
  | cons x xs ih =>
    rw [digitsVal_cons]
    have hp : 0 < 10 ^ xs.length := Nat.pow_pos (by decide)
    constructor
    · intro h
      have h1 : x * 10 ^ xs.length = 0 := by omega
      have h2 : digitsVal xs = 0 := by omega
      have hx : x = 0 := by
        rcases Nat.mul_eq_zero.mp h1 with h | h
        · exact h
        · omega
      intro d hd
      simp only [List.mem_cons] at hd
      rcases hd with rfl | hd
      · exact hx
      · exact ih.mp h2 d hd
    · intro h
      have hx : x = 0 := h x (by simp)
      have := ih.mpr (fun d hd => h d (by simp [hd]))
      simp [hx, this]

theorem any_ne_zero_iff (ds : List Nat) : ds.any (· ≠ 0) = true ↔ digitsVal ds ≠ 0 := by
  rw [Ne, digitsVal_eq_zero_iff]
  simp

/-- What a printing path must deliver. -/
def Good (N den : Nat) (neg : Bool) (text : List Char) : Prop :=
  ∃ (int frac : List Nat) (dot mark : Bool) (exp : Int),
    text = render neg int frac dot mark exp ∧ int ≠ [] ∧ (∀ d ∈ int, d < 10) ∧
    (∀ d ∈ frac, d < 10) ∧ (dot = false → frac = []) ∧
    NatCrit N den { neg := neg, intDigits := int, fracDigits := frac, mark := mark, exp := exp }

/-! ## `format_whole` -/

theorem intStr_natCast (n : Nat) : intStr (n : Int) = natStr n := by
  unfold intStr
  have : ¬ ((n : Int) < 0) := by omega
  simp [this]

theorem expPart_natCast (n : Nat) : expPart (n : Int) = if n > 0 then ['e'] ++ natStr n else [] := by
  unfold expPart
  rw [intStr_natCast]
  by_cases h : n = 0
  · subst h; simp
  · have h1 : (n : Int) ≠ 0 := by omega
    have h2 : n > 0 := by omega
    simp [h2, h]

theorem formatWhole_good (spec : Display.Spec) (hc : spec.showContinuation = true) (neg : Bool)
    (rem div den : Nat) (hden : 0 < den) (hrem : rem < den) :
    Good (den * div + rem) den neg (formatWhole spec neg rem div den) := by
  unfold formatWhole
  by_cases h0 : rem = 0
  · refine ⟨natDigits div, [], false, false, 0, ?_, natDigits_ne_nil _, natDigits_lt _, by simp,
      by simp, ?_⟩
    · simp [h0, render, natStr_eq_map]
    · apply natCrit_of_eq 0 0 hden hden
      · simp [natDigits_val, h0, Nat.mul_comm]
      · simp
      · simp
  · by_cases hl : spec.limit > 0
    · obtain ⟨i1, i2, i3, _, _⟩ := emitTake_spec hden spec.limit rem hrem
      refine ⟨natDigits div, (emitTake den spec.limit rem).1, true,
        decide ((emitTake den spec.limit rem).2 ≠ 0), 0, ?_, natDigits_ne_nil _, natDigits_lt _, i1,
        by simp, ?_⟩
      · simp only [h0, hl, ↓reduceIte, render, cont, hc, Bool.and_true, natStr_eq_map]
        by_cases hm : (emitTake den spec.limit rem).2 = 0 <;> simp [hm]
      · apply natCrit_of_eq (emitTake den spec.limit rem).2 (emitTake den spec.limit rem).1.length hden i2
        · simp only [digitsVal_append, natDigits_val]
          rw [Nat.add_mul, Nat.mul_assoc, i3]; ring
        · simp
        · rfl
    · refine ⟨natDigits div, [], false, true, 0, ?_, natDigits_ne_nil _, natDigits_lt _, by simp,
        by simp, ?_⟩
      · simp [h0, hl, render, cont, hc, natStr_eq_map]
      · apply natCrit_of_eq rem 0 hden hrem
        · simp [natDigits_val, Nat.mul_comm]
        · simp
        · simp [h0]

/-! ## `format_big` -/

theorem formatBig_good (spec : Display.Spec) (hc : spec.showContinuation = true) (neg : Bool)
    (rem div den : Nat) (hden : 0 < den) (hrem : rem < den) (hdiv : 10 ≤ div) :
    Good (den * div + rem) den neg (formatBig spec neg rem div den) := by
  have hlen := natDigits_length_ge_two hdiv
  have hlt := natDigits_lt div
  have hval := natDigits_val div
  unfold formatBig
  cases hs : natDigits div with
  | nil => exact absurd hs (natDigits_ne_nil _)
  | cons first rest =>
    rw [hs] at hlen hlt hval
    have hrest : rest ≠ [] := by
      intro h; subst h; simp at hlen
    have hfirst : first < 10 := hlt first (by simp)
    have hrestlt : ∀ d ∈ rest, d < 10 := fun d hd => hlt d (by simp [hd])
    have hisE : rest.isEmpty = false := by
      cases rest with
      | nil => exact absurd rfl hrest
      | cons _ _ => rfl
    simp only [hisE, Bool.false_eq_true, ↓reduceIte]
    by_cases hcut : (List.drop spec.limit rest).isEmpty = true
    · -- nothing of the whole part is cut off
      have hdrop : List.drop spec.limit rest = [] := by simpa using hcut
      have hle : rest.length ≤ spec.limit := by
        simpa [List.drop_eq_nil_iff] using hdrop
      have htake : List.take spec.limit rest = rest := List.take_of_length_le hle
      simp only [hcut, Bool.not_true, Bool.false_eq_true, ↓reduceIte, htake]
      -- the fraction digits
      have hE : ∃ ds rem', (if spec.limit - rest.length > 0 then emitTake den (spec.limit - rest.length) rem
            else ([], rem)) = (ds, rem') ∧ (∀ d ∈ ds, d < 10) ∧ rem' < den ∧
            rem * 10 ^ ds.length = digitsVal ds * den + rem' := by
        by_cases hr : spec.limit - rest.length > 0
        · obtain ⟨i1, i2, i3, _, _⟩ := emitTake_spec hden (spec.limit - rest.length) rem hrem
          exact ⟨_, _, by simp only [hr, ↓reduceIte], i1, i2, i3⟩
        · exact ⟨[], rem, by simp only [hr, ↓reduceIte], by simp, hrem, by simp [digitsVal_nil]⟩
      obtain ⟨ds, rem', hEq, j1, j2, j3⟩ := hE
      rw [hEq]
      refine ⟨[first], rest ++ ds, true, decide (rem' ≠ 0), (rest.length : Int), ?_, by simp,
        by simpa using hfirst, ?_, by simp, ?_⟩
      · simp only [render, ↓reduceIte, cont, hc, Bool.and_true]
        have := expPart_natCast rest.length
        unfold expPart at this
        rw [this]
        by_cases hm : rem' = 0 <;> simp [hm]
      · intro d hd
        simp only [List.mem_append] at hd
        rcases hd with hd | hd
        · exact hrestlt d hd
        · exact j1 d hd
      · apply natCrit_of_eq rem' ds.length hden j2
        · simp only [List.singleton_append]
          rw [← List.cons_append, digitsVal_append, hval, Nat.add_mul, Nat.mul_assoc, j3]; ring
        · simp only [List.length_append]; push_cast; ring
        · rfl
    · -- whole digits are cut off
      have hcutne : List.drop spec.limit rest ≠ [] := by simpa using hcut
      simp only [hcut, Bool.not_false, ↓reduceIte]
      have hsplit : List.take spec.limit rest ++ List.drop spec.limit rest = rest :=
        List.take_append_drop _ _
      generalize hp : List.take spec.limit rest = printed at *
      generalize hq : List.drop spec.limit rest = cut at *
      have hplt : ∀ d ∈ printed, d < 10 := fun d hd => hrestlt d (by rw [← hsplit]; simp [hd])
      have hclt : ∀ d ∈ cut, d < 10 := fun d hd => hrestlt d (by rw [← hsplit]; simp [hd])
      have hlenr : rest.length = printed.length + cut.length := by rw [← hsplit]; simp
      have hCl := digitsVal_lt cut hclt
      have hpos : 0 < 10 ^ cut.length := Nat.pow_pos (by decide)
      refine ⟨[first], printed, true, decide (digitsVal cut * den + rem ≠ 0), (rest.length : Int), ?_,
        by simp, by simpa using hfirst, hplt, by simp, ?_⟩
      · simp only [render, ↓reduceIte, cont, hc, Bool.and_true]
        have := expPart_natCast rest.length
        unfold expPart at this
        rw [this, hlenr, Nat.add_comm printed.length cut.length]
        have hmk : (cut.any (· ≠ 0) || decide (rem ≠ 0)) = decide (digitsVal cut * den + rem ≠ 0) := by
          rw [Bool.eq_iff_iff]
          simp only [Bool.or_eq_true, decide_eq_true_eq, any_ne_zero_iff]
          constructor
          · rintro (h | h)
            · have := Nat.mul_pos (Nat.pos_of_ne_zero h) hden
              omega
            · omega
          · intro h
            by_cases hC : digitsVal cut = 0
            · right; rw [hC] at h; omega
            · left; exact hC
        rw [hmk]
        by_cases hm : digitsVal cut * den + rem = 0 <;> simp [hm]
      · refine ⟨den * 10 ^ cut.length, digitsVal cut * den + rem, cut.length, 0,
          Nat.mul_pos hden hpos, ?_, ?_, ?_, rfl⟩
        · have h1 : digitsVal cut + 1 ≤ 10 ^ cut.length := hCl
          have h2 : (digitsVal cut + 1) * den ≤ 10 ^ cut.length * den := Nat.mul_le_mul_right _ h1
          calc digitsVal cut * den + rem < digitsVal cut * den + den := by omega
            _ = (digitsVal cut + 1) * den := by ring
            _ ≤ 10 ^ cut.length * den := h2
            _ = den * 10 ^ cut.length := by ring
        · simp only [hlenr]; push_cast; ring
        · simp only [List.singleton_append]
          have hv : digitsVal (first :: printed) * 10 ^ cut.length + digitsVal cut = div := by
            rw [← hval, ← hsplit, ← List.cons_append, digitsVal_append]
          rw [← hv]; ring

/-! ## the small-number loop -/

/-- Once the first digit is out, the loop is `emitTake`. -/
theorem smallLoop_phase2 (spec : Display.Spec) (neg : Bool) (den : Nat) :
    ∀ (fuel n rem : Nat) (st : Small), st.takesExp = false → st.init = false → n ≤ fuel →
    (smallLoop spec neg den fuel n rem st).2 = (emitTake den n rem).2 ∧
    (smallLoop spec neg den fuel n rem st).1.exp = st.exp ∧
    (smallLoop spec neg den fuel n rem st).1.out =
      st.out ++ (if st.dot && !(emitTake den n rem).1.isEmpty then ['.'] else []) ++
        (emitTake den n rem).1.map digitChar := by
  intro fuel
  induction fuel with
  | zero =>
    intro n rem st _ _ hn
    have : n = 0 := by omega
    subst this
    simp [smallLoop, emitTake]
  | succ fuel ih =>
    intro n rem st ht hi hn
    cases n with
    | zero => simp [smallLoop, emitTake]
    | succ n =>
      by_cases h0 : rem = 0
      · subst h0
        simp [smallLoop, emitTake, emitStep_zero]
      · rw [emitTake_succ_pos n h0]
        simp only [smallLoop, emitStep_pos h0, ht, hi, Bool.and_false, Bool.false_eq_true, ↓reduceIte]
        obtain ⟨k1, k2, k3⟩ := ih n (rem * 10 % den)
          { out := st.out ++ (if st.dot then ['.'] else []) ++ [digitChar (rem * 10 / den)],
            exp := st.exp, init := false, dot := false, takesExp := false }
          rfl rfl (by omega)
        refine ⟨k1, k2, ?_⟩
        rw [k3]
        cases st.dot <;> simp

/-- The leading zeros: the loop finds the first non-zero digit, `z` places further
down, and prints it in one of the two layouts. -/
theorem smallLoop_phase1 (spec : Display.Spec) (neg : Bool) {den : Nat} (hden : 0 < den) :
    ∀ (fuel n rem : Nat) (e : Int), 0 < rem → rem < den → den - rem + n + 1 ≤ fuel →
    ∃ (z d : Nat) (ds : List Nat) (rem' : Nat), rem * 10 ^ z < den ∧
      emitTake den (n + 1) (rem * 10 ^ z) = (d :: ds, rem') ∧
      (smallLoop spec neg den fuel (n + 1) rem
        { out := [], exp := e, init := true, dot := true, takesExp := true }).2 = rem' ∧
      (if (e - z).natAbs ≥ spec.exponentLimit then
        (smallLoop spec neg den fuel (n + 1) rem
          { out := [], exp := e, init := true, dot := true, takesExp := true }).1.exp = e - z ∧
        (smallLoop spec neg den fuel (n + 1) rem
          { out := [], exp := e, init := true, dot := true, takesExp := true }).1.out =
          (if neg then ['-'] else []) ++ [digitChar d] ++
            (if ds.isEmpty then [] else '.' :: ds.map digitChar)
      else
        (smallLoop spec neg den fuel (n + 1) rem
          { out := [], exp := e, init := true, dot := true, takesExp := true }).1.exp = 0 ∧
        (smallLoop spec neg den fuel (n + 1) rem
          { out := [], exp := e, init := true, dot := true, takesExp := true }).1.out =
          (if neg then ['-'] else []) ++ ['0', '.'] ++ List.replicate ((e - z).natAbs - 1) '0' ++
            digitChar d :: ds.map digitChar) := by
  intro fuel
  induction fuel with
  | zero => intro n rem e _ _ hf; omega
  | succ fuel ih =>
    intro n rem e hpos hlt hf
    have h0 : rem ≠ 0 := by omega
    by_cases hd : rem * 10 / den = 0
    · -- a leading zero
      have hlt10 : rem * 10 < den := by
        rcases Nat.div_eq_zero_iff.mp hd with h | h
        · omega
        · exact h
      have hmod : rem * 10 % den = rem * 10 := Nat.mod_eq_of_lt hlt10
      obtain ⟨z, d, ds, rem', a1, a2, a3, a4⟩ := ih n (rem * 10) (e - 1) (by omega) hlt10 (by omega)
      have hpow : rem * 10 ^ (z + 1) = rem * 10 * 10 ^ z := by ring
      have hez : e - ((z + 1 : Nat) : Int) = e - 1 - (z : Int) := by push_cast; ring
      refine ⟨z + 1, d, ds, rem', by rw [hpow]; exact a1, by rw [hpow]; exact a2, ?_, ?_⟩
      · rw [← a3]
        simp [smallLoop, emitStep_pos h0, hd, hmod]
      · rw [hez]
        have hstep : smallLoop spec neg den (fuel + 1) (n + 1) rem
            { out := [], exp := e, init := true, dot := true, takesExp := true } =
            smallLoop spec neg den fuel (n + 1) (rem * 10)
            { out := [], exp := e - 1, init := true, dot := true, takesExp := true } := by
          simp [smallLoop, emitStep_pos h0, hd, hmod]
        rw [hstep]
        exact a4
    · -- the first non-zero digit
      have hmodlt : rem * 10 % den < den := Nat.mod_lt _ hden
      refine ⟨0, rem * 10 / den, (emitTake den n (rem * 10 % den)).1, (emitTake den n (rem * 10 % den)).2,
        by simpa using hlt, by simpa using emitTake_succ_pos n h0, ?_, ?_⟩
      · by_cases hexp : e.natAbs ≥ spec.exponentLimit
        · simp only [smallLoop, emitStep_pos h0, hd, decide_false, Bool.false_and, Bool.false_eq_true,
            ↓reduceIte, hexp]
          exact (smallLoop_phase2 spec neg den fuel n _ _ rfl rfl (by omega)).1
        · simp only [smallLoop, emitStep_pos h0, hd, decide_false, Bool.false_and, Bool.false_eq_true,
            ↓reduceIte, hexp]
          exact (smallLoop_phase2 spec neg den fuel n _ _ rfl rfl (by omega)).1
      · simp only [Int.natCast_zero, Int.sub_zero]
        by_cases hexp : e.natAbs ≥ spec.exponentLimit
        · simp only [hexp, ↓reduceIte]
          simp only [smallLoop, emitStep_pos h0, hd, decide_false, Bool.false_and, Bool.false_eq_true,
            ↓reduceIte, hexp]
          obtain ⟨_, k2, k3⟩ := smallLoop_phase2 spec neg den fuel n (rem * 10 % den)
            { out := [] ++ (if neg then ['-'] else []) ++ [digitChar (rem * 10 / den)], exp := e,
              init := false, dot := true, takesExp := false } rfl rfl (by omega)
          refine ⟨k2, ?_⟩
          rw [k3]
          cases (emitTake den n (rem * 10 % den)).1 <;> simp
        · simp only [hexp, ↓reduceIte]
          simp only [smallLoop, emitStep_pos h0, hd, decide_false, Bool.false_and, Bool.false_eq_true,
            ↓reduceIte, hexp]
          obtain ⟨_, k2, k3⟩ := smallLoop_phase2 spec neg den fuel n (rem * 10 % den)
            { out := [] ++ (if neg then ['-'] else []) ++ ['0', '.'] ++
                List.replicate (e.natAbs - 1) '0' ++ [digitChar (rem * 10 / den)], exp := 0,
              init := false, dot := false, takesExp := false } rfl rfl (by omega)
          refine ⟨k2, ?_⟩
          rw [k3]
          simp

/-- The text of the small-number path. -/
def smallText (spec : Display.Spec) (neg : Bool) (rem den : Nat) : List Char :=
  let (st, rem') := smallLoop spec neg den (den + spec.limit + 1) spec.limit rem {}
  st.out ++ cont spec (rem' ≠ 0) ++ (if st.exp ≠ 0 then ['e'] ++ intStr st.exp else [])

theorem small_good (spec : Display.Spec) (hc : spec.showContinuation = true) (hl : 1 ≤ spec.limit)
    (neg : Bool) (rem den : Nat) (hpos : 0 < rem) (hrem : rem < den) :
    Good rem den neg (smallText spec neg rem den) := by
  have hden : 0 < den := by omega
  obtain ⟨n, hn⟩ : ∃ n, spec.limit = n + 1 := ⟨spec.limit - 1, by omega⟩
  obtain ⟨z, d, ds, rem', a1, a2, a3, a4⟩ :=
    smallLoop_phase1 spec neg hden (den + spec.limit + 1) n rem (-1) hpos hrem (by omega)
  obtain ⟨i1, i2, i3, _, _⟩ := emitTake_spec hden (n + 1) (rem * 10 ^ z) a1
  rw [a2] at i1 i2 i3
  simp only at i1 i2 i3
  have hd10 : d < 10 := i1 d (by simp)
  have hds10 : ∀ x ∈ ds, x < 10 := fun x hx => i1 x (by simp [hx])
  have hnat : ((-1 : Int) - (z : Int)).natAbs = z + 1 := by omega
  have hst : ({} : Small) = { out := [], exp := -1, init := true, dot := true, takesExp := true } := rfl
  unfold smallText
  rw [hn, hst]
  rw [hn] at a3 a4
  generalize smallLoop spec neg den (den + (n + 1) + 1) (n + 1) rem
    { out := [], exp := -1, init := true, dot := true, takesExp := true } = res at *
  obtain ⟨st, r2⟩ := res
  simp only at a3 a4 ⊢
  subst a3
  rw [hnat] at a4
  -- the value equation shared by both layouts
  have hvalue : rem * 10 ^ (z + 1 + ds.length) = digitsVal (d :: ds) * den + r2 := by
    rw [← i3]; simp only [List.length_cons]; ring
  by_cases hexp : z + 1 ≥ spec.exponentLimit
  · simp only [hexp, ↓reduceIte] at a4
    obtain ⟨b1, b2⟩ := a4
    refine ⟨[d], ds, !ds.isEmpty, decide (r2 ≠ 0), -1 - (z : Int), ?_, by simp, by simpa using hd10,
      hds10, ?_, ?_⟩
    · rw [b1, b2]
      have hne : (-1 - (z : Int)) ≠ 0 := by omega
      simp only [render, cont, hc, Bool.and_true, ne_eq, hne, not_false_eq_true, ↓reduceIte]
      cases ds <;> by_cases hm : r2 = 0 <;> simp [hm]
    · intro h; cases ds <;> simp_all
    · apply natCrit_of_eq r2 (z + 1 + ds.length) hden i2
      · simpa using hvalue
      · simp only; push_cast; ring
      · rfl
  · simp only [hexp, ↓reduceIte] at a4
    obtain ⟨b1, b2⟩ := a4
    refine ⟨[0], List.replicate z 0 ++ d :: ds, true, decide (r2 ≠ 0), 0, ?_, by simp, by simp, ?_,
      by simp, ?_⟩
    · rw [b1, b2]
      have h0c : digitChar 0 = '0' := by decide
      simp only [render, cont, hc, Bool.and_true, ne_eq, not_true_eq_false, ↓reduceIte]
      by_cases hm : r2 = 0 <;> simp [hm, h0c]
    · intro x hx
      simp only [List.mem_append, List.mem_replicate, List.mem_cons] at hx
      rcases hx with ⟨_, rfl⟩ | rfl | hx
      · decide
      · exact hd10
      · exact hds10 x hx
    · apply natCrit_of_eq r2 (z + 1 + ds.length) hden i2
      · have hz : digitsVal ([0] ++ (List.replicate z 0 ++ d :: ds)) = digitsVal (d :: ds) := by
          rw [← List.append_assoc, digitsVal_append]
          have : digitsVal ([0] ++ List.replicate z 0) = 0 := by
            rw [digitsVal_eq_zero_iff]
            intro x hx
            simp only [List.mem_append, List.mem_singleton, List.mem_replicate] at hx
            rcases hx with rfl | ⟨_, rfl⟩ <;> rfl
          rw [this]; simp
        simp only
        rw [hz]; exact hvalue
      · simp only [List.length_append, List.length_replicate, List.length_cons]; push_cast; ring
      · rfl

/-- With a zero digit budget the small-number path prints no digit at all. -/
theorem smallText_limit_zero (spec : Display.Spec) (hc : spec.showContinuation = true)
    (hl : spec.limit = 0) (neg : Bool) (rem den : Nat) (hpos : 0 < rem) :
    smallText spec neg rem den = ['…', 'e', '-', '1'] := by
  have h0 : rem ≠ 0 := by omega
  unfold smallText
  rw [hl]
  simp [smallLoop, cont, hc, h0]
  decide

/-! ## all paths together -/

theorem fmt_eq (spec : Display.Spec) (r : Rat) :
    fmt spec r =
      (if digits (r.num.natAbs / r.den) ≥ spec.exponentLimit then
        formatBig spec (r < 0) (r.num.natAbs - r.den * (r.num.natAbs / r.den)) (r.num.natAbs / r.den) r.den
      else if r.num.natAbs / r.den ≠ 0 || r.num.natAbs - r.den * (r.num.natAbs / r.den) = 0 then
        formatWhole spec (r < 0) (r.num.natAbs - r.den * (r.num.natAbs / r.den)) (r.num.natAbs / r.den) r.den
      else smallText spec (r < 0) (r.num.natAbs - r.den * (r.num.natAbs / r.den)) r.den) := by
  rfl

/-- Every path of `fmt` delivers a well-formed rendered text whose fields are
`|r|` cut off toward zero, provided the digit budget is positive or the small
path is not taken. -/
theorem fmt_good (spec : Display.Spec) (hc : spec.showContinuation = true)
    (he : 1 ≤ spec.exponentLimit) (r : Rat)
    (hl : 1 ≤ spec.limit ∨ r.den ≤ r.num.natAbs ∨ r.num = 0) :
    Good r.num.natAbs r.den (decide (r < 0)) (fmt spec r) := by
  have hden : 0 < r.den := r.den_pos
  have hdm := Nat.div_add_mod r.num.natAbs r.den
  have hrem : r.num.natAbs - r.den * (r.num.natAbs / r.den) = r.num.natAbs % r.den := by omega
  have hmodlt : r.num.natAbs % r.den < r.den := Nat.mod_lt _ hden
  rw [fmt_eq, hrem]
  split
  · rename_i hbig
    have := formatBig_good spec hc (decide (r < 0)) (r.num.natAbs % r.den) (r.num.natAbs / r.den) r.den hden
      hmodlt (ten_le_of_digits_pos (by omega))
    rwa [hdm] at this
  · split
    · have := formatWhole_good spec hc (decide (r < 0)) (r.num.natAbs % r.den) (r.num.natAbs / r.den) r.den
        hden hmodlt
      rwa [hdm] at this
    · rename_i hsm
      simp only [ne_eq, Bool.or_eq_true, decide_eq_true_eq, not_or, Decidable.not_not] at hsm
      obtain ⟨hdiv, hmod⟩ := hsm
      have hlt : r.num.natAbs < r.den := by
        rcases Nat.div_eq_zero_iff.mp hdiv with h | h
        · omega
        · exact h
      have hN : r.num.natAbs % r.den = r.num.natAbs := Nat.mod_eq_of_lt hlt
      have hl1 : 1 ≤ spec.limit := by
        rcases hl with h | h | h
        · exact h
        · omega
        · rw [h] at hmod; simp at hmod
      rw [hN] at hmod ⊢
      exact small_good spec hc hl1 _ _ _ (by omega) hlt

end Anything.Lemmas.Printed
