import Anything.Model.Cbor
/-!
# Byte-level lemmas for the CBOR encoder/decoder (C17)

`decode fuel (encode v ++ rest) = some (v, rest)` for every encodable `v` and enough fuel.
-/
namespace Anything.Cbor
open Anything

theorem byteArray_toList_loop (bs : ByteArray) (k i : Nat) (r : List UInt8) (hk : bs.size - i = k) :
    ByteArray.toList.loop bs i r = r.reverse ++ bs.data.toList.drop i := by
  induction k generalizing i r with
  | zero =>
    rw [ByteArray.toList.loop.eq_def]
    have : ¬ i < bs.size := by omega
    have h2 : bs.data.toList.length ≤ i := by
      simp only [Array.length_toList]; exact Nat.le_of_not_lt this
    simp [this, List.drop_eq_nil_of_le h2]
  | succ k ih =>
    rw [ByteArray.toList.loop.eq_def]
    have h1 : i < bs.size := by omega
    have h2 : i < bs.data.toList.length := by simpa using h1
    have h3 : i < bs.data.size := h1
    rw [if_pos h1, ih _ _ (by omega), List.drop_eq_getElem_cons h2]
    obtain ⟨d⟩ := bs
    simp [ByteArray.get!, h3]

theorem byteArray_toList (bs : ByteArray) : bs.toList = bs.data.toList := by
  rw [ByteArray.toList, byteArray_toList_loop bs _ 0 [] rfl]; simp

theorem fromUTF8?_toUTF8 (t : String) : String.fromUTF8? t.toUTF8 = some t := by
  unfold String.fromUTF8?
  rw [dif_pos (show t.toUTF8.IsValidUTF8 from t.isValidUTF8)]
  rfl

theorem fromUtf8_utf8 (s : List Char) : fromUtf8 (utf8 s) = some s := by
  unfold fromUtf8 utf8
  have h1 : ∀ l : List UInt8, (l.map (·.toNat)).map UInt8.ofNat = l := by
    intro l; induction l with
    | nil => rfl
    | cons a l ih => simp only [List.map_cons, UInt8.ofNat_toNat, ih]
  have h2 : ∀ x : ByteArray, ByteArray.mk (x.data.toList).toArray = x := by
    intro x; cases x; simp
  rw [h1, byteArray_toList, h2, fromUTF8?_toUTF8]
  simp


/-! ## Big-endian arguments and heads -/

theorem beBytes_length (k n : Nat) : (beBytes k n).length = k := by
  induction k with
  | zero => rfl
  | succ k ih => simp [beBytes, ih]

theorem ofBe_beBytes_mod (k n : Nat) : ofBe (beBytes k n) = n % 256 ^ k := by
  induction k with
  | zero => simp [beBytes, ofBe, Nat.mod_one]
  | succ k ih =>
    simp only [beBytes, ofBe, beBytes_length, ih]
    rw [Nat.mod_pow_succ, Nat.mul_comm, Nat.add_comm]

theorem ofBe_beBytes (k n : Nat) (h : n < 256 ^ k) : ofBe (beBytes k n) = n := by
  rw [ofBe_beBytes_mod, Nat.mod_eq_of_lt h]

theorem beBytes_lt (k n : Nat) : ∀ b ∈ beBytes k n, b < 256 := by
  induction k with
  | zero => simp [beBytes]
  | succ k ih =>
    intro b hb
    simp only [beBytes, List.mem_cons] at hb
    rcases hb with rfl | hb
    · exact Nat.mod_lt _ (by decide)
    · exact ih b hb

/-- Reading a long head (`a ∈ {24,25,26,27}` followed by `k ∈ {1,2,4,8}` bytes). -/
theorem readHead_long (m a k n : Nat) (rest : List Nat) (hm : m < 8)
    (hak : a = 24 ∧ k = 1 ∨ a = 25 ∧ k = 2 ∨ a = 26 ∧ k = 4 ∨ a = 27 ∧ k = 8)
    (hn : n < 256 ^ k) :
    readHead ((m * 32 + a) :: (beBytes k n ++ rest)) = some (m, n, rest) := by
  have h1 : (m * 32 + a) / 32 = m := by have := hm; omega
  have h2 : (m * 32 + a) % 32 = a := by omega
  have hl : (beBytes k n).length = k := beBytes_length k n
  have ht : (beBytes k n ++ rest).take k = beBytes k n := by
    rw [List.take_append_of_le_length (by omega), List.take_of_length_le (by omega)]
  have hd : (beBytes k n ++ rest).drop k = rest := by
    rw [List.drop_append_of_le_length (by omega), List.drop_of_length_le (by omega)]; rfl
  unfold readHead
  simp only [h1, h2]
  rcases hak with ⟨rfl, rfl⟩ | ⟨rfl, rfl⟩ | ⟨rfl, rfl⟩ | ⟨rfl, rfl⟩ <;>
    simp [ht, hd, hl, ofBe_beBytes _ _ hn]

theorem head_eq (m n : Nat) (hn : n < 2 ^ 64) :
    (n < 24 ∧ head m n = [m * 32 + n]) ∨
    ∃ a k, (a = 24 ∧ k = 1 ∨ a = 25 ∧ k = 2 ∨ a = 26 ∧ k = 4 ∨ a = 27 ∧ k = 8) ∧ n < 256 ^ k ∧
      head m n = (m * 32 + a) :: beBytes k n := by
  unfold head
  by_cases h1 : n < 24
  · left; simp [h1]
  · right
    by_cases h2 : n < 256
    · refine ⟨24, 1, by simp, by simpa using h2, ?_⟩
      simp [h1, h2, beBytes, Nat.mod_eq_of_lt h2]
    · by_cases h3 : n < 65536
      · exact ⟨25, 2, by simp, by simpa using h3, by simp [h1, h2, h3]⟩
      · by_cases h4 : n < 4294967296
        · exact ⟨26, 4, by simp, by simpa using h4, by simp [h1, h2, h3, h4]⟩
        · exact ⟨27, 8, by simp, by simpa using hn, by simp [h1, h2, h3, h4]⟩

/-- **Heads round-trip**: for a major type `m < 8` and an argument `n < 2^64`. -/
theorem readHead_head (m n : Nat) (rest : List Nat) (hm : m < 8) (hn : n < 2 ^ 64) :
    readHead (head m n ++ rest) = some (m, n, rest) := by
  rcases head_eq m n hn with ⟨h, e⟩ | ⟨a, k, hak, hk, e⟩
  · rw [e]
    have h1 : (m * 32 + n) / 32 = m := by omega
    have h2 : (m * 32 + n) % 32 = n := by omega
    simp [readHead, h1, h2, h]
  · rw [e]; exact readHead_long m a k n rest hm hak hk

theorem head_length_pos (m n : Nat) : 0 < (head m n).length := by
  unfold head; repeat' split
  all_goals simp

/-- The first byte of a head of major type `m ≤ 6` is not the `null` byte `0xf6`. -/
theorem head_first (m n : Nat) (hm : m < 7) (hn : n < 2 ^ 64) :
    ∃ b tl, head m n = b :: tl ∧ b ≠ 246 := by
  rcases head_eq m n hn with ⟨h, e⟩ | ⟨a, k, hak, hk, e⟩
  · exact ⟨_, _, e, by omega⟩
  · exact ⟨_, _, e, by omega⟩


/-! ## Encodable values -/

mutual
/-- `v` can be written with definite-length shortest-form heads: every integer
argument and every length is below `2^64`. (Texts need no validity condition:
`fromUtf8_utf8` holds for every list of characters.) -/
def Encodable : CVal → Prop
  | .uint n => n < 2 ^ 64
  | .nint n => n < 2 ^ 64
  | .bytes b => b.length < 2 ^ 64
  | .text s => (utf8 s).length < 2 ^ 64
  | .array xs => xs.length < 2 ^ 64 ∧ EncodableList xs
  | .map kvs => kvs.length < 2 ^ 64 ∧ EncodablePairs kvs
  | .null => True
def EncodableList : List CVal → Prop
  | [] => True
  | x :: xs => Encodable x ∧ EncodableList xs
def EncodablePairs : List (CVal × CVal) → Prop
  | [] => True
  | (k, v) :: rest => Encodable k ∧ Encodable v ∧ EncodablePairs rest
end

theorem encodableList_iff (xs : List CVal) : EncodableList xs ↔ ∀ x ∈ xs, Encodable x := by
  induction xs with
  | nil => simp [EncodableList]
  | cons x xs ih => simp [EncodableList, ih]

theorem encodablePairs_iff (kvs : List (CVal × CVal)) :
    EncodablePairs kvs ↔ ∀ e ∈ kvs, Encodable e.1 ∧ Encodable e.2 := by
  induction kvs with
  | nil => simp [EncodablePairs]
  | cons e kvs ih => obtain ⟨k, v⟩ := e; simp [EncodablePairs, ih, and_assoc]

/-! ## The decoder on an encoded item -/

/-- One step of `decode` on bytes that start with a head of major type `m ≤ 5`. -/
theorem decode_head (fuel m n : Nat) (rest : List Nat) (hm : m < 6) (hn : n < 2 ^ 64) :
    decode (fuel + 1) (head m n ++ rest) =
      if m = 0 then some (.uint n, rest)
      else if m = 1 then some (.nint n, rest)
      else if m = 2 then (if rest.length < n then none else some (.bytes (rest.take n), rest.drop n))
      else if m = 3 then
        (if rest.length < n then none else (fromUtf8 (rest.take n)).map (fun s => (.text s, rest.drop n)))
      else if m = 4 then (decodeN fuel n rest).map (fun (xs, r) => (.array xs, r))
      else if m = 5 then (decodePairsN fuel n rest).map (fun (xs, r) => (.map xs, r))
      else none := by
  have hr := readHead_head m n rest (by omega) hn
  obtain ⟨b, tl, e, hb⟩ := head_first m n (by omega) hn
  rw [e] at hr ⊢
  rw [List.cons_append] at hr ⊢
  unfold decode
  split
  · rename_i h; injection h with h _; exact absurd h hb
  · simp only [hr]

theorem encode_length_pos (v : CVal) : 0 < (encode v).length := by
  cases v with
  | uint n => simpa [encode] using head_length_pos 0 n
  | nint n => simpa [encode] using head_length_pos 1 n
  | bytes b => have := head_length_pos 2 b.length; simp only [encode, List.length_append]; omega
  | text s =>
    have := head_length_pos 3 (utf8 s).length; simp only [encode, List.length_append]; omega
  | array xs =>
    have := head_length_pos 4 xs.length; simp only [encode, List.length_append]; omega
  | map kvs =>
    have := head_length_pos 5 kvs.length; simp only [encode, List.length_append]; omega
  | null => simp [encode]

mutual
/-- **Main byte-level lemma.** With fuel at least twice the encoded length, the
decoder reads back exactly `v` and leaves the trailing bytes untouched. -/
theorem decode_encode (v : CVal) (hv : Encodable v) (fuel : Nat) (rest : List Nat)
    (hf : 2 * (encode v).length ≤ fuel) : decode fuel (encode v ++ rest) = some (v, rest) := by
  have hpos := encode_length_pos v
  obtain ⟨f, rfl⟩ : ∃ f, fuel = f + 1 := ⟨fuel - 1, by omega⟩
  cases v with
  | uint n => simp only [encode]; rw [decode_head _ _ _ _ (by omega) hv]; simp
  | nint n => simp only [encode]; rw [decode_head _ _ _ _ (by omega) hv]; simp
  | bytes b =>
    simp only [encode, List.append_assoc]
    rw [decode_head _ _ _ _ (by omega) hv]
    simp
  | text s =>
    simp only [encode, List.append_assoc]
    rw [decode_head _ _ _ _ (by omega) hv]
    simp [fromUtf8_utf8]
  | array xs =>
    simp only [encode, List.append_assoc]
    rw [decode_head _ _ _ _ (by omega) hv.1]
    have hh := head_length_pos 4 xs.length
    simp only [encode, List.length_append] at hf
    rw [decodeN_encodeList xs hv.2 f rest (by omega)]
    simp
  | map kvs =>
    simp only [encode, List.append_assoc]
    rw [decode_head _ _ _ _ (by omega) hv.1]
    have hh := head_length_pos 5 kvs.length
    simp only [encode, List.length_append] at hf
    rw [decodePairsN_encodePairs kvs hv.2 f rest (by omega)]
    simp
  | null => simp [encode, decode]

theorem decodeN_encodeList (xs : List CVal) (hv : EncodableList xs) (fuel : Nat) (rest : List Nat)
    (hf : 2 * (encodeList xs).length + 1 ≤ fuel) :
    decodeN fuel xs.length (encodeList xs ++ rest) = some (xs, rest) := by
  obtain ⟨f, rfl⟩ : ∃ f, fuel = f + 1 := ⟨fuel - 1, by omega⟩
  cases xs with
  | nil => simp [encodeList, decodeN]
  | cons x xs =>
    have hx := encode_length_pos x
    simp only [encodeList, List.length_append] at hf
    simp only [encodeList, List.length_cons, List.append_assoc, decodeN]
    rw [decode_encode x hv.1 f _ (by omega)]
    simp only
    rw [decodeN_encodeList xs hv.2 f rest (by omega)]
    simp

theorem decodePairsN_encodePairs (kvs : List (CVal × CVal)) (hv : EncodablePairs kvs) (fuel : Nat)
    (rest : List Nat) (hf : 2 * (encodePairs kvs).length + 1 ≤ fuel) :
    decodePairsN fuel kvs.length (encodePairs kvs ++ rest) = some (kvs, rest) := by
  obtain ⟨f, rfl⟩ : ∃ f, fuel = f + 1 := ⟨fuel - 1, by omega⟩
  cases kvs with
  | nil => simp [encodePairs, decodePairsN]
  | cons e kvs =>
    obtain ⟨k, v⟩ := e
    have hk := encode_length_pos k
    have hv' := encode_length_pos v
    simp only [encodePairs, List.length_append] at hf
    simp only [encodePairs, List.length_cons, List.append_assoc, decodePairsN]
    rw [decode_encode k hv.1 f _ (by omega)]
    simp only
    rw [decode_encode v hv.2.1 f _ (by omega)]
    simp only
    rw [decodePairsN_encodePairs kvs hv.2.2 f rest (by omega)]
    simp
end

/-- **Byte-level round trip.** -/
theorem decodeAll_encode (v : CVal) (hv : Encodable v) : decodeAll (encode v) = some v := by
  unfold decodeAll
  have := decode_encode v hv (2 * (encode v).length + 2) [] (by omega)
  rw [List.append_nil] at this
  rw [this]

end Anything.Cbor
