import Anything.Lemmas.UQShift
import Anything.Lemmas.QQFrames
/-!
# The unified expression language — the operator stack against the forest

`Lemmas/QQFrames.lean` over `RepU`, with one more fact carried along (as `Lemmas/FQFrames.lean`):
the first operand of every segment is not itself an operator application of the segment's
priority, so that the tree determines the evaluation order.
-/

namespace Anything.UQ
open Anything Anything.Parser Anything.Grammar Anything.PTotal Anything.Spec.Arith
open Anything.Spec.Quantity Anything.C06 Anything.QQ

/-- The tree represents the operand. -/
def RepOpdU (x : Tree) : QOpd → Prop
  | .ex e => RepU x e
  | .un u => RepUnit x u ∧ x.hasChildren = true

/-- An operand chain of level `p` without a pending operator. -/
def OpenSegU (p : Nat) (Y : List Tree) (v : QExpr) : Prop :=
  ∃ y ys e₀, opKids Y = y :: ys ∧ RepU y e₀ ∧ qprio e₀ ≠ p ∧ FoldRQL RepU p e₀ ys v

/-- An operand chain of the level of `o` followed by the node of the pending operator `o`. -/
def SegOKU (S : List Tree) (acc : QExpr) (o : QOp) : Prop :=
  ∃ y ys e₀ on, opKids S = y :: (ys ++ [on]) ∧ RepU y e₀ ∧ qprio e₀ ≠ o.prio ∧
    FoldRQL RepU o.prio e₀ ys acc ∧ on.kind = qopKind o

theorem hasChildren_of_repU {x : Tree} {e : QExpr} (h : RepU x e) : x.hasChildren = true := by
  cases h with
  | num _ hc _ => exact hc
  | qty _ _ _ _ => rfl
  | fact _ hc _ => exact hc
  | paren hk _ => exact node_hasChildren hk
  | chain hk _ _ _ _ => exact node_hasChildren hk

theorem hasChildren_of_repOpdU {x : Tree} {b : QOpd} (h : RepOpdU x b) : x.hasChildren = true := by
  cases b with
  | ex e => exact hasChildren_of_repU h
  | un u => exact h.2

theorem openSegU_single {W : List Tree} {x : Tree} {e : QExpr} (p : Nat) (hW : WSTrees W)
    (hx : RepU x e) (hp : qprio e ≠ p) : OpenSegU p (W ++ [x]) e :=
  ⟨x, [], e, by rw [opKids_append, opKids_ws hW, opKids_single (hasChildren_of_repU hx)]; rfl,
    hx, hp, .nil _ _⟩

theorem segOKU_ws {S W : List Tree} {acc : QExpr} {o : QOp} (h : SegOKU S acc o) (hW : WSTrees W) :
    SegOKU (S ++ W) acc o := by
  obtain ⟨y, ys, e₀, on, hk, hy, hp, hf, ho⟩ := h
  exact ⟨y, ys, e₀, on, by rw [opKids_append, opKids_ws hW, hk]; simp, hy, hp, hf, ho⟩

/-- Equal priority: the frame absorbs the operand. -/
theorem segOKU_extend {S : List Tree} {x : Tree} {acc : QExpr} {b : QOpd} {o : QOp}
    (h : SegOKU S acc o) (hx : RepOpdU x b) (hm : Match o b) :
    OpenSegU o.prio (S ++ [x]) (mk o acc b) := by
  obtain ⟨y, ys, e₀, on, hk, hy, hp, hf, ho⟩ := h
  have hkids : opKids (S ++ [x]) = y :: (ys ++ [on, x]) := by
    rw [opKids_append, hk, opKids_single (hasChildren_of_repOpdU hx)]
    simp
  cases o with
  | bin op =>
    cases b with
    | ex e => exact ⟨y, ys ++ [on, x], e₀, hkids, hy, hp, foldRQL_snoc hf ho rfl hx⟩
    | un u => exact absurd hm (by simp [Match])
  | cast =>
    cases b with
    | ex e => exact absurd hm (by simp [Match])
    | un u => exact ⟨y, ys ++ [on, x], e₀, hkids, hy, hp, foldRQL_snoc_cast hf ho rfl hx.1⟩

/-- Higher priority on the stack: the frame is closed into one OPERATION node, all of whose
operators have the priority of the frame. -/
theorem segOKU_close {S : List Tree} {x : Tree} {acc : QExpr} {b : QOpd} {o : QOp} (id : Nat)
    (h : SegOKU S acc o) (hx : RepOpdU x b) (hm : Match o b) :
    RepU (.node id .OPERATION (S ++ [x])) (mk o acc b) := by
  obtain ⟨y, ys, e₀, hk, hy, hp, hf⟩ := segOKU_extend h hx hm
  refine .chain hk ?_ hy hp hf
  intro hnil
  subst hnil
  obtain ⟨y', ys', e₀', on, hk', _, _, _, _⟩ := h
  rw [opKids_append, hk', opKids_single (hasChildren_of_repOpdU hx)] at hk
  simp at hk

/-- The operator node is appended: an open segment becomes a frame segment. -/
theorem openSegU_op {Y W : List Tree} {on : Tree} {v : QExpr} {o : QOp} (h : OpenSegU o.prio Y v)
    (hW : WSTrees W) (hon : on.kind = qopKind o) (hc : on.hasChildren = true) :
    SegOKU (Y ++ W ++ [on]) v o := by
  obtain ⟨y, ys, e₀, hk, hy, hp, hf⟩ := h
  exact ⟨y, ys, e₀, on, by
    rw [opKids_append, opKids_append, opKids_ws hW, hk, opKids_single hc]; simp, hy, hp, hf, hon⟩

/-! ### The stack -/

inductive StackOKU (b : Builder) (n : Nat) :
    List Tree → List (Nat × Nat × Bool) → StackQ → Prop
  | nil : StackOKU b n [] [] []
  | cons {G S : List Tree} {c : Nat} {acc : QExpr} {o : QOp}
      {stack : List (Nat × Nat × Bool)} {st : StackQ} :
      StackOKU b n G stack st → SegOKU S acc o → Pos b c (n + G.length) →
      StackOKU b n (G ++ S) ((c, o.prio, o.isTo) :: stack) ((acc, o) :: st)

theorem StackOKU.mono {b b' : Builder} {n : Nat} {G : List Tree}
    {stack : List (Nat × Nat × Bool)} {st : StackQ} (h : StackOKU b n G stack st)
    (he : Ext (n + G.length) b b') : StackOKU b' n G stack st := by
  induction h with
  | nil => exact .nil
  | @cons G S c acc o stack st _ hseg hpos ih =>
    have hle : n + G.length ≤ n + (G ++ S).length := by simp
    exact .cons (ih (he.mono hle)) hseg (he.pos c _ hle hpos)

theorem StackOKU.ws {b : Builder} {n : Nat} {G W : List Tree}
    {stack : List (Nat × Nat × Bool)} {st : StackQ} (h : StackOKU b n G stack st)
    (hne : st ≠ []) (hW : WSTrees W) : StackOKU b n (G ++ W) stack st := by
  cases h with
  | nil => exact absurd rfl hne
  | cons h1 hseg hpos =>
    rw [List.append_assoc]
    exact .cons h1 (segOKU_ws hseg hW) hpos

theorem StackOKU.isUnitTop {b : Builder} {n : Nat} {G : List Tree}
    {stack : List (Nat × Nat × Bool)} {st : StackQ} (h : StackOKU b n G stack st) :
    isUnitTop stack = isToTop st := by
  cases h <;> rfl

end Anything.UQ
