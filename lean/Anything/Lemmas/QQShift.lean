import Anything.Lemmas.QQDefs
import Anything.Lemmas.C06Shift
/-!
# Quantity expressions, stage B — precedence climbing with the `to` operator

The specification-level machine of `Lemmas/C06Shift.lean` for `QExpr`: operators are the binary
operators and `to` (priority 1); operands are expressions or — after `to` — written unit
expressions. No code of the model is involved here.
-/

namespace Anything.QQ
open Anything.Spec Anything.Spec.Arith Anything.Spec.Quantity Anything.C06

/-- Operators of the flat reading: a binary operator, or `to`. -/
inductive QOp
  | bin (op : BinOp)
  | cast
  deriving DecidableEq, Repr

def QOp.prio : QOp → Nat
  | .bin op => op.prio
  | .cast => 1

@[simp] theorem QOp.prio_bin (op : BinOp) : (QOp.bin op).prio = op.prio := rfl
@[simp] theorem QOp.prio_cast : QOp.cast.prio = 1 := rfl

def QOp.isTo : QOp → Bool
  | .bin _ => false
  | .cast => true

/-- Operands of the flat reading: an expression, or (after `to`) a written unit expression. -/
inductive QOpd
  | ex (e : QExpr)
  | un (u : List RTerm)

/-- The expression of an operand (junk for a unit). -/
def QOpd.get : QOpd → QExpr
  | .ex e => e
  | .un u => .cast (.fact [] 0 []) u

/-- Apply an operator (junk when the kinds do not match). -/
def mk : QOp → QExpr → QOpd → QExpr
  | .bin op, a, .ex b => .bin op a b
  | .cast, a, .un u => .cast a u
  | _, a, _ => a

/-- A frame: the left operand accumulated so far and the operator waiting for its right
operand. Head of the list = innermost frame. -/
abbrev StackQ := List (QExpr × QOp)

/-- The flat reading of an expression. -/
def flatQ : QExpr → QOpd × List (QOp × QOpd)
  | .bin op a b => ((flatQ a).1, (flatQ a).2 ++ (.bin op, (flatQ b).1) :: (flatQ b).2)
  | .cast a u => ((flatQ a).1, (flatQ a).2 ++ [(.cast, .un u)])
  | e => (.ex e, [])

/-- The operand `cur` has been read and the operator `op` comes next. -/
def reduceQ (cur : QOpd) (op : QOp) : StackQ → StackQ
  | [] => [(cur.get, op)]
  | (acc, o) :: rest =>
    if op.prio < o.prio then reduceQ (.ex (mk o acc cur)) op rest
    else if o.prio < op.prio then (cur.get, op) :: (acc, o) :: rest
    else (mk o acc cur, op) :: rest

/-- End of input: close every frame, innermost first. -/
def closeAllQ (cur : QOpd) : StackQ → QOpd
  | [] => cur
  | (acc, o) :: rest => closeAllQ (.ex (mk o acc cur)) rest

/-- Consume `(operator, operand)` pairs. -/
def runQ (st : StackQ) (cur : QOpd) : List (QOp × QOpd) → StackQ × QOpd
  | [] => (st, cur)
  | (op, x) :: rest => runQ (reduceQ cur op st) x rest

theorem runQ_append (st : StackQ) (cur : QOpd) (l1 l2 : List (QOp × QOpd)) :
    runQ st cur (l1 ++ l2) = runQ (runQ st cur l1).1 (runQ st cur l1).2 l2 := by
  induction l1 generalizing st cur with
  | nil => rfl
  | cons p l1 ih => obtain ⟨op, x⟩ := p; simp only [List.cons_append, runQ, ih]

def topPrioQ : StackQ → Nat
  | [] => 0
  | (_, o) :: _ => o.prio

theorem two_le_prio (op : BinOp) : 2 ≤ op.prio := by cases op <;> decide

theorem qop_prio_pos (op : QOp) : 0 < op.prio := by
  cases op with
  | bin b => have := two_le_prio b; simp only [QOp.prio_bin]; omega
  | cast => decide

theorem qprio_pos (e : QExpr) : 0 < qprio e := by
  cases e <;> simp only [qprio] <;> first | omega | (have := two_le_prio ‹_›; omega)

/-- Two machine states that no later operator of priority `≤ p`, nor the end of the input,
can tell apart. -/
def EquivQ (p : Nat) (s1 s2 : StackQ × QOpd) : Prop :=
  (∀ op : QOp, op.prio ≤ p → reduceQ s1.2 op s1.1 = reduceQ s2.2 op s2.1) ∧
  closeAllQ s1.2 s1.1 = closeAllQ s2.2 s2.1

theorem reduceQ_push (cur : QOpd) (op : QOp) (st : StackQ) (h : topPrioQ st < op.prio) :
    reduceQ cur op st = (cur.get, op) :: st := by
  cases st with
  | nil => rfl
  | cons f rest =>
    obtain ⟨acc, o⟩ := f
    simp only [topPrioQ] at h
    have : ¬ op.prio < o.prio := by omega
    simp [reduceQ, this, h]

theorem topPrioQ_lt_one {st : StackQ} (h : topPrioQ st < 1) : st = [] := by
  cases st with
  | nil => rfl
  | cons f rest =>
    obtain ⟨acc, o⟩ := f
    have := qop_prio_pos o
    simp only [topPrioQ] at h
    omega

/-- **Key lemma.** Reading the flat form of a well-formed expression `e` on top of a stack whose
innermost frame binds less tightly than `e` leaves the machine in a state equivalent to
having read `e` as a single operand. -/
theorem run_flatQ : ∀ (e : QExpr), WFQ e → ∀ st : StackQ, topPrioQ st < qprio e →
    EquivQ (qprio e) (runQ st (flatQ e).1 (flatQ e).2) (st, .ex e)
  | .num l, _, st, _ => ⟨fun _ _ => rfl, rfl⟩
  | .qty l u, _, st, _ => ⟨fun _ _ => rfl, rfl⟩
  | .paren e, _, st, _ => ⟨fun _ _ => rfl, rfl⟩
  | .fact _ _ _, hwf, _, _ => absurd hwf (by simp [WFQ])
  | .cast a u, hwf, st, hst => by
    simp only [WFQ] at hwf
    simp only [qprio] at hst ⊢
    have hnil := topPrioQ_lt_one hst
    subst hnil
    have ea := run_flatQ a hwf [] (by simpa [topPrioQ] using qprio_pos a)
    simp only [flatQ, runQ_append, runQ]
    rw [ea.1 .cast (by have := qprio_pos a; simp only [QOp.prio_cast]; omega)]
    refine ⟨fun op hop => ?_, ?_⟩
    · have h1 : ¬ op.prio < 1 := by have := qop_prio_pos op; omega
      have h2 : ¬ 1 < op.prio := by omega
      simp only [reduceQ, QOp.prio_cast, h1, h2, ↓reduceIte, mk, QOpd.get]
    · simp only [reduceQ, closeAllQ, mk, QOpd.get]
  | .bin o a b, hwf, st, hst => by
    simp only [WFQ] at hwf
    obtain ⟨wa, wb, hpa, hpb⟩ := hwf
    simp only [qprio] at hst ⊢
    have ea := run_flatQ a wa st (by omega)
    simp only [flatQ, runQ_append, runQ]
    rw [ea.1 (.bin o) hpa, reduceQ_push (.ex a) (.bin o) st hst]
    have eb := run_flatQ b wb ((a, .bin o) :: st) (by simpa only [topPrioQ, QOp.prio_bin] using hpb)
    simp only [QOpd.get] at eb ⊢
    refine ⟨fun op hop => ?_, ?_⟩
    · rw [eb.1 op (by omega)]
      simp only [reduceQ, QOp.prio_bin]
      by_cases hlt : op.prio < o.prio
      · simp only [hlt, ↓reduceIte, mk]
      · have heq : ¬ o.prio < op.prio := by omega
        simp only [hlt, heq, ↓reduceIte, mk]
        rw [reduceQ_push _ op st (by omega)]
        rfl
    · rw [eb.2]; rfl

/-- **Precedence-climbing correctness.** -/
theorem closeAll_run_flatQ (e : QExpr) (hwf : WFQ e) :
    closeAllQ (runQ [] (flatQ e).1 (flatQ e).2).2 (runQ [] (flatQ e).1 (flatQ e).2).1 = .ex e := by
  have := (run_flatQ e hwf [] (by simpa [topPrioQ] using qprio_pos e)).2
  simpa [closeAllQ] using this

/-! ### Typing of the machine states -/

/-- No `to` frame. -/
def NoTo (st : StackQ) : Prop := ∀ f ∈ st, f.2 ≠ QOp.cast

/-- The current operand is a unit exactly when the stack is ONE `to` frame; otherwise the stack
has no `to` frame at all. -/
def WTq (st : StackQ) : QOpd → Prop
  | .ex _ => NoTo st
  | .un _ => ∃ acc, st = [(acc, .cast)]

/-- Operator and right operand fit. -/
def Match : QOp → QOpd → Prop
  | .bin _, .ex _ => True
  | .cast, .un _ => True
  | _, _ => False

theorem noTo_nil : NoTo [] := fun _ h => nomatch h

theorem NoTo.tail {f : QExpr × QOp} {st : StackQ} (h : NoTo (f :: st)) : NoTo st :=
  fun g hg => h g (by simp [hg])

theorem NoTo.cons {acc : QExpr} {b : BinOp} {st : StackQ} (h : NoTo st) :
    NoTo ((acc, .bin b) :: st) := by
  intro g hg
  rcases List.mem_cons.mp hg with rfl | hg
  · simp
  · exact h g hg

theorem wt_match {acc : QExpr} {o : QOp} {st : StackQ} {cur : QOpd} (h : WTq ((acc, o) :: st) cur) :
    Match o cur := by
  cases cur with
  | ex e =>
    have := h (acc, o) (by simp)
    cases o with
    | bin b => trivial
    | cast => exact absurd rfl this
  | un u =>
    obtain ⟨acc', h⟩ := h
    simp only [List.cons.injEq, Prod.mk.injEq] at h
    obtain ⟨⟨_, rfl⟩, _⟩ := h
    trivial

theorem wt_close {acc : QExpr} {o : QOp} {st : StackQ} {cur : QOpd} (h : WTq ((acc, o) :: st) cur) :
    WTq st (.ex (mk o acc cur)) := by
  cases cur with
  | ex e => exact NoTo.tail h
  | un u =>
    obtain ⟨acc', h⟩ := h
    simp only [List.cons.injEq, Prod.mk.injEq] at h
    obtain ⟨_, rfl⟩ := h
    exact noTo_nil

theorem noTo_reduce (b : BinOp) : ∀ (st : StackQ) (cur : QOpd), NoTo st →
    NoTo (reduceQ cur (.bin b) st)
  | [], cur, _ => by
    intro g hg
    simp only [reduceQ, List.mem_singleton] at hg
    subst hg; simp
  | (acc, o) :: rest, cur, h => by
    simp only [reduceQ]
    split
    · exact noTo_reduce b rest _ h.tail
    · split
      · exact NoTo.cons h
      · exact NoTo.cons h.tail

/-- `to` closes every frame. -/
theorem reduceQ_to : ∀ (st : StackQ) (cur : QOpd), WTq st cur → ∃ v, reduceQ cur .cast st = [(v, .cast)]
  | [], cur, _ => ⟨_, rfl⟩
  | (acc, o) :: rest, cur, h => by
    have hm := wt_match h
    cases o with
    | bin b =>
      have : (QOp.cast).prio < (QOp.bin b).prio := by
        have := two_le_prio b; simp only [QOp.prio_bin, QOp.prio_cast]; omega
      simp only [reduceQ, this, ↓reduceIte]
      exact reduceQ_to rest _ (wt_close h)
    | cast =>
      cases cur with
      | ex e => exact absurd hm (by simp [Match])
      | un u =>
        obtain ⟨acc', h⟩ := h
        simp only [List.cons.injEq, Prod.mk.injEq] at h
        obtain ⟨_, rfl⟩ := h
        exact ⟨mk .cast acc (.un u), by simp [reduceQ]⟩

/-- Reading a well-formed expression on a stack without `to` frame leaves a well-typed state;
unless the expression is a cast, the last operand read is an expression. -/
theorem wt_run : ∀ (e : QExpr), WFQ e → ∀ st : StackQ, NoTo st →
    WTq (runQ st (flatQ e).1 (flatQ e).2).1 (runQ st (flatQ e).1 (flatQ e).2).2 ∧
    (2 ≤ qprio e → ∃ x, (runQ st (flatQ e).1 (flatQ e).2).2 = .ex x)
  | .num l, _, st, h => ⟨h, fun _ => ⟨_, rfl⟩⟩
  | .qty l u, _, st, h => ⟨h, fun _ => ⟨_, rfl⟩⟩
  | .paren e, _, st, h => ⟨h, fun _ => ⟨_, rfl⟩⟩
  | .fact _ _ _, hwf, _, _ => absurd hwf (by simp [WFQ])
  | .cast a u, hwf, st, h => by
    simp only [WFQ] at hwf
    obtain ⟨wa, _⟩ := wt_run a hwf st h
    obtain ⟨v, hv⟩ := reduceQ_to _ _ wa
    simp only [flatQ, runQ_append, runQ, hv, qprio]
    exact ⟨⟨v, rfl⟩, fun h => by omega⟩
  | .bin o a b, hwf, st, h => by
    simp only [WFQ] at hwf
    obtain ⟨wfa, wfb, hpa, hpb⟩ := hwf
    have h2 := two_le_prio o
    obtain ⟨wa, xa⟩ := wt_run a wfa st h
    obtain ⟨x, hx⟩ := xa (by omega)
    rw [hx] at wa
    have hn : NoTo (reduceQ (.ex x) (.bin o) (runQ st (flatQ a).1 (flatQ a).2).1) :=
      noTo_reduce o _ _ wa
    obtain ⟨wb, xb⟩ := wt_run b wfb _ hn
    simp only [flatQ, runQ_append, runQ, hx]
    exact ⟨wb, fun _ => xb (by omega)⟩

end Anything.QQ
