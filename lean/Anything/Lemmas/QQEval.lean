import Anything.Lemmas.QQDefs
import Anything.Lemmas.C06Eval
import Anything.Props.C13
import Anything.Props.C11

namespace Anything.QQ
open Anything Anything.Eval Anything.Spec Anything.Spec.Arith Anything.Spec.Decimal
open Anything.Spec.Quantity Anything.Spec.SI Anything.C06 Anything.Props.C04

/-- `qadd` for `+`, `qsub` otherwise. -/
def addF (op : BinOp) : Q → Q → Except QErr Q := if op = .add then qadd else qsub

/-- One binary step of `denote false`. -/
def binVal (op : BinOp) (x y : Val) : Except QErr Val :=
  match op with
  | .add | .sub =>
    let f := addF op
    if x.plain && !y.plain then
      match y.unit with
      | some sem => if false || proportional sem then
          (f ⟨x.q.si * scale sem, y.q.dim⟩ y.q).map (fun q => { q := q, plain := false, unit := y.unit })
        else .error .offsetScale
      | none => .error .other
    else if !x.plain && y.plain then
      match x.unit with
      | some sem => if false || proportional sem then
          (f x.q ⟨y.q.si * scale sem, x.q.dim⟩).map (fun q => { q := q, plain := false, unit := x.unit })
        else .error .offsetScale
      | none => .error .other
    else (f x.q y.q).map (fun q => { q := q, plain := x.plain && y.plain, unit := if x.plain && y.plain then some [] else none })
  | .mul => .ok { q := qmul x.q y.q, plain := x.plain && y.plain, unit := none }
  | .div => (qdiv x.q y.q).map (fun q => { q := q, plain := x.plain && y.plain, unit := none })
  | .pow =>
    if !y.plain then .error .power
    else if !Arith.isInt y.q.si then .error .power
    else (qpow x.q y.q.si.num).map (fun q => { q := q, plain := x.plain, unit := none })

theorem denote_bin (op : BinOp) (a b : QExpr) :
    denote false (.bin op a b) =
      match denote false a, denote false b with
      | .ok x, .ok y => binVal op x y
      | .error e, _ => .error e
      | _, .error e => .error e := by
  rw [Quantity.denote]
  rfl

/-- The cast step of `denote false`. -/
def castVal (v : Val) (sem : UnitSem) : Except QErr Val :=
  if v.plain then .ok { q := ⟨v.q.si * scale sem, dims sem⟩, plain := false, unit := some sem }
  else match inUnit false v.q sem with
    | .ok _ => .ok { q := v.q, plain := false, unit := some sem }
    | .error e => .error e

theorem denote_cast (e : QExpr) (u : List RTerm) :
    denote false (.cast e u) =
      match denote false e, resolveAll u with
      | .ok v, some sem => castVal v sem
      | .error e, _ => .error e
      | _, none => .error .other := by
  rw [Quantity.denote]
  rfl

theorem denote_paren (e : QExpr) : denote false (.paren e) = denote false e := by rw [Quantity.denote]

theorem denote_num (l : Literal) :
    denote false (.num l) = .ok { q := ⟨Decimal.value l, DimVec.zero⟩, plain := true, unit := some [] } := by
  rw [Quantity.denote]

theorem denote_qty (l : Literal) (u : List RTerm) :
    denote false (.qty l u) = match resolveAll u with
      | none => .error .other
      | some sem => match qtyOf false (Decimal.value l) sem with
        | .ok q => .ok { q := q, plain := false, unit := some sem }
        | .error e => .error e := by
  rw [Quantity.denote]; rfl

/-! ### Readings of the empty unit -/

theorem siQ_nil (v : Rat) : siQ { value := v, unit := [] } = ⟨v, DimVec.zero⟩ := by
  simp [siQ, semOf, SI.scale, SI.dims]

theorem dims_semOf_nil : SI.dims (semOf []) = DimVec.zero := rfl
theorem scale_semOf_nil : SI.scale (semOf []) = 1 := rfl

theorem unit_ne_nil {r : Numeric} {q : Q} (h : siQ r = q) (hd : q.dim ≠ DimVec.zero) :
    r.unit ≠ [] := by
  intro hu
  apply hd
  rw [← h]
  simp [siQ, hu, dims_semOf_nil]

theorem numeric_eta (r : Numeric) : r = { value := r.value, unit := r.unit } := rfl

theorem Agree.plain_eq {r : Numeric} {v : Val} (h : Agree r v) (hp : v.plain = true) :
    r = { value := v.q.si, unit := [] } ∧ v.q.dim = DimVec.zero := by
  have hu := h.plain hp
  have hs := h.si
  obtain ⟨val, un⟩ := r
  simp only at hu
  subst hu
  rw [siQ_nil] at hs
  rw [← hs]
  exact ⟨rfl, rfl⟩

/-! ### `+` and `-` -/

theorem addF_eq (op : BinOp) (hop : op = .add ∨ op = .sub) (a b : Q) :
    addF op a b = if a.dim = b.dim then
        .ok ⟨if op = .sub then a.si - b.si else a.si + b.si, a.dim⟩ else .error .dims := by
  rcases hop with rfl | rfl <;> simp [addF, qadd, qsub]

theorem binVal_addsub (op : BinOp) (hop : op = .add ∨ op = .sub) (x y : Val) :
    binVal op x y =
      if x.plain && !y.plain then
        match y.unit with
        | some sem => if false || proportional sem then
            (addF op ⟨x.q.si * scale sem, y.q.dim⟩ y.q).map
              (fun q => { q := q, plain := false, unit := y.unit })
          else .error .offsetScale
        | none => .error .other
      else if !x.plain && y.plain then
        match x.unit with
        | some sem => if false || proportional sem then
            (addF op x.q ⟨y.q.si * scale sem, x.q.dim⟩).map
              (fun q => { q := q, plain := false, unit := x.unit })
          else .error .offsetScale
        | none => .error .other
      else (addF op x.q y.q).map
        (fun q => { q := q, plain := x.plain && y.plain, unit := if x.plain && y.plain then some [] else none }) := by
  rcases hop with rfl | rfl <;> rfl

theorem sameUnit_nil : SameUnit [] [] := ⟨rfl, rfl⟩

theorem proportional_nil : proportional [] = true := rfl

theorem add_step (s e : Nat) (op : BinOp) (hop : op = .add ∨ op = .sub) (ra rb : Numeric)
    (x y : Val) (d : List Desc) (ha : Agree ra x) (hb : Agree rb y) (hok : AddOK x y) :
    match binVal op x y with
    | .ok v => ∃ r, Eval.add s e ra rb (decide (op = .sub)) d = (.ok r, d) ∧ Agree r v
    | .error _ => ∃ k, Eval.add s e ra rb (decide (op = .sub)) d = (.error (.err k s e), d) := by
  rw [binVal_addsub op hop]
  rcases hok with ⟨hx, hy⟩ | ⟨hx, hy, hyu⟩ | ⟨hx, hy, hxu⟩ | ⟨hx, hy, hdx, hdy⟩
  · -- two plain numbers
    obtain ⟨rfl, hdx⟩ := ha.plain_eq hx
    obtain ⟨rfl, hdy⟩ := hb.plain_eq hy
    simp only [hx, hy, Bool.not_true, Bool.and_false, Bool.false_eq_true, ↓reduceIte, Bool.and_self,
      Bool.false_and, addF_eq op hop, hdx, hdy, Except.map]
    refine ⟨_, Props.C02.C02_plain_left s e _ _ _ d, ?_⟩
    refine ⟨?_, fun _ => rfl, ?_, fun _ h => (nomatch h), fun _ h => (nomatch h)⟩
    · rw [siQ_nil]
      by_cases h : op = .sub <;> simp [h]
    · intro sem hsem
      cases hsem
      exact ⟨sameUnit_nil, rfl⟩
  · -- a plain number adopts the unit of the quantity on the right
    obtain ⟨rfl, hdx⟩ := ha.plain_eq hx
    obtain ⟨sem, hsem⟩ := Option.isSome_iff_exists.mp hyu
    obtain ⟨⟨hd, hsc⟩, hprop⟩ := hb.unit sem hsem
    have hyq := hb.si
    simp only [hx, hy, Bool.not_false, Bool.and_self, ↓reduceIte, hsem, hprop, Bool.or_true,
      addF_eq op hop, Except.map]
    refine ⟨_, Props.C02.C02_plain_left s e _ _ _ d, ?_⟩
    refine ⟨?_, fun h => (nomatch h), ?_, hb.prop, hb.known⟩
    · rw [← hyq]
      simp only [siQ, hsc]
      by_cases h : op = .sub <;> simp [h] <;> ring
    · intro sem' hsem'
      exact hb.unit sem' (hsem.trans hsem')
  · -- a plain number adopts the unit of the quantity on the left
    obtain ⟨rfl, hdy⟩ := hb.plain_eq hy
    obtain ⟨sem, hsem⟩ := Option.isSome_iff_exists.mp hxu
    obtain ⟨⟨hd, hsc⟩, hprop⟩ := ha.unit sem hsem
    have hxq := ha.si
    simp only [hx, hy, Bool.not_true, Bool.false_eq_true, ↓reduceIte,
      Bool.not_false, Bool.and_self, hsem, hprop, Bool.or_true, addF_eq op hop, Except.map]
    refine ⟨_, Props.C02.C02_plain_right s e _ _ _ d, ?_⟩
    refine ⟨?_, fun h => (nomatch h), ?_, ha.prop, ha.known⟩
    · rw [← hxq]
      simp only [siQ, hsc]
      by_cases h : op = .sub <;> simp [h] <;> ring
    · intro sem' hsem'
      exact ha.unit sem' (hsem.trans hsem')
  · -- two quantities with a dimension
    have hua := unit_ne_nil ha.si hdx
    have hub := unit_ne_nil hb.si hdy
    simp only [hx, hy, Bool.not_false, Bool.and_true, Bool.false_eq_true, ↓reduceIte,
      Bool.and_false, Bool.and_self, addF_eq op hop, ← ha.si, ← hb.si]
    by_cases hc : Props.C02.Commensurable ra.unit rb.unit
    · obtain ⟨v, hv⟩ := Props.C02.C02_add_ok s e ra rb (decide (op = .sub)) d hua hub ha.prop hb.prop hc
      have href := Props.C13.add_refines s e ra rb (decide (op = .sub)) d d _ (Or.inl ⟨hua, hub⟩)
        ha.prop hb.prop hv
      have hc' : (siQ ra).dim = (siQ rb).dim := hc
      simp only [hc', ↓reduceIte, Except.map]
      refine ⟨_, hv, ?_, fun h => (nomatch h), fun _ h => (nomatch h), ha.prop, ha.known⟩
      obtain ⟨h1, _⟩ := href
      by_cases h : op = .sub
      · simp only [h, decide_true, ↓reduceIte, qsub, hc'] at h1 ⊢
        simp only [Except.ok.injEq] at h1
        exact h1.symm
      · simp only [h, decide_false, Bool.false_eq_true, ↓reduceIte, qadd, hc'] at h1 ⊢
        simp only [Except.ok.injEq] at h1
        exact h1.symm
    · have hc' : ¬ (siQ ra).dim = (siQ rb).dim := hc
      simp only [hc', ↓reduceIte, Except.map]
      exact ⟨_, Props.C02.C02_add_error s e ra rb _ d hua hub ha.prop hb.prop hc⟩

/-! ### `*` and `/` -/

theorem mulDiv_ok_inv {cfg : Cfg} {s e : Nat} {a b : Numeric} {div : Bool} {d d' : List Desc}
    {r : Numeric} (h : mulDiv cfg s e a b div d = (.ok r, d')) :
    ∃ res, Compound.mul cfg.debug a.unit b.unit (if div then -1 else 1) a.value b.value = .ok res ∧
      r.unit = res.1 := by
  unfold mulDiv at h
  cases hm : Compound.mul cfg.debug a.unit b.unit (if div then -1 else 1) a.value b.value with
  | error c => rw [hm] at h; cases c <;> simp [err, EvalM.throw] at h
  | ok res =>
    obtain ⟨unit, av, bv⟩ := res
    rw [hm] at h
    refine ⟨_, rfl, ?_⟩
    simp only at h
    split at h
    · split at h
      · simp [err, EvalM.throw] at h
      · simp only [pure, Prod.mk.injEq, Except.ok.injEq] at h
        rw [← h.1]
    · simp only [pure, Prod.mk.injEq, Except.ok.injEq] at h
      rw [← h.1]

theorem mulDiv_no_assert (cfg : Cfg) (s e : Nat) (a b : Numeric) (div : Bool) (d : List Desc)
    (ka : AllKnown a.unit) (kb : AllKnown b.unit) :
    ¬ DebugAssert cfg (mulDiv cfg s e a b div d) d := by
  rintro ⟨_, h⟩
  have hn : (if div then (-1 : Int) else 1) ≠ 0 := by cases div <;> simp
  have := Props.C11.C11_mul_no_assert cfg.debug a.unit b.unit _ a.value b.value hn ka kb
  unfold mulDiv at h
  cases hm : Compound.mul cfg.debug a.unit b.unit (if div then -1 else 1) a.value b.value with
  | error c =>
    cases c with
    | conversion => rw [hm] at h; simp [err, EvalM.throw] at h
    | zeroPower => exact this hm
  | ok res =>
    obtain ⟨unit, av, bv⟩ := res
    rw [hm] at h
    simp only at h
    split at h
    · split at h
      · simp [err, EvalM.throw] at h
      · simp [pure] at h
    · simp [pure] at h

theorem mulDiv_agree {cfg : Cfg} {s e : Nat} {ra rb : Numeric} {div : Bool} {d d' : List Desc}
    {r : Numeric} {x y : Val} {q : Q} (ha : Agree ra x) (hb : Agree rb y)
    (h : mulDiv cfg s e ra rb div d = (.ok r, d')) (hq : siQ r = q) :
    Agree r { q := q, plain := x.plain && y.plain, unit := none } := by
  obtain ⟨res, hm, hu⟩ := mulDiv_ok_inv h
  refine ⟨hq, ?_, fun _ h => (nomatch h), ?_, ?_⟩
  · intro hp
    simp only [Bool.and_eq_true] at hp
    have h1 := ha.plain hp.1
    have h2 := hb.plain hp.2
    rw [h1, h2] at hm
    simp only [Compound.mul, List.isEmpty_nil, Bool.or_self, ↓reduceIte, List.map_nil,
      List.filter_nil, Except.ok.injEq] at hm
    rw [hu, ← hm]
  · rw [hu]; exact mul_prop _ _ _ _ _ _ ha.prop hb.prop _ hm
  · rw [hu]; exact allKnown_mul _ _ _ _ _ _ ha.known hb.known _ hm

theorem mul_step (cfg : Cfg) (s e : Nat) (ra rb : Numeric) (x y : Val) (d : List Desc)
    (ha : Agree ra x) (hb : Agree rb y) :
    ∃ r, mulDiv cfg s e ra rb false d = (.ok r, d) ∧
      Agree r { q := qmul x.q y.q, plain := x.plain && y.plain, unit := none } := by
  rcases C04_mul cfg s e ra rb d ha.prop hb.prop with ⟨r, hr, hq⟩ | hass
  · exact ⟨r, hr, mulDiv_agree ha hb hr (by rw [hq, ha.si, hb.si])⟩
  · exact absurd hass (mulDiv_no_assert cfg s e ra rb false d ha.known hb.known)

theorem scale_semOf_ne_zero (c : Compound) : SI.scale (semOf c) ≠ 0 := by
  rw [scale_semOf]; exact scale_ne_zero c

theorem div_step (cfg : Cfg) (s e : Nat) (ra rb : Numeric) (x y : Val) (d : List Desc)
    (ha : Agree ra x) (hb : Agree rb y) :
    match qdiv x.q y.q with
    | .ok q => ∃ r, mulDiv cfg s e ra rb true d = (.ok r, d) ∧
        Agree r { q := q, plain := x.plain && y.plain, unit := none }
    | .error _ => ∃ k, mulDiv cfg s e ra rb true d = (.error (.err k s e), d) := by
  by_cases hz : rb.value = 0
  · have hy0 : y.q.si = 0 := by rw [← hb.si]; simp [siQ, hz]
    simp only [qdiv, hy0, ↓reduceIte]
    rcases C04_div_zero cfg s e ra rb d ha.prop hb.prop hz with hr | hass
    · exact ⟨_, hr⟩
    · exact absurd hass (mulDiv_no_assert cfg s e ra rb true d ha.known hb.known)
  · rcases C04_div cfg s e ra rb d ha.prop hb.prop hz with ⟨r, hr, hq⟩ | hass
    · rw [ha.si, hb.si] at hq
      rw [hq]
      exact ⟨r, hr, mulDiv_agree ha hb hr rfl⟩
    · exact absurd hass (mulDiv_no_assert cfg s e ra rb true d ha.known hb.known)

/-! ### `^` -/

theorem smul_zero_dim (n : Int) : DimVec.smul n DimVec.zero = DimVec.zero := by
  simp [DimVec.smul, DimVec.zero]

theorem pow_ok_unit {s e : Nat} {a b : Numeric} {d d' : List Desc} {r : Numeric}
    (h : Eval.pow s e a b d = (.ok r, d')) :
    r.unit = if a.unit.isEmpty then a.unit else Compound.checkedPow a.unit b.value.num := by
  unfold Eval.pow at h
  by_cases h1 : (!b.unit.isEmpty) = true
  · rw [if_pos h1] at h; simp [err, EvalM.throw] at h
  rw [if_neg h1] at h
  by_cases h2 : b.value.den ≠ 1
  · rw [if_pos h2] at h; simp [err, EvalM.throw] at h
  rw [if_neg h2] at h
  simp only at h
  by_cases h3 : (!a.unit.isEmpty && (decide (b.value.num < -2147483648) ||
      decide (b.value.num > 2147483647) || !Compound.powFits a.unit b.value.num)) = true
  · rw [if_pos h3] at h; simp [err, EvalM.throw] at h
  rw [if_neg h3] at h
  by_cases h4 : b.value.num = 0
  · rw [if_pos h4] at h
    simp only [pure, Prod.mk.injEq, Except.ok.injEq] at h
    rw [← h.1]
  rw [if_neg h4] at h
  by_cases h5 : a.value = 0
  · rw [if_pos h5] at h
    by_cases h6 : b.value.num < 0
    · rw [if_pos h6] at h; simp [err, EvalM.throw] at h
    · rw [if_neg h6] at h
      simp only [pure, Prod.mk.injEq, Except.ok.injEq] at h
      rw [← h.1]
  · rw [if_neg h5] at h
    simp only [pure, Prod.mk.injEq, Except.ok.injEq] at h
    rw [← h.1]

theorem prop_checkedPow {c : Compound} (h : Proportional c) (n : Int) :
    Proportional (Compound.checkedPow c n) := by
  intro e he
  simp only [Compound.checkedPow, List.mem_filter, List.mem_map] at he
  obtain ⟨⟨x, hx, rfl⟩, _⟩ := he
  exact h x hx

theorem pow_step (cfg : Cfg) (s e : Nat) (ra rb : Numeric) (x y : Val) (d : List Desc)
    (ha : Agree ra x) (hb : Agree rb y) (hy : y.plain = true) :
    match binVal .pow x y with
    | .ok v => (∃ r, Eval.pow s e ra rb d = (.ok r, d) ∧ Agree r v) ∨
        (x.plain = false ∧ (rb.value.num < -2147483648 ∨ rb.value.num > 2147483647 ∨
            Compound.powFits ra.unit rb.value.num = false) ∧
          Eval.pow s e ra rb d = (.error (.err .badArgument s e), d))
    | .error _ => ∃ k, Eval.pow s e ra rb d = (.error (.err k s e), d) := by
  obtain ⟨rfl, _⟩ := hb.plain_eq hy
  simp only [binVal, hy, Bool.not_true, Bool.false_eq_true, ↓reduceIte]
  by_cases hint : Arith.isInt y.q.si = true
  swap
  · have hden : y.q.si.den ≠ 1 := by simpa [Arith.isInt] using hint
    simp only [hint, Bool.not_false, ↓reduceIte]
    exact ⟨.illegalPowerNonInteger, by simp [Eval.pow, hden, err, EvalM.throw]⟩
  have hden : y.q.si.den = 1 := by simpa [Arith.isInt] using hint
  have hn : ((y.q.si.num : Int) : Rat) = y.q.si := Rat.coe_int_num_of_den_eq_one hden
  simp only [hint, Bool.not_true, Bool.false_eq_true, ↓reduceIte]
  by_cases hu : ra.unit = []
  · -- a plain base: C01
    obtain ⟨av, au⟩ := ra
    simp only at hu
    subst hu
    have hxq : x.q = ⟨av, DimVec.zero⟩ := by rw [← ha.si, siQ_nil]
    have hE : Eval.pow s e { value := av, unit := [] } { value := y.q.si, unit := [] } =
        Props.C01.evalBin cfg .pow s e av y.q.si := rfl
    rw [hE, hxq]
    simp only [qpow]
    by_cases hz : av = 0 ∧ y.q.si.num < 0
    · rw [if_pos hz]
      simp only [Except.map]
      have : Arith.applyBin .pow av y.q.si = .error .divByZero := by
        unfold Arith.applyBin
        simp only [hint, Bool.not_true, Bool.false_eq_true, ↓reduceIte, if_pos hz]
      obtain ⟨k, hk⟩ := Props.C01.C01_bin_err cfg .pow s e av y.q.si d _ this
      exact ⟨k, hk⟩
    · rw [if_neg hz]
      simp only [Except.map]
      have : Arith.applyBin .pow av y.q.si = .ok (Arith.zpow av y.q.si.num) := by
        unfold Arith.applyBin
        simp only [hint, Bool.not_true, Bool.false_eq_true, ↓reduceIte, if_neg hz]
      left
      refine ⟨_, Props.C01.C01_bin_ok cfg .pow s e av y.q.si _ d this, ?_⟩
      refine ⟨?_, fun _ => rfl, fun _ h => (nomatch h), fun _ h => (nomatch h),
        fun _ h => (nomatch h)⟩
      simp [Props.C01.plain, siQ_nil, smul_zero_dim]
  · -- a quantity
    have hxp : x.plain = false := by
      cases hp : x.plain
      · rfl
      · exact absurd (ha.plain hp) hu
    have hrb : ({ value := y.q.si, unit := [] } : Numeric) = { value := ((y.q.si.num : Int) : Rat), unit := [] } := by
      rw [hn]
    rw [hrb]
    by_cases hov : y.q.si.num < -2147483648 ∨ y.q.si.num > 2147483647 ∨
        Compound.powFits ra.unit y.q.si.num = false
    · have hbad := C04_pow_overflow s e ra y.q.si.num d hu hov
      cases hq : qpow x.q y.q.si.num with
      | ok q => simp only [Except.map]; exact Or.inr ⟨hxp, by simpa using hov, hbad⟩
      | error err => simp only [Except.map]; exact ⟨_, hbad⟩
    · have hr : -2147483648 ≤ y.q.si.num ∧ y.q.si.num ≤ 2147483647 := by omega
      have hfit : Compound.powFits ra.unit y.q.si.num = true := by
        cases hf : Compound.powFits ra.unit y.q.si.num
        · exact absurd (Or.inr (Or.inr hf)) hov
        · rfl
      have hpow := C04_pow s e ra y.q.si.num d hr hu hfit
      rw [ha.si] at hpow
      cases hq : qpow x.q y.q.si.num with
      | ok q =>
        rw [hq] at hpow
        obtain ⟨r, hr', hsi⟩ := hpow
        simp only [Except.map]
        left
        refine ⟨r, hr', hsi, ?_, fun _ h => (nomatch h), ?_, ?_⟩
        · intro hp; rw [hxp] at hp; cases hp
        · rw [pow_ok_unit hr']
          split
          · exact ha.prop
          · exact prop_checkedPow ha.prop _
        · rw [pow_ok_unit hr']
          split
          · exact ha.known
          · exact allKnown_checkedPow ha.known _
      | error err =>
        rw [hq] at hpow
        simp only [Except.map]
        exact ⟨_, hpow⟩

/-! ### All five operators -/

theorem bin_step (cfg : Cfg) (op : BinOp) (s e : Nat) (ra rb : Numeric) (x y : Val) (d : List Desc)
    (ha : Agree ra x) (hb : Agree rb y) (hadd : (op = .add ∨ op = .sub) → AddOK x y)
    (hpow : op = .pow → y.plain = true) :
    match binVal op x y with
    | .ok v => (∃ r, binEval cfg op s e ra rb d = (.ok r, d) ∧ Agree r v) ∨
        (op = .pow ∧ x.plain = false ∧ (rb.value.num < -2147483648 ∨ rb.value.num > 2147483647 ∨
            Compound.powFits ra.unit rb.value.num = false) ∧
          binEval cfg op s e ra rb d = (.error (.err .badArgument s e), d))
    | .error _ => ∃ k, binEval cfg op s e ra rb d = (.error (.err k s e), d) := by
  cases op with
  | add =>
    have := add_step s e .add (Or.inl rfl) ra rb x y d ha hb (hadd (Or.inl rfl))
    cases hv : binVal .add x y with
    | ok v => rw [hv] at this; exact Or.inl this
    | error err => rw [hv] at this; exact this
  | sub =>
    have := add_step s e .sub (Or.inr rfl) ra rb x y d ha hb (hadd (Or.inr rfl))
    cases hv : binVal .sub x y with
    | ok v => rw [hv] at this; exact Or.inl this
    | error err => rw [hv] at this; exact this
  | mul =>
    exact Or.inl (mul_step cfg s e ra rb x y d ha hb)
  | div =>
    have := div_step cfg s e ra rb x y d ha hb
    simp only [binVal]
    cases hq : qdiv x.q y.q with
    | ok q => rw [hq] at this; exact Or.inl this
    | error err => rw [hq] at this; exact this
  | pow =>
    have := pow_step cfg s e ra rb x y d ha hb (hpow rfl)
    cases hv : binVal .pow x y with
    | ok v =>
      rw [hv] at this
      rcases this with h | ⟨h1, h2, h3⟩
      · exact Or.inl h
      · exact Or.inr ⟨rfl, h1, h2, h3⟩
    | error err => rw [hv] at this; exact this

/-! ### `to` -/

theorem dims_ne_nil {c : Compound} (h : SI.dims (semOf c) ≠ DimVec.zero) : c ≠ [] := by
  intro hc; subst hc; exact h rfl

theorem cast_step (T : Compound) (ra : Numeric) (x : Val) (sem : UnitSem)
    (hT : SameUnit T sem) (pT : Proportional T) (kT : AllKnown T) (hps : proportional sem = true)
    (ha : Agree ra x) (hok : CastOK x sem) :
    match castVal x sem with
    | .ok v => ∃ w, Compound.factor T ra.unit ra.value = .ok (some w) ∧
        Agree { value := w, unit := T } v
    | .error _ => Compound.factor T ra.unit ra.value = .ok none := by
  obtain ⟨hTd, hTs⟩ := hT
  by_cases hx : x.plain = true
  · obtain ⟨rfl, _⟩ := ha.plain_eq hx
    simp only [castVal, hx, ↓reduceIte]
    refine ⟨x.q.si, by simp [Compound.factor], ?_, fun h => (nomatch h), ?_, pT, kT⟩
    · simp [siQ, hTd, hTs]
    · intro sem' h
      cases h
      exact ⟨⟨hTd, hTs⟩, hps⟩
  · have hx' : x.plain = false := by simpa using hx
    rcases hok with hp | ⟨hdx, hds⟩
    · exact absurd hp hx
    have hua := unit_ne_nil ha.si hdx
    have hTne : T ≠ [] := dims_ne_nil (by rw [hTd]; exact hds)
    have hxd : x.q.dim = SI.dims (semOf ra.unit) := by rw [← ha.si]; rfl
    rw [factor_prop T ra.unit hTne hua pT ha.prop]
    simp only [castVal, hx', Bool.false_eq_true, ↓reduceIte, inUnit, hps, Bool.or_true, hxd, ← hTd]
    by_cases hc : SI.dims (semOf T) = SI.dims (semOf ra.unit)
    · have hc' : ¬ SI.dims (semOf ra.unit) ≠ SI.dims (semOf T) := fun h => h hc.symm
      simp only [hc, ne_eq, not_true_eq_false, ↓reduceIte]
      refine ⟨_, rfl, ?_, fun h => (nomatch h), ?_, pT, kT⟩
      · rw [← ha.si]
        have := scale_ne_zero T
        simp only [siQ, scale_semOf, hc]
        congr 1
        field_simp
      · intro sem' h
        cases h
        exact ⟨⟨hTd, hTs⟩, hps⟩
    · have hc' : SI.dims (semOf ra.unit) ≠ SI.dims (semOf T) := fun h => hc h.symm
      simp only [hc, hc', ne_eq, not_false_eq_true, ↓reduceIte]

/-! ### Outcomes -/

/-- What the theorem needs to know about `eval::unit` (proved in `Lemmas/QQUnit.lean`). -/
structure UnitFacts : Prop where
  fwd : ∀ (x : Tree) (u : List RTerm) (sem : UnitSem) (off : Nat) (d : List Desc),
    RepUnit x u → UnitOK u → resolveAll u = some sem →
    ∃ T, Eval.unit (⟨off, x⟩ : At).kids d = (.ok T, d) ∧ SameUnit T sem ∧ Proportional T ∧
      AllKnown T ∧ ∀ en ∈ T, en.2.power.natAbs ≤ (sem.map (fun t => t.power.natAbs)).sum
  res : ∀ u, UnitOK u → ∃ sem, resolveAll u = some sem ∧ proportional sem = true

/-- An error of kind `k` is an acceptable answer for `e`: the specification has no value, or
`e` raises a quantity to a power and the error is `badArgument`. -/
def BadOK (e : QExpr) (k : ErrKind) : Prop :=
  (∃ x, denote false e = .error x) ∨ (PowRisk e ∧ k = .badArgument)

theorem outcomeQ_iff (e : QExpr) (d : List Desc) (res : Except EvalErr Numeric × List Desc) :
    OutcomeQ e d res ↔
      (∃ v r, denote false e = .ok v ∧ res = (.ok r, d) ∧ Agree r v ∧ PowBounded r e) ∨
      (∃ k s t, res = (.error (.err k s t), d) ∧ BadOK e k) := by
  unfold OutcomeQ BadOK
  cases hd : denote false e with
  | ok v =>
    constructor
    · rintro (⟨r, hr, ha⟩ | ⟨hp, s, t, hr⟩)
      · exact Or.inl ⟨v, r, rfl, hr, ha⟩
      · exact Or.inr ⟨_, s, t, hr, Or.inr ⟨hp, rfl⟩⟩
    · rintro (⟨v', r, hv, hr, ha⟩ | ⟨k, s, t, hr, hb⟩)
      · cases hv; exact Or.inl ⟨r, hr, ha⟩
      · rcases hb with ⟨x, hx⟩ | ⟨hp, rfl⟩
        · cases hx
        · exact Or.inr ⟨hp, s, t, hr⟩
  | error x =>
    constructor
    · rintro ⟨k, s, t, hr⟩
      exact Or.inr ⟨k, s, t, hr, Or.inl ⟨x, rfl⟩⟩
    · rintro (⟨v', r, hv, _, _, _⟩ | ⟨k, s, t, hr, _⟩)
      · cases hv
      · exact ⟨k, s, t, hr⟩

theorem badOK_binL {op : BinOp} {a b : QExpr} {k : ErrKind} (h : BadOK a k) : BadOK (.bin op a b) k := by
  rcases h with ⟨x, hx⟩ | ⟨hp, hk⟩
  · left; rw [denote_bin, hx]; exact ⟨_, rfl⟩
  · right; exact ⟨Or.inl hp, hk⟩

theorem badOK_binR {op : BinOp} {a b : QExpr} {k : ErrKind} (h : BadOK b k) : BadOK (.bin op a b) k := by
  rcases h with ⟨x, hx⟩ | ⟨hp, hk⟩
  · left; rw [denote_bin, hx]
    cases denote false a <;> exact ⟨_, rfl⟩
  · right; exact ⟨Or.inr (Or.inl hp), hk⟩

theorem badOK_cast {a : QExpr} {u : List RTerm} {k : ErrKind} (h : BadOK a k) : BadOK (.cast a u) k := by
  rcases h with ⟨x, hx⟩ | ⟨hp, hk⟩
  · left; rw [denote_cast, hx]; exact ⟨_, rfl⟩
  · right; exact ⟨hp, hk⟩

theorem badOK_fold {R : Tree → QExpr → Prop} {acc e : QExpr} {ts : List Tree} {k : ErrKind}
    (h : FoldRQ R acc ts e) : BadOK acc k → BadOK e k := by
  induction h with
  | nil acc => exact id
  | cons _ _ _ ih => exact fun hb => ih (badOK_binL hb)
  | cast _ _ _ ih => exact fun hb => ih (badOK_cast hb)

theorem unitsOK_fold {R : Tree → QExpr → Prop} {acc e : QExpr} {ts : List Tree}
    (h : FoldRQ R acc ts e) : UnitsOK e → UnitsOK acc := by
  induction h with
  | nil acc => exact id
  | cons _ _ _ ih => exact fun he => (ih he).1
  | cast _ _ _ ih => exact fun he => (ih he).1

theorem determinate_fold {R : Tree → QExpr → Prop} {acc e : QExpr} {ts : List Tree}
    (h : FoldRQ R acc ts e) : Determinate e → Determinate acc := by
  induction h with
  | nil acc => exact id
  | cons _ _ _ ih => exact fun he => (ih he).1
  | cast _ _ _ ih => exact fun he => (ih he).1

/-! ### Bounds on the unit powers -/

theorem add_unit {s e : Nat} {a b : Numeric} {sub : Bool} {d d' : List Desc} {r : Numeric}
    (h : Eval.add s e a b sub d = (.ok r, d')) : r.unit = a.unit ∨ r.unit = b.unit := by
  unfold Eval.add at h
  cases hf : Compound.factor a.unit b.unit b.value with
  | error c => rw [hf] at h; simp [err, EvalM.throw] at h
  | ok o =>
    rw [hf] at h
    cases o with
    | none => simp [err, EvalM.throw] at h
    | some bv =>
      simp only [pure, Prod.mk.injEq, Except.ok.injEq] at h
      rw [← h.1]
      simp only
      split
      · exact Or.inr rfl
      · exact Or.inl rfl

theorem powFits_of_bound {c : Compound} {B : Nat} {n : Int}
    (hB : ∀ en ∈ c, en.2.power.natAbs ≤ B) (hn : B * n.natAbs ≤ 2147483647) :
    Compound.powFits c n = true := by
  unfold Compound.powFits
  rw [List.all_eq_true]
  intro en he
  have h1 := hB en he
  have h2 : (en.2.power * n).natAbs ≤ 2147483647 := by
    rw [Int.natAbs_mul]
    exact Nat.le_trans (Nat.mul_le_mul_right _ h1) hn
  generalize en.2.power * n = m at h2 ⊢
  simp only [Bool.and_eq_true, decide_eq_true_eq]
  omega

theorem checkedPow_bound {c : Compound} {B : Nat} (n : Int)
    (hB : ∀ en ∈ c, en.2.power.natAbs ≤ B) :
    ∀ en ∈ Compound.checkedPow c n, en.2.power.natAbs ≤ B * n.natAbs := by
  intro en he
  simp only [Compound.checkedPow, List.mem_filter, List.mem_map] at he
  obtain ⟨⟨x, hx, rfl⟩, _⟩ := he
  simp only [Int.natAbs_mul]
  exact Nat.mul_le_mul_right _ (hB x hx)

theorem powBounded_nil (v : Rat) (e : QExpr) : PowBounded { value := v, unit := [] } e :=
  fun _ _ _ h => (nomatch h)

/-- The result of a binary step respects the bound of the compound expression. -/
theorem bin_bound {cfg : Cfg} {op : BinOp} {s e : Nat} {ra rb r : Numeric} {a : QExpr} {l : Literal}
    {b : QExpr} {d d' : List Desc} (h : binEval cfg op s e ra rb d = (.ok r, d'))
    (ha : PowBounded ra a) (hb : PowBounded rb b) (hpow : op = .pow → b = .num l ∧ rb.value = value l) :
    PowBounded r (.bin op a b) := by
  intro B hB en hen
  cases op with
  | add =>
    simp only [powBound] at hB
    cases hpa : powBound a with
    | none => rw [hpa] at hB; simp at hB
    | some x =>
      cases hpb : powBound b with
      | none => rw [hpa, hpb] at hB; simp at hB
      | some y =>
        rw [hpa, hpb] at hB
        simp only [Option.some.injEq] at hB
        rcases add_unit h with hu | hu <;> rw [hu] at hen
        · have := ha x hpa en hen; omega
        · have := hb y hpb en hen; omega
  | sub =>
    simp only [powBound] at hB
    cases hpa : powBound a with
    | none => rw [hpa] at hB; simp at hB
    | some x =>
      cases hpb : powBound b with
      | none => rw [hpa, hpb] at hB; simp at hB
      | some y =>
        rw [hpa, hpb] at hB
        simp only [Option.some.injEq] at hB
        rcases add_unit h with hu | hu <;> rw [hu] at hen
        · have := ha x hpa en hen; omega
        · have := hb y hpb en hen; omega
  | mul => simp [powBound] at hB
  | div => simp [powBound] at hB
  | pow =>
    obtain ⟨rfl, hv⟩ := hpow rfl
    simp only [powBound, Option.map_eq_some_iff] at hB
    obtain ⟨x, hpa, rfl⟩ := hB
    have hu := pow_ok_unit (show Eval.pow s e ra rb d = (.ok r, d') from h)
    rw [hu] at hen
    split at hen
    · have := ha x hpa en hen
      exact Nat.le_trans this (by
        rename_i hemp
        have : ra.unit = [] := by simpa using hemp
        rw [this] at hen; cases hen)
    · rw [hv] at hen
      exact checkedPow_bound _ (ha x hpa) en hen

/-! ### One step of the operator loop -/

theorem step_bin (cfg : Cfg) (F : Nat) (node : At) (base : Delayed) (oa xa : At) (rest : List At)
    (op : BinOp) (acc b : QExpr) (d : List Desc) (ho : oa.t.kind = opKind op)
    (hx : OutcomeQ b d (eval cfg F xa d)) (hbase : OutcomeQ acc d (force cfg F base d))
    (hadd : (op = .add ∨ op = .sub) → ∀ x y, denote false acc = .ok x → denote false b = .ok y →
      AddOK x y)
    (hpow : op = .pow → ∃ l, b = .num l) :
    (∃ v r, denote false (.bin op acc b) = .ok v ∧ Agree r v ∧ PowBounded r (.bin op acc b) ∧
      opFold cfg (F + 1) node base (oa :: xa :: rest) d = opFold cfg F node (.num r) rest d) ∨
    (∃ k s t, opFold cfg (F + 1) node base (oa :: xa :: rest) d = (.error (.err k s t), d) ∧
      BadOK (.bin op acc b) k) := by
  rw [opFold_step cfg F node base oa xa rest op ho]
  simp only [bind_apply]
  rcases (outcomeQ_iff _ _ _).mp hx with ⟨y, rb, hy, hrb, hab, hbb⟩ | ⟨k, s, t, hr, hbad⟩
  · rw [hrb]
    simp only
    rcases (outcomeQ_iff _ _ _).mp hbase with ⟨x, ra, hxv, hra, haa, hba⟩ | ⟨k, s, t, hr, hbad⟩
    · rw [hra]
      simp only
      have hlit : op = .pow → ∃ l, b = .num l ∧ rb.value = value l ∧ y.plain = true := by
        intro h
        obtain ⟨l, rfl⟩ := hpow h
        rw [denote_num] at hy
        cases hy
        have := (hab.plain_eq rfl).1
        exact ⟨l, rfl, by rw [this], rfl⟩
      have hstep := bin_step cfg op node.off node.stop ra rb x y d haa hab
        (fun h => hadd h x y hxv hy)
        (fun h => by obtain ⟨l, _, _, hp⟩ := hlit h; exact hp)
      have hden : denote false (.bin op acc b) = binVal op x y := by rw [denote_bin, hxv, hy]
      cases hv : binVal op x y with
      | ok v =>
        rw [hv] at hstep
        rcases hstep with ⟨r, hr, har⟩ | ⟨hop, hxp, hov, hr⟩
        · left
          refine ⟨v, r, hden.trans hv, har, ?_, by rw [hr]⟩
          by_cases hop : op = .pow
          · obtain ⟨l, hbl, hvl, _⟩ := hlit hop
            exact bin_bound (l := l) hr hba hbb (fun _ => ⟨hbl, hvl⟩)
          · exact bin_bound (l := ⟨none, [], none, none, false⟩) hr hba hbb (fun h => absurd h hop)
        · right
          refine ⟨_, _, _, by rw [hr], Or.inr ⟨Or.inr (Or.inr ⟨hop, ⟨x, hxv, hxp⟩, ?_⟩), rfl⟩⟩
          rintro ⟨B, l, hpB, hbl, hn1, hn2⟩
          obtain ⟨l', hbl', hvl, _⟩ := hlit hop
          rw [hbl] at hbl'
          cases hbl'
          rw [hvl] at hov
          have hfit := powFits_of_bound (hba B hpB) hn2
          rcases hov with h | h | h
          · omega
          · omega
          · rw [hfit] at h; cases h
      | error err =>
        rw [hv] at hstep
        obtain ⟨k, hk⟩ := hstep
        right
        exact ⟨k, _, _, by rw [hk], Or.inl ⟨err, hden.trans hv⟩⟩
    · rw [hr]; right; exact ⟨k, s, t, rfl, badOK_binL hbad⟩
  · rw [hr]; right; exact ⟨k, s, t, rfl, badOK_binR hbad⟩

theorem step_cast (cfg : Cfg) (hU : UnitFacts) (F : Nat) (node : At) (base : Delayed) (oa xa : At)
    (rest : List At) (acc : QExpr) (u : List RTerm) (d : List Desc) (ho : oa.t.kind = .OP_CAST)
    (hx : RepUnit xa.t u) (hu : UnitOK u) (hbase : OutcomeQ acc d (force cfg F base d))
    (hok : ∀ v sem, denote false acc = .ok v → resolveAll u = some sem → CastOK v sem) :
    (∃ v r, denote false (.cast acc u) = .ok v ∧ Agree r v ∧ PowBounded r (.cast acc u) ∧
      opFold cfg (F + 1) node base (oa :: xa :: rest) d = opFold cfg F node (.num r) rest d) ∨
    (∃ k s t, opFold cfg (F + 1) node base (oa :: xa :: rest) d = (.error (.err k s t), d) ∧
      BadOK (.cast acc u) k) := by
  obtain ⟨sem, hsem, hps⟩ := hU.res u hu
  obtain ⟨T, hT, hTs, pT, kT, bT⟩ := hU.fwd xa.t u sem xa.off d hx hu hsem
  rw [at_eta] at hT
  rcases (outcomeQ_iff _ _ _).mp hbase with ⟨x, ra, hxv, hra, haa, _⟩ | ⟨k, s, t, hr, hbad⟩
  · rw [Props.C02.opFold_cast cfg F node oa xa rest base d d d T ra ho hT hra]
    have hstep := cast_step T ra x sem hTs pT kT hps haa (hok x sem hxv hsem)
    have hden : denote false (.cast acc u) = castVal x sem := by rw [denote_cast, hxv, hsem]
    cases hv : castVal x sem with
    | ok v =>
      rw [hv] at hstep
      obtain ⟨w, hw, haw⟩ := hstep
      left
      refine ⟨v, _, hden.trans hv, haw, ?_, by rw [hw]⟩
      intro B hB en hen
      simp only [powBound, hsem, Option.map_some, Option.some.injEq] at hB
      rw [← hB]
      exact bT en hen
    | error err =>
      rw [hv] at hstep
      right
      exact ⟨_, _, _, by rw [hstep], Or.inl ⟨err, hden.trans hv⟩⟩
  · right
    refine ⟨k, s, t, ?_, badOK_cast hbad⟩
    rw [opFold]
    simp only [ho, bind, hT, hr]

/-! ### The operator loop and the evaluator -/

/-- The statement proved by induction on the fuel. -/
def EvalOKQ (cfg : Cfg) (f : Nat) : Prop :=
  ∀ (t : Tree) (e : QExpr) (off : Nat) (d : List Desc), 2 * size t ≤ f → RepresentsQ t e →
    UnitsOK e → Determinate e → OutcomeQ e d (eval cfg f ⟨off, t⟩ d)

/-- Outcome of the operator loop: a forced result that agrees, or an acceptable error. -/
def FoldOutQ (e : QExpr) (d : List Desc) (res : Except EvalErr Delayed × List Desc) : Prop :=
  (∃ v r, denote false e = .ok v ∧ res = (.ok (.num r), d) ∧ Agree r v ∧ PowBounded r e) ∨
  (∃ k s t, res = (.error (.err k s t), d) ∧ BadOK e k)

theorem outcome_num (cfg : Cfg) (F : Nat) {acc : QExpr} {v : Val} {r : Numeric} (d : List Desc)
    (hv : denote false acc = .ok v) (ha : Agree r v) (hb : PowBounded r acc) :
    OutcomeQ acc d (force cfg F (.num r) d) := by
  rw [force_num]
  exact (outcomeQ_iff _ _ _).mpr (Or.inl ⟨v, r, hv, rfl, ha, hb⟩)

theorem fold_numQ (cfg : Cfg) (hU : UnitFacts) (N : Nat) (ih : ∀ f, f ≤ N → EvalOKQ cfg f)
    {acc e : QExpr} {ts : List Tree} (h : FoldRQ RepresentsQ acc ts e) :
    ∀ (rest : List At) (F : Nat) (v : Val) (r : Numeric) (node : At) (d : List Desc),
      rest.map (·.t) = ts → F ≤ N + 1 → denote false acc = .ok v → Agree r v → PowBounded r acc →
      2 * sizeList ts ≤ F → UnitsOK e → Determinate e →
      FoldOutQ e d (opFold cfg F node (.num r) rest d) := by
  induction h with
  | nil acc =>
    intro rest F v r node d hr _ hv ha hb _ _ _
    have : rest = [] := by simpa using hr
    subst this
    left
    refine ⟨v, r, hv, ?_, ha, hb⟩
    cases F <;> simp [opFold, pure]
  | @cons acc o x op b e ts' ho hx htail ihf =>
    intro rest F v r node d hr hF hv ha hbd hsz hu hdet
    match rest, hr with
    | oa :: xa :: rest', hr =>
      simp only [List.map_cons, List.cons.injEq] at hr
      obtain ⟨h1, h2, h3⟩ := hr
      simp only [sizeList] at hsz
      have hxs := C06.size_pos x
      have hos := C06.size_pos o
      obtain ⟨F', rfl⟩ : ∃ F', F = F' + 1 := ⟨F - 1, by omega⟩
      have hub := unitsOK_fold htail hu
      have hdb := determinate_fold htail hdet
      simp only [UnitsOK] at hub
      simp only [Determinate] at hdb
      have hxo := ih F' (by omega) x b xa.off d (by omega) hx hub.2.1 hdb.2.1
      rw [← h2, at_eta] at hxo
      rcases step_bin cfg F' node (.num r) oa xa rest' op acc b d (h1 ▸ ho) hxo
        (outcome_num cfg F' d hv ha hbd) hdb.2.2 hub.2.2 with
        ⟨v', r', hv', ha', hb', heq⟩ | ⟨k, s, t, heq, hbad⟩
      · rw [heq]
        exact ihf rest' F' v' r' node d h3 (by omega) hv' ha' hb' (by omega) hu hdet
      · right
        exact ⟨k, s, t, heq, badOK_fold htail hbad⟩
  | @cast acc o x u e ts' ho hx htail ihf =>
    intro rest F v r node d hr hF hv ha hbd hsz hu hdet
    match rest, hr with
    | oa :: xa :: rest', hr =>
      simp only [List.map_cons, List.cons.injEq] at hr
      obtain ⟨h1, h2, h3⟩ := hr
      simp only [sizeList] at hsz
      have hxs := C06.size_pos x
      have hos := C06.size_pos o
      obtain ⟨F', rfl⟩ : ∃ F', F = F' + 1 := ⟨F - 1, by omega⟩
      have hub := unitsOK_fold htail hu
      have hdb := determinate_fold htail hdet
      simp only [UnitsOK] at hub
      simp only [Determinate] at hdb
      rcases step_cast cfg hU F' node (.num r) oa xa rest' acc u d (h1 ▸ ho) (h2 ▸ hx) hub.2
        (outcome_num cfg F' d hv ha hbd) hdb.2 with
        ⟨v', r', hv', ha', hb', heq⟩ | ⟨k, s, t, heq, hbad⟩
      · rw [heq]
        exact ihf rest' F' v' r' node d h3 (by omega) hv' ha' hb' (by omega) hu hdet
      · right
        exact ⟨k, s, t, heq, badOK_fold htail hbad⟩

theorem nextNode_of_filter {l : List At} {a : At} {more : List At}
    (h : l.filter (fun k => k.t.hasChildren) = a :: more) : ∃ tl, nextNode l = a :: tl := by
  induction l with
  | nil => simp at h
  | cons x l ih =>
    simp only [List.filter_cons] at h
    simp only [nextNode]
    split at h
    · rename_i hx
      simp only [List.cons.injEq] at h
      rw [if_pos hx, h.1]
      exact ⟨l, rfl⟩
    · rename_i hx
      rw [if_neg hx]
      exact ih h

theorem value_percent_false' (l : Literal) (h : l.percent = false) :
    value { l with percent := false } = value l := by
  cases l; simp_all

theorem evalOKQ_all (cfg : Cfg) (hU : UnitFacts) : ∀ f, EvalOKQ cfg f := by
  intro f
  induction f using Nat.strong_induction_on with
  | _ f ih =>
    intro t e off d hsz hrep hu hdet
    have hpos := C06.size_pos t
    obtain ⟨F, rfl⟩ : ∃ F, f = F + 1 := ⟨f - 1, by omega⟩
    have ih' : ∀ g, g ≤ F → EvalOKQ cfg g := fun g hg => ih g (by omega)
    cases hrep with
    | @num _ l hk hc ht =>
      simp only [UnitsOK] at hu
      simp only [eval, hk, ht, fromStr_lit l hu.1, value_percent_false' l hu.2]
      refine (outcomeQ_iff _ _ _).mpr (Or.inl ⟨_, _, denote_num l, rfl, ?_, powBounded_nil _ _⟩)
      exact ⟨by rw [siQ_nil], fun _ => rfl, fun sem h => by cases h; exact ⟨sameUnit_nil, rfl⟩,
        fun _ h => (nomatch h), fun _ h => (nomatch h)⟩
    | @qty id v un rest more l u hk ht hop hun =>
      simp only [UnitsOK] at hu
      obtain ⟨hlit, huo⟩ := hu
      obtain ⟨sem, hsem, hps⟩ := hU.res u huo
      have hL : ((kidsAt (off + v.len) rest).filter (fun k => k.t.hasChildren)).map (·.t) =
          opKids rest := by rw [filter_kids_map, kidsAt_map]
      rw [hop] at hL
      obtain ⟨ua, morea, hLeq, hua, _⟩ := map_eq_cons hL
      obtain ⟨tl, hnn⟩ := nextNode_of_filter hLeq
      obtain ⟨T, hT, hTs, pT, kT, bT⟩ := hU.fwd un u sem ua.off d hun huo hsem
      rw [← hua, at_eta] at hT
      simp only [At.kids] at hT
      have hkind : (ua.t.kind != Syntax.UNIT) = false := by rw [hua, hun.1]; rfl
      have hs1 := opKids_size_le rest
      simp only [hop, sizeList, size_node] at hs1 hsz
      have pv := C06.size_pos v
      have pu := C06.size_pos un
      obtain ⟨F', rfl⟩ : ∃ F', F = F' + 1 := ⟨F - 1, by omega⟩
      have hval : eval cfg (F' + 1) ⟨off, v⟩ d =
          (.ok { value := value l, unit := [] }, d) := by
        simp only [eval, hk, ht, fromStr_lit l hlit.1, value_percent_false' l hlit.2]
        rfl
      rw [eval]
      simp only [kind_node, At.kids, kids_node, kidsAt, hnn, hkind, Bool.false_eq_true,
        ↓reduceIte, bind_apply, hval, hT, pure]
      refine (outcomeQ_iff _ _ _).mpr (Or.inl
        ⟨Val.mk ⟨value l * scale sem, dims sem⟩ false (some sem), _, ?_, rfl, ?_, ?_⟩)
      · rw [denote_qty, hsem]
        simp [qtyOf, hps]
      · refine ⟨?_, fun h => (nomatch h), ?_, pT, kT⟩
        · simp [siQ, hTs.1, hTs.2]
        · intro sem' h
          cases h
          exact ⟨hTs, hps⟩
      · intro B hB en hen
        simp only [powBound, hsem, Option.map_some, Option.some.injEq] at hB
        rw [← hB]
        exact bT en hen
    | @paren id ks x e' hop hx =>
      simp only [UnitsOK] at hu
      simp only [Determinate] at hdet
      have hL := at_opKids ⟨off, .node id .OPERATION ks⟩
      simp only [kids_node, hop] at hL
      obtain ⟨xa, hLeq, hxa⟩ := map_eq_one hL
      have hs1 := opKids_size_le ks
      simp only [hop, sizeList, size_node] at hs1 hsz
      obtain ⟨F', rfl⟩ : ∃ F', F = F' + 1 := ⟨F - 1, by omega⟩
      simp only [eval, kind_node, hLeq, opFold, bind_apply, pure, force]
      have := ih' F' (by omega) x e' xa.off d (by omega) hx hu hdet
      rw [← hxa, at_eta] at this
      simpa [OutcomeQ, denote_paren, PowRisk, PowBounded, powBound] using this
    | @chain id ks x₀ rest0 e₀ _ hop hne hx0 hfold0 =>
      have hL := at_opKids ⟨off, .node id .OPERATION ks⟩
      simp only [kids_node, hop] at hL
      obtain ⟨x0a, L1, hLeq, hx0a, hL1⟩ := map_eq_cons hL
      have hs1 := opKids_size_le ks
      simp only [hop, sizeList, size_node] at hs1 hsz
      have p0 := C06.size_pos x₀
      have hu0 := unitsOK_fold hfold0 hu
      have hd0 := determinate_fold hfold0 hdet
      -- the outcome of the first operand, whenever it is forced
      have hbase : ∀ G, G ≤ F → 2 * size x₀ + 1 ≤ G →
          OutcomeQ e₀ d (force cfg G (.node x0a) d) := by
        intro G hG hGs
        obtain ⟨G', rfl⟩ : ∃ G', G = G' + 1 := ⟨G - 1, by omega⟩
        rw [force_node]
        have := ih' G' (by omega) x₀ e₀ x0a.off d (by omega) hx0 hu0 hd0
        rwa [← hx0a, at_eta] at this
      -- the first step, then the rest of the chain
      have key : FoldOutQ e d (opFold cfg F ⟨off, .node id .OPERATION ks⟩ (.node x0a) L1 d) := by
        cases hfold0 with
        | nil => exact absurd rfl hne
        | @cons _ o x₁ op b _ rest ho hx1 htail =>
          obtain ⟨oa, L2, rfl, hoa, hL2⟩ := map_eq_cons hL1
          obtain ⟨x1a, resta, rfl, hx1a, hresta⟩ := map_eq_cons hL2
          simp only [sizeList] at hs1 hsz
          have p1 := C06.size_pos x₁
          have p2 := C06.size_pos o
          obtain ⟨F', rfl⟩ : ∃ F', F = F' + 1 := ⟨F - 1, by omega⟩
          have hub := unitsOK_fold htail hu
          have hdb := determinate_fold htail hdet
          simp only [UnitsOK] at hub
          simp only [Determinate] at hdb
          have hxo := ih' F' (by omega) x₁ b x1a.off d (by omega) hx1 hub.2.1 hdb.2.1
          rw [← hx1a, at_eta] at hxo
          rcases step_bin cfg F' ⟨off, .node id .OPERATION ks⟩ (.node x0a) oa x1a resta op e₀ b d
            (hoa ▸ ho) hxo (hbase F' (by omega) (by omega)) hdb.2.2 hub.2.2 with
            ⟨v', r', hv', ha', hb', heq⟩ | ⟨k, s, t, heq, hbad⟩
          · rw [heq]
            exact fold_numQ cfg hU (F' + 1) ih' htail resta F' v' r' _ d hresta (by omega) hv' ha'
              hb' (by omega) hu hdet
          · right
            exact ⟨k, s, t, heq, badOK_fold htail hbad⟩
        | @cast _ o x₁ u _ rest ho hx1 htail =>
          obtain ⟨oa, L2, rfl, hoa, hL2⟩ := map_eq_cons hL1
          obtain ⟨x1a, resta, rfl, hx1a, hresta⟩ := map_eq_cons hL2
          simp only [sizeList] at hs1 hsz
          have p1 := C06.size_pos x₁
          have p2 := C06.size_pos o
          obtain ⟨F', rfl⟩ : ∃ F', F = F' + 1 := ⟨F - 1, by omega⟩
          have hub := unitsOK_fold htail hu
          have hdb := determinate_fold htail hdet
          simp only [UnitsOK] at hub
          simp only [Determinate] at hdb
          rcases step_cast cfg hU F' ⟨off, .node id .OPERATION ks⟩ (.node x0a) oa x1a resta e₀ u d
            (hoa ▸ ho) (hx1a ▸ hx1) hub.2 (hbase F' (by omega) (by omega)) hdb.2 with
            ⟨v', r', hv', ha', hb', heq⟩ | ⟨k, s, t, heq, hbad⟩
          · rw [heq]
            exact fold_numQ cfg hU (F' + 1) ih' htail resta F' v' r' _ d hresta (by omega) hv' ha'
              hb' (by omega) hu hdet
          · right
            exact ⟨k, s, t, heq, badOK_fold htail hbad⟩
      simp only [eval, kind_node, hLeq, bind_apply]
      rcases key with ⟨v, r, hv, hr, ha, hb⟩ | ⟨k, s, t, hr, hbad⟩
      · rw [hr]
        simp only [force_num]
        exact (outcomeQ_iff _ _ _).mpr (Or.inl ⟨v, r, hv, rfl, ha, hb⟩)
      · rw [hr]
        exact (outcomeQ_iff _ _ _).mpr (Or.inr ⟨k, s, t, rfl, hbad⟩)

/-- **The evaluator on trees that represent a quantity expression.** -/
theorem eval_representsQ (cfg : Cfg) (hU : UnitFacts) (t : Tree) (e : QExpr) (off fuel : Nat)
    (d : List Desc) (h : RepresentsQ t e) (hu : UnitsOK e) (hdet : Determinate e)
    (hf : 2 * size t ≤ fuel) : OutcomeQ e d (eval cfg fuel ⟨off, t⟩ d) :=
  evalOKQ_all cfg hU fuel t e off d hf h hu hdet

end Anything.QQ
