import Anything.Lemmas.QQDefs
import Anything.Lemmas.UnitExpr
import Anything.Lemmas.C06Eval
import Anything.Props.C05
/-!
# `eval::unit` on a written unit expression, part 1: the loop as a run of `update`s

* `parseI32_renderInt`: `str::parse::<i32>` reads back the decimal digits `renderInt` writes;
* `View kids its`: the children-with-children of a UNIT node are, in order, the items `its`
  (kinds and texts) — all `unitLoop` looks at;
* `Steps its s s'`: reading the items `its` takes the loop from state `s` to state `s'`;
* `allUpds u`: the `Compound::update` instructions a written unit expression stands for, and
  `unit_run`: `eval::unit` on a view of `unitItems u` is the run of these instructions.
-/

namespace Anything.QQ
open Anything Anything.Eval Anything.Spec Anything.Spec.Quantity Anything.Spec.SI
open Anything.Props.C05

/-! ### Decimal digits of a power -/

theorem renderInt_nat (n : Nat) : renderInt (n : Int) = Nat.toDigits 10 n := by
  show (Int.repr (Int.ofNat n)).toList = _
  simp [Int.repr, Nat.repr]

theorem isDigit_of_core {c : Char} (h : c.isDigit = true) : Lexer.isDigit c = true := by
  simp only [Char.isDigit, Bool.and_eq_true, decide_eq_true_eq] at h
  simp only [Lexer.isDigit, Bool.and_eq_true, decide_eq_true_eq]
  have h1 : (48 : UInt32) ≤ c.val := h.1
  have h2 : c.val ≤ (57 : UInt32) := h.2
  rw [UInt32.le_iff_toNat_le] at h1 h2
  exact ⟨h1, h2⟩

theorem foldl_digits (l : List Char) (a : Nat) :
    l.foldl (fun acc c => acc * 10 + Number.digitVal c) a = Nat.ofDigitChars 10 l a := by
  induction l generalizing a with
  | nil => rfl
  | cons c l ih =>
    simp only [List.foldl_cons, Nat.ofDigitChars]
    rw [ih]
    simp only [Nat.ofDigitChars, Number.digitVal]
    congr 1; omega

/-- `str::parse::<i32>` reads the decimal digits of a natural number below `2^31`. -/
theorem parseI32_toDigits (n : Nat) (hn : n ≤ 2147483647) :
    parseI32 (Nat.toDigits 10 n) = some (n : Int) := by
  have hd : ∀ c ∈ Nat.toDigits 10 n, Lexer.isDigit c = true := fun c hc =>
    isDigit_of_core (Nat.isDigit_of_mem_toDigits (by decide) (by decide) hc)
  have hne : Nat.toDigits 10 n ≠ [] := Nat.toDigits_ne_nil
  have hall : (Nat.toDigits 10 n).all Lexer.isDigit = true := List.all_eq_true.mpr hd
  have hv : (Nat.toDigits 10 n).foldl (fun acc c => acc * 10 + Number.digitVal c) 0 = n := by
    rw [foldl_digits, Nat.ofDigitChars_toDigits (by decide) (by decide)]
  unfold parseI32
  match hs : Nat.toDigits 10 n with
  | [] => exact absurd hs hne
  | c :: r =>
    have hc : Lexer.isDigit c = true := hd c (by rw [hs]; simp)
    have h1 : c ≠ '-' := by rintro rfl; revert hc; decide
    have h2 : c ≠ '+' := by rintro rfl; revert hc; decide
    rw [hs] at hall hv
    split
    rename_i x neg ds heq
    split at heq
    · rename_i heq'; simp only [List.cons.injEq] at heq'; exact absurd heq'.1 h1
    · rename_i heq'; simp only [List.cons.injEq] at heq'; exact absurd heq'.1 h2
    · simp only [Prod.mk.injEq] at heq
      obtain ⟨rfl, rfl⟩ := heq
      simp only [hall, hv]
      simp
      omega

/-- **`parseI32 ∘ renderInt`**: a non-negative `i32` is read back from its rendering. -/
theorem parseI32_renderInt (n : Int) (h0 : 0 ≤ n) (hn : n ≤ 2147483647) :
    parseI32 (renderInt n) = some n := by
  obtain ⟨m, rfl⟩ := Int.eq_ofNat_of_zero_le h0
  rw [renderInt_nat, parseI32_toDigits m (by omega)]

/-! ### Views -/

/-- The children with children of `kids` are, in order, the items `its`: same kinds, same
texts. -/
def View (kids : List At) (its : List UItem) : Prop :=
  (kids.filter (·.t.hasChildren)).map (fun a => (a.t.kind, a.t.text)) =
    its.map (fun i => (i.kind, i.text))

/-- At the end of the items the loop returns its compound. -/
theorem view_nil {kids : List At} (h : View kids []) (cur : Int) (c : Compound)
    (last : Option (UnitKey × Int)) (d : List Desc) :
    unitLoop cur c last none kids d = (.ok c, d) := by
  induction kids with
  | nil => rfl
  | cons a rest ih =>
    by_cases hc : a.t.hasChildren = true
    · simp [View, hc] at h
    · have hc : a.t.hasChildren = false := by simpa using hc
      rw [C05_expr_skip _ _ _ _ _ _ hc]
      apply ih
      simpa [View, hc] using h

/-- The first item is the first child with children; the childless children before it are
invisible to the loop. -/
theorem view_cons {kids : List At} {i : UItem} {its : List UItem} (h : View kids (i :: its)) :
    ∃ a kids', a.t.hasChildren = true ∧ a.t.kind = i.kind ∧ a.t.text = i.text ∧ View kids' its ∧
      ∀ cur c last pending, unitLoop cur c last pending kids = unitLoop cur c last pending (a :: kids') := by
  induction kids with
  | nil => simp [View] at h
  | cons a rest ih =>
    by_cases hc : a.t.hasChildren = true
    · simp only [View, List.filter_cons, hc, ↓reduceIte, List.map_cons, List.cons.injEq,
        Prod.mk.injEq] at h
      exact ⟨a, rest, hc, h.1.1, h.1.2, h.2, fun _ _ _ _ => rfl⟩
    · have hc : a.t.hasChildren = false := by simpa using hc
      have h' : View rest (i :: its) := by simpa [View, hc] using h
      obtain ⟨b, kids', h1, h2, h3, h4, h5⟩ := ih h'
      refine ⟨b, kids', h1, h2, h3, h4, fun cur c last pending => ?_⟩
      rw [C05_expr_skip _ _ _ _ _ _ hc, h5]

/-! ### Steps -/

/-- Reading the items `its` (followed by anything) takes the loop, outside a `^`, from sign
`cur`, compound `c`, last unit `last` to `cur'`, `c'`, `last'`. -/
def Steps (its : List UItem) (cur : Int) (c : Compound) (last : Option (UnitKey × Int))
    (cur' : Int) (c' : Compound) (last' : Option (UnitKey × Int)) : Prop :=
  ∀ kids its₂, View kids (its ++ its₂) →
    ∃ kids', View kids' its₂ ∧ unitLoop cur c last none kids = unitLoop cur' c' last' none kids'

theorem steps_nil (cur : Int) (c : Compound) (last : Option (UnitKey × Int)) :
    Steps [] cur c last cur c last :=
  fun kids _ h => ⟨kids, h, rfl⟩

theorem steps_append {a b : List UItem} {cur₁ cur₂ cur₃ : Int} {c₁ c₂ c₃ : Compound}
    {l₁ l₂ l₃ : Option (UnitKey × Int)}
    (h1 : Steps a cur₁ c₁ l₁ cur₂ c₂ l₂) (h2 : Steps b cur₂ c₂ l₂ cur₃ c₃ l₃) :
    Steps (a ++ b) cur₁ c₁ l₁ cur₃ c₃ l₃ := by
  intro kids its₂ h
  rw [List.append_assoc] at h
  obtain ⟨k1, v1, e1⟩ := h1 kids _ h
  obtain ⟨k2, v2, e2⟩ := h2 k1 _ v1
  exact ⟨k2, v2, e1.trans e2⟩

theorem steps_cons {i : UItem} {b : List UItem} {cur₁ cur₂ cur₃ : Int} {c₁ c₂ c₃ : Compound}
    {l₁ l₂ l₃ : Option (UnitKey × Int)}
    (h1 : Steps [i] cur₁ c₁ l₁ cur₂ c₂ l₂) (h2 : Steps b cur₂ c₂ l₂ cur₃ c₃ l₃) :
    Steps (i :: b) cur₁ c₁ l₁ cur₃ c₃ l₃ :=
  steps_append h1 h2

/-- `*` changes nothing. -/
theorem steps_star (cur : Int) (c : Compound) (last : Option (UnitKey × Int)) :
    Steps [starItem] cur c last cur c last := by
  intro kids its₂ h
  obtain ⟨a, kids', hc, hk, _, hv, he⟩ := view_cons h
  refine ⟨kids', hv, ?_⟩
  rw [he, C05_expr_mul _ _ _ _ _ hc (Or.inl hk)]

/-- `/` flips the sign. -/
theorem steps_slash (cur : Int) (c : Compound) (last : Option (UnitKey × Int)) :
    Steps [slashItem] cur c last (-cur) c last := by
  intro kids its₂ h
  obtain ⟨a, kids', hc, hk, _, hv, he⟩ := view_cons h
  refine ⟨kids', hv, ?_⟩
  rw [he, C05_expr_div _ _ _ _ _ hc hk]

theorem parseI32_one : parseI32 ['1'] = some 1 := by decide

/-- The number `1` of `1/…` changes nothing. -/
theorem steps_one (cur : Int) (c : Compound) (last : Option (UnitKey × Int)) :
    Steps [oneItem] cur c last cur c last := by
  intro kids its₂ h
  obtain ⟨a, kids', hc, hk, ht, hv, he⟩ := view_cons h
  refine ⟨kids', hv, ?_⟩
  have hn : parseI32 a.t.text = some 1 := by rw [ht]; exact parseI32_one
  rw [he, C05_expr_one _ _ _ _ _ hc hk hn]

/-- A word read as the single piece `(pfx, key)`: one `update` with the sign. -/
theorem steps_word {w : List Char} {tk : Syntax} {pfx : Int} {key : UnitKey} {cur : Int}
    {c c' : Compound} (last : Option (UnitKey × Int))
    (hw : UnitWord.parseWord w = some [(pfx, key)]) (hu : Compound.update c key cur pfx = .ok c') :
    Steps [⟨.WORD, tk, w⟩] cur c last cur c' (some (key, pfx)) := by
  intro kids its₂ h
  obtain ⟨a, kids', hc, hk, ht, hv, he⟩ := view_cons h
  refine ⟨kids', hv, ?_⟩
  have hw' : UnitWord.parseWord a.t.text = some [(pfx, key)] := by rw [ht]; exact hw
  have ha : applyPieces cur c [(pfx, key)] = .ok c' := by simp [applyPieces, hu]
  rw [he, C05_expr_word _ _ _ _ _ _ _ hc hk hw' ha]
  rfl

/-- `^ p` after a unit: one more `update`, with `(p - 1) · cur`. -/
theorem steps_pow {p pfx : Int} {key : UnitKey} {cur : Int} {c c' : Compound}
    (hp : 2 ≤ p ∧ p ≤ 2147483647) (hcur : cur = 1 ∨ cur = -1)
    (hu : Compound.update c key ((p - 1) * cur) pfx = .ok c') :
    Steps [caretItem, ⟨.NUMBER, .NUMBER, renderInt p⟩] cur c (some (key, pfx)) cur c' none := by
  intro kids its₂ h
  obtain ⟨op, kids1, hc1, hk1, _, hv1, he1⟩ := view_cons h
  obtain ⟨num, kids2, hc2, hk2, ht2, hv2, he2⟩ := view_cons hv1
  refine ⟨kids2, hv2, ?_⟩
  have hk1 : op.t.kind = .OP_POWER := hk1
  have hk2 : num.t.kind = .NUMBER := hk2
  have hn : parseI32 num.t.text = some p := by
    rw [ht2]; exact parseI32_renderInt p (by omega) hp.2
  have h0 : (p - 1) * cur ≠ 0 := by rcases hcur with rfl | rfl <;> omega
  have hr : ¬ ((p - 1) * cur < -2147483648 ∨ (p - 1) * cur > 2147483647) := by
    rcases hcur with rfl | rfl <;> omega
  rw [he1]
  have e : unitLoop cur c (some (key, pfx)) none (op :: kids1) =
      unitLoop cur c none (some (some (key, pfx), op)) kids1 := by
    simp [unitLoop, hc1, hk1]
  rw [e, he2]
  simp only [unitLoop, hc2, hk2, hn, h0, hr, hu, Bool.not_true, Bool.false_eq_true, ↓reduceIte,
    beq_self_eq_true, not_false_eq_true, ne_eq, Bool.or_eq_true, decide_eq_true_eq]

/-! ### The `update` instructions of a written unit expression -/

/-- One `Compound::update` call. -/
structure Upd where
  key : UnitKey
  delta : Int
  pfx : Int

/-- Run the instructions in order; `Except.error` is a refused `update` (prefix mismatch). -/
def runUpds : Compound → List Upd → Except Int Compound
  | c, [] => .ok c
  | c, i :: l =>
    match Compound.update c i.key i.delta i.pfx with
    | .ok c' => runUpds c' l
    | .error e => .error e

theorem runUpds_append {c c' : Compound} {a b : List Upd} (h : runUpds c (a ++ b) = .ok c') :
    ∃ c₁, runUpds c a = .ok c₁ ∧ runUpds c₁ b = .ok c' := by
  induction a generalizing c with
  | nil => exact ⟨c, rfl, h⟩
  | cons i a ih =>
    simp only [List.cons_append, runUpds] at h ⊢
    split at h
    · rename_i c1 h1
      exact ih h
    · simp at h

/-- The written factor's resolved meaning (`resolve`; a dummy when it has none). -/
def rs (t : RTerm) : UTerm := (resolve t).getD ⟨0, .base .Meter, 0⟩

/-- A factor written at sign `cur` with the (positive) power `p`: the word contributes `cur`,
the `^ p` — written unless `p = 1` — contributes `(p - 1) · cur`. -/
def termUpds (key : UnitKey) (pfx cur p : Int) : List Upd :=
  ⟨key, cur, pfx⟩ :: (if p = 1 then [] else [⟨key, (p - 1) * cur, pfx⟩])

/-- The instructions of the factors before the `/`. -/
def numUpds (u : List RTerm) : List Upd :=
  (nums u).flatMap (fun t => termUpds (rs t).key (rs t).pfx 1 t.power)

/-- The instructions of the factors after the `/`. -/
def denUpds (u : List RTerm) : List Upd :=
  (dens u).flatMap (fun t => termUpds (rs t).key (rs t).pfx (-1) (-t.power))

/-- The instructions of a written unit expression. -/
def allUpds (u : List RTerm) : List Upd := numUpds u ++ denUpds u

/-- One written factor. -/
theorem steps_term {t : RTerm} {key : UnitKey} {pfx cur p : Int} {c c' : Compound}
    (last : Option (UnitKey × Int))
    (hw : UnitWord.parseWord (word t) = some [(pfx, key)])
    (hp : 1 ≤ p ∧ p ≤ 2147483647) (hcur : cur = 1 ∨ cur = -1)
    (hr : runUpds c (termUpds key pfx cur p) = .ok c') :
    ∃ last', Steps (termItems t p) cur c last cur c' last' := by
  unfold termUpds at hr
  unfold termItems
  by_cases h1 : p = 1
  · simp only [h1, ↓reduceIte, runUpds] at hr ⊢
    split at hr
    · rename_i c1 hu
      simp only [Except.ok.injEq] at hr
      subst hr
      exact ⟨_, steps_word last hw hu⟩
    · simp at hr
  · simp only [h1, ↓reduceIte, runUpds] at hr ⊢
    split at hr
    · rename_i c1 hu
      split at hr
      · rename_i c2 hu2
        simp only [Except.ok.injEq] at hr
        subst hr
        exact ⟨_, steps_cons (steps_word last hw hu) (steps_pow ⟨by omega, hp.2⟩ hcur hu2)⟩
      · simp at hr
    · simp at hr

/-- Factors joined by `*`. -/
theorem steps_join (pw : RTerm → Int) (cur : Int) (hcur : cur = 1 ∨ cur = -1) (ts : List RTerm) :
    ∀ (c c' : Compound) (last : Option (UnitKey × Int)),
    (∀ t ∈ ts, UnitWord.parseWord (word t) = some [((rs t).pfx, (rs t).key)] ∧
      1 ≤ pw t ∧ pw t ≤ 2147483647) →
    runUpds c (ts.flatMap (fun t => termUpds (rs t).key (rs t).pfx cur (pw t))) = .ok c' →
    ∃ last', Steps (joinItems (ts.map (fun t => termItems t (pw t)))) cur c last cur c' last' := by
  induction ts with
  | nil =>
    intro c c' last _ hr
    simp only [List.flatMap_nil, runUpds, Except.ok.injEq] at hr
    subst hr
    exact ⟨last, steps_nil _ _ _⟩
  | cons t ts ih =>
    intro c c' last hts hr
    rw [List.flatMap_cons] at hr
    obtain ⟨c1, hr1, hr2⟩ := runUpds_append hr
    obtain ⟨hw, hp⟩ := hts t (by simp)
    obtain ⟨l1, s1⟩ := steps_term last hw hp hcur hr1
    cases ts with
    | nil =>
      simp only [List.flatMap_nil, runUpds, Except.ok.injEq] at hr2
      subst hr2
      exact ⟨l1, by simpa [joinItems] using s1⟩
    | cons t2 ts2 =>
      obtain ⟨l2, s2⟩ := ih c1 c' l1 (fun x hx => hts x (List.mem_cons_of_mem _ hx)) hr2
      refine ⟨l2, ?_⟩
      simp only [List.map_cons, joinItems] at s2 ⊢
      exact steps_append s1 (steps_cons (steps_star _ _ _) s2)

/-- **The loop on a written unit expression is the run of its instructions.** Every written
factor is read by the unit-word parser as one piece `(prefix, unit)` and its power is an `i32`;
whenever the run of `allUpds u` from the empty compound succeeds with `T`, `eval::unit` on
children spelling `unitItems u` returns `T` and leaves the log untouched. -/
theorem unit_run (u : List RTerm) (kids : List At) (d : List Desc) (T : Compound)
    (hv : View kids (unitItems u))
    (hw : ∀ t ∈ u, UnitWord.parseWord (word t) = some [((rs t).pfx, (rs t).key)] ∧
      -2147483647 ≤ t.power ∧ t.power ≤ 2147483647)
    (hr : runUpds [] (allUpds u) = .ok T) :
    Eval.unit kids d = (.ok T, d) := by
  obtain ⟨c1, hr1, hr2⟩ := runUpds_append hr
  -- numerator
  have hN : ∃ last', Steps (if (nums u).isEmpty then [oneItem]
      else joinItems ((nums u).map (fun t => termItems t t.power))) 1 [] none 1 c1 last' := by
    by_cases he : (nums u).isEmpty = true
    · have hn : nums u = [] := by simpa using he
      simp only [numUpds, hn, List.flatMap_nil, runUpds, Except.ok.injEq] at hr1
      subst hr1
      simp only [he, ↓reduceIte]
      exact ⟨none, steps_one _ _ _⟩
    · simp only [he, Bool.false_eq_true, ↓reduceIte]
      apply steps_join (fun t => t.power) 1 (Or.inl rfl) (nums u) [] c1 none _ hr1
      intro t ht
      simp only [nums, List.mem_filter, decide_eq_true_eq] at ht
      obtain ⟨h1, h2⟩ := hw t ht.1
      exact ⟨h1, by omega, h2.2⟩
  obtain ⟨lN, sN⟩ := hN
  -- denominator
  have hD : ∃ cur' last', Steps (if (dens u).isEmpty then []
      else slashItem :: joinItems ((dens u).map (fun t => termItems t (-t.power))))
      1 c1 lN cur' T last' := by
    by_cases he : (dens u).isEmpty = true
    · have hn : dens u = [] := by simpa using he
      simp only [denUpds, hn, List.flatMap_nil, runUpds, Except.ok.injEq] at hr2
      subst hr2
      simp only [he, ↓reduceIte]
      exact ⟨1, lN, steps_nil _ _ _⟩
    · simp only [he, Bool.false_eq_true, ↓reduceIte]
      have : ∃ last', Steps (joinItems ((dens u).map (fun t => termItems t (-t.power))))
          (-1) c1 lN (-1) T last' := by
        apply steps_join (fun t => -t.power) (-1) (Or.inr rfl) (dens u) c1 T lN _ hr2
        intro t ht
        simp only [dens, List.mem_filter, decide_eq_true_eq] at ht
        obtain ⟨h1, h2⟩ := hw t ht.1
        exact ⟨h1, by omega, by omega⟩
      obtain ⟨l', s'⟩ := this
      exact ⟨-1, l', steps_cons (steps_slash 1 c1 lN) s'⟩
  obtain ⟨curD, lD, sD⟩ := hD
  have sAll := steps_append sN sD
  obtain ⟨kids', hv', he⟩ := sAll kids [] (by simpa [unitItems] using hv)
  unfold Eval.unit
  rw [he]
  exact view_nil hv' _ _ _ _

end Anything.QQ
