import Anything.Lemmas.Mul4
/-!
# `Compound::mul` never leaves a zero power (for C11)

`Compound::new` asserts (debug builds) that no entry of the unit it is given has power
zero; `Compound::mul` calls it on the compound `reconstruct` leaves behind. This file
shows that the assertion cannot fire (`mul_no_zeroPower`):

* the base expansion `mul` starts from has no zero entry (`zinv_names`);
* `bases_match` only returns a non-zero count `m` such that for every base of the unit the
  share `exponent * m` lies between zero and the power present (`basesMatch_spec`), so the
  base updates of a `reconstruct` iteration move entries toward zero without crossing it,
  erase them at zero, and never flip a sign;
* a derived entry is created with power `m ≠ 0`; when it is bumped again, its sign and the
  sign of the new `m` are both dictated by the sign of any base of the unit that is still
  present, hence equal, and the sum is not zero (`zinv_update`). This is where the unit must
  have at least one base dimension (`HasBases`).
-/
namespace Anything
open AMap Powers

/-- `y` is non-zero, on the same side of zero as `x`, and no farther from zero. -/
def Btw (x y : Int) : Prop := (0 < y ∧ y ≤ x) ∨ (x ≤ y ∧ y < 0)

theorem sign_cases (x : Int) : (x < 0 ∧ x.sign = -1) ∨ (x = 0 ∧ x.sign = 0) ∨ (0 < x ∧ x.sign = 1) := by
  rcases lt_trichotomy x 0 with h | h | h
  · exact Or.inl ⟨h, Int.sign_eq_neg_one_of_neg h⟩
  · exact Or.inr (Or.inl ⟨h, by rw [h]; rfl⟩)
  · exact Or.inr (Or.inr ⟨h, Int.sign_eq_one_of_pos h⟩)

theorem btw_iff (x y : Int) : Btw x y ↔ y.sign = x.sign ∧ y ≠ 0 ∧ y.natAbs ≤ x.natAbs := by
  unfold Btw
  rcases sign_cases x with ⟨hx, sx⟩ | ⟨hx, sx⟩ | ⟨hx, sx⟩ <;>
  rcases sign_cases y with ⟨hy, sy⟩ | ⟨hy, sy⟩ | ⟨hy, sy⟩ <;>
  rw [sx, sy] <;> constructor <;> intro h <;> omega

theorem btw_mul {s b c m : Int} (h1 : Btw s (b * c)) (h2 : Btw c m) : Btw s (b * m) := by
  rw [btw_iff] at h1 h2 ⊢
  obtain ⟨a1, a2, a3⟩ := h1
  obtain ⟨b1, b2, b3⟩ := h2
  refine ⟨?_, ?_, ?_⟩
  · rw [← a1, Int.sign_mul, Int.sign_mul, b1]
  · intro h
    rcases Int.mul_eq_zero.mp h with h | h
    · exact a2 (by rw [h]; simp)
    · exact b2 h
  · rw [Int.natAbs_mul] at a3 ⊢
    exact Nat.le_trans (Nat.mul_le_mul_left _ b3) a3

theorem btw_trans {a b c : Int} (h1 : Btw a b) (h2 : Btw b c) : Btw a c := by
  unfold Btw at *; omega

theorem btw_sign {a b : Int} (h : Btw a b) : b.sign = a.sign := ((btw_iff a b).mp h).1

theorem btw_ne {a b : Int} (h : Btw a b) : b ≠ 0 := by unfold Btw at h; omega

/-- The success test of `inner_match`, for a non-zero product. -/
theorem cond_btw {p s : Int} (hp : p ≠ 0) (h1 : p.sign = s.sign) (h2 : p * p.sign ≤ s * s.sign) :
    Btw s p := by
  unfold Btw
  rcases sign_cases p with ⟨hx, sx⟩ | ⟨hx, sx⟩ | ⟨hx, sx⟩ <;>
  rcases sign_cases s with ⟨hy, sy⟩ | ⟨hy, sy⟩ | ⟨hy, sy⟩ <;>
  rw [sx, sy] at h1 <;> rw [sx, sy] at h2 <;> omega

theorem innerMatch_zero (s base dec : Int) (fuel : Nat) : Compound.innerMatch s base dec fuel 0 = none := by
  cases fuel <;> simp [Compound.innerMatch]

/-- `inner_match` returns a non-zero count between zero and `cur` for which the unit's
share `base * count` fits into the present power `s`. -/
theorem innerMatch_spec (s base : Int) (hb : base ≠ 0) : ∀ (fuel : Nat) (cur c : Int),
    Compound.innerMatch s base cur.sign fuel cur = some c → Btw cur c ∧ Btw s (base * c) := by
  intro fuel
  induction fuel with
  | zero => intro cur c h; simp [Compound.innerMatch] at h
  | succ fuel ih =>
    intro cur c h
    simp only [Compound.innerMatch] at h
    split at h
    · cases h
    · rename_i hcur
      split at h
      · rename_i hc
        simp only [Bool.and_eq_true, decide_eq_true_eq] at hc
        simp only [Option.some.injEq] at h
        subst h
        refine ⟨by unfold Btw; omega, cond_btw (Int.mul_ne_zero hb hcur) hc.1 hc.2⟩
      · by_cases hz : cur - cur.sign = 0
        · rw [hz, innerMatch_zero] at h; cases h
        · have hs : (cur - cur.sign).sign = cur.sign := by
            rcases sign_cases cur with ⟨hx, sx⟩ | ⟨hx, sx⟩ | ⟨hx, sx⟩
            · rw [sx] at hz ⊢; exact Int.sign_eq_neg_one_of_neg (by omega)
            · exact absurd hx hcur
            · rw [sx] at hz ⊢; exact Int.sign_eq_one_of_pos (by omega)
          have h' : Compound.innerMatch s base (cur - cur.sign).sign fuel (cur - cur.sign) = some c := by
            rw [hs]; exact h
          obtain ⟨h1, h2⟩ := ih _ _ h'
          refine ⟨?_, h2⟩
          rcases sign_cases cur with ⟨hx, sx⟩ | ⟨hx, sx⟩ | ⟨hx, sx⟩ <;>
            rw [sx] at h1 <;> unfold Btw at * <;> omega

/-- `bases_match`: the resulting count is non-zero, and for every base of the unit the
entry is present and the unit's share fits into it. -/
theorem basesMatch_fold (dec : Int) (names : Compound) (powers : Powers)
    (hnz : ∀ e ∈ powers, e.2 ≠ 0) : ∀ (cur m : Int), dec = cur.sign →
      powers.foldlM (fun cur (e : UnitKey × Int) =>
        match AMap.get? names e.1 with
        | none => none
        | some st => Compound.innerMatch st.power e.2 dec (cur.natAbs + 1) cur) cur = some m →
      (m = cur ∨ Btw cur m) ∧
        ∀ e ∈ powers, ∃ st, AMap.get? names e.1 = some st ∧ Btw st.power (e.2 * m) := by
  induction powers with
  | nil =>
    intro cur m _ h
    simp only [List.foldlM_nil, pure, Option.some.injEq] at h
    exact ⟨Or.inl h.symm, fun e he => by cases he⟩
  | cons a rest ih =>
    intro cur m hdec h
    rw [List.foldlM_cons] at h
    cases hg : AMap.get? names a.1 with
    | none => simp [hg] at h
    | some st =>
      simp only [hg] at h
      cases hi : Compound.innerMatch st.power a.2 dec (cur.natAbs + 1) cur with
      | none => simp [hi] at h
      | some c =>
        simp only [hi, Option.bind_eq_bind, Option.bind_some] at h
        rw [hdec] at hi
        obtain ⟨hb1, hb2⟩ := innerMatch_spec st.power a.2 (hnz a (by simp)) _ _ _ hi
        obtain ⟨hm, hrest⟩ := ih (fun e he => hnz e (List.mem_cons_of_mem _ he)) c m
          (by rw [hdec, btw_sign hb1]) h
        refine ⟨Or.inr ?_, ?_⟩
        · rcases hm with hm | hm
          · rw [hm]; exact hb1
          · exact btw_trans hb1 hm
        · intro e he
          rcases List.mem_cons.mp he with he | he
          · subst he
            refine ⟨st, hg, ?_⟩
            rcases hm with hm | hm
            · rw [hm]; exact hb2
            · exact btw_mul hb2 hm
          · exact hrest e he

theorem basesMatch_spec (power : Int) (names : Compound) (powers : Powers)
    (hnz : ∀ e ∈ powers, e.2 ≠ 0) (m : Int)
    (h : Compound.basesMatch power powers names = some m) :
    ∀ e ∈ powers, ∃ st, AMap.get? names e.1 = some st ∧ Btw st.power (e.2 * m) :=
  (basesMatch_fold power.sign names powers hnz power m rfl h).2

/-! ### Pointwise effect of one `reconstruct` iteration -/

/-- Effect of the base update on one entry: subtract the unit's share `c * m`, drop at zero. -/
def upd1 (m c : Int) : Option State → Option State
  | none => none
  | some st => if st.power - c * m = 0 then none else some { st with power := st.power - c * m }

theorem sorted_baseUpd (m : Int) {nm : Compound} (hs : AMap.Sorted nm) (e : UnitKey × Int) :
    AMap.Sorted (baseUpd m nm e) := by
  unfold baseUpd
  split
  · exact hs
  · dsimp only
    split
    · exact AMap.sorted_erase hs _
    · exact AMap.sorted_insert hs _ _

theorem get?_baseUpd (m : Int) {nm : Compound} (hs : AMap.Sorted nm) (e : UnitKey × Int)
    (k : UnitKey) :
    AMap.get? (baseUpd m nm e) k = if e.1 = k then upd1 m e.2 (AMap.get? nm k) else AMap.get? nm k := by
  unfold baseUpd
  by_cases hk : e.1 = k
  · subst hk
    simp only [if_true]
    cases hg : AMap.get? nm e.1 with
    | none => simp [upd1, hg]
    | some st =>
      simp only [upd1]
      split
      · exact AMap.get?_erase_self hs _
      · exact AMap.get?_insert_self _ _ _
  · simp only [hk, if_false]
    split
    · rfl
    · split
      · exact AMap.get?_erase_ne _ hk
      · exact AMap.get?_insert_ne _ _ hk

theorem get?_baseUpd_fold (m : Int) (l : Powers) (hl : AMap.Sorted l) :
    ∀ nm : Compound, AMap.Sorted nm → AMap.Sorted (l.foldl (baseUpd m) nm) ∧ ∀ k,
      AMap.get? (l.foldl (baseUpd m) nm) k =
        match AMap.get? l k with
        | none => AMap.get? nm k
        | some c => upd1 m c (AMap.get? nm k) := by
  induction l with
  | nil => intro nm hs; exact ⟨hs, fun k => rfl⟩
  | cons a rest ih =>
    intro nm hs
    simp only [List.foldl_cons]
    obtain ⟨h1, h2⟩ := ih hl.tail _ (sorted_baseUpd m hs a)
    refine ⟨h1, fun k => ?_⟩
    rw [h2 k, AMap.get?_cons, get?_baseUpd m hs]
    by_cases hk : a.1 = k
    · have : AMap.get? rest k = none :=
        AMap.get?_eq_none_iff.mpr (fun e he => by
          have := UnitKey.ne_of_lt (hl.head_lt e he); rw [hk] at this; exact this.symm)
      simp [hk, this]
    · simp [hk]

theorem get?_derUpd (nm : Compound) (unit : UnitKey) (m : Int) (k : UnitKey) :
    AMap.get? (derUpd nm unit m) k =
      if unit = k then some (match AMap.get? nm unit with
        | none => { power := m, pfx := 0 }
        | some st => { st with power := st.power + m })
      else AMap.get? nm k := by
  unfold derUpd
  split <;> rename_i hg <;> rw [AMap.get?_insert] <;> simp only [hg]

theorem sorted_derUpd {nm : Compound} (hs : AMap.Sorted nm) (unit : UnitKey) (m : Int) :
    AMap.Sorted (derUpd nm unit m) := by
  unfold derUpd
  split <;> exact AMap.sorted_insert hs _ _

/-! ### Sign bookkeeping -/

theorem btw_sub_sign {s p : Int} (h : Btw s p) (hne : s - p ≠ 0) : (s - p).sign = s.sign := by
  unfold Btw at h
  rcases sign_cases s with ⟨hx, sx⟩ | ⟨hx, sx⟩ | ⟨hx, sx⟩
  · rw [sx]; exact Int.sign_eq_neg_one_of_neg (by omega)
  · omega
  · rw [sx]; exact Int.sign_eq_one_of_pos (by omega)

theorem sign_add_same {x y : Int} (h : x.sign = y.sign) (hx : x ≠ 0) :
    x + y ≠ 0 ∧ (x + y).sign = y.sign := by
  rcases sign_cases x with ⟨hx', sx⟩ | ⟨hx', sx⟩ | ⟨hx', sx⟩ <;>
  rcases sign_cases y with ⟨hy, sy⟩ | ⟨hy, sy⟩ | ⟨hy, sy⟩ <;>
  rw [sx, sy] at h <;> try omega
  · exact ⟨by omega, by rw [sy]; exact Int.sign_eq_neg_one_of_neg (by omega)⟩
  · exact ⟨by omega, by rw [sy]; exact Int.sign_eq_one_of_pos (by omega)⟩

theorem sign_mul_cancel {a x y : Int} (ha : a ≠ 0) (h : (a * x).sign = (a * y).sign) :
    x.sign = y.sign := by
  rw [Int.sign_mul, Int.sign_mul] at h
  rcases sign_cases a with ⟨ha', sa⟩ | ⟨ha', sa⟩ | ⟨ha', sa⟩
  · rw [sa] at h; omega
  · exact absurd ha' ha
  · rw [sa] at h; omega

theorem sign_ne_zero_of_eq {x y : Int} (h : x.sign = y.sign) (hy : y ≠ 0) : x ≠ 0 := by
  intro hx
  rw [hx] at h
  exact hy (Int.sign_eq_zero_iff_zero.mp h.symm)

/-! ### The invariant that rules out zero powers -/

/-- The base expansion of a unit (`powers(1)` on an empty map). -/
abbrev basesOf (u : UnitKey) : Powers := (u.powers [] 1).1

/-- Invariant of the working compound of `reconstruct`: no zero power, and every derived
entry agrees in sign (through the unit's exponents) with those of its bases still present. -/
structure ZInv (nm : Compound) : Prop where
  sorted : AMap.Sorted nm
  nz : ∀ k st, AMap.get? nm k = some st → st.power ≠ 0
  agree : ∀ id st, AMap.get? nm (.derived id) = some st → ∀ e ∈ basesOf (.derived id),
    ∀ st', AMap.get? nm e.1 = some st' → st'.power.sign = (e.2 * st.power).sign

theorem get?_none_of_base {p : Powers} (hb : ∀ e ∈ p, ∃ b, e.1 = .base b) (id : Nat) :
    AMap.get? p (.derived id) = none :=
  AMap.get?_eq_none_iff.mpr (fun e he h => by
    obtain ⟨b, hb⟩ := hb e he
    rw [hb] at h; cases h)

theorem zinv_update (names : Compound) (id : Nat) (m : Int) (h : ZInv names)
    (hne : basesOf (.derived id) ≠ [])
    (spec : ∀ e ∈ basesOf (.derived id), ∃ st, AMap.get? names e.1 = some st ∧ Btw st.power (e.2 * m)) :
    ZInv (derUpd ((basesOf (.derived id)).foldl (baseUpd m) names) (.derived id) m) := by
  obtain ⟨hc, _, hbase⟩ := unit_powers_spec (.derived id)
  have hbase' : ∀ id', ∀ e ∈ basesOf (.derived id'), ∃ b, e.1 = .base b :=
    fun id' => (unit_powers_spec (.derived id')).2.2
  obtain ⟨hs1, hg1⟩ := get?_baseUpd_fold m (basesOf (.derived id)) hc.sorted names h.sorted
  -- a base entry of the unit: present, and the share fits
  obtain ⟨e0, he0⟩ := List.exists_mem_of_ne_nil _ hne
  obtain ⟨st0, hst0, hbt0⟩ := spec e0 he0
  have he0nz : e0.2 ≠ 0 := hc.nz e0 he0
  have hm : m ≠ 0 := fun hm => btw_ne hbt0 (by rw [hm]; simp)
  -- derived keys are untouched by the base updates
  have F1 : ∀ id', AMap.get? ((basesOf (.derived id)).foldl (baseUpd m) names) (.derived id')
      = AMap.get? names (.derived id') := by
    intro id'
    rw [hg1, get?_none_of_base hbase]
  -- entries after the base updates come from entries before, with the same sign
  have F2 : ∀ k st', AMap.get? ((basesOf (.derived id)).foldl (baseUpd m) names) k = some st' →
      ∃ st, AMap.get? names k = some st ∧ st'.power.sign = st.power.sign := by
    intro k st' hk
    rw [hg1] at hk
    cases hp : AMap.get? (basesOf (.derived id)) k with
    | none => rw [hp] at hk; exact ⟨st', hk, rfl⟩
    | some c =>
      rw [hp] at hk
      obtain ⟨st, hst, hbt⟩ := spec (k, c) (AMap.mem_of_get? hp)
      simp only at hst hbt
      rw [hst] at hk
      simp only [upd1] at hk
      split at hk
      · cases hk
      · rename_i hnz
        simp only [Option.some.injEq] at hk
        refine ⟨st, hst, ?_⟩
        rw [← hk]
        exact btw_sub_sign hbt hnz
  -- an existing entry of the unit has the sign of `m`
  have hold : ∀ old, AMap.get? names (.derived id) = some old → old.power.sign = m.sign := by
    intro old ho
    have h1 := h.agree id old ho e0 he0 st0 hst0
    have h2 : (e0.2 * m).sign = st0.power.sign := btw_sign hbt0
    exact sign_mul_cancel he0nz (by rw [← h1, ← h2])
  -- the new entry of the unit has the sign of `m`
  have hnew : ∀ st, AMap.get? (derUpd ((basesOf (.derived id)).foldl (baseUpd m) names) (.derived id) m)
      (.derived id) = some st → st.power ≠ 0 ∧ st.power.sign = m.sign := by
    intro st hst
    rw [get?_derUpd, if_pos rfl, F1] at hst
    simp only [Option.some.injEq] at hst
    rw [← hst]
    cases ho : AMap.get? names (.derived id) with
    | none => exact ⟨hm, rfl⟩
    | some old => exact sign_add_same (hold old ho) (h.nz _ _ ho)
  refine ⟨sorted_derUpd hs1 _ _, ?_, ?_⟩
  · intro k st hk
    by_cases hku : UnitKey.derived id = k
    · subst hku; exact (hnew st hk).1
    · rw [get?_derUpd, if_neg hku] at hk
      obtain ⟨st1, h1, h2⟩ := F2 k st hk
      exact sign_ne_zero_of_eq h2 (h.nz _ _ h1)
  · intro id' st hst e he st' hst'
    obtain ⟨b, hb⟩ := hbase' id' e he
    have hne' : UnitKey.derived id ≠ e.1 := by rw [hb]; intro hh; cases hh
    rw [get?_derUpd, if_neg hne'] at hst'
    obtain ⟨st1, h1, h2⟩ := F2 e.1 st' hst'
    by_cases hid : id = id'
    · subst hid
      obtain ⟨_, hs⟩ := hnew st hst
      obtain ⟨st2, hst2, hbt2⟩ := spec e he
      rw [h1] at hst2
      simp only [Option.some.injEq] at hst2
      subst hst2
      rw [h2, ← btw_sign hbt2, Int.sign_mul, Int.sign_mul, hs]
    · have hne2 : UnitKey.derived id ≠ UnitKey.derived id' := by intro hh; cases hh; exact hid rfl
      rw [get?_derUpd, if_neg hne2, F1] at hst
      rw [h2]
      exact h.agree id' st hst e he st1 h1

theorem zinv_step (acc acc' : Rat × Compound) (d : UnitKey × Int × Int)
    (hne : ∀ id, d.1 = .derived id → basesOf (.derived id) ≠ []) (h : ZInv acc.2)
    (hstep : Compound.reconstructStep acc d = .ok acc') : ZInv acc'.2 := by
  obtain ⟨out, names⟩ := acc
  obtain ⟨unit, power, n⟩ := d
  cases unit with
  | base b =>
    simp only [Compound.reconstructStep, UnitKey.powers, Bool.not_false, if_true,
      Except.ok.injEq] at hstep
    rw [← hstep]; exact h
  | derived id =>
    obtain ⟨hc, _, _⟩ := unit_powers_spec (.derived id)
    unfold Compound.reconstructStep at hstep
    simp only at hstep
    split at hstep
    · simp only [Except.ok.injEq] at hstep; rw [← hstep]; exact h
    · split at hstep
      · simp only [Except.ok.injEq] at hstep; rw [← hstep]; exact h
      · rename_i modPower hbm
        split at hstep
        · cases hstep
        · simp only [Except.ok.injEq] at hstep
          rw [← hstep]
          exact zinv_update names id modPower h (hne id rfl)
            (basesMatch_spec _ names _ (fun e he => hc.nz e he) modPower hbm)

theorem zinv_reconstruct (der : List (UnitKey × Int × Int))
    (hne : ∀ d ∈ der, ∀ id, d.1 = .derived id → basesOf (.derived id) ≠ []) :
    ∀ (acc acc' : Rat × Compound), ZInv acc.2 →
      Compound.reconstruct der acc.1 acc.2 = .ok acc' → ZInv acc'.2 := by
  unfold Compound.reconstruct
  induction der with
  | nil =>
    intro acc acc' h hr
    simp only [List.foldlM_nil, pure, Except.pure, Except.ok.injEq] at hr
    rw [← hr]; exact h
  | cons d rest ih =>
    intro acc acc' h hr
    rw [List.foldlM_cons] at hr
    cases hs : Compound.reconstructStep (acc.1, acc.2) d with
    | error e => rw [hs] at hr; simp [bind, Except.bind] at hr
    | ok acc1 =>
      rw [hs] at hr
      have h1 := zinv_step (acc.1, acc.2) acc1 d (hne d (by simp)) h hs
      exact ih (fun x hx => hne x (List.mem_cons_of_mem _ hx)) acc1 acc' h1 hr

/-! ### The base expansion `mul` starts from -/

/-- Sorted, base keys only, no zero power. -/
structure BaseNZ (nm : Compound) : Prop where
  sorted : AMap.Sorted nm
  base : ∀ e ∈ nm, ∃ b, e.1 = .base b
  nz : ∀ e ∈ nm, e.2.power ≠ 0

theorem baseNZ_nil : BaseNZ [] := ⟨AMap.sorted_nil, fun _ h => (by cases h), fun _ h => (by cases h)⟩

theorem baseNZ_insert {nm : Compound} (h : BaseNZ nm) (k : UnitKey) (st : State)
    (hk : ∃ b, k = .base b) (hst : st.power ≠ 0) : BaseNZ (AMap.insert nm k st) := by
  refine ⟨AMap.sorted_insert h.sorted _ _, ?_, ?_⟩ <;> intro e he <;>
    rcases AMap.mem_insert he with he | he
  · subst he; exact hk
  · exact h.base e he
  · subst he; exact hst
  · exact h.nz e he

theorem baseNZ_erase {nm : Compound} (h : BaseNZ nm) (k : UnitKey) : BaseNZ (AMap.erase nm k) :=
  ⟨AMap.sorted_erase h.sorted _, fun e he => h.base e (AMap.mem_erase he),
    fun e he => h.nz e (AMap.mem_erase he)⟩

theorem baseNZ_bump {nm : Compound} (h : BaseNZ nm) (k : UnitKey) (δ : Int)
    (hk : ∃ b, k = .base b) (hδ : δ ≠ 0) : BaseNZ (bump nm k δ) := by
  unfold bump
  split
  · exact baseNZ_insert h _ _ hk hδ
  · dsimp only
    split
    · exact baseNZ_erase h _
    · exact baseNZ_insert h _ _ hk (by assumption)

theorem baseNZ_names0 (l : Powers) (hb : ∀ e ∈ l, ∃ b, e.1 = .base b) (hnz : ∀ e ∈ l, e.2 ≠ 0) :
    ∀ acc : Compound, BaseNZ acc →
      BaseNZ (l.foldl (fun nm (e : UnitKey × Int) => AMap.insert nm e.1 { power := e.2, pfx := 0 }) acc) := by
  induction l with
  | nil => intro acc h; exact h
  | cons a rest ih =>
    intro acc h
    simp only [List.foldl_cons]
    exact ih (fun e he => hb e (List.mem_cons_of_mem _ he)) (fun e he => hnz e (List.mem_cons_of_mem _ he))
      _ (baseNZ_insert h _ _ (hb a (by simp)) (hnz a (by simp)))

theorem baseNZ_bump_fold (l : Powers) (n : Int) (hn : n ≠ 0) (hb : ∀ e ∈ l, ∃ b, e.1 = .base b)
    (hnz : ∀ e ∈ l, e.2 ≠ 0) : ∀ acc : Compound, BaseNZ acc →
      BaseNZ (l.foldl (fun nm (e : UnitKey × Int) => bump nm e.1 (e.2 * n)) acc) := by
  induction l with
  | nil => intro acc h; exact h
  | cons a rest ih =>
    intro acc h
    simp only [List.foldl_cons]
    exact ih (fun e he => hb e (List.mem_cons_of_mem _ he)) (fun e he => hnz e (List.mem_cons_of_mem _ he))
      _ (baseNZ_bump h _ _ (hb a (by simp)) (Int.mul_ne_zero (hnz a (by simp)) hn))

theorem zinv_of_baseNZ {nm : Compound} (h : BaseNZ nm) : ZInv nm := by
  refine ⟨h.sorted, fun k st hk => h.nz _ (AMap.mem_of_get? hk), ?_⟩
  intro id st hst
  obtain ⟨b, hb⟩ := h.base _ (AMap.mem_of_get? hst)
  cases hb

/-- The working compound `mul` hands to `reconstruct`. -/
theorem zinv_names (a b : Compound) (n : Int) (hn : n ≠ 0) :
    ZInv (names1 (Compound.baseUnits b).2 n (names0 (Compound.baseUnits a).2)) := by
  obtain ⟨ca, _⟩ := baseUnits_spec a
  obtain ⟨cb, _⟩ := baseUnits_spec b
  apply zinv_of_baseNZ
  rw [names1_eq_bump]
  exact baseNZ_bump_fold _ n hn (baseUnits_keys_base b) cb.nz _
    (baseNZ_names0 _ (baseUnits_keys_base a) ca.nz [] baseNZ_nil)

/-! ### The only error of the conversion steps is `conversion` -/

theorem applyConversion_err {pow : Int} {ratio : Rat} {scale : Bool} {conv : Conversion} {e : CErr}
    (h : Compound.applyConversion pow ratio scale conv = .error e) : e = .conversion := by
  unfold Compound.applyConversion at h
  repeat' split at h
  all_goals first | (cases h; done) | (cases h; rfl)

theorem foldlM_err {α β : Type} (f : β → α → Except CErr β)
    (hf : ∀ b a e, f b a = .error e → e = .conversion) :
    ∀ (l : List α) (b : β) (e : CErr), l.foldlM f b = .error e → e = .conversion := by
  intro l
  induction l with
  | nil => intro b e h; simp [List.foldlM_nil, pure, Except.pure] at h
  | cons a rest ih =>
    intro b e h
    rw [List.foldlM_cons] at h
    cases hs : f b a with
    | error e' =>
      rw [hs] at h
      simp only [bind, Except.bind, Except.error.injEq] at h
      rw [← h]; exact hf _ _ _ hs
    | ok b' =>
      rw [hs] at h
      exact ih b' e h

theorem scaleIn_err {aff : Bool} {names : Compound} {v : Rat} {e : CErr}
    (h : Compound.scaleIn aff names v = .error e) : e = .conversion :=
  foldlM_err _ (fun _ _ _ h => applyConversion_err h) _ _ _ h

theorem reconstructStep_err {acc : Rat × Compound} {d : UnitKey × Int × Int} {e : CErr}
    (h : Compound.reconstructStep acc d = .error e) : e = .conversion := by
  unfold Compound.reconstructStep at h
  simp only at h
  split at h
  · cases h
  · split at h
    · cases h
    · split at h
      · rename_i hc
        simp only [Except.error.injEq] at h
        rw [← h]; exact applyConversion_err hc
      · cases h

theorem reconstruct_err {der : List (UnitKey × Int × Int)} {out : Rat} {names : Compound} {e : CErr}
    (h : Compound.reconstruct der out names = .error e) : e = .conversion :=
  foldlM_err _ (fun _ _ _ h => reconstructStep_err h) _ _ _ h

/-- Every derived unit of the compound has at least one base dimension. -/
def HasBases (c : Compound) : Prop := ∀ e ∈ c, ∀ id, e.1 = .derived id → basesOf (.derived id) ≠ []

/-- **`Compound::mul` never trips `Compound::new`'s zero-power assertion** when every
derived unit involved has at least one base dimension and the power `n` applied to the
right operand is not zero. -/
theorem mul_no_zeroPower (debug : Bool) (a b : Compound) (n : Int) (l r : Rat) (hn : n ≠ 0)
    (ha : HasBases a) (hb : HasBases b) : Compound.mul debug a b n l r ≠ .error .zeroPower := by
  cases a with
  | nil => simp [Compound.mul]
  | cons a0 as =>
    cases b with
    | nil => simp [Compound.mul]
    | cons b0 bs =>
      rw [mul_unfold debug _ _ n l r rfl rfl]
      split
      · rename_i e he
        intro hh
        have := scaleIn_err he
        simp only [Except.error.injEq] at hh
        rw [hh] at this; cases this
      · split
        · rename_i e he
          intro hh
          have := scaleIn_err he
          simp only [Except.error.injEq] at hh
          rw [hh] at this; cases this
        · split
          · rename_i e he
            intro hh
            have := reconstruct_err he
            simp only [Except.error.injEq] at hh
            rw [hh] at this; cases this
          · rename_i lhs'' names' hrec
            have hne : ∀ d ∈ ((Compound.baseUnits (a0 :: as)).1.map (fun e => (e.1, e.2, (1 : Int))) ++
                (Compound.baseUnits (b0 :: bs)).1.map (fun e => (e.1, e.2, n))),
                ∀ id, d.1 = .derived id → basesOf (.derived id) ≠ [] := by
              intro d hd id hid
              rcases List.mem_append.mp hd with hd | hd
              · simp only [List.mem_map] at hd
                obtain ⟨x, hx, rfl⟩ := hd
                obtain ⟨e, he, h⟩ := baseUnits_der_mem _ x hx
                exact ha e he id (by rw [← h]; exact hid)
              · simp only [List.mem_map] at hd
                obtain ⟨x, hx, rfl⟩ := hd
                obtain ⟨e, he, h⟩ := baseUnits_der_mem _ x hx
                exact hb e he id (by rw [← h]; exact hid)
            have hz := zinv_reconstruct _ hne (_, _) (lhs'', names') (zinv_names _ _ n hn) hrec
            have hany : names'.any (fun e => decide (e.2.power = 0)) = false := by
              rw [List.any_eq_false]
              intro e he
              simp only [decide_eq_true_eq]
              exact hz.nz e.1 e.2 (AMap.get?_of_mem hz.sorted he)
            simp [hany]

/-- Without debug assertions the zero-power outcome does not exist. -/
theorem mul_release_no_zeroPower (a b : Compound) (n : Int) (l r : Rat) :
    Compound.mul false a b n l r ≠ .error .zeroPower := by
  cases a with
  | nil => simp [Compound.mul]
  | cons a0 as =>
    cases b with
    | nil => simp [Compound.mul]
    | cons b0 bs =>
      rw [mul_unfold false _ _ n l r rfl rfl]
      split
      · rename_i e he
        intro hh
        have := scaleIn_err he
        simp only [Except.error.injEq] at hh
        rw [hh] at this; cases this
      · split
        · rename_i e he
          intro hh
          have := scaleIn_err he
          simp only [Except.error.injEq] at hh
          rw [hh] at this; cases this
        · split
          · rename_i e he
            intro hh
            have := reconstruct_err he
            simp only [Except.error.injEq] at hh
            rw [hh] at this; cases this
          · simp

end Anything
