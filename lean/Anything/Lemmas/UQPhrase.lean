import Anything.Lemmas.UQDefs
import Anything.Lemmas.FQLex
/-!
# The unified expression language — every `FQ.PhraseOK` phrase is a `PhraseU`

`PhraseU p` is stated through the computable `splitPhrase p`. Here: for every first word and every
list of `(blank run, word)` pairs with `FQ.PhraseOK`, the text `FQ.phraseText first more` is cut by
`splitPhrase` into exactly these pieces, hence is a `PhraseU` (`phraseU_of_phraseOK`). The one
thing to show is that a number word contains no white space (`numWord_noWS`).
-/

namespace Anything.UQ
open Anything Anything.Lexer Anything.Spec Anything.C06 Anything.QQ Anything.FQ

/-! ### Number words contain no white space -/

theorem sign_noWS {c : Char} (h : isSign c = true) : isWhitespace c = false := by
  simp only [isSign, Bool.or_eq_true, beq_iff_eq] at h
  rcases h with rfl | rfl <;> decide

theorem countWhile_take (p : Char → Bool) : ∀ (s : List Char), ∀ c ∈ s.take (countWhile p s), p c = true
  | [], c, h => by simp [countWhile] at h
  | a :: s, c, h => by
    simp only [countWhile] at h
    split at h
    · rename_i ha
      rw [Nat.add_comm, List.take_succ_cons] at h
      rcases List.mem_cons.mp h with rfl | h
      · exact ha
      · exact countWhile_take p s c h
    · simp at h

/-- What the number scanner consumes completely contains no white space. -/
theorem cn_full_noWS (dot : Bool) (w : List Char) :
    countNumber dot w = w.length → ∀ c ∈ w, isWhitespace c = false := by
  fun_induction countNumber dot w with
  | case1 dot => intro _ c hc; cases hc
  | case2 dot a r ha ih =>
    intro hfull c hc
    simp only [List.length_cons] at hfull
    rcases List.mem_cons.mp hc with rfl | hc
    · exact digit_noWS ha
    · exact ih (by omega) c hc
  | case3 dot a r ha hdot ih =>
    intro hfull c hc
    simp only [List.length_cons] at hfull
    rcases List.mem_cons.mp hc with rfl | hc
    · simp only [Bool.and_eq_true, beq_iff_eq] at hdot
      rw [hdot.1]; decide
    · exact ih (by omega) c hc
  | case4 dot a ha hdot he => intro hfull; simp at hfull
  | case5 dot a ha hdot he b r' hb d ih =>
    intro hfull c hc
    have hdv : countWhile isDigit r' = d := rfl
    clear_value d
    simp only [List.length_cons] at hfull
    have hd : d ≤ r'.length := hdv ▸ countWhile_le isDigit r'
    have hcn := countNumber_le dot (r'.drop d)
    simp only [List.length_drop] at hcn
    have hfull' : countNumber dot (List.drop d r') = (List.drop d r').length := by
      simp only [List.length_drop]; omega
    rcases List.mem_cons.mp hc with rfl | hc
    · simp only [Bool.or_eq_true, beq_iff_eq] at he
      rcases he with rfl | rfl <;> decide
    rcases List.mem_cons.mp hc with rfl | hc
    · exact sign_noWS hb
    · rw [← List.take_append_drop d r'] at hc
      rcases List.mem_append.mp hc with hc | hc
      · exact digit_noWS (countWhile_take isDigit r' c (hdv ▸ hc))
      · exact ih hfull' c hc
  | case6 dot a ha hdot he b r' hb hb' d ih =>
    intro hfull c hc
    have hdv : countWhile isDigit r' = d := rfl
    clear_value d
    simp only [List.length_cons] at hfull
    have hd : d ≤ r'.length := hdv ▸ countWhile_le isDigit r'
    have hcn := countNumber_le dot (r'.drop d)
    simp only [List.length_drop] at hcn
    have hfull' : countNumber dot (List.drop d r') = (List.drop d r').length := by
      simp only [List.length_drop]; omega
    rcases List.mem_cons.mp hc with rfl | hc
    · simp only [Bool.or_eq_true, beq_iff_eq] at he
      rcases he with rfl | rfl <;> decide
    rcases List.mem_cons.mp hc with rfl | hc
    · exact digit_noWS hb'
    · rw [← List.take_append_drop d r'] at hc
      rcases List.mem_append.mp hc with hc | hc
      · exact digit_noWS (countWhile_take isDigit r' c (hdv ▸ hc))
      · exact ih hfull' c hc
  | case7 dot a ha hdot he b r' hb hb' => intro hfull; simp at hfull
  | case8 dot a r ha hdot he => intro hfull; simp at hfull

theorem numWord_noWS {w : List Char} (h : NumWord w) : ∀ c ∈ w, isWhitespace c = false := by
  have := h.2 [] numEnd_nil
  rw [List.append_nil] at this
  exact cn_full_noWS false w this

theorem pword_noWS_all {w : List Char} (h : PWord w) : ∀ c ∈ w, isWhitespace c = false := by
  rcases h with h | h
  · exact fun c hc => wordChar_noWS (h.2.1 c hc)
  · exact numWord_noWS h

theorem pword_ne_nil {w : List Char} (h : PWord w) : w ≠ [] := by
  rcases h with h | h
  · obtain ⟨⟨c, r, rfl, _⟩, _⟩ := h; simp
  · obtain ⟨⟨c, r, rfl, _⟩, _⟩ := h; simp

/-! ### Cutting a text at its blank runs -/

theorem span_append (p : Char → Bool) : ∀ (a b : List Char), (∀ c ∈ a, p c = true) →
    Head (fun c => p c = false) b → (a ++ b).takeWhile p = a ∧ (a ++ b).dropWhile p = b
  | [], b, _, hb => by
    cases b with
    | nil => simp
    | cons c r =>
      have := hb c r rfl
      simp [List.takeWhile, List.dropWhile, this]
  | x :: a, b, ha, hb => by
    have hx := ha x (by simp)
    obtain ⟨h1, h2⟩ := span_append p a b (fun c hc => ha c (by simp [hc])) hb
    simp [List.takeWhile, List.dropWhile, hx, h1, h2]

theorem moreText_head (more : More) (hm : MoreOK more) :
    Head (fun c => (!isWhitespace c) = false) (moreText more) := by
  cases more with
  | nil => exact head_nil _
  | cons bw more' =>
    obtain ⟨hb, hne, _⟩ := hm bw (by simp)
    obtain ⟨b, w⟩ := bw
    cases b with
    | nil => exact absurd rfl hne
    | cons x b' =>
      have : moreText ((x :: b', w) :: more') = x :: (b' ++ w ++ moreText more') := by
        simp [moreText]
      rw [this]
      exact head_cons (by simp [hb x (by simp)])

theorem splitMore_moreText : ∀ (more : More) (fuel : Nat), MoreOK more → more.length ≤ fuel →
    splitMore fuel (moreText more) = more
  | [], fuel, _, _ => by cases fuel <;> simp [moreText, splitMore]
  | (b, w) :: more', fuel, hm, hf => by
    obtain ⟨hb, hne, hw⟩ := hm (b, w) (by simp)
    have hm' : MoreOK more' := fun x hx => hm x (by simp [hx])
    obtain ⟨fuel', rfl⟩ : ∃ f, fuel = f + 1 := ⟨fuel - 1, by simp at hf; omega⟩
    have hwn := pword_noWS_all hw
    have hwne := pword_ne_nil hw
    have htxt : moreText ((b, w) :: more') = b ++ (w ++ moreText more') := by simp [moreText]
    -- the blank run, then the word
    have hhead : Head (fun c => isWhitespace c = false) (w ++ moreText more') := by
      cases w with
      | nil => exact absurd rfl hwne
      | cons c r => exact head_cons (hwn c (by simp))
    obtain ⟨h1, h2⟩ := span_append isWhitespace b (w ++ moreText more') hb hhead
    obtain ⟨h3, h4⟩ := span_append (fun x => !isWhitespace x) w (moreText more')
      (fun c hc => by simp [hwn c hc]) (moreText_head more' hm')
    rw [htxt]
    cases hbw : b ++ (w ++ moreText more') with
    | nil =>
      cases b with
      | nil => exact absurd rfl hne
      | cons x b' => simp at hbw
    | cons c s =>
      simp only [splitMore]
      rw [← hbw, h1, h2, h3, h4, splitMore_moreText more' fuel' hm' (by simp at hf; omega)]

theorem moreText_length (more : More) (hm : MoreOK more) : more.length ≤ (moreText more).length := by
  induction more with
  | nil => simp
  | cons bw more' ih =>
    obtain ⟨_, hne, _⟩ := hm bw (by simp)
    have := ih (fun x hx => hm x (by simp [hx]))
    have hb : 1 ≤ bw.1.length := by
      cases h : bw.1 with
      | nil => exact absurd h hne
      | cons x r => simp
    simp only [moreText, List.flatMap_cons, List.length_append, List.length_cons] at this ⊢
    omega

/-- `splitPhrase` recovers the pieces of a phrase that can be typed. -/
theorem splitPhrase_phraseText (first : List Char) (more : More) (h : PhraseOK first more) :
    splitPhrase (phraseText first more) = (first, more) := by
  obtain ⟨hf, hm⟩ := h
  have hfn : ∀ c ∈ first, (!isWhitespace c) = true := fun c hc => by
    simp [wordChar_noWS (hf.2.1 c hc)]
  obtain ⟨h1, h2⟩ := span_append (fun x => !isWhitespace x) first (moreText more) hfn
    (moreText_head more hm)
  unfold splitPhrase phraseText
  rw [h1, h2, splitMore_moreText more _ hm]
  have := moreText_length more hm
  simp only [List.length_append]
  omega

/-- **Every phrase that can be typed in the sense of `Props/FactQuery` is a `PhraseU`.** -/
theorem phraseU_of_phraseOK (first : List Char) (more : More) (h : PhraseOK first more) :
    PhraseU (phraseText first more) := by
  unfold PhraseU factFirst factMore
  rw [splitPhrase_phraseText first more h]
  exact ⟨h, rfl⟩

/-- Conversely a `PhraseU` is the text of a `PhraseOK` phrase. -/
theorem phraseU_iff (p : List Char) :
    PhraseU p ↔ ∃ first more, PhraseOK first more ∧ phraseText first more = p :=
  ⟨fun h => ⟨_, _, h.1, h.2⟩, fun ⟨f, m, h, hp⟩ => hp ▸ phraseU_of_phraseOK f m h⟩

end Anything.UQ
