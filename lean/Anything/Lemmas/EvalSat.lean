import Anything.Model.Eval
/-!
# A Hoare-style reading of the evaluator (for C11)

`Sat P Q m`: whatever description log `m` is started with, an error it returns
satisfies `P` and a value it returns satisfies `Q`. `sat_all` is one induction on
the fuel over the four mutually recursive functions `eval`, `evalArgs`, `force`,
`opFold`, parameterised by

* `L : At → Prop`, a property of located nodes inherited by children,
* `P : EvalErr → Prop`, which must accept every error whose span is that of an `L` node,
* `U : Compound → Prop`, a property of the units of all intermediate values, and
  `K : UnitKey → Prop`, a property of the unit keys the word lexer produces,

and with the hypothesis that the fuel is at least twice the number of tree
elements (`size`), which is what makes the `"fuel"` outcome unreachable.
-/

namespace Anything.Eval

/-- Every error of `m` satisfies `P`, every value satisfies `Q`. -/
def Sat {α : Type} (P : EvalErr → Prop) (Q : α → Prop) (m : EvalM α) : Prop :=
  ∀ d, (∀ e, (m d).1 = .error e → P e) ∧ (∀ v, (m d).1 = .ok v → Q v)

theorem bind_apply' {α β : Type} (m : EvalM α) (f : α → EvalM β) (d : List Desc) :
    (m >>= f) d = match m d with
      | (.ok a, d') => f a d'
      | (.error e, d') => (.error e, d') := rfl

section
variable {P : EvalErr → Prop}

theorem sat_pure {α : Type} {Q : α → Prop} {a : α} (h : Q a) : Sat P Q (pure a : EvalM α) := by
  intro d
  exact ⟨fun e he => (by cases he), fun v hv => (by cases hv; exact h)⟩

theorem sat_throw {α : Type} {Q : α → Prop} {e : EvalErr} (h : P e) :
    Sat P Q (EvalM.throw e : EvalM α) := by
  intro d
  exact ⟨fun e he => (by cases he; exact h), fun v hv => (by cases hv)⟩

theorem sat_err {α : Type} {Q : α → Prop} {k : ErrKind} {s e : Nat} (h : P (.err k s e)) :
    Sat P Q (err k s e : EvalM α) := sat_throw h

theorem sat_bind {α β : Type} {Q : α → Prop} {R : β → Prop} {m : EvalM α} {f : α → EvalM β}
    (hm : Sat P Q m) (hf : ∀ a, Q a → Sat P R (f a)) : Sat P R (m >>= f) := by
  intro d
  rw [bind_apply']
  have h := hm d
  rcases hmd : m d with ⟨r, d'⟩
  rw [hmd] at h
  cases r with
  | error e => exact ⟨fun e' he' => (by cases he'; exact h.1 e rfl), fun v hv => (by cases hv)⟩
  | ok a => exact hf a (h.2 a rfl) d'

theorem sat_mono {α : Type} {Q Q' : α → Prop} {m : EvalM α} (h : Sat P Q m)
    (hq : ∀ a, Q a → Q' a) : Sat P Q' m :=
  fun d => ⟨(h d).1, fun v hv => hq v ((h d).2 v hv)⟩

theorem sat_log {Q : Unit → Prop} (x : Desc) (h : Q ()) : Sat P Q (EvalM.log x) := by
  intro d
  exact ⟨fun e he => (by cases he), fun v hv => h⟩

end

/-! ### Sizes of located children -/

def sizeAts (l : List At) : Nat := (l.map (fun a => size a.t)).sum

theorem sizeAts_nil : sizeAts [] = 0 := rfl
theorem sizeAts_cons (a : At) (l : List At) : sizeAts (a :: l) = size a.t + sizeAts l := by
  simp [sizeAts]

theorem size_pos (t : Tree) : 1 ≤ size t := by
  cases t <;> simp [size]

theorem size_eq_kids (t : Tree) : size t = sizeList t.kids + 1 := by
  cases t <;> simp [size, sizeList, Tree.kids]

theorem sizeAts_kidsAt (ks : List Tree) : ∀ off, sizeAts (kidsAt off ks) = sizeList ks := by
  induction ks with
  | nil => intro off; simp [kidsAt, sizeAts, sizeList]
  | cons t ts ih => intro off; simp only [kidsAt, sizeAts_cons, sizeList, ih]

theorem sizeAts_filter_le (p : At → Bool) (l : List At) : sizeAts (l.filter p) ≤ sizeAts l := by
  induction l with
  | nil => simp
  | cons a rest ih =>
    rw [List.filter_cons]
    split
    · simp only [sizeAts_cons]; omega
    · simp only [sizeAts_cons]; omega

theorem sizeAts_mem_le {a : At} {l : List At} (h : a ∈ l) : size a.t ≤ sizeAts l := by
  induction l with
  | nil => cases h
  | cons b rest ih =>
    rw [sizeAts_cons]
    rcases List.mem_cons.mp h with h | h
    · subst h; omega
    · have := ih h; omega

theorem sizeAts_kids (a : At) : sizeAts a.kids + 1 = size a.t := by
  rw [At.kids, sizeAts_kidsAt, size_eq_kids]

theorem nextNode_mem {a : At} : ∀ {l : List At}, a ∈ nextNode l → a ∈ l := by
  intro l
  induction l with
  | nil => intro h; simp [nextNode] at h
  | cons b rest ih =>
    intro h
    simp only [nextNode] at h
    split at h
    · exact h
    · exact List.mem_cons_of_mem _ (ih h)

/-! ### The parameters of the induction -/

/-- The unit of a value satisfies `U`. -/
def QU (U : Compound → Prop) (v : Numeric) : Prop := U v.unit

/-- What `sat_all` needs to know about `P`, `L`, `U`. -/
structure Ctx (cfg : Cfg) (P : EvalErr → Prop) (L : At → Prop) (K : UnitKey → Prop)
    (U : Compound → Prop) : Prop where
  kids : ∀ a, L a → ∀ k ∈ a.kids, L k
  perr : ∀ a, L a → ∀ k, P (.err k a.off a.stop)
  unsup : ∀ w, P (.unsupported w)
  unil : U []
  upow : ∀ c n, U c → U (Compound.checkedPow c n)
  kparse : ∀ s rest pfx u, UnitWord.parse s = some (rest, pfx, u) → K u
  uupd : ∀ c u p pfx c', U c → K u → Compound.update c u p pfx = .ok c' → U c'
  udb : ∀ s c, cfg.db s = .found c → U c.unit
  umul : ∀ x y (div : Bool) l r, U x → U y →
    match Compound.mul cfg.debug x y (if div then -1 else 1) l r with
    | .ok res => U res.1
    | .error .conversion => True
    | .error .zeroPower => P (.panic "Compound::new zero power")
  round : ∀ a args, L a → (∀ x ∈ args, U x.unit) →
    Sat P (QU U) (builtinRound cfg a.off a.stop args)

section
variable {cfg : Cfg} {P : EvalErr → Prop} {L : At → Prop} {K : UnitKey → Prop}
  {U : Compound → Prop}

theorem sat_add (ctx : Ctx cfg P L K U) (a : At) (ha : L a) (x y : Numeric) (sub : Bool)
    (hx : U x.unit) (hy : U y.unit) : Sat P (QU U) (add a.off a.stop x y sub) := by
  unfold add
  split
  · apply sat_pure
    show U _
    simp only
    split <;> assumption
  · exact sat_err (ctx.perr a ha _)
  · exact sat_err (ctx.perr a ha _)

theorem sat_mulDiv (ctx : Ctx cfg P L K U) (a : At) (ha : L a) (x y : Numeric) (div : Bool)
    (hx : U x.unit) (hy : U y.unit) : Sat P (QU U) (mulDiv cfg a.off a.stop x y div) := by
  have h := ctx.umul x.unit y.unit div x.value y.value hx hy
  unfold mulDiv
  split
  · exact sat_err (ctx.perr a ha _)
  · rename_i heq
    rw [heq] at h
    exact sat_throw h
  · rename_i unit av bv heq
    rw [heq] at h
    split
    · split
      · exact sat_err (ctx.perr a ha _)
      · exact sat_pure h
    · exact sat_pure h

theorem sat_pow (ctx : Ctx cfg P L K U) (a : At) (ha : L a) (x y : Numeric)
    (hx : U x.unit) : Sat P (QU U) (pow a.off a.stop x y) := by
  have hu := ctx.upow x.unit y.value.num hx
  unfold pow
  repeat' first | split | (dsimp only)
  all_goals first | exact sat_err (ctx.perr a ha _) | exact sat_pure hx | exact sat_pure hu

theorem sat_one (ctx : Ctx cfg P L K U) (a : At) (ha : L a) (args : List Numeric)
    (hargs : ∀ x ∈ args, U x.unit) : Sat P (QU U) (one a.off a.stop args) := by
  unfold one
  split
  · exact sat_pure (hargs _ (by simp))
  · exact sat_err (ctx.perr a ha _)

theorem sat_floor (ctx : Ctx cfg P L K U) (a : At) (ha : L a) (args : List Numeric)
    (hargs : ∀ x ∈ args, U x.unit) : Sat P (QU U) (builtinFloor a.off a.stop args) :=
  sat_bind (sat_one ctx a ha args hargs) (fun _ h => sat_pure h)

theorem sat_ceil (ctx : Ctx cfg P L K U) (a : At) (ha : L a) (args : List Numeric)
    (hargs : ∀ x ∈ args, U x.unit) : Sat P (QU U) (builtinCeil a.off a.stop args) :=
  sat_bind (sat_one ctx a ha args hargs) (fun _ h => sat_pure h)

theorem sat_lookup (ctx : Ctx cfg P L K U) (a : At) (ha : L a) : Sat P (QU U) (lookup cfg a) := by
  unfold lookup
  dsimp only
  split
  · exact sat_err (ctx.perr a ha _)
  · exact sat_err (ctx.perr a ha _)
  · rename_i c hc
    have hu := ctx.udb _ _ hc
    split
    · exact sat_bind (Q := fun _ => True) (sat_log _ trivial) (fun _ _ => sat_pure hu)
    · exact sat_pure hu

theorem wordUnits_U (ctx : Ctx cfg P L K U) (cur : Int) : ∀ (fuel : Nat) (s : List Char) (c : Compound)
    (last : Option (UnitKey × Int)) (c' : Compound) (last' : Option (UnitKey × Int)),
    U c → (∀ x, last = some x → K x.1) → wordUnits cur fuel s c last = .ok (c', last') →
    U c' ∧ (∀ x, last' = some x → K x.1) := by
  intro fuel
  induction fuel with
  | zero => intro s c last c' last' _ _ h; simp [wordUnits] at h
  | succ fuel ih =>
    intro s c last c' last' hc hlast h
    simp only [wordUnits] at h
    split at h
    · simp only [Except.ok.injEq, Prod.mk.injEq] at h
      rw [← h.1, ← h.2]; exact ⟨hc, hlast⟩
    · split at h
      · cases h
      · rename_i rest pfx u hparse
        have hk : K u := ctx.kparse _ _ _ _ hparse
        split at h
        · cases h
        · rename_i c1 hupd
          split at h
          · exact ih _ _ _ _ _ (ctx.uupd _ _ _ _ _ hc hk hupd)
              (fun x hx => by cases hx; exact hk) h
          · cases h

theorem sat_unitLoop (ctx : Ctx cfg P L K U) (l : List At) : ∀ cur c last pending,
    (∀ a ∈ l, L a) → U c → (∀ x, last = some x → K x.1) →
    (∀ lt op, pending = some (lt, op) → L op ∧ ∀ x, lt = some x → K x.1) →
    Sat P U (unitLoop cur c last pending l) := by
  induction l with
  | nil =>
    intro cur c last pending _ hc _ hp
    unfold unitLoop
    split
    · exact sat_pure hc
    · rename_i lt op
      exact sat_err (ctx.perr op (hp _ _ rfl).1 _)
  | cons a rest ih =>
    intro cur c last pending hl hc hlast hp
    have ha : L a := hl a (by simp)
    have hrest : ∀ x ∈ rest, L x := fun x hx => hl x (List.mem_cons_of_mem _ hx)
    have hnone : ∀ (lt : Option (UnitKey × Int)) (op : At),
        (none : Option (Option (UnitKey × Int) × At)) = some (lt, op) →
        L op ∧ ∀ x, lt = some x → K x.1 :=
      fun _ _ h => by cases h
    have hnl : ∀ x : UnitKey × Int, (none : Option (UnitKey × Int)) = some x → K x.1 :=
      fun _ h => by cases h
    unfold unitLoop
    split
    · exact ih _ _ _ _ hrest hc hlast hp
    · split
      · rename_i lastTaken op
        have hlt := (hp _ _ rfl).2
        split
        · rename_i name pfx
          have hname : K name := hlt (name, pfx) rfl
          split
          · split
            · exact sat_err (ctx.perr a ha _)
            · dsimp only
              split
              · exact sat_err (ctx.perr a ha _)
              · split
                · split
                  · rename_i c' hupd
                    exact ih _ _ _ _ hrest (ctx.uupd _ _ _ _ _ hc hname hupd) hnl hnone
                  · exact sat_err (ctx.perr a ha _)
                · exact ih _ _ _ _ hrest hc hnl hnone
          · exact sat_err (ctx.perr a ha _)
        · exact sat_err (ctx.perr a ha _)
      · split
        · split
          · exact sat_err (ctx.perr a ha _)
          · split
            · exact sat_err (ctx.perr a ha _)
            · exact ih _ _ _ _ hrest hc hlast hnone
        · split
          · rename_i c' last' hw
            have := wordUnits_U ctx _ _ _ _ _ _ _ hc hlast hw
            exact ih _ _ _ _ hrest this.1 this.2 hnone
          · exact sat_err (ctx.perr a ha _)
        · apply ih _ _ _ _ hrest hc hnl
          intro lt op h
          cases h
          exact ⟨ha, hlast⟩
        · exact ih _ _ _ _ hrest hc hlast hnone
        · exact ih _ _ _ _ hrest hc hlast hnone
        · exact ih _ _ _ _ hrest hc hlast hnone
        · exact sat_err (ctx.perr a ha _)

theorem sat_unit (ctx : Ctx cfg P L K U) (l : List At) (hl : ∀ a ∈ l, L a) : Sat P U (unit l) :=
  sat_unitLoop ctx l _ _ _ _ hl ctx.unil (fun _ h => by cases h) (fun _ _ h => by cases h)

/-- A delayed operand is fine. -/
def DOK (L : At → Prop) (U : Compound → Prop) : Delayed → Prop
  | .node a => L a
  | .num n => U n.unit

/-- Fuel `force` needs. -/
def dneed : Delayed → Nat
  | .node a => 2 * size a.t + 1
  | .num _ => 0

theorem filter_kids_L (ctx : Ctx cfg P L K U) (a : At) (ha : L a) (p : At → Bool) :
    ∀ k ∈ a.kids.filter p, L k :=
  fun k hk => ctx.kids a ha k (List.mem_filter.mp hk).1

theorem filter_kids_size (a : At) (p : At → Bool) : sizeAts (a.kids.filter p) + 1 ≤ size a.t := by
  have := sizeAts_filter_le p a.kids
  have := sizeAts_kids a
  omega

/-- **The induction.** With fuel at least twice the size of what is evaluated, every
error satisfies `P` and the unit of every value satisfies `U`. -/
theorem sat_all (ctx : Ctx cfg P L K U) : ∀ fuel,
    (∀ a, L a → 2 * size a.t ≤ fuel → Sat P (QU U) (eval cfg fuel a)) ∧
    (∀ l, (∀ a ∈ l, L a) → 2 * sizeAts l + 1 ≤ fuel →
      Sat P (fun vs => ∀ x ∈ vs, U x.unit) (evalArgs cfg fuel l)) ∧
    (∀ b, DOK L U b → dneed b ≤ fuel → Sat P (QU U) (force cfg fuel b)) ∧
    (∀ node b l, L node → DOK L U b → (∀ a ∈ l, L a) → 2 * sizeAts l + dneed b ≤ fuel →
      Sat P (fun b' => DOK L U b' ∧ dneed b' ≤ dneed b) (opFold cfg fuel node b l)) := by
  intro fuel
  induction fuel with
  | zero =>
    refine ⟨?_, ?_, ?_, ?_⟩
    · intro a _ h
      have := size_pos a.t
      omega
    · intro l _ h; omega
    · intro b hb h
      cases b with
      | node a => simp only [dneed] at h; omega
      | num n => simp only [force]; exact sat_pure hb
    · intro node b l _ hb _ h
      match l, h with
      | [], _ => simp only [opFold]; exact sat_pure ⟨hb, Nat.le_refl _⟩
      | [_], _ => simp only [opFold]; exact sat_pure ⟨hb, Nat.le_refl _⟩
      | x :: y :: _, h =>
        simp only [sizeAts_cons] at h
        have := size_pos x.t
        omega
  | succ fuel ih =>
    obtain ⟨ihE, ihA, ihF, ihO⟩ := ih
    refine ⟨?_, ?_, ?_, ?_⟩
    · -- eval
      intro a ha hfuel
      have hE := fun k => sat_err (Q := QU U) (ctx.perr a ha k)
      simp only [eval]
      split
      · -- OPERATION
        split
        · exact hE _
        · rename_i base rest hf
          have hL := filter_kids_L ctx a ha (fun k => k.t.hasChildren)
          have hS := filter_kids_size a (fun k => k.t.hasChildren)
          rw [hf] at hL hS
          rw [sizeAts_cons] at hS
          have hbase : L base := hL base (by simp)
          apply sat_bind (ihO a (.node base) rest ha hbase
            (fun x hx => hL x (List.mem_cons_of_mem _ hx)) (by simp only [dneed]; omega))
          intro b' hb'
          exact ihF b' hb'.1 (by have := hb'.2; simp only [dneed] at this ⊢; omega)
      · -- NUMBER
        split
        · exact sat_pure ctx.unil
        · exact hE _
      · -- WITH_UNIT
        split
        · exact hE _
        · rename_i valueNode rest hk
          have hLk := ctx.kids a ha
          rw [hk] at hLk
          have hS := sizeAts_kids a
          rw [hk, sizeAts_cons] at hS
          split
          · exact hE _
          · rename_i u _ hn
            have hu : L u := hLk u (List.mem_cons_of_mem _ (nextNode_mem (by rw [hn]; simp)))
            split
            · exact sat_err (ctx.perr u hu _)
            · apply sat_bind (ihE valueNode (hLk _ (by simp)) (by omega))
              intro v _
              apply sat_bind (sat_unit ctx u.kids (ctx.kids u hu))
              intro c hc
              exact sat_pure hc
      · exact sat_lookup ctx a ha
      · exact sat_lookup ctx a ha
      · -- PERCENTAGE
        split
        · exact hE _
        · rename_i n _ hk
          have hn : L n := ctx.kids a ha n (by rw [hk]; simp)
          split
          · exact sat_err (ctx.perr n hn _)
          · split
            · exact sat_pure ctx.unil
            · exact hE _
      · -- FN_CALL
        split
        · rename_i name rest hf
          have hL := filter_kids_L ctx a ha (fun k => k.t.hasChildren)
          have hS := filter_kids_size a (fun k => k.t.hasChildren)
          rw [hf] at hL hS
          split
          · exact hE _
          · split
            · rename_i arguments tl
              have harg : L arguments := hL arguments (by simp)
              have hSa : size arguments.t ≤ sizeAts (name :: arguments :: tl) :=
                sizeAts_mem_le (by simp)
              have hSk := filter_kids_size arguments (fun k => k.t.hasChildren)
              split
              · exact hE _
              · apply sat_bind (ihA _ (filter_kids_L ctx arguments harg _) (by omega))
                intro args hargs
                split
                · exact ctx.round a args ha hargs
                · split
                  · exact sat_floor ctx a ha args hargs
                  · split
                    · exact sat_ceil ctx a ha args hargs
                    · split
                      · split
                        · exact sat_throw (ctx.unsup _)
                        · exact hE _
                      · exact hE _
            · exact hE _
        · exact hE _
      · exact hE _
      · exact hE _
    · -- evalArgs
      intro l hl hfuel
      cases l with
      | nil => simp only [evalArgs]; exact sat_pure (fun _ h => by cases h)
      | cons a rest =>
        simp only [evalArgs]
        rw [sizeAts_cons] at hfuel
        have := size_pos a.t
        apply sat_bind (ihE a (hl a (by simp)) (by omega))
        intro v hv
        apply sat_bind (ihA rest (fun x hx => hl x (List.mem_cons_of_mem _ hx)) (by omega))
        intro vs hvs
        apply sat_pure
        intro x hx
        rcases List.mem_cons.mp hx with rfl | hx
        · exact hv
        · exact hvs x hx
    · -- force
      intro b hb hfuel
      cases b with
      | node a =>
        simp only [force]
        simp only [dneed] at hfuel
        exact ihE a hb (by omega)
      | num n => simp only [force]; exact sat_pure hb
    · -- opFold
      intro node b l hnode hb hl hfuel
      match l, hl, hfuel with
      | [], _, _ => simp only [opFold]; exact sat_pure ⟨hb, Nat.le_refl _⟩
      | [_], _, _ => simp only [opFold]; exact sat_pure ⟨hb, Nat.le_refl _⟩
      | op :: rhs :: rest, hl, hfuel =>
        simp only [sizeAts_cons] at hfuel
        have hop : L op := hl op (by simp)
        have hrhs : L rhs := hl rhs (by simp)
        have hrest : ∀ x ∈ rest, L x := fun x hx => hl x (by simp [hx])
        have := size_pos op.t
        have := size_pos rhs.t
        have hE := fun k => sat_err (Q := fun b' => DOK L U b' ∧ dneed b' ≤ dneed b)
          (ctx.perr node hnode k)
        have hnum : ∀ v : Numeric, U v.unit →
            Sat P (fun b' => DOK L U b' ∧ dneed b' ≤ dneed b) (opFold cfg fuel node (.num v) rest) := by
          intro v hv
          apply sat_mono (ihO node (.num v) rest hnode hv hrest (by simp only [dneed]; omega))
          intro b' hb'
          exact ⟨hb'.1, by have := hb'.2; simp only [dneed] at this ⊢; omega⟩
        simp only [opFold]
        split
        · -- cast
          apply sat_bind (sat_unit ctx rhs.kids (ctx.kids rhs hrhs))
          intro target htarget
          apply sat_bind (ihF b hb (by omega))
          intro lhs _
          split
          · exact hnum _ htarget
          · exact hE _
          · exact hE _
        · exact sat_err (ctx.perr op hop _)
        · split
          · apply sat_bind (ihE rhs hrhs (by omega))
            intro r hr
            apply sat_bind (ihF b hb (by omega))
            intro bv hbv
            apply sat_bind (Q := QU U)
            · split
              · exact sat_add ctx node hnode _ _ _ hbv hr
              · split
                · exact sat_add ctx node hnode _ _ _ hbv hr
                · split
                  · exact sat_mulDiv ctx node hnode _ _ _ hbv hr
                  · split
                    · exact sat_pow ctx node hnode _ _ hbv
                    · exact sat_mulDiv ctx node hnode _ _ _ hbv hr
            · intro v hv
              exact hnum v hv
          · exact sat_err (ctx.perr op hop _)

theorem sat_eval (ctx : Ctx cfg P L K U) (fuel : Nat) (a : At) (ha : L a)
    (hfuel : 2 * size a.t ≤ fuel) : Sat P (QU U) (eval cfg fuel a) :=
  (sat_all ctx fuel).1 a ha hfuel

/-- Every result of `queryLoop` on `L` nodes: errors satisfy `P`, units of values `U`. -/
theorem sat_queryLoop (ctx : Ctx cfg P L K U) (l : List At) : ∀ d, (∀ a ∈ l, L a) →
    ∀ r ∈ (queryLoop cfg l d).1, (∀ e, r = .error e → P e) ∧ (∀ v, r = .ok v → U v.unit) := by
  induction l with
  | nil => intro d _ r hr; simp [queryLoop] at hr
  | cons a rest ih =>
    intro d hl r hr
    have hrest : ∀ x ∈ rest, L x := fun x hx => hl x (List.mem_cons_of_mem _ hx)
    unfold queryLoop at hr
    split at hr
    · exact ih d hrest r hr
    · have h := sat_eval ctx (2 * size a.t + 2) a (hl a (by simp)) (by omega) d
      simp only [List.mem_cons] at hr
      rcases hr with hr | hr
      · subst hr
        exact h
      · exact ih _ hrest r hr

end

end Anything.Eval
