import Anything.Lemmas.Scale
/-!
# `Compound::mul` and `reconstruct`: dimensions and SI value are preserved
-/

namespace Anything
open AMap Powers Spec

/-! ### Table fact: every factor is a non-zero fraction -/

/-- A conversion whose factor (or slope) is a non-zero fraction. -/
def convOk : Conversion → Bool
  | .factor n dd => n != 0 && dd != 0
  | .methods tmN tmD _ _ _ _ _ _ => tmN != 0 && tmD != 0
  | _ => true

/-- Table fact: every conversion factor in the extracted unit table is a non-zero
fraction (and so is the slope of every affine scale). -/
theorem table_factors_ne_zero : Generated.units.all (fun d => convOk d.conv) = true := by
  decide +kernel

theorem lin_ne_zero (u : UnitKey) : lin u ≠ 0 := by
  cases u with
  | base b => simp [lin, SI.linFactor, SI.scaleOf]
  | derived id =>
    simp only [lin, SI.linFactor, SI.scaleOf, SI.findUnit]
    cases hf : Generated.units.find? (fun u => u.id == id) with
    | none => simp
    | some d =>
      have hm : d ∈ Generated.units := List.mem_of_find?_eq_some hf
      have := (List.all_eq_true.mp table_factors_ne_zero) d hm
      cases hc : d.conv with
      | none => simp [hc]
      | factor n dd =>
        simp only [hc, convOk, Bool.and_eq_true, bne_iff_ne, ne_eq] at this ⊢
        have h1 : (n : Rat) ≠ 0 := by exact_mod_cast this.1
        have h2 : (dd : Rat) ≠ 0 := by exact_mod_cast this.2
        exact div_ne_zero h1 h2
      | offset n dd => simp [hc]
      | methods a b c d' e f g i =>
        simp only [hc, convOk, Bool.and_eq_true, bne_iff_ne, ne_eq] at this ⊢
        have h1 : (a : Rat) ≠ 0 := by exact_mod_cast this.1
        have h2 : (b : Rat) ≠ 0 := by exact_mod_cast this.2
        exact div_ne_zero h1 h2

theorem term_ne_zero (e : UnitKey × State) : term e ≠ 0 := by
  unfold term
  apply zpow_ne_zero
  apply mul_ne_zero
  · exact zpow_ne_zero _ (by norm_num)
  · exact lin_ne_zero e.1

/-- The scale of any compound is a non-zero rational. -/
theorem scale_ne_zero (c : Compound) : scaleC c ≠ 0 := by
  unfold scaleC
  induction c with
  | nil => simp
  | cons e rest ih =>
    rw [List.map_cons, List.prod_cons]
    exact mul_ne_zero (term_ne_zero e) ih

/-! ### Permutation view of `insert` / `erase` on sorted maps -/

namespace AMap
variable {α : Type}

theorem erase_of_none {m : AMap α} {k : UnitKey} (h : get? m k = none) : erase m k = m := by
  induction m with
  | nil => rfl
  | cons a rest ih =>
    obtain ⟨k0, w⟩ := a
    rw [get?_cons] at h
    simp only at h
    split at h
    · simp at h
    · rename_i hne
      simp only [erase, hne, ↓reduceIte]
      rw [ih h]

theorem perm_erase {m : AMap α} {k : UnitKey} {v : α} (h : get? m k = some v) :
    m.Perm ((k, v) :: erase m k) := by
  induction m with
  | nil => simp at h
  | cons a rest ih =>
    obtain ⟨k0, w⟩ := a
    rw [get?_cons] at h
    simp only at h
    split at h
    · rename_i he; subst he
      simp only [Option.some.injEq] at h; subst h
      simp [erase]
    · rename_i hne
      simp only [erase, hne, ↓reduceIte]
      exact (List.Perm.cons _ (ih h)).trans (List.Perm.swap _ _ _)

theorem perm_insert {m : AMap α} (hs : Sorted m) (k : UnitKey) (v : α) :
    (insert m k v).Perm ((k, v) :: erase m k) := by
  induction m with
  | nil => simp [insert, erase]
  | cons a rest ih =>
    obtain ⟨k0, w⟩ := a
    simp only [insert, erase]
    split
    · rename_i he; subst he; simp
    · rename_i hne
      split
      · rename_i hlt
        -- the key is absent from `rest` as well
        have : get? rest k = none := by
          apply get?_eq_none_iff.mpr
          intro e he
          have h1 := hs.head_lt e he
          have h2 := UnitKey.lt_trans hlt h1
          exact (UnitKey.ne_of_lt h2).symm
        rw [erase_of_none this]
      · exact (List.Perm.cons _ (ih hs.tail)).trans (List.Perm.swap _ _ _)

end AMap

/-! ### Semantic effect of the three primitive updates -/

/-- The working compound of `mul`/`reconstruct`: sorted, every prefix zero. -/
structure Good (nm : Compound) : Prop where
  sorted : AMap.Sorted nm
  pfx0 : ∀ e ∈ nm, e.2.pfx = 0

theorem good_nil : Good [] := ⟨AMap.sorted_nil, fun _ h => by simp at h⟩

theorem dimsFn_perm {a b : Compound} (h : a.Perm b) (k : UnitKey) : dimsFn a k = dimsFn b k := by
  unfold dimsFn; exact (h.map _).sum_eq

theorem scaleC_perm {a b : Compound} (h : a.Perm b) : scaleC a = scaleC b := by
  unfold scaleC; exact (h.map _).prod_eq

theorem dimsFn_cons (e : UnitKey × State) (c : Compound) (k : UnitKey) :
    dimsFn (e :: c) k = e.2.power * dimOfKey e.1 k + dimsFn c k := by
  simp [dimsFn]

theorem scaleC_cons (e : UnitKey × State) (c : Compound) : scaleC (e :: c) = term e * scaleC c := by
  simp [scaleC]

theorem term_pfx0 (k : UnitKey) (st : State) (h : st.pfx = 0) : term (k, st) = lin k ^ st.power := by
  simp [term, h]

theorem good_insert {nm : Compound} (g : Good nm) (k : UnitKey) (st : State) (h : st.pfx = 0) :
    Good (AMap.insert nm k st) :=
  ⟨AMap.sorted_insert g.sorted _ _, fun e he => by
    rcases AMap.mem_insert he with he | he
    · subst he; exact h
    · exact g.pfx0 e he⟩

theorem good_erase {nm : Compound} (g : Good nm) (k : UnitKey) : Good (AMap.erase nm k) :=
  ⟨AMap.sorted_erase g.sorted _, fun e he => g.pfx0 e (AMap.mem_erase he)⟩

/-- Setting the power of `key` to `p'` (from `p`, `0` when absent). -/
theorem insert_sem {nm : Compound} (g : Good nm) (key : UnitKey) (p' : Int) :
    let p := ((AMap.get? nm key).map (·.power)).getD 0
    let nm' := AMap.insert nm key { power := p', pfx := 0 }
    Good nm' ∧ (∀ k, dimsFn nm' k = dimsFn nm k + (p' - p) * dimOfKey key k) ∧
      scaleC nm' = scaleC nm * lin key ^ (p' - p) := by
  intro p nm'
  refine ⟨good_insert g _ _ rfl, ?_, ?_⟩
  · intro k
    rw [dimsFn_perm (AMap.perm_insert g.sorted key _) k, dimsFn_cons]
    cases hget : AMap.get? nm key with
    | none =>
      rw [AMap.erase_of_none hget]
      simp [p, hget]; ring
    | some st =>
      rw [dimsFn_perm (AMap.perm_erase hget) k, dimsFn_cons]
      simp [p, hget]; ring
  · rw [scaleC_perm (AMap.perm_insert g.sorted key _), scaleC_cons, term_pfx0 _ _ rfl]
    cases hget : AMap.get? nm key with
    | none =>
      rw [AMap.erase_of_none hget]
      simp [p, hget]; ring
    | some st =>
      rw [scaleC_perm (AMap.perm_erase hget), scaleC_cons,
        term_pfx0 _ _ (g.pfx0 _ (AMap.mem_of_get? hget))]
      simp only [p, hget, Option.map_some, Option.getD_some]
      rw [zpow_sub₀ (lin_ne_zero key)]
      field_simp [zpow_ne_zero _ (lin_ne_zero key)]

/-- Removing `key` (power `p` before). -/
theorem erase_sem {nm : Compound} (g : Good nm) (key : UnitKey) :
    let p := ((AMap.get? nm key).map (·.power)).getD 0
    let nm' := AMap.erase nm key
    Good nm' ∧ (∀ k, dimsFn nm' k = dimsFn nm k + (0 - p) * dimOfKey key k) ∧
      scaleC nm' = scaleC nm * lin key ^ (0 - p) := by
  intro p nm'
  refine ⟨good_erase g _, ?_, ?_⟩
  · intro k
    cases hget : AMap.get? nm key with
    | none => simp [nm', AMap.erase_of_none hget, p, hget]
    | some st =>
      rw [dimsFn_perm (AMap.perm_erase hget) k, dimsFn_cons]
      simp [nm', p, hget]
  · cases hget : AMap.get? nm key with
    | none => simp [nm', AMap.erase_of_none hget, p, hget]
    | some st =>
      rw [scaleC_perm (AMap.perm_erase hget), scaleC_cons,
        term_pfx0 _ _ (g.pfx0 _ (AMap.mem_of_get? hget))]
      simp only [nm', p, hget, Option.map_some, Option.getD_some, zero_sub, zpow_neg]
      field_simp [zpow_ne_zero _ (lin_ne_zero key)]

/-- Power of `key` in the working compound (`0` when absent). -/
def pwrOf (nm : Compound) (key : UnitKey) : Int := ((AMap.get? nm key).map (·.power)).getD 0

/-- The "add `δ` to the power of `key`, dropping the entry when it reaches zero"
update used for the base units in `mul` and `reconstruct`. -/
def bump (nm : Compound) (key : UnitKey) (δ : Int) : Compound :=
  match AMap.get? nm key with
  | none => AMap.insert nm key { power := δ, pfx := 0 }
  | some st =>
    let np := st.power + δ
    if np = 0 then AMap.erase nm key else AMap.insert nm key { st with power := np }

theorem bump_sem {nm : Compound} (g : Good nm) (key : UnitKey) (δ : Int) :
    Good (bump nm key δ) ∧ (∀ k, dimsFn (bump nm key δ) k = dimsFn nm k + δ * dimOfKey key k) ∧
      scaleC (bump nm key δ) = scaleC nm * lin key ^ δ := by
  unfold bump
  cases hget : AMap.get? nm key with
  | none =>
    have := insert_sem g key δ
    simp only [hget, Option.map_none, Option.getD_none, sub_zero] at this
    exact this
  | some st =>
    simp only
    have hp : st.pfx = 0 := g.pfx0 _ (AMap.mem_of_get? hget)
    split
    · rename_i hz
      have := erase_sem g key
      simp only [hget, Option.map_some, Option.getD_some] at this
      have e : (0 : Int) - st.power = δ := by omega
      rw [e] at this
      exact this
    · have := insert_sem g key (st.power + δ)
      simp only [hget, Option.map_some, Option.getD_some, add_sub_cancel_left] at this
      have e : ({ st with power := st.power + δ } : State) = { power := st.power + δ, pfx := 0 } := by
        cases st; simp_all
      rw [e]
      exact this

theorem get?_bump_ne {nm : Compound} (g : Good nm) {key k : UnitKey} (δ : Int) (h : key ≠ k) :
    AMap.get? (bump nm key δ) k = AMap.get? nm k := by
  unfold bump
  cases hget : AMap.get? nm key with
  | none => simp only; rw [AMap.get?_insert_ne _ _ h]
  | some st =>
    simp only
    split
    · rw [AMap.get?_erase_ne _ h]
    · rw [AMap.get?_insert_ne _ _ h]

end Anything
