import Anything.Spec.Arith
/-!
# C06, stage B — precedence climbing on a flat operand / operator sequence

A specification-level machine with the stack discipline of `Grammar.opLoop`: a stack of
frames `(left operand so far, pending operator)`; on reading the next operator, frames of
HIGHER priority are closed, a frame of EQUAL priority is extended (left associativity) and
otherwise a new frame is pushed. No code of the model is involved here.
-/

namespace Anything.C06
open Anything.Spec Anything.Spec.Arith

/-- A frame: the left operand accumulated so far and the operator waiting for its right
operand. Head of the list = innermost frame. -/
abbrev Stack := List (NExpr × BinOp)

/-- The flat reading of an expression: first operand and the `(operator, operand)` pairs
that follow; literals, parenthesised groups and calls are single operands. -/
def flat : NExpr → NExpr × List (BinOp × NExpr)
  | .bin op a b => ((flat a).1, (flat a).2 ++ (op, (flat b).1) :: (flat b).2)
  | e => (e, [])

/-- The operand `cur` has been read and the operator `op` comes next. -/
def reduceA (cur : NExpr) (op : BinOp) : Stack → Stack
  | [] => [(cur, op)]
  | (acc, o) :: rest =>
    if op.prio < o.prio then reduceA (.bin o acc cur) op rest
    else if o.prio < op.prio then (cur, op) :: (acc, o) :: rest
    else (.bin o acc cur, op) :: rest

/-- End of input: close every frame, innermost first. -/
def closeAllA (cur : NExpr) : Stack → NExpr
  | [] => cur
  | (acc, o) :: rest => closeAllA (.bin o acc cur) rest

/-- Consume `(operator, operand)` pairs. -/
def run (st : Stack) (cur : NExpr) : List (BinOp × NExpr) → Stack × NExpr
  | [] => (st, cur)
  | (op, x) :: rest => run (reduceA cur op st) x rest

/-- The expression the shift-reduce machine builds from a flat sequence. -/
def shiftReduce (first : NExpr) (ops : List (BinOp × NExpr)) : NExpr :=
  closeAllA (run [] first ops).2 (run [] first ops).1

theorem run_append (st : Stack) (cur : NExpr) (l1 l2 : List (BinOp × NExpr)) :
    run st cur (l1 ++ l2) = run (run st cur l1).1 (run st cur l1).2 l2 := by
  induction l1 generalizing st cur with
  | nil => rfl
  | cons p l1 ih => obtain ⟨op, x⟩ := p; simp only [List.cons_append, run, ih]

/-- Priority of the innermost frame (`0` for the empty stack; every operator has a
positive priority). -/
def topPrio : Stack → Nat
  | [] => 0
  | (_, o) :: _ => o.prio

theorem prio_pos (op : BinOp) : 0 < op.prio := by cases op <;> decide

/-- Two machine states that no later operator of priority `≤ p`, nor the end of the input,
can tell apart. -/
def Equiv (p : Nat) (s1 s2 : Stack × NExpr) : Prop :=
  (∀ op : BinOp, op.prio ≤ p → reduceA s1.2 op s1.1 = reduceA s2.2 op s2.1) ∧
  closeAllA s1.2 s1.1 = closeAllA s2.2 s2.1

theorem reduceA_push (cur : NExpr) (op : BinOp) (st : Stack) (h : topPrio st < op.prio) :
    reduceA cur op st = (cur, op) :: st := by
  cases st with
  | nil => rfl
  | cons f rest =>
    obtain ⟨acc, o⟩ := f
    simp only [topPrio] at h
    have : ¬ op.prio < o.prio := by omega
    simp [reduceA, this, h]

theorem prio_bin (o : BinOp) (a b : NExpr) : (NExpr.bin o a b).prio = o.prio := rfl

/-- **Key lemma.** Reading the flat form of a well-formed expression `e` on top of a stack whose
innermost frame binds less tightly than `e` leaves the machine in a state equivalent to
having read `e` as a single operand. -/
theorem run_flat : ∀ (e : NExpr), WF e → ∀ st : Stack, topPrio st < e.prio →
    Equiv e.prio (run st (flat e).1 (flat e).2) (st, e)
  | .lit l, _, st, _ => ⟨fun _ _ => rfl, rfl⟩
  | .paren e, _, st, _ => ⟨fun _ _ => rfl, rfl⟩
  | .call f args, _, st, _ => ⟨fun _ _ => rfl, rfl⟩
  | .bin o a b, hwf, st, hst => by
    simp only [WF] at hwf
    obtain ⟨wa, wb, hpa, hpb⟩ := hwf
    simp only [prio_bin] at hst ⊢
    have ea := run_flat a wa st (by omega)
    simp only [flat, run_append, run]
    -- after `a`, the operator `o` pushes the frame `(a, o)`
    rw [ea.1 o hpa, reduceA_push a o st hst]
    have eb := run_flat b wb ((a, o) :: st) (by simpa [topPrio] using hpb)
    refine ⟨fun op hop => ?_, ?_⟩
    · rw [eb.1 op (by omega)]
      simp only [reduceA]
      by_cases hlt : op.prio < o.prio
      · simp [hlt]
      · have heq : ¬ o.prio < op.prio := by omega
        simp only [hlt, heq, ↓reduceIte]
        rw [reduceA_push _ op st (by omega)]
    · rw [eb.2]; rfl

/-- **Precedence-climbing correctness.** The shift-reduce machine rebuilds every well-formed
expression from its flat operand / operator sequence. -/
theorem shiftReduce_flat (e : NExpr) (hwf : WF e) : shiftReduce (flat e).1 (flat e).2 = e := by
  have := (run_flat e hwf [] (by
    cases e <;> simp [topPrio, NExpr.prio, prio_pos])).2
  simpa [shiftReduce, closeAllA] using this

end Anything.C06
