import Anything.Lemmas.UQDefs
import Anything.Lemmas.FQEval
/-!
# The unified expression language — the description log of the evaluator

On a tree that represents `e` (`RepU`) the evaluator appends to the description log — whatever the
incoming log, whatever the fuel — a PREFIX of `descLog cfg e` (the successful lookups of `e` in
evaluation order, when describing), and all of it when it returns a value (`logAll`).
No hypothesis on units or values is needed: arithmetic and `eval::unit` never touch the log
(`EvalSim.Neutral`).
-/

namespace Anything.UQ
open Anything Anything.Eval Anything.Spec Anything.Spec.Arith Anything.Spec.Decimal
open Anything.Spec.Quantity Anything.QQ Anything.FQ
open Anything.C06 (opKids opKind at_opKids map_eq_cons map_eq_one at_eta kids_node kind_node
  opFold_step binEval)

/-- What the evaluation of `e` reports when every lookup succeeds. -/
def descLog (cfg : Cfg) (e : QExpr) : List Desc := if cfg.describe then fullLog cfg.db e else []

/-! ### `descLog`, constructor by constructor -/

theorem descLog_num (cfg : Cfg) (l : Literal) : descLog cfg (.num l) = [] := by
  simp [descLog, fullLog, orderU]

theorem descLog_qty (cfg : Cfg) (l : Literal) (u : List RTerm) : descLog cfg (.qty l u) = [] := by
  simp [descLog, fullLog, orderU]

theorem descLog_paren (cfg : Cfg) (e : QExpr) : descLog cfg (.paren e) = descLog cfg e := by
  simp [descLog, fullLog, orderU]

theorem descLog_cast (cfg : Cfg) (e : QExpr) (u : List RTerm) :
    descLog cfg (.cast e u) = descLog cfg e := by
  simp [descLog, fullLog, orderU]

theorem descLog_fact (cfg : Cfg) (p : List Char) (v : Rat) (u : List (UnitKey × Int × Int)) :
    descLog cfg (.fact p v u) = if cfg.describe then lookupLog cfg.db p else [] := by
  simp [descLog, fullLog, orderU]

theorem descLog_bin_same (cfg : Cfg) (op : BinOp) (a b : QExpr) (h : qprio a = op.prio) :
    descLog cfg (.bin op a b) = descLog cfg a ++ descLog cfg b := by
  simp only [descLog, fullLog, orderU, h, ↓reduceIte, List.flatMap_append]
  split <;> simp

theorem descLog_bin_other (cfg : Cfg) (op : BinOp) (a b : QExpr) (h : qprio a ≠ op.prio) :
    descLog cfg (.bin op a b) = descLog cfg b ++ descLog cfg a := by
  simp only [descLog, fullLog, orderU, h, ↓reduceIte, List.flatMap_append]
  split <;> simp

/-! ### Computations that append a prefix of a given log -/

/-- Started after `pre` has been reported, the computation `m` — whatever the incoming log —
appends a list `t` such that `pre ++ t` is a prefix of `full`, and all of `full` when `m` returns a
value. -/
def LogFrom {α : Type} (pre full : List Desc) (m : EvalM α) : Prop :=
  ∃ r t, (∀ d, m d = (r, d ++ t)) ∧ pre ++ t <+: full ∧ ((∃ a, r = .ok a) → pre ++ t = full)

theorem LogFrom.prefix {α : Type} {pre full : List Desc} {m : EvalM α} (h : LogFrom pre full m) :
    pre <+: full := by
  obtain ⟨r, t, _, hp, _⟩ := h
  exact (List.prefix_append pre t).trans hp

theorem logFrom_neutral {α : Type} {m : EvalM α} (full : List Desc) (h : Neutral m) :
    LogFrom full full m := by
  obtain ⟨r, hr⟩ := h
  exact ⟨r, [], fun d => by simp [hr], by simp, fun _ => by simp⟩

/-- A failing log-free step, anywhere. -/
theorem logFrom_fail {α : Type} {m : EvalM α} {pre full : List Desc} (x : EvalErr)
    (h : ∀ d, m d = (.error x, d)) (hp : pre <+: full) : LogFrom pre full m :=
  ⟨.error x, [], fun d => by simp [h], by simpa using hp, fun ⟨a, ha⟩ => by cases ha⟩

theorem evalM_bind_assoc {α β γ : Type} (m : EvalM α) (f : α → EvalM β) (g : β → EvalM γ) :
    (m >>= f) >>= g = m >>= fun a => f a >>= g := by
  funext d
  simp only [Eval.bind_apply]
  rcases m d with ⟨r | a, d'⟩ <;> rfl

theorem evalM_pure_bind {α β : Type} (a : α) (f : α → EvalM β) : (pure a : EvalM α) >>= f = f a := by
  funext d
  rfl

/-- Sequencing: `m` reports (a prefix of) `B`, the continuation goes on from `pre ++ B`. -/
theorem logFrom_bind {α β : Type} [Inhabited α] {pre B full : List Desc} {m : EvalM α}
    {f : α → EvalM β} (hm : LogFrom [] B m) (hf : ∀ a, LogFrom (pre ++ B) full (f a)) :
    LogFrom pre full (m >>= f) := by
  obtain ⟨r, t, hr, hpt, hok⟩ := hm
  have hpB : pre ++ B <+: full := (hf default).prefix
  simp only [List.nil_append] at hpt hok
  cases r with
  | error x =>
    refine ⟨.error x, t, fun d => by simp only [Eval.bind_apply, hr], ?_, fun ⟨a, ha⟩ => by cases ha⟩
    exact ((List.prefix_append_right_inj pre).mpr hpt).trans hpB
  | ok a =>
    have htB : t = B := hok ⟨a, rfl⟩
    subst htB
    obtain ⟨r2, t2, hr2, hp2, hok2⟩ := hf a
    refine ⟨r2, t ++ t2, fun d => by simp only [Eval.bind_apply, hr, hr2, List.append_assoc], ?_, ?_⟩
    · simpa [List.append_assoc] using hp2
    · intro h; simpa [List.append_assoc] using hok2 h

/-- Sequencing after a log-free step. -/
theorem logFrom_bind_neutral {α β : Type} [Inhabited α] {pre full : List Desc} {m : EvalM α}
    {f : α → EvalM β} (hm : Neutral m) (hf : ∀ a, LogFrom pre full (f a)) :
    LogFrom pre full (m >>= f) := by
  have h1 : LogFrom [] [] m := logFrom_neutral [] hm
  exact logFrom_bind (B := []) h1 (fun a => by simpa using hf a)

theorem neutral_binEval (cfg : Cfg) (op : BinOp) (s e : Nat) (a b : Numeric) :
    Neutral (binEval cfg op s e a b) := by
  obtain ⟨r, h, _⟩ := binEval_spans cfg op s e a b
  exact ⟨r, h⟩

/-- A lookup reports the constant (when describing and found). -/
theorem logFrom_lookup (cfg : Cfg) (a : At) :
    LogFrom [] (if cfg.describe then lookupLog cfg.db a.t.text else []) (lookup cfg a) := by
  cases hdb : cfg.db a.t.text with
  | error =>
    refine ⟨.error (.err .lookupError a.off a.stop), [],
      fun d => by simp only [lookup_apply, hdb, List.append_nil], by simp, fun ⟨x, hx⟩ => by cases hx⟩
  | nothing =>
    refine ⟨.error (.err .missing a.off a.stop), [],
      fun d => by simp only [lookup_apply, hdb, List.append_nil], by simp, fun ⟨x, hx⟩ => by cases hx⟩
  | found c =>
    cases hd : cfg.describe with
    | false =>
      exact ⟨.ok { value := c.value, unit := c.unit }, [],
        fun d => by simp only [lookup_apply, hdb, hd, List.append_nil]; rfl, by simp, fun _ => by simp⟩
    | true =>
      refine ⟨.ok { value := c.value, unit := c.unit },
        [{ phrase := a.t.text, description := c.description }],
        fun d => by simp only [lookup_apply, hdb, hd]; rfl, ?_, fun _ => ?_⟩ <;>
      simp [lookupLog, hdb]

/-! ### Log-free leaves -/

theorem neutral_eval_number (cfg : Cfg) (f : Nat) (a : At) (hk : a.t.kind = .NUMBER) :
    Neutral (eval cfg f a) := by
  cases f with
  | zero => simp only [eval]; exact neutral_throw _
  | succ f =>
    simp only [eval, hk]
    split
    · exact neutral_pure _
    · exact neutral_err ..

theorem neutral_eval_withUnit (cfg : Cfg) (f : Nat) (off id : Nat) (v : Tree) (rest : List Tree)
    (hk : v.kind = .NUMBER) : Neutral (eval cfg f ⟨off, .node id .WITH_UNIT (v :: rest)⟩) := by
  cases f with
  | zero => simp only [eval]; exact neutral_throw _
  | succ f =>
    simp only [eval, kind_node, At.kids, kids_node, kidsAt]
    split
    · exact neutral_err ..
    · split
      · exact neutral_err ..
      · exact neutral_bind (neutral_eval_number cfg f _ hk)
          (fun _ => neutral_bind (neutral_unit _) (fun _ => neutral_pure _))

/-! ### The operator loop -/

/-- The statement proved by induction on the fuel. -/
def LogAll (cfg : Cfg) (f : Nat) : Prop :=
  ∀ (t : Tree) (e : QExpr) (off : Nat), RepU t e → LogFrom [] (descLog cfg e) (eval cfg f ⟨off, t⟩)

/-- Along a chain the accumulated left part is reported first. -/
theorem descLog_fold_prefix (cfg : Cfg) {R : Tree → QExpr → Prop} {p : Nat} {acc e : QExpr}
    {ts : List Tree} (h : FoldRQL R p acc ts e) (hp : qprio acc = p) :
    descLog cfg acc <+: descLog cfg e := by
  induction h with
  | nil p acc => exact List.prefix_refl _
  | @cons p acc o x op b e rest _ hop _ _ ih =>
    refine List.IsPrefix.trans ?_ (ih hop)
    rw [descLog_bin_same cfg op acc b (hp.trans hop.symm)]
    exact List.prefix_append _ _
  | @cast p acc o x u e rest _ hp1 _ _ ih =>
    refine List.IsPrefix.trans ?_ (ih hp1.symm)
    rw [descLog_cast]

theorem opFold_cast_unfold (cfg : Cfg) (fuel : Nat) (node op rhs : At) (base : Delayed)
    (rest : List At) (hk : op.t.kind = .OP_CAST) :
    opFold cfg (fuel + 1) node base (op :: rhs :: rest) =
      (do let target ← Eval.unit rhs.kids
          let lhs ← force cfg fuel base
          match Compound.factor target lhs.unit lhs.value with
          | .ok (some v) => opFold cfg fuel node (.num { value := v, unit := target }) rest
          | .ok none => err .illegalCast node.off node.stop
          | .error _ => err .conversionNotPossible node.off node.stop) := by
  rw [opFold]
  simp only [hk]
  rfl

theorem opFold_zero (cfg : Cfg) (node : At) (base : Delayed) (a b : At) (rest : List At) :
    opFold cfg 0 node base (a :: b :: rest) = EvalM.throw (.panic "fuel") := by
  rw [opFold]

theorem throw_bind {α β : Type} (x : EvalErr) (g : α → EvalM β) (d : List Desc) :
    ((EvalM.throw x : EvalM α) >>= g) d = (.error x, d) := rfl

theorem err_bind {α β : Type} (k : ErrKind) (s e : Nat) (g : α → EvalM β) (d : List Desc) :
    ((err k s e : EvalM α) >>= g) d = (.error (.err k s e), d) := rfl

/-- The tail of a cast step: `factor`, then the rest of the chain or a refusal. -/
theorem logFrom_castTail {pre full : List Desc} (cfg : Cfg) (F G : Nat) (node : At)
    (target : Compound) (lhs : Numeric) (rest : List At)
    (h : ∀ w, LogFrom pre full (opFold cfg F node (.num w) rest >>= force cfg G)) :
    LogFrom pre full
      ((match Compound.factor target lhs.unit lhs.value with
        | .ok (some v) => opFold cfg F node (.num { value := v, unit := target }) rest
        | .ok none => err .illegalCast node.off node.stop
        | .error _ => err .conversionNotPossible node.off node.stop) >>= force cfg G) := by
  have hp := (h default).prefix
  cases Compound.factor target lhs.unit lhs.value with
  | error c => exact logFrom_fail _ (fun d => err_bind _ _ _ _ d) hp
  | ok o =>
    cases o with
    | none => exact logFrom_fail _ (fun d => err_bind _ _ _ _ d) hp
    | some v => exact h _

/-- The operator loop from a forced accumulator, followed by the final `force`. -/
theorem fold_log (cfg : Cfg) (N : Nat) (ih : ∀ f, f ≤ N → LogAll cfg f)
    {p : Nat} {acc e : QExpr} {ts : List Tree} (h : FoldRQL RepU p acc ts e) :
    qprio acc = p → ∀ (rest : List At) (F G : Nat) (v : Numeric) (node : At),
      rest.map (·.t) = ts → F ≤ N + 1 →
      LogFrom (descLog cfg acc) (descLog cfg e) (opFold cfg F node (.num v) rest >>= force cfg G) := by
  induction h with
  | nil p acc =>
    intro _ rest F G v node hr _
    have : rest = [] := by simpa using hr
    subst this
    rw [Eval.opFold_nil, evalM_pure_bind, Eval.force_num]
    exact logFrom_neutral _ (neutral_pure _)
  | @cons p acc o x op b e ts' ho hop hx htail ihf =>
    intro hp rest F G v node hr hF
    have hpre := descLog_fold_prefix cfg (.cons ho hop hx htail) hp
    match rest, hr with
    | oa :: xa :: rest', hr =>
      simp only [List.map_cons, List.cons.injEq] at hr
      obtain ⟨h1, h2, h3⟩ := hr
      cases F with
      | zero => exact logFrom_fail _ (fun d => by rw [opFold_zero]; rfl) hpre
      | succ F' =>
        rw [opFold_step cfg F' node _ oa xa rest' op (h1 ▸ ho)]
        simp only [evalM_bind_assoc, Eval.force_num, evalM_pure_bind]
        have hxa := ih F' (by omega) x b xa.off hx
        rw [← h2, at_eta] at hxa
        refine logFrom_bind hxa fun r => ?_
        refine logFrom_bind_neutral (neutral_binEval ..) fun w => ?_
        have := ihf hop rest' F' G w node h3 (by omega)
        rwa [descLog_bin_same cfg op acc b (hp.trans hop.symm)] at this
  | @cast p acc o x u e ts' ho hp1 hx htail ihf =>
    intro hp rest F G v node hr hF
    have hpre := descLog_fold_prefix cfg (.cast ho hp1 hx htail) hp
    match rest, hr with
    | oa :: xa :: rest', hr =>
      simp only [List.map_cons, List.cons.injEq] at hr
      obtain ⟨h1, h2, h3⟩ := hr
      cases F with
      | zero => exact logFrom_fail _ (fun d => by rw [opFold_zero]; rfl) hpre
      | succ F' =>
        rw [opFold_cast_unfold cfg F' node oa xa _ rest' (h1 ▸ ho)]
        simp only [evalM_bind_assoc, Eval.force_num, evalM_pure_bind]
        refine logFrom_bind_neutral (neutral_unit _) fun target => ?_
        refine logFrom_castTail cfg F' G node target v rest' fun w => ?_
        have := ihf hp1.symm rest' F' G w node h3 (by omega)
        rwa [descLog_cast] at this

/-- `force` of a delayed node. -/
theorem logFrom_force (cfg : Cfg) (N : Nat) (ih : ∀ f, f ≤ N → LogAll cfg f) (G : Nat) (hG : G ≤ N + 1)
    (x : Tree) (e : QExpr) (xa : At) (hx : RepU x e) (hxa : xa.t = x) :
    LogFrom [] (descLog cfg e) (force cfg G (.node xa)) := by
  cases G with
  | zero =>
    exact logFrom_fail (.panic "fuel") (fun d => by rw [force]; rfl) (List.nil_prefix)
  | succ G' =>
    rw [Eval.force_node]
    have := ih G' (by omega) x e xa.off hx
    rwa [← hxa, at_eta] at this

/-! ### The evaluator -/

theorem logAll (cfg : Cfg) : ∀ f, LogAll cfg f := by
  intro f
  induction f using Nat.strong_induction_on with
  | _ f ih =>
    intro t e off hrep
    cases f with
    | zero => exact logFrom_fail (.panic "fuel") (fun d => by rw [eval]; rfl) List.nil_prefix
    | succ F =>
    have ih' : ∀ g, g ≤ F → LogAll cfg g := fun g hg => ih g (by omega)
    cases hrep with
    | @num _ l hk hc ht =>
      rw [descLog_num]
      exact logFrom_neutral [] (neutral_eval_number cfg _ _ hk)
    | @qty id v un rest more l u hk ht hop hun =>
      rw [descLog_qty]
      exact logFrom_neutral [] (neutral_eval_withUnit cfg _ off id v rest hk)
    | @fact _ p v u hk hc ht =>
      have hev : eval cfg (F + 1) ⟨off, t⟩ = lookup cfg ⟨off, t⟩ := by
        by_cases hm : factMore p = []
        · simp only [hm, ↓reduceIte] at hk; simp only [eval, hk]
        · simp only [hm, ↓reduceIte] at hk; simp only [eval, hk]
      rw [hev, descLog_fact]
      have := logFrom_lookup cfg ⟨off, t⟩
      simpa only [ht] using this
    | @paren id ks x e' hop hx =>
      have hL := at_opKids ⟨off, .node id .OPERATION ks⟩
      simp only [kids_node, hop] at hL
      obtain ⟨xa, hLeq, hxa⟩ := map_eq_one hL
      rw [eval_operation cfg F _ xa [] rfl hLeq, Eval.opFold_nil, evalM_pure_bind, descLog_paren]
      exact logFrom_force cfg F ih' F (by omega) x e' xa hx hxa
    | @chain id ks x₀ rest0 e₀ _ p hop hne hx0 hp0 hfold0 =>
      have hL := at_opKids ⟨off, .node id .OPERATION ks⟩
      simp only [kids_node, hop] at hL
      obtain ⟨x0a, L1, hLeq, hx0a, hL1⟩ := map_eq_cons hL
      rw [eval_operation cfg F _ x0a L1 rfl hLeq]
      cases hfold0 with
      | nil => exact absurd rfl hne
      | @cons _ _ o x₁ op b _ rest ho hopp hx1 htail =>
        obtain ⟨oa, L2, rfl, hoa, hL2⟩ := map_eq_cons hL1
        obtain ⟨x1a, resta, rfl, hx1a, hresta⟩ := map_eq_cons hL2
        have hpre : descLog cfg (.bin op e₀ b) <+: descLog cfg e :=
          descLog_fold_prefix cfg htail hopp
        cases F with
        | zero => exact logFrom_fail _ (fun d => by rw [opFold_zero]; rfl) List.nil_prefix
        | succ F' =>
          rw [opFold_step cfg F' _ _ oa x1a resta op (hoa ▸ ho)]
          simp only [evalM_bind_assoc]
          have h1 := ih' F' (by omega) x₁ b x1a.off hx1
          rw [← hx1a, at_eta] at h1
          refine logFrom_bind h1 fun r => ?_
          have h0 := logFrom_force cfg (F' + 1) ih' F' (by omega) x₀ e₀ x0a hx0 hx0a
          refine logFrom_bind (pre := [] ++ descLog cfg b) h0 fun va => ?_
          refine logFrom_bind_neutral (neutral_binEval ..) fun w => ?_
          have := fold_log cfg (F' + 1) ih' htail hopp resta F' (F' + 1) w
            ⟨off, .node id .OPERATION ks⟩ hresta (by omega)
          rw [descLog_bin_other cfg op e₀ b (by rw [hopp]; exact hp0)] at this
          simpa using this
      | @cast _ _ o x₁ u _ rest ho hp1 hx1 htail =>
        obtain ⟨oa, L2, rfl, hoa, hL2⟩ := map_eq_cons hL1
        obtain ⟨x1a, resta, rfl, hx1a, hresta⟩ := map_eq_cons hL2
        cases F with
        | zero => exact logFrom_fail _ (fun d => by rw [opFold_zero]; rfl) List.nil_prefix
        | succ F' =>
          rw [opFold_cast_unfold cfg F' _ oa x1a _ resta (hoa ▸ ho)]
          simp only [evalM_bind_assoc]
          refine logFrom_bind_neutral (neutral_unit _) fun target => ?_
          have h0 := logFrom_force cfg (F' + 1) ih' F' (by omega) x₀ e₀ x0a hx0 hx0a
          refine logFrom_bind (pre := []) h0 fun lhs => ?_
          refine logFrom_castTail cfg F' (F' + 1) _ target lhs resta fun w => ?_
          have := fold_log cfg (F' + 1) ih' htail hp1.symm resta F' (F' + 1) w
            ⟨off, .node id .OPERATION ks⟩ hresta (by omega)
          rw [descLog_cast] at this
          simpa using this

/-- **The description log of the evaluator on a tree that represents `e`**: for every fuel and
every incoming log `d` the outgoing log is `d ++ t` with `t` a prefix of `descLog cfg e`, the same
`t` (and the same result) for every `d`; `t` is all of `descLog cfg e` when the result is a value. -/
theorem eval_log (cfg : Cfg) (t : Tree) (e : QExpr) (off fuel : Nat) (h : RepU t e) :
    ∃ r L, (∀ d, eval cfg fuel ⟨off, t⟩ d = (r, d ++ L)) ∧ L <+: descLog cfg e ∧
      ((∃ a, r = .ok a) → L = descLog cfg e) := by
  obtain ⟨r, L, h1, h2, h3⟩ := logAll cfg fuel t e off h
  exact ⟨r, L, h1, by simpa using h2, fun ha => by simpa using h3 ha⟩

end Anything.UQ
