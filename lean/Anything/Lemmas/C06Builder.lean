import Anything.Lemmas.ParserTotal
import Anything.Lemmas.ParserFuel
/-!
# C06, stage D — exact behaviour of the builder primitives

`PTotal` shows that the builder never fails; here we also say *what* it builds. A checkpoint
cell is tracked by the forest position it points at (`Pos b c i`), which — unlike the arena
index stored in the cell — is stable under `closeAt`. `Ext n b b'` says that `b'` differs from
`b` only beyond forest position `n`: the first `n` trees and every cell at a position `≤ n`
are preserved. Every primitive is characterised in the total-correctness style of `PTotal.Tot`.
-/

namespace Anything.C06
open Anything Anything.Parser Anything.Grammar Anything.PTotal

/-! ### Invariants -/

/-- Distinct cells point at distinct nodes. -/
def Inj (b : Builder) : Prop :=
  ∀ c c' v : Nat, b.cells[c]? = some v → b.cells[c']? = some v → c = c'

structure Good (b : Builder) : Prop where
  wf : WF b
  inj : Inj b

/-- No cell points at the node to be inserted next (true right after an insertion). -/
def NoNext (b : Builder) : Prop := ∀ c : Nat, b.cells[c]? ≠ some b.nextId

/-- Cell `c` points at the top-level tree at position `i` (or, for `i = forest.length`, at the
node to be inserted next). -/
def Pos (b : Builder) (c i : Nat) : Prop :=
  ∃ v, b.cells[c]? = some v ∧
    ((∃ t, b.forest[i]? = some t ∧ t.id = v) ∨ (i = b.forest.length ∧ v = b.nextId))

structure Ext (n : Nat) (b b' : Builder) : Prop where
  le : n ≤ b.forest.length
  le' : n ≤ b'.forest.length
  pre : b'.forest.take n = b.forest.take n
  pos : ∀ c i, i ≤ n → Pos b c i → Pos b' c i

theorem Ext.refl {n : Nat} {b : Builder} (h : n ≤ b.forest.length) : Ext n b b :=
  ⟨h, h, rfl, fun _ _ _ hp => hp⟩

theorem Ext.trans {n : Nat} {b b' b'' : Builder} (h1 : Ext n b b') (h2 : Ext n b' b'') :
    Ext n b b'' :=
  ⟨h1.le, h2.le', h2.pre.trans h1.pre, fun c i hi hp => h2.pos c i hi (h1.pos c i hi hp)⟩

theorem Ext.mono {n m : Nat} {b b' : Builder} (h : Ext n b b') (hm : m ≤ n) : Ext m b b' := by
  refine ⟨by have := h.le; omega, by have := h.le'; omega, ?_, fun c i hi hp => h.pos c i (by omega) hp⟩
  have := congrArg (List.take m) h.pre
  simpa [List.take_take, Nat.min_eq_left hm] using this

/-- The forest of `b'` is the first `n` trees of `b` followed by something. -/
theorem Ext.forest {n : Nat} {b b' : Builder} (h : Ext n b b') :
    b'.forest = b.forest.take n ++ b'.forest.drop n := by
  rw [← h.pre, List.take_append_drop]

theorem ids_lt_of_lt {b : Builder} (h : WF b) {i j : Nat} {t t' : Tree}
    (hi : b.forest[i]? = some t) (hj : b.forest[j]? = some t') (hij : i < j) : t.id < t'.id := by
  have h1 := (List.getElem?_eq_some_iff.mp hi)
  have h2 := (List.getElem?_eq_some_iff.mp hj)
  obtain ⟨li, ei⟩ := h1
  obtain ⟨lj, ej⟩ := h2
  have := List.pairwise_iff_getElem.mp h.sorted i j (by simpa [tops] using li)
    (by simpa [tops] using lj) hij
  simpa [tops, ei, ej] using this

theorem id_lt_next {b : Builder} (h : WF b) {i : Nat} {t : Tree} (hi : b.forest[i]? = some t) :
    t.id < b.nextId := by
  apply h.lt
  simp only [tops, List.mem_map]
  exact ⟨t, List.mem_of_getElem? hi, rfl⟩

/-- A cell has one position only. -/
theorem Pos.unique {b : Builder} (h : WF b) {c i j : Nat} (hi : Pos b c i) (hj : Pos b c j) :
    i = j := by
  obtain ⟨v, hv, h1⟩ := hi
  obtain ⟨v', hv', h2⟩ := hj
  rw [hv] at hv'
  cases hv'
  rcases h1 with ⟨t, ht, rfl⟩ | ⟨rfl, rfl⟩ <;> rcases h2 with ⟨t', ht', hid⟩ | ⟨rfl, hid⟩
  · rcases Nat.lt_trichotomy i j with hlt | heq | hgt
    · have := ids_lt_of_lt h ht ht' hlt; omega
    · exact heq
    · have := ids_lt_of_lt h ht' ht hgt; omega
  · have := id_lt_next h ht; omega
  · have := id_lt_next h ht'; omega
  · rfl

/-- Two cells at the same position of existing trees are the same cell. -/
theorem Pos.same_cell {b : Builder} (h : Good b) {c c' i : Nat} (hi : Pos b c i) (hj : Pos b c' i) :
    c = c' := by
  obtain ⟨v, hv, h1⟩ := hi
  obtain ⟨v', hv', h2⟩ := hj
  have : v = v' := by
    rcases h1 with ⟨t, ht, rfl⟩ | ⟨hl, rfl⟩ <;> rcases h2 with ⟨t', ht', rfl⟩ | ⟨hl', rfl⟩
    · rw [ht] at ht'; cases ht'; rfl
    · rw [hl', List.getElem?_eq_none (Nat.le_refl _)] at ht; cases ht
    · rw [hl, List.getElem?_eq_none (Nat.le_refl _)] at ht'; cases ht'
    · rfl
  subst this
  exact h.inj c c' v hv hv'

theorem good_init : Good {} :=
  ⟨chain_init.wf, fun c c' v h _ => by simp at h⟩

/-! ### Insertion -/

theorem insert_good {b : Builder} (h : Good b) (t : Tree) (ht : t.id = b.nextId) (k : Nat)
    (hk : b.nextId < k) :
    let b' : Builder := { b with forest := b.forest ++ [t], nextId := k }
    Good b' ∧ NoNext b' ∧ Ext b.forest.length b b' := by
  intro b'
  have hch : Chain b [] := ⟨h.wf, (fun _ hc => nomatch hc), List.Pairwise.nil⟩
  refine ⟨⟨(hch.insert t ht k hk).wf, h.inj⟩, ?_, ?_⟩
  · intro c hc
    have := h.wf.le c _ hc
    simp only [b'] at this
    omega
  · refine ⟨Nat.le_refl _, by simp [b'], by simp [b'], ?_⟩
    intro c i hi hp
    obtain ⟨v, hv, hvv⟩ := hp
    refine ⟨v, hv, Or.inl ?_⟩
    rcases hvv with ⟨t', ht', hid⟩ | ⟨rfl, rfl⟩
    · refine ⟨t', ?_, hid⟩
      have := (List.getElem?_eq_some_iff.mp ht').1
      simp only [b']
      rw [List.getElem?_append_left this]; exact ht'
    · exact ⟨t, by simp [b'], ht⟩

/-! ### `checkpoint` -/

theorem checkpoint_exact {s : PState} (h : Good s.b) :
    Tot checkpoint s (fun c s' => s'.toks = s.toks ∧ s'.b.forest = s.b.forest ∧
      s'.b.nextId = s.b.nextId ∧ Good s'.b ∧ Pos s'.b c s.b.forest.length ∧
      Ext s.b.forest.length s.b s'.b) := by
  have hnew : (∀ c : Nat, s.b.cells[c]? ≠ some s.b.nextId) →
      ∃ a s', (Except.ok (s.b.cells.length, { s with b := { s.b with
        cells := s.b.cells ++ [s.b.nextId], last := some s.b.cells.length } }) :
          Except BErr (Nat × PState)) = .ok (a, s') ∧ s'.toks = s.toks ∧ s'.b.forest = s.b.forest ∧
      s'.b.nextId = s.b.nextId ∧ Good s'.b ∧ Pos s'.b a s.b.forest.length ∧
      Ext s.b.forest.length s.b s'.b := by
    intro hno
    have hch : Chain s.b [] := ⟨h.wf, (fun _ hc => nomatch hc), List.Pairwise.nil⟩
    have hget : ∀ (c v : Nat), s.b.cells[c]? = some v →
        (s.b.cells ++ [s.b.nextId])[c]? = some v := by
      intro c v hv
      have := (List.getElem?_eq_some_iff.mp hv).1
      rw [List.getElem?_append_left this]; exact hv
    refine ⟨_, _, rfl, rfl, rfl, rfl, ⟨(hch.snoc_new hno).wf, ?_⟩, ?_, ?_⟩
    · intro c c' v hc hc'
      simp only at hc hc'
      rw [List.getElem?_append] at hc hc'
      split at hc <;> split at hc'
      · exact h.inj c c' v hc hc'
      · rename_i h1 h2
        have hl := (List.getElem?_eq_some_iff.mp hc').1
        simp only [List.length_singleton] at hl
        have : c' - s.b.cells.length = 0 := by omega
        rw [this] at hc'
        simp only [List.getElem?_cons_zero, Option.some.injEq] at hc'
        subst hc'
        exact absurd hc (hno c)
      · rename_i h1 h2
        have hl := (List.getElem?_eq_some_iff.mp hc).1
        simp only [List.length_singleton] at hl
        have : c - s.b.cells.length = 0 := by omega
        rw [this] at hc
        simp only [List.getElem?_cons_zero, Option.some.injEq] at hc
        subst hc
        exact absurd hc' (hno c')
      · have hl := (List.getElem?_eq_some_iff.mp hc).1
        have hl' := (List.getElem?_eq_some_iff.mp hc').1
        simp only [List.length_singleton] at hl hl'
        omega
    · exact ⟨s.b.nextId, by simp, Or.inr ⟨rfl, rfl⟩⟩
    · refine ⟨Nat.le_refl _, Nat.le_refl _, rfl, ?_⟩
      intro c i _ hp
      obtain ⟨v, hv, hvv⟩ := hp
      exact ⟨v, hget c v hv, hvv⟩
  unfold checkpoint Tot
  simp only
  split
  · rename_i c0 hlast
    split
    · rename_i hc
      simp only [beq_iff_eq] at hc
      exact ⟨_, _, rfl, rfl, rfl, rfl, h, ⟨_, hc, Or.inr ⟨rfl, rfl⟩⟩, Ext.refl (Nat.le_refl _)⟩
    · rename_i hc
      simp only [beq_iff_eq] at hc
      apply hnew
      intro c hcc
      have := h.wf.last c hcc
      rw [hlast] at this
      cases this
      exact hc hcc
  · rename_i hlast
    apply hnew
    intro c hcc
    have := h.wf.last c hcc
    rw [hlast] at this
    cases this

/-! ### `closeAt` -/

theorem findTop_pos {b : Builder} (h : WF b) {i : Nat} {t : Tree} (hi : b.forest[i]? = some t) :
    findTop b.forest t.id = some i := by
  unfold findTop
  rw [List.findIdx?_eq_some_iff_getElem]
  obtain ⟨li, ei⟩ := List.getElem?_eq_some_iff.mp hi
  refine ⟨li, by simp [ei], ?_⟩
  intro j hj
  have hjl : j < b.forest.length := by omega
  have := ids_lt_of_lt h (List.getElem?_eq_getElem hjl) hi hj
  simp only [beq_iff_eq, ne_eq]
  omega

/-- Closing a checkpoint at an existing position: everything from there on becomes the
children of one new node. -/
theorem closeAt_wrap {s : PState} {c i : Nat} (kind : Syntax) (h : Good s.b) (hn : NoNext s.b)
    (hp : Pos s.b c i) (hi : i < s.b.forest.length) :
    Tot (closeAt c kind) s (fun _ s' => s'.toks = s.toks ∧
      (∃ id, s'.b.forest = s.b.forest.take i ++ [.node id kind (s.b.forest.drop i)]) ∧
      Good s'.b ∧ NoNext s'.b ∧ Pos s'.b c i ∧ Ext i s.b s'.b) := by
  obtain ⟨v, hv, hvv⟩ := hp
  have hex : ∃ t, s.b.forest[i]? = some t ∧ t.id = v := by
    rcases hvv with h1 | ⟨h1, _⟩
    · exact h1
    · omega
  obtain ⟨t, ht, hid⟩ := hex
  have hlt : v < s.b.nextId := hid ▸ id_lt_next h.wf ht
  have hfi : findTop s.b.forest v = some i := hid ▸ findTop_pos h.wf ht
  have hch : Chain s.b ([] ++ [c]) := by
    refine ⟨h.wf, ?_, by simp⟩
    intro a ha
    simp only [List.nil_append, List.mem_singleton] at ha
    subst ha
    refine ⟨v, hv, Or.inr ?_⟩
    simp only [tops, List.mem_map]
    exact ⟨t, List.mem_of_getElem? ht, hid⟩
  have hwf' := (hch.wrap (kind := kind) hv hlt hfi).wf
  have hset : ∀ a : Nat, (s.b.cells.set c s.b.nextId)[a]? =
      if c = a then some s.b.nextId else s.b.cells[a]? := by
    intro a
    rw [List.getElem?_set]
    have hcl : c < s.b.cells.length := (List.getElem?_eq_some_iff.mp hv).1
    split
    · simp
    · rfl
  have hge : ¬ v ≥ s.b.nextId := by omega
  unfold closeAt Tot
  simp only [hv, hge, ↓reduceIte, hfi]
  refine ⟨_, _, rfl, rfl, ⟨_, rfl⟩, ⟨hwf', ?_⟩, ?_, ?_, ?_⟩
  · -- injectivity
    intro a a' w ha ha'
    simp only at ha ha'
    rw [hset] at ha ha'
    split at ha <;> split at ha'
    · omega
    · cases ha; exact absurd ha' (hn a')
    · cases ha'; exact absurd ha (hn a)
    · exact h.inj a a' w ha ha'
  · intro a ha
    simp only at ha
    rw [hset] at ha
    split at ha
    · have := Option.some.inj ha; omega
    · have := h.wf.le a _ ha; omega
  · refine ⟨s.b.nextId, by simp only; rw [hset]; simp, Or.inl ⟨.node s.b.nextId kind (s.b.forest.drop i), ?_, rfl⟩⟩
    simp only
    rw [List.getElem?_append_right (by simp; omega)]
    simp [Nat.min_eq_left (Nat.le_of_lt hi)]
  · refine ⟨Nat.le_of_lt hi, by simp; omega, List.take_left' (by simp; omega), ?_⟩
    intro a j hj hpa
    by_cases hac : a = c
    · subst hac
      have hji : i = j := (Pos.unique h.wf hpa ⟨v, hv, Or.inl ⟨t, ht, hid⟩⟩).symm
      subst hji
      refine ⟨s.b.nextId, by simp only; rw [hset]; simp, Or.inl ⟨.node s.b.nextId kind (s.b.forest.drop i), ?_, rfl⟩⟩
      simp only
      rw [List.getElem?_append_right (by simp; omega)]
      simp [Nat.min_eq_left (Nat.le_of_lt hi)]
    · obtain ⟨w, hw, hww⟩ := hpa
      have hjne : j ≠ i := by
        intro hji
        subst hji
        exact hac (Pos.same_cell h ⟨w, hw, hww⟩ ⟨v, hv, Or.inl ⟨t, ht, hid⟩⟩)
      have hjlt : j < i := by omega
      refine ⟨w, by simp only; rw [hset, if_neg (Ne.symm hac)]; exact hw, Or.inl ?_⟩
      rcases hww with ⟨t', ht', hid'⟩ | ⟨hl, _⟩
      · refine ⟨t', ?_, hid'⟩
        simp only
        rw [List.getElem?_append_left (by simp; omega), List.getElem?_take_of_lt hjlt]
        exact ht'
      · omega

/-- Closing a checkpoint that points at the node to be inserted next inserts an empty node. -/
theorem closeAt_empty {s : PState} {c : Nat} (kind : Syntax) (h : Good s.b)
    (hp : Pos s.b c s.b.forest.length) :
    Tot (closeAt c kind) s (fun _ s' => s'.toks = s.toks ∧
      (∃ id, s'.b.forest = s.b.forest ++ [.node id kind []]) ∧
      Good s'.b ∧ NoNext s'.b ∧ Pos s'.b c s.b.forest.length ∧
      Ext s.b.forest.length s.b s'.b) := by
  obtain ⟨v, hv, hvv⟩ := hp
  have hveq : v = s.b.nextId := by
    rcases hvv with ⟨t, ht, _⟩ | ⟨_, h2⟩
    · rw [List.getElem?_eq_none (Nat.le_refl _)] at ht; cases ht
    · exact h2
  subst hveq
  obtain ⟨g, n, e⟩ := insert_good h (.node s.b.nextId kind []) rfl (s.b.nextId + 1)
    (Nat.lt_succ_self _)
  unfold closeAt Tot
  simp only [hv, ge_iff_le, Nat.le_refl, ↓reduceIte, ne_eq, not_true_eq_false]
  exact ⟨_, _, rfl, rfl, ⟨_, rfl⟩, g, n, e.pos c _ (Nat.le_refl _) ⟨_, hv, Or.inr ⟨rfl, rfl⟩⟩, e⟩

/-! ### Tokens: `bump`, `bumpN`, `bumpNode`, `eat`, `countSkip`, `nth` -/

/-- A run of WHITESPACE tokens. -/
def AllWS (W : List Token) : Prop := ∀ t ∈ W, t.kind = .WHITESPACE

/-- A run of WHITESPACE leaves. -/
def WSTrees (F : List Tree) : Prop := ∀ t ∈ F, ∃ id text, t = .tok id .WHITESPACE text

/-- The token list does not start with a WHITESPACE token. -/
def NotWSHead (K : List Token) : Prop := ∀ t r, K = t :: r → t.kind ≠ .WHITESPACE

theorem wsTrees_nil : WSTrees [] := fun _ h => nomatch h

theorem wsTrees_append {F G : List Tree} (hF : WSTrees F) (hG : WSTrees G) : WSTrees (F ++ G) := by
  intro t ht
  rcases List.mem_append.mp ht with h | h
  · exact hF t h
  · exact hG t h

theorem bump_exact {s : PState} {t : Token} {rest : List Token} (ht : s.toks = t :: rest)
    (h : Good s.b) :
    Tot bump s (fun _ s' => s'.toks = rest ∧
      (∃ id, s'.b.forest = s.b.forest ++ [.tok id t.kind t.text]) ∧
      Good s'.b ∧ NoNext s'.b ∧ Ext s.b.forest.length s.b s'.b) := by
  obtain ⟨g, n, e⟩ := insert_good h (.tok s.b.nextId t.kind t.text) rfl (s.b.nextId + 1)
    (Nat.lt_succ_self _)
  unfold bump Tot
  simp only [ht]
  exact ⟨_, _, rfl, rfl, ⟨_, rfl⟩, g, n, e⟩

theorem bumpNode_exact {s : PState} {t : Token} {rest : List Token} (kind : Syntax)
    (ht : s.toks = t :: rest) (h : Good s.b) :
    Tot (bumpNode kind) s (fun _ s' => s'.toks = rest ∧
      (∃ id id', s'.b.forest = s.b.forest ++ [.node id kind [.tok id' t.kind t.text]]) ∧
      Good s'.b ∧ NoNext s'.b ∧ Ext s.b.forest.length s.b s'.b) := by
  obtain ⟨g, n, e⟩ := insert_good h
    (.node s.b.nextId kind [.tok (s.b.nextId + 1) t.kind t.text]) rfl (s.b.nextId + 2) (by omega)
  unfold bumpNode Tot
  simp only [ht]
  exact ⟨_, _, rfl, rfl, ⟨_, _, rfl⟩, g, n, e⟩

theorem bumpN_ws : ∀ (W : List Token) {s : PState} {K : List Token}, s.toks = W ++ K →
    AllWS W → Good s.b →
    Tot (bumpN W.length) s (fun _ s' => s'.toks = K ∧
      (∃ F, s'.b.forest = s.b.forest ++ F ∧ WSTrees F ∧ F.length = W.length) ∧
      Good s'.b ∧ (NoNext s.b ∨ W ≠ [] → NoNext s'.b) ∧ Ext s.b.forest.length s.b s'.b)
  | [], s, K, ht, _, h => by
    exact tot_pure ⟨by simpa using ht, ⟨[], by simp, wsTrees_nil, rfl⟩, h,
      fun hn => hn.elim id (fun hne => absurd rfl hne), Ext.refl (Nat.le_refl _)⟩
  | t :: W, s, K, ht, hw, h => by
    simp only [List.length_cons, bumpN]
    refine tot_seq (bump_exact (t := t) (rest := W ++ K) (by simpa using ht) h)
      fun _ s1 ⟨ht1, ⟨id, hf1⟩, g1, n1, e1⟩ => ?_
    refine tot_mono (bumpN_ws W ht1 (fun x hx => hw x (by simp [hx])) g1)
      fun _ s2 ⟨ht2, ⟨F, hf2, hF, hlen⟩, g2, n2, e2⟩ => ?_
    refine ⟨ht2, ⟨.tok id t.kind t.text :: F, by rw [hf2, hf1]; simp, ?_, by simp [hlen]⟩, g2,
      fun _ => n2 (Or.inl n1), e1.trans (e2.mono (by rw [hf1]; simp))⟩
    intro x hx
    rcases List.mem_cons.mp hx with rfl | hx
    · exact ⟨id, t.text, by rw [hw t (by simp)]⟩
    · exact hF x hx

theorem countSkip_ws (W K : List Token) (hw : AllWS W) (hk : NotWSHead K) :
    Lexer.countWhile' (fun t : Token => t.kind == .WHITESPACE) (W ++ K) = W.length := by
  induction W with
  | nil =>
    cases K with
    | nil => rfl
    | cons t r =>
      have := hk t r rfl
      simp [Lexer.countWhile', this]
  | cons t W ih =>
    simp only [List.cons_append, Lexer.countWhile', hw t (by simp), beq_self_eq_true, ↓reduceIte,
      List.length_cons]
    rw [ih (fun x hx => hw x (by simp [hx]))]
    omega

/-- `countSkip` on a buffer that starts with the blank `W`. -/
theorem tot_countSkip_ws {β} {f : Nat → PM β} {s : PState} {Q : β → PState → Prop}
    (W K : List Token) (ht : s.toks = W ++ K) (hw : AllWS W) (hk : NotWSHead K)
    (h : Tot (f W.length) s Q) : Tot (countSkip >>= f) s Q := by
  refine tot_seq (P := fun k s' => s' = s ∧ k = W.length) ⟨_, s, rfl, rfl, ?_⟩
    fun k _ ⟨hs, hk'⟩ => hs ▸ hk' ▸ h
  rw [ht, countSkip_ws W K hw hk]

/-- The kind `nth` sees after the blank `W`. -/
def headKind (K : List Token) : Syntax :=
  match K with
  | [] => .EOF
  | t :: _ => t.kind

theorem kAt_ws {s : PState} (W K : List Token) (ht : s.toks = W ++ K) :
    kAt s (W.length + 0) = headKind K := by
  unfold kAt headKind
  rw [ht, Nat.add_zero, List.getElem?_append_right (Nat.le_refl _), Nat.sub_self]
  cases K <;> rfl

theorem tot_nth_ws {β} {f : Syntax → PM β} {s : PState} {Q : β → PState → Prop}
    (W K : List Token) (ht : s.toks = W ++ K)
    (h : Tot (f (headKind K)) s Q) : Tot (nth W.length 0 >>= f) s Q :=
  tot_nth_bind fun k hk => by rw [hk, kAt_ws W K ht]; exact h

theorem tot_then_pure {m : PM Unit} {s : PState} {Q : Unit → PState → Prop} (h : Tot m s Q) :
    Tot (m >>= fun _ => (pure () : PM Unit)) s Q :=
  tot_seq h (fun _ _ h1 => tot_pure h1)

theorem eat_yes {s : PState} (W : List Token) (t : Token) (rest : List Token) (k : Syntax)
    (ht : s.toks = W ++ t :: rest) (hw : AllWS W) (hk : t.kind = k) (h : Good s.b) :
    Tot (eat W.length [k]) s (fun r s' => r = true ∧ s'.toks = rest ∧
      (∃ F id, s'.b.forest = s.b.forest ++ F ++ [.tok id t.kind t.text] ∧ WSTrees F ∧
        F.length = W.length) ∧
      Good s'.b ∧ NoNext s'.b ∧ Ext s.b.forest.length s.b s'.b) := by
  unfold eat Tot
  dsimp only
  split
  · show Tot (bumpN W.length >>= _) s _
    refine tot_seq (bumpN_ws W ht hw h) fun _ s1 ⟨ht1, ⟨F, hf1, hF, hlen⟩, g1, _, e1⟩ => ?_
    simp only [List.length_singleton, bumpN]
    refine tot_seq (tot_then_pure (bump_exact ht1 g1)) fun _ s2 ⟨ht2, ⟨id, hf2⟩, g2, n2, e2⟩ => ?_
    exact tot_pure ⟨rfl, ht2, ⟨F, id, by rw [hf2, hf1], hF, hlen⟩, g2, n2,
      e1.trans (e2.mono (by rw [hf1]; simp))⟩
  · rename_i hno
    exfalso
    apply hno
    simp [ht, hk]

theorem eat_no {s : PState} (W K : List Token) (k : Syntax) (ht : s.toks = W ++ K)
    (hk : headKind K ≠ k) : eat W.length [k] s = .ok (false, s) := by
  unfold eat
  dsimp only
  split
  · rename_i hyes
    exfalso
    cases K with
    | nil => simp [ht] at hyes
    | cons t r =>
      have : t.kind ≠ k := hk
      simp [ht, this] at hyes
  · rfl

/-! ### Fuel monotonicity in `Tot` form -/

theorem tot_le {α} {m m' : PM α} {s : PState} {Q : α → PState → Prop} (hle : PFuel.Le m m')
    (h : Tot m s Q) : Tot m' s Q := by
  obtain ⟨a, s', hm, hq⟩ := h
  exact ⟨a, s', hle s _ hm, hq⟩

theorem le_of_step {α} (m : Nat → PM α) (h : ∀ F, PFuel.Le (m F) (m (F + 1))) {F F' : Nat}
    (hF : F ≤ F') : PFuel.Le (m F) (m F') := by
  induction hF with
  | refl => exact PFuel.le_refl _
  | step _ ih => exact PFuel.le_trans ih (h _)

theorem le_value {F F' : Nat} (h : F ≤ F') (skip : Nat) : PFuel.Le (value F skip) (value F' skip) :=
  le_of_step (fun F => value F skip) (fun F => (PFuel.le_mutual F).1 skip) h

theorem le_argsLoop {F F' : Nat} (h : F ≤ F') : PFuel.Le (argsLoop F) (argsLoop F') :=
  le_of_step argsLoop (fun F => (PFuel.le_mutual F).2.1) h

theorem le_callArguments {F F' : Nat} (h : F ≤ F') :
    PFuel.Le (callArguments F) (callArguments F') :=
  le_of_step callArguments (fun F => (PFuel.le_mutual F).2.2.1) h

theorem le_opLoop {F F' : Nat} (h : F ≤ F') (opn : Nat) (st : List (Nat × Nat × Bool))
    (first : Bool) (skip : Nat) :
    PFuel.Le (opLoop F opn st first skip) (opLoop F' opn st first skip) :=
  le_of_step (fun F => opLoop F opn st first skip)
    (fun F => (PFuel.le_mutual F).2.2.2.1 opn st first skip) h

theorem le_operation {F F' : Nat} (h : F ≤ F') (skip : Nat) :
    PFuel.Le (operation F skip) (operation F' skip) :=
  le_of_step (fun F => operation F skip) (fun F => (PFuel.le_mutual F).2.2.2.2 skip) h

theorem le_unit {F F' : Nat} (h : F ≤ F') (skip : Nat) : PFuel.Le (unit F skip) (unit F' skip) :=
  le_of_step (fun F => unit F skip) (fun F => PFuel.le_unit F skip) h

end Anything.C06
