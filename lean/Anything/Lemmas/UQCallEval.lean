import Anything.Lemmas.UQCall2
/-!
# Stage 2 — the evaluator and `Eval.query` on a one-argument builtin call over a quantity
expression

`eval_callU`: on the FN_CALL tree of `f(e)` the evaluator evaluates the argument (value and log as
in `eval_repU_full`) and applies the builtin: the unit is kept, the magnitude is rounded
(`roundFn`: `floorI`, `ceilI`, `roundHalfAway` of `Spec.Arith`).
-/

namespace Anything.UQ
open Anything Anything.Eval Anything.Spec Anything.Spec.Arith Anything.Spec.Decimal
open Anything.Spec.Quantity Anything.Spec.SI Anything.QQ Anything.FQ
open Anything.C06 (opKids at_opKids map_eq_cons map_eq_one at_eta kids_node kind_node
  opKids_size_le size_node queryLoop_ws)

/-- The result of `f(e)` against the specification's reading of `e`: the result `r₀` the argument
alone would give (which agrees with `denote false e`) with its magnitude rounded and its unit kept;
an error when the argument has no value. -/
def CallOutcome (f : Fn) (e : QExpr) (r : Except EvalErr Numeric) : Prop :=
  match denote false e with
  | .ok v => (∃ r₀, Agree r₀ v ∧ r = .ok { value := roundFn f r₀.value, unit := r₀.unit }) ∨
      (PowRiskU e ∧ ∃ s t, r = .error (.err .badArgument s t))
  | .error _ => ∃ k s t, r = .error (.err k s t)

theorem builtin_apply (cfg : Cfg) (f : Fn) (s e : Nat) (a : Numeric) (d : List Desc) :
    (match f with
      | .round => builtinRound cfg s e [a]
      | .floor => builtinFloor s e [a]
      | .ceil => builtinCeil s e [a]) d = (.ok { value := roundFn f a.value, unit := a.unit }, d) := by
  cases f with
  | round => exact Props.C10.C10_builtin_round1 cfg s e a d
  | floor => exact Props.C10.C10_builtin_floor s e a d
  | ceil => exact Props.C10.C10_builtin_ceil s e a d

/-- **The evaluator on the tree of a one-argument builtin call.** -/
theorem eval_callU (cfg : Cfg) (t : Tree) (f : Fn) (e : QExpr) (off fuel : Nat) (d : List Desc)
    (h : RepCall t f e) (hu : UnitsOKU cfg e) (hdet : Determinate e) (hf : 2 * size t ≤ fuel) :
    ∃ r L, eval cfg fuel ⟨off, t⟩ d = (r, d ++ L) ∧ CallOutcome f e r ∧ L <+: descLog cfg e ∧
      ((∃ a, r = .ok a) → L = descLog cfg e) := by
  obtain ⟨id, ks, nm, aid, aks, more, x, rfl, hop, hnk, hnt, hak, hx⟩ := h
  have hL := at_opKids ⟨off, .node id .FN_CALL ks⟩
  simp only [kids_node, hop] at hL
  obtain ⟨nma, L1, hLeq, hnma, hL1⟩ := map_eq_cons hL
  obtain ⟨arga, morea, rfl, harga, _⟩ := map_eq_cons hL1
  have hA := at_opKids arga
  rw [harga] at hA
  simp only [kids_node, hak] at hA
  obtain ⟨xa, hAeq, hxa⟩ := map_eq_one hA
  have hs1 := opKids_size_le ks
  have hs2 := opKids_size_le aks
  simp only [hop, hak, sizeList, size_node] at hs1 hs2 hf
  have p0 := C06.size_pos nm
  obtain ⟨F, rfl⟩ : ∃ F, fuel = F + 2 := ⟨fuel - 2, by omega⟩
  obtain ⟨r, L, hr, hv, hp, hok⟩ := eval_repU_full cfg x e xa.off F d hx hu hdet (by omega)
  rw [← hxa, at_eta] at hr
  have hk1 : (nma.t.kind != Syntax.FN_NAME) = false := by rw [hnma, hnk]; rfl
  have hk2 : (arga.t.kind != Syntax.FN_ARGUMENTS) = false := by rw [harga]; rfl
  cases r with
  | error x' =>
    refine ⟨.error x', L, ?_, ?_, hp, fun ⟨a, ha⟩ => by cases ha⟩
    · simp only [eval, kind_node, hLeq, hk1, hk2, Bool.false_eq_true, ↓reduceIte, Eval.bind_apply,
        hAeq, evalArgs, hr]
    · unfold OutcomeV at hv
      unfold CallOutcome
      cases hd : denote false e with
      | ok v =>
        rw [hd] at hv
        rcases hv with ⟨y, hy, _⟩ | hbad
        · cases hy
        · exact Or.inr hbad
      | error y => rw [hd] at hv; exact hv
  | ok r₀ =>
    refine ⟨.ok { value := roundFn f r₀.value, unit := r₀.unit }, L, ?_, ?_, hp,
      fun _ => hok ⟨r₀, rfl⟩⟩
    · have hb := builtin_apply cfg f off (At.stop ⟨off, .node id .FN_CALL ks⟩) r₀ (d ++ L)
      simp only [eval, kind_node, hLeq, hk1, hk2, Bool.false_eq_true, ↓reduceIte, Eval.bind_apply,
        hAeq, evalArgs, hr, pure]
      rw [hnma, hnt]
      cases f <;> simpa [Fn.name] using hb
    · unfold OutcomeV at hv
      unfold CallOutcome
      cases hd : denote false e with
      | ok v =>
        rw [hd] at hv
        rcases hv with ⟨y, hy, ha, _⟩ | ⟨_, s, t', hbad⟩
        · cases hy
          exact Or.inl ⟨r₀, ha, rfl⟩
        · cases hbad
      | error y =>
        rw [hd] at hv
        obtain ⟨k, s, t', hk⟩ := hv
        cases hk

theorem repCall_kind {x : Tree} {f : Fn} {e : QExpr} (h : RepCall x f e) :
    (x.kind == Syntax.WHITESPACE) = false := by
  obtain ⟨id, ks, _, _, _, _, _, rfl, _⟩ := h
  rfl

/-- What `Eval.query` answers on the text of `f(e)`: exactly one result, `CallOutcome`, and the
description log of the argument. -/
def QueryCallOutcome (cfg : Cfg) (f : Fn) (e : QExpr)
    (res : Except BErr (List (Except EvalErr Numeric) × List Desc)) : Prop :=
  ∃ r L, res = .ok ([r], L) ∧ CallOutcome f e r ∧ L <+: descLog cfg e ∧
    ((∃ a, r = .ok a) → L = descLog cfg e)

theorem query_callU (cfg : Cfg) (f : Fn) (e : QExpr) (ws : Layout) (hwf : WFS e)
    (hl : CallLayoutOK e ws) (hu : UnitsOKU cfg e) (hdet : Determinate e) :
    QueryCallOutcome cfg f e (Eval.query cfg (renderCallQuery ⟨f, e, none⟩ ws)) := by
  obtain ⟨forest, hparse, Wt, x, Wt', hf, hWt, hWt', hx⟩ := parse_callU f e ws hwf hl
  unfold Eval.query
  rw [hparse]
  simp only
  rw [hf, List.append_assoc]
  obtain ⟨off, h1⟩ := queryLoop_ws cfg Wt hWt ([x] ++ Wt') 0
  rw [h1]
  simp only [List.singleton_append, kidsAt, queryLoop, repCall_kind hx, Bool.false_eq_true,
    ↓reduceIte]
  obtain ⟨off2, h2⟩ := queryLoop_ws cfg Wt' hWt' [] (off + x.len)
  obtain ⟨r, L, hr, hv, hp, hok⟩ := eval_callU cfg x f e off (2 * size x + 2) [] hx hu hdet
    (by omega)
  have h2' := h2 ([] ++ L)
  simp only [List.append_nil, kidsAt, queryLoop] at h2'
  refine ⟨r, L, ?_, hv, hp, hok⟩
  simp only [hr, h2']
  simp

/-! ### Two arguments: `round( e , n )` -/

/-- The evaluated arguments of a two-argument call: the first argument as `eval_repU_full`, the
second (a plain number) gives `value n` and reports nothing. -/
theorem evalArgs_two (cfg : Cfg) (x y : Tree) (e : QExpr) (n : Literal) (xa ya : At) (F : Nat)
    (d : List Desc) (hx : RepU x e) (hy : RepU y (.num n)) (hxa : xa.t = x) (hya : ya.t = y)
    (hu : UnitsOKU cfg e) (hdet : Determinate e) (hlit : LitOKQ n) (hfx : 2 * size x ≤ F + 1)
    (hfy : 2 * size y ≤ F) :
    ∃ r L, eval cfg (F + 1) xa d = (r, d ++ L) ∧ OutcomeV e r ∧ L <+: descLog cfg e ∧
      ((∃ a, r = .ok a) → L = descLog cfg e) ∧
      evalArgs cfg (F + 2) [xa, ya] d =
        (match r with
          | .ok r₀ => (.ok [r₀, { value := value n, unit := [] }], d ++ L)
          | .error z => (.error z, d ++ L)) := by
  obtain ⟨r, L, hr, hv, hp, hok⟩ := eval_repU_full cfg x e xa.off (F + 1) d hx hu hdet hfx
  rw [← hxa, at_eta] at hr
  refine ⟨r, L, hr, hv, hp, hok, ?_⟩
  cases r with
  | error z => simp only [evalArgs, Eval.bind_apply, hr]
  | ok r₀ =>
    obtain ⟨r2, L2, hr2, hv2, hp2, _⟩ := eval_repU_full cfg y (.num n) ya.off F (d ++ L) hy hlit
      trivial hfy
    rw [← hya, at_eta] at hr2
    have hL2 : L2 = [] := by
      have : descLog cfg (.num n) = [] := descLog_num cfg n
      rw [this] at hp2
      simpa using hp2
    subst hL2
    unfold OutcomeV at hv2
    rw [denote_num] at hv2
    rcases hv2 with ⟨w, hw, ha, _⟩ | ⟨hrisk, _⟩
    · subst hw
      have hw2 := (ha.plain_eq rfl).1
      simp only [evalArgs, Eval.bind_apply, hr, hr2, hw2, pure, List.append_nil]
    · exact absurd hrisk (by simp [PowRiskU])

/-- **The evaluator on the tree of `round( e , n )`**, `n` an integer literal within `i32`: the
result of `e` with its unit kept and its magnitude rounded to `n` digits (`Spec.Arith.roundTo`). -/
theorem eval_call2U_round (cfg : Cfg) (t : Tree) (e : QExpr) (n : Literal) (v : Val)
    (off fuel : Nat) (d : List Desc) (h : RepCall2 t .round e n) (hu : UnitsOKU cfg e)
    (hdet : Determinate e) (hlit : LitOKQ n) (hint : Arith.isInt (value n) = true)
    (hrange : -2147483648 ≤ (value n).num ∧ (value n).num ≤ 2147483647)
    (hv : denote false e = .ok v) (hp : ¬ PowRiskU e) (hf : 2 * size t ≤ fuel) :
    ∃ r₀, Agree r₀ v ∧ eval cfg fuel ⟨off, t⟩ d =
      (.ok { value := roundTo r₀.value (value n).num, unit := r₀.unit }, d ++ descLog cfg e) := by
  obtain ⟨id, ks, nm, aid, aks, more, x, y, rfl, hop, hnk, hnt, hak, hx, hy⟩ := h
  have hL := at_opKids ⟨off, .node id .FN_CALL ks⟩
  simp only [kids_node, hop] at hL
  obtain ⟨nma, L1, hLeq, hnma, hL1⟩ := map_eq_cons hL
  obtain ⟨arga, morea, rfl, harga, _⟩ := map_eq_cons hL1
  have hA := at_opKids arga
  rw [harga] at hA
  simp only [kids_node, hak] at hA
  obtain ⟨xa, A1, hAeq, hxa, hA1⟩ := map_eq_cons hA
  obtain ⟨ya, hA2, hya⟩ := map_eq_one hA1
  subst hA2
  have hs1 := opKids_size_le ks
  have hs2 := opKids_size_le aks
  simp only [hop, hak, sizeList, size_node] at hs1 hs2 hf
  have p0 := C06.size_pos nm
  obtain ⟨F, rfl⟩ : ∃ F, fuel = F + 3 := ⟨fuel - 3, by omega⟩
  obtain ⟨r, L, _, hov, _, hok, hargs⟩ := evalArgs_two cfg x y e n xa ya F d hx hy hxa hya hu hdet
    hlit (by omega) (by omega)
  unfold OutcomeV at hov
  rw [hv] at hov
  rcases hov with ⟨r₀, hr, ha, _⟩ | ⟨hrisk, _⟩
  · subst hr
    have hL' := hok ⟨r₀, rfl⟩
    subst hL'
    refine ⟨r₀, ha, ?_⟩
    have hk1 : (nma.t.kind != Syntax.FN_NAME) = false := by rw [hnma, hnk]; rfl
    have hk2 : (arga.t.kind != Syntax.FN_ARGUMENTS) = false := by rw [harga]; rfl
    have hden : (value n).den = 1 := by simpa [Arith.isInt] using hint
    have hn : (((value n).num : Int) : Rat) = value n := Rat.coe_int_num_of_den_eq_one hden
    have hb := Props.C10.C10_builtin_round2 cfg off (At.stop ⟨off, .node id .FN_CALL ks⟩) r₀
      (value n).num [] hrange (d ++ descLog cfg e)
    rw [hn] at hb
    simp only [eval, kind_node, hLeq, hk1, hk2, Bool.false_eq_true, ↓reduceIte, Eval.bind_apply,
      hAeq, hargs]
    rw [hnma, hnt]
    simpa [Fn.name] using hb
  · exact absurd hrisk hp

/-- When the first argument has no value, the call is an error (whatever the builtin and the
second argument). -/
theorem eval_call2U_err (cfg : Cfg) (t : Tree) (f : Fn) (e : QExpr) (n : Literal) (z : QErr)
    (off fuel : Nat) (d : List Desc) (h : RepCall2 t f e n) (hu : UnitsOKU cfg e)
    (hdet : Determinate e) (hlit : LitOKQ n) (hv : denote false e = .error z)
    (hf : 2 * size t ≤ fuel) :
    ∃ k s t' L, eval cfg fuel ⟨off, t⟩ d = (.error (.err k s t'), L) := by
  obtain ⟨id, ks, nm, aid, aks, more, x, y, rfl, hop, hnk, hnt, hak, hx, hy⟩ := h
  have hL := at_opKids ⟨off, .node id .FN_CALL ks⟩
  simp only [kids_node, hop] at hL
  obtain ⟨nma, L1, hLeq, hnma, hL1⟩ := map_eq_cons hL
  obtain ⟨arga, morea, rfl, harga, _⟩ := map_eq_cons hL1
  have hA := at_opKids arga
  rw [harga] at hA
  simp only [kids_node, hak] at hA
  obtain ⟨xa, A1, hAeq, hxa, hA1⟩ := map_eq_cons hA
  obtain ⟨ya, hA2, hya⟩ := map_eq_one hA1
  subst hA2
  have hs1 := opKids_size_le ks
  have hs2 := opKids_size_le aks
  simp only [hop, hak, sizeList, size_node] at hs1 hs2 hf
  have p0 := C06.size_pos nm
  obtain ⟨F, rfl⟩ : ∃ F, fuel = F + 3 := ⟨fuel - 3, by omega⟩
  obtain ⟨r, L, _, hov, _, _, hargs⟩ := evalArgs_two cfg x y e n xa ya F d hx hy hxa hya hu hdet
    hlit (by omega) (by omega)
  unfold OutcomeV at hov
  rw [hv] at hov
  obtain ⟨k, s, t', hr⟩ := hov
  subst hr
  have hk1 : (nma.t.kind != Syntax.FN_NAME) = false := by rw [hnma, hnk]; rfl
  have hk2 : (arga.t.kind != Syntax.FN_ARGUMENTS) = false := by rw [harga]; rfl
  refine ⟨k, s, t', d ++ L, ?_⟩
  simp only [eval, kind_node, hLeq, hk1, hk2, Bool.false_eq_true, ↓reduceIte, Eval.bind_apply,
    hAeq, hargs]

theorem repCall2_kind {x : Tree} {f : Fn} {e : QExpr} {n : Literal} (h : RepCall2 x f e n) :
    (x.kind == Syntax.WHITESPACE) = false := by
  obtain ⟨id, ks, _, _, _, _, _, _, rfl, _⟩ := h
  rfl

/-- `Eval.query` on a rendered two-argument call is the evaluator on the one FN_CALL tree. -/
theorem query_call2U_eval (cfg : Cfg) (f : Fn) (e : QExpr) (n : Literal) (ws : Layout)
    (hwf : WFS e) (hl : CallLayoutOK2 e n ws) :
    ∃ x off, RepCall2 x f e n ∧ Eval.query cfg (renderCallQuery ⟨f, e, some n⟩ ws) =
      .ok ([(eval cfg (2 * size x + 2) ⟨off, x⟩ []).1], (eval cfg (2 * size x + 2) ⟨off, x⟩ []).2) := by
  obtain ⟨forest, hparse, Wt, x, Wt', hf, hWt, hWt', hx⟩ := parse_call2U f e n ws hwf hl
  unfold Eval.query
  rw [hparse]
  simp only
  rw [hf, List.append_assoc]
  obtain ⟨off, h1⟩ := queryLoop_ws cfg Wt hWt ([x] ++ Wt') 0
  rw [h1]
  simp only [List.singleton_append, kidsAt, queryLoop, repCall2_kind hx, Bool.false_eq_true,
    ↓reduceIte]
  obtain ⟨off2, h2⟩ := queryLoop_ws cfg Wt' hWt' [] (off + x.len)
  have h2' := h2 (eval cfg (2 * size x + 2) ⟨off, x⟩ []).2
  simp only [List.append_nil, kidsAt, queryLoop] at h2'
  refine ⟨x, off, hx, ?_⟩
  rcases hev : eval cfg (2 * size x + 2) ⟨off, x⟩ [] with ⟨r, L⟩
  rw [hev] at h2'
  simp only [h2']

/-- Rounding the magnitude and keeping the unit, on both sides. -/
theorem agree_round {r₀ : Numeric} {v : Val} {sem : UnitSem} (ha : Agree r₀ v)
    (hun : v.unit = some sem) (m : Rat → Rat) :
    Agree { value := m r₀.value, unit := r₀.unit }
      { q := ⟨m (v.q.si / scale sem) * scale sem, v.q.dim⟩, plain := v.plain, unit := some sem } := by
  obtain ⟨hsame, hval⟩ := agree_value ha hun
  refine ⟨?_, ha.plain, ?_, ha.prop, ha.known⟩
  · have hd : SI.dims (semOf r₀.unit) = v.q.dim := by
      have := congrArg Q.dim ha.si
      simpa [Props.C04.siQ] using this
    simp only [Props.C04.siQ, hsame.2, hd, hval]
  · intro sem' h
    cases h
    exact ha.unit sem hun

/-- **`Eval.query` on the text of `round( e , n )`**, against `denoteCall`. -/
theorem query_call2U (cfg : Cfg) (f : Fn) (e : QExpr) (n : Literal) (ws : Layout) (hwf : WFS e)
    (hl : CallLayoutOK2 e n ws) (hu : UnitsOKU cfg e) (hdet : Determinate e) (hp : ¬ PowRiskU e)
    (hlit : LitOKQ n) (hrange : -2147483648 ≤ (value n).num ∧ (value n).num ≤ 2147483647) :
    (∀ w, denoteCall ⟨f, e, some n⟩ = .ok w → ∃ r,
      Eval.query cfg (renderCallQuery ⟨f, e, some n⟩ ws) = .ok ([.ok r], descLog cfg e) ∧ Agree r w) ∧
    ((∃ z, denote false e = .error z) → ∃ k s t L,
      Eval.query cfg (renderCallQuery ⟨f, e, some n⟩ ws) = .ok ([.error (.err k s t)], L)) := by
  obtain ⟨x, off, hx, hq⟩ := query_call2U_eval cfg f e n ws hwf hl
  constructor
  · intro w hw
    unfold denoteCall at hw
    simp only at hw
    cases hv : denote false e with
    | error z => rw [hv] at hw; cases hw
    | ok v =>
      rw [hv] at hw
      simp only at hw
      cases hun : v.unit with
      | none => rw [hun] at hw; cases hw
      | some sem =>
        rw [hun] at hw
        simp only at hw
        by_cases hint : Arith.isInt (value n) = true
        · simp only [hint, ↓reduceIte] at hw
          cases f with
          | floor => simp [roundMag] at hw
          | ceil => simp [roundMag] at hw
          | round =>
            simp only [roundMag, Except.ok.injEq] at hw
            obtain ⟨r₀, ha, hev⟩ := eval_call2U_round cfg x e n v off (2 * size x + 2) [] hx hu
              hdet hlit hint hrange hv hp (by omega)
            refine ⟨{ value := roundTo r₀.value (value n).num, unit := r₀.unit },
              by rw [hq, hev]; simp, ?_⟩
            rw [← hw]
            exact agree_round ha hun (fun y => roundTo y (value n).num)
        · simp [hint] at hw
  · rintro ⟨z, hz⟩
    obtain ⟨k, s, t, L, hev⟩ := eval_call2U_err cfg x f e n z off (2 * size x + 2) [] hx hu hdet
      hlit hz (by omega)
    exact ⟨k, s, t, L, by rw [hq, hev]⟩

end Anything.UQ
