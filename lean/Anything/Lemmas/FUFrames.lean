import Anything.Lemmas.FUShift
import Anything.Lemmas.QQFrames
import Anything.Lemmas.UQFrames
/-!
# The full expression language — the operator stack against the forest

`Lemmas/UQFrames.lean` over `RepF` / `FoldU`: a frame's segment reads `x₀ o₁ x₁ … oₖ xₖ o`; for the
`to` frame the pending operator node is an OP_CAST node and the operand that extends it is a UNIT
node. The first operand of every segment is not itself an operator application of the segment's
priority, so that the tree determines the evaluation order.
-/

namespace Anything.FU
open Anything Anything.Parser Anything.Grammar Anything.PTotal Anything.Spec.Arith
open Anything.Spec.Quantity Anything.C06 Anything.QQ Anything.UQ

/-- The tree represents the operand. -/
def RepOpdF (x : Tree) : FOpd → Prop
  | .ex e => RepF x e
  | .un u => RepUnit x u ∧ x.hasChildren = true

/-! ### Segments -/

theorem foldU_snoc {R : Tree → FExprU → Prop} {p : Nat} {acc e b : FExprU} {ts : List Tree}
    {o x : Tree} {op : BinOp} (h : FoldU R p acc ts e) (ho : o.kind = opKind op)
    (hp : op.prio = p) (hx : R x b) : FoldU R p acc (ts ++ [o, x]) (.bin op e b) := by
  induction h with
  | nil p acc => exact .cons ho hp hx (.nil _ _)
  | cons h1 h2 h3 _ ih => exact .cons h1 h2 h3 (ih hp)
  | cast h1 h2 h3 _ ih => exact .cast h1 h2 h3 (ih hp)

theorem foldU_snoc_cast {R : Tree → FExprU → Prop} {p : Nat} {acc e : FExprU} {ts : List Tree}
    {o x : Tree} {u : List RTerm} (h : FoldU R p acc ts e) (ho : o.kind = .OP_CAST)
    (hp : p = 1) (hx : RepUnit x u) : FoldU R p acc (ts ++ [o, x]) (.cast e u) := by
  induction h with
  | nil p acc => exact .cast ho hp hx (.nil _ _)
  | cons h1 h2 h3 _ ih => exact .cons h1 h2 h3 (ih hp)
  | cast h1 h2 h3 _ ih => exact .cast h1 h2 h3 (ih hp)

/-- An operand chain of level `p` without a pending operator. -/
def OpenSegF (p : Nat) (Y : List Tree) (v : FExprU) : Prop :=
  ∃ y ys e₀, opKids Y = y :: ys ∧ RepF y e₀ ∧ qprioF e₀ ≠ p ∧ FoldU RepF p e₀ ys v

/-- An operand chain of the level of `o` followed by the node of the pending operator `o`. -/
def SegOKF (S : List Tree) (acc : FExprU) (o : QOp) : Prop :=
  ∃ y ys e₀ on, opKids S = y :: (ys ++ [on]) ∧ RepF y e₀ ∧ qprioF e₀ ≠ o.prio ∧
    FoldU RepF o.prio e₀ ys acc ∧ on.kind = qopKind o

theorem hasChildren_of_repF' {x : Tree} {e : FExprU} (h : RepF x e) : x.hasChildren = true := by
  cases h with
  | num _ hc _ _ => exact hc
  | pct _ _ _ => rfl
  | qty _ _ _ _ _ => rfl
  | fact _ hc _ => exact hc
  | paren hk _ => exact node_hasChildren hk
  | chain hk _ _ _ _ => exact node_hasChildren hk
  | call1 hk _ _ _ _ => exact node_hasChildren hk
  | call2 hk _ _ _ _ _ _ _ _ => exact node_hasChildren hk

theorem hasChildren_of_repOpdF {x : Tree} {b : FOpd} (h : RepOpdF x b) : x.hasChildren = true := by
  cases b with
  | ex e => exact hasChildren_of_repF' h
  | un u => exact h.2

theorem openSegF_single {W : List Tree} {x : Tree} {e : FExprU} (p : Nat) (hW : WSTrees W)
    (hx : RepF x e) (hp : qprioF e ≠ p) : OpenSegF p (W ++ [x]) e :=
  ⟨x, [], e, by rw [opKids_append, opKids_ws hW, opKids_single (hasChildren_of_repF' hx)]; rfl,
    hx, hp, .nil _ _⟩

theorem segOKF_ws {S W : List Tree} {acc : FExprU} {o : QOp} (h : SegOKF S acc o) (hW : WSTrees W) :
    SegOKF (S ++ W) acc o := by
  obtain ⟨y, ys, e₀, on, hk, hy, hp, hf, ho⟩ := h
  exact ⟨y, ys, e₀, on, by rw [opKids_append, opKids_ws hW, hk]; simp, hy, hp, hf, ho⟩

/-- Equal priority: the frame absorbs the operand. -/
theorem segOKF_extend {S : List Tree} {x : Tree} {acc : FExprU} {b : FOpd} {o : QOp}
    (h : SegOKF S acc o) (hx : RepOpdF x b) (hm : MatchF o b) :
    OpenSegF o.prio (S ++ [x]) (mkF o acc b) := by
  obtain ⟨y, ys, e₀, on, hk, hy, hp, hf, ho⟩ := h
  have hkids : opKids (S ++ [x]) = y :: (ys ++ [on, x]) := by
    rw [opKids_append, hk, opKids_single (hasChildren_of_repOpdF hx)]
    simp
  cases o with
  | bin op =>
    cases b with
    | ex e => exact ⟨y, ys ++ [on, x], e₀, hkids, hy, hp, foldU_snoc hf ho rfl hx⟩
    | un u => exact absurd hm (by simp [MatchF])
  | cast =>
    cases b with
    | ex e => exact absurd hm (by simp [MatchF])
    | un u => exact ⟨y, ys ++ [on, x], e₀, hkids, hy, hp, foldU_snoc_cast hf ho rfl hx.1⟩

/-- Higher priority on the stack: the frame is closed into one OPERATION node, all of whose
operators have the priority of the frame. -/
theorem segOKF_close {S : List Tree} {x : Tree} {acc : FExprU} {b : FOpd} {o : QOp} (id : Nat)
    (h : SegOKF S acc o) (hx : RepOpdF x b) (hm : MatchF o b) :
    RepF (.node id .OPERATION (S ++ [x])) (mkF o acc b) := by
  obtain ⟨y, ys, e₀, hk, hy, hp, hf⟩ := segOKF_extend h hx hm
  refine .chain hk ?_ hy hp hf
  intro hnil
  subst hnil
  obtain ⟨y', ys', e₀', on, hk', _, _, _, _⟩ := h
  rw [opKids_append, hk', opKids_single (hasChildren_of_repOpdF hx)] at hk
  simp at hk

/-- The operator node is appended: an open segment becomes a frame segment. -/
theorem openSegF_op {Y W : List Tree} {on : Tree} {v : FExprU} {o : QOp} (h : OpenSegF o.prio Y v)
    (hW : WSTrees W) (hon : on.kind = qopKind o) (hc : on.hasChildren = true) :
    SegOKF (Y ++ W ++ [on]) v o := by
  obtain ⟨y, ys, e₀, hk, hy, hp, hf⟩ := h
  exact ⟨y, ys, e₀, on, by
    rw [opKids_append, opKids_append, opKids_ws hW, hk, opKids_single hc]; simp, hy, hp, hf, hon⟩

/-! ### The stack -/

inductive StackOKF (b : Builder) (n : Nat) :
    List Tree → List (Nat × Nat × Bool) → StackF → Prop
  | nil : StackOKF b n [] [] []
  | cons {G S : List Tree} {c : Nat} {acc : FExprU} {o : QOp}
      {stack : List (Nat × Nat × Bool)} {st : StackF} :
      StackOKF b n G stack st → SegOKF S acc o → Pos b c (n + G.length) →
      StackOKF b n (G ++ S) ((c, o.prio, o.isTo) :: stack) ((acc, o) :: st)

theorem StackOKF.mono {b b' : Builder} {n : Nat} {G : List Tree}
    {stack : List (Nat × Nat × Bool)} {st : StackF} (h : StackOKF b n G stack st)
    (he : Ext (n + G.length) b b') : StackOKF b' n G stack st := by
  induction h with
  | nil => exact .nil
  | @cons G S c acc o stack st _ hseg hpos ih =>
    have hle : n + G.length ≤ n + (G ++ S).length := by simp
    exact .cons (ih (he.mono hle)) hseg (he.pos c _ hle hpos)

theorem StackOKF.ws {b : Builder} {n : Nat} {G W : List Tree}
    {stack : List (Nat × Nat × Bool)} {st : StackF} (h : StackOKF b n G stack st)
    (hne : st ≠ []) (hW : WSTrees W) : StackOKF b n (G ++ W) stack st := by
  cases h with
  | nil => exact absurd rfl hne
  | cons h1 hseg hpos =>
    rw [List.append_assoc]
    exact .cons h1 (segOKF_ws hseg hW) hpos

theorem StackOKF.stack_ne {b : Builder} {n : Nat} {G : List Tree}
    {stack : List (Nat × Nat × Bool)} {st : StackF} (h : StackOKF b n G stack st)
    (hne : st ≠ []) : stack ≠ [] := by
  cases h with
  | nil => exact absurd rfl hne
  | cons _ _ _ => simp

/-- The flag of the top frame: `true` exactly for a `to` frame. -/
def isToTopF : StackF → Bool
  | [] => false
  | (_, o) :: _ => o.isTo

theorem StackOKF.isUnitTop {b : Builder} {n : Nat} {G : List Tree}
    {stack : List (Nat × Nat × Bool)} {st : StackF} (h : StackOKF b n G stack st) :
    isUnitTop stack = isToTopF st := by
  cases h <;> rfl

theorem isToTopF_noTo {st : StackF} (h : NoToF st) : isToTopF st = false := by
  cases st with
  | nil => rfl
  | cons f r =>
    obtain ⟨acc, o⟩ := f
    have := h (acc, o) (by simp)
    cases o with
    | bin b => rfl
    | cast => exact absurd rfl this

end Anything.FU
