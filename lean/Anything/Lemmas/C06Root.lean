import Anything.Lemmas.C06Parse
import Anything.Lemmas.C06Eval
/-!
# C06, stage D / final — the root rule, `parseRoot` and `Eval.query` on a rendered query
-/

namespace Anything.C06
open Anything Anything.Parser Anything.Grammar Anything.PTotal Anything.Spec.Arith Anything.Eval

/-- The shape of the parsed forest: blank leaves, one tree, blank leaves. -/
def ForestOK (forest : List Tree) (e : NExpr) : Prop :=
  ∃ Wt x Wt', forest = Wt ++ [x] ++ Wt' ∧ WSTrees Wt ∧ WSTrees Wt' ∧ RepresentsL x e

theorem headKind_toks_start (e : NExpr) (ws : Layout) (K : List Token) :
    (headKind (toks e ws ++ K) == Syntax.EOF) = false ∧
    (headKind (toks e ws ++ K) == Syntax.OPEN_BRACE || headKind (toks e ws ++ K) == Syntax.OPEN_PAREN
      || headKind (toks e ws ++ K) == Syntax.WORD || headKind (toks e ws ++ K) == Syntax.NUMBER) = true := by
  obtain ⟨t, r, h, hk⟩ := toks_head e ws
  rw [h]
  simp only [List.cons_append, headKind]
  rcases hk with h | h | h <;> rw [h] <;> exact ⟨rfl, rfl⟩

theorem root_spec (e : NExpr) (ws : Layout) (hwf : Spec.Arith.WF e) (hl : QueryLayoutOK e ws) :
    ∃ F, Tot (root F) { toks := queryToks e ws } (fun _ s' => ForestOK s'.b.forest e) := by
  obtain ⟨Fo, ho⟩ := opSpec e
  obtain ⟨hb0, hle, hb1⟩ := hl
  refine ⟨Fo + 2, ?_⟩
  have ht : ({ toks := queryToks e ws } : PState).toks = blankTok (blank1 ws) ++
      (toks e (rest1 ws) ++ (blankTok (blank1 (after e (rest1 ws))) ++ [])) := by
    simp [queryToks]
  unfold root
  refine tot_countSkip_ws _ _ ht (allWS_blankTok _) (toks_notWS e _ _) ?_
  refine tot_seq (checkpoint_exact (s := { toks := queryToks e ws }) good_init)
    fun c s1 ⟨ht1, hf1, _, g1, _, _⟩ => ?_
  have hf1' : s1.b.forest = [] := hf1
  refine tot_seq (P := fun r s' => r = false ∧ ForestOK s'.b.forest e) ?_ fun r s2 ⟨hr, hF⟩ => ?_
  · unfold rootLoop
    refine tot_nth_ws _ _ (ht1.trans ht) ?_
    obtain ⟨k1, k2⟩ := headKind_toks_start e (rest1 ws) (blankTok (blank1 (after e (rest1 ws))) ++ [])
    simp only [k1, k2, Bool.false_eq_true, ↓reduceIte]
    refine tot_seq (tot_le (le_operation (Nat.le_succ Fo) _)
      (ho (rest1 ws) s1 _ _ [] hwf hle g1 (ht1.trans ht) (allWS_blankTok _) (allWS_blankTok _)
        (Or.inr (Or.inr rfl)))) fun r s2 ⟨Wt, x, hr, ht2, hf2, hWt, hx, g2, _, _⟩ => ?_
    subst hr
    simp only
    unfold rootLoop
    refine tot_nth_ws _ [] ht2 ?_
    simp only [headKind, beq_self_eq_true, ↓reduceIte]
    refine tot_seq (bumpN_ws _ ht2 (allWS_blankTok _) g2)
      fun _ s3 ⟨_, ⟨Wt', hf3, hWt', _⟩, _, _, _⟩ => ?_
    exact tot_pure ⟨rfl, Wt, x, Wt', by rw [hf3, hf2, hf1']; simp, hWt, hWt', hx⟩
  subst hr
  simp only [Bool.false_eq_true, ↓reduceIte]
  exact tot_pure hF

/-- **Parser correctness on rendered queries.** -/
theorem parse_render (e : NExpr) (ws : Layout) (hwf : Spec.Arith.WF e) (hl : QueryLayoutOK e ws) :
    ∃ forest, parseRoot (renderQuery e ws) = .ok forest ∧ ForestOK forest e := by
  obtain ⟨F, _, s', hroot, hF⟩ := root_spec e ws hwf hl
  refine ⟨s'.b.forest, ?_, hF⟩
  unfold parseRoot parseRootToks
  rw [lex_query e ws hl]
  have hmax : fuelFor (queryToks e ws) ≤ max F (fuelFor (queryToks e ws)) := Nat.le_max_right _ _
  have h1 := PFuel.root_fuel_irrelevant (queryToks e ws) _ hmax
  have h2 := PFuel.le_root_of_le (Nat.le_max_left F (fuelFor (queryToks e ws))) _ _ hroot
  rw [← h1, h2]

/-! ### `Eval.query` -/

theorem queryLoop_ws (cfg : Cfg) (W : List Tree) (hW : WSTrees W) (rest : List Tree) (off : Nat) :
    ∃ off', ∀ d, queryLoop cfg (kidsAt off (W ++ rest)) d = queryLoop cfg (kidsAt off' rest) d := by
  induction W generalizing off with
  | nil => exact ⟨off, fun _ => rfl⟩
  | cons t W ih =>
    obtain ⟨id, text, rfl⟩ := hW t (by simp)
    obtain ⟨off', h⟩ := ih (fun x hx => hW x (by simp [hx])) (off + (Tree.tok id .WHITESPACE text).len)
    exact ⟨off', fun d => by simp only [List.cons_append, kidsAt, queryLoop, Tree.kind,
      beq_self_eq_true, ↓reduceIte, h]⟩

theorem represents_kind {x : Tree} {e : NExpr} (h : RepresentsL x e) :
    (x.kind == Syntax.WHITESPACE) = false := by
  cases h with
  | num hk _ _ _ => rw [hk]; rfl
  | pct _ _ _ => rfl
  | paren _ _ => rfl
  | chain _ _ _ _ => rfl
  | call0 _ => rfl
  | call _ _ _ _ _ => rfl

/-- What `Eval.query` answers, against the specification: one result, the exact value as a plain
number or an `err`; no descriptions. -/
def QueryOutcome (r : Except ArithErr Rat)
    (res : Except BErr (List (Except EvalErr Numeric) × List Desc)) : Prop :=
  match r with
  | .ok v => res = .ok ([.ok (plain v)], [])
  | .error _ => ∃ k s e, res = .ok ([.error (.err k s e)], [])

theorem query_render (cfg : Cfg) (e : NExpr) (ws : Layout) (hwf : Spec.Arith.WF e)
    (hl : QueryLayoutOK e ws) (hlit : LitsOK e) (hro : RoundOK e) :
    QueryOutcome (denote e) (Eval.query cfg (renderQuery e ws)) := by
  obtain ⟨forest, hparse, Wt, x, Wt', hf, hWt, hWt', hx⟩ := parse_render e ws hwf hl
  unfold Eval.query
  rw [hparse]
  simp only
  rw [hf, List.append_assoc]
  obtain ⟨off, h1⟩ := queryLoop_ws cfg Wt hWt ([x] ++ Wt') 0
  rw [h1]
  simp only [List.singleton_append, kidsAt, queryLoop, represents_kind hx, Bool.false_eq_true,
    ↓reduceIte]
  obtain ⟨off2, h2⟩ := queryLoop_ws cfg Wt' hWt' [] (off + x.len)
  have hev := evalOK_all cfg (2 * size x + 2) x e off [] (by omega) (repL_to_rep hx) hlit hro
  cases hd : denote e with
  | ok v =>
    rw [hd] at hev
    simp only [Outcome] at hev
    simp only [QueryOutcome, hev]
    have := h2 []
    simp only [List.append_nil, kidsAt, queryLoop] at this
    rw [this]
  | error y =>
    rw [hd] at hev
    obtain ⟨k, s, e', hk⟩ := hev
    refine ⟨k, s, e', ?_⟩
    simp only [hk]
    have := h2 []
    simp only [List.append_nil, kidsAt, queryLoop] at this
    rw [this]

/-- The single non-blank child of the parsed forest. -/
theorem forestOK_filter {forest : List Tree} {e : NExpr} (h : ForestOK forest e) :
    ∃ x, forest.filter (fun t => t.kind != .WHITESPACE) = [x] ∧ RepresentsL x e := by
  obtain ⟨Wt, x, Wt', hf, hWt, hWt', hx⟩ := h
  have hws : ∀ W : List Tree, WSTrees W → W.filter (fun t => t.kind != .WHITESPACE) = [] := by
    intro W hW
    simp only [List.filter_eq_nil_iff]
    intro t ht
    obtain ⟨id, text, rfl⟩ := hW t ht
    simp [Tree.kind]
  refine ⟨x, ?_, hx⟩
  rw [hf, List.filter_append, List.filter_append, hws Wt hWt, hws Wt' hWt']
  have := represents_kind hx
  simp only [beq_eq_false_iff_ne, ne_eq] at this
  simp [this]

theorem denote_paren_left (op : BinOp) (a b : NExpr) :
    denote (.bin op (.paren a) b) = denote (.bin op a b) := by simp only [denote]

theorem denote_paren_right (op : BinOp) (a b : NExpr) :
    denote (.bin op b (.paren a)) = denote (.bin op b a) := by simp only [denote]

theorem denote_paren_paren (a : NExpr) : denote (.paren (.paren a)) = denote a := by
  simp only [denote]

theorem denote_paren_arg (f : Fn) (a : NExpr) : denote (.call f [.paren a]) = denote (.call f [a]) := by
  simp only [denote, denoteList]

end Anything.C06
