import Anything.Lemmas.UQDefs
import Anything.Lemmas.UQFollow
import Anything.Lemmas.C9QEval
import Anything.Lemmas.FQEval
/-!
# The FULL expression language — definitions shared by `Lemmas/FU*.lean` and `Props/FullQuery.lean`

ONE abstract syntax `FExprU` for everything the `any` calculator reads as one expression:

* number literals, INCLUDING percent literals (`50%`, rendered with the `%` sign);
* literals with a written unit expression (any unit expression, so also a lone offset temperature
  scale `20 °C`, `5 mK`);
* looked-up fact phrases;
* `+ - * / ^`, parentheses, casts `to <unit>` (any unit expression as target);
* builtin calls `floor(e)`, `ceil(e)`, `round(e)`, `round(e, n)` ANYWHERE an operand may stand.

This file: the syntax (`FExprU`, `render`, `renderQuery`, `WFF`, `toksF`, `LayoutOKF`), the trees
the grammar builds (`RepF`), and the REFERENCE EVALUATION `evalF` — the model's own arithmetic
(`binEval`, `Compound.factor`, the builtins, the database lookup) composed along the abstract
syntax in the evaluator's order, in the evaluator's log monad, with spans `0 0` — together with
its scope `InScopeF`. The pipeline theorem (`Lemmas/FUQuery.lean`) says: `Eval.query` on the
rendered text answers exactly `evalF` (up to the spans of errors). The specification side
(`denoteF`, built from the clauses of `Spec.Quantity.denote`) is in `Lemmas/FUSpecDefs.lean`.
-/

namespace Anything.FU
open Anything Anything.Lexer Anything.Eval Anything.Spec Anything.Spec.Arith Anything.Spec.Decimal
open Anything.Spec.Quantity Anything.Spec.SI Anything.C06 Anything.QQ Anything.FQ Anything.UQ
open Anything.C9Q

/-! ### Abstract syntax -/

/-- Expressions of the full language. `call f arg prec`: `f(arg)` for `prec = none`,
`f(arg, n)` for `prec = some n` (a literal precision). -/
inductive FExprU
  | num (l : Literal)
  | qty (l : Literal) (u : List RTerm)
  | bin (op : BinOp) (a b : FExprU)
  | paren (e : FExprU)
  | cast (e : FExprU) (u : List RTerm)
  | fact (phrase : List Char) (v : Rat) (u : List (UnitKey × Int × Int))
  | call (f : Fn) (arg : FExprU) (prec : Option Literal)
  deriving Repr

/-- The embedding of `Spec.Quantity.QExpr`. -/
def ofQ : QExpr → FExprU
  | .num l => .num l
  | .qty l u => .qty l u
  | .bin op a b => .bin op (ofQ a) (ofQ b)
  | .paren e => .paren (ofQ e)
  | .cast e u => .cast (ofQ e) u
  | .fact p v u => .fact p v u

/-- Priority of the outermost construct: `to` binds loosest, atoms (calls included) tightest. -/
def qprioF : FExprU → Nat
  | .bin op _ _ => op.prio
  | .cast _ _ => 1
  | _ => 100

/-! ### Rendering -/

/-- Rendering with the layout threaded left to right: `Spec.Quantity.render`, extended — a percent
literal is written with a blank position and the `%` sign (as `Spec.Arith.render` does), a call as
`Spec.Arith.render` / `UQ.renderCall` write it (name glued to `(`, blank positions inside the
parentheses and around the comma). -/
def render : FExprU → Layout → List Char × Layout
  | .fact phrase _ _, ws => (phrase, ws)
  | .num l, ws =>
    if l.percent then
      let (b, ws) := nextBlank ws
      (renderNumber l ++ b ++ ['%'], ws)
    else (renderNumber l, ws)
  | .qty l u, ws =>
    let (b, ws) := nextBlank ws
    (renderNumber l ++ b ++ renderUnit u, ws)
  | .bin op a b, ws =>
    let (sa, ws) := render a ws
    let (b1, ws) := nextBlank ws
    let (b2, ws) := nextBlank ws
    let (sb, ws) := render b ws
    (sa ++ b1 ++ op.sym ++ b2 ++ sb, ws)
  | .paren e, ws =>
    let (b1, ws) := nextBlank ws
    let (se, ws) := render e ws
    let (b2, ws) := nextBlank ws
    (['('] ++ b1 ++ se ++ b2 ++ [')'], ws)
  | .cast e u, ws =>
    let (se, ws) := render e ws
    let (b1, ws) := nextBlank ws
    let (b2, ws) := nextBlank ws
    (se ++ b1 ++ ['t', 'o'] ++ b2 ++ renderUnit u, ws)
  | .call f arg prec, ws =>
    let (b1, ws) := nextBlank ws
    let (se, ws) := render arg ws
    match prec with
    | none =>
      let (b2, ws) := nextBlank ws
      (f.name ++ ['('] ++ b1 ++ se ++ b2 ++ [')'], ws)
    | some n =>
      let (b3, ws) := nextBlank ws
      let (b4, ws) := nextBlank ws
      let (b2, ws) := nextBlank ws
      (f.name ++ ['('] ++ b1 ++ se ++ b3 ++ [','] ++ b4 ++ renderNumber n ++ b2 ++ [')'], ws)

/-- Whole query: leading blank, expression, trailing blank. -/
def renderQuery (e : FExprU) (ws : Layout) : List Char :=
  let (b0, ws) := nextBlank ws
  let (s, ws) := render e ws
  let (b1, _) := nextBlank ws
  b0 ++ s ++ b1

/-- The layout that remains after rendering. -/
abbrev afterF (e : FExprU) (ws : Layout) : Layout := (render e ws).2

/-! Rendering in projection form. -/

theorem render_fact (p : List Char) (v : Rat) (u : List (UnitKey × Int × Int)) (ws : Layout) :
    render (.fact p v u) ws = (p, ws) := by
  simp only [render]

theorem render_num (l : Literal) (ws : Layout) (h : l.percent = false) :
    render (.num l) ws = (renderNumber l, ws) := by
  simp [render, h]

theorem render_pct (l : Literal) (ws : Layout) (h : l.percent = true) :
    render (.num l) ws = (renderNumber l ++ blank1 ws ++ ['%'], rest1 ws) := by
  simp [render, h]

theorem render_qty (l : Literal) (u : List RTerm) (ws : Layout) :
    render (.qty l u) ws = (renderNumber l ++ blank1 ws ++ renderUnit u, rest1 ws) := by
  simp only [render]

theorem render_bin (op : BinOp) (a b : FExprU) (ws : Layout) :
    render (.bin op a b) ws =
      ((render a ws).1 ++ blank1 (afterF a ws) ++ op.sym ++ blank1 (rest1 (afterF a ws)) ++
        (render b (rest1 (rest1 (afterF a ws)))).1,
        afterF b (rest1 (rest1 (afterF a ws)))) := by
  simp only [render]

theorem render_paren (e : FExprU) (ws : Layout) :
    render (.paren e) ws =
      (['('] ++ blank1 ws ++ (render e (rest1 ws)).1 ++ blank1 (afterF e (rest1 ws)) ++ [')'],
        rest1 (afterF e (rest1 ws))) := by
  simp only [render]

theorem render_cast (e : FExprU) (u : List RTerm) (ws : Layout) :
    render (.cast e u) ws =
      ((render e ws).1 ++ blank1 (afterF e ws) ++ ['t', 'o'] ++
        blank1 (rest1 (afterF e ws)) ++ renderUnit u, rest1 (rest1 (afterF e ws))) := by
  simp only [render]

theorem render_call1 (f : Fn) (arg : FExprU) (ws : Layout) :
    render (.call f arg none) ws =
      (f.name ++ ['('] ++ blank1 ws ++ (render arg (rest1 ws)).1 ++
        blank1 (afterF arg (rest1 ws)) ++ [')'], rest1 (afterF arg (rest1 ws))) := by
  simp only [render]

theorem render_call2 (f : Fn) (arg : FExprU) (n : Literal) (ws : Layout) :
    render (.call f arg (some n)) ws =
      (f.name ++ ['('] ++ blank1 ws ++ (render arg (rest1 ws)).1 ++
        blank1 (afterF arg (rest1 ws)) ++ [','] ++ blank1 (rest1 (afterF arg (rest1 ws))) ++
        renderNumber n ++ blank1 (rest1 (rest1 (afterF arg (rest1 ws)))) ++ [')'],
        rest1 (rest1 (rest1 (afterF arg (rest1 ws))))) := by
  simp only [render]

theorem renderQuery_eq (e : FExprU) (ws : Layout) :
    renderQuery e ws = blank1 ws ++ (render e (rest1 ws)).1 ++ blank1 (afterF e (rest1 ws)) := by
  simp only [renderQuery]

/-! ### Well-formed expressions -/

/-- The AST is the one the documented grammar assigns to its own rendering (left-associative
operators, `to` loosest, a call is an atom); literals are well formed; a literal that carries a
unit, and the precision of a call, are written without a percent sign (`50% m` is TWO
expressions for the tool); phrases can be typed. -/
def WFF : FExprU → Prop
  | .num l => l.WF
  | .qty l _ => l.WF ∧ l.percent = false
  | .bin op a b => WFF a ∧ WFF b ∧ op.prio ≤ qprioF a ∧ op.prio < qprioF b
  | .paren e => WFF e
  | .cast e _ => WFF e
  | .fact p _ _ => PhraseU p
  | .call _ arg prec => WFF arg ∧ ∀ n, prec = some n → n.WF ∧ n.percent = false

/-! ### Tokens and layouts -/

def pctTok : Token := ⟨.PERCENTAGE, ['%']⟩
def openTok : Token := ⟨.OPEN_PAREN, ['(']⟩
def closeTok : Token := ⟨.CLOSE_PAREN, [')']⟩
def commaTok : Token := ⟨.COMMA, [',']⟩

/-- In-order token list (as `UQ.toksU`; a percent literal is NUMBER, blank, PERCENTAGE; a call is
WORD, `(`, blank, the argument, blank, [`,`, blank, NUMBER, blank,] `)`). -/
def toksF : FExprU → Layout → List Token
  | .num l, ws =>
    if l.percent then [⟨.NUMBER, renderNumber l⟩] ++ blankTok (blank1 ws) ++ [pctTok]
    else [⟨.NUMBER, renderNumber l⟩]
  | .qty l u, ws => [⟨.NUMBER, renderNumber l⟩] ++ blankTok (blank1 ws) ++ unitToks u
  | .bin op a b, ws =>
    let ws1 := afterF a ws
    toksF a ws ++ blankTok (blank1 ws1) ++ [opTok op] ++ blankTok (blank1 (rest1 ws1)) ++
      toksF b (rest1 (rest1 ws1))
  | .paren e, ws =>
    [openTok] ++ blankTok (blank1 ws) ++ toksF e (rest1 ws) ++
      blankTok (blank1 (afterF e (rest1 ws))) ++ [closeTok]
  | .cast e u, ws =>
    let ws1 := afterF e ws
    toksF e ws ++ blankTok (blank1 ws1) ++ [toTok] ++ blankTok (blank1 (rest1 ws1)) ++ unitToks u
  | .fact p _ _, _ => phraseToks (factFirst p) (factMore p)
  | .call f arg prec, ws =>
    let ws2 := afterF arg (rest1 ws)
    [⟨.WORD, f.name⟩, openTok] ++ blankTok (blank1 ws) ++ toksF arg (rest1 ws) ++
      blankTok (blank1 ws2) ++
      (match prec with
       | none => [closeTok]
       | some n => [commaTok] ++ blankTok (blank1 (rest1 ws2)) ++ [⟨.NUMBER, renderNumber n⟩] ++
           blankTok (blank1 (rest1 (rest1 ws2))) ++ [closeTok])

/-- The rendering ends with a written unit expression. -/
def endsUnitF : FExprU → Bool
  | .qty _ _ => true
  | .cast _ _ => true
  | .bin _ _ b => endsUnitF b
  | _ => false

/-- The rendering ends with a phrase. -/
def endsFactF : FExprU → Bool
  | .fact _ _ _ => true
  | .bin _ _ b => endsFactF b
  | _ => false

/-- The leftmost operand would be glued to a directly preceding `+` / `-` by the lexer: an
unsigned literal, or a phrase beginning with `e` / `E`. (A call begins with a letter of its name,
a parenthesis with `(`: no glue.) -/
def gluesF : FExprU → Bool
  | .num l => l.sign.isNone
  | .qty l _ => l.sign.isNone
  | .bin _ a _ => gluesF a
  | .cast e _ => gluesF e
  | .fact p _ _ =>
    match p with
    | c :: _ => c == 'e' || c == 'E'
    | [] => false
  | .paren _ => false
  | .call _ _ _ => false

/-- The admissible layouts: `UQ.LayoutOKU`, the blank between a number and its `%` holds white
space only, and so do the blank positions of a call. -/
def LayoutOKF : FExprU → Layout → Prop
  | .num l, ws => l.WF ∧ (l.percent = true → Blank (blank1 ws))
  | .qty l u, ws => l.WF ∧ UnitLexOK u ∧ Blank (blank1 ws) ∧
      (blank1 ws = [] → GlueOK (renderUnit u))
  | .bin op a b, ws =>
    let ws1 := afterF a ws
    LayoutOKF a ws ∧ Blank (blank1 ws1) ∧ Blank (blank1 (rest1 ws1)) ∧
      LayoutOKF b (rest1 (rest1 ws1)) ∧
      ((op = .add ∨ op = .sub) → blank1 (rest1 ws1) = [] → gluesF b = false) ∧
      (endsUnitF a = true → (op = .mul ∨ op = .div ∨ op = .pow) → blank1 ws1 ≠ [])
  | .paren e, ws =>
    Blank (blank1 ws) ∧ LayoutOKF e (rest1 ws) ∧ Blank (blank1 (afterF e (rest1 ws)))
  | .cast e u, ws =>
    let ws1 := afterF e ws
    LayoutOKF e ws ∧ UnitLexOK u ∧ Blank (blank1 ws1) ∧ Blank (blank1 (rest1 ws1)) ∧
      blank1 (rest1 ws1) ≠ [] ∧ (endsUnitF e = true ∨ endsFactF e = true → blank1 ws1 ≠ [])
  | .fact _ _ _, _ => True
  | .call _ arg prec, ws =>
    let ws2 := afterF arg (rest1 ws)
    Blank (blank1 ws) ∧ LayoutOKF arg (rest1 ws) ∧ Blank (blank1 ws2) ∧
      (match prec with
       | none => True
       | some n => n.WF ∧ Blank (blank1 (rest1 ws2)) ∧ Blank (blank1 (rest1 (rest1 ws2))))

def QueryLayoutOKF (e : FExprU) (ws : Layout) : Prop :=
  Blank (blank1 ws) ∧ LayoutOKF e (rest1 ws) ∧ Blank (blank1 (afterF e (rest1 ws)))

def queryToksF (e : FExprU) (ws : Layout) : List Token :=
  blankTok (blank1 ws) ++ toksF e (rest1 ws) ++ blankTok (blank1 (afterF e (rest1 ws)))

/-- Every written unit expression of the expression is spelled with lexer words. -/
def UnitsLexOKF : FExprU → Prop
  | .qty _ u => UnitLexOK u
  | .bin _ a b => UnitsLexOKF a ∧ UnitsLexOKF b
  | .paren e => UnitsLexOKF e
  | .cast e u => UnitsLexOKF e ∧ UnitLexOK u
  | .call _ arg _ => UnitsLexOKF arg
  | _ => True

/-! ### Trees -/

set_option inductive.autoPromoteIndices false in
/-- `FoldU R p acc [o₁, x₁, …, oₙ, xₙ] e`: operator nodes of ONE priority `p` with their right
operands extend `acc` to the left-nested `e`; an OP_CAST node (priority 1) is followed by a UNIT
node. (`QQ.FoldRQL` for `FExprU`.) -/
inductive FoldU (R : Tree → FExprU → Prop) : Nat → FExprU → List Tree → FExprU → Prop
  | nil (p : Nat) (acc : FExprU) : FoldU R p acc [] acc
  | cons {p : Nat} {acc : FExprU} {o x : Tree} {op : BinOp} {b e : FExprU} {rest : List Tree} :
      o.kind = opKind op → op.prio = p → R x b → FoldU R p (.bin op acc b) rest e →
      FoldU R p acc (o :: x :: rest) e
  | cast {p : Nat} {acc : FExprU} {o x : Tree} {u : List RTerm} {e : FExprU} {rest : List Tree} :
      o.kind = .OP_CAST → p = 1 → RepUnit x u → FoldU R p (.cast acc u) rest e →
      FoldU R p acc (o :: x :: rest) e

/-- The tree `t` is the one the grammar builds for `e`.

* `num`, `qty`, `fact`, `paren`, `chain`: as `UQ.RepU`;
* `pct`: a PERCENTAGE node whose first child is the NUMBER token of the literal;
* `call1`: an FN_CALL node whose children with children are the FN_NAME node (text: the name) and
  the FN_ARGUMENTS node, whose one child with children is the tree of the argument;
* `call2`: the same with two argument trees, the second a NUMBER node spelling the precision. -/
inductive RepF : Tree → FExprU → Prop
  | num {t : Tree} {l : Literal} : t.kind = .NUMBER → t.hasChildren = true →
      l.percent = false → t.text = renderNumber l → RepF t (.num l)
  | pct {id : Nat} {n : Tree} {ks : List Tree} {l : Literal} : n.kind = .NUMBER →
      n.text = renderNumber l → l.percent = true →
      RepF (.node id .PERCENTAGE (n :: ks)) (.num l)
  | qty {id : Nat} {v un : Tree} {rest more : List Tree} {l : Literal} {u : List RTerm} :
      v.kind = .NUMBER → v.text = renderNumber l → l.percent = false →
      opKids rest = un :: more → RepUnit un u →
      RepF (.node id .WITH_UNIT (v :: rest)) (.qty l u)
  | fact {t : Tree} {p : List Char} {v : Rat} {u : List (UnitKey × Int × Int)} :
      t.kind = (if factMore p = [] then Syntax.WORD else Syntax.SENTENCE) → t.hasChildren = true →
      t.text = p → RepF t (.fact p v u)
  | paren {id : Nat} {ks : List Tree} {x : Tree} {e : FExprU} : opKids ks = [x] →
      RepF x e → RepF (.node id .OPERATION ks) (.paren e)
  | chain {id : Nat} {ks : List Tree} {x₀ : Tree} {rest : List Tree} {e₀ e : FExprU} {p : Nat} :
      opKids ks = x₀ :: rest → rest ≠ [] → RepF x₀ e₀ → qprioF e₀ ≠ p →
      FoldU RepF p e₀ rest e → RepF (.node id .OPERATION ks) e
  | call1 {id aid : Nat} {ks aks more : List Tree} {nm x : Tree} {f : Fn} {arg : FExprU} :
      opKids ks = nm :: .node aid .FN_ARGUMENTS aks :: more → nm.kind = .FN_NAME →
      nm.text = f.name → opKids aks = [x] → RepF x arg →
      RepF (.node id .FN_CALL ks) (.call f arg none)
  | call2 {id aid : Nat} {ks aks more : List Tree} {nm x y : Tree} {f : Fn} {arg : FExprU}
      {n : Literal} :
      opKids ks = nm :: .node aid .FN_ARGUMENTS aks :: more → nm.kind = .FN_NAME →
      nm.text = f.name → opKids aks = [x, y] → RepF x arg →
      y.kind = .NUMBER → y.hasChildren = true → n.percent = false → y.text = renderNumber n →
      RepF (.node id .FN_CALL ks) (.call f arg (some n))

/-- The shape of the parsed forest of a query: blank leaves, one tree, blank leaves. -/
def ForestOKF (forest : List Tree) (e : FExprU) : Prop :=
  ∃ Wt x Wt', forest = Wt ++ [x] ++ Wt' ∧ WSTrees Wt ∧ WSTrees Wt' ∧ RepF x e

/-! ### Reference evaluation -/

/-- The compound a written unit expression stands for (`C9Q.unitOf`; the empty compound when an
`update` is refused — excluded by `InScopeF`). -/
def unitC (u : List RTerm) : Compound := (unitOf u).getD []

/-- `to`: `Compound::factor` of the target against the value (spans `0 0`). -/
def castM (T : Compound) (r : Numeric) : EvalM Numeric :=
  match Compound.factor T r.unit r.value with
  | .ok (some v) => pure { value := v, unit := T }
  | .ok none => err .illegalCast 0 0
  | .error _ => err .conversionNotPossible 0 0

/-- The builtin of a call applied to its evaluated arguments (spans `0 0`). -/
def builtinM (cfg : Cfg) (f : Fn) (args : List Numeric) : EvalM Numeric :=
  match f with
  | .round => builtinRound cfg 0 0 args
  | .floor => builtinFloor 0 0 args
  | .ceil => builtinCeil 0 0 args

/-- **Reference evaluation**, in the evaluator's own log monad: a literal is a plain number (a
percent literal its hundredth), a literal with unit carries the compound of its unit expression,
a phrase is looked up in `cfg.db` (and reported when `cfg.describe`), operators combine the values
of their operands with the model's arithmetic on quantities (`binEval`: `Eval.add`, `Eval.mulDiv`,
`Eval.pow`), `to` is `Compound.factor`, a call applies the model's builtin to the value of its
argument (and the precision). ORDER (as `FQ.evalD`): the right operand is evaluated before the
left one — except that in a run of operators of equal priority the accumulated left part comes
first. Errors carry the spans `0 0`. -/
def evalF (cfg : Cfg) : FExprU → EvalM Numeric
  | .num l => pure (plain (value l))
  | .qty l u => pure { value := value l, unit := unitC u }
  | .fact p _ _ => lookupD cfg p
  | .paren e => evalF cfg e
  | .cast e u => do
    let r ← evalF cfg e
    castM (unitC u) r
  | .bin op a b =>
    if qprioF a = op.prio then do
      let va ← evalF cfg a
      let vb ← evalF cfg b
      binEval cfg op 0 0 va vb
    else do
      let vb ← evalF cfg b
      let va ← evalF cfg a
      binEval cfg op 0 0 va vb
  | .call f arg prec => do
    let a ← evalF cfg arg
    match prec with
    | none => builtinM cfg f [a]
    | some n => builtinM cfg f [a, plain (value n)]

/-- Literals are within the number reader's `u32` guards; every written factor of every unit
expression is read by the tool's unit-word parser as the specification resolves it, with an `i32`
power, and no unit occurs with two prefixes (`C9Q.UnitRuns`: any kind of unit, offset scales
included). Nothing is asked of the database. -/
def InScopeF : FExprU → Prop
  | .num l => LitOK l
  | .qty l u => LitOK l ∧ UnitRuns u
  | .bin _ a b => InScopeF a ∧ InScopeF b
  | .paren e => InScopeF e
  | .cast e u => InScopeF e ∧ UnitRuns u
  | .fact _ _ _ => True
  | .call _ arg prec => InScopeF arg ∧ ∀ n, prec = some n → LitOK n

/-! ### The statements of the pipeline stages (proved in `FULex`, `FURoot`, `FUEval`) -/

/-- Lexer on renderings. -/
def LexStatement : Prop :=
  ∀ (e : FExprU) (ws : Layout) (rest : List Char), WFF e → LayoutOKF e ws → ExprStop rest →
    Lexer.lex ((render e ws).1 ++ rest) = toksF e ws ++ Lexer.lex rest

/-- Lexer on rendered queries. -/
def LexQueryStatement : Prop :=
  ∀ (e : FExprU) (ws : Layout), WFF e → QueryLayoutOKF e ws →
    Lexer.lex (renderQuery e ws) = queryToksF e ws

/-- Parser on the token list of a rendered query. -/
def ParseStatement : Prop :=
  ∀ (e : FExprU) (ws : Layout), WFF e → QueryLayoutOKF e ws →
    ∃ forest, Grammar.parseRootToks (queryToksF e ws) = .ok forest ∧ ForestOKF forest e

/-- Evaluator on trees that represent an expression: it does what `evalF` says — same result up to
the spans of errors, same description log, for every incoming log. -/
def EvalStatement : Prop :=
  ∀ (cfg : Cfg) (t : Tree) (e : FExprU) (off fuel : Nat) (d : List Desc), RepF t e → InScopeF e →
    2 * size t ≤ fuel → Sim (eval cfg fuel ⟨off, t⟩ d) (evalF cfg e d)

end Anything.FU
