import Anything.Lemmas.UQQuery
import Anything.Lemmas.QQLaws
/-!
# The unified expression language — reading off a `QueryOutcomeU`; the log as a list of phrases;
the denotation of the small expressions with a fact leaf (`C02_query_fact`, `C03_query_fact`)
-/

namespace Anything.UQ
open Anything Anything.Eval Anything.Spec Anything.Spec.Arith Anything.Spec.Decimal
open Anything.Spec.Quantity Anything.Spec.SI Anything.QQ Anything.FQ Anything.Props.C04

/-! ### Reading off a `QueryOutcomeU` -/

theorem queryOutcomeU_ok {cfg : Cfg} {e : QExpr}
    {res : Except BErr (List (Except EvalErr Numeric) × List Desc)} {v : Val}
    (h : QueryOutcomeU cfg e res) (hv : denote false e = .ok v) (hp : ¬ PowRiskU e) :
    ∃ r, res = .ok ([.ok r], descLog cfg e) ∧ Agree r v := by
  obtain ⟨r, L, hres, ho, _, hok⟩ := h
  unfold OutcomeV at ho
  rw [hv] at ho
  rcases ho with ⟨x, hx, ha, _⟩ | ⟨hr, _⟩
  · subst hx
    rw [hok ⟨x, rfl⟩] at hres
    exact ⟨x, hres, ha⟩
  · exact absurd hr hp

theorem queryOutcomeU_err {cfg : Cfg} {e : QExpr}
    {res : Except BErr (List (Except EvalErr Numeric) × List Desc)} {x : QErr}
    (h : QueryOutcomeU cfg e res) (hv : denote false e = .error x) :
    ∃ k s t L, res = .ok ([.error (.err k s t)], L) ∧ L <+: descLog cfg e := by
  obtain ⟨r, L, hres, ho, hp, _⟩ := h
  unfold OutcomeV at ho
  rw [hv] at ho
  obtain ⟨k, s, t, hr⟩ := ho
  subst hr
  exact ⟨k, s, t, L, hres, hp⟩

theorem queryOutcomeU_value {cfg : Cfg} {e : QExpr}
    {res : Except BErr (List (Except EvalErr Numeric) × List Desc)} {r : Numeric} {L : List Desc}
    (h : QueryOutcomeU cfg e res) (hr : res = .ok ([.ok r], L)) :
    ∃ v, denote false e = .ok v ∧ Agree r v ∧ L = descLog cfg e := by
  obtain ⟨r', L', hres, ho, _, hok⟩ := h
  rw [hr] at hres
  simp only [Except.ok.injEq, Prod.mk.injEq, List.cons.injEq, and_true] at hres
  obtain ⟨rfl, rfl⟩ := hres
  unfold OutcomeV at ho
  cases hv : denote false e with
  | ok v =>
    rw [hv] at ho
    rcases ho with ⟨x, hx, ha, _⟩ | ⟨_, s, t, hx⟩
    · cases hx
      exact ⟨v, rfl, ha, hok ⟨_, rfl⟩⟩
    · cases hx
  | error x =>
    rw [hv] at ho
    obtain ⟨k, s, t, hx⟩ := ho
    cases hx

/-! ### The log as a list of phrases -/

theorem lookupLog_found {db : Db} {p : List Char} {c : Fact} (h : db p = .found c) :
    lookupLog db p = [⟨p, descOf db p⟩] := by
  simp [lookupLog, descOf, h]

/-- Every phrase of an expression whose facts the database holds is found. -/
theorem orderU_found (cfg : Cfg) : ∀ e : QExpr, FactsOK cfg e →
    ∀ p ∈ orderU e, ∃ c, cfg.db p = .found c
  | .num _, _, p, hp => by simp [orderU] at hp
  | .qty _ _, _, p, hp => by simp [orderU] at hp
  | .fact q v u, h, p, hp => by
    simp only [orderU, List.mem_singleton] at hp
    subst hp
    obtain ⟨c, hc, _⟩ := h
    exact ⟨c, hc⟩
  | .paren e, h, p, hp => orderU_found cfg e h p (by simpa [orderU] using hp)
  | .cast e _, h, p, hp => orderU_found cfg e h p (by simpa [orderU] using hp)
  | .bin op a b, h, p, hp => by
    simp only [orderU] at hp
    split at hp <;> rcases List.mem_append.mp hp with h' | h'
    · exact orderU_found cfg a h.1 p h'
    · exact orderU_found cfg b h.2 p h'
    · exact orderU_found cfg b h.2 p h'
    · exact orderU_found cfg a h.1 p h'

theorem flatMap_lookupLog (db : Db) : ∀ ps : List (List Char), (∀ p ∈ ps, ∃ c, db p = .found c) →
    ps.flatMap (lookupLog db) = ps.map (fun p => ⟨p, descOf db p⟩)
  | [], _ => rfl
  | p :: ps, h => by
    obtain ⟨c, hc⟩ := h p (by simp)
    simp only [List.flatMap_cons, List.map_cons, lookupLog_found hc,
      flatMap_lookupLog db ps (fun q hq => h q (by simp [hq]))]
    rfl

/-- When the database holds every fact of `e`, the full log lists the phrases of `e` in
evaluation order, each with the description the database holds for it. -/
theorem fullLog_eq (cfg : Cfg) (e : QExpr) (h : FactsOK cfg e) :
    fullLog cfg.db e = (orderU e).map (fun p => ⟨p, descOf cfg.db p⟩) :=
  flatMap_lookupLog cfg.db _ (orderU_found cfg e h)

/-- The fact phrases of an expression, left to right. -/
def factLeaves : QExpr → List (List Char)
  | .fact p _ _ => [p]
  | .bin _ a b => factLeaves a ++ factLeaves b
  | .paren e => factLeaves e
  | .cast e _ => factLeaves e
  | _ => []

/-- The evaluation order visits every fact leaf exactly once. -/
theorem orderU_perm : ∀ e : QExpr, (orderU e).Perm (factLeaves e)
  | .num _ => .refl _
  | .qty _ _ => .refl _
  | .fact _ _ _ => .refl _
  | .paren e => orderU_perm e
  | .cast e _ => orderU_perm e
  | .bin op a b => by
    simp only [orderU, factLeaves]
    split
    · exact (orderU_perm a).append (orderU_perm b)
    · exact List.perm_append_comm.trans ((orderU_perm a).append (orderU_perm b))

/-! ### The denotation of the small expressions with a fact leaf -/

/-- The specification's reading of a looked-up constant. -/
def factVal (v : Rat) (u : List (UnitKey × Int × Int)) : Val :=
  { q := siOfResult v u, plain := u.isEmpty, unit := none }

theorem denote_fact' (p : List Char) (v : Rat) (u : List (UnitKey × Int × Int)) :
    denote false (.fact p v u) = .ok (factVal v u) := denote_fact p v u

/-- `phrase to u₂`. -/
theorem denote_cast_fact (p : List Char) (v : Rat) (u : List (UnitKey × Int × Int))
    (u₂ : List RTerm) (s₂ : UnitSem) (hne : u ≠ []) (hs₂ : resolveAll u₂ = some s₂)
    (hp₂ : proportional s₂ = true) :
    denote false (.cast (.fact p v u) u₂) =
      if (siOfResult v u).dim = dims s₂ then
        .ok { q := siOfResult v u, plain := false, unit := some s₂ }
      else .error .dims := by
  have hemp : u.isEmpty = false := by cases u <;> simp_all
  rw [denote_cast, denote_fact', hs₂]
  simp only [castVal, factVal, hemp, Bool.false_eq_true, ↓reduceIte, inUnit, hp₂, Bool.or_true]
  by_cases h : (siOfResult v u).dim = dims s₂
  · simp [h]
  · simp [h]

/-- `phrase ± y u₂`. -/
theorem denote_addsub_fact_qty (op : BinOp) (hop : op = .add ∨ op = .sub) (p : List Char) (v : Rat)
    (u : List (UnitKey × Int × Int)) (l : Literal) (u₂ : List RTerm) (s₂ : UnitSem) (hne : u ≠ [])
    (h₂ : denote false (.qty l u₂) = .ok (qtyVal l s₂)) :
    denote false (.bin op (.fact p v u) (.qty l u₂)) =
      if (siOfResult v u).dim = dims s₂ then
        .ok { q := ⟨if op = .sub then (siOfResult v u).si - value l * scale s₂
                else (siOfResult v u).si + value l * scale s₂, (siOfResult v u).dim⟩,
              plain := false, unit := none }
      else .error .dims := by
  have hemp : u.isEmpty = false := by cases u <;> simp_all
  rw [denote_bin, denote_fact', h₂]
  simp only [binVal_addsub op hop, qtyVal, factVal, hemp, Bool.false_eq_true, Bool.not_false,
    Bool.and_true, ↓reduceIte, Bool.and_false, Bool.and_self, addF_eq op hop]
  split <;> rfl

theorem dims_ne_zero_ne_nil {v : Rat} {u : List (UnitKey × Int × Int)}
    (h : (siOfResult v u).dim ≠ DimVec.zero) : u ≠ [] := by
  intro hu
  subst hu
  exact h rfl

theorem determinate_cast_fact (p : List Char) (v : Rat) (u : List (UnitKey × Int × Int))
    (u₂ : List RTerm) (s₂ : UnitSem) (hs₂ : resolveAll u₂ = some s₂)
    (hd₁ : (siOfResult v u).dim ≠ DimVec.zero) (hd₂ : dims s₂ ≠ DimVec.zero) :
    Determinate (.cast (.fact p v u) u₂) := by
  refine ⟨trivial, fun x sem hv hsem => ?_⟩
  rw [denote_fact'] at hv
  cases hv
  rw [hs₂] at hsem
  cases hsem
  exact Or.inr ⟨hd₁, hd₂⟩

theorem determinate_addsub_fact_qty (op : BinOp) (p : List Char) (v : Rat)
    (u : List (UnitKey × Int × Int)) (l : Literal) (u₂ : List RTerm) (s₂ : UnitSem)
    (hu₂ : UnitOK u₂) (hs₂ : resolveAll u₂ = some s₂)
    (hd₁ : (siOfResult v u).dim ≠ DimVec.zero) (hd₂ : dims s₂ ≠ DimVec.zero) :
    Determinate (.bin op (.fact p v u) (.qty l u₂)) := by
  have hemp : u.isEmpty = false := by
    have := dims_ne_zero_ne_nil hd₁
    cases u <;> simp_all
  refine ⟨trivial, trivial, fun _ x y hx hy => ?_⟩
  rw [denote_fact'] at hx
  rw [denote_qty_unitOK l u₂ s₂ hu₂ hs₂] at hy
  cases hx
  cases hy
  exact Or.inr (Or.inr (Or.inr ⟨hemp, rfl, hd₁, hd₂⟩))

/-- `phrase * y u₂`. -/
theorem denote_mul_fact_qty (p : List Char) (v : Rat) (u : List (UnitKey × Int × Int))
    (l : Literal) (u₂ : List RTerm) (s₂ : UnitSem)
    (h₂ : denote false (.qty l u₂) = .ok (qtyVal l s₂)) :
    denote false (.bin .mul (.fact p v u) (.qty l u₂)) =
      .ok { q := qmul (siOfResult v u) (qtyVal l s₂).q, plain := u.isEmpty && false,
            unit := none } := by
  rw [denote_bin, denote_fact', h₂]
  rfl

/-- `phrase / y u₂`. -/
theorem denote_div_fact_qty (p : List Char) (v : Rat) (u : List (UnitKey × Int × Int))
    (l : Literal) (u₂ : List RTerm) (s₂ : UnitSem)
    (h₂ : denote false (.qty l u₂) = .ok (qtyVal l s₂)) :
    denote false (.bin .div (.fact p v u) (.qty l u₂)) =
      (qdiv (siOfResult v u) (qtyVal l s₂).q).map
        (fun q => { q := q, plain := u.isEmpty && false, unit := none }) := by
  rw [denote_bin, denote_fact', h₂]
  rfl

/-- `phrase ^ n`. -/
theorem denote_pow_fact (p : List Char) (v : Rat) (u : List (UnitKey × Int × Int)) (n : Literal) :
    denote false (.bin .pow (.fact p v u) (.num n)) =
      if Arith.isInt (value n) = true then
        (qpow (siOfResult v u) (value n).num).map
          (fun q => { q := q, plain := u.isEmpty, unit := none })
      else .error .power := by
  rw [denote_bin, denote_fact', denote_num]
  simp only [binVal, Bool.not_true, Bool.false_eq_true, ↓reduceIte, factVal]
  by_cases hi : Arith.isInt (value n) = true
  · simp [hi]
  · simp [hi]

theorem powRiskU_bin_fact_qty {op : BinOp} (hop : op ≠ .pow) (p : List Char) (v : Rat)
    (u : List (UnitKey × Int × Int)) (l : Literal) (u₂ : List RTerm) :
    ¬ PowRiskU (.bin op (.fact p v u) (.qty l u₂)) := by
  simp [PowRiskU, hop]

/-- A power of a constant is safe when the sum of the absolute values of its unit powers times
the exponent stays within `i32`. -/
theorem powRiskU_pow_fact (p : List Char) (v : Rat) (u : List (UnitKey × Int × Int)) (n : Literal)
    (hn : (value n).num.natAbs ≤ 2147483647)
    (hfit : (u.map (fun t => t.2.1.natAbs)).sum * (value n).num.natAbs ≤ 2147483647) :
    ¬ PowRiskU (.bin .pow (.fact p v u) (.num n)) := by
  simp only [PowRiskU, false_or, true_and, not_and, not_not]
  intro _
  exact ⟨_, n, rfl, rfl, hn, hfit⟩

theorem descLog_fact_op (cfg : Cfg) (op : BinOp) (p : List Char) (c : Fact) (b : QExpr)
    (hdb : cfg.db p = .found c) (hb : orderU b = []) :
    descLog cfg (.bin op (.fact p c.value (resultUnit c.unit)) b) =
      if cfg.describe then [⟨p, c.description⟩] else [] := by
  have : qprio (.fact p c.value (resultUnit c.unit)) ≠ op.prio := by
    have := prio_lt_100 op
    simp only [qprio]; omega
  simp [descLog, fullLog, orderU, this, hb, lookupLog, hdb]

end Anything.UQ
