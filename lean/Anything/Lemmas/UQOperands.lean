import Anything.Lemmas.UQFollow
import Anything.Lemmas.QQOperands
/-!
# The unified expression language — the parser on the operands, with COMMA in the follow set

`Lemmas/QQOperands.lean` (`unitSpecQ`, `valueSpecQ_num`, `valueSpecQ_qty`) re-proved for the
follow sets of `Lemmas/UQFollow.lean` (`FollowC`, `UFollowC`: a COMMA may follow) and for the tree
relation `RepU`.
-/

namespace Anything.UQ
open Anything Anything.Parser Anything.Grammar Anything.PTotal Anything.Spec.Arith
open Anything.Spec.Quantity Anything.Spec.Decimal Anything.C06 Anything.QQ Anything.QQ.Opd

/-- What `unitTrail` and the next round of `unitLoop` see after the unit expression. -/
theorem ufollowC_stop {K : List Token} (hK : UFollowC K) :
    trailKind (headKind K) = none ∧
    ((headKind K == Syntax.WHITESPACE) = false ∨
      ((headKind K == Syntax.WHITESPACE) = true ∧
        ∀ s' : PState, s'.toks = K → kAt s' (1 + 0) ≠ .NUMBER ∧ kAt s' (1 + 0) ≠ .WORD)) := by
  obtain ⟨Wk, K', rfl, hwk, hfk, hglue⟩ := hK
  cases Wk with
  | nil =>
    simp only [List.nil_append]
    rcases hglue rfl with h | h | h | h | h <;> rw [h] <;> exact ⟨rfl, Or.inl rfl⟩
  | cons w Wk' =>
    have hw : w.kind = .WHITESPACE := hwk w (by simp)
    simp only [List.cons_append, headKind, hw]
    refine ⟨rfl, Or.inr ⟨rfl, ?_⟩⟩
    intro s' hs'
    unfold kAt
    rw [hs']
    cases Wk' with
    | nil =>
      have := followKindC_cases hfk
      cases K' with
      | nil => simp
      | cons t r => simpa [headKind] using ⟨this.1, this.2.1⟩
    | cons w' r =>
      have hw' : w'.kind = .WHITESPACE := hwk w' (by simp)
      simp [hw']

theorem unitLoopC_items (i : UItem) (rest : List UItem) (F : Nat) (s : PState) (W K : List Token)
    (hi : HeadItem i) (hrest : ∀ j ∈ rest, TrailItem j) (g : C06.Good s.b)
    (ht : s.toks = W ++ ((i :: rest).map tokOf ++ K)) (hw : AllWS W) (hK : UFollowC K)
    (hF : rest.length + 2 ≤ F) :
    Tot (unitLoop (F + 1) none W.length) s (fun r s' => ∃ c Wt X, r = some c ∧ s'.toks = K ∧
      s'.b.forest = s.b.forest ++ Wt ++ X ∧ WSTrees Wt ∧ ItemTrees X (i :: rest) ∧
      Pos s'.b c (s.b.forest.length + Wt.length) ∧ C06.Good s'.b ∧ NoNext s'.b ∧
      Ext s.b.forest.length s.b s'.b) := by
  obtain ⟨F, rfl⟩ : ∃ F', F = F' + 1 := ⟨F - 1, by omega⟩
  obtain ⟨kind, tk, text⟩ := i
  obtain ⟨hk1, hk2⟩ := hi
  simp only at hk1 hk2
  subst hk2
  obtain ⟨hK0, hstop⟩ := ufollowC_stop hK
  unfold unitLoop
  simp only [List.map_cons, List.cons_append] at ht
  refine tot_nth_ws W _ ht ?_
  have hcond : (kind == Syntax.NUMBER || kind == Syntax.WORD) = true := by
    rcases hk1 with h | h <;> simp [h]
  simp only [headKind, hcond, ↓reduceIte]
  refine tot_seq (bumpN_ws W ht hw g) fun _ s1 ⟨ht1, ⟨Wt, hf1, hWt, hlen⟩, g1, _, e1⟩ => ?_
  refine tot_seq (P := fun r s' => ∃ c, r = some c ∧ s'.toks = s1.toks ∧
      s'.b.forest = s1.b.forest ∧ C06.Good s'.b ∧ Pos s'.b c s1.b.forest.length ∧
      Ext s1.b.forest.length s1.b s'.b) ?_ fun r s2 ⟨c, hr, ht2, hf2, g2, p2, e2⟩ => ?_
  · refine tot_seq (checkpoint_exact g1) fun c s2 ⟨ht2, hf2, _, g2, p2, e2⟩ => ?_
    exact tot_pure ⟨c, rfl, ht2, hf2, g2, p2, e2⟩
  subst hr
  refine tot_seq (bumpNode_exact kind (ht2.trans ht1) g2)
    fun _ s3 ⟨ht3, ⟨id, id', hf3⟩, g3, n3, e3⟩ => ?_
  refine tot_seq (unitTrail_items rest (F + 1) s3 K hrest ht3 hK0 g3 n3 (by omega))
    fun r s4 ⟨hr, ht4, ⟨X, hf4, hX⟩, g4, n4, e4⟩ => ?_
  have hl1 : s1.b.forest.length = s.b.forest.length + Wt.length := by rw [hf1]; simp
  have hl3 : s1.b.forest.length ≤ s3.b.forest.length := by rw [hf3, hf2]; simp
  have e3' : Ext s1.b.forest.length s2.b s3.b := by rw [← hf2]; exact e3
  have e14 : Ext s1.b.forest.length s1.b s4.b := (e2.trans e3').trans (e4.mono hl3)
  have hpos : Pos s4.b c (s.b.forest.length + Wt.length) := by
    rw [← hl1]
    exact (e3'.trans (e4.mono hl3)).pos c _ (Nat.le_refl _) p2
  have hfin : ∃ c' Wt' X', some c = some c' ∧ s4.toks = K ∧
      s4.b.forest = s.b.forest ++ Wt' ++ X' ∧ WSTrees Wt' ∧
      ItemTrees X' (⟨kind, kind, text⟩ :: rest) ∧
      Pos s4.b c' (s.b.forest.length + Wt'.length) ∧ C06.Good s4.b ∧ NoNext s4.b ∧
      Ext s.b.forest.length s.b s4.b :=
    ⟨c, Wt, _ :: X, rfl, ht4, by rw [hf4, hf3, hf2, hf1]; simp, hWt,
      ItemTrees.cons id id' ⟨kind, kind, text⟩ hX, hpos, g4, n4,
      e1.trans (e14.mono (by rw [hf1]; simp))⟩
  rcases hstop with hs | ⟨hs, hk⟩
  · rw [hs] at hr
    simp only [Bool.false_eq_true, ↓reduceIte] at hr
    subst hr
    exact tot_pure hfin
  · rw [hs] at hr
    simp only [↓reduceIte] at hr
    subst hr
    exact ⟨_, _, unitLoop_stop F (some c) 1 s4 (hk s4 ht4), hfin⟩


/-- `Grammar.unit` on the tokens of a written unit expression. -/
theorem unitSpecC (u : List RTerm) : UnitSpecC u := by
  obtain ⟨i, rest, hu, hi⟩ := unitItems_head u
  refine ⟨(unitItems u).length + 2, ?_⟩
  intro s W K g ht hw hK
  have hrest : ∀ j ∈ rest, TrailItem j := fun j hj => trail_unitItems u j (by rw [hu]; simp [hj])
  have hFu : (unitItems u).length + 2 = (rest.length + 2) + 1 := by rw [hu]; simp
  rw [hFu]
  unfold Grammar.unit
  have ht' : s.toks = W ++ ((i :: rest).map tokOf ++ K) := by rw [ht, unitToks, hu]
  refine tot_seq (unitLoopC_items i rest _ s W K hi hrest g ht' hw hK (Nat.le_refl _))
    fun r s1 ⟨c, Wt, X, hr, ht1, hf1, hWt, hX, p1, g1, n1, e1⟩ => ?_
  subst hr
  simp only
  have hne : X ≠ [] := by cases hX; simp
  have hlt : s.b.forest.length + Wt.length < s1.b.forest.length := by
    rw [hf1]
    have : 0 < X.length := List.length_pos_iff.mpr hne
    simp; omega
  refine tot_seq (closeAt_wrap .UNIT g1 n1 p1 hlt) fun _ s2 ⟨ht2, ⟨id, hf2⟩, g2, n2, p2, e2⟩ => ?_
  have hl : s.b.forest.length + Wt.length = (s.b.forest ++ Wt).length := by simp
  have hf2' : s2.b.forest = s.b.forest ++ Wt ++ [.node id .UNIT X] := by
    rw [hf2, hf1, hl, List.take_left', List.drop_left'] <;> rfl
  refine tot_pure ⟨c, Wt, .node id .UNIT X, rfl, ht2.trans ht1, hf2', hWt, ⟨rfl, ?_⟩, ?_, p2, g2, n2,
    e1.trans (e2.mono (by omega))⟩
  · simp only [Tree.kids]
    rw [itemTrees_opKids hX, itemTrees_map hX, hu]
  · cases X with
    | nil => exact absurd rfl hne
    | cons x X => rfl



/-- `C06.value_num` with the larger follow set `FollowKindC` (it contains `to`). -/
theorem value_numC {s : PState} (F : Nat) (W : List Token) (txt : List Char) (K : List Token)
    (ht : s.toks = W ++ ⟨.NUMBER, txt⟩ :: K) (hw : AllWS W) (hK : FollowC K) (h : C06.Good s.b) :
    Tot (Grammar.value (F + 2) W.length) s (fun r s' => ∃ cur Wt id id', r = some cur ∧ s'.toks = K ∧
      s'.b.forest = s.b.forest ++ Wt ++ [.node id .NUMBER [.tok id' .NUMBER txt]] ∧
      WSTrees Wt ∧ Wt.length = W.length ∧ Pos s'.b cur (s.b.forest.length + W.length) ∧
      C06.Good s'.b ∧ NoNext s'.b ∧ Ext s.b.forest.length s.b s'.b) := by
  obtain ⟨Wk, K', rfl, hwk, hfk⟩ := hK
  unfold Grammar.value
  refine tot_nth_ws W _ ht ?_
  simp only [headKind]
  refine tot_seq (bumpN_ws W ht hw h) fun _ s1 ⟨ht1, ⟨Wt, hf1, hWt, hlen⟩, g1, _, e1⟩ => ?_
  refine tot_seq (checkpoint_exact g1) fun c s2 ⟨ht2, hf2, _, g2, p2, e2⟩ => ?_
  refine tot_seq (bump_exact (ht2.trans ht1) g2) fun _ s3 ⟨ht3, ⟨id', hf3⟩, g3, n3, e3⟩ => ?_
  refine tot_countSkip_ws Wk K' ht3 hwk (followKindC_notWS hfk) ?_
  have hkinds : headKind K' ≠ .PERCENTAGE ∧ headKind K' ≠ .NUMBER ∧ headKind K' ≠ .WORD := by
    have := followKindC_cases hfk
    exact ⟨this.2.2.1, this.1, this.2.1⟩
  refine tot_seq (P := fun kind s' => Syntax.NUMBER = kind ∧ s3 = s') ?_ fun kind s4 ⟨hkind, hs4⟩ => ?_
  · refine tot_nth_ws Wk K' ht3 ?_
    have : (headKind K' == Syntax.PERCENTAGE) = false := by simp [hkinds.1]
    simp only [this, Bool.false_eq_true, ↓reduceIte]
    refine ⟨_, s3, ?_, rfl, rfl⟩
    simp only [bind, unit_none F Wk K' ht3 hkinds.2]
    rfl
  subst hkind hs4
  have hlen3 : s3.b.forest = s.b.forest ++ Wt ++ [.tok id' .NUMBER txt] := by
    rw [hf3, hf2, hf1]
  have hpos3 : Pos s3.b c (s.b.forest.length + W.length) := by
    have := e3.pos c _ (Nat.le_refl _) (hf2 ▸ p2)
    rw [hf2, hf1] at this
    simpa [hlen] using this
  refine tot_seq (closeAt_wrap .NUMBER g3 n3 hpos3 (by rw [hlen3]; simp [hlen]))
    fun _ s5 ⟨ht5, ⟨id, hf5⟩, g5, n5, p5, e5⟩ => ?_
  refine tot_pure ⟨c, Wt, id, id', rfl, ht5.trans ht3, ?_, hWt, hlen, p5, g5, n5, ?_⟩
  · rw [hf5, hlen3]
    have hl : s.b.forest.length + W.length = (s.b.forest ++ Wt).length := by simp [hlen]
    rw [hl, List.take_left', List.drop_left'] <;> rfl
  · have hle : s.b.forest.length ≤ s1.b.forest.length := by rw [hf1]; simp
    have e23 : Ext s1.b.forest.length s1.b s3.b := e2.trans (by rw [← hf2]; exact e3)
    have e5' : Ext s1.b.forest.length s3.b s5.b := by
      have : s1.b.forest.length = s.b.forest.length + W.length := by rw [hf1]; simp [hlen]
      rw [this]; exact e5
    exact e1.trans ((e23.trans e5').mono hle)


/-- `Grammar.value` on a plain number. -/
theorem valueSpecU_num (l : Spec.Decimal.Literal) : ValueSpecU (.num l) := by
  refine ⟨2, ?_⟩
  intro ws s W0 K _ _ hg ht hw0 hK
  have hK' : FollowC K := by simpa [FollowsC, endsUnit] using hK
  simp only [toksU, List.cons_append, List.nil_append] at ht
  refine tot_mono (value_numC 0 W0 _ K ht hw0 hK' hg)
    fun r s' ⟨cur, Wt, id, id', hr, ht', hf', hWt, hlen, hpos, g', n', e'⟩ => ?_
  refine ⟨cur, Wt, _, hr, ht', hf', hWt, .num rfl rfl ?_, hlen ▸ hpos, g', n', e'⟩
  simp [Tree.text, Tree.textList]



/-- `Grammar.value` on a number with a written unit expression. -/
theorem valueSpecU_qty (l : Spec.Decimal.Literal) (u : List RTerm) : ValueSpecU (.qty l u) := by
  obtain ⟨Fu, hU⟩ := unitSpecC u
  refine ⟨Fu + 1, ?_⟩
  intro ws s W0 K _ _ hg ht hw0 hK
  have hK' : UFollowC K := by simpa [FollowsC, endsUnit] using hK
  simp only [toksU, List.cons_append, List.nil_append, List.append_assoc] at ht
  obtain ⟨i, rest, hu, hi⟩ := unitItems_head u
  have hhead : headKind (unitToks u ++ K) = i.tk := by rw [unitToks, hu]; rfl
  have hkinds : headKind (unitToks u ++ K) ≠ .PERCENTAGE ∧
      headKind (unitToks u ++ K) ≠ .WHITESPACE := by
    rw [hhead]
    rcases hi.1 with h | h <;> rw [h] <;> simp
  have hnw : NotWSHead (unitToks u ++ K) := by
    intro t r htr
    have := hkinds.2
    rw [htr] at this
    exact this
  unfold Grammar.value
  refine tot_nth_ws W0 _ ht ?_
  simp only [headKind]
  refine tot_seq (bumpN_ws W0 ht hw0 hg) fun _ s1 ⟨ht1, ⟨Wt, hf1, hWt, hlen⟩, g1, _, e1⟩ => ?_
  refine tot_seq (checkpoint_exact g1) fun c s2 ⟨ht2, hf2, _, g2, p2, e2⟩ => ?_
  refine tot_seq (bump_exact (ht2.trans ht1) g2) fun _ s3 ⟨ht3, ⟨id', hf3⟩, g3, n3, e3⟩ => ?_
  refine tot_countSkip_ws (blankTok (blank1 ws)) (unitToks u ++ K) ht3 (allWS_blankTok _) hnw ?_
  refine tot_seq (P := fun kind s' => Syntax.WITH_UNIT = kind ∧ s'.toks = K ∧
      (∃ Wq x, s'.b.forest = s3.b.forest ++ Wq ++ [x] ∧ WSTrees Wq ∧ RepUnit x u ∧
        x.hasChildren = true) ∧ C06.Good s'.b ∧ NoNext s'.b ∧ Ext s3.b.forest.length s3.b s'.b) ?_
    fun kind s4 ⟨hkind, ht4, ⟨Wq, x, hf4, hWq, hx, hxc⟩, g4, n4, e4⟩ => ?_
  · refine tot_nth_ws (blankTok (blank1 ws)) (unitToks u ++ K) ht3 ?_
    have : (headKind (unitToks u ++ K) == Syntax.PERCENTAGE) = false := by simp [hkinds.1]
    simp only [this, Bool.false_eq_true, ↓reduceIte]
    refine tot_seq (hU s3 _ K g3 ht3 (allWS_blankTok _) hK')
      fun r s4 ⟨cur, Wq, x, hr, ht4, hf4, hWq, hx, hxc, _, g4, n4, e4⟩ => ?_
    subst hr
    exact tot_pure ⟨rfl, ht4, ⟨Wq, x, hf4, hWq, hx, hxc⟩, g4, n4, e4⟩
  subst hkind
  have hlen3 : s3.b.forest = s.b.forest ++ Wt ++ [.tok id' .NUMBER (renderNumber l)] := by
    rw [hf3, hf2, hf1]
  have hpos3 : Pos s3.b c (s.b.forest.length + W0.length) := by
    have := e3.pos c _ (Nat.le_refl _) (hf2 ▸ p2)
    rw [hf2, hf1] at this
    simpa [hlen] using this
  have hpos4 : Pos s4.b c (s.b.forest.length + W0.length) :=
    e4.pos c _ (by rw [hlen3]; simp [hlen]) hpos3
  refine tot_seq (closeAt_wrap .WITH_UNIT g4 n4 hpos4 (by rw [hf4, hlen3]; simp [hlen]))
    fun _ s5 ⟨ht5, ⟨id, hf5⟩, g5, n5, p5, e5⟩ => ?_
  refine tot_pure ⟨c, Wt, .node id .WITH_UNIT (.tok id' .NUMBER (renderNumber l) :: (Wq ++ [x])),
    rfl, ht5.trans ht4, ?_, hWt, ?_, hlen ▸ p5, g5, n5, ?_⟩
  · rw [hf5, hf4, hlen3]
    have hl : s.b.forest.length + W0.length = (s.b.forest ++ Wt).length := by simp [hlen]
    have hassoc : s.b.forest ++ Wt ++ [Tree.tok id' .NUMBER (renderNumber l)] ++ Wq ++ [x]
        = (s.b.forest ++ Wt) ++ (Tree.tok id' .NUMBER (renderNumber l) :: (Wq ++ [x])) := by
      simp
    rw [hassoc, hl, List.take_left', List.drop_left'] <;> rfl
  · refine .qty (un := x) (more := []) rfl rfl ?_ hx
    rw [opKids_append, opKids_ws hWq, opKids_single hxc]
    rfl
  · have hle : s.b.forest.length ≤ s1.b.forest.length := by rw [hf1]; simp
    have hl1 : s1.b.forest.length = s.b.forest.length + W0.length := by rw [hf1]; simp [hlen]
    have e23 : Ext s1.b.forest.length s1.b s3.b := e2.trans (by rw [← hf2]; exact e3)
    have e4' : Ext s1.b.forest.length s3.b s4.b := e4.mono (by rw [hlen3, hl1]; simp [hlen])
    have e5' : Ext s1.b.forest.length s4.b s5.b := by rw [hl1]; exact e5
    exact e1.trans (((e23.trans e4').trans e5').mono hle)


end Anything.UQ
