import Anything.Lemmas.QQParse
import Anything.Lemmas.QQOperands
import Anything.Lemmas.C06Eval
/-!
# Quantity expressions, stage D / final — the root rule and `parseRootToks` on the token list of a
rendered query; the levelled relation implies the plain one
-/

namespace Anything.QQ
open Anything Anything.Parser Anything.Grammar Anything.PTotal Anything.Spec.Arith
open Anything.Spec.Quantity Anything.C06 Anything.Eval

/-! ### The levelled relation implies the plain one -/

theorem foldRQL_to_foldRQ {RL R : Tree → QExpr → Prop} {p : Nat} {acc e : QExpr} {ts : List Tree}
    (h : FoldRQL RL p acc ts e) (hR : ∀ x ∈ ts, ∀ b, RL x b → R x b) : FoldRQ R acc ts e := by
  induction h with
  | nil p acc => exact .nil _
  | cons ho _ hx _ ih =>
    exact .cons ho (hR _ (by simp) _ hx) (ih fun x hx b hb => hR x (by simp [hx]) b hb)
  | cast ho _ hx _ ih =>
    exact .cast ho hx (ih fun x hx b hb => hR x (by simp [hx]) b hb)

theorem repQL_to_repQ_aux : ∀ (n : Nat) (t : Tree) (e : QExpr), size t ≤ n → RepresentsQL t e →
    RepresentsQ t e := by
  intro n
  induction n with
  | zero => intro t e h; have := C06.size_pos t; omega
  | succ n ih =>
    intro t e hsz h
    cases h with
    | num h1 h2 h3 => exact .num h1 h2 h3
    | qty h1 h2 h3 h4 => exact .qty h1 h2 h3 h4
    | @paren id ks x e' hk hx =>
      simp only [size_node] at hsz
      have := opKids_mem_size (ks := ks) (x := x) (by rw [hk]; simp)
      exact .paren hk (ih x e' (by omega) hx)
    | @chain id ks x₀ rest e₀ _ p hk hne hx hf =>
      simp only [size_node] at hsz
      have h0 := opKids_mem_size (ks := ks) (x := x₀) (by rw [hk]; simp)
      refine .chain hk hne (ih x₀ e₀ (by omega) hx) (foldRQL_to_foldRQ hf ?_)
      intro x hx b hb
      have := opKids_mem_size (ks := ks) (x := x) (by rw [hk]; simp [hx])
      exact ih x b (by omega) hb

theorem repQL_to_repQ {t : Tree} {e : QExpr} (h : RepresentsQL t e) : RepresentsQ t e :=
  repQL_to_repQ_aux (size t) t e (Nat.le_refl _) h

/-! ### The root rule -/

theorem headKind_toksQ_start (e : QExpr) (ws : Layout) (K : List Token) (hwf : WFQ e) :
    (headKind (toksQ e ws ++ K) == Syntax.EOF) = false ∧
    (headKind (toksQ e ws ++ K) == Syntax.OPEN_BRACE || headKind (toksQ e ws ++ K) == Syntax.OPEN_PAREN
      || headKind (toksQ e ws ++ K) == Syntax.WORD || headKind (toksQ e ws ++ K) == Syntax.NUMBER) = true := by
  obtain ⟨t, r, h, hk⟩ := toksQ_head e ws hwf
  rw [h]
  simp only [List.cons_append, headKind]
  rcases hk with h | h <;> rw [h] <;> exact ⟨rfl, rfl⟩

theorem root_specQ (ops : Operands) (e : QExpr) (ws : Layout) (hwf : WFQ e)
    (hl : QueryLayoutOKQ e ws) :
    ∃ F, Tot (root F) { toks := queryToksQ e ws } (fun _ s' => ForestOKQ s'.b.forest e) := by
  obtain ⟨Fo, ho⟩ := opSpecQ ops e
  obtain ⟨hb0, hle, hb1⟩ := hl
  refine ⟨Fo + 2, ?_⟩
  have ht : ({ toks := queryToksQ e ws } : PState).toks = blankTok (blank1 ws) ++
      (toksQ e (rest1 ws) ++ (blankTok (blank1 (afterQ e (rest1 ws))) ++ [])) := by
    simp [queryToksQ]
  unfold root
  refine tot_countSkip_ws _ _ ht (allWS_blankTok _) (toksQ_notWS e _ _ hwf) ?_
  refine tot_seq (checkpoint_exact (s := { toks := queryToksQ e ws }) good_init)
    fun c s1 ⟨ht1, hf1, _, g1, _, _⟩ => ?_
  have hf1' : s1.b.forest = [] := hf1
  refine tot_seq (P := fun r s' => r = false ∧ ForestOKQ s'.b.forest e) ?_ fun r s2 ⟨hr, hF⟩ => ?_
  · unfold rootLoop
    refine tot_nth_ws _ _ (ht1.trans ht) ?_
    obtain ⟨k1, k2⟩ := headKind_toksQ_start e (rest1 ws)
      (blankTok (blank1 (afterQ e (rest1 ws))) ++ []) hwf
    simp only [k1, k2, Bool.false_eq_true, ↓reduceIte]
    refine tot_seq (tot_le (le_operation (Nat.le_succ Fo) _)
      (ho (rest1 ws) s1 _ _ [] hwf hle g1 (ht1.trans ht) (allWS_blankTok _) (allWS_blankTok _)
        (Or.inr rfl))) fun r s2 ⟨Wt, x, hr, ht2, hf2, hWt, hx, g2, _, _⟩ => ?_
    subst hr
    simp only
    unfold rootLoop
    refine tot_nth_ws _ [] ht2 ?_
    simp only [headKind, beq_self_eq_true, ↓reduceIte]
    refine tot_seq (bumpN_ws _ ht2 (allWS_blankTok _) g2)
      fun _ s3 ⟨_, ⟨Wt', hf3, hWt', _⟩, _, _, _⟩ => ?_
    exact tot_pure ⟨rfl, Wt, x, Wt', by rw [hf3, hf2, hf1']; simp, hWt, hWt', hx⟩
  subst hr
  simp only [Bool.false_eq_true, ↓reduceIte]
  exact tot_pure hF

/-- **Parser correctness on the token list of a rendered query**, given the operand-level
facts. -/
theorem parse_toksQ_of (ops : Operands) (e : QExpr) (ws : Layout) (hwf : WFQ e)
    (hl : QueryLayoutOKQ e ws) :
    ∃ forest, Grammar.parseRootToks (queryToksQ e ws) = .ok forest ∧ ForestOKQ forest e := by
  obtain ⟨F, _, s', hroot, hF⟩ := root_specQ ops e ws hwf hl
  refine ⟨s'.b.forest, ?_, hF⟩
  unfold parseRootToks
  have hmax : fuelFor (queryToksQ e ws) ≤ max F (fuelFor (queryToksQ e ws)) := Nat.le_max_right _ _
  have h1 := PFuel.root_fuel_irrelevant (queryToksQ e ws) _ hmax
  have h2 := PFuel.le_root_of_le (Nat.le_max_left F (fuelFor (queryToksQ e ws))) _ _ hroot
  rw [← h1, h2]

/-- The operand-level facts of `Lemmas/QQOperands.lean`. -/
theorem operands : Operands := ⟨unitSpecQ, valueSpecQ_num, valueSpecQ_qty⟩

/-- **Parser correctness on the token list of a rendered query.** -/
theorem parse_toksQ (e : QExpr) (ws : Layout) (hwf : WFQ e) (hl : QueryLayoutOKQ e ws) :
    ∃ forest, Grammar.parseRootToks (queryToksQ e ws) = .ok forest ∧ ForestOKQ forest e :=
  parse_toksQ_of operands e ws hwf hl

theorem representsQ_kind {x : Tree} {e : QExpr} (h : RepresentsQL x e) :
    (x.kind == Syntax.WHITESPACE) = false := by
  cases h with
  | num hk _ _ => rw [hk]; rfl
  | qty _ _ _ _ => rfl
  | paren _ _ => rfl
  | chain _ _ _ _ => rfl

/-- The single non-blank child of the parsed forest. -/
theorem forestOKQ_filter {forest : List Tree} {e : QExpr} (h : ForestOKQ forest e) :
    ∃ x, forest.filter (fun t => t.kind != .WHITESPACE) = [x] ∧ RepresentsQL x e := by
  obtain ⟨Wt, x, Wt', hf, hWt, hWt', hx⟩ := h
  have hws : ∀ W : List Tree, WSTrees W → W.filter (fun t => t.kind != .WHITESPACE) = [] := by
    intro W hW
    simp only [List.filter_eq_nil_iff]
    intro t ht
    obtain ⟨id, text, rfl⟩ := hW t ht
    simp [Tree.kind]
  refine ⟨x, ?_, hx⟩
  rw [hf, List.filter_append, List.filter_append, hws Wt hWt, hws Wt' hWt']
  have := representsQ_kind hx
  simp only [beq_eq_false_iff_ne, ne_eq] at this
  simp [this]

end Anything.QQ
