import Anything.Lemmas.FUDefs
import Anything.Lemmas.UQOperands
/-!
# The full expression language — interfaces of the parser proofs

What must follow the tokens of an expression (`FollowsF`, the follow sets of `Lemmas/UQFollow.lean`
with the COMMA), and the specifications of `Grammar.value` on an operand (`ValueSpecF`) and of
`Grammar.operation` on a whole expression followed by `)`, `,` or the end of the input
(`OpSpecF`), in the total-correctness style of `Lemmas/C06Builder.lean`.
-/

namespace Anything.FU
open Anything Anything.Parser Anything.Grammar Anything.PTotal Anything.Spec.Arith
open Anything.Spec.Quantity Anything.C06 Anything.QQ Anything.UQ

/-- What must follow the tokens of `e`: after a written unit expression `*`, `/`, `^`, `to` must
be separated by a blank (`UFollowC`), otherwise an operator, `to`, `)`, `,` or the end after an
optional blank (`FollowC`). -/
def FollowsF (e : FExprU) (K : List Token) : Prop :=
  if endsUnitF e = true then UFollowC K else FollowC K

theorem FollowsF.follow {e : FExprU} {K : List Token} (h : FollowsF e K) : FollowC K := by
  unfold FollowsF at h
  split at h
  · exact h.follow
  · exact h

/-- `Grammar.value` on the operand `e` (cf. `UQ.ValueSpecU`): consumes the blank `W0` and the
tokens of `e`, appends the blank's leaves and ONE tree representing `e`, and returns a checkpoint
at that tree. -/
def ValueSpecF (e : FExprU) : Prop :=
  ∃ Fe, ∀ (ws : Layout) (s : PState) (W0 K : List Token), WFF e → LayoutOKF e ws → C06.Good s.b →
    s.toks = W0 ++ (toksF e ws ++ K) → AllWS W0 → FollowsF e K →
    Tot (Grammar.value Fe W0.length) s (fun r s' => ∃ cur Wt x, r = some cur ∧ s'.toks = K ∧
      s'.b.forest = s.b.forest ++ Wt ++ [x] ∧ WSTrees Wt ∧ RepF x e ∧
      Pos s'.b cur (s.b.forest.length + Wt.length) ∧ C06.Good s'.b ∧ NoNext s'.b ∧
      Ext s.b.forest.length s.b s'.b)

/-- `Grammar.operation` on the whole expression `e` followed — after a blank `Wk` — by `)`, `,` or
the end of the input (cf. `UQ.OpSpecU`). -/
def OpSpecF (e : FExprU) : Prop :=
  ∃ Fe, ∀ (ws : Layout) (s : PState) (W0 Wk K' : List Token), WFF e → LayoutOKF e ws →
    C06.Good s.b →
    s.toks = W0 ++ (toksF e ws ++ (Wk ++ K')) → AllWS W0 → AllWS Wk → EndKindC (headKind K') →
    Tot (operation Fe W0.length) s (fun r s' => ∃ Wt x, r = some Wk.length ∧ s'.toks = Wk ++ K' ∧
      s'.b.forest = s.b.forest ++ Wt ++ [x] ∧ WSTrees Wt ∧ RepF x e ∧
      C06.Good s'.b ∧ NoNext s'.b ∧ Ext s.b.forest.length s.b s'.b)

end Anything.FU
