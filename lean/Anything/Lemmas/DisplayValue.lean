import Anything.Lemmas.DisplayPaths
import Anything.Lemmas.Scale
/-!
# From the natural-number criterion to `faithful` (helper file for `Props/C08`)
-/

namespace Anything.Lemmas.Printed
open Anything Anything.Display Anything.Spec Anything.Spec.Printed
open Anything.Spec.Decimal (digitsVal)

/-- The absolute value the specification uses, as a quotient of naturals. -/
theorem specAbs_eq (r : Rat) :
    (if r < 0 then -r else r) = (r.num.natAbs : Rat) / (r.den : Rat) := by
  have hr : (r.num : Rat) / (r.den : Rat) = r := Rat.num_div_den r
  by_cases h : r < 0
  · have hn : r.num < 0 := Rat.num_neg.mpr h
    have hc : ((r.num.natAbs : Nat) : Rat) = -(r.num : Rat) := by
      have : ((r.num.natAbs : Nat) : Int) = -r.num := by omega
      rw [← Int.cast_natCast, this, Int.cast_neg]
    rw [if_pos h, hc, neg_div, hr]
  · have hn : 0 ≤ r.num := Rat.num_nonneg.mpr (not_lt.mp h)
    have hc : ((r.num.natAbs : Nat) : Rat) = (r.num : Rat) := by
      have : ((r.num.natAbs : Nat) : Int) = r.num := by omega
      rw [← Int.cast_natCast, this]
    rw [if_neg h, hc, hr]

theorem specAbs_eq_abs (r : Rat) : (if r < 0 then -r else r) = |r| := by
  split
  · rename_i h; exact (abs_of_neg h).symm
  · rename_i h; exact (abs_of_nonneg (not_lt.mp h)).symm

theorem abs_eq_natAbs_div (r : Rat) : |r| = (r.num.natAbs : Rat) / (r.den : Rat) := by
  rw [← specAbs_eq_abs, specAbs_eq]

/-- The criterion over naturals gives the specification's `faithful`. -/
theorem faithful_of_natCrit (x : Rat) (rd : Read) (N den : Nat) (hden : 0 < den)
    (hx : (if x < 0 then -x else x) = (N : Rat) / (den : Rat))
    (hneg : rd.neg = decide (x < 0)) (h : NatCrit N den rd) : faithful x rd = true := by
  obtain ⟨D, R, p, q, hD, hR, hexp, heq, hmark⟩ := h
  -- names
  have hdenQ : (0 : Rat) < (den : Rat) := by exact_mod_cast hden
  have hDQ : (0 : Rat) < (D : Rat) := by exact_mod_cast hD
  have hRQ : (R : Rat) < (D : Rat) := by exact_mod_cast hR
  have hR0 : (0 : Rat) ≤ (R : Rat) := by exact_mod_cast Nat.zero_le R
  have h10 : (10 : Rat) ≠ 0 := by norm_num
  have hpq : (0 : Rat) < (10 : Rat) ^ p ∧ (0 : Rat) < (10 : Rat) ^ q := ⟨by positivity, by positivity⟩
  have heqQ : (N : Rat) * 10 ^ q * D =
      ((digitsVal (rd.intDigits ++ rd.fracDigits) : Nat) * (D : Rat) + R) * 10 ^ p * den := by
    exact_mod_cast heq
  -- the unit in the last place
  have hulp : rd.ulp = (10 : Rat) ^ p / (10 : Rat) ^ q := by
    unfold Read.ulp
    rw [arith_zpow_eq, hexp, zpow_sub₀ h10, zpow_natCast, zpow_natCast]
  have hmag : rd.magnitude =
      ((digitsVal (rd.intDigits ++ rd.fracDigits) : Nat) : Rat) * ((10 : Rat) ^ p / (10 : Rat) ^ q) := by
    unfold Read.magnitude
    rw [arith_zpow_eq]
    have : (10 : Rat) ^ rd.exp = (10 : Rat) ^ p / (10 : Rat) ^ q * (10 : Rat) ^ rd.fracDigits.length := by
      have he : rd.exp = ((p : Int) - (q : Int)) + (rd.fracDigits.length : Int) := by omega
      rw [he, zpow_add₀ h10, zpow_sub₀ h10, zpow_natCast, zpow_natCast, zpow_natCast]
    rw [this]
    field_simp
  generalize ((digitsVal (rd.intDigits ++ rd.fracDigits) : Nat) : Rat) = V at *
  set u : Rat := (10 : Rat) ^ p / (10 : Rat) ^ q with hu
  have hupos : 0 < u := div_pos hpq.1 hpq.2
  set t : Rat := (R : Rat) / (D : Rat) with ht
  have ht0 : 0 ≤ t := div_nonneg hR0 hDQ.le
  have ht1 : t < 1 := by rw [ht, div_lt_one hDQ]; exact hRQ
  have hval : (N : Rat) / (den : Rat) = (V + t) * u := by
    rw [hu, ht]
    field_simp
    linarith [heqQ]
  have htz : t = 0 ↔ R = 0 := by
    rw [ht, div_eq_zero_iff]
    constructor
    · rintro (h | h)
      · exact_mod_cast h
      · exact absurd h hDQ.ne'
    · intro h; left; exact_mod_cast h
  unfold faithful
  simp only [hx, hmag, hulp, hval, Bool.and_eq_true, decide_eq_true_eq, beq_iff_eq, and_true]
  refine ⟨⟨⟨?_, ?_⟩, ?_⟩, hneg⟩
  · nlinarith [mul_nonneg ht0 hupos.le]
  · nlinarith [mul_pos (sub_pos.mpr ht1) hupos]
  · rw [hmark]
    congr 1
    apply propext
    rw [ne_eq, ← htz]
    have hiff : V * u = (V + t) * u ↔ t = 0 := by
      constructor
      · intro h2
        have h3 : t * u = 0 := by linarith
        rcases mul_eq_zero.mp h3 with h | h
        · exact h
        · exact absurd h hupos.ne'
      · intro h2; rw [h2]; ring
    exact not_congr hiff.symm

/-- A good text reads back to a faithful reading, and shows the mark character
exactly when the reading carries the mark. -/
theorem good_faithful (r : Rat) (text : List Char)
    (h : Good r.num.natAbs r.den (decide (r < 0)) text) :
    ∃ rd, readBack text = some rd ∧ faithful r rd = true ∧ ('…' ∈ text ↔ rd.mark = true) := by
  obtain ⟨int, frac, dot, mark, exp, htext, hne, hi, hf, hdot, hcrit⟩ := h
  refine ⟨{ neg := decide (r < 0), intDigits := int, fracDigits := frac, mark := mark, exp := exp },
    ?_, ?_, ?_⟩
  · rw [htext]; exact readBack_render _ int frac dot mark exp hne hi hf hdot
  · exact faithful_of_natCrit r _ r.num.natAbs r.den r.den_pos (specAbs_eq r) rfl hcrit
  · rw [htext]; exact mark_mem_render _ int frac dot mark exp hi hf

/-- What `faithful` says, in ordinary notation. -/
theorem faithful_iff (x : Rat) (rd : Read) :
    faithful x rd = true ↔
      (rd.magnitude ≤ |x| ∧ |x| < rd.magnitude + rd.ulp ∧ (rd.mark = true ↔ rd.magnitude ≠ |x|) ∧
        (rd.neg = true ↔ x < 0)) := by
  unfold faithful
  simp only [specAbs_eq_abs, Bool.and_eq_true, decide_eq_true_eq, beq_iff_eq, and_true]
  constructor
  · rintro ⟨⟨⟨h1, h2⟩, h3⟩, h4⟩
    exact ⟨h1, h2, by rw [h3]; simp, by rw [h4]; simp⟩
  · rintro ⟨h1, h2, h3, h4⟩
    refine ⟨⟨⟨h1, h2⟩, ?_⟩, ?_⟩
    · rw [Bool.eq_iff_iff, h3]; simp
    · rw [Bool.eq_iff_iff, h4]; simp

/-- `1 ≤ |r|` in terms of numerator and denominator. -/
theorem one_le_abs_iff (r : Rat) : 1 ≤ |r| ↔ r.den ≤ r.num.natAbs := by
  have hden : (0 : Rat) < (r.den : Rat) := by exact_mod_cast r.den_pos
  rw [abs_eq_natAbs_div, le_div_iff₀ hden, one_mul]
  exact_mod_cast Iff.rfl

/-- With a zero digit budget, a non-zero value below one is printed without any digit. -/
theorem fmt_small_limit_zero (spec : Display.Spec) (hc : spec.showContinuation = true)
    (he : 1 ≤ spec.exponentLimit) (hl : spec.limit = 0) (r : Rat) (h0 : r ≠ 0) (h1 : |r| < 1) :
    fmt spec r = ['…', 'e', '-', '1'] := by
  have hlt : r.num.natAbs < r.den := by
    have := (one_le_abs_iff r).not.mp (not_le.mpr h1)
    omega
  have hnum : r.num ≠ 0 := fun h => h0 (Rat.num_eq_zero.mp h)
  have hdiv : r.num.natAbs / r.den = 0 := Nat.div_eq_of_lt hlt
  have hdig : digits 0 = 0 := by simp [digits, digitsLoop]
  rw [fmt_eq, hdiv, hdig]
  have h1 : ¬ (0 ≥ spec.exponentLimit) := by omega
  have h2 : r.num.natAbs ≠ 0 := by omega
  simp only [h1, ↓reduceIte, Nat.mul_zero, Nat.sub_zero, ne_eq, not_true_eq_false, decide_false,
    Bool.false_or, h2]
  exact smallText_limit_zero spec hc hl _ _ _ (by omega)

end Anything.Lemmas.Printed
