import Anything.Lemmas.FULoop
import Anything.Lemmas.FUOperands
import Anything.Lemmas.C06Root
/-!
# The full expression language — all expressions, the root rule and `parseRootToks`

The structural recursion that ties the operator loop (`Lemmas/FULoop.lean`) to the operands
(`Lemmas/FUOperands.lean`), and the parser statement of `Lemmas/FUDefs.lean`: on the token list of
a rendered query the grammar builds blank leaves, ONE tree representing the expression, blank
leaves.
-/

namespace Anything.FU
open Anything Anything.Parser Anything.Grammar Anything.PTotal Anything.Spec.Arith
open Anything.Spec.Quantity Anything.C06 Anything.Eval Anything.QQ Anything.UQ

/-! ### All expressions -/

theorem loopSpecF : ∀ e : FExprU, LoopSpecF e
  | .num l => loop_of_valueF _ rfl rfl (valueSpecF_num l)
  | .qty l u => loop_of_valueF _ rfl rfl (valueSpecF_qty l u)
  | .bin op a b => loop_binF op a b (loopSpecF a) (loopSpecF b)
  | .paren e => loop_of_valueF _ rfl rfl (valueSpecF_paren e (op_of_loopF e (loopSpecF e)))
  | .cast a u => loop_castF a u (loopSpecF a)
  | .fact p v u => loop_of_valueF _ rfl rfl (valueSpecF_fact p v u)
  | .call f arg prec =>
    loop_of_valueF _ rfl rfl (valueSpecF_call f arg prec (op_of_loopF arg (loopSpecF arg)))

/-- `Grammar.operation` on any expression followed by `)`, `,` or the end of the input. -/
theorem opSpecF (e : FExprU) : OpSpecF e := op_of_loopF e (loopSpecF e)

/-- `Grammar.value` on any atom. -/
theorem valueSpecF_atom (e : FExprU) (hflat : flatF e = (.ex e, [])) : ValueSpecF e := by
  cases e with
  | num l => exact valueSpecF_num l
  | qty l u => exact valueSpecF_qty l u
  | paren e => exact valueSpecF_paren e (opSpecF e)
  | fact p v u => exact valueSpecF_fact p v u
  | call f arg prec => exact valueSpecF_call f arg prec (opSpecF arg)
  | bin op a b =>
    have h := congrArg (fun p => p.2.isEmpty) hflat
    simp [flatF] at h
  | cast a u =>
    have h := congrArg (fun p => p.2.isEmpty) hflat
    simp [flatF] at h

/-! ### The root rule -/

theorem headKind_toksF_start (e : FExprU) (ws : Layout) (K : List Token) (hwf : WFF e) :
    (headKind (toksF e ws ++ K) == Syntax.EOF) = false ∧
    (headKind (toksF e ws ++ K) == Syntax.OPEN_BRACE || headKind (toksF e ws ++ K) == Syntax.OPEN_PAREN
      || headKind (toksF e ws ++ K) == Syntax.WORD || headKind (toksF e ws ++ K) == Syntax.NUMBER) = true := by
  obtain ⟨t, r, h, hk⟩ := toksF_head' e ws hwf
  rw [h]
  simp only [List.cons_append, headKind]
  rcases hk with h | h | h <;> rw [h] <;> exact ⟨rfl, rfl⟩

theorem root_specF (e : FExprU) (ws : Layout) (hwf : WFF e) (hl : QueryLayoutOKF e ws) :
    ∃ F, Tot (root F) { toks := queryToksF e ws } (fun _ s' => ForestOKF s'.b.forest e) := by
  obtain ⟨Fo, ho⟩ := opSpecF e
  obtain ⟨hb0, hle, hb1⟩ := hl
  refine ⟨Fo + 2, ?_⟩
  have ht : ({ toks := queryToksF e ws } : PState).toks = blankTok (blank1 ws) ++
      (toksF e (rest1 ws) ++ (blankTok (blank1 (afterF e (rest1 ws))) ++ [])) := by
    simp [queryToksF]
  unfold root
  refine tot_countSkip_ws _ _ ht (allWS_blankTok _) (toksF_notWS' e _ _ hwf) ?_
  refine tot_seq (checkpoint_exact (s := { toks := queryToksF e ws }) good_init)
    fun c s1 ⟨ht1, hf1, _, g1, _, _⟩ => ?_
  have hf1' : s1.b.forest = [] := hf1
  refine tot_seq (P := fun r s' => r = false ∧ ForestOKF s'.b.forest e) ?_ fun r s2 ⟨hr, hF⟩ => ?_
  · unfold rootLoop
    refine tot_nth_ws _ _ (ht1.trans ht) ?_
    obtain ⟨k1, k2⟩ := headKind_toksF_start e (rest1 ws)
      (blankTok (blank1 (afterF e (rest1 ws))) ++ []) hwf
    simp only [k1, k2, Bool.false_eq_true, ↓reduceIte]
    refine tot_seq (tot_le (le_operation (Nat.le_succ Fo) _)
      (ho (rest1 ws) s1 _ _ [] hwf hle g1 (ht1.trans ht) (allWS_blankTok _) (allWS_blankTok _)
        (Or.inr (Or.inr rfl)))) fun r s2 ⟨Wt, x, hr, ht2, hf2, hWt, hx, g2, _, _⟩ => ?_
    subst hr
    simp only
    unfold rootLoop
    refine tot_nth_ws _ [] ht2 ?_
    simp only [headKind, beq_self_eq_true, ↓reduceIte]
    refine tot_seq (bumpN_ws _ ht2 (allWS_blankTok _) g2)
      fun _ s3 ⟨_, ⟨Wt', hf3, hWt', _⟩, _, _, _⟩ => ?_
    exact tot_pure ⟨rfl, Wt, x, Wt', by rw [hf3, hf2, hf1']; simp, hWt, hWt', hx⟩
  subst hr
  simp only [Bool.false_eq_true, ↓reduceIte]
  exact tot_pure hF

/-- **Parser correctness on the token list of a rendered query** (`FU.ParseStatement`). -/
theorem parseStatement : ParseStatement := by
  intro e ws hwf hl
  obtain ⟨F, _, s', hroot, hF⟩ := root_specF e ws hwf hl
  refine ⟨s'.b.forest, ?_, hF⟩
  unfold parseRootToks
  have hmax : fuelFor (queryToksF e ws) ≤ max F (fuelFor (queryToksF e ws)) := Nat.le_max_right _ _
  have h1 := PFuel.root_fuel_irrelevant (queryToksF e ws) _ hmax
  have h2 := PFuel.le_root_of_le (Nat.le_max_left F (fuelFor (queryToksF e ws))) _ _ hroot
  rw [← h1, h2]

/-! ### The parsed forest -/

theorem repF_kind {x : Tree} {e : FExprU} (h : RepF x e) :
    (x.kind == Syntax.WHITESPACE) = false := by
  cases h with
  | num hk _ _ _ => rw [hk]; rfl
  | pct _ _ _ => rfl
  | qty _ _ _ _ _ => rfl
  | fact hk _ _ => rw [hk]; split <;> rfl
  | paren _ _ => rfl
  | chain _ _ _ _ _ => rfl
  | call1 _ _ _ _ _ => rfl
  | call2 _ _ _ _ _ _ _ _ _ => rfl

/-- The single non-blank child of the parsed forest. -/
theorem forestOKF_filter {forest : List Tree} {e : FExprU} (h : ForestOKF forest e) :
    ∃ x, forest.filter (fun t => t.kind != .WHITESPACE) = [x] ∧ RepF x e := by
  obtain ⟨Wt, x, Wt', hf, hWt, hWt', hx⟩ := h
  have hws : ∀ W : List Tree, WSTrees W → W.filter (fun t => t.kind != .WHITESPACE) = [] := by
    intro W hW
    simp only [List.filter_eq_nil_iff]
    intro t ht
    obtain ⟨id, text, rfl⟩ := hW t ht
    simp [Tree.kind]
  refine ⟨x, ?_, hx⟩
  rw [hf, List.filter_append, List.filter_append, hws Wt hWt, hws Wt' hWt']
  have := repF_kind hx
  simp only [beq_eq_false_iff_ne, ne_eq] at this
  simp [this]

/-! ### Non-vacuity -/

/-- `round(1 + 2, 1)` with the default layout (one space at every blank position) is well formed
and admissibly laid out: the parser statement applies to it. -/
example : ∃ forest, Grammar.parseRootToks
      (queryToksF (.call .round (.bin .add (.num ⟨none, [1], none, none, false⟩)
        (.num ⟨none, [2], none, none, false⟩)) (some ⟨none, [1], none, none, false⟩)) []) =
        .ok forest ∧
    ForestOKF forest (.call .round (.bin .add (.num ⟨none, [1], none, none, false⟩)
        (.num ⟨none, [2], none, none, false⟩)) (some ⟨none, [1], none, none, false⟩)) := by
  refine parseStatement _ [] ?_ ?_
  · simp only [WFF, qprioF, BinOp.prio]
    refine ⟨⟨by decide, by decide, by decide, by decide⟩, ?_⟩
    intro n hn
    cases hn
    exact ⟨by decide, rfl⟩
  · simp only [QueryLayoutOKF, LayoutOKF, afterF, render, nextBlank, blank1, rest1]
    simp [Blank]
    decide

end Anything.FU
