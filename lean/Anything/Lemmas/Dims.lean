import Anything.Lemmas.Powers
import Anything.Spec.SI
import Mathlib.Algebra.BigOperators.Group.List.Basic
/-!
# Base dimensions of a compound: model (`base_units`) = specification (`Spec.SI.dims`)
-/

namespace Anything
open AMap Powers

/-- The reading of a model compound as a specification-level unit expression. -/
def semOf (c : Compound) : Spec.SI.UnitSem :=
  c.map (fun e => { pfx := e.2.pfx, key := e.1, power := e.2.power })

/-- Exponent of the key `k` in one unit `u`. -/
def dimOfKey (u k : UnitKey) : Int :=
  match u with
  | .base _ => if u = k then 1 else 0
  | .derived id => match Units.find? id with
    | some d => (d.dims.map (fun (bc : Base × Int) => if UnitKey.base bc.1 = k then bc.2 else 0)).sum
    | none => 0

/-- Exponent of `k` in a compound: `Σ power · exponent`. -/
def dimsFn (c : Compound) (k : UnitKey) : Int := (c.map (fun e => e.2.power * dimOfKey e.1 k)).sum

theorem dimOfKey_derived (u : UnitKey) (id : Nat) : dimOfKey u (.derived id) = 0 := by
  cases u with
  | base b => simp [dimOfKey]
  | derived i =>
    simp only [dimOfKey]
    split
    · apply List.sum_eq_zero
      intro x hx
      simp only [List.mem_map] at hx
      obtain ⟨bc, _, h⟩ := hx
      rw [← h]; simp
    · rfl

theorem dimsFn_derived (c : Compound) (id : Nat) : dimsFn c (.derived id) = 0 := by
  unfold dimsFn
  apply List.sum_eq_zero
  intro x hx
  simp only [List.mem_map] at hx
  obtain ⟨e, _, h⟩ := hx
  rw [← h, dimOfKey_derived]; simp

theorem dims_foldl_insert (dims : List (Base × Int)) (power : Int) :
    ∀ (p : Powers), Canon p →
      Canon (dims.foldl (fun acc (bc : Base × Int) => Powers.insert acc (.base bc.1) (power * bc.2)) p) ∧
      ∀ k, pw (dims.foldl (fun acc (bc : Base × Int) => Powers.insert acc (.base bc.1) (power * bc.2)) p) k
        = pw p k + power * (dims.map (fun (bc : Base × Int) => if UnitKey.base bc.1 = k then bc.2 else 0)).sum := by
  induction dims with
  | nil => intro p hp; simp [hp]
  | cons a rest ih =>
    intro p hp
    simp only [List.foldl_cons, List.map_cons, List.sum_cons]
    have hc := canon_insert hp (.base a.1) (power * a.2)
    obtain ⟨h1, h2⟩ := ih _ hc
    refine ⟨h1, fun k => ?_⟩
    rw [h2 k, pw_insert hp]
    split <;> ring

theorem powers_spec (u : UnitKey) (p : Powers) (power : Int) (hp : Canon p) :
    Canon (u.powers p power).1 ∧ ∀ k, pw (u.powers p power).1 k = pw p k + power * dimOfKey u k := by
  cases u with
  | base b =>
    simp only [UnitKey.powers, dimOfKey]
    refine ⟨canon_insert hp _ _, fun k => ?_⟩
    rw [pw_insert hp]
    split <;> simp
  | derived id =>
    simp only [UnitKey.powers, dimOfKey]
    cases hf : Units.find? id with
    | none => simp [hp]
    | some d =>
      simp only
      have := dims_foldl_insert d.dims power p hp
      exact this

theorem baseUnits_fold (c : Compound) : ∀ (acc : List (UnitKey × Int) × Powers), Canon acc.2 →
    Canon (c.foldl (fun (acc : List (UnitKey × Int) × Powers) (e : UnitKey × State) =>
      let (p', isDer) := e.1.powers acc.2 e.2.power
      (if isDer then acc.1 ++ [(e.1, e.2.power)] else acc.1, p')) acc).2 ∧
    ∀ k, pw (c.foldl (fun (acc : List (UnitKey × Int) × Powers) (e : UnitKey × State) =>
      let (p', isDer) := e.1.powers acc.2 e.2.power
      (if isDer then acc.1 ++ [(e.1, e.2.power)] else acc.1, p')) acc).2 k = pw acc.2 k + dimsFn c k := by
  induction c with
  | nil => intro acc h; simp [h, dimsFn]
  | cons e rest ih =>
    intro acc hacc
    simp only [List.foldl_cons]
    obtain ⟨h1, h2⟩ := powers_spec e.1 acc.2 e.2.power hacc
    have := ih ((if (e.1.powers acc.2 e.2.power).2 then acc.1 ++ [(e.1, e.2.power)] else acc.1,
      (e.1.powers acc.2 e.2.power).1)) h1
    obtain ⟨h3, h4⟩ := this
    refine ⟨h3, fun k => ?_⟩
    rw [h4 k]
    simp only [h2 k, dimsFn, List.map_cons, List.sum_cons]
    ring

/-- `base_units` yields a canonical map representing `Σ power · exponent`. -/
theorem baseUnits_spec (c : Compound) :
    Canon (Compound.baseUnits c).2 ∧ ∀ k, pw (Compound.baseUnits c).2 k = dimsFn c k := by
  have := baseUnits_fold c ([], []) canon_nil
  unfold Compound.baseUnits
  refine ⟨this.1, fun k => ?_⟩
  rw [this.2 k]; simp

/-! ### Bridge to the specification's dimension vectors -/

open Spec.SI in
/-- A dimension vector given by a function on base units. -/
def vecOf (f : Base → Int) : Spec.SI.DimVec := Base.all.map f

open Spec.SI in
theorem vecOf_add (f g : Base → Int) : DimVec.add (vecOf f) (vecOf g) = vecOf (fun b => f b + g b) := by
  simp [vecOf, Base.all, DimVec.add]

open Spec.SI in
theorem vecOf_smul (n : Int) (f : Base → Int) : DimVec.smul n (vecOf f) = vecOf (fun b => n * f b) := by
  simp [vecOf, Base.all, DimVec.smul]

open Spec.SI in
theorem vecOf_zero : DimVec.zero = vecOf (fun _ => 0) := by
  simp [vecOf, Base.all, DimVec.zero, List.replicate]

open Spec.SI in
theorem vecOf_single (b : Base) (n : Int) : DimVec.single b n = vecOf (fun b' => if b = b' then n else 0) := by
  cases b <;> simp [vecOf, Base.all, DimVec.single, Base.idx, List.range, List.range.loop]

theorem vecOf_inj {f g : Base → Int} : vecOf f = vecOf g ↔ ∀ b, f b = g b := by
  constructor
  · intro h b
    simp only [vecOf, Base.all, List.map_cons, List.map_nil, List.cons.injEq, and_true] at h
    cases b <;> simp [h]
  · intro h; simp [vecOf, h]

open Spec.SI in
theorem dimsOf_eq (u : UnitKey) : dimsOf u = vecOf (fun b => dimOfKey u (.base b)) := by
  cases u with
  | base b0 =>
    simp only [dimsOf, dimOfKey, vecOf_single]
    congr 1; funext b; simp
  | derived id =>
    simp only [dimsOf, dimOfKey, findUnit, Units.find?]
    cases Generated.units.find? (fun u => u.id == id) with
    | none => simp [vecOf_zero]
    | some d =>
      simp only
      suffices h : ∀ (l : List (Base × Int)) (f : Base → Int),
          l.foldl (fun acc (bc : Base × Int) => DimVec.add acc (DimVec.single bc.1 bc.2)) (vecOf f)
            = vecOf (fun b => f b + (l.map (fun (bc : Base × Int) => if UnitKey.base bc.1 = UnitKey.base b then bc.2 else 0)).sum) by
        rw [vecOf_zero, h]; simp
      intro l
      induction l with
      | nil => intro f; simp
      | cons a rest ih =>
        intro f
        simp only [List.foldl_cons, List.map_cons, List.sum_cons]
        rw [vecOf_single, vecOf_add, ih]
        congr 1; funext b
        simp only [UnitKey.base.injEq]
        ring

open Spec.SI in
/-- The model's dimension function is the specification's dimension vector. -/
theorem dims_semOf (c : Compound) : dims (semOf c) = vecOf (fun b => dimsFn c (.base b)) := by
  unfold dims semOf
  suffices h : ∀ (l : Compound) (f : Base → Int),
      (l.map (fun e => ({ pfx := e.2.pfx, key := e.1, power := e.2.power } : UTerm))).foldl
        (fun acc t => DimVec.add acc (DimVec.smul t.power (dimsOf t.key))) (vecOf f)
        = vecOf (fun b => f b + dimsFn l (.base b)) by
    rw [vecOf_zero, h]; simp
  intro l
  induction l with
  | nil => intro f; simp [dimsFn]
  | cons a rest ih =>
    intro f
    simp only [List.map_cons, List.foldl_cons]
    rw [dimsOf_eq, vecOf_smul, vecOf_add, ih]
    congr 1; funext b
    simp only [dimsFn, List.map_cons, List.sum_cons]
    ring

open Spec.SI in
/-- **Dimension comparison of `factor` = equality of specification dimensions.** -/
theorem sameBases_iff_dims (a b : Compound) :
    Compound.sameBases (Compound.baseUnits a).2 (Compound.baseUnits b).2 = true
      ↔ dims (semOf a) = dims (semOf b) := by
  obtain ⟨ca, pa⟩ := baseUnits_spec a
  obtain ⟨cb, pb⟩ := baseUnits_spec b
  rw [Compound.sameBases_iff ca cb, dims_semOf, dims_semOf, vecOf_inj]
  constructor
  · intro h bb
    rw [← pa, ← pb, h]
  · intro h
    apply canon_ext ca cb
    intro k
    rw [pa, pb]
    cases k with
    | base bb => exact h bb
    | derived id => rw [dimsFn_derived, dimsFn_derived]

end Anything
