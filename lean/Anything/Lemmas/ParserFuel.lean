import Anything.Lemmas.ParserTotal
/-!
# More fuel never changes a successful parse

`Le m m'` says that `m'` succeeds with the same result wherever `m` succeeds. Every fuelled
grammar function at fuel `F` is `Le` itself at fuel `F + 1`, so a parse that succeeds with
`fuelFor toks` (it always does, `PTotal.parseRootToks_ok`) gives the same forest for every
larger amount of fuel: the fuel is an artefact of the model, not part of its meaning.
-/

namespace Anything
namespace PFuel
open Parser Grammar

def Le {α} (m m' : PM α) : Prop := ∀ s r, m s = .ok r → m' s = .ok r

theorem le_refl {α} (m : PM α) : Le m m := fun _ _ h => h

theorem le_fail {α} (e : BErr) (m : PM α) : Le (PM.fail e) m := fun _ _ h => by cases h

theorem le_trans {α} {a b c : PM α} (h1 : Le a b) (h2 : Le b c) : Le a c :=
  fun s r h => h2 s r (h1 s r h)

theorem le_bind {α β} {m m' : PM α} {f f' : α → PM β} (hm : Le m m') (hf : ∀ a, Le (f a) (f' a)) :
    Le (m >>= f) (m' >>= f') := by
  intro s r h
  simp only [bind] at h ⊢
  split at h
  · rename_i a s1 h1
    rw [hm s _ h1]
    exact hf a s1 r h
  · cases h

/-- Decompose both programs in lock step; `ts` are the facts about recursive calls. -/
syntax "le_auto" "[" term,* "]" : tactic
macro_rules
  | `(tactic| le_auto [$ts,*]) => do
    let mut alt ← `(tactic| fail)
    for t in ts.getElems.reverse do
      alt ← `(tactic| first | with_reducible exact $t | ($alt:tactic))
    `(tactic| repeat (first
      | with_reducible exact le_refl _
      | with_reducible exact le_fail _ _
      | ($alt:tactic)
      | with_reducible refine le_bind ?_ (fun _ => ?_)
      | dsimp only
      | split))

theorem le_unitTrail (F : Nat) : Le (unitTrail F) (unitTrail (F + 1)) := by
  induction F with
  | zero => exact le_fail _ _
  | succ F ih => unfold unitTrail; le_auto [ih]

theorem le_unitLoop (F : Nat) : ∀ c skip, Le (unitLoop F c skip) (unitLoop (F + 1) c skip) := by
  induction F with
  | zero => intro c skip; exact le_fail _ _
  | succ F ih =>
    intro c skip
    unfold unitLoop; le_auto [ih _ _, le_unitTrail F]

theorem le_unit (F skip : Nat) : Le (unit F skip) (unit (F + 1) skip) := by
  unfold unit; le_auto [le_unitLoop F _ _]

theorem le_wordLoop (b : Bool) (F : Nat) :
    ∀ skip words, Le (wordLoop b F skip words) (wordLoop b (F + 1) skip words) := by
  induction F with
  | zero => intro _ _; exact le_fail _ _
  | succ F ih => intro skip words; unfold wordLoop; le_auto [ih _ _]

theorem le_mutual (F : Nat) :
    (∀ skip, Le (value F skip) (value (F + 1) skip)) ∧ Le (argsLoop F) (argsLoop (F + 1)) ∧
    Le (callArguments F) (callArguments (F + 1)) ∧
    (∀ opn st first skip, Le (opLoop F opn st first skip) (opLoop (F + 1) opn st first skip)) ∧
    (∀ skip, Le (operation F skip) (operation (F + 1) skip)) := by
  induction F with
  | zero =>
    refine ⟨fun _ => ?_, ?_, ?_, fun _ _ _ _ => ?_, fun _ => ?_⟩
    · unfold value; exact le_fail _ _
    · unfold argsLoop; exact le_fail _ _
    · unfold callArguments; exact le_fail _ _
    · unfold opLoop; exact le_fail _ _
    · unfold operation; exact le_fail _ _
  | succ F ih =>
    obtain ⟨ihv, iha, ihc, iho, ihop⟩ := ih
    refine ⟨?_, ?_, ?_, ?_, ?_⟩
    · intro skip; unfold value
      le_auto [ihc, ihop _, le_wordLoop _ _ _ _, le_unit _ _]
    · unfold argsLoop; le_auto [iha, ihop _]
    · unfold callArguments; le_auto [iha]
    · intro opn st first skip; unfold opLoop
      le_auto [ihv _, iho _ _ _ _, le_unit _ _]
    · intro skip; unfold operation; le_auto [iho _ _ _ _]

theorem le_rootLoop (F : Nat) :
    ∀ c e skip, Le (rootLoop F c e skip) (rootLoop (F + 1) c e skip) := by
  induction F with
  | zero => intro _ _ _; exact le_fail _ _
  | succ F ih =>
    intro c e skip
    unfold rootLoop; le_auto [ih _ _ _, (le_mutual F).2.2.2.2 _]

theorem le_root (F : Nat) : Le (root F) (root (F + 1)) := by
  unfold root; le_auto [le_rootLoop F _ _ _]

theorem le_root_of_le {F F' : Nat} (h : F ≤ F') : Le (root F) (root F') := by
  induction h with
  | refl => exact le_refl _
  | step _ ih => exact le_trans ih (le_root _)

/-- With any fuel at least `fuelFor toks` the root parser returns what it returns with
`fuelFor toks`. -/
theorem root_fuel_irrelevant (toks : List Token) (F : Nat) (h : fuelFor toks ≤ F) :
    root F { toks := toks } = root (fuelFor toks) { toks := toks } := by
  obtain ⟨a, s', hr, _⟩ := PTotal.root_spec (fuelFor toks) (s := { toks := toks })
    PTotal.chain_init (by simp only [PTotal.n, fuelFor]; omega)
  rw [hr]
  exact le_root_of_le h _ _ hr

end PFuel
end Anything
