import Anything.Model.AMap
import Mathlib.Data.List.Basic
import Mathlib.Data.List.Pairwise
import Mathlib.Data.List.Perm.Subperm
import Mathlib.Tactic.Ring
/-!
# Sorted association lists: the `BTreeMap` invariant and lookup lemmas

`UnitKey.lt` is a strict total order; `AMap.insert` / `AMap.erase` keep a list
strictly sorted; on sorted lists `get?` characterises membership.
-/

namespace Anything
namespace UnitKey

theorem idx_inj {x y : Base} (h : x.idx = y.idx) : x = y := by
  cases x <;> cases y <;> simp [Base.idx] at h ⊢

theorem rank_inj {a b : UnitKey} (h : a.rank = b.rank) : a = b := by
  cases a <;> cases b <;> simp [rank] at h ⊢
  · exact h
  · exact idx_inj h

theorem lt_iff (a b : UnitKey) :
    a.lt b = true ↔ a.rank.1 < b.rank.1 ∨ (a.rank.1 = b.rank.1 ∧ a.rank.2 < b.rank.2) := by
  unfold lt
  rcases ha : a.rank with ⟨a1, a2⟩
  rcases hb : b.rank with ⟨b1, b2⟩
  simp

theorem lt_irrefl (a : UnitKey) : a.lt a = false := by
  cases h : a.lt a
  · rfl
  · rw [lt_iff] at h; omega

theorem lt_trans {a b c : UnitKey} (h1 : a.lt b = true) (h2 : b.lt c = true) : a.lt c = true := by
  rw [lt_iff] at *; omega

theorem lt_asymm {a b : UnitKey} (h1 : a.lt b = true) : b.lt a = false := by
  cases h : b.lt a
  · rfl
  · rw [lt_iff] at *; omega

theorem lt_of_not_lt_of_ne {a b : UnitKey} (h1 : a.lt b = false) (h2 : a ≠ b) : b.lt a = true := by
  rw [lt_iff]
  have h1' : ¬ (a.lt b = true) := by simp [h1]
  rw [lt_iff] at h1'
  have : a.rank ≠ b.rank := fun h => h2 (rank_inj h)
  have : ¬ (a.rank.1 = b.rank.1 ∧ a.rank.2 = b.rank.2) := fun ⟨x, y⟩ => this (Prod.ext x y)
  omega

theorem ne_of_lt {a b : UnitKey} (h : a.lt b = true) : a ≠ b := by
  intro e; subst e; rw [lt_irrefl] at h; exact absurd h (by simp)

end UnitKey

namespace AMap
variable {α : Type}

def Sorted (m : AMap α) : Prop := m.Pairwise (fun a b => a.1.lt b.1 = true)

theorem sorted_nil : Sorted ([] : AMap α) := List.Pairwise.nil

theorem Sorted.tail {e : UnitKey × α} {m : AMap α} (h : Sorted (e :: m)) : Sorted m :=
  (List.pairwise_cons.mp h).2

theorem Sorted.head_lt {e : UnitKey × α} {m : AMap α} (h : Sorted (e :: m)) :
    ∀ e' ∈ m, e.1.lt e'.1 = true := (List.pairwise_cons.mp h).1

/-! ### `get?` -/

@[simp] theorem get?_nil (k : UnitKey) : get? ([] : AMap α) k = none := rfl

theorem get?_cons (e : UnitKey × α) (m : AMap α) (k : UnitKey) :
    get? (e :: m) k = if e.1 = k then some e.2 else get? m k := by
  obtain ⟨a, b⟩ := e; rfl

theorem mem_of_get? {m : AMap α} {k : UnitKey} {v : α} (h : get? m k = some v) : (k, v) ∈ m := by
  induction m with
  | nil => simp at h
  | cons e rest ih =>
    rw [get?_cons] at h
    split at h
    · rename_i hk; simp only [Option.some.injEq] at h; subst hk; subst h; simp
    · exact List.mem_cons_of_mem _ (ih h)

theorem get?_eq_none_iff {m : AMap α} {k : UnitKey} : get? m k = none ↔ ∀ e ∈ m, e.1 ≠ k := by
  induction m with
  | nil => simp
  | cons e rest ih =>
    rw [get?_cons]
    split
    · rename_i hk; simp [hk]
    · rename_i hk; simp [ih, hk]

theorem get?_of_mem {m : AMap α} (hs : Sorted m) {k : UnitKey} {v : α} (h : (k, v) ∈ m) :
    get? m k = some v := by
  induction m with
  | nil => simp at h
  | cons e rest ih =>
    rw [get?_cons]
    rcases List.mem_cons.mp h with h | h
    · subst h; simp
    · have hlt := hs.head_lt _ h
      have : e.1 ≠ k := UnitKey.ne_of_lt hlt
      simp [this, ih hs.tail h]

theorem mem_iff_get? {m : AMap α} (hs : Sorted m) {k : UnitKey} {v : α} :
    (k, v) ∈ m ↔ get? m k = some v := ⟨get?_of_mem hs, mem_of_get?⟩

/-- Two sorted maps with the same lookups are the same list. -/
theorem ext_sorted {l r : AMap α} (hl : Sorted l) (hr : Sorted r)
    (h : ∀ k, get? l k = get? r k) : l = r := by
  induction l generalizing r with
  | nil =>
    cases r with
    | nil => rfl
    | cons e rest =>
      have := h e.1
      rw [get?_cons] at this; simp at this
  | cons a l ih =>
    cases r with
    | nil =>
      have := h a.1
      rw [get?_cons] at this; simp at this
    | cons b r =>
      have hab : a.1 = b.1 := by
        by_contra hne
        -- whichever key is smaller is missing from the other list
        cases hlt : a.1.lt b.1
        · have hba := UnitKey.lt_of_not_lt_of_ne hlt hne
          have h1 := h b.1
          rw [get?_cons, get?_cons] at h1
          simp only [hne, ↓reduceIte] at h1
          have hm := mem_of_get? h1
          have := hl.head_lt _ hm
          simp at this
          rw [UnitKey.lt_asymm hba] at this; exact absurd this (by simp)
        · have h1 := h a.1
          rw [get?_cons, get?_cons] at h1
          have hne' : b.1 ≠ a.1 := fun x => hne x.symm
          simp only [hne', ↓reduceIte] at h1
          have hm := mem_of_get? h1.symm
          have := hr.head_lt _ hm
          simp at this
          rw [UnitKey.lt_asymm hlt] at this; exact absurd this (by simp)
      have hv : a.2 = b.2 := by
        have h1 := h a.1
        rw [get?_cons, get?_cons] at h1
        simpa [hab] using h1
      have hab' : a = b := Prod.ext hab hv
      subst hab'
      congr 1
      apply ih hl.tail hr.tail
      intro k
      have h1 := h k
      rw [get?_cons, get?_cons] at h1
      by_cases hk : a.1 = k
      · -- k is the head key: absent from both tails
        subst hk
        have n1 : get? l a.1 = none := get?_eq_none_iff.mpr (fun e he => (UnitKey.ne_of_lt (hl.head_lt e he)).symm)
        have n2 : get? r a.1 = none := get?_eq_none_iff.mpr (fun e he => (UnitKey.ne_of_lt (hr.head_lt e he)).symm)
        rw [n1, n2]
      · simpa [hk] using h1

/-! ### `insert` -/

theorem mem_insert {m : AMap α} {k : UnitKey} {v : α} {e : UnitKey × α} (h : e ∈ insert m k v) :
    e = (k, v) ∨ e ∈ m := by
  induction m with
  | nil => simp [insert] at h; exact Or.inl h
  | cons a rest ih =>
    obtain ⟨k', w⟩ := a
    simp only [insert] at h
    split at h
    · rcases List.mem_cons.mp h with h | h
      · exact Or.inl h
      · exact Or.inr (List.mem_cons_of_mem _ h)
    · split at h
      · rcases List.mem_cons.mp h with h | h
        · exact Or.inl h
        · exact Or.inr h
      · rcases List.mem_cons.mp h with h | h
        · exact Or.inr (by simp [h])
        · rcases ih h with h | h
          · exact Or.inl h
          · exact Or.inr (List.mem_cons_of_mem _ h)

theorem get?_insert_self (m : AMap α) (k : UnitKey) (v : α) : get? (insert m k v) k = some v := by
  induction m with
  | nil => simp [insert, get?]
  | cons a rest ih =>
    obtain ⟨k', w⟩ := a
    simp only [insert]
    split
    · simp [get?]
    · split
      · simp [get?]
      · rename_i h1 h2; simp [get?, h1, ih]

theorem get?_insert_ne (m : AMap α) {k k' : UnitKey} (v : α) (h : k ≠ k') :
    get? (insert m k v) k' = get? m k' := by
  induction m with
  | nil => simp [insert, get?, h]
  | cons a rest ih =>
    obtain ⟨k0, w⟩ := a
    simp only [insert]
    split
    · rename_i h0; subst h0; simp [get?, h]
    · split
      · simp [get?, h]
      · simp [get?, ih]

theorem get?_insert (m : AMap α) (k k' : UnitKey) (v : α) :
    get? (insert m k v) k' = if k = k' then some v else get? m k' := by
  by_cases h : k = k'
  · subst h; simp [get?_insert_self]
  · simp [h, get?_insert_ne m v h]

theorem sorted_insert {m : AMap α} (hs : Sorted m) (k : UnitKey) (v : α) : Sorted (insert m k v) := by
  induction m with
  | nil => simp [insert, Sorted]
  | cons a rest ih =>
    obtain ⟨k0, w⟩ := a
    simp only [insert]
    split
    · rename_i h0; subst h0
      exact List.pairwise_cons.mpr ⟨fun e he => hs.head_lt e he, hs.tail⟩
    · split
      · rename_i h0 h1
        refine List.pairwise_cons.mpr ⟨?_, hs⟩
        intro e he
        rcases List.mem_cons.mp he with he | he
        · subst he; exact h1
        · exact UnitKey.lt_trans h1 (hs.head_lt e he)
      · rename_i h0 h1
        refine List.pairwise_cons.mpr ⟨?_, ih hs.tail⟩
        intro e he
        rcases mem_insert he with he | he
        · subst he
          have : k.lt k0 = false := by simpa using h1
          exact UnitKey.lt_of_not_lt_of_ne this (fun x => h0 x.symm)
        · exact hs.head_lt e he

/-! ### `erase` -/

theorem mem_erase {m : AMap α} {k : UnitKey} {e : UnitKey × α} (h : e ∈ erase m k) : e ∈ m := by
  induction m with
  | nil => simp [erase] at h
  | cons a rest ih =>
    obtain ⟨k0, w⟩ := a
    simp only [erase] at h
    split at h
    · exact List.mem_cons_of_mem _ h
    · rcases List.mem_cons.mp h with h | h
      · simp [h]
      · exact List.mem_cons_of_mem _ (ih h)

theorem sorted_erase {m : AMap α} (hs : Sorted m) (k : UnitKey) : Sorted (erase m k) := by
  induction m with
  | nil => simp [erase, Sorted]
  | cons a rest ih =>
    obtain ⟨k0, w⟩ := a
    simp only [erase]
    split
    · exact hs.tail
    · exact List.pairwise_cons.mpr ⟨fun e he => hs.head_lt e (mem_erase he), ih hs.tail⟩

theorem get?_erase_ne (m : AMap α) {k k' : UnitKey} (h : k ≠ k') : get? (erase m k) k' = get? m k' := by
  induction m with
  | nil => simp [erase]
  | cons a rest ih =>
    obtain ⟨k0, w⟩ := a
    simp only [erase]
    split
    · rename_i h0; subst h0; simp [get?, h]
    · simp [get?, ih]

theorem get?_erase_self {m : AMap α} (hs : Sorted m) (k : UnitKey) : get? (erase m k) k = none := by
  induction m with
  | nil => simp [erase]
  | cons a rest ih =>
    obtain ⟨k0, w⟩ := a
    simp only [erase]
    split
    · rename_i h0; subst h0
      exact get?_eq_none_iff.mpr (fun e he => (UnitKey.ne_of_lt (hs.head_lt e he)).symm)
    · rename_i h0; simp [get?, h0, ih hs.tail]

theorem get?_erase {m : AMap α} (hs : Sorted m) (k k' : UnitKey) :
    get? (erase m k) k' = if k = k' then none else get? m k' := by
  by_cases h : k = k'
  · subst h; simp [get?_erase_self hs]
  · simp [h, get?_erase_ne m h]

end AMap
end Anything
