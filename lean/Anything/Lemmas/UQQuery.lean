import Anything.Lemmas.UQEval
import Anything.Lemmas.UQLog
import Anything.Lemmas.UQRoot
import Anything.Lemmas.FQQuery
/-!
# The unified expression language — `Eval.query` on a rendered query

Lexer (`UQLex`), parser (`UQShift`, `UQFrames`, `UQParse`, `UQRoot`), evaluator (`UQEval` for the
value, `UQLog` for the description log) put together.
-/

namespace Anything.UQ
open Anything Anything.Eval Anything.Spec Anything.Spec.Arith Anything.Spec.Decimal
open Anything.Spec.Quantity Anything.Spec.SI Anything.QQ Anything.FQ
open Anything.C06 (queryLoop_ws)

/-- `UnitsOKU` depends on the configuration through the database only. -/
theorem unitsOKU_congr {cfg cfg' : Cfg} (h : cfg'.db = cfg.db) :
    ∀ e : QExpr, UnitsOKU cfg' e ↔ UnitsOKU cfg e
  | .num _ => Iff.rfl
  | .qty _ _ => Iff.rfl
  | .bin op a b => by
    simp only [UnitsOKU, unitsOKU_congr h a, unitsOKU_congr h b]
  | .paren e => by simp only [UnitsOKU, unitsOKU_congr h e]
  | .cast e u => by simp only [UnitsOKU, unitsOKU_congr h e]
  | .fact p v u => by simp only [UnitsOKU, h]

/-- **The evaluator on a tree that represents `e`, for every configuration.** The result `r` is
the one the specification determines (`OutcomeV`) — it does not depend on `describe` nor on the
incoming log —, and the log grows by a prefix `L` of `descLog cfg e`, by all of it when `r` is a
value. -/
theorem eval_repU_full (cfg : Cfg) (t : Tree) (e : QExpr) (off fuel : Nat) (d : List Desc)
    (h : RepU t e) (hu : UnitsOKU cfg e) (hdet : Determinate e) (hf : 2 * size t ≤ fuel) :
    ∃ r L, eval cfg fuel ⟨off, t⟩ d = (r, d ++ L) ∧ OutcomeV e r ∧ L <+: descLog cfg e ∧
      ((∃ a, r = .ok a) → L = descLog cfg e) := by
  obtain ⟨r, L, hr, hp, hok⟩ := eval_log cfg t e off fuel h
  refine ⟨r, L, hr d, ?_, hp, hok⟩
  have hv := eval_repU { cfg with describe := false } rfl unitFacts t e off fuel d h
    ((unitsOKU_congr (cfg := cfg) (cfg' := { cfg with describe := false }) rfl e).mpr hu) hdet hf
  have hs := (built_eval { cfg with describe := false } cfg rfl fuel ⟨off, t⟩).sameVal rfl d d
  have hs' : (eval { cfg with describe := false } fuel ⟨off, t⟩ d).1 = r := by
    simpa [hr d] using hs
  rw [← hs']
  exact hv.1

/-- What `Eval.query` answers, against the specification: exactly one result `r`, the one the
specification determines, and the descriptions of the successful lookups in evaluation order — all
of `descLog cfg e` when `r` is a value, a prefix of it otherwise. -/
def QueryOutcomeU (cfg : Cfg) (e : QExpr)
    (res : Except BErr (List (Except EvalErr Numeric) × List Desc)) : Prop :=
  ∃ r L, res = .ok ([r], L) ∧ OutcomeV e r ∧ L <+: descLog cfg e ∧
    ((∃ a, r = .ok a) → L = descLog cfg e)

/-- `Eval.query` on a rendered query is the evaluator on the one tree of the parsed forest. -/
theorem query_renderU_eval (cfg : Cfg) (e : QExpr) (ws : Layout) (hwf : WFS e)
    (hl : QueryLayoutOKU e ws) :
    ∃ x off, RepU x e ∧ Eval.query cfg (renderQuery e ws) =
      .ok ([(eval cfg (2 * size x + 2) ⟨off, x⟩ []).1], (eval cfg (2 * size x + 2) ⟨off, x⟩ []).2) := by
  obtain ⟨forest, hparse, Wt, x, Wt', hf, hWt, hWt', hx⟩ := parse_renderU e ws hwf hl
  unfold Eval.query
  rw [hparse]
  simp only
  rw [hf, List.append_assoc]
  obtain ⟨off, h1⟩ := queryLoop_ws cfg Wt hWt ([x] ++ Wt') 0
  rw [h1]
  simp only [List.singleton_append, kidsAt, queryLoop, repU_kind hx, Bool.false_eq_true,
    ↓reduceIte]
  obtain ⟨off2, h2⟩ := queryLoop_ws cfg Wt' hWt' [] (off + x.len)
  have h2' := h2 (eval cfg (2 * size x + 2) ⟨off, x⟩ []).2
  simp only [List.append_nil, kidsAt, queryLoop] at h2'
  refine ⟨x, off, hx, ?_⟩
  rcases hev : eval cfg (2 * size x + 2) ⟨off, x⟩ [] with ⟨r, L⟩
  rw [hev] at h2'
  simp only [h2']

theorem query_renderU (cfg : Cfg) (e : QExpr) (ws : Layout) (hwf : WFS e)
    (hl : QueryLayoutOKU e ws) (hu : UnitsOKU cfg e) (hdet : Determinate e) :
    QueryOutcomeU cfg e (Eval.query cfg (renderQuery e ws)) := by
  obtain ⟨x, off, hx, hq⟩ := query_renderU_eval cfg e ws hwf hl
  obtain ⟨r, L, hr, hv, hp, hok⟩ := eval_repU_full cfg x e off (2 * size x + 2) [] hx hu hdet
    (by omega)
  refine ⟨r, L, ?_, hv, hp, hok⟩
  rw [hq, hr]
  simp

/-- The results do not depend on `describe`; without it nothing is reported. -/
theorem query_renderU_plain (cfg : Cfg) (e : QExpr) (ws : Layout) (hwf : WFS e)
    (hl : QueryLayoutOKU e ws) (hu : UnitsOKU cfg e) (hdet : Determinate e) :
    ∃ r L, OutcomeV e r ∧
      Eval.query { cfg with describe := true } (renderQuery e ws) = .ok ([r], L) ∧
      Eval.query { cfg with describe := false } (renderQuery e ws) = .ok ([r], []) ∧
      L <+: fullLog cfg.db e ∧ ((∃ a, r = .ok a) → L = fullLog cfg.db e) := by
  obtain ⟨r, L, h1, hv, hp, hok⟩ := query_renderU { cfg with describe := true } e ws hwf hl
    ((unitsOKU_congr (cfg := cfg) (cfg' := { cfg with describe := true }) rfl e).mpr hu) hdet
  obtain ⟨r', L', h2, _, hp', _⟩ := query_renderU { cfg with describe := false } e ws hwf hl
    ((unitsOKU_congr (cfg := cfg) (cfg' := { cfg with describe := false }) rfl e).mpr hu) hdet
  have hL' : L' = [] := by simpa [descLog] using hp'
  subst hL'
  have e1 := queryFrom_results cfg true (renderQuery e ws) []
  have e2 := queryFrom_results cfg false (renderQuery e ws) []
  rw [queryFrom_nil] at e1 e2
  rw [← e2, h1, h2] at e1
  simp only [Except.map, Except.ok.injEq, List.cons.injEq, and_true] at e1
  subst e1
  exact ⟨r, L, hv, h1, h2, by simpa [descLog] using hp, fun h => by simpa [descLog] using hok h⟩

end Anything.UQ
