import Anything.Lemmas.C9QEval
import Anything.Lemmas.QQLaws
/-!
# C09 end to end — the compound a written unit expression stands for, entry by entry

`Lemmas/QQUnit.lean` describes the result of `eval::unit` for proportional units. The same
description holds for any units (the run of `update`s does not look at the conversion of a unit):
for a written unit expression `u` all of whose factors are read (`WordOK`) and in which no unit
occurs with two prefixes (`Coherent`), `unitOf u` is the sorted compound that holds, for every
unit `k`, the total power `P k` of the factors with that unit — no entry when the total is zero —
under the prefix of those factors (`unitOf_entries`).
-/

namespace Anything.C9Q
open Anything Anything.Eval Anything.Spec Anything.Spec.Quantity Anything.Spec.SI Anything.QQ

/-- The loop invariant of `QQ.Inv` without "only proportional units". -/
structure Inv0 (pf : UnitKey → Int) (c : Compound) : Prop where
  sorted : AMap.Sorted c
  pfx : ∀ k st, AMap.get? c k = some st → st.pfx = pf k
  nz : ∀ k st, AMap.get? c k = some st → st.power ≠ 0

theorem inv0_nil (pf : UnitKey → Int) : Inv0 pf [] :=
  ⟨AMap.sorted_nil, fun k st h => (by cases h), fun k st h => (by cases h)⟩

theorem update_inv0 {pf : UnitKey → Int} {c : Compound} {u : UnitKey} {δ : Int} (hi : Inv0 pf c)
    (hδ : δ ≠ 0) :
    ∃ c', Compound.update c u δ (pf u) = .ok c' ∧ Inv0 pf c' ∧
      ∀ k, powOf c' k = powOf c k + if u = k then δ else 0 := by
  have hex : ∃ c', Compound.update c u δ (pf u) = .ok c' := by
    unfold Compound.update
    cases hget : AMap.get? c u with
    | none => exact ⟨_, rfl⟩
    | some st =>
      have := hi.pfx u st hget
      simp only [this, ne_eq, not_true_eq_false, ↓reduceIte]
      split <;> exact ⟨_, rfl⟩
  obtain ⟨c', h⟩ := hex
  obtain ⟨hs', _, _⟩ := update_sem hi.sorted h
  obtain ⟨e1, e2, e3⟩ := update_entry hi.sorted h
  have hu' : AMap.get? c' u = if powOf c u + δ = 0 then none
      else some { power := powOf c u + δ, pfx := pf u } := by
    unfold powOf
    cases hget : AMap.get? c u with
    | none => simp [e2 hget, hδ]
    | some st => exact (e3 st hget).2
  refine ⟨c', h, ⟨hs', ?_, ?_⟩, ?_⟩
  · intro k st hk
    by_cases hku : k = u
    · subst hku
      rw [hu'] at hk
      split at hk
      · simp at hk
      · simp only [Option.some.injEq] at hk; rw [← hk]
    · rw [e1 k hku] at hk
      exact hi.pfx k st hk
  · intro k st hk
    by_cases hku : k = u
    · subst hku
      rw [hu'] at hk
      split at hk
      · simp at hk
      · rename_i hne
        simp only [Option.some.injEq] at hk; rw [← hk]; exact hne
    · rw [e1 k hku] at hk
      exact hi.nz k st hk
  · intro k
    by_cases hku : u = k
    · subst hku
      simp only [↓reduceIte]
      by_cases hz : powOf c u + δ = 0
      · have e : powOf c' u = 0 := by rw [powOf, hu']; simp [hz]
        rw [e, hz]
      · have e : powOf c' u = powOf c u + δ := by rw [powOf, hu']; simp [hz]
        exact e
    · simp only [hku, ↓reduceIte, Int.add_zero]
      unfold powOf
      rw [e1 k (Ne.symm hku)]

theorem runUpds_inv0 {pf : UnitKey → Int} (us : List Upd) : ∀ c, Inv0 pf c →
    (∀ i ∈ us, i.pfx = pf i.key ∧ i.delta ≠ 0) →
    ∃ c', runUpds c us = .ok c' ∧ Inv0 pf c' ∧ ∀ k, powOf c' k = powOf c k + powU us k := by
  induction us with
  | nil =>
    intro c hi _
    exact ⟨c, rfl, hi, by simp [powU]⟩
  | cons i us ih =>
    intro c hi hus
    obtain ⟨h1, h3⟩ := hus i (by simp)
    obtain ⟨c1, hu, hi1, hp1⟩ := update_inv0 (u := i.key) hi h3
    obtain ⟨c', hr, hi', hp'⟩ := ih c1 hi1 (fun j hj => hus j (List.mem_cons_of_mem _ hj))
    refine ⟨c', ?_, hi', ?_⟩
    · simp only [runUpds, h1, hu]; exact hr
    · intro k
      rw [hp', hp1]
      simp only [powU, List.map_cons, List.sum_cons]; ring

theorem wordOK_resolve {t : RTerm} (h : WordOK t) : resolve t = some (rs t) := by
  obtain ⟨ut, h1, _⟩ := h.reads
  rw [rs_of_resolve h1]; exact h1

theorem wordOK_power {t : RTerm} (h : WordOK t) : (rs t).power = t.power :=
  resolve_power (wordOK_resolve h)

/-- **The compound of a written unit expression, entry by entry** (any kind of unit). -/
theorem unitOf_entries (u : List RTerm) (hw : ∀ t ∈ u, WordOK t) (hco : Coherent (u.map rs)) :
    ∃ T, unitOf u = some T ∧ AMap.Sorted T ∧ ∀ k, AMap.get? T k =
      if P (u.map rs) k = 0 then none
      else some { power := P (u.map rs) k, pfx := pfOf (u.map rs) k } := by
  have hp : ∀ t ∈ u, (rs t).power = t.power := fun t ht => wordOK_power (hw t ht)
  have hall : ∀ i ∈ allUpds u, i.pfx = pfOf (u.map rs) i.key ∧ i.delta ≠ 0 := by
    intro i hi
    have key : ∀ t ∈ u, ∀ cur p, (cur = 1 ∨ cur = -1) → i ∈ termUpds (rs t).key (rs t).pfx cur p →
        i.pfx = pfOf (u.map rs) i.key ∧ i.delta ≠ 0 := by
      intro t ht cur p hcur hi
      obtain ⟨h1, h2, h3⟩ := termUpds_mem hcur hi
      have hm : rs t ∈ u.map rs := List.mem_map_of_mem ht
      refine ⟨?_, h3⟩
      rw [h1, h2, pfOf_mem hco hm]
    simp only [allUpds, numUpds, denUpds, List.mem_append, List.mem_flatMap] at hi
    rcases hi with ⟨t, ht, hi⟩ | ⟨t, ht, hi⟩
    · exact key t (List.mem_of_mem_filter ht) 1 _ (Or.inl rfl) hi
    · exact key t (List.mem_of_mem_filter ht) (-1) _ (Or.inr rfl) hi
  obtain ⟨T, hr, hi, hpw⟩ := runUpds_inv0 (allUpds u) [] (inv0_nil _) hall
  refine ⟨T, by simp [unitOf, hr], hi.sorted, fun k => ?_⟩
  have hk := hpw k
  rw [allUpds_pow u hp] at hk
  have h0 : powOf ([] : Compound) k = 0 := by simp [powOf, AMap.get?]
  rw [h0, zero_add] at hk
  unfold powOf at hk
  cases hget : AMap.get? T k with
  | none =>
    rw [hget] at hk
    simp [← hk]
  | some st =>
    rw [hget] at hk
    have h1 := hi.nz k st hget
    have h2 := hi.pfx k st hget
    simp only at hk
    rw [← hk, ← h2]
    simp [h1]

/-- Read factors and one prefix per unit: the unit expression is in the scope of `eval_evQ`. -/
theorem unitRuns_of (u : List RTerm) (hw : ∀ t ∈ u, WordOK t) (hco : Coherent (u.map rs)) :
    UnitRuns u := by
  obtain ⟨T, hT, _⟩ := unitOf_entries u hw hco
  exact ⟨hw, T, hT⟩

/-- Executable form of `WordOK`. -/
def wordCheck (t : RTerm) : Bool :=
  match resolve t with
  | some ut => UnitWord.parseWord (word t) == some [(ut.pfx, ut.key)] &&
      decide (-2147483647 ≤ t.power) && decide (t.power ≤ 2147483647)
  | none => false

theorem wordOK_of_check {t : RTerm} (h : wordCheck t = true) : WordOK t := by
  unfold wordCheck at h
  split at h
  · rename_i ut hut
    simp only [Bool.and_eq_true, beq_iff_eq, decide_eq_true_eq] at h
    exact ⟨⟨ut, hut, h.1.1⟩, h.1.2, h.2⟩
  · cases h

/-- Executable form of "read factors, one prefix per unit". -/
def runsCheck (u : List RTerm) : Bool := u.all wordCheck && decide (Coherent (u.map rs))

theorem unitRuns_of_check {u : List RTerm} (h : runsCheck u = true) : UnitRuns u := by
  simp only [runsCheck, Bool.and_eq_true, List.all_eq_true, decide_eq_true_eq] at h
  exact unitRuns_of u (fun t ht => wordOK_of_check (h.1 t ht)) h.2

end Anything.C9Q
