import Anything.Lemmas.UQCall
/-!
# Stage 2 — the two-argument call `f( e , n )`: lexer and parser

As `Lemmas/UQCall.lean`, with the argument `e` followed by a COMMA (`OpSpecU` with the end kind
COMMA, possible since `Lemmas/UQFollow.lean` has the COMMA in the follow sets) and a second
argument that is the plain number `n` (parsed as the expression `.num n`).
-/

namespace Anything.UQ
open Anything Anything.Lexer Anything.Parser Anything.Grammar Anything.PTotal Anything.Spec
open Anything.Spec.Arith Anything.Spec.Decimal Anything.Spec.Quantity Anything.C06 Anything.QQ

/-! ### Rendering -/

theorem renderCall_some (f : Fn) (e : QExpr) (n : Literal) (ws : Layout) :
    renderCall ⟨f, e, some n⟩ ws =
      (f.name ++ (['('] ++ (blank1 ws ++ ((Quantity.render e (rest1 ws)).1 ++
        (blank1 (afterQ e (rest1 ws)) ++ ([','] ++ (blank1 (rest1 (afterQ e (rest1 ws))) ++
          (renderNumber n ++ (blank1 (rest1 (rest1 (afterQ e (rest1 ws)))) ++ [')'])))))))),
        afterCall2 e ws) := by
  simp [renderCall, afterCall2]

theorem renderCallQuery_some (f : Fn) (e : QExpr) (n : Literal) (ws : Layout) :
    renderCallQuery ⟨f, e, some n⟩ ws =
      blank1 ws ++ ((renderCall ⟨f, e, some n⟩ (rest1 ws)).1 ++
        (blank1 (afterCall2 e (rest1 ws)) ++ [])) := by
  simp [renderCallQuery, renderCall_some]

/-! ### Lexer -/

theorem numStop_close (b rest : List Char) (hb : Blank b) : NumStop (b ++ ([')'] ++ rest)) :=
  exprStop_numStop (exprStop_blank hb (head_cons (Or.inr (by decide))))

/-- **The lexer on a rendered two-argument call.** -/
theorem lex_callQuery2 (f : Fn) (e : QExpr) (n : Literal) (ws : Layout) (hwf : WFS e)
    (hl : CallLayoutOK2 e n ws) :
    Lexer.lex (renderCallQuery ⟨f, e, some n⟩ ws) = callQueryToks2 f e n ws := by
  obtain ⟨hb0, hb1, he, hb3, hb4, hn, hb2, hbe⟩ := hl
  apply lexes_lex
  rw [renderCallQuery_some, renderCall_some]
  have h2 : callQueryToks2 f e n ws = blankTok (blank1 ws) ++ (⟨.WORD, f.name⟩ ::
      ⟨.OPEN_PAREN, ['(']⟩ :: (blankTok (blank1 (rest1 ws)) ++ (toksU e (rest1 (rest1 ws)) ++
        (blankTok (blank1 (afterQ e (rest1 (rest1 ws)))) ++ (⟨.COMMA, [',']⟩ ::
          (blankTok (blank1 (rest1 (afterQ e (rest1 (rest1 ws))))) ++
            (⟨.NUMBER, renderNumber n⟩ ::
              (blankTok (blank1 (rest1 (rest1 (afterQ e (rest1 (rest1 ws)))))) ++
                (⟨.CLOSE_PAREN, [')']⟩ ::
                  (blankTok (blank1 (afterCall2 e (rest1 ws))) ++ [])))))))))) := by
    simp [callQueryToks2, toksCall2]
  rw [h2]
  obtain ⟨c, r, hcr, hc⟩ := render_headU e (rest1 (rest1 ws)) hwf
  obtain ⟨cn, rn, hcn, hcn1, _⟩ := renderNumber_head n hn
  refine lex_blank hb0 (by simp only [List.append_assoc]; exact fnName_noWS f _) ?_
  simp only [List.append_assoc]
  refine lex_word (rest := _) ?_
  refine lex_open (lex_blank hb1 (FQ.noWS_of_startF hcr hc _) ?_)
  refine lex_u e _ _ _ hwf he
    (exprStop_stopU e (exprStop_blank hb3 (head_cons (Or.inr (by decide))))) ?_
  refine lex_blank hb3 (head_cons (by decide)) (lex_comma ?_)
  refine lex_blank hb4 (noWS_of_start hcn hcn1 _) ?_
  refine lex_number hn (numStop_close _ _ hb2) ?_
  exact lex_blank hb2 (head_cons (by decide)) (lex_close (lex_blank hbe (head_nil _) lexes_nil))

/-! ### Parser -/

/-- `argsLoop` on the two arguments `e , n` followed by a blank and the closing parenthesis. -/
theorem argsLoop_two (e : QExpr) (n : Literal) : ∃ Fe, ∀ (ws : Layout) (s : PState)
    (Wa K : List Token), WFS e → LayoutOKU e ws → n.WF → C06.Good s.b →
    s.toks = Wa ++ (toksU e ws ++ (blankTok (blank1 (afterQ e ws)) ++ (⟨.COMMA, [',']⟩ ::
      (blankTok (blank1 (rest1 (afterQ e ws))) ++ (⟨.NUMBER, renderNumber n⟩ ::
        (blankTok (blank1 (rest1 (rest1 (afterQ e ws)))) ++ ⟨.CLOSE_PAREN, [')']⟩ :: K)))))) →
    AllWS Wa →
    Tot (argsLoop Fe) s (fun r s' => ∃ A x y,
      r = some (blankTok (blank1 (rest1 (rest1 (afterQ e ws))))).length ∧
      s'.toks = blankTok (blank1 (rest1 (rest1 (afterQ e ws)))) ++ ⟨.CLOSE_PAREN, [')']⟩ :: K ∧
      s'.b.forest = s.b.forest ++ A ∧ opKids A = [x, y] ∧ RepU x e ∧ RepU y (.num n) ∧
      C06.Good s'.b ∧ NoNext s'.b ∧ Ext s.b.forest.length s.b s'.b) := by
  obtain ⟨Fo, ho⟩ := opSpecU e
  obtain ⟨Fn', hn'⟩ := opSpecU (.num n)
  refine ⟨Fo + (Fn' + 1) + 1, ?_⟩
  intro ws s Wa K hwf hlay hnwf hg ht hwa
  unfold argsLoop
  refine tot_countSkip_ws Wa _ ht hwa (toksU_notWS e ws _ hwf) ?_
  refine tot_nth_ws Wa _ ht ?_
  simp only [headKind_toksU_ne_close e ws _ hwf, Bool.false_eq_true, ↓reduceIte]
  refine tot_seq (tot_le (le_operation (Nat.le_add_right Fo (Fn' + 1)) _)
    (ho ws s Wa (blankTok (blank1 (afterQ e ws))) (⟨.COMMA, [',']⟩ :: _) hwf hlay hg ht hwa
      (allWS_blankTok _) (Or.inr (Or.inl rfl))))
    fun r s1 ⟨Wt, x, hr1, ht1, hf1, hWt, hx, g1, _, e1⟩ => ?_
  subst hr1
  simp only
  refine tot_seq (eat_yes _ _ _ .COMMA ht1 (allWS_blankTok _) rfl g1)
    fun b s2 ⟨hb, ht2, ⟨Fw, idc, hf2, hFw, _⟩, g2, _, e2⟩ => ?_
  subst hb
  simp only [Bool.not_true, Bool.false_eq_true, ↓reduceIte]
  -- the second round: the number
  have ht2' : s2.toks = blankTok (blank1 (rest1 (afterQ e ws))) ++
      (toksU (.num n) [] ++ (blankTok (blank1 (rest1 (rest1 (afterQ e ws)))) ++
        ⟨.CLOSE_PAREN, [')']⟩ :: K)) := by
    rw [ht2]; simp [toksU]
  refine tot_le (le_argsLoop (show Fn' + 1 ≤ Fo + (Fn' + 1) by omega)) ?_
  unfold argsLoop
  refine tot_countSkip_ws _ _ ht2' (allWS_blankTok _) (toksU_notWS (.num n) [] _ hnwf) ?_
  refine tot_nth_ws _ _ ht2' ?_
  simp only [headKind_toksU_ne_close (.num n) [] _ hnwf, Bool.false_eq_true, ↓reduceIte]
  refine tot_seq (hn' [] s2 _ (blankTok (blank1 (rest1 (rest1 (afterQ e ws)))))
    (⟨.CLOSE_PAREN, [')']⟩ :: K) hnwf hnwf g2 ht2' (allWS_blankTok _) (allWS_blankTok _)
    (Or.inl rfl)) fun r s3 ⟨Wt3, y, hr3, ht3, hf3, hWt3, hy, g3, n3, e3⟩ => ?_
  subst hr3
  simp only
  have hno := eat_no (s := s3) (blankTok (blank1 (rest1 (rest1 (afterQ e ws)))))
    (⟨.CLOSE_PAREN, [')']⟩ :: K) .COMMA ht3 (by simp [headKind])
  refine ⟨some _, s3, ?_, Wt ++ [x] ++ Fw ++ [.tok idc .COMMA [',']] ++ Wt3 ++ [y], x, y, rfl, ht3,
    by rw [hf3, hf2, hf1]; simp, ?_, hx, hy, g3, n3, ?_⟩
  · simp only [bind, hno]; rfl
  · simp only [opKids_append, opKids_ws hWt, opKids_ws hFw, opKids_ws hWt3, opKids_tok,
      opKids_single (hasChildren_of_repU hx), opKids_single (hasChildren_of_repU hy),
      List.nil_append, List.append_nil]
    rfl
  · have h12 : s.b.forest.length ≤ s1.b.forest.length := by rw [hf1]; simp
    have h13 : s.b.forest.length ≤ s2.b.forest.length := by rw [hf2, hf1]; simp
    exact (e1.trans (e2.mono h12)).trans (e3.mono h13)

/-- `callArguments` on `blank e blank , blank n blank )`. -/
theorem callArguments_two (e : QExpr) (n : Literal) : ∃ Fe, ∀ (ws : Layout) (s : PState)
    (K : List Token), WFS e → LayoutOKU e (rest1 ws) → n.WF → C06.Good s.b →
    s.toks = blankTok (blank1 ws) ++ (toksU e (rest1 ws) ++
      (blankTok (blank1 (afterQ e (rest1 ws))) ++ (⟨.COMMA, [',']⟩ ::
        (blankTok (blank1 (rest1 (afterQ e (rest1 ws)))) ++ (⟨.NUMBER, renderNumber n⟩ ::
          (blankTok (blank1 (rest1 (rest1 (afterQ e (rest1 ws))))) ++
            ⟨.CLOSE_PAREN, [')']⟩ :: K)))))) →
    Tot (callArguments Fe) s (fun r s' => ∃ aid aks tail x y, r = true ∧ s'.toks = K ∧
      s'.b.forest = s.b.forest ++ [.node aid .FN_ARGUMENTS aks] ++ tail ∧ opKids tail = [] ∧
      opKids aks = [x, y] ∧ RepU x e ∧ RepU y (.num n) ∧
      C06.Good s'.b ∧ NoNext s'.b ∧ Ext s.b.forest.length s.b s'.b) := by
  obtain ⟨Fa, ha⟩ := argsLoop_two e n
  refine ⟨Fa + 1, ?_⟩
  intro ws s K hwf le hnwf hg ht
  unfold callArguments
  refine tot_seq (checkpoint_exact hg) fun c s1 ⟨ht1, hf1, _, g1, p1, e1⟩ => ?_
  refine tot_seq (ha (rest1 ws) s1 _ K hwf le hnwf g1 (ht1.trans ht) (allWS_blankTok _))
    fun r s2 ⟨A, x, y, hr, ht2, hf2, hA, hx, hy, g2, n2, e2⟩ => ?_
  subst hr
  simp only
  have hAne : A ≠ [] := by
    intro h
    rw [h] at hA
    simp [opKids] at hA
  have p2 : Pos s2.b c s.b.forest.length := hf1 ▸ e2.pos c _ (Nat.le_refl _) (hf1 ▸ p1)
  refine tot_seq (closeAt_wrap .FN_ARGUMENTS g2 n2 p2 (by
    rw [hf2, hf1]
    have := List.length_pos_of_ne_nil hAne
    simp; omega)) fun _ s3 ⟨ht3, ⟨aid, hf3⟩, g3, _, _, e3⟩ => ?_
  have hf3' : s3.b.forest = s.b.forest ++ [.node aid .FN_ARGUMENTS A] := by
    rw [hf3, hf2, hf1, List.take_left' rfl, List.drop_left' rfl]
  refine tot_mono (eat_yes _ ⟨.CLOSE_PAREN, [')']⟩ K .CLOSE_PAREN (ht3.trans ht2)
    (allWS_blankTok _) rfl g3)
    fun b s4 ⟨hb, ht4, ⟨Fw, idc, hf4, hFw, _⟩, g4, n4, e4⟩ => ?_
  refine ⟨aid, A, Fw ++ [.tok idc .CLOSE_PAREN [')']], x, y, hb, ht4,
    by rw [hf4, hf3']; simp, ?_, hA, hx, hy, g4, n4, ?_⟩
  · rw [opKids_append, opKids_ws hFw, opKids_tok]; rfl
  · exact e1.trans (((hf1 ▸ e2).trans e3).trans (e4.mono (by rw [hf3']; simp)))

/-- **`Grammar.value` on a two-argument call.** -/
theorem value_call2U (f : Fn) (e : QExpr) (n : Literal) : ∃ Fe, ∀ (ws : Layout) (s : PState)
    (W0 K : List Token), WFS e → LayoutOKU e (rest1 ws) → n.WF → C06.Good s.b →
    s.toks = W0 ++ (toksCall2 f e n ws ++ K) → AllWS W0 →
    Tot (Grammar.value Fe W0.length) s (fun r s' => ∃ cur Wt x, r = some cur ∧ s'.toks = K ∧
      s'.b.forest = s.b.forest ++ Wt ++ [x] ∧ WSTrees Wt ∧ RepCall2 x f e n ∧
      Pos s'.b cur (s.b.forest.length + Wt.length) ∧ C06.Good s'.b ∧ NoNext s'.b ∧
      Ext s.b.forest.length s.b s'.b) := by
  obtain ⟨Fc, hc⟩ := callArguments_two e n
  refine ⟨Fc + 1, ?_⟩
  intro ws s W0 K hwf hlay hnwf hg ht hw0
  have ht : s.toks = W0 ++ (⟨.WORD, f.name⟩ :: ⟨.OPEN_PAREN, ['(']⟩ ::
      (blankTok (blank1 ws) ++ (toksU e (rest1 ws) ++
      (blankTok (blank1 (afterQ e (rest1 ws))) ++ (⟨.COMMA, [',']⟩ ::
        (blankTok (blank1 (rest1 (afterQ e (rest1 ws)))) ++ (⟨.NUMBER, renderNumber n⟩ ::
          (blankTok (blank1 (rest1 (rest1 (afterQ e (rest1 ws))))) ++
            ⟨.CLOSE_PAREN, [')']⟩ :: K)))))))) := by
    rw [ht]; simp [toksCall2]
  unfold Grammar.value
  refine tot_nth_ws W0 _ ht ?_
  simp only [headKind]
  refine tot_seq (bumpN_ws W0 ht hw0 hg) fun _ s1 ⟨ht1, ⟨Wt, hf1, hWt, hlen⟩, g1, _, e1⟩ => ?_
  refine tot_seq (checkpoint_exact g1) fun start s2 ⟨ht2, hf2, _, g2, p2, e2⟩ => ?_
  refine tot_seq (checkpoint_exact g2) fun c s3 ⟨ht3, hf3, _, g3, p3, e3⟩ => ?_
  have ht3' := (ht3.trans ht2).trans ht1
  refine tot_seq (bumpNode_exact .WORD ht3' g3) fun _ s4 ⟨ht4, ⟨idw, idt, hf4⟩, g4, n4, e4⟩ => ?_
  have ht4' : s4.toks = [] ++ (⟨.OPEN_PAREN, ['(']⟩ :: (blankTok (blank1 ws) ++
      (toksU e (rest1 ws) ++ (blankTok (blank1 (afterQ e (rest1 ws))) ++ (⟨.COMMA, [',']⟩ ::
        (blankTok (blank1 (rest1 (afterQ e (rest1 ws)))) ++ (⟨.NUMBER, renderNumber n⟩ ::
          (blankTok (blank1 (rest1 (rest1 (afterQ e (rest1 ws))))) ++
            ⟨.CLOSE_PAREN, [')']⟩ :: K)))))))) := ht4
  refine tot_nth_ws [] _ ht4' ?_
  simp only [headKind, beq_self_eq_true, ↓reduceIte]
  have hl1 : s1.b.forest.length = s.b.forest.length + Wt.length := by rw [hf1]; simp
  have hl2 : s2.b.forest.length = s1.b.forest.length := by rw [hf2]
  have hl3 : s3.b.forest.length = s1.b.forest.length := by rw [hf3, hf2]
  have hf4' : s4.b.forest = (s.b.forest ++ Wt) ++ [.node idw .WORD [.tok idt .WORD f.name]] := by
    rw [hf4, hf3, hf2, hf1]
  have e3' : Ext s1.b.forest.length s2.b s3.b := hl2 ▸ e3
  have e4' : Ext s1.b.forest.length s3.b s4.b := hl3 ▸ e4
  have p4 : Pos s4.b c (s.b.forest.length + Wt.length) :=
    hl1 ▸ e4'.pos c _ (Nat.le_refl _) (hl2 ▸ p3)
  refine tot_seq (closeAt_wrap .FN_NAME g4 n4 p4 (by rw [hf4']; simp))
    fun _ s5 ⟨ht5, ⟨idn, hf5⟩, g5, _, _, e5⟩ => ?_
  have hl : s.b.forest.length + Wt.length = (s.b.forest ++ Wt).length := by simp
  rw [hf4', hl, List.take_left' rfl, List.drop_left' rfl] at hf5
  refine tot_seq (bump_exact (ht5.trans ht4) g5) fun _ s6 ⟨ht6, ⟨idp, hf6⟩, g6, _, e6⟩ => ?_
  refine tot_seq (hc ws s6 K hwf hlay hnwf g6 ht6)
    fun r s7 ⟨aid, aks, tail, x, y, hr, ht7, hf7, htail, haks, hx, hy, g7, n7, e7⟩ => ?_
  subst hr
  simp only [Bool.not_true, Bool.false_eq_true, ↓reduceIte]
  have e5' : Ext s1.b.forest.length s4.b s5.b := hl1 ▸ e5
  have e6' : Ext s1.b.forest.length s5.b s6.b := e6.mono (by rw [hf5, hl1]; simp)
  have e7' : Ext s1.b.forest.length s6.b s7.b := e7.mono (by rw [hf6, hf5, hl1]; simp)
  have e27 : Ext s1.b.forest.length s2.b s7.b :=
    (((e3'.trans e4').trans e5').trans e6').trans e7'
  have p7 : Pos s7.b c (s.b.forest.length + Wt.length) :=
    hl1 ▸ ((e4'.trans e5').trans (e6'.trans e7')).pos c _ (Nat.le_refl _) (hl2 ▸ p3)
  have hf7' : s7.b.forest = (s.b.forest ++ Wt) ++
      (.node idn .FN_NAME [.node idw .WORD [.tok idt .WORD f.name]] ::
        .tok idp .OPEN_PAREN ['('] :: .node aid .FN_ARGUMENTS aks :: tail) := by
    rw [hf7, hf6, hf5]; simp
  refine tot_seq (closeAt_wrap .FN_CALL g7 n7 p7 (by rw [hf7']; simp))
    fun _ s8 ⟨ht8, ⟨idc, hf8⟩, g8, n8, _, e8⟩ => ?_
  rw [hf7', hl, List.take_left' rfl, List.drop_left' rfl] at hf8
  have e28 : Ext s1.b.forest.length s2.b s8.b := e27.trans (hl1 ▸ e8)
  refine tot_pure ⟨start, Wt, _, rfl, ht8.trans ht7, hf8, hWt, ?_,
    hl1 ▸ e28.pos start _ (Nat.le_refl _) p2, g8, n8,
    e1.trans ((e2.trans e28).mono (by omega))⟩
  have hnm : opKids [Tree.node idn .FN_NAME [.node idw .WORD [.tok idt .WORD f.name]]] =
      [Tree.node idn .FN_NAME [.node idw .WORD [.tok idt .WORD f.name]]] := rfl
  have hsplit : (Tree.node idn .FN_NAME [.node idw .WORD [.tok idt .WORD f.name]] ::
        .tok idp .OPEN_PAREN ['('] :: .node aid .FN_ARGUMENTS aks :: tail) =
      [Tree.node idn .FN_NAME [.node idw .WORD [.tok idt .WORD f.name]]] ++
        [.tok idp .OPEN_PAREN ['(']] ++ [.node aid .FN_ARGUMENTS aks] ++ tail := by simp
  refine ⟨idc, _, .node idn .FN_NAME [.node idw .WORD [.tok idt .WORD f.name]], aid, aks, [], x, y,
    rfl, ?_, rfl, ?_, haks, hx, hy⟩
  · rw [hsplit]
    simp only [opKids_append, hnm, opKids_tok, htail, List.append_nil]
    rw [opKids_single (node_hasChildren haks)]
    rfl
  · simp [Tree.text, Tree.textList]

/-- `operation` on a two-argument call followed by a blank and the end of the input. -/
theorem operation_call2U (f : Fn) (e : QExpr) (n : Literal) : ∃ Fe, ∀ (ws : Layout) (s : PState)
    (W0 Wk : List Token), WFS e → LayoutOKU e (rest1 ws) → n.WF → C06.Good s.b →
    s.toks = W0 ++ (toksCall2 f e n ws ++ (Wk ++ [])) → AllWS W0 → AllWS Wk →
    Tot (operation Fe W0.length) s (fun r s' => ∃ Wt x, r = some Wk.length ∧ s'.toks = Wk ++ [] ∧
      s'.b.forest = s.b.forest ++ Wt ++ [x] ∧ WSTrees Wt ∧ RepCall2 x f e n ∧
      C06.Good s'.b ∧ NoNext s'.b ∧ Ext s.b.forest.length s.b s'.b) := by
  obtain ⟨Fv, hv⟩ := value_call2U f e n
  refine ⟨Fv + 1 + 1, ?_⟩
  intro ws s W0 Wk hwf hlay hnwf hg ht hw0 hwk
  unfold operation
  refine tot_seq (checkpoint_exact hg) fun opn s1 ⟨ht1, hf1, _, g1, p1, e1⟩ => ?_
  rw [opLoop_unfold _ _ _ _ _ rfl]
  refine tot_seq (hv ws s1 W0 (Wk ++ []) hwf hlay hnwf g1 (ht1.trans ht) hw0)
    fun r s2 ⟨cur, Wt, x, hr, ht2, hf2, hWt, hx, _, g2, n2, e2⟩ => ?_
  subst hr
  simp only
  unfold afterValue
  have hnw : NotWSHead ([] : List Token) := fun t r h => by cases h
  refine tot_countSkip_ws Wk [] ht2 hwk hnw ?_
  refine tot_nth_ws Wk [] ht2 ?_
  have : opInfo (headKind ([] : List Token)) = none := rfl
  simp only [this, closeAll]
  refine tot_seq (tot_pure (Q := fun _ s' => s' = s2) rfl) fun _ s3 hs => ?_
  subst hs
  exact tot_pure ⟨Wt, x, rfl, ht2, by rw [hf2, hf1], hWt, hx, g2, n2, e1.trans (hf1 ▸ e2)⟩

/-- The shape of the parsed forest of a two-argument call query. -/
def ForestCall2 (forest : List Tree) (f : Fn) (e : QExpr) (n : Literal) : Prop :=
  ∃ Wt x Wt', forest = Wt ++ [x] ++ Wt' ∧ WSTrees Wt ∧ WSTrees Wt' ∧ RepCall2 x f e n

theorem root_call2U (f : Fn) (e : QExpr) (n : Literal) (ws : Layout) (hwf : WFS e)
    (hl : CallLayoutOK2 e n ws) :
    ∃ F, Tot (root F) { toks := callQueryToks2 f e n ws }
      (fun _ s' => ForestCall2 s'.b.forest f e n) := by
  obtain ⟨Fo, ho⟩ := operation_call2U f e n
  obtain ⟨hb0, hb1, hle, hb3, hb4, hnwf, hb2, hbe⟩ := hl
  refine ⟨Fo + 2, ?_⟩
  have ht : ({ toks := callQueryToks2 f e n ws } : PState).toks = blankTok (blank1 ws) ++
      (toksCall2 f e n (rest1 ws) ++ (blankTok (blank1 (afterCall2 e (rest1 ws))) ++ [])) := by
    simp [callQueryToks2]
  have hnw : NotWSHead (toksCall2 f e n (rest1 ws) ++
      (blankTok (blank1 (afterCall2 e (rest1 ws))) ++ [])) := by
    intro t r h
    simp only [toksCall2, List.cons_append, List.cons.injEq] at h
    rw [← h.1]; simp
  unfold root
  refine tot_countSkip_ws _ _ ht (allWS_blankTok _) hnw ?_
  refine tot_seq (checkpoint_exact (s := { toks := callQueryToks2 f e n ws }) good_init)
    fun c s1 ⟨ht1, hf1, _, g1, _, _⟩ => ?_
  have hf1' : s1.b.forest = [] := hf1
  refine tot_seq (P := fun r s' => r = false ∧ ForestCall2 s'.b.forest f e n) ?_
    fun r s2 ⟨hr, hF⟩ => ?_
  · unfold rootLoop
    refine tot_nth_ws _ _ (ht1.trans ht) ?_
    have k1 : (headKind (toksCall2 f e n (rest1 ws) ++
        (blankTok (blank1 (afterCall2 e (rest1 ws))) ++ [])) == Syntax.EOF) = false := rfl
    have k2 : (headKind (toksCall2 f e n (rest1 ws) ++
        (blankTok (blank1 (afterCall2 e (rest1 ws))) ++ [])) == Syntax.OPEN_BRACE ||
        headKind (toksCall2 f e n (rest1 ws) ++
        (blankTok (blank1 (afterCall2 e (rest1 ws))) ++ [])) == Syntax.OPEN_PAREN ||
        headKind (toksCall2 f e n (rest1 ws) ++
        (blankTok (blank1 (afterCall2 e (rest1 ws))) ++ [])) == Syntax.WORD ||
        headKind (toksCall2 f e n (rest1 ws) ++
        (blankTok (blank1 (afterCall2 e (rest1 ws))) ++ [])) == Syntax.NUMBER) = true := rfl
    simp only [k1, k2, Bool.false_eq_true, ↓reduceIte]
    refine tot_seq (tot_le (le_operation (Nat.le_succ Fo) _)
      (ho (rest1 ws) s1 _ _ hwf hle hnwf g1 (ht1.trans ht) (allWS_blankTok _) (allWS_blankTok _)))
      fun r s2 ⟨Wt, x, hr, ht2, hf2, hWt, hx, g2, _, _⟩ => ?_
    subst hr
    simp only
    unfold rootLoop
    refine tot_nth_ws _ [] ht2 ?_
    simp only [headKind, beq_self_eq_true, ↓reduceIte]
    refine tot_seq (bumpN_ws _ ht2 (allWS_blankTok _) g2)
      fun _ s3 ⟨_, ⟨Wt', hf3, hWt', _⟩, _, _, _⟩ => ?_
    exact tot_pure ⟨rfl, Wt, x, Wt', by rw [hf3, hf2, hf1']; simp, hWt, hWt', hx⟩
  subst hr
  simp only [Bool.false_eq_true, ↓reduceIte]
  exact tot_pure hF

/-- **Parser correctness on a rendered two-argument call query.** -/
theorem parse_call2U (f : Fn) (e : QExpr) (n : Literal) (ws : Layout) (hwf : WFS e)
    (hl : CallLayoutOK2 e n ws) :
    ∃ forest, Grammar.parseRoot (renderCallQuery ⟨f, e, some n⟩ ws) = .ok forest ∧
      ForestCall2 forest f e n := by
  obtain ⟨F, _, s', hroot, hF⟩ := root_call2U f e n ws hwf hl
  refine ⟨s'.b.forest, ?_, hF⟩
  unfold Grammar.parseRoot
  rw [lex_callQuery2 f e n ws hwf hl]
  unfold parseRootToks
  have hmax : fuelFor (callQueryToks2 f e n ws) ≤ max F (fuelFor (callQueryToks2 f e n ws)) :=
    Nat.le_max_right _ _
  have h1 := PFuel.root_fuel_irrelevant (callQueryToks2 f e n ws) _ hmax
  have h2 := PFuel.le_root_of_le (Nat.le_max_left F (fuelFor (callQueryToks2 f e n ws))) _ _ hroot
  rw [← h1, h2]

end Anything.UQ
