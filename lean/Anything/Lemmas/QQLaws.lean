import Anything.Lemmas.QQQuery
import Anything.Props.C13
/-!
# Quantity expressions end to end — helper lemmas for the corollaries of `Props/QuantityQuery`

The specification's reading of the small expressions the properties C02–C04 talk about
(`x u`, `x u₁ ∘ y u₂`, `x u₁ to u₂`), and the field laws at the level of `denote`.
-/

namespace Anything.QQ
open Anything Anything.Eval Anything.Spec Anything.Spec.Arith Anything.Spec.Decimal
open Anything.Spec.Quantity Anything.Spec.SI Anything.C06 Anything.Props.C04

/-- The specification's reading of a literal with a (proportional) unit. -/
def qtyVal (l : Literal) (sem : UnitSem) : Val :=
  { q := ⟨value l * scale sem, dims sem⟩, plain := false, unit := some sem }

theorem denote_qty_ok (l : Literal) (u : List RTerm) (sem : UnitSem) (hs : resolveAll u = some sem)
    (hp : proportional sem = true) : denote false (.qty l u) = .ok (qtyVal l sem) := by
  rw [denote_qty, hs]
  simp [qtyOf, hp, qtyVal]

theorem denote_qty_unitOK (l : Literal) (u : List RTerm) (sem : UnitSem) (hu : UnitOK u)
    (hs : resolveAll u = some sem) : denote false (.qty l u) = .ok (qtyVal l sem) :=
  denote_qty_ok l u sem hs (unitOK_proportional u sem hu hs)

/-- `x u₁ ± y u₂`. -/
theorem denote_addsub_qty (op : BinOp) (hop : op = .add ∨ op = .sub) (l₁ l₂ : Literal)
    (u₁ u₂ : List RTerm) (s₁ s₂ : UnitSem) (h₁ : denote false (.qty l₁ u₁) = .ok (qtyVal l₁ s₁))
    (h₂ : denote false (.qty l₂ u₂) = .ok (qtyVal l₂ s₂)) :
    denote false (.bin op (.qty l₁ u₁) (.qty l₂ u₂)) =
      if dims s₁ = dims s₂ then
        .ok { q := ⟨if op = .sub then value l₁ * scale s₁ - value l₂ * scale s₂
                else value l₁ * scale s₁ + value l₂ * scale s₂, dims s₁⟩,
              plain := false, unit := none }
      else .error .dims := by
  rw [denote_bin, h₁, h₂]
  simp only [binVal_addsub op hop, qtyVal, Bool.false_eq_true, Bool.not_false, Bool.and_true,
    ↓reduceIte, Bool.and_false, Bool.and_self, addF_eq op hop]
  split <;> rfl

/-- `x + y u` / `x - y u`: the plain number adopts the unit. -/
theorem denote_addsub_num_qty (op : BinOp) (hop : op = .add ∨ op = .sub) (l₁ l₂ : Literal)
    (u : List RTerm) (s : UnitSem) (hp : proportional s = true)
    (h₂ : denote false (.qty l₂ u) = .ok (qtyVal l₂ s)) :
    denote false (.bin op (.num l₁) (.qty l₂ u)) =
      .ok { q := ⟨if op = .sub then value l₁ * scale s - value l₂ * scale s
                else value l₁ * scale s + value l₂ * scale s, dims s⟩,
            plain := false, unit := some s } := by
  rw [denote_bin, denote_num, h₂]
  simp only [binVal_addsub op hop, qtyVal, Bool.not_false, Bool.and_self, ↓reduceIte, hp,
    Bool.or_true, addF_eq op hop, Except.map]

/-- `x u + y` / `x u - y`: the plain number adopts the unit. -/
theorem denote_addsub_qty_num (op : BinOp) (hop : op = .add ∨ op = .sub) (l₁ l₂ : Literal)
    (u : List RTerm) (s : UnitSem) (hp : proportional s = true)
    (h₁ : denote false (.qty l₁ u) = .ok (qtyVal l₁ s)) :
    denote false (.bin op (.qty l₁ u) (.num l₂)) =
      .ok { q := ⟨if op = .sub then value l₁ * scale s - value l₂ * scale s
                else value l₁ * scale s + value l₂ * scale s, dims s⟩,
            plain := false, unit := some s } := by
  rw [denote_bin, denote_num, h₁]
  simp only [binVal_addsub op hop, qtyVal, Bool.not_true, Bool.false_eq_true,
    ↓reduceIte, Bool.not_false, Bool.and_self, hp, Bool.or_true, addF_eq op hop, Except.map]

/-- `x u₁ to u₂`. -/
theorem denote_cast_qty (l : Literal) (u₁ u₂ : List RTerm) (s₁ s₂ : UnitSem)
    (h₁ : denote false (.qty l u₁) = .ok (qtyVal l s₁)) (hs₂ : resolveAll u₂ = some s₂)
    (hp₂ : proportional s₂ = true) :
    denote false (.cast (.qty l u₁) u₂) =
      if dims s₁ = dims s₂ then
        .ok { q := ⟨value l * scale s₁, dims s₁⟩, plain := false, unit := some s₂ }
      else .error .dims := by
  rw [denote_cast, h₁, hs₂]
  simp only [castVal, qtyVal, Bool.false_eq_true, ↓reduceIte, inUnit, hp₂, Bool.or_true]
  by_cases h : dims s₁ = dims s₂
  · simp [h]
  · simp [h]

/-- Raising a quantity to a power is the only source of `PowRisk`. -/
theorem powRisk_qty (l : Literal) (u : List RTerm) : ¬ PowRisk (.qty l u) := by simp [PowRisk]
theorem powRisk_num (l : Literal) : ¬ PowRisk (.num l) := by simp [PowRisk]

/-- `x u₁ * y u₂`. -/
theorem denote_mul_qty (l₁ l₂ : Literal) (u₁ u₂ : List RTerm) (s₁ s₂ : UnitSem)
    (h₁ : denote false (.qty l₁ u₁) = .ok (qtyVal l₁ s₁))
    (h₂ : denote false (.qty l₂ u₂) = .ok (qtyVal l₂ s₂)) :
    denote false (.bin .mul (.qty l₁ u₁) (.qty l₂ u₂)) =
      .ok { q := qmul (qtyVal l₁ s₁).q (qtyVal l₂ s₂).q, plain := false, unit := none } := by
  rw [denote_bin, h₁, h₂]
  rfl

/-- `x u₁ / y u₂`. -/
theorem denote_div_qty (l₁ l₂ : Literal) (u₁ u₂ : List RTerm) (s₁ s₂ : UnitSem)
    (h₁ : denote false (.qty l₁ u₁) = .ok (qtyVal l₁ s₁))
    (h₂ : denote false (.qty l₂ u₂) = .ok (qtyVal l₂ s₂)) :
    denote false (.bin .div (.qty l₁ u₁) (.qty l₂ u₂)) =
      (qdiv (qtyVal l₁ s₁).q (qtyVal l₂ s₂).q).map
        (fun q => { q := q, plain := false, unit := none }) := by
  rw [denote_bin, h₁, h₂]
  rfl

/-- `x u ^ n`. -/
theorem denote_pow_qty (l n : Literal) (u : List RTerm) (s : UnitSem)
    (h : denote false (.qty l u) = .ok (qtyVal l s)) :
    denote false (.bin .pow (.qty l u) (.num n)) =
      if Arith.isInt (value n) = true then
        (qpow (qtyVal l s).q (value n).num).map (fun q => { q := q, plain := false, unit := none })
      else .error .power := by
  rw [denote_bin, h, denote_num]
  simp only [binVal, Bool.not_true, Bool.false_eq_true, ↓reduceIte, qtyVal]
  by_cases hi : Arith.isInt (value n) = true
  · simp [hi]
  · simp [hi]

theorem powRisk_bin_qty {op : BinOp} (hop : op ≠ .pow) (l₁ l₂ : Literal) (u₁ u₂ : List RTerm) :
    ¬ PowRisk (.bin op (.qty l₁ u₁) (.qty l₂ u₂)) := by
  simp [PowRisk, hop]

theorem powRisk_cast_qty (l : Literal) (u₁ u₂ : List RTerm) : ¬ PowRisk (.cast (.qty l u₁) u₂) := by
  simp [PowRisk]

theorem powRisk_pow_qty (l n : Literal) (u : List RTerm) (s : UnitSem) (hs : resolveAll u = some s)
    (hn : (value n).num.natAbs ≤ 2147483647)
    (hfit : (s.map (fun t => t.power.natAbs)).sum * (value n).num.natAbs ≤ 2147483647) :
    ¬ PowRisk (.bin .pow (.qty l u) (.num n)) := by
  simp only [PowRisk, false_or, true_and, not_and, not_not]
  intro _
  exact ⟨_, n, by simp [powBound, hs], rfl, hn, hfit⟩

/-! ### Reading off a `QueryOutcomeQ` -/

theorem queryOutcome_ok {e : QExpr} {res : Except BErr (List (Except EvalErr Numeric) × List Desc)}
    {v : Val} (h : QueryOutcomeQ e res) (hv : denote false e = .ok v) (hp : ¬ PowRisk e) :
    ∃ r, res = .ok ([.ok r], []) ∧ Agree r v := by
  unfold QueryOutcomeQ at h
  rw [hv] at h
  rcases h with h | ⟨hr, _⟩
  · exact h
  · exact absurd hr hp

theorem queryOutcome_err {e : QExpr} {res : Except BErr (List (Except EvalErr Numeric) × List Desc)}
    {x : QErr} (h : QueryOutcomeQ e res) (hv : denote false e = .error x) :
    ∃ k s t, res = .ok ([.error (.err k s t)], []) := by
  unfold QueryOutcomeQ at h
  rw [hv] at h
  exact h

theorem queryOutcome_value {e : QExpr}
    {res : Except BErr (List (Except EvalErr Numeric) × List Desc)} {r : Numeric}
    (h : QueryOutcomeQ e res) (hr : res = .ok ([.ok r], [])) :
    ∃ v, denote false e = .ok v ∧ Agree r v := by
  unfold QueryOutcomeQ at h
  cases hv : denote false e with
  | ok v =>
    rw [hv] at h
    rcases h with ⟨r', hr', ha⟩ | ⟨_, s, t, hr'⟩
    · rw [hr] at hr'
      simp only [Except.ok.injEq, Prod.mk.injEq, List.cons.injEq, and_true] at hr'
      rw [hr']
      exact ⟨v, rfl, ha⟩
    · rw [hr] at hr'
      simp at hr'
  | error x =>
    rw [hv] at h
    obtain ⟨k, s, t, hr'⟩ := h
    rw [hr] at hr'
    simp at hr'

/-! ### Scope conditions of the small expressions -/

theorem litOKQ_wf {l : Literal} (h : LitOKQ l) : l.WF := h.1.1

theorem wfq_bin_qty (op : BinOp) {l₁ l₂ : Literal} (u₁ u₂ : List RTerm) (h₁ : l₁.WF) (h₂ : l₂.WF) :
    WFQ (.bin op (.qty l₁ u₁) (.qty l₂ u₂)) :=
  ⟨h₁, h₂, by cases op <;> simp [qprio, BinOp.prio], by cases op <;> simp [qprio, BinOp.prio]⟩

theorem wfq_pow_qty {l n : Literal} (u : List RTerm) (h₁ : l.WF) (h₂ : n.WF) :
    WFQ (.bin .pow (.qty l u) (.num n)) :=
  ⟨h₁, h₂, by simp [qprio, BinOp.prio], by simp [qprio, BinOp.prio]⟩

theorem wfq_cast_qty {l : Literal} (u₁ u₂ : List RTerm) (h : l.WF) : WFQ (.cast (.qty l u₁) u₂) := h

theorem qtyVal_dim (l : Literal) (sem : UnitSem) : (qtyVal l sem).q.dim = dims sem := rfl

theorem determinate_addsub_qty (op : BinOp) (l₁ l₂ : Literal) (u₁ u₂ : List RTerm)
    (s₁ s₂ : UnitSem) (hu₁ : UnitOK u₁) (hu₂ : UnitOK u₂) (hs₁ : resolveAll u₁ = some s₁)
    (hs₂ : resolveAll u₂ = some s₂) (hd₁ : dims s₁ ≠ DimVec.zero) (hd₂ : dims s₂ ≠ DimVec.zero) :
    Determinate (.bin op (.qty l₁ u₁) (.qty l₂ u₂)) := by
  refine ⟨trivial, trivial, fun _ x y hx hy => ?_⟩
  rw [denote_qty_unitOK l₁ u₁ s₁ hu₁ hs₁] at hx
  rw [denote_qty_unitOK l₂ u₂ s₂ hu₂ hs₂] at hy
  cases hx
  cases hy
  exact Or.inr (Or.inr (Or.inr ⟨rfl, rfl, hd₁, hd₂⟩))

theorem determinate_num_qty (op : BinOp) (l₁ l₂ : Literal) (u : List RTerm) (s : UnitSem)
    (hu : UnitOK u) (hs : resolveAll u = some s) :
    Determinate (.bin op (.num l₁) (.qty l₂ u)) ∧ Determinate (.bin op (.qty l₂ u) (.num l₁)) := by
  have hq := denote_qty_unitOK l₂ u s hu hs
  refine ⟨⟨trivial, trivial, fun _ x y hx hy => ?_⟩, ⟨trivial, trivial, fun _ x y hx hy => ?_⟩⟩
  · rw [denote_num] at hx
    rw [hq] at hy
    cases hx
    cases hy
    exact Or.inr (Or.inl ⟨rfl, rfl, rfl⟩)
  · rw [hq] at hx
    rw [denote_num] at hy
    cases hx
    cases hy
    exact Or.inr (Or.inr (Or.inl ⟨rfl, rfl, rfl⟩))

theorem wfq_num_qty (op : BinOp) {l₁ l₂ : Literal} (u : List RTerm) (h₁ : l₁.WF) (h₂ : l₂.WF) :
    WFQ (.bin op (.num l₁) (.qty l₂ u)) ∧ WFQ (.bin op (.qty l₂ u) (.num l₁)) :=
  ⟨⟨h₁, h₂, by cases op <;> simp [qprio, BinOp.prio], by cases op <;> simp [qprio, BinOp.prio]⟩,
   ⟨h₂, h₁, by cases op <;> simp [qprio, BinOp.prio], by cases op <;> simp [qprio, BinOp.prio]⟩⟩

theorem powRisk_num_qty {op : BinOp} (hop : op ≠ .pow) (l₁ l₂ : Literal) (u : List RTerm) :
    ¬ PowRisk (.bin op (.num l₁) (.qty l₂ u)) ∧ ¬ PowRisk (.bin op (.qty l₂ u) (.num l₁)) := by
  simp [PowRisk, hop]

/-- From `Agree` with a determined unit: the magnitude in that unit. -/
theorem agree_value {r : Numeric} {v : Val} {sem : UnitSem} (ha : Agree r v)
    (hu : v.unit = some sem) : SameUnit r.unit sem ∧ r.value = v.q.si / scale sem := by
  obtain ⟨hsame, _⟩ := ha.unit sem hu
  refine ⟨hsame, ?_⟩
  have hsi := congrArg Q.si ha.si
  simp only [siQ] at hsi
  have hne : scale sem ≠ 0 := by rw [← hsame.2]; exact scale_semOf_ne_zero r.unit
  rw [hsame.2] at hsi
  rw [← hsi]
  field_simp

theorem determinate_cast_qty (l : Literal) (u₁ u₂ : List RTerm) (s₁ s₂ : UnitSem)
    (hu₁ : UnitOK u₁) (hs₁ : resolveAll u₁ = some s₁) (hs₂ : resolveAll u₂ = some s₂)
    (hd₁ : dims s₁ ≠ DimVec.zero) (hd₂ : dims s₂ ≠ DimVec.zero) :
    Determinate (.cast (.qty l u₁) u₂) := by
  refine ⟨trivial, fun v sem hv hsem => ?_⟩
  rw [denote_qty_unitOK l u₁ s₁ hu₁ hs₁] at hv
  cases hv
  rw [hs₂] at hsem
  cases hsem
  exact Or.inr ⟨hd₁, hd₂⟩

/-! ### Executable checks of the scope conditions (for concrete examples) -/

/-- Executable form of `TermOK`. -/
def termCheck (t : RTerm) : Bool :=
  match resolve t with
  | some ut => UnitWord.parseWord (word t) == some [(ut.pfx, ut.key)] && !isAffine ut.key &&
      decide (-2147483647 ≤ t.power) && decide (t.power ≤ 2147483647)
  | none => false

theorem termOK_of_check {t : RTerm} (h : termCheck t = true) : TermOK t := by
  unfold termCheck at h
  split at h
  · rename_i ut hut
    simp only [Bool.and_eq_true, beq_iff_eq, Bool.not_eq_true', decide_eq_true_eq] at h
    exact ⟨⟨ut, hut, h.1.1.1, h.1.1.2⟩, h.1.2, h.2⟩
  · cases h

instance (sem : UnitSem) : Decidable (Coherent sem) := by
  unfold Coherent; exact inferInstance

/-- Executable form of `UnitOK`. -/
def unitCheck (u : List RTerm) : Bool := u.all termCheck && decide (Coherent (u.map rs))

theorem unitOK_of_check {u : List RTerm} (h : unitCheck u = true) : UnitOK u := by
  simp only [unitCheck, Bool.and_eq_true, List.all_eq_true, decide_eq_true_eq] at h
  have hall : ∀ t ∈ u, TermOK t := fun t ht => termOK_of_check (h.1 t ht)
  refine ⟨hall, fun sem hs => ?_⟩
  have := resolveAll_map u (fun t ht => ⟨_, (termOK_rs (hall t ht)).1⟩)
  rw [this] at hs
  cases hs
  exact h.2

/-- A `UnitOK` unit expression resolves to `u.map rs`. -/
theorem unitOK_resolve_rs {u : List RTerm} (hu : UnitOK u) : resolveAll u = some (u.map rs) :=
  resolveAll_map u (fun t ht => ⟨_, (termOK_rs (hu.1 t ht)).1⟩)

/-- Executable form of `WordLit`. -/
def wordLitCheck (w : List Char) : Bool :=
  match w with
  | c :: _ => !Lexer.isDigit c && w.all Lexer.isWordChar && w != ['t', 'o']
  | [] => false

theorem wordLit_of_check {w : List Char} (h : wordLitCheck w = true) : WordLit w := by
  unfold wordLitCheck at h
  split at h
  · rename_i c r
    simp only [Bool.and_eq_true, Bool.not_eq_true', List.all_eq_true, bne_iff_ne, ne_eq] at h
    exact ⟨⟨c, r, rfl, h.1.1⟩, h.1.2, h.2⟩
  · cases h

/-- Executable form of `UnitLexOK`. -/
def unitLexCheck (u : List RTerm) : Bool := u.all (fun t => t.power == 0 || wordLitCheck (word t))

theorem unitLexOK_of_check {u : List RTerm} (h : unitLexCheck u = true) : UnitLexOK u := by
  simp only [unitLexCheck, List.all_eq_true, Bool.or_eq_true, beq_iff_eq] at h
  intro t ht hp
  rcases h t ht with h0 | hw
  · exact absurd h0 hp
  · exact wordLit_of_check hw

/-- Executable form of `GlueOK`. -/
def glueCheck (s : List Char) : Bool :=
  match s with
  | [] => true
  | c :: r => !Lexer.isDigit c && c != '.' &&
      (!(c == 'e' || c == 'E') ||
        match r with
        | b :: _ => !Lexer.isSign b && !Lexer.isDigit b
        | [] => false)

theorem glueOK_of_check {s : List Char} (h : glueCheck s = true) : GlueOK s := by
  intro c r hs
  subst hs
  simp only [glueCheck, Bool.and_eq_true, Bool.not_eq_true', bne_iff_ne, ne_eq,
    Bool.or_eq_true] at h
  refine ⟨h.1.1, h.1.2, fun hc => ?_⟩
  rcases h.2 with h2 | h2
  · rcases hc with rfl | rfl <;> simp at h2
  · cases r with
    | nil => cases h2
    | cons b r' =>
      simp only [Bool.and_eq_true, Bool.not_eq_true'] at h2
      exact ⟨b, r', rfl, h2.1, h2.2⟩

/-! ### The field laws at the level of the specification -/

theorem binVal_add_comm {x y v₁ v₂ : Val} (h₁ : binVal .add x y = .ok v₁)
    (h₂ : binVal .add y x = .ok v₂) : v₁.q = v₂.q := by
  rw [binVal_addsub .add (Or.inl rfl)] at h₁ h₂
  simp only [addF_eq .add (Or.inl rfl), reduceCtorEq, ↓reduceIte] at h₁ h₂
  cases hx : x.plain <;> cases hy : y.plain <;>
    simp only [hx, hy, Bool.not_true, Bool.not_false, Bool.and_true, Bool.and_false, Bool.and_self,
      Bool.false_eq_true, ↓reduceIte, Bool.false_or] at h₁ h₂
  · -- two quantities
    split at h₁ <;> simp only [Except.map, reduceCtorEq, Except.ok.injEq] at h₁
    split at h₂ <;> simp only [Except.map, reduceCtorEq, Except.ok.injEq] at h₂
    rename_i hd _
    rw [← h₁, ← h₂]
    simp [hd, add_comm]
  · -- `y` plain: both sides read `y` in the unit of `x`
    cases hu : x.unit with
    | none => rw [hu] at h₁; simp at h₁
    | some sem =>
      rw [hu] at h₁ h₂
      simp only at h₁ h₂
      split at h₁
      · rename_i hp
        simp only [hp, ↓reduceIte, Except.map, Except.ok.injEq] at h₁ h₂
        rw [← h₁, ← h₂]
        simp [add_comm]
      · simp at h₁
  · cases hu : y.unit with
    | none => rw [hu] at h₁; simp at h₁
    | some sem =>
      rw [hu] at h₁ h₂
      simp only at h₁ h₂
      split at h₁
      · rename_i hp
        simp only [hp, ↓reduceIte, Except.map, Except.ok.injEq] at h₁ h₂
        rw [← h₁, ← h₂]
        simp [add_comm]
      · simp at h₁
  · split at h₁ <;> simp only [Except.map, reduceCtorEq, Except.ok.injEq] at h₁
    split at h₂ <;> simp only [Except.map, reduceCtorEq, Except.ok.injEq] at h₂
    rename_i hd _
    rw [← h₁, ← h₂]
    simp [hd, add_comm]

theorem denote_add_comm {a b : QExpr} {v₁ v₂ : Val} (h₁ : denote false (.bin .add a b) = .ok v₁)
    (h₂ : denote false (.bin .add b a) = .ok v₂) : v₁.q = v₂.q := by
  rw [denote_bin] at h₁ h₂
  cases ha : denote false a with
  | error x => rw [ha] at h₁; cases h₁
  | ok x =>
    cases hb : denote false b with
    | error y => rw [ha, hb] at h₁; cases h₁
    | ok y =>
      rw [ha, hb] at h₁
      rw [hb, ha] at h₂
      exact binVal_add_comm h₁ h₂

theorem denote_mul_comm {a b : QExpr} {v₁ v₂ : Val} (h₁ : denote false (.bin .mul a b) = .ok v₁)
    (h₂ : denote false (.bin .mul b a) = .ok v₂) : v₁.q = v₂.q := by
  rw [denote_bin] at h₁ h₂
  cases ha : denote false a with
  | error x => rw [ha] at h₁; cases h₁
  | ok x =>
    cases hb : denote false b with
    | error y => rw [ha, hb] at h₁; cases h₁
    | ok y =>
      rw [ha, hb] at h₁
      rw [hb, ha] at h₂
      simp only [binVal, Except.ok.injEq] at h₁ h₂
      rw [← h₁, ← h₂]
      exact Props.C13.qmul_comm _ _

/-- `(a * b) * c` and `a * (b * c)`. -/
theorem denote_mul_assoc {a b c : QExpr} {v₁ v₂ : Val}
    (h₁ : denote false (.bin .mul (.bin .mul a b) c) = .ok v₁)
    (h₂ : denote false (.bin .mul a (.paren (.bin .mul b c))) = .ok v₂) : v₁.q = v₂.q := by
  rw [denote_bin, denote_bin] at h₁
  rw [denote_bin, denote_paren, denote_bin] at h₂
  cases ha : denote false a with
  | error x => rw [ha] at h₁; cases h₁
  | ok x =>
    cases hb : denote false b with
    | error y => rw [ha, hb] at h₁; cases h₁
    | ok y =>
      cases hc : denote false c with
      | error z => rw [ha, hb, hc] at h₁; simp [binVal] at h₁
      | ok z =>
        rw [ha, hb, hc] at h₁ h₂
        simp only [binVal, Except.ok.injEq] at h₁ h₂
        rw [← h₁, ← h₂]
        exact Props.C13.qmul_assoc _ _ _

end Anything.QQ
