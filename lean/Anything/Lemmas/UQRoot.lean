import Anything.Lemmas.UQParse
import Anything.Lemmas.UQLex
import Anything.Lemmas.C06Root
/-!
# The unified expression language — the root rule and `parseRoot` on a rendered query
-/

namespace Anything.UQ
open Anything Anything.Parser Anything.Grammar Anything.PTotal Anything.Spec.Arith
open Anything.Spec.Quantity Anything.C06 Anything.Eval Anything.QQ

theorem headKind_toksU_start (e : QExpr) (ws : Layout) (K : List Token) (hwf : WFS e) :
    (headKind (toksU e ws ++ K) == Syntax.EOF) = false ∧
    (headKind (toksU e ws ++ K) == Syntax.OPEN_BRACE || headKind (toksU e ws ++ K) == Syntax.OPEN_PAREN
      || headKind (toksU e ws ++ K) == Syntax.WORD || headKind (toksU e ws ++ K) == Syntax.NUMBER) = true := by
  obtain ⟨t, r, h, hk⟩ := toksU_head e ws hwf
  rw [h]
  simp only [List.cons_append, headKind]
  rcases hk with h | h | h <;> rw [h] <;> exact ⟨rfl, rfl⟩

theorem root_specU (e : QExpr) (ws : Layout) (hwf : WFS e) (hl : QueryLayoutOKU e ws) :
    ∃ F, Tot (root F) { toks := queryToksU e ws } (fun _ s' => ForestOKU s'.b.forest e) := by
  obtain ⟨Fo, ho⟩ := opSpecU e
  obtain ⟨hb0, hle, hb1⟩ := hl
  refine ⟨Fo + 2, ?_⟩
  have ht : ({ toks := queryToksU e ws } : PState).toks = blankTok (blank1 ws) ++
      (toksU e (rest1 ws) ++ (blankTok (blank1 (afterQ e (rest1 ws))) ++ [])) := by
    simp [queryToksU]
  unfold root
  refine tot_countSkip_ws _ _ ht (allWS_blankTok _) (toksU_notWS e _ _ hwf) ?_
  refine tot_seq (checkpoint_exact (s := { toks := queryToksU e ws }) good_init)
    fun c s1 ⟨ht1, hf1, _, g1, _, _⟩ => ?_
  have hf1' : s1.b.forest = [] := hf1
  refine tot_seq (P := fun r s' => r = false ∧ ForestOKU s'.b.forest e) ?_ fun r s2 ⟨hr, hF⟩ => ?_
  · unfold rootLoop
    refine tot_nth_ws _ _ (ht1.trans ht) ?_
    obtain ⟨k1, k2⟩ := headKind_toksU_start e (rest1 ws)
      (blankTok (blank1 (afterQ e (rest1 ws))) ++ []) hwf
    simp only [k1, k2, Bool.false_eq_true, ↓reduceIte]
    refine tot_seq (tot_le (le_operation (Nat.le_succ Fo) _)
      (ho (rest1 ws) s1 _ _ [] hwf hle g1 (ht1.trans ht) (allWS_blankTok _) (allWS_blankTok _)
        (Or.inr (Or.inr rfl)))) fun r s2 ⟨Wt, x, hr, ht2, hf2, hWt, hx, g2, _, _⟩ => ?_
    subst hr
    simp only
    unfold rootLoop
    refine tot_nth_ws _ [] ht2 ?_
    simp only [headKind, beq_self_eq_true, ↓reduceIte]
    refine tot_seq (bumpN_ws _ ht2 (allWS_blankTok _) g2)
      fun _ s3 ⟨_, ⟨Wt', hf3, hWt', _⟩, _, _, _⟩ => ?_
    exact tot_pure ⟨rfl, Wt, x, Wt', by rw [hf3, hf2, hf1']; simp, hWt, hWt', hx⟩
  subst hr
  simp only [Bool.false_eq_true, ↓reduceIte]
  exact tot_pure hF

/-- **Parser correctness on the token list of a rendered query.** -/
theorem parse_toksU (e : QExpr) (ws : Layout) (hwf : WFS e) (hl : QueryLayoutOKU e ws) :
    ∃ forest, Grammar.parseRootToks (queryToksU e ws) = .ok forest ∧ ForestOKU forest e := by
  obtain ⟨F, _, s', hroot, hF⟩ := root_specU e ws hwf hl
  refine ⟨s'.b.forest, ?_, hF⟩
  unfold parseRootToks
  have hmax : fuelFor (queryToksU e ws) ≤ max F (fuelFor (queryToksU e ws)) := Nat.le_max_right _ _
  have h1 := PFuel.root_fuel_irrelevant (queryToksU e ws) _ hmax
  have h2 := PFuel.le_root_of_le (Nat.le_max_left F (fuelFor (queryToksU e ws))) _ _ hroot
  rw [← h1, h2]

/-- **Parser correctness on rendered queries.** -/
theorem parse_renderU (e : QExpr) (ws : Layout) (hwf : WFS e) (hl : QueryLayoutOKU e ws) :
    ∃ forest, Grammar.parseRoot (renderQuery e ws) = .ok forest ∧ ForestOKU forest e := by
  obtain ⟨forest, hp, hF⟩ := parse_toksU e ws hwf hl
  refine ⟨forest, ?_, hF⟩
  unfold Grammar.parseRoot
  rw [lex_queryU e ws hwf hl, hp]

theorem repU_kind {x : Tree} {e : QExpr} (h : RepU x e) :
    (x.kind == Syntax.WHITESPACE) = false := by
  cases h with
  | num hk _ _ => rw [hk]; rfl
  | qty _ _ _ _ => rfl
  | fact hk _ _ => rw [hk]; split <;> rfl
  | paren _ _ => rfl
  | chain _ _ _ _ _ => rfl

/-- The single non-blank child of the parsed forest. -/
theorem forestOKU_filter {forest : List Tree} {e : QExpr} (h : ForestOKU forest e) :
    ∃ x, forest.filter (fun t => t.kind != .WHITESPACE) = [x] ∧ RepU x e := by
  obtain ⟨Wt, x, Wt', hf, hWt, hWt', hx⟩ := h
  have hws : ∀ W : List Tree, WSTrees W → W.filter (fun t => t.kind != .WHITESPACE) = [] := by
    intro W hW
    simp only [List.filter_eq_nil_iff]
    intro t ht
    obtain ⟨id, text, rfl⟩ := hW t ht
    simp [Tree.kind]
  refine ⟨x, ?_, hx⟩
  rw [hf, List.filter_append, List.filter_append, hws Wt hWt, hws Wt' hWt']
  have := repU_kind hx
  simp only [beq_eq_false_iff_ne, ne_eq] at this
  simp [this]

end Anything.UQ
