import Anything.Lemmas.CborValue
import Anything.Lemmas.CborBytes
/-!
# Codec values are encodable (C17, composition of the value and byte levels)
-/

namespace Anything.Cbor
open Anything

/-! ## Size of texts -/

theorem utf8_length (s : List Char) :
    (utf8 s).length = (s.flatMap String.utf8EncodeChar).length := by
  unfold utf8
  rw [List.length_map, byteArray_toList]
  simp [String.toUTF8, String.ofList, List.utf8Encode]

theorem utf8_length_le (s : List Char) : (utf8 s).length ≤ 4 * s.length := by
  rw [utf8_length]
  induction s with
  | nil => simp
  | cons c s ih =>
    have := Char.utf8Size_le_four c
    simp only [List.flatMap_cons, List.length_append, String.length_utf8EncodeChar, List.length_cons]
    omega

theorem encodable_text (s : List Char) (h : s.length < 2 ^ 62) : Encodable (.text s) := by
  have := utf8_length_le s
  show (utf8 s).length < 2 ^ 64
  omega

/-- The texts the codecs emit themselves: field names, the `Derived` tag and the base-unit names. -/
def emittedTexts : List String :=
  ["Derived", "power", "prefix", "names", "source", "tokens", "description", "value", "unit"]
    ++ Base.all.map Base.name

theorem emittedTexts_short : ∀ s ∈ emittedTexts, s.toList.length ≤ 11 := by decide

theorem encodable_str (s : String) (h : s ∈ emittedTexts) : Encodable (str s) :=
  encodable_text _ (by have := emittedTexts_short s h; omega)

/-! ## Integers -/

theorem encodable_cInt (i : Int) (h : -2 ^ 64 ≤ i ∧ i < 2 ^ 64) : Encodable (cInt i) := by
  unfold cInt
  split
  · show i.toNat < 2 ^ 64; omega
  · show (-i - 1).toNat < 2 ^ 64; omega

/-- `cInt` on an out-of-range integer is *not* encodable: the bound is exactly what is needed. -/
theorem encodable_cInt_iff (i : Int) : Encodable (cInt i) ↔ (-2 ^ 64 ≤ i ∧ i < 2 ^ 64) := by
  refine ⟨fun h => ?_, encodable_cInt i⟩
  unfold cInt at h
  split at h
  · have : i.toNat < 2 ^ 64 := h
    omega
  · have : (-i - 1).toNat < 2 ^ 64 := h
    omega

theorem encodableList_uints (l : List Nat) (h : ∀ x ∈ l, x < 2 ^ 64) :
    EncodableList (l.map .uint) := by
  rw [encodableList_iff]
  intro x hx
  obtain ⟨n, hn, rfl⟩ := List.mem_map.1 hx
  exact h n hn

/-- Number of base-2^32 limbs fits a CBOR array head. -/
def LimbsOk (i : Int) : Prop := (toLimbs i.natAbs).length < 2 ^ 64

/-- Any integer below `(2^32)^k` for some `k < 2^64` — i.e. anything that fits in
less than 64 EiB of memory — qualifies. (The bound is kept symbolic: `(2^32)^(2^64-1)`
cannot be written out.) -/
theorem limbsOk_of_lt (i : Int) (k : Nat) (hk : k < 2 ^ 64) (h : i.natAbs < 4294967296 ^ k) :
    LimbsOk i := by
  have := toLimbs_length_le _ _ h
  unfold LimbsOk; omega

theorem encodable_encBigInt (i : Int) (h : LimbsOk i) : Encodable (encBigInt i) := by
  unfold encBigInt
  refine ⟨by simp, ⟨encodable_cInt _ ?_, ⟨?_, ?_⟩, trivial⟩⟩
  · split
    · decide
    · split <;> decide
  · simpa [LimbsOk] using h
  · apply encodableList_uints
    intro x hx
    have := toLimbs_lt _ x hx
    omega

theorem encodable_encRat (r : Rat) (hn : LimbsOk r.num) (hd : LimbsOk r.den) :
    Encodable (encRat r) :=
  ⟨by simp, encodable_encBigInt _ hn, encodable_encBigInt _ hd, trivial⟩

/-! ## Units, states, compounds, constants -/

theorem units_id_lt : ∀ u ∈ Generated.units, u.id < 2 ^ 32 := by decide +kernel

theorem encodable_encUnit (u : UnitKey) (h : UnitOk u) : Encodable (encUnit u) := by
  cases u with
  | base b => exact encodable_str _ (by cases b <;> decide)
  | derived id =>
    obtain ⟨u, hu, rfl⟩ := h
    have := units_id_lt u hu
    refine ⟨by simp, encodable_str _ (by decide), ?_, trivial⟩
    show u.id < 2 ^ 64
    omega

/-- Machine range of the `State` fields (`i32` in the Rust; anything in `[-2^64, 2^64)` is encodable). -/
def StateOk (s : State) : Prop := (-2 ^ 64 ≤ s.power ∧ s.power < 2 ^ 64) ∧ (-2 ^ 64 ≤ s.pfx ∧ s.pfx < 2 ^ 64)

instance (s : State) : Decidable (StateOk s) := by unfold StateOk; infer_instance

theorem encodable_encState (s : State) (h : StateOk s) : Encodable (encState s) :=
  ⟨by simp, encodable_str _ (by decide), encodable_cInt _ h.1,
    encodable_str _ (by decide), encodable_cInt _ h.2, trivial⟩

/-- A compound that can be written: supported keys, machine-range states, fewer than `2^64` entries. -/
def CompoundEnc (c : Compound) : Prop :=
  c.length < 2 ^ 64 ∧ ∀ e ∈ c, UnitOk e.1 ∧ StateOk e.2

theorem CompoundEnc.ok {c : Compound} (h : CompoundEnc c) : CompoundOk c :=
  fun e he => (h.2 e he).1

theorem encodable_encCompound (c : Compound) (h : CompoundEnc c) : Encodable (encCompound c) := by
  refine ⟨by simp, encodable_str _ (by decide), ⟨by simpa using h.1, ?_⟩, trivial⟩
  rw [encodablePairs_iff]
  intro e he
  obtain ⟨e', he', rfl⟩ := List.mem_map.1 he
  exact ⟨encodable_encUnit _ (h.2 e' he').1, encodable_encState _ (h.2 e' he').2⟩

/-- A constant that can be written. -/
structure ConstantEnc (c : Constant) : Prop where
  source : ∀ s, c.source = some s → s < 2 ^ 64
  tokens : c.tokens.length < 2 ^ 64 ∧ ∀ t ∈ c.tokens, t.length < 2 ^ 62
  description : c.description.length < 2 ^ 62
  num : LimbsOk c.value.num
  den : LimbsOk c.value.den
  unit : CompoundEnc c.unit

theorem encodable_encConstant (c : Constant) (h : ConstantEnc c) : Encodable (encConstant c) := by
  unfold encConstant
  refine ⟨by simp, encodable_str _ (by decide), ?_, encodable_str _ (by decide), ⟨?_, ?_⟩,
    encodable_str _ (by decide), encodable_text _ h.description,
    encodable_str _ (by decide), encodable_encRat _ h.num h.den,
    encodable_str _ (by decide), encodable_encCompound _ h.unit, trivial⟩
  · cases hs : c.source with
    | none => trivial
    | some s => exact h.source s hs
  · simpa using h.tokens.1
  · rw [encodableList_iff]
    intro x hx
    obtain ⟨t, ht, rfl⟩ := List.mem_map.1 hx
    exact encodable_text _ (h.tokens.2 t ht)

end Anything.Cbor
