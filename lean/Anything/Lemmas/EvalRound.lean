import Anything.Lemmas.EvalSat
import Anything.Props.C10
/-!
# `builtinRound` never trips its debug assertion (for C11)

The assertion `debug_assert!(n > 0 || value.denom() == 1)` is checked on the value the
function is about to return. For `n ≤ 0` that value is `Spec.Arith.roundTo x n`
(`C10.round2_value`), an integer (`C10.roundTo_den`).
-/

namespace Anything.Eval
open Anything.Props.C10 Anything.Spec.Arith

/-- The guard of the assertion is false for every first argument and every digit count. -/
theorem round_guard_false (debug : Bool) (x : Rat) (n : Int) :
    (debug && !(decide (n > 0) ||
      decide ((if (decide (n ≥ 0) && decide (x.den = 1)) = true then x
        else if n = 0 then (RatNum.round x : Rat)
        else ((RatNum.round (x * ratZPow 10 n) : Int) : Rat) / ratZPow 10 n).den = 1))) = false := by
  rw [round2_value]
  by_cases h : n > 0
  · simp [h]
  · simp [roundTo_den x n (by omega)]

/-- `builtinRound`: an argument error at the given span, or a value with the unit of the
first argument; nothing else. -/
theorem builtinRound_cases (cfg : Cfg) (s e : Nat) (args : List Numeric) (d : List Desc) :
    (∃ k, (builtinRound cfg s e args d).1 = .error (.err k s e)) ∨
    (∃ v, (builtinRound cfg s e args d).1 = .ok v ∧ ∃ x ∈ args, v.unit = x.unit) := by
  match args with
  | [] => exact Or.inl ⟨_, rfl⟩
  | [first] => exact Or.inr ⟨_, rfl, first, by simp, rfl⟩
  | [first, second] =>
    cases h : RatNum.toI32 second.value with
    | none =>
      refine Or.inl ⟨.badArgument, ?_⟩
      simp only [builtinRound, h]
      rfl
    | some n =>
      refine Or.inr ?_
      simp only [builtinRound, h]
      rw [round_guard_false]
      exact ⟨_, rfl, first, by simp, rfl⟩
  | _ :: _ :: _ :: _ => exact Or.inl ⟨_, rfl⟩

theorem sat_round {P : EvalErr → Prop} {U : Compound → Prop} (cfg : Cfg) (s e : Nat)
    (args : List Numeric) (hP : ∀ k, P (.err k s e)) (hU : ∀ x ∈ args, U x.unit) :
    Sat P (QU U) (builtinRound cfg s e args) := by
  intro d
  rcases builtinRound_cases cfg s e args d with ⟨k, h⟩ | ⟨v, h, x, hx, hv⟩
  · rw [h]
    exact ⟨fun e' he' => (by cases he'; exact hP k), fun v hv => (by cases hv)⟩
  · rw [h]
    refine ⟨fun e' he' => (by cases he'), fun v' hv' => ?_⟩
    cases hv'
    show U v.unit
    rw [hv]
    exact hU x hx

end Anything.Eval
