import Anything.Model.Cbor
/-!
# Value-level lemmas for the serialisation codecs (C17)

Round trips of the *value* codecs of `Model/Cbor.lean` (`encX : X → CVal`,
`decX : CVal → Option X`), independent of the byte encoding.
-/

namespace Anything.Cbor
open Anything

/-! ## Limbs -/

theorem ofLimbs_limbs (fuel n : Nat) (h : n < fuel) : ofLimbs (limbs fuel n) = n := by
  induction fuel generalizing n with
  | zero => omega
  | succ f ih =>
    unfold limbs
    split
    · simp [ofLimbs, *]
    · rw [ofLimbs, ih _ (by omega)]; omega

theorem ofLimbs_toLimbs (n : Nat) : ofLimbs (toLimbs n) = n :=
  ofLimbs_limbs _ _ (Nat.lt_succ_self n)

theorem limbs_lt (fuel n : Nat) : ∀ l ∈ limbs fuel n, l < 4294967296 := by
  induction fuel generalizing n with
  | zero => simp [limbs]
  | succ f ih =>
    unfold limbs
    split
    · simp
    · intro l hl
      rcases List.mem_cons.1 hl with rfl | hl
      · omega
      · exact ih _ l hl

theorem toLimbs_lt (n : Nat) : ∀ l ∈ toLimbs n, l < 4294967296 := limbs_lt _ _

theorem toLimbs_all (n : Nat) : (toLimbs n).all (· < 4294967296) = true := by
  simp only [List.all_eq_true, decide_eq_true_eq]
  exact toLimbs_lt n

theorem toLimbs_zero : toLimbs 0 = [] := by simp [toLimbs, limbs]

/-- Number of limbs: `n < (2^32)^k` needs at most `k` limbs. -/
theorem limbs_length_le (fuel n k : Nat) (h : n < 4294967296 ^ k) : (limbs fuel n).length ≤ k := by
  induction fuel generalizing n k with
  | zero => simp [limbs]
  | succ f ih =>
    unfold limbs
    split
    · simp
    · rename_i hn
      cases k with
      | zero => simp at h; omega
      | succ k =>
        simp only [List.length_cons, Nat.add_le_add_iff_right]
        apply ih
        rw [Nat.pow_succ] at h
        exact Nat.div_lt_of_lt_mul (by rw [Nat.mul_comm]; exact h)

theorem toLimbs_length_le (n k : Nat) (h : n < 4294967296 ^ k) : (toLimbs n).length ≤ k :=
  limbs_length_le _ _ _ h

/-! ## Small integers -/

theorem unCInt_cInt (i : Int) : unCInt (cInt i) = some i := by
  unfold cInt
  split
  · simp only [unCInt, Option.some.injEq]; omega
  · simp only [unCInt, Option.some.injEq]; omega

theorem unUints_map (l : List Nat) : unUints (l.map .uint) = some l := by
  induction l with
  | nil => rfl
  | cons a l ih => simp [unUints, ih]

theorem unTexts_map (l : List (List Char)) : unTexts (l.map .text) = some l := by
  induction l with
  | nil => rfl
  | cons a l ih => simp [unTexts, ih]

/-! ## BigInt, Ratio -/

theorem decBigInt_encBigInt (i : Int) : decBigInt (encBigInt i) = some i := by
  simp only [encBigInt, decBigInt, unCInt_cInt, unUints_map, toLimbs_all, ofLimbs_toLimbs, if_true]
  by_cases h1 : i < 0
  · simp only [h1, if_true, Option.some.injEq]; omega
  · by_cases h2 : i = 0
    · subst h2; simp
    · simp only [h1, h2, if_false]
      have : (1 : Int) ≠ -1 := by decide
      have : (1 : Int) ≠ 0 := by decide
      simp only [*, if_false, if_true, Option.some.injEq]; omega

theorem decRat_encRat (r : Rat) : decRat (encRat r) = some r := by
  simp only [encRat, decRat, decBigInt_encBigInt]
  have : ((r.den : Nat) : Int) ≠ 0 := by have := r.den_pos; omega
  simp only [this, if_false, Option.some.injEq]
  rw [← Rat.divInt_eq_div, Rat.num_divInt_den]

/-! ## Units, states, compounds -/

/-- The unit keys the codec supports: every base unit, and the derived ids of the table. -/
def UnitOk : UnitKey → Prop
  | .base _ => True
  | .derived id => ∃ u ∈ Generated.units, u.id = id

instance (u : UnitKey) : Decidable (UnitOk u) := by
  cases u <;> unfold UnitOk <;> infer_instance

theorem decUnit_encUnit_base (b : Base) : decUnit (encUnit (.base b)) = some (.base b) := by
  cases b <;> decide

theorem decUnit_encUnit_derived (id : Nat) (h : ∃ u ∈ Generated.units, u.id = id) :
    decUnit (encUnit (.derived id)) = some (.derived id) := by
  have : Generated.units.any (fun u => u.id == id) = true := by
    simpa [List.any_eq_true] using h
  simp [encUnit, decUnit, str, this]

theorem decUnit_encUnit (u : UnitKey) (h : UnitOk u) : decUnit (encUnit u) = some u := by
  cases u with
  | base b => exact decUnit_encUnit_base b
  | derived id => exact decUnit_encUnit_derived id h

/-- An unsupported derived id is rejected by the decoder (so `UnitOk` is exactly what is needed). -/
theorem decUnit_encUnit_iff (u : UnitKey) : decUnit (encUnit u) = some u ↔ UnitOk u := by
  refine ⟨fun h => ?_, decUnit_encUnit u⟩
  cases u with
  | base b => trivial
  | derived id =>
    simp only [encUnit, decUnit, str] at h
    split at h
    · rename_i h'
      simp only [Bool.and_eq_true, List.any_eq_true, beq_iff_eq] at h'
      exact h'.2
    · cases h

theorem decState_encState (s : State) : decState (encState s) = some s := by
  simp [encState, decState, str, unCInt_cInt]

def CompoundOk (c : Compound) : Prop := ∀ e ∈ c, UnitOk e.1

theorem decEntries_map (c : Compound) (h : CompoundOk c) :
    decEntries (c.map (fun e => (encUnit e.1, encState e.2))) = some c := by
  induction c with
  | nil => rfl
  | cons e c ih =>
    have h1 : UnitOk e.1 := h e (by simp)
    have h2 : CompoundOk c := fun e' he' => h e' (by simp [he'])
    simp [decEntries, decUnit_encUnit _ h1, decState_encState, ih h2]

/-- Conversely, decoding succeeds only if every key is supported. -/
theorem compoundOk_of_decEntries (c : Compound) (d : Compound)
    (h : decEntries (c.map (fun e => (encUnit e.1, encState e.2))) = some d) : CompoundOk c := by
  induction c generalizing d with
  | nil => intro e he; cases he
  | cons e c ih =>
    simp only [List.map_cons, decEntries] at h
    split at h
    · rename_i u s c' hu hs hc
      intro e' he'
      rcases List.mem_cons.1 he' with rfl | he'
      · cases hk : e'.1 with
        | base b => trivial
        | derived id =>
          rw [hk] at hu
          simp only [encUnit, decUnit, str] at hu
          split at hu
          · rename_i h'
            simp only [Bool.and_eq_true, List.any_eq_true, beq_iff_eq] at h'
            exact h'.2
          · cases hu
      · exact ih c' hc e' he'
    · cases h

theorem decCompound_encCompound (c : Compound) (h : CompoundOk c) :
    decCompound (encCompound c) = some c := by
  simp [encCompound, decCompound, str, decEntries_map c h]

theorem decCompound_encCompound_iff (c : Compound) :
    decCompound (encCompound c) = some c ↔ CompoundOk c := by
  refine ⟨fun h => ?_, decCompound_encCompound c⟩
  simp only [encCompound, decCompound, str, beq_self_eq_true, if_true] at h
  exact compoundOk_of_decEntries c c h

theorem decConstant_encConstant (c : Constant) (h : CompoundOk c.unit) :
    decConstant (encConstant c) = some c := by
  obtain ⟨src, toks, desc, val, un⟩ := c
  cases src <;>
    simp [encConstant, decConstant, str, unTexts_map, decRat_encRat, decCompound_encCompound _ h]

/-! ## Identifier table -/

theorem find?_id_of_nodup (l : List UnitDef) (h : (l.map (·.id)).Nodup) (u : UnitDef) (hu : u ∈ l) :
    l.find? (fun v => v.id == u.id) = some u := by
  induction l with
  | nil => cases hu
  | cons a l ih =>
    simp only [List.map_cons, List.nodup_cons] at h
    rcases List.mem_cons.1 hu with rfl | hu
    · simp
    · have : a.id ≠ u.id := fun e => h.1 (e ▸ List.mem_map.2 ⟨u, hu, rfl⟩)
      have hb : (a.id == u.id) = false := by simpa using this
      rw [List.find?_cons, hb]
      exact ih h.2 hu

end Anything.Cbor
