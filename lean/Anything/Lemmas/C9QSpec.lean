import Anything.Lemmas.C9QShapes
/-!
# C09 end to end — the specification's reading of a temperature conversion

`Spec.Quantity.denote false` reads a lone offset scale with power one as a POINT
(`Spec.SI.pointToKelvin`) and `Spec.Quantity.inUnit` expresses a kelvin reading on a target scale.
For the three scales these are the defining formulas `toK` / `fromK` of `Props/C09`:
`denote_convE`, `inUnit_scale`.
-/

namespace Anything.C9Q
open Anything Anything.Eval Anything.Spec Anything.Spec.Arith Anything.Spec.Decimal
open Anything.Spec.Quantity Anything.Spec.SI Anything.C06 Anything.QQ Anything.Props.C09

/-- The dimension vector of a temperature. -/
def dimK : DimVec := DimVec.single .Kelvin 1

theorem scaleOf_K : scaleOf (key .K) = .linear 1 := rfl

theorem scaleOf_C : scaleOf (key .C) = .affine 1 (27315 / 100) := by
  have h := C09_table.1
  simp only [key, scaleOf, findUnit]
  cases hf : Generated.units.find? (fun u => u.id == 3728342790) with
  | none => rw [hf] at h; simp at h
  | some d =>
    rw [hf] at h
    simp only [Option.map_some, Option.some.injEq, Prod.mk.injEq] at h
    simp [h.2.2]

theorem scaleOf_F : scaleOf (key .F) = .affine (5 / 9) (45967 / 180) := by
  have h := C09_table.2
  simp only [key, scaleOf, findUnit]
  cases hf : Generated.units.find? (fun u => u.id == 981617578) with
  | none => rw [hf] at h; simp at h
  | some d =>
    rw [hf] at h
    simp only [Option.map_some, Option.some.injEq, Prod.mk.injEq] at h
    simp [h.2.2]

theorem dimsOf_scale (s : TScale) : dimsOf (key s) = dimK := by
  cases s <;> decide +kernel

theorem dims_scale (s : TScale) (p : Int) : dims [⟨p, key s, 1⟩] = dimK := by
  simp only [dims, List.foldl_cons, List.foldl_nil, dimsOf_scale]
  decide

theorem proportional_scale (s : TScale) (p : Int) :
    proportional [⟨p, key s, 1⟩] = decide (s = .K) := by
  cases s <;> simp [proportional, affine_CF.1, affine_CF.2.1, affine_CF.2.2]

/-- The specification's point reading of `x <p><s>` is `toK s (x·10^p)` kelvin. -/
theorem qtyOf_scale (s : TScale) (p : Int) (x : Rat) :
    qtyOf false x [⟨p, key s, 1⟩] = .ok ⟨toK s (x * (10 : Rat) ^ p), dimK⟩ := by
  cases s
  · simp only [qtyOf, proportional_scale, decide_true, Bool.or_true, ↓reduceIte, dims_scale,
      SI.scale, List.foldl_cons, List.foldl_nil, linFactor, scaleOf_K, arith_zpow_eq, toK]
    congr 2; simp
  · simp only [qtyOf, proportional_scale, Bool.false_or, dims_scale, pointToKelvin, scaleOf_C,
      arith_zpow_eq, toK]
    simp; ring
  · simp only [qtyOf, proportional_scale, Bool.false_or, dims_scale, pointToKelvin, scaleOf_F,
      arith_zpow_eq, toK]
    simp; ring

/-- The specification's value of a kelvin reading `y` on the scale `<q><t>` is
`fromK t y / 10^q`. -/
theorem inUnit_scale (t : TScale) (q : Int) (y : Rat) :
    inUnit false ⟨y, dimK⟩ [⟨q, key t, 1⟩] = .ok (fromK t y / (10 : Rat) ^ q) := by
  have h10 : (10 : Rat) ^ q ≠ 0 := zpow_ne_zero _ (by norm_num)
  cases t
  · simp only [inUnit, dims_scale, ne_eq, not_true_eq_false, ↓reduceIte, proportional_scale,
      decide_true, Bool.or_true, SI.scale, List.foldl_cons, List.foldl_nil, linFactor, scaleOf_K,
      arith_zpow_eq, fromK]
    congr 1; simp
  · simp only [inUnit, dims_scale, ne_eq, not_true_eq_false, ↓reduceIte, proportional_scale,
      Bool.false_or, scaleOf_C, arith_zpow_eq, fromK]
    simp
  · simp only [inUnit, dims_scale, ne_eq, not_true_eq_false, ↓reduceIte, proportional_scale,
      Bool.false_or, scaleOf_F, arith_zpow_eq, fromK]
    simp
    field_simp
    ring

theorem resolveAll_written {s : TScale} {pe : Int} {t : RTerm} (h : Written s pe t) :
    resolveAll [t] = some [⟨pe, key s, 1⟩] := by
  simp [resolveAll, List.mapM_cons, (written_facts h).1]

/-- **The specification's reading of `x <p><s> to <q><t>`**: the kelvin point `toK s (x·10^p)`,
to be expressed in the unit `<q><t>`. -/
theorem denote_convE (l : Literal) {s t : TScale} {p q : Int} {t₁ t₂ : RTerm}
    (h₁ : Written s p t₁) (h₂ : Written t q t₂) :
    denote false (convE l t₁ t₂) =
      .ok { q := ⟨toK s (value l * (10 : Rat) ^ p), dimK⟩, plain := false,
            unit := some [⟨q, key t, 1⟩] } := by
  rw [denote_cast, denote_qty, resolveAll_written h₁, resolveAll_written h₂]
  simp only [qtyOf_scale, castVal, Bool.false_eq_true, ↓reduceIte, inUnit_scale]

/-- **The specification refuses a literal whose unit misuses an offset scale**: the written
factors contain an offset scale and are not one single factor with power one. -/
theorem denote_qty_misused (l : Literal) (u : List RTerm) (sem : UnitSem)
    (hs : resolveAll u = some sem) (hp : proportional sem = false)
    (hn : ∀ t, sem = [t] → t.power ≠ 1) : denote false (.qty l u) = .error .offsetScale := by
  rw [denote_qty, hs]
  simp only [qtyOf, hp, Bool.or_self, Bool.false_eq_true, ↓reduceIte]
  match sem, hn with
  | [], _ => rfl
  | [t], hn => simp [hn t rfl]
  | _ :: _ :: _, _ => rfl

/-- … and with it every conversion, sum, difference, product, quotient of such a literal. -/
theorem denote_cast_misused (l : Literal) (u u₂ : List RTerm)
    (h : denote false (.qty l u) = .error .offsetScale) :
    denote false (.cast (.qty l u) u₂) = .error .offsetScale := by
  rw [denote_cast, h]

theorem denote_bin_misused_left (op : BinOp) (l : Literal) (u : List RTerm) (b : QExpr)
    (h : denote false (.qty l u) = .error .offsetScale) :
    denote false (.bin op (.qty l u) b) = .error .offsetScale := by
  rw [denote_bin, h]

end Anything.C9Q
