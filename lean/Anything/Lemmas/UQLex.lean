import Anything.Lemmas.UQDefs
import Anything.Lemmas.QQLex
import Anything.Lemmas.FQLex
/-!
# The unified expression language — the lexer on a rendered expression

`Lemmas/QQLex.lean` with fact phrases allowed (`FQ.lex_phrase`).
-/

namespace Anything.UQ
open Anything Anything.Lexer Anything.Spec Anything.Spec.Arith Anything.Spec.Decimal
open Anything.Spec.Quantity Anything.C06 Anything.QQ Anything.FQ Anything.Lemmas.Number

/-- What may follow the rendering of `e` for the lexer to cut the last token of `e` where the
rendering ends: after a written unit expression no word character and no dot; after a phrase no
word character; otherwise nothing that continues a number. -/
def StopU (e : QExpr) (rest : List Char) : Prop :=
  (endsUnit e = true → UnitStop rest) ∧ (endsUnit e = false → NumEnd rest) ∧
    (endsFact e = true → WordStop rest)

theorem exprStop_stopU (e : QExpr) {s : List Char} (h : ExprStop s) : StopU e s :=
  ⟨fun _ => exprStop_unitStop h, fun _ => numStop_numEnd (exprStop_numStop h),
    fun _ => unitStop_wordStop (exprStop_unitStop h)⟩

/-- After the left operand of a cast: a blank and the keyword. -/
theorem stopU_to (e : QExpr) {b1 : List Char} (hb : Blank b1)
    (hne : endsUnit e = true ∨ endsFact e = true → b1 ≠ []) (rest : List Char) :
    StopU e (b1 ++ (['t', 'o'] ++ rest)) := by
  refine ⟨fun he => blank_unitStop hb (hne (Or.inl he)), fun _ => ?_,
    fun he => unitStop_wordStop (blank_unitStop hb (hne (Or.inr he)))⟩
  exact numStop_numEnd (blank_numStop hb (head_cons (by decide)))

/-- The first character of a typeable phrase is the first character of its first word. -/
theorem phraseU_head {p : List Char} (h : PhraseU p) :
    ∃ c r, p = c :: r ∧ isWordChar c = true ∧ isDigit c = false := by
  obtain ⟨c, r, hf, hw, hd⟩ := wordLit_head h.1.1
  refine ⟨c, r ++ moreText (factMore p), ?_, hw, hd⟩
  conv_lhs => rw [← h.2, hf]
  simp [phraseText]

/-- The first character of a rendered expression. -/
theorem render_headU : ∀ (e : QExpr) (ws : Layout), WFS e →
    ∃ c r, (Quantity.render e ws).1 = c :: r ∧ StartOK (gluesU e) c
  | .num l, ws, h => by
    obtain ⟨c, r, hr, hc, hsg⟩ := renderNumber_head l h
    rw [render_num]
    exact ⟨c, r, hr, (operandStart_facts c hc).1, (operandStart_facts c hc).2,
      fun hg => signedStart_facts c (hsg hg)⟩
  | .qty l u, ws, h => by
    obtain ⟨c, r, hr, hc, hsg⟩ := renderNumber_head l h
    rw [render_qty]
    exact ⟨c, r ++ blank1 ws ++ renderUnit u, by simp [hr], (operandStart_facts c hc).1,
      (operandStart_facts c hc).2, fun hg => signedStart_facts c (hsg hg)⟩
  | .bin op a b, ws, h => by
    obtain ⟨c, r, hr, hc⟩ := render_headU a ws h.1
    rw [render_binQ]
    exact ⟨c, _, by simp only [hr, List.cons_append]; rfl, hc⟩
  | .paren e, ws, _ => by
    rw [render_parenQ]
    exact ⟨'(', _, by simp only [List.cons_append, List.nil_append]; rfl, by decide, by decide,
      fun _ => by decide⟩
  | .cast e u, ws, h => by
    obtain ⟨c, r, hr, hc⟩ := render_headU e ws h
    rw [render_cast]
    exact ⟨c, _, by simp only [hr, List.cons_append]; rfl, hc⟩
  | .fact p v u, ws, h => by
    obtain ⟨c, r, hp, hw, hd⟩ := phraseU_head h
    subst hp
    rw [render_fact]
    refine ⟨c, r, rfl, wordChar_noWS hw, ?_, fun hg => ?_⟩
    · intro hc; subst hc; exact absurd hw (by decide)
    · simp only [gluesU, Bool.or_eq_false_iff, beq_eq_false_iff_ne] at hg
      refine ⟨hd, ?_, hg.1, hg.2⟩
      intro hc; subst hc; exact absurd hw (by decide)

/-- **The lexer on a rendered expression** followed by a text that does not continue its last
token. -/
theorem lex_u : ∀ (e : QExpr) (ws : Layout) (rest : List Char) (ts : List Token),
    WFS e → LayoutOKU e ws → StopU e rest → Lexes rest ts →
    Lexes ((Quantity.render e ws).1 ++ rest) (toksU e ws ++ ts)
  | .num l, ws, rest, ts, _, hl, hs, h => by
    rw [render_num]
    simp only [toksU, List.cons_append, List.nil_append]
    exact lex_number' hl (hs.2.1 rfl) h
  | .qty l u, ws, rest, ts, _, hl, hs, h => by
    obtain ⟨hwf, hu, hb, hg⟩ := hl
    rw [render_qty]
    simp only [toksU, List.append_assoc, List.cons_append, List.nil_append]
    exact lex_number' hwf (numEnd_unit hu hb hg rest)
      (lex_blank hb (renderUnit_noWS u hu rest) (lex_unit u hu (hs.1 rfl) h))
  | .bin op a b, ws, rest, ts, hwf, hl, hs, h => by
    obtain ⟨wa, wb, _, _⟩ := hwf
    obtain ⟨ha, hb1, hb2, hb, hsg, _⟩ := hl
    obtain ⟨c, r, hcr, hc⟩ := render_headU b (rest1 (rest1 (afterQ a ws))) wb
    rw [render_binQ]
    simp only [toksU, List.append_assoc]
    obtain ⟨ao1, ao2⟩ := after_opF (rest := rest) hb2 hcr hc
    refine lex_u a ws _ _ wa ha (exprStop_stopU a (exprStop_blank hb1 (sym_stop op _)))
      (lex_blank hb1 (sym_noWS op _) (lex_op ao1 (fun hop => ao2 fun hnil => hsg hop hnil)
        (lex_blank hb2 (noWS_of_startF hcr hc rest) (lex_u b _ rest ts wb hb hs h))))
  | .paren e, ws, rest, ts, hwf, hl, _, h => by
    obtain ⟨hb1, he, hb2⟩ := hl
    obtain ⟨c, r, hcr, hc⟩ := render_headU e (rest1 ws) hwf
    rw [render_parenQ]
    simp only [toksU, List.append_assoc]
    exact lex_open (lex_blank hb1 (noWS_of_startF hcr hc _)
      (lex_u e _ _ _ hwf he (exprStop_stopU e (exprStop_blank hb2 (head_cons (Or.inr (by decide)))))
        (lex_blank hb2 (head_cons (by decide)) (lex_close h))))
  | .cast e u, ws, rest, ts, hwf, hl, hs, h => by
    obtain ⟨he, hu, hb1, hb2, hne2, hne1⟩ := hl
    rw [render_cast]
    simp only [toksU, List.append_assoc]
    exact lex_u e ws _ _ hwf he (stopU_to e hb1 hne1 _)
      (lex_blank hb1 (head_cons (by decide))
        (lex_to (unitStop_wordStop (blank_unitStop hb2 hne2))
          (lex_blank hb2 (renderUnit_noWS u hu rest) (lex_unit u hu (hs.1 rfl) h))))
  | .fact p v u, ws, rest, ts, hwf, _, hs, h => by
    rw [render_fact]
    simp only [toksU]
    have := lex_phrase (factFirst p) (factMore p) rest ts hwf.1 ⟨hs.2.2 rfl, hs.2.1 rfl⟩ h
    rwa [hwf.2] at this

/-- The lexer on a rendered expression followed by `rest`. -/
theorem lex_renderU (e : QExpr) (ws : Layout) (rest : List Char) (hwf : WFS e)
    (h : LayoutOKU e ws) (hs : ExprStop rest) :
    Lexer.lex ((Quantity.render e ws).1 ++ rest) = toksU e ws ++ Lexer.lex rest :=
  lexes_lex (lex_u e ws rest _ hwf h (exprStop_stopU e hs) (lexes_lex_self rest))

/-- The lexer on a rendered query. -/
theorem lex_queryU (e : QExpr) (ws : Layout) (hwf : WFS e) (h : QueryLayoutOKU e ws) :
    Lexer.lex (Quantity.renderQuery e ws) = queryToksU e ws := by
  obtain ⟨hb0, he, hb1⟩ := h
  obtain ⟨c, r, hcr, hc⟩ := render_headU e (rest1 ws) hwf
  apply lexes_lex
  have : Quantity.renderQuery e ws = blank1 ws ++ ((Quantity.render e (rest1 ws)).1 ++
      (blank1 (afterQ e (rest1 ws)) ++ [])) := by
    simp [renderQuery_eq]
  rw [this]
  have h2 : queryToksU e ws = blankTok (blank1 ws) ++ (toksU e (rest1 ws) ++
      (blankTok (blank1 (afterQ e (rest1 ws))) ++ [])) := by
    simp [queryToksU]
  rw [h2]
  exact lex_blank hb0 (noWS_of_startF hcr hc _)
    (lex_u e _ _ _ hwf he (exprStop_stopU e (exprStop_blank hb1 (head_nil _)))
      (lex_blank hb1 (head_nil _) lexes_nil))

/-! ### The default layout (one space at every blank position) is admissible -/

/-- Every written unit expression of the expression is spelled with lexer words. -/
def UnitsLexOKU : QExpr → Prop
  | .qty _ u => UnitLexOK u
  | .bin _ a b => UnitsLexOKU a ∧ UnitsLexOKU b
  | .paren e => UnitsLexOKU e
  | .cast e u => UnitsLexOKU e ∧ UnitLexOK u
  | _ => True

theorem layoutOKU_nil : ∀ e : QExpr, WFS e → UnitsLexOKU e → LayoutOKU e []
  | .num l, h, _ => h
  | .qty l u, h, hu => ⟨h, hu, blank_default, fun hb => absurd hb blank1_nil_ne⟩
  | .bin op a b, h, hu => by
    simp only [WFS] at h
    simp only [LayoutOKU, afterQ, afterQ_nil a, rest1_nil]
    exact ⟨layoutOKU_nil a h.1 hu.1, blank_default, blank_default, layoutOKU_nil b h.2.1 hu.2,
      fun _ hb => absurd hb blank1_nil_ne, fun _ _ => blank1_nil_ne⟩
  | .paren e, h, hu => by
    simp only [WFS] at h
    simp only [LayoutOKU]
    refine ⟨blank_default, layoutOKU_nil e h hu, ?_⟩
    show Blank (blank1 (Quantity.render e []).2)
    rw [afterQ_nil e]; exact blank_default
  | .cast e u, h, hu => by
    simp only [WFS] at h
    simp only [LayoutOKU, afterQ, afterQ_nil e, rest1_nil]
    exact ⟨layoutOKU_nil e h hu.1, hu.2, blank_default, blank_default, blank1_nil_ne,
      fun _ => blank1_nil_ne⟩
  | .fact _ _ _, _, _ => trivial

/-- Every well-formed expression whose units are spelled with lexer words has an admissible
layout: the default one. -/
theorem queryLayoutOKU_nil (e : QExpr) (hwf : WFS e) (hu : UnitsLexOKU e) :
    QueryLayoutOKU e [] := by
  refine ⟨blank_default, layoutOKU_nil e hwf hu, ?_⟩
  show Blank (blank1 (Quantity.render e []).2)
  rw [afterQ_nil e]; exact blank_default

end Anything.UQ
