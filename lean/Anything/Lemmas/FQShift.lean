import Anything.Lemmas.FQDefs
/-!
# Fact phrases end to end — precedence climbing on a flat operand / operator sequence

The specification-level machine of `Lemmas/C06Shift.lean`, over `FExpr`. In addition: every
operand of a flat sequence is an atom (`prio = 100`), which is what makes the first operand of
every operator run something other than a run of the same priority.
-/

namespace Anything.FQ
open Anything.Spec Anything.Spec.Arith

abbrev Stack := List (FExpr × BinOp)

def flat : FExpr → FExpr × List (BinOp × FExpr)
  | .bin op a b => ((flat a).1, (flat a).2 ++ (op, (flat b).1) :: (flat b).2)
  | e => (e, [])

def reduceA (cur : FExpr) (op : BinOp) : Stack → Stack
  | [] => [(cur, op)]
  | (acc, o) :: rest =>
    if op.prio < o.prio then reduceA (.bin o acc cur) op rest
    else if o.prio < op.prio then (cur, op) :: (acc, o) :: rest
    else (.bin o acc cur, op) :: rest

def closeAllA (cur : FExpr) : Stack → FExpr
  | [] => cur
  | (acc, o) :: rest => closeAllA (.bin o acc cur) rest

def run (st : Stack) (cur : FExpr) : List (BinOp × FExpr) → Stack × FExpr
  | [] => (st, cur)
  | (op, x) :: rest => run (reduceA cur op st) x rest

def shiftReduce (first : FExpr) (ops : List (BinOp × FExpr)) : FExpr :=
  closeAllA (run [] first ops).2 (run [] first ops).1

theorem run_append (st : Stack) (cur : FExpr) (l1 l2 : List (BinOp × FExpr)) :
    run st cur (l1 ++ l2) = run (run st cur l1).1 (run st cur l1).2 l2 := by
  induction l1 generalizing st cur with
  | nil => rfl
  | cons p l1 ih => obtain ⟨op, x⟩ := p; simp only [List.cons_append, run, ih]

def topPrio : Stack → Nat
  | [] => 0
  | (_, o) :: _ => o.prio

theorem prio_pos (op : BinOp) : 0 < op.prio := by cases op <;> decide

theorem prio_lt_100 (op : BinOp) : op.prio < 100 := by cases op <;> decide

def Equiv (p : Nat) (s1 s2 : Stack × FExpr) : Prop :=
  (∀ op : BinOp, op.prio ≤ p → reduceA s1.2 op s1.1 = reduceA s2.2 op s2.1) ∧
  closeAllA s1.2 s1.1 = closeAllA s2.2 s2.1

theorem reduceA_push (cur : FExpr) (op : BinOp) (st : Stack) (h : topPrio st < op.prio) :
    reduceA cur op st = (cur, op) :: st := by
  cases st with
  | nil => rfl
  | cons f rest =>
    obtain ⟨acc, o⟩ := f
    simp only [topPrio] at h
    have : ¬ op.prio < o.prio := by omega
    simp [reduceA, this, h]

theorem prio_bin (o : BinOp) (a b : FExpr) : (FExpr.bin o a b).prio = o.prio := rfl

theorem run_flat : ∀ (e : FExpr), WFF e → ∀ st : Stack, topPrio st < e.prio →
    Equiv e.prio (run st (flat e).1 (flat e).2) (st, e)
  | .lit l, _, st, _ => ⟨fun _ _ => rfl, rfl⟩
  | .fact f m, _, st, _ => ⟨fun _ _ => rfl, rfl⟩
  | .paren e, _, st, _ => ⟨fun _ _ => rfl, rfl⟩
  | .bin o a b, hwf, st, hst => by
    simp only [WFF] at hwf
    obtain ⟨wa, wb, hpa, hpb⟩ := hwf
    simp only [prio_bin] at hst ⊢
    have ea := run_flat a wa st (by omega)
    simp only [flat, run_append, run]
    rw [ea.1 o hpa, reduceA_push a o st hst]
    have eb := run_flat b wb ((a, o) :: st) (by simpa [topPrio] using hpb)
    refine ⟨fun op hop => ?_, ?_⟩
    · rw [eb.1 op (by omega)]
      simp only [reduceA]
      by_cases hlt : op.prio < o.prio
      · simp [hlt]
      · have heq : ¬ o.prio < op.prio := by omega
        simp only [hlt, heq, ↓reduceIte]
        rw [reduceA_push _ op st (by omega)]
    · rw [eb.2]; rfl

theorem shiftReduce_flat (e : FExpr) (hwf : WFF e) : shiftReduce (flat e).1 (flat e).2 = e := by
  have := (run_flat e hwf [] (by
    cases e <;> simp [topPrio, FExpr.prio, prio_pos])).2
  simpa [shiftReduce, closeAllA] using this

/-! ### Operands of a flat sequence are atoms -/

/-- Not an operator application. -/
def Atom (e : FExpr) : Prop := e.prio = 100

theorem atom_gt {e : FExpr} (h : Atom e) (op : BinOp) : op.prio < e.prio := by
  rw [h]; exact prio_lt_100 op

theorem flat_atoms : ∀ e : FExpr, Atom (flat e).1 ∧ ∀ p ∈ (flat e).2, Atom p.2
  | .lit _ => ⟨rfl, fun _ h => by simp [flat] at h⟩
  | .fact _ _ => ⟨rfl, fun _ h => by simp [flat] at h⟩
  | .paren _ => ⟨rfl, fun _ h => by simp [flat] at h⟩
  | .bin op a b => by
    obtain ⟨a1, a2⟩ := flat_atoms a
    obtain ⟨b1, b2⟩ := flat_atoms b
    refine ⟨a1, fun p hp => ?_⟩
    simp only [flat, List.mem_append, List.mem_cons] at hp
    rcases hp with hp | rfl | hp
    · exact a2 p hp
    · exact b1
    · exact b2 p hp

theorem run_snd_atom (st : Stack) (cur : FExpr) (ops : List (BinOp × FExpr)) (hc : Atom cur)
    (ho : ∀ p ∈ ops, Atom p.2) : Atom (run st cur ops).2 := by
  induction ops generalizing st cur with
  | nil => exact hc
  | cons p ops ih =>
    obtain ⟨op, x⟩ := p
    simp only [run]
    exact ih _ x (ho (op, x) (by simp)) (fun q hq => ho q (by simp [hq]))

theorem run_flat_atom (st : Stack) (e : FExpr) : Atom (run st (flat e).1 (flat e).2).2 :=
  run_snd_atom st _ _ (flat_atoms e).1 (flat_atoms e).2

end Anything.FQ
