import Anything.Spec.Words
import Anything.Lemmas.UnitWord
/-!
# Lemmas about the specification of word readings (`Spec.Words`) and `parseAll` (C05)
-/

namespace Anything.Spec.Words
open Anything

theorem isPrefixOf_append (a r : List Char) : isPrefixOf a (a ++ r) = true := by
  induction a with
  | nil => rfl
  | cons x xs ih => simp [isPrefixOf, ih]

theorem skipSep_replicate (k : Nat) (w : List Char) :
    skipSep (List.replicate k '-' ++ w) = skipSep w := by
  induction k with
  | zero => rfl
  | succ k ih => simp only [List.replicate_succ, List.cons_append, skipSep, ih]

theorem skipSep_cons {c : Char} (cs : List Char) (h : c ≠ '-') : skipSep (c :: cs) = c :: cs := by
  unfold skipSep
  split
  · rename_i heq
    simp only [List.cons.injEq] at heq
    exact absurd heq.1 h
  · rfl

theorem skipSep_nil : skipSep [] = [] := by
  unfold skipSep; rfl

end Anything.Spec.Words

namespace Anything.UnitWord
open Anything

/-- `parseAll` with its successive `parse` results made explicit. -/
theorem parseAll_cons {fuel : Nat} {s : List Char} {l : List (Int × UnitKey)}
    (h : parseAll (fuel + 1) s = some l) :
    (s = [] ∧ l = []) ∨
    ∃ rest p u tl, parse s = some (rest, p, u) ∧ rest.length < s.length ∧
      parseAll fuel rest = some tl ∧ l = (p, u) :: tl := by
  simp only [parseAll] at h
  split at h
  · rename_i he
    left
    exact ⟨by simpa using he, by simpa using h.symm⟩
  · right
    split at h
    · simp at h
    · rename_i rest p u hp
      split at h
      · rename_i hlt
        split at h
        · simp at h
        · rename_i tl htl
          simp only [Option.some.injEq] at h
          exact ⟨rest, p, u, tl, hp, hlt, htl, h.symm⟩
      · simp at h

end Anything.UnitWord
