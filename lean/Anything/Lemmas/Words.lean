import Anything.Spec.Words
import Anything.Lemmas.UnitWord
/-!
# Lemmas about the specification of word readings (`Spec.Words`) and `parseAll` (C05)
-/

namespace Anything.Spec.Words
open Anything

theorem isPrefixOf_append (a r : List Char) : isPrefixOf a (a ++ r) = true := by
  induction a with
  | nil => rfl
  | cons x xs ih => simp [isPrefixOf, ih]

theorem skipSep_replicate (k : Nat) (w : List Char) :
    skipSep (List.replicate k '-' ++ w) = skipSep w := by
  induction k with
  | zero => rfl
  | succ k ih => simp only [List.replicate_succ, List.cons_append, skipSep, ih]

theorem skipSep_cons {c : Char} (cs : List Char) (h : c ≠ '-') : skipSep (c :: cs) = c :: cs := by
  unfold skipSep
  split
  · rename_i heq
    simp only [List.cons.injEq] at heq
    exact absurd heq.1 h
  · rfl

theorem skipSep_nil : skipSep [] = [] := by
  unfold skipSep; rfl

theorem mem_nameTable_unitsOnly {lit : List Char} {u : UnitKey} {b : Int}
    (h : (lit, WordAction.unit u b) ∈ Generated.unitsOnly) : (lit, u, b) ∈ nameTable := by
  unfold nameTable
  simp only [List.mem_filterMap, List.mem_append]
  exact ⟨(lit, .unit u b), Or.inl h, rfl⟩

theorem mem_nameTable_combined {lit : List Char} {u : UnitKey} {b : Int}
    (h : (lit, WordAction.unit u b) ∈ Generated.combined) : (lit, u, b) ∈ nameTable := by
  unfold nameTable
  simp only [List.mem_filterMap, List.mem_append]
  exact ⟨(lit, .unit u b), Or.inr h, rfl⟩

theorem mem_prefixTable {lit : List Char} {q : Int} {alone : Option (UnitKey × Int)}
    (h : (lit, WordAction.pfx q alone) ∈ Generated.combined) : (lit, q) ∈ prefixTable := by
  unfold prefixTable
  simp only [List.mem_filterMap]
  exact ⟨(lit, .pfx q alone), h, rfl⟩

end Anything.Spec.Words

namespace Anything.UnitWord
open Anything

/-- `parseAll` with its successive `parse` results made explicit. -/
theorem parseAll_cons {fuel : Nat} {s : List Char} {l : List (Int × UnitKey)}
    (h : parseAll (fuel + 1) s = some l) :
    (s = [] ∧ l = []) ∨
    ∃ rest p u tl, parse s = some (rest, p, u) ∧ rest.length < s.length ∧
      parseAll fuel rest = some tl ∧ l = (p, u) :: tl := by
  simp only [parseAll] at h
  split at h
  · rename_i he
    left
    exact ⟨by simpa using he, by simpa using h.symm⟩
  · right
    split at h
    · simp at h
    · rename_i rest p u hp
      split at h
      · rename_i hlt
        split at h
        · simp at h
        · rename_i tl htl
          simp only [Option.some.injEq] at h
          exact ⟨rest, p, u, tl, hp, hlt, htl, h.symm⟩
      · simp at h

theorem parse_nil : parse [] = none := by
  simp [parse, phase1]

/-- A word that one `parse` consumes completely is a one-piece word. -/
theorem parseWord_single {s : List Char} {p : Int} {u : UnitKey} (h : parse s = some ([], p, u)) :
    parseWord s = some [(p, u)] := by
  cases s with
  | nil => rw [parse_nil] at h; simp at h
  | cons c cs =>
    simp [parseWord, parseAll, h]

/-- Checking a list in two chunks. -/
theorem all_of_take_drop {α : Type} (f : α → Bool) (n : Nat) (l : List α)
    (h1 : (l.take n).all f = true) (h2 : (l.drop n).all f = true) : l.all f = true := by
  rw [← List.take_append_drop n l, List.all_append, h1, h2]; rfl

end Anything.UnitWord
