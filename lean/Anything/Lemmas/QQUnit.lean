import Anything.Lemmas.QQUnitLoop
import Anything.Lemmas.Mul5
import Anything.Lemmas.EvalCtx
/-!
# `eval::unit` on a written unit expression, part 2: the run succeeds, with the right unit

`unit_forward`: for every UNIT node spelling `renderUnit u` with every factor in scope
(`UnitOK u`), `eval::unit` succeeds, leaves the log untouched and returns a sorted compound of
proportional, known units with exactly the dimensions and the exact scale of `resolveAll u`.
`unit_entries` describes that compound entry by entry.
-/

namespace Anything.QQ
open Anything Anything.Eval Anything.Spec Anything.Spec.Quantity Anything.Spec.SI

/-! ### `resolve` -/

theorem resolve_power {t : RTerm} {ut : UTerm} (h : resolve t = some ut) : ut.power = t.power := by
  unfold resolve at h
  simp only at h
  generalize (if t.pfxLit.isEmpty = true then some (0 : Int) else _ : Option Int) = p? at h
  generalize (match lookupLit Generated.unitsOnly t.nameLit with
    | some (.unit k bias) => some (k, bias)
    | _ => none : Option (UnitKey × Int)) = u? at h
  split at h
  · simp only [Option.some.injEq] at h
    rw [← h]
  · simp at h

theorem rs_of_resolve {t : RTerm} {ut : UTerm} (h : resolve t = some ut) : rs t = ut := by
  simp [rs, h]

theorem resolveAll_map (u : List RTerm) (h : ∀ t ∈ u, ∃ ut, resolve t = some ut) :
    resolveAll u = some (u.map rs) := by
  unfold resolveAll
  induction u with
  | nil => rfl
  | cons t u ih =>
    obtain ⟨ut, hut⟩ := h t (by simp)
    have := ih (fun x hx => h x (List.mem_cons_of_mem _ hx))
    simp [List.mapM_cons, hut, this, rs]

/-- What `TermOK` says, in terms of `rs`. -/
theorem termOK_rs {t : RTerm} (h : TermOK t) :
    resolve t = some (rs t) ∧ UnitWord.parseWord (word t) = some [((rs t).pfx, (rs t).key)] ∧
      isAffine (rs t).key = false ∧ (rs t).power = t.power := by
  obtain ⟨ut, h1, h2, h3⟩ := h.reads
  rw [rs_of_resolve h1]
  exact ⟨h1, h2, h3, resolve_power h1⟩

/-- `UnitOK` units resolve. -/
theorem unitOK_resolves (u : List RTerm) (hu : UnitOK u) : ∃ sem, resolveAll u = some sem :=
  ⟨_, resolveAll_map u (fun t ht => ⟨_, (termOK_rs (hu.1 t ht)).1⟩)⟩

theorem unitOK_sem {u : List RTerm} {sem : UnitSem} (hu : UnitOK u) (hs : resolveAll u = some sem) :
    sem = u.map rs := by
  have := resolveAll_map u (fun t ht => ⟨_, (termOK_rs (hu.1 t ht)).1⟩)
  rw [this] at hs
  exact (Option.some.inj hs).symm

/-- `UnitOK` units are proportional. -/
theorem unitOK_proportional (u : List RTerm) (sem : UnitSem) (hu : UnitOK u)
    (hs : resolveAll u = some sem) : proportional sem = true := by
  rw [unitOK_sem hu hs]
  simp only [proportional, List.all_map, List.all_eq_true, Function.comp]
  intro t ht
  simp [(termOK_rs (hu.1 t ht)).2.2.1]

/-- The specification's "not an offset scale" is the model's "pure factor". -/
theorem isProp_of_not_affine {k : UnitKey} (h : isAffine k = false) : isProp k = true := by
  cases k with
  | base b => simp [isProp, Units.conversion]
  | derived id =>
    simp only [SI.isAffine, SI.scaleOf, isProp, Units.conversion, SI.findUnit, Units.find?] at h ⊢
    cases hf : Generated.units.find? (fun u => u.id == id) with
    | none => simp
    | some d =>
      rw [hf] at h
      cases hc : d.conv <;> simp [hc] at h ⊢

/-! ### One `update` under the invariant -/

/-- Power of `k` in the compound (`0` when absent). -/
def powOf (c : Compound) (k : UnitKey) : Int :=
  match AMap.get? c k with
  | none => 0
  | some st => st.power

/-- The loop invariant: sorted; every entry carries the prefix `pf` assigns to its unit; only
proportional units; no zero power. -/
structure Inv (pf : UnitKey → Int) (c : Compound) : Prop where
  sorted : AMap.Sorted c
  pfx : ∀ k st, AMap.get? c k = some st → st.pfx = pf k
  prop : Proportional c
  nz : ∀ k st, AMap.get? c k = some st → st.power ≠ 0

theorem inv_nil (pf : UnitKey → Int) : Inv pf [] :=
  ⟨AMap.sorted_nil, fun k st h => (by cases h), fun e he => (by cases he),
    fun k st h => (by cases h)⟩

theorem update_inv {pf : UnitKey → Int} {c : Compound} {u : UnitKey} {δ : Int} (hi : Inv pf c)
    (hp : isProp u = true) (hδ : δ ≠ 0) :
    ∃ c', Compound.update c u δ (pf u) = .ok c' ∧ Inv pf c' ∧
      (∀ k, dimsFn c' k = dimsFn c k + δ * dimOfKey u k) ∧
      scaleC c' = scaleC c * term (u, { power := δ, pfx := pf u }) ∧
      ∀ k, powOf c' k = powOf c k + if u = k then δ else 0 := by
  have hex : ∃ c', Compound.update c u δ (pf u) = .ok c' := by
    unfold Compound.update
    cases hget : AMap.get? c u with
    | none => exact ⟨_, rfl⟩
    | some st =>
      have := hi.pfx u st hget
      simp only [this, ne_eq, not_true_eq_false, ↓reduceIte]
      split <;> exact ⟨_, rfl⟩
  obtain ⟨c', h⟩ := hex
  obtain ⟨hs', hd, hsc⟩ := update_sem hi.sorted h
  obtain ⟨e1, e2, e3⟩ := update_entry hi.sorted h
  -- the entry of `u` afterwards
  have hu' : AMap.get? c' u = if powOf c u + δ = 0 then none
      else some { power := powOf c u + δ, pfx := pf u } := by
    unfold powOf
    cases hget : AMap.get? c u with
    | none => simp [e2 hget, hδ]
    | some st => exact (e3 st hget).2
  refine ⟨c', h, ⟨hs', ?_, ?_, ?_⟩, hd, hsc, ?_⟩
  · intro k st hk
    by_cases hku : k = u
    · subst hku
      rw [hu'] at hk
      split at hk
      · simp at hk
      · simp only [Option.some.injEq] at hk; rw [← hk]
    · rw [e1 k hku] at hk
      exact hi.pfx k st hk
  · intro e he
    by_cases hku : e.1 = u
    · rw [hku]; exact hp
    · have hg := AMap.get?_of_mem hs' (k := e.1) (v := e.2) he
      rw [e1 e.1 hku] at hg
      exact hi.prop e (AMap.mem_of_get? hg)
  · intro k st hk
    by_cases hku : k = u
    · subst hku
      rw [hu'] at hk
      split at hk
      · simp at hk
      · rename_i hne
        simp only [Option.some.injEq] at hk; rw [← hk]; exact hne
    · rw [e1 k hku] at hk
      exact hi.nz k st hk
  · intro k
    by_cases hku : u = k
    · subst hku
      simp only [↓reduceIte]
      by_cases hz : powOf c u + δ = 0
      · have e : powOf c' u = 0 := by rw [powOf, hu']; simp [hz]
        rw [e, hz]
      · have e : powOf c' u = powOf c u + δ := by rw [powOf, hu']; simp [hz]
        exact e
    · simp only [hku, ↓reduceIte, Int.add_zero]
      unfold powOf
      rw [e1 k (Ne.symm hku)]

/-! ### A run of `update`s under the invariant -/

/-- The instructions as a specification-level list of factors. -/
def updSem (us : List Upd) : UnitSem := us.map (fun i => { pfx := i.pfx, key := i.key, power := i.delta })

/-- Total power the instructions add to `k`. -/
def powU (us : List Upd) (k : UnitKey) : Int := (us.map (fun i => if i.key = k then i.delta else 0)).sum

theorem runUpds_inv {pf : UnitKey → Int} (us : List Upd) : ∀ c, Inv pf c →
    (∀ i ∈ us, i.pfx = pf i.key ∧ isProp i.key = true ∧ i.delta ≠ 0) →
    ∃ c', runUpds c us = .ok c' ∧ Inv pf c' ∧
      (∀ k, dimsFn c' k = dimsFn c k + dimsFn (ofSem (updSem us)) k) ∧
      scaleC c' = scaleC c * scaleC (ofSem (updSem us)) ∧
      ∀ k, powOf c' k = powOf c k + powU us k := by
  induction us with
  | nil =>
    intro c hi _
    exact ⟨c, rfl, hi, by simp [updSem, ofSem, dimsFn_nil], by simp [updSem, ofSem, scaleC_nil],
      by simp [powU]⟩
  | cons i us ih =>
    intro c hi hus
    obtain ⟨h1, h2, h3⟩ := hus i (by simp)
    obtain ⟨c1, hu, hi1, hd1, hs1, hp1⟩ := update_inv hi h2 h3
    obtain ⟨c', hr, hi', hd', hs', hp'⟩ := ih c1 hi1 (fun j hj => hus j (List.mem_cons_of_mem _ hj))
    refine ⟨c', ?_, hi', ?_, ?_, ?_⟩
    · simp only [runUpds, h1, hu]; exact hr
    · intro k
      rw [hd', hd1]
      simp only [updSem, ofSem, List.map_cons, dimsFn_cons]; ring
    · rw [hs', hs1]
      simp only [updSem, ofSem, List.map_cons, scaleC_cons, h1]; ring
    · intro k
      rw [hp', hp1]
      simp only [powU, List.map_cons, List.sum_cons]; ring

/-! ### Bookkeeping of the instructions of a written unit expression -/

theorem termUpds_mem {key : UnitKey} {pfx cur p : Int} (hcur : cur = 1 ∨ cur = -1) {i : Upd}
    (h : i ∈ termUpds key pfx cur p) : i.key = key ∧ i.pfx = pfx ∧ i.delta ≠ 0 := by
  unfold termUpds at h
  simp only [List.mem_cons] at h
  rcases h with rfl | h
  · exact ⟨rfl, rfl, by rcases hcur with rfl | rfl <;> simp⟩
  · split at h
    · simp at h
    · rename_i hp1
      simp only [List.mem_singleton] at h
      subst h
      refine ⟨rfl, rfl, ?_⟩
      simp only
      rcases hcur with rfl | rfl <;> omega

theorem termUpds_dims (key : UnitKey) (pfx cur p : Int) (k : UnitKey) :
    dimsFn (ofSem (updSem (termUpds key pfx cur p))) k = (cur * p) * dimOfKey key k := by
  unfold termUpds
  split
  · rename_i h; subst h
    simp only [updSem, ofSem, List.map_cons, List.map_nil, dimsFn_cons, dimsFn_nil]; ring
  · simp only [updSem, ofSem, List.map_cons, List.map_nil, dimsFn_cons, dimsFn_nil]; ring

theorem termUpds_scale (key : UnitKey) (pfx cur p : Int) :
    scaleC (ofSem (updSem (termUpds key pfx cur p))) = ((10 : Rat) ^ pfx * lin key) ^ (cur * p) := by
  have hB : (10 : Rat) ^ pfx * lin key ≠ 0 :=
    mul_ne_zero (zpow_ne_zero _ (by norm_num)) (lin_ne_zero key)
  unfold termUpds
  split
  · rename_i h; subst h
    simp only [updSem, ofSem, List.map_cons, List.map_nil, scaleC_cons, scaleC_nil, term]
    simp
  · simp only [updSem, ofSem, List.map_cons, List.map_nil, scaleC_cons, scaleC_nil, term, mul_one]
    rw [← zpow_add₀ hB]
    congr 1; ring

theorem termUpds_pow (key : UnitKey) (pfx cur p : Int) (k : UnitKey) :
    powU (termUpds key pfx cur p) k = if key = k then cur * p else 0 := by
  unfold termUpds powU
  by_cases hk : key = k
  · split
    · rename_i h; subst h; simp [hk]
    · simp only [hk, List.map_cons, ↓reduceIte, List.map_nil, List.sum_cons, List.sum_nil]; ring
  · split <;> simp [hk]

theorem flatMap_dims {α : Type} (l : List α) (g : α → List Upd) (k : UnitKey) :
    dimsFn (ofSem (updSem (l.flatMap g))) k = (l.map (fun t => dimsFn (ofSem (updSem (g t))) k)).sum := by
  induction l with
  | nil => simp [updSem, ofSem, dimsFn_nil]
  | cons a l ih =>
    rw [List.flatMap_cons]
    have : updSem (g a ++ l.flatMap g) = updSem (g a) ++ updSem (l.flatMap g) := by simp [updSem]
    rw [this, ofSem_append, dimsFn_append, ih]
    simp

theorem flatMap_scale {α : Type} (l : List α) (g : α → List Upd) :
    scaleC (ofSem (updSem (l.flatMap g))) = (l.map (fun t => scaleC (ofSem (updSem (g t))))).prod := by
  induction l with
  | nil => simp [updSem, ofSem, scaleC_nil]
  | cons a l ih =>
    rw [List.flatMap_cons]
    have : updSem (g a ++ l.flatMap g) = updSem (g a) ++ updSem (l.flatMap g) := by simp [updSem]
    rw [this, ofSem_append, scaleC_append, ih]
    simp

theorem flatMap_pow {α : Type} (l : List α) (g : α → List Upd) (k : UnitKey) :
    powU (l.flatMap g) k = (l.map (fun t => powU (g t) k)).sum := by
  induction l with
  | nil => simp [powU]
  | cons a l ih =>
    rw [List.flatMap_cons]
    have : powU (g a ++ l.flatMap g) k = powU (g a) k + powU (l.flatMap g) k := by simp [powU]
    rw [this, ih]
    simp

/-- Factors with power zero contribute nothing to a sum: numerator plus denominator is all. -/
theorem sum_split (u : List RTerm) (f : RTerm → Int) (h0 : ∀ t, t.power = 0 → f t = 0) :
    (u.map f).sum = ((nums u).map f).sum + ((dens u).map f).sum := by
  induction u with
  | nil => simp [nums, dens]
  | cons t u ih =>
    simp only [nums, dens] at ih
    simp only [nums, dens, List.map_cons, List.sum_cons, List.filter_cons, ih]
    rcases Int.lt_trichotomy t.power 0 with h | h | h
    · have h1 : ¬ t.power > 0 := by omega
      simp only [h, h1, decide_true, decide_false, ↓reduceIte, Bool.false_eq_true, List.map_cons,
        List.sum_cons]
      ring
    · simp [h, h0 t h]
    · have h1 : ¬ t.power < 0 := by omega
      simp only [h, h1, gt_iff_lt, decide_true, decide_false, ↓reduceIte, Bool.false_eq_true,
        List.map_cons, List.sum_cons]
      ring

theorem prod_split (u : List RTerm) (f : RTerm → Rat) (h0 : ∀ t, t.power = 0 → f t = 1) :
    (u.map f).prod = ((nums u).map f).prod * ((dens u).map f).prod := by
  induction u with
  | nil => simp [nums, dens]
  | cons t u ih =>
    simp only [nums, dens] at ih
    simp only [nums, dens, List.map_cons, List.prod_cons, List.filter_cons, ih]
    rcases Int.lt_trichotomy t.power 0 with h | h | h
    · have h1 : ¬ t.power > 0 := by omega
      simp only [h, h1, decide_true, decide_false, ↓reduceIte, Bool.false_eq_true, List.map_cons,
        List.prod_cons]
      ring
    · simp [h, h0 t h]
    · have h1 : ¬ t.power < 0 := by omega
      simp only [h, h1, gt_iff_lt, decide_true, decide_false, ↓reduceIte, Bool.false_eq_true,
        List.map_cons, List.prod_cons]
      ring

/-- The instructions add up to the dimensions of the resolved factors. -/
theorem allUpds_dims (u : List RTerm) (hp : ∀ t ∈ u, (rs t).power = t.power) (k : UnitKey) :
    dimsFn (ofSem (updSem (allUpds u))) k = dimsFn (ofSem (u.map rs)) k := by
  have hu : updSem (allUpds u) = updSem (numUpds u) ++ updSem (denUpds u) := by
    simp [allUpds, updSem]
  rw [hu, ofSem_append, dimsFn_append, numUpds, denUpds, flatMap_dims, flatMap_dims]
  simp only [termUpds_dims]
  have e : dimsFn (ofSem (u.map rs)) k = (u.map (fun t => t.power * dimOfKey (rs t).key k)).sum := by
    simp only [dimsFn, ofSem, List.map_map]
    congr 1
    apply List.map_congr_left
    intro t ht
    simp [hp t ht]
  rw [e, sum_split u _ (fun t h => by simp [h])]
  congr 1
  · congr 1; apply List.map_congr_left; intro t _; ring
  · congr 1; apply List.map_congr_left; intro t _; ring

/-- The instructions multiply up to the scale of the resolved factors. -/
theorem allUpds_scale (u : List RTerm) (hp : ∀ t ∈ u, (rs t).power = t.power) :
    scaleC (ofSem (updSem (allUpds u))) = scaleC (ofSem (u.map rs)) := by
  have hu : updSem (allUpds u) = updSem (numUpds u) ++ updSem (denUpds u) := by
    simp [allUpds, updSem]
  rw [hu, ofSem_append, scaleC_append, numUpds, denUpds, flatMap_scale, flatMap_scale]
  simp only [termUpds_scale]
  have e : scaleC (ofSem (u.map rs)) =
      (u.map (fun t => ((10 : Rat) ^ (rs t).pfx * lin (rs t).key) ^ t.power)).prod := by
    simp only [scaleC, ofSem, List.map_map]
    congr 1
    apply List.map_congr_left
    intro t ht
    simp [term, hp t ht]
  rw [e, prod_split u _ (fun t h => by simp [h])]
  congr 1
  · congr 1; apply List.map_congr_left; intro t _; congr 1; ring
  · congr 1; apply List.map_congr_left; intro t _; congr 1; ring

/-- Total power of the factors with unit `k`. -/
def P (sem : UnitSem) (k : UnitKey) : Int := ((sem.filter (fun t => t.key = k)).map (·.power)).sum

theorem P_eq (sem : UnitSem) (k : UnitKey) :
    P sem k = (sem.map (fun t => if t.key = k then t.power else 0)).sum := by
  unfold P
  induction sem with
  | nil => rfl
  | cons t sem ih =>
    simp only [List.filter_cons, List.map_cons, List.sum_cons]
    by_cases h : t.key = k
    · simp [h, ih]
    · simp [h, ih]

/-- The instructions add `P k` to the power of `k`. -/
theorem allUpds_pow (u : List RTerm) (hp : ∀ t ∈ u, (rs t).power = t.power) (k : UnitKey) :
    powU (allUpds u) k = P (u.map rs) k := by
  have hu : powU (allUpds u) k = powU (numUpds u) k + powU (denUpds u) k := by
    simp [allUpds, powU]
  rw [hu, numUpds, denUpds, flatMap_pow, flatMap_pow, P_eq]
  simp only [termUpds_pow]
  have e : ((u.map rs).map (fun t => if t.key = k then t.power else 0)).sum =
      (u.map (fun t => if (rs t).key = k then t.power else 0)).sum := by
    rw [List.map_map]
    congr 1
    apply List.map_congr_left
    intro t ht
    simp [hp t ht]
  rw [e, sum_split u _ (fun t h => by simp [h])]
  congr 1
  · congr 1; apply List.map_congr_left; intro t _; split <;> simp
  · congr 1; apply List.map_congr_left; intro t _; split <;> simp

/-! ### The prefix of a unit in a coherent unit expression -/

/-- The prefix of the first factor with unit `k` (`0` when there is none). -/
def pfOf (sem : UnitSem) (k : UnitKey) : Int :=
  match sem.find? (fun t => t.key = k) with
  | some t => t.pfx
  | none => 0

theorem pfOf_mem {sem : UnitSem} (hc : Coherent sem) {t : UTerm} (ht : t ∈ sem) :
    pfOf sem t.key = t.pfx := by
  unfold pfOf
  cases hf : sem.find? (fun x => x.key = t.key) with
  | none =>
    have := List.find?_eq_none.mp hf t ht
    simp at this
  | some t' =>
    have h1 : t' ∈ sem := List.mem_of_find?_eq_some hf
    have h2 : t'.key = t.key := by simpa using List.find?_some hf
    exact hc t' h1 t ht h2

/-! ### The main theorems -/

/-- Everything about `eval::unit` on children spelling `unitItems u`, in terms of the resolved
factors `u.map rs`. -/
theorem unit_forward_view (kids : List At) (u : List RTerm) (d : List Desc)
    (hv : View kids (unitItems u)) (hu : UnitOK u) :
    ∃ T, Eval.unit kids d = (.ok T, d) ∧ Inv (pfOf (u.map rs)) T ∧
      (∀ k, dimsFn T k = dimsFn (ofSem (u.map rs)) k) ∧ scaleC T = scaleC (ofSem (u.map rs)) ∧
      ∀ k, powOf T k = P (u.map rs) k := by
  have hsem := resolveAll_map u (fun t ht => ⟨_, (termOK_rs (hu.1 t ht)).1⟩)
  have hco : Coherent (u.map rs) := hu.2 _ hsem
  have hp : ∀ t ∈ u, (rs t).power = t.power := fun t ht => (termOK_rs (hu.1 t ht)).2.2.2
  -- every instruction is in scope
  have hall : ∀ i ∈ allUpds u, i.pfx = pfOf (u.map rs) i.key ∧ isProp i.key = true ∧ i.delta ≠ 0 := by
    intro i hi
    have key : ∀ t ∈ u, ∀ cur p, (cur = 1 ∨ cur = -1) → i ∈ termUpds (rs t).key (rs t).pfx cur p →
        i.pfx = pfOf (u.map rs) i.key ∧ isProp i.key = true ∧ i.delta ≠ 0 := by
      intro t ht cur p hcur hi
      obtain ⟨h1, h2, h3⟩ := termUpds_mem hcur hi
      have hm : rs t ∈ u.map rs := List.mem_map_of_mem ht
      refine ⟨?_, ?_, h3⟩
      · rw [h1, h2, pfOf_mem hco hm]
      · rw [h1]; exact isProp_of_not_affine (termOK_rs (hu.1 t ht)).2.2.1
    simp only [allUpds, numUpds, denUpds, List.mem_append, List.mem_flatMap] at hi
    rcases hi with ⟨t, ht, hi⟩ | ⟨t, ht, hi⟩
    · exact key t (List.mem_of_mem_filter ht) 1 _ (Or.inl rfl) hi
    · exact key t (List.mem_of_mem_filter ht) (-1) _ (Or.inr rfl) hi
  obtain ⟨T, hr, hi, hd, hs, hpw⟩ := runUpds_inv (allUpds u) [] (inv_nil _) hall
  refine ⟨T, ?_, hi, ?_, ?_, ?_⟩
  · apply unit_run u kids d T hv _ hr
    intro t ht
    exact ⟨(termOK_rs (hu.1 t ht)).2.1, (hu.1 t ht).pow⟩
  · intro k; rw [hd, dimsFn_nil, zero_add, allUpds_dims u hp]
  · rw [hs, scaleC_nil, one_mul, allUpds_scale u hp]
  · intro k
    rw [hpw, allUpds_pow u hp]
    simp [powOf, AMap.get?]

/-- A UNIT node spelling `u`, seen from its parent at any offset, is a view of `unitItems u`. -/
theorem view_of_repUnit {x : Tree} {u : List RTerm} (hx : RepUnit x u) (off : Nat) :
    View (⟨off, x⟩ : At).kids (unitItems u) := by
  have h := C06.at_opKids ⟨off, x⟩
  unfold View
  rw [← hx.2, ← h, List.map_map]
  rfl

/-- **`eval::unit` on a written unit expression.** For every tree `x` that is a UNIT node
spelling `renderUnit u`, with every factor in scope, `eval::unit` succeeds, leaves the log
untouched, and returns a sorted compound of proportional units of the table with exactly the
dimensions and the exact scale of the specification's reading `sem` of `u`. -/
theorem unit_forward (x : Tree) (u : List RTerm) (sem : UnitSem) (off : Nat) (d : List Desc)
    (hx : RepUnit x u) (hu : UnitOK u) (hs : resolveAll u = some sem) :
    ∃ T, Eval.unit (⟨off, x⟩ : At).kids d = (.ok T, d) ∧ SameUnit T sem ∧ Proportional T ∧
      AllKnown T ∧ AMap.Sorted T := by
  obtain ⟨T, he, hi, hd, hsc, _⟩ := unit_forward_view _ u d (view_of_repUnit hx off) hu
  rw [← unitOK_sem hu hs] at hd hsc
  refine ⟨T, he, ⟨?_, ?_⟩, hi.prop, unit_known _ d T (by rw [he]), hi.sorted⟩
  · rw [dims_semOf, dims_sem]
    congr 1; funext b
    exact hd _
  · rw [scale_semOf, scale_sem, hsc]

/-! ### Entry-level description of the result (stretch goal) -/

/-- The result of `eval::unit` is a function of its arguments: whatever it returns is the `T`
of `unit_forward_view`. -/
theorem unit_entries_view (kids : List At) (u : List RTerm) (sem : UnitSem) (d : List Desc)
    (T : Compound) (hv : View kids (unitItems u)) (hu : UnitOK u) (hs : resolveAll u = some sem)
    (hT : Eval.unit kids d = (.ok T, d)) :
    AMap.Sorted T ∧ ∀ k, AMap.get? T k =
      if P sem k = 0 then none else some { power := P sem k, pfx := pfOf sem k } := by
  obtain ⟨T', he, hi, _, _, hpw⟩ := unit_forward_view kids u d hv hu
  rw [he] at hT
  simp only [Prod.mk.injEq, Except.ok.injEq, and_true] at hT
  subst hT
  rw [← unitOK_sem hu hs] at hi hpw
  refine ⟨hi.sorted, fun k => ?_⟩
  have hk := hpw k
  unfold powOf at hk
  cases hget : AMap.get? T' k with
  | none =>
    rw [hget] at hk
    simp [← hk]
  | some st =>
    rw [hget] at hk
    have h1 := hi.nz k st hget
    have h2 := hi.pfx k st hget
    simp only at hk
    rw [← hk, ← h2]
    simp [h1]

/-- **Entry by entry.** The compound `eval::unit` returns for a UNIT node spelling `u` holds,
for every unit `k`, the total power `P sem k` of the factors with that unit — no entry when that
total is zero — under the prefix of those factors (`pfOf`, see `pfOf_mem`). -/
theorem unit_entries (x : Tree) (u : List RTerm) (sem : UnitSem) (off : Nat) (d : List Desc)
    (T : Compound) (hx : RepUnit x u) (hu : UnitOK u) (hs : resolveAll u = some sem)
    (hT : Eval.unit (⟨off, x⟩ : At).kids d = (.ok T, d)) (k : UnitKey) :
    AMap.get? T k = if P sem k = 0 then none else some { power := P sem k, pfx := pfOf sem k } :=
  (unit_entries_view _ u sem d T (view_of_repUnit hx off) hu hs hT).2 k

/-- The prefix `pfOf sem k` in `unit_entries` is the prefix of every factor with unit `k`. -/
theorem unit_entries_pfx (u : List RTerm) (sem : UnitSem) (hu : UnitOK u)
    (hs : resolveAll u = some sem) (t : UTerm) (ht : t ∈ sem) : pfOf sem t.key = t.pfx :=
  pfOf_mem (hu.2 sem hs) ht

/-- (a) The result is the empty unit exactly when all powers cancel. -/
theorem unit_nil_iff (x : Tree) (u : List RTerm) (sem : UnitSem) (off : Nat) (d : List Desc)
    (T : Compound) (hx : RepUnit x u) (hu : UnitOK u) (hs : resolveAll u = some sem)
    (hT : Eval.unit (⟨off, x⟩ : At).kids d = (.ok T, d)) :
    T = [] ↔ ∀ k, P sem k = 0 := by
  have he := unit_entries x u sem off d T hx hu hs hT
  constructor
  · intro h k
    have := he k
    rw [h] at this
    by_cases hz : P sem k = 0
    · exact hz
    · simp [hz, AMap.get?] at this
  · intro h
    cases T with
    | nil => rfl
    | cons e T =>
      have := he e.1
      simp [h e.1, AMap.get?] at this

theorem P_natAbs_le (sem : UnitSem) (k : UnitKey) :
    (P sem k).natAbs ≤ (sem.map (fun t => t.power.natAbs)).sum := by
  rw [P_eq]
  induction sem with
  | nil => simp
  | cons t sem ih =>
    simp only [List.map_cons, List.sum_cons]
    split <;> omega

/-- (b) No power of the result exceeds the sum of the written powers. -/
theorem unit_power_le (x : Tree) (u : List RTerm) (sem : UnitSem) (off : Nat) (d : List Desc)
    (T : Compound) (hx : RepUnit x u) (hu : UnitOK u) (hs : resolveAll u = some sem)
    (hT : Eval.unit (⟨off, x⟩ : At).kids d = (.ok T, d)) :
    ∀ e ∈ T, e.2.power.natAbs ≤ (sem.map (fun t => t.power.natAbs)).sum := by
  obtain ⟨hsT, he⟩ := unit_entries_view _ u sem d T (view_of_repUnit hx off) hu hs hT
  intro e hm
  have hg := AMap.get?_of_mem hsT (k := e.1) (v := e.2) hm
  rw [he e.1] at hg
  split at hg
  · simp at hg
  · simp only [Option.some.injEq] at hg
    rw [← hg]
    exact P_natAbs_le sem e.1

/-- (b') Hence raising the result to the power `n` stays within `i32` whenever the sum of the
written powers times `|n|` does. -/
theorem unit_powFits (x : Tree) (u : List RTerm) (sem : UnitSem) (off : Nat) (d : List Desc)
    (T : Compound) (hx : RepUnit x u) (hu : UnitOK u) (hs : resolveAll u = some sem)
    (hT : Eval.unit (⟨off, x⟩ : At).kids d = (.ok T, d)) (n : Int)
    (hn : (sem.map (fun t => t.power.natAbs)).sum * n.natAbs ≤ 2147483647) :
    Compound.powFits T n = true := by
  have hle := unit_power_le x u sem off d T hx hu hs hT
  unfold Compound.powFits
  rw [List.all_eq_true]
  intro e he
  have h1 := hle e he
  have h2 : (e.2.power * n).natAbs ≤ 2147483647 := by
    rw [Int.natAbs_mul]
    exact Nat.le_trans (Nat.mul_le_mul_right _ h1) hn
  generalize e.2.power * n = m at h2 ⊢
  simp only [Bool.and_eq_true, decide_eq_true_eq]
  omega

/-! ### Non-vacuity -/

theorem resolve_of_fields {t : RTerm} (p : Int) (k : UnitKey) (n : Int)
    (h : (resolve t).map (fun x => (x.pfx, x.key, x.power)) = some (p, k, n)) :
    resolve t = some ⟨p, k, n⟩ := by
  cases hr : resolve t with
  | none => rw [hr] at h; simp at h
  | some ut =>
    rw [hr] at h
    simp only [Option.map_some, Option.some.injEq, Prod.mk.injEq] at h
    obtain ⟨rfl, rfl, rfl⟩ := h
    rfl

/-- `km*km^3/s^2`, with an unwritten `g^0`. -/
def exU : List RTerm := [⟨['k'], ['m'], 1⟩, ⟨[], ['s'], -2⟩, ⟨[], ['g'], 0⟩, ⟨['k'], ['m'], 3⟩]

theorem exU_ok : UnitOK exU := by
  have r1 := resolve_of_fields (t := ⟨['k'], ['m'], 1⟩) 3 (.base .Meter) 1 (by decide +kernel)
  have r2 := resolve_of_fields (t := ⟨[], ['s'], -2⟩) 0 (.base .Second) (-2) (by decide +kernel)
  have r3 := resolve_of_fields (t := ⟨[], ['g'], 0⟩) (-3) (.base .KiloGram) 0 (by decide +kernel)
  have r4 := resolve_of_fields (t := ⟨['k'], ['m'], 3⟩) 3 (.base .Meter) 3 (by decide +kernel)
  have hall : ∀ t ∈ exU, TermOK t := by
    intro t ht
    simp only [exU, List.mem_cons, List.not_mem_nil, or_false] at ht
    rcases ht with rfl | rfl | rfl | rfl
    · exact ⟨⟨_, r1, by decide +kernel, by decide +kernel⟩, by decide⟩
    · exact ⟨⟨_, r2, by decide +kernel, by decide +kernel⟩, by decide⟩
    · exact ⟨⟨_, r3, by decide +kernel, by decide +kernel⟩, by decide⟩
    · exact ⟨⟨_, r4, by decide +kernel, by decide +kernel⟩, by decide⟩
  refine ⟨hall, fun sem hs => ?_⟩
  have := resolveAll_map exU (fun t ht => (hall t ht).reads.imp fun _ h => h.1)
  rw [this] at hs
  cases hs
  simp only [exU, List.map_cons, List.map_nil, rs_of_resolve r1, rs_of_resolve r2, rs_of_resolve r3,
    rs_of_resolve r4]
  intro a ha b hb
  simp only [List.mem_cons, List.not_mem_nil, or_false] at ha hb
  rcases ha with rfl | rfl | rfl | rfl <;> rcases hb with rfl | rfl | rfl | rfl <;> simp

/-- The grammar's children for `km*km^3/s^2` spell `exU`; the theorems apply: the result is
`km^4 s^-2`. -/
example : View (Props.C05.kidsOf "km*km^3/s^2") (unitItems exU) ∧
    (Eval.unit (Props.C05.kidsOf "km*km^3/s^2") []).1.toOption =
      some [(.base .Meter, { power := 4, pfx := 3 }), (.base .Second, { power := -2, pfx := 0 })] := by
  unfold View
  decide +kernel

end Anything.QQ
