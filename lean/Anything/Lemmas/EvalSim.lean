import Anything.Model.Eval
/-!
# Structure of the evaluator as a log-threading computation (for C18)

`Built cfg cfg' m m'` says: `m` and `m'` are the *same* program — built from
log-free steps (`Neutral`), database lookups and monadic sequencing — run under
the configurations `cfg` and `cfg'`. `built_eval` shows (one induction on the
fuel) that `eval cfg fuel a` and `eval cfg' fuel a` are so related whenever the
two configurations agree on `debug`. Every C18 statement is then a three-case
induction over `Built`.
-/

namespace Anything.Eval

/-- A computation that neither reads nor writes the description log. -/
def Neutral {α : Type} (m : EvalM α) : Prop := ∃ r, ∀ d, m d = (r, d)

theorem neutral_pure {α : Type} (a : α) : Neutral (pure a : EvalM α) := ⟨.ok a, fun _ => rfl⟩

theorem neutral_throw {α : Type} (e : EvalErr) : Neutral (EvalM.throw e : EvalM α) :=
  ⟨.error e, fun _ => rfl⟩

theorem neutral_err {α : Type} (k : ErrKind) (s e : Nat) : Neutral (err k s e : EvalM α) :=
  ⟨.error (.err k s e), fun _ => rfl⟩

theorem bind_apply {α β : Type} (m : EvalM α) (f : α → EvalM β) (d : List Desc) :
    (m >>= f) d = match m d with
      | (.ok a, d') => f a d'
      | (.error e, d') => (.error e, d') := rfl

theorem neutral_bind {α β : Type} {m : EvalM α} {f : α → EvalM β}
    (hm : Neutral m) (hf : ∀ a, Neutral (f a)) : Neutral (m >>= f) := by
  obtain ⟨r, hr⟩ := hm
  cases r with
  | error e => exact ⟨.error e, fun d => by simp only [bind_apply, hr]⟩
  | ok a =>
    obtain ⟨r', hr'⟩ := hf a
    exact ⟨r', fun d => by simp only [bind_apply, hr, hr']⟩

theorem neutral_add (s e : Nat) (a b : Numeric) (sub : Bool) : Neutral (add s e a b sub) := by
  unfold add
  split
  · exact neutral_pure _
  · exact neutral_err ..
  · exact neutral_err ..

theorem neutral_mulDiv (cfg : Cfg) (s e : Nat) (a b : Numeric) (div : Bool) :
    Neutral (mulDiv cfg s e a b div) := by
  unfold mulDiv
  repeat' first | split | (dsimp only)
  all_goals first | exact neutral_pure _ | exact neutral_err .. | exact neutral_throw _

theorem neutral_pow (s e : Nat) (a b : Numeric) : Neutral (pow s e a b) := by
  unfold pow
  repeat' first | split | (dsimp only)
  all_goals first | exact neutral_pure _ | exact neutral_err .. | exact neutral_throw _

theorem neutral_one (s e : Nat) (args : List Numeric) : Neutral (one s e args) := by
  unfold one
  split
  · exact neutral_pure _
  · exact neutral_err ..

theorem neutral_builtinRound (cfg : Cfg) (s e : Nat) (args : List Numeric) :
    Neutral (builtinRound cfg s e args) := by
  unfold builtinRound
  repeat' first | split | (dsimp only)
  all_goals first | exact neutral_pure _ | exact neutral_err .. | exact neutral_throw _

theorem neutral_builtinFloor (s e : Nat) (args : List Numeric) :
    Neutral (builtinFloor s e args) :=
  neutral_bind (neutral_one s e args) (fun _ => neutral_pure _)

theorem neutral_builtinCeil (s e : Nat) (args : List Numeric) :
    Neutral (builtinCeil s e args) :=
  neutral_bind (neutral_one s e args) (fun _ => neutral_pure _)

theorem neutral_unitLoop (l : List At) : ∀ cur c last pending,
    Neutral (unitLoop cur c last pending l) := by
  induction l with
  | nil =>
    intro cur c last pending
    unfold unitLoop
    split
    · exact neutral_pure _
    · exact neutral_err ..
  | cons a rest ih =>
    intro cur c last pending
    unfold unitLoop
    repeat' first | split | (dsimp only)
    all_goals first | exact ih .. | exact neutral_err ..

theorem neutral_unit (l : List At) : Neutral (unit l) := neutral_unitLoop l ..

/-- `m` and `m'` are the same program run under `cfg` resp. `cfg'`. -/
inductive Built (cfg cfg' : Cfg) : {α : Type} → EvalM α → EvalM α → Prop
  | neutral {α : Type} (m : EvalM α) : Neutral m → Built cfg cfg' m m
  | lookup (a : At) : Built cfg cfg' (lookup cfg a) (lookup cfg' a)
  | bind {α β : Type} {m m' : EvalM α} {f f' : α → EvalM β} :
      Built cfg cfg' m m' → (∀ a, Built cfg cfg' (f a) (f' a)) →
      Built cfg cfg' (m >>= f) (m' >>= f')

theorem mulDiv_congr {cfg cfg' : Cfg} (h : cfg'.debug = cfg.debug) : mulDiv cfg' = mulDiv cfg := by
  funext s e a b div
  simp only [mulDiv, h]

theorem builtinRound_congr {cfg cfg' : Cfg} (h : cfg'.debug = cfg.debug) :
    builtinRound cfg' = builtinRound cfg := by
  funext s e args
  simp only [builtinRound, h]

/-- Closes `Neutral _` goals for the log-free helpers. -/
macro "neutral_tac" : tactic => `(tactic| first
  | exact neutral_pure _ | exact neutral_err .. | exact neutral_throw _
  | exact neutral_add .. | exact neutral_mulDiv .. | exact neutral_pow ..
  | exact neutral_unit _ | exact neutral_builtinRound .. | exact neutral_builtinFloor ..
  | exact neutral_builtinCeil ..)

/-- **Structure theorem.** Under two configurations with the same `debug` flag the
evaluator runs the same program: the same log-free steps, the same lookups, in
the same order. -/
theorem built_all (cfg cfg' : Cfg) (h : cfg'.debug = cfg.debug) : ∀ fuel,
    (∀ a, Built cfg cfg' (eval cfg fuel a) (eval cfg' fuel a)) ∧
    (∀ l, Built cfg cfg' (evalArgs cfg fuel l) (evalArgs cfg' fuel l)) ∧
    (∀ b, Built cfg cfg' (force cfg fuel b) (force cfg' fuel b)) ∧
    (∀ node b l, Built cfg cfg' (opFold cfg fuel node b l) (opFold cfg' fuel node b l)) := by
  intro fuel
  induction fuel with
  | zero =>
    refine ⟨?_, ?_, ?_, ?_⟩
    · intro a; simp only [eval]; exact Built.neutral _ (neutral_throw _)
    · intro l
      cases l <;> simp only [evalArgs]
      · exact Built.neutral _ (neutral_pure _)
      · exact Built.neutral _ (neutral_throw _)
    · intro b
      cases b <;> simp only [force]
      · exact Built.neutral _ (neutral_throw _)
      · exact Built.neutral _ (neutral_pure _)
    · intro node b l
      match l with
      | [] => simp only [opFold]; exact Built.neutral _ (neutral_pure _)
      | [_] => simp only [opFold]; exact Built.neutral _ (neutral_pure _)
      | _ :: _ :: _ => simp only [opFold]; exact Built.neutral _ (neutral_throw _)
  | succ fuel ih =>
    obtain ⟨ihE, ihA, ihF, ihO⟩ := ih
    refine ⟨?_, ?_, ?_, ?_⟩
    · intro a
      simp only [eval, builtinRound_congr h]
      repeat' first
        | exact Built.neutral _ (by neutral_tac)
        | exact Built.lookup _
        | exact ihE _ | exact ihA _ | exact ihF _ | exact ihO ..
        | (apply Built.bind; rotate_left; intro _)
        | split
    · intro l
      cases l <;> simp only [evalArgs]
      · exact Built.neutral _ (neutral_pure _)
      · exact Built.bind (ihE _) fun _ => Built.bind (ihA _) fun _ => Built.neutral _ (neutral_pure _)
    · intro b
      cases b <;> simp only [force]
      · exact ihE _
      · exact Built.neutral _ (neutral_pure _)
    · intro node b l
      match l with
      | [] => simp only [opFold]; exact Built.neutral _ (neutral_pure _)
      | [_] => simp only [opFold]; exact Built.neutral _ (neutral_pure _)
      | op :: rhs :: rest =>
        simp only [opFold, mulDiv_congr h]
        repeat' first
          | exact Built.neutral _ (by neutral_tac)
          | exact ihE _ | exact ihA _ | exact ihF _ | exact ihO ..
          | (apply Built.bind; rotate_left; intro _)
          | split

theorem built_eval (cfg cfg' : Cfg) (h : cfg'.debug = cfg.debug) (fuel : Nat) (a : At) :
    Built cfg cfg' (eval cfg fuel a) (eval cfg' fuel a) := (built_all cfg cfg' h fuel).1 a

/-! ## Consequences of `Built` -/

/-- What `lookup` does, spelled out. -/
theorem lookup_apply (cfg : Cfg) (a : At) (d : List Desc) :
    lookup cfg a d = match cfg.db a.t.text with
      | .error => (.error (.err .lookupError a.off a.stop), d)
      | .nothing => (.error (.err .missing a.off a.stop), d)
      | .found c => (.ok { value := c.value, unit := c.unit },
          if cfg.describe then d ++ [{ phrase := a.t.text, description := c.description }] else d) := by
  unfold lookup
  cases cfg.db a.t.text <;> cases cfg.describe <;> rfl

/-- The entry `x` reports a fact that is in the database under the phrase `x.phrase`,
with that fact's description. -/
def Logged (db : Db) (x : Desc) : Prop :=
  ∃ c, db x.phrase = .found c ∧ x.description = c.description

/-- The value never depends on the log, nor on `describe`. -/
theorem Built.sameVal {cfg cfg' : Cfg} {α : Type} {m m' : EvalM α} (h : Built cfg cfg' m m')
    (hdb : cfg'.db = cfg.db) : ∀ d d', (m d).1 = (m' d').1 := by
  induction h with
  | neutral m hn => obtain ⟨r, hr⟩ := hn; intro d d'; simp only [hr]
  | lookup a =>
    intro d d'
    simp only [lookup_apply, hdb]
    split <;> rfl
  | bind hm hf ihm ihf =>
    rename_i m m' f f'
    intro d d'
    have h1 := ihm d d'
    simp only [bind_apply]
    rcases hmd : m d with ⟨r, d1⟩
    rcases hmd' : m' d' with ⟨r', d1'⟩
    rw [hmd, hmd'] at h1
    cases h1
    cases r with
    | error e => rfl
    | ok a => exact ihf a d1 d1'

/-- Without `describe` the log is untouched. -/
theorem Built.noLog {cfg cfg' : Cfg} {α : Type} {m m' : EvalM α} (h : Built cfg cfg' m m')
    (hd : cfg.describe = false) : ∀ d, (m d).2 = d := by
  induction h with
  | neutral m hn => obtain ⟨r, hr⟩ := hn; intro d; simp only [hr]
  | lookup a =>
    intro d
    simp only [lookup_apply, hd]
    split <;> rfl
  | bind hm hf ihm ihf =>
    rename_i m m' f f'
    intro d
    have h1 := ihm d
    simp only [bind_apply]
    rcases hmd : m d with ⟨r, d1⟩
    rw [hmd] at h1
    cases h1
    cases r with
    | error e => rfl
    | ok a => exact ihf a _

/-- The log only grows, by a suffix that does not depend on the incoming log (nor does
the result), and every entry of that suffix reports a database fact. -/
theorem Built.log {cfg cfg' : Cfg} {α : Type} {m m' : EvalM α} (h : Built cfg cfg' m m') :
    ∃ r t, (∀ d, m d = (r, d ++ t)) ∧ ∀ x ∈ t, Logged cfg.db x := by
  induction h with
  | neutral m hn =>
    obtain ⟨r, hr⟩ := hn
    exact ⟨r, [], fun d => by simp only [hr, List.append_nil], by simp⟩
  | lookup a =>
    cases hdb : cfg.db a.t.text with
    | error =>
      exact ⟨.error (.err .lookupError a.off a.stop), [],
        fun d => by simp only [lookup_apply, hdb, List.append_nil], by simp⟩
    | nothing =>
      exact ⟨.error (.err .missing a.off a.stop), [],
        fun d => by simp only [lookup_apply, hdb, List.append_nil], by simp⟩
    | found c =>
      cases hd : cfg.describe with
      | false =>
        exact ⟨.ok { value := c.value, unit := c.unit }, [],
          fun d => by simp only [lookup_apply, hdb, hd, List.append_nil]; rfl, by simp⟩
      | true =>
        refine ⟨.ok { value := c.value, unit := c.unit },
          [{ phrase := a.t.text, description := c.description }],
          fun d => by simp only [lookup_apply, hdb, hd]; rfl, ?_⟩
        intro x hx
        simp only [List.mem_singleton] at hx
        subst hx
        exact ⟨c, hdb, rfl⟩
  | bind hm hf ihm ihf =>
    rename_i m m' f f'
    obtain ⟨r, t, hr, ht⟩ := ihm
    cases r with
    | error e => exact ⟨.error e, t, fun d => by simp only [bind_apply, hr], ht⟩
    | ok a =>
      obtain ⟨r2, t2, hr2, ht2⟩ := ihf a
      refine ⟨r2, t ++ t2, fun d => by simp only [bind_apply, hr, hr2, List.append_assoc], ?_⟩
      intro x hx
      rcases List.mem_append.1 hx with hx | hx
      · exact ht x hx
      · exact ht2 x hx

/-- The result is a failed lookup (the phrase is missing from the database, or the
database itself failed). -/
def IsLookupFail (e : EvalErr) : Prop :=
  ∃ s t, e = .err .lookupError s t ∨ e = .err .missing s t

/-- The outcome is a failed lookup. -/
def LookupFail {α : Type} (r : Except EvalErr α) : Prop := ∃ e, r = .error e ∧ IsLookupFail e

/-- With `describe` on, the outcome depends on the database only through the logged
phrases — unless the outcome is itself a failed lookup. -/
theorem Built.complete {cfg cfg' : Cfg} {α : Type} {m m' : EvalM α} (h : Built cfg cfg' m m')
    (hd : cfg.describe = true) (hd' : cfg'.describe = true) :
    ∀ d r t, m d = (r, d ++ t) → (∀ x ∈ t, cfg'.db x.phrase = cfg.db x.phrase) →
      m' d = (r, d ++ t) ∨ LookupFail r := by
  induction h with
  | neutral m hn => intro d r t hm _; exact .inl hm
  | lookup a =>
    intro d r t hm hag
    cases hdb : cfg.db a.t.text with
    | error =>
      simp only [lookup_apply, hdb, Prod.mk.injEq] at hm
      exact .inr ⟨_, hm.1.symm, _, _, .inl rfl⟩
    | nothing =>
      simp only [lookup_apply, hdb, Prod.mk.injEq] at hm
      exact .inr ⟨_, hm.1.symm, _, _, .inr rfl⟩
    | found c =>
      left
      simp only [lookup_apply, hdb, hd, if_true, Prod.mk.injEq] at hm
      obtain ⟨hr, ht⟩ := hm
      have ht' := List.append_cancel_left ht
      subst ht'
      have := hag _ (List.mem_singleton.2 rfl)
      simp only [hdb] at this
      simp only [lookup_apply, this, hd', if_true, hr]
  | bind hm hf ihm ihf =>
    rename_i m m' f f'
    intro d r t hb hag
    obtain ⟨r1, t1, hr1, -⟩ := hm.log
    simp only [bind_apply, hr1] at hb
    cases r1 with
    | error e =>
      simp only [Prod.mk.injEq] at hb
      obtain ⟨hr, ht⟩ := hb
      have ht' := List.append_cancel_left ht
      subst ht'
      rcases ihm d _ _ (hr1 d) hag with h1 | h1
      · left; simp only [bind_apply, h1, hr]
      · right
        obtain ⟨e', he, hfail⟩ := h1
        cases he
        exact ⟨_, hr.symm, hfail⟩
    | ok a =>
      simp only at hb
      obtain ⟨r2, t2, hr2, -⟩ := (hf a).log
      rw [hr2] at hb
      simp only [Prod.mk.injEq, List.append_assoc] at hb
      obtain ⟨hr, ht⟩ := hb
      have ht' := List.append_cancel_left ht
      subst ht'
      have hag1 : ∀ x ∈ t1, cfg'.db x.phrase = cfg.db x.phrase :=
        fun x hx => hag x (List.mem_append_left _ hx)
      have hag2 : ∀ x ∈ t2, cfg'.db x.phrase = cfg.db x.phrase :=
        fun x hx => hag x (List.mem_append_right _ hx)
      rcases ihm d _ _ (hr1 d) hag1 with h1 | ⟨e, he, -⟩
      · rcases ihf a (d ++ t1) r2 t2 (hr2 _) hag2 with h2 | h2
        · left; simp only [bind_apply, h1, h2, hr, List.append_assoc]
        · right; rw [← hr]; exact h2
      · cases he

/-- Successful version of `Built.complete`. -/
theorem Built.complete_ok {cfg cfg' : Cfg} {α : Type} {m m' : EvalM α} (h : Built cfg cfg' m m')
    (hd : cfg.describe = true) (hd' : cfg'.describe = true) (d : List Desc) (v : α) (t : List Desc)
    (hm : m d = (.ok v, d ++ t)) (hag : ∀ x ∈ t, cfg'.db x.phrase = cfg.db x.phrase) :
    m' d = (.ok v, d ++ t) := by
  rcases h.complete hd hd' d _ t hm hag with h1 | ⟨e, he, -⟩
  · exact h1
  · cases he

/-- With `describe` on, every logged phrase was really looked up: take the fact away
from the database (leaving every other phrase alone) and the run fails at a lookup. -/
theorem Built.necessary {cfg cfg' : Cfg} {α : Type} {m m' : EvalM α} (h : Built cfg cfg' m m')
    (hd : cfg.describe = true) (hd' : cfg'.describe = true) (p : List Char)
    (hag : ∀ s, s ≠ p → cfg'.db s = cfg.db s) (hnf : ∀ c, cfg'.db p ≠ .found c) :
    ∀ d v t, m d = (.ok v, d ++ t) → p ∈ t.map (·.phrase) →
      ∃ e d2, m' d = (.error e, d2) ∧ IsLookupFail e := by
  induction h with
  | neutral m hn =>
    intro d v t hm hp
    obtain ⟨r, hr⟩ := hn
    rw [hr] at hm
    simp only [Prod.mk.injEq] at hm
    have : t = [] := by
      have h2 : d ++ [] = d ++ t := by simpa using hm.2
      exact (List.append_cancel_left h2).symm
    subst this
    simp at hp
  | lookup a =>
    intro d v t hm hp
    cases hdb : cfg.db a.t.text with
    | error => simp only [lookup_apply, hdb, Prod.mk.injEq] at hm; exact absurd hm.1 (by simp)
    | nothing => simp only [lookup_apply, hdb, Prod.mk.injEq] at hm; exact absurd hm.1 (by simp)
    | found c =>
      simp only [lookup_apply, hdb, hd, if_true, Prod.mk.injEq] at hm
      have ht' := List.append_cancel_left hm.2
      subst ht'
      simp only [List.map_cons, List.map_nil, List.mem_singleton] at hp
      subst hp
      cases hdb' : cfg'.db a.t.text with
      | error =>
        exact ⟨.err .lookupError a.off a.stop, d, by simp only [lookup_apply, hdb'], _, _, .inl rfl⟩
      | nothing =>
        exact ⟨.err .missing a.off a.stop, d, by simp only [lookup_apply, hdb'], _, _, .inr rfl⟩
      | found c' => exact absurd hdb' (hnf c')
  | bind hm hf ihm ihf =>
    rename_i m m' f f'
    intro d v t hb hp
    obtain ⟨r1, t1, hr1, -⟩ := hm.log
    simp only [bind_apply, hr1] at hb
    cases r1 with
    | error e => simp only [Prod.mk.injEq] at hb; exact absurd hb.1 (by simp)
    | ok a =>
      simp only at hb
      obtain ⟨r2, t2, hr2, -⟩ := (hf a).log
      rw [hr2] at hb
      simp only [Prod.mk.injEq, List.append_assoc] at hb
      obtain ⟨hr, ht⟩ := hb
      have ht' := List.append_cancel_left ht
      subst ht'
      subst hr
      by_cases hp1 : p ∈ t1.map (·.phrase)
      · obtain ⟨e, d2, he, hfail⟩ := ihm d a t1 (hr1 d) hp1
        exact ⟨e, d2, by simp only [bind_apply, he], hfail⟩
      · have hag1 : ∀ x ∈ t1, cfg'.db x.phrase = cfg.db x.phrase := by
          intro x hx
          apply hag
          intro hxp
          exact hp1 (List.mem_map.2 ⟨x, hx, hxp⟩)
        have h1 := hm.complete_ok hd hd' d a t1 (hr1 d) hag1
        have hp2 : p ∈ t2.map (·.phrase) := by
          simp only [List.map_append, List.mem_append] at hp
          exact hp.resolve_left hp1
        obtain ⟨e, d2, he, hfail⟩ := ihf a (d ++ t1) _ t2 (hr2 _) hp2
        exact ⟨e, d2, by simp only [bind_apply, h1, he], hfail⟩

/-! ## `queryLoop` -/

/-- The fuel `queryLoop` gives to a root child. -/
def qFuel (a : At) : Nat := 2 * size a.t + 2

/-- The root children `queryLoop` evaluates: everything but WHITESPACE. -/
def live (as : List At) : List At := as.filter (fun a => !(a.t.kind == .WHITESPACE))

theorem live_append (as bs : List At) : live (as ++ bs) = live as ++ live bs := by
  simp only [live, List.filter_append]

/-- `queryLoop` is the list of the isolated results, and the concatenation, in order,
of the isolated logs. -/
theorem queryLoop_eq (cfg : Cfg) (as : List At) : ∀ d, queryLoop cfg as d =
    ((live as).map (fun a => (eval cfg (qFuel a) a []).1),
     d ++ ((live as).map (fun a => (eval cfg (qFuel a) a []).2)).flatten) := by
  induction as with
  | nil => intro d; simp [queryLoop, live]
  | cons a rest ih =>
    intro d
    unfold queryLoop
    by_cases hw : (a.t.kind == Syntax.WHITESPACE) = true
    · simp only [hw, if_true, ih, live, List.filter_cons, Bool.not_true, Bool.false_eq_true,
        if_false]
    · have hw' : (a.t.kind == Syntax.WHITESPACE) = false := by simpa using hw
      obtain ⟨r, t, hr, -⟩ := (built_eval cfg cfg rfl (qFuel a) a).log
      have h1 : eval cfg (2 * size a.t + 2) a d = (r, d ++ t) := hr d
      have h2 : eval cfg (qFuel a) a [] = (r, t) := by simpa using hr []
      simp only [hw', live, List.filter_cons, Bool.not_false, if_true, Bool.false_eq_true,
        if_false, List.map_cons, List.flatten_cons, h1, h2, ih, List.append_assoc]

/-! ## Order of evaluation inside a binary operation -/

/-- The arithmetic step of `opFold` for the operator kind `k`. -/
def arith (cfg : Cfg) (k : Syntax) (s e : Nat) (b r : Numeric) : EvalM Numeric :=
  if k == .OP_ADD then add s e b r false
  else if k == .OP_SUB then add s e b r true
  else if k == .OP_DIV then mulDiv cfg s e b r true
  else if k == .OP_POWER then pow s e b r
  else mulDiv cfg s e b r false

theorem neutral_arith (cfg : Cfg) (k : Syntax) (s e : Nat) (b r : Numeric) :
    Neutral (arith cfg k s e b r) := by
  unfold arith
  repeat' split
  all_goals neutral_tac

/-- The binary operator kinds. -/
def IsArith (k : Syntax) : Prop :=
  k = .OP_ADD ∨ k = .OP_SUB ∨ k = .OP_MUL ∨ k = .OP_DIV ∨ k = .OP_IMPLICIT_MUL ∨ k = .OP_POWER

theorem eval_operation (cfg : Cfg) (fuel : Nat) (a base : At) (rest : List At)
    (hk : a.t.kind = .OPERATION)
    (hkids : a.kids.filter (fun k => k.t.hasChildren) = base :: rest) :
    eval cfg (fuel + 1) a = opFold cfg fuel a (.node base) rest >>= force cfg fuel := by
  rw [eval]
  simp only [hk, hkids]

theorem opFold_arith (cfg : Cfg) (fuel : Nat) (node op rhs : At) (base : Delayed) (rest : List At)
    (hop : IsArith op.t.kind) :
    opFold cfg (fuel + 1) node base (op :: rhs :: rest) =
      (do let r ← eval cfg fuel rhs
          let b ← force cfg fuel base
          let v ← arith cfg op.t.kind node.off node.stop b r
          opFold cfg fuel node (.num v) rest) := by
  rw [opFold]
  rcases hop with h | h | h | h | h | h <;> simp only [h] <;> rfl

theorem force_node (cfg : Cfg) (fuel : Nat) (a : At) :
    force cfg (fuel + 1) (.node a) = eval cfg fuel a := by rw [force]

theorem force_num (cfg : Cfg) (fuel : Nat) (n : Numeric) : force cfg fuel (.num n) = pure n := by
  rw [force]

theorem opFold_nil (cfg : Cfg) (fuel : Nat) (node : At) (b : Delayed) :
    opFold cfg fuel node b [] = pure b := by rw [opFold]

/-- A binary operation evaluates its RIGHT operand first, then its left operand, then
combines them. -/
theorem eval_binary (cfg : Cfg) (fuel : Nat) (a l op r : At)
    (hk : a.t.kind = .OPERATION)
    (hkids : a.kids.filter (fun k => k.t.hasChildren) = [l, op, r])
    (hop : IsArith op.t.kind) :
    eval cfg (fuel + 3) a =
      (do let rv ← eval cfg (fuel + 1) r
          let lv ← eval cfg fuel l
          arith cfg op.t.kind a.off a.stop lv rv) := by
  rw [eval_operation cfg _ a l [op, r] hk hkids, opFold_arith cfg _ a op r _ [] hop]
  funext d
  simp only [bind_apply, force_node, opFold_nil]
  generalize eval cfg (fuel + 1) r d = p1
  rcases p1 with ⟨e1 | rv, d1⟩
  · rfl
  · simp only
    generalize eval cfg fuel l d1 = p2
    rcases p2 with ⟨e2 | lv, d2⟩
    · rfl
    · simp only
      generalize arith cfg op.t.kind a.off a.stop lv rv d2 = p3
      rcases p3 with ⟨e3 | v, d3⟩
      · rfl
      · rfl

end Anything.Eval
