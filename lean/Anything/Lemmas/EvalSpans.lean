import Anything.Lemmas.EvalSat
import Anything.Lemmas.ParserLeaves
/-!
# Located nodes and token boundaries (for C11)

`Loc toks a`: the leaves of the node `a.t` are a contiguous block of the token list
`toks` and `a.off` is the byte length of the tokens before the block. Children of a
located node are located (`loc_kids`), the root children of a forest whose leaves are
`toks` are located (`loc_root`), and the span `[a.off, a.stop]` of a located node lies
inside the input with both ends on token boundaries (`loc_span`).
-/

namespace Anything.Eval

/-- Byte length of a token list. -/
def tokLen (l : List Token) : Nat := (l.map Token.len).sum

theorem tokLen_nil : tokLen [] = 0 := rfl

theorem tokLen_append (a b : List Token) : tokLen (a ++ b) = tokLen a + tokLen b := by
  simp [tokLen]

theorem utf8Len_flatMap (l : List Token) : utf8Len (l.flatMap Token.text) = tokLen l := by
  induction l with
  | nil => rfl
  | cons t ts ih =>
    rw [List.flatMap_cons, utf8Len_append, ih]
    simp [tokLen, Token.len]

theorem len_eq_tokLen (t : Tree) : t.len = tokLen t.leaves := by
  rw [Tree.len, Tree.text_eq_leaves, utf8Len_flatMap]

/-- `n` is the byte offset of a token boundary of `toks`. -/
def IsBoundary (toks : List Token) (n : Nat) : Prop := ∃ k, k ≤ toks.length ∧ n = tokLen (toks.take k)

/-- A well-formed span: ordered, inside the input, both ends on token boundaries. -/
def Span (toks : List Token) (s e : Nat) : Prop :=
  s ≤ e ∧ e ≤ tokLen toks ∧ IsBoundary toks s ∧ IsBoundary toks e

/-- The node's leaves are a block of `toks` starting at byte `a.off`. -/
def Loc (toks : List Token) (a : At) : Prop :=
  ∃ pre post, toks = pre ++ a.t.leaves ++ post ∧ a.off = tokLen pre

theorem loc_span {toks : List Token} {a : At} (h : Loc toks a) : Span toks a.off a.stop := by
  obtain ⟨pre, post, ht, hoff⟩ := h
  have hstop : a.stop = tokLen (pre ++ a.t.leaves) := by
    rw [At.stop, hoff, len_eq_tokLen, tokLen_append]
  refine ⟨?_, ?_, ⟨pre.length, ?_, ?_⟩, ⟨(pre ++ a.t.leaves).length, ?_, ?_⟩⟩
  · rw [At.stop]; omega
  · rw [hstop, ht, tokLen_append (pre ++ a.t.leaves)]; omega
  · rw [ht]; simp only [List.length_append]; omega
  · rw [hoff, ht, List.append_assoc, List.take_left]
  · rw [ht]; simp only [List.length_append]; omega
  · rw [hstop, ht, List.take_left]

/-- Children of a block are sub-blocks. -/
theorem kidsAt_block (ks : List Tree) : ∀ (off : Nat) (k : At), k ∈ kidsAt off ks →
    ∃ pre post, Tree.leavesList ks = pre ++ k.t.leaves ++ post ∧ k.off = off + tokLen pre := by
  induction ks with
  | nil => intro off k hk; simp [kidsAt] at hk
  | cons t ts ih =>
    intro off k hk
    simp only [kidsAt, List.mem_cons] at hk
    rcases hk with rfl | hk
    · exact ⟨[], Tree.leavesList ts, by simp [Tree.leavesList], by simp [tokLen_nil]⟩
    · obtain ⟨pre, post, h1, h2⟩ := ih _ k hk
      refine ⟨t.leaves ++ pre, post, ?_, ?_⟩
      · simp only [Tree.leavesList, h1, List.append_assoc]
      · rw [h2, tokLen_append, len_eq_tokLen]; omega

theorem loc_kids {toks : List Token} {a : At} (h : Loc toks a) : ∀ k ∈ a.kids, Loc toks k := by
  intro k hk
  obtain ⟨pre, post, ht, hoff⟩ := h
  obtain ⟨off, t⟩ := a
  cases t with
  | tok id kind text => simp [At.kids, Tree.kids, kidsAt] at hk
  | node id kind ks =>
    simp only [At.kids, Tree.kids] at hk
    obtain ⟨pre', post', h1, h2⟩ := kidsAt_block ks off k hk
    simp only [Tree.leaves] at ht
    simp only at hoff
    refine ⟨pre ++ pre', post' ++ post, ?_, ?_⟩
    · rw [ht, h1]; simp only [List.append_assoc]
    · rw [h2, hoff, tokLen_append]

theorem loc_root {toks : List Token} {forest : List Tree} (h : Tree.leavesList forest = toks) :
    ∀ a ∈ kidsAt 0 forest, Loc toks a := by
  intro a ha
  obtain ⟨pre, post, h1, h2⟩ := kidsAt_block forest 0 a ha
  exact ⟨pre, post, by rw [← h, h1], by omega⟩

/-- A token boundary is a character boundary: its offset is the UTF-8 length of a prefix
of the character sequence the tokens spell. -/
theorem boundary_prefix {toks : List Token} {n : Nat} (h : IsBoundary toks n) :
    ∃ p, p <+: toks.flatMap Token.text ∧ n = utf8Len p := by
  obtain ⟨k, _, hn⟩ := h
  refine ⟨(toks.take k).flatMap Token.text, ⟨(toks.drop k).flatMap Token.text, ?_⟩, ?_⟩
  · rw [← List.flatMap_append, List.take_append_drop]
  · rw [hn, utf8Len_flatMap]

theorem tokLen_eq_utf8Len (toks : List Token) : tokLen toks = utf8Len (toks.flatMap Token.text) :=
  (utf8Len_flatMap toks).symm

end Anything.Eval
