import Anything.Lemmas.FQDefs
import Anything.Lemmas.EvalSim
/-!
# Fact phrases end to end — the evaluator on trees that represent a mixed expression

`eval_repF`: on a tree with `RepF t e` the evaluator does what `evalD cfg e` says — same result
up to the spans of errors (`strip`), same description log, for every incoming log.
Then `evalD` is split into its value part `denote` and its log part `logD`.
-/

namespace Anything.FQ
open Anything Anything.Eval Anything.Spec Anything.Spec.Arith Anything.Spec.Decimal Anything.C06

/-! ### Spans only label errors -/

theorem strip_ok {α : Type} (a : α) : strip (.ok a : Except EvalErr α) = .ok a := rfl

theorem strip_strip {α : Type} (r : Except EvalErr α) : strip (strip r) = strip r := by
  cases r with
  | ok a => rfl
  | error e => cases e <;> rfl

/-- The arithmetic step does not touch the log, and its spans only label the error. -/
theorem binEval_spans (cfg : Cfg) (op : BinOp) (s e : Nat) (a b : Numeric) :
    ∃ r, (∀ d, binEval cfg op s e a b d = (r, d)) ∧
      (∀ d, binEval cfg op 0 0 a b d = (strip r, d)) := by
  have hadd : ∀ sub, ∃ r, (∀ d, Eval.add s e a b sub d = (r, d)) ∧
      (∀ d, Eval.add 0 0 a b sub d = (strip r, d)) := by
    intro sub
    simp only [Eval.add]
    generalize Compound.factor a.unit b.unit b.value = fr
    rcases fr with _ | _ | bv <;> exact ⟨_, fun _ => rfl, fun _ => rfl⟩
  have hmd : ∀ div, ∃ r, (∀ d, Eval.mulDiv cfg s e a b div d = (r, d)) ∧
      (∀ d, Eval.mulDiv cfg 0 0 a b div d = (strip r, d)) := by
    intro div
    simp only [Eval.mulDiv]
    generalize Compound.mul cfg.debug a.unit b.unit (if div = true then -1 else 1) a.value b.value = mr
    rcases mr with x | ⟨u, av, bv⟩
    · cases x <;> exact ⟨_, fun _ => rfl, fun _ => rfl⟩
    · simp only
      split_ifs <;> exact ⟨_, fun _ => rfl, fun _ => rfl⟩
  cases op <;> simp only [binEval]
  · exact hadd false
  · exact hadd true
  · exact hmd false
  · exact hmd true
  · simp only [Eval.pow]
    split_ifs <;> exact ⟨_, fun _ => rfl, fun _ => rfl⟩

/-! ### Simulation -/

/-- The evaluator's run `res` is the specification's run `res'`: same result up to the spans of
errors, same log. -/
def Sim {α : Type} (res res' : Except EvalErr α × List Desc) : Prop :=
  strip res.1 = res'.1 ∧ res.2 = res'.2

theorem sim_bind {α β : Type} {m m' : EvalM α} {f f' : α → EvalM β} {d : List Desc}
    (hm : Sim (m d) (m' d)) (hf : ∀ a d1, Sim (f a d1) (f' a d1)) :
    Sim ((m >>= f) d) ((m' >>= f') d) := by
  simp only [C06.bind_apply]
  rcases h1 : m d with ⟨r, d1⟩
  rcases h2 : m' d with ⟨r', d1'⟩
  rw [h1, h2] at hm
  obtain ⟨hr, hd⟩ := hm
  simp only at hr hd
  subst hd
  cases r with
  | error x =>
    simp only [strip] at hr
    subst hr
    exact ⟨rfl, rfl⟩
  | ok a =>
    simp only [strip] at hr
    subst hr
    exact hf a d1

theorem sim_lookup (cfg : Cfg) (a : At) (d : List Desc) :
    Sim (lookup cfg a d) (lookupD cfg a.t.text d) := by
  rw [lookup_apply]
  unfold lookupD
  cases cfg.db a.t.text with
  | error => exact ⟨rfl, rfl⟩
  | nothing => exact ⟨rfl, rfl⟩
  | found c => cases cfg.describe <;> exact ⟨rfl, rfl⟩

theorem sim_binEval (cfg : Cfg) (op : BinOp) (s e : Nat) (a b : Numeric) (d : List Desc) :
    Sim (binEval cfg op s e a b d) (binEval cfg op 0 0 a b d) := by
  obtain ⟨r, h1, h2⟩ := binEval_spans cfg op s e a b
  rw [h1, h2]
  exact ⟨rfl, rfl⟩

/-- The outcome of the operator loop against the specification's run. -/
def SimD (res : Except EvalErr Delayed × List Desc) (res' : Except EvalErr Numeric × List Desc) :
    Prop :=
  res.2 = res'.2 ∧
    match res.1, res'.1 with
    | .ok (.num w), .ok w' => w = w'
    | .error x, .error x' => stripErr x = x'
    | _, _ => False

/-! ### Error propagation along a chain -/

theorem evalD_bin_same (cfg : Cfg) (op : BinOp) (a b : FExpr) (h : a.prio = op.prio) :
    evalD cfg (.bin op a b) =
      (evalD cfg a >>= fun va => evalD cfg b >>= fun vb => binEval cfg op 0 0 va vb) := by
  simp only [evalD, h, ↓reduceIte]

theorem evalD_bin_other (cfg : Cfg) (op : BinOp) (a b : FExpr) (h : a.prio ≠ op.prio) :
    evalD cfg (.bin op a b) =
      (evalD cfg b >>= fun vb => evalD cfg a >>= fun va => binEval cfg op 0 0 va vb) := by
  simp only [evalD, h, ↓reduceIte]

theorem foldF_evalD_err (cfg : Cfg) {R : Tree → FExpr → Prop} {p : Nat} {acc e : FExpr}
    {ts : List Tree} (h : FoldF R p acc ts e) (hp : acc.prio = p) (d₀ d' : List Desc)
    (y : EvalErr) (herr : evalD cfg acc d₀ = (.error y, d')) :
    evalD cfg e d₀ = (.error y, d') := by
  induction h with
  | nil p acc => exact herr
  | @cons p acc o x op b e rest _ hop _ _ ih =>
    refine ih hop ?_
    rw [evalD_bin_same cfg op acc b (hp.trans hop.symm)]
    simp only [C06.bind_apply, herr]

/-! ### The evaluator -/

/-- The statement proved by induction on the fuel. -/
def EvalOKF (cfg : Cfg) (f : Nat) : Prop :=
  ∀ (t : Tree) (e : FExpr) (off : Nat) (d : List Desc), 2 * size t ≤ f → RepF t e →
    LitsOKF e → Sim (eval cfg f ⟨off, t⟩ d) (evalD cfg e d)

theorem foldF_litsOK {R : Tree → FExpr → Prop} {p : Nat} {acc e : FExpr} {ts : List Tree}
    (h : FoldF R p acc ts e) : LitsOKF e → LitsOKF acc := by
  induction h with
  | nil p acc => exact id
  | cons _ _ _ _ ih => intro he; exact (ih he).1

/-- The operator loop from a forced accumulator. -/
theorem fold_sim (cfg : Cfg) (N : Nat) (ih : ∀ f, f ≤ N → EvalOKF cfg f)
    {p : Nat} {acc e : FExpr} {ts : List Tree} (h : FoldF RepF p acc ts e) :
    acc.prio = p →
    ∀ (rest : List At) (F : Nat) (v : Numeric) (node : At) (d d₀ : List Desc),
      rest.map (·.t) = ts → F ≤ N + 1 → evalD cfg acc d₀ = (.ok v, d) → 2 * sizeList ts ≤ F →
      LitsOKF e → SimD (opFold cfg F node (.num v) rest d) (evalD cfg e d₀) := by
  induction h with
  | nil p acc =>
    intro _ rest F v node d d₀ hr _ hv _ _
    have : rest = [] := by simpa using hr
    subst this
    rw [hv]
    cases F <;> simp [opFold, pure, SimD]
  | @cons p acc o x op b e ts' ho hop hx htail ihf =>
    intro hp rest F v node d d₀ hr hF hv hsz hl
    match rest, hr with
    | oa :: xa :: rest', hr =>
      simp only [List.map_cons, List.cons.injEq] at hr
      obtain ⟨h1, h2, h3⟩ := hr
      simp only [sizeList] at hsz
      have hxs := size_pos x
      have hos := size_pos o
      obtain ⟨F', rfl⟩ : ∃ F', F = F' + 1 := ⟨F - 1, by omega⟩
      have hlb := foldF_litsOK htail hl
      rw [opFold_step cfg F' node _ oa xa rest' op (h1 ▸ ho)]
      have hxo := ih F' (by omega) x b xa.off d (by omega) hx hlb.2
      have hxa : (⟨xa.off, x⟩ : At) = xa := by cases xa; simp_all
      rw [hxa] at hxo
      have hacc' : evalD cfg (.bin op acc b) d₀ =
          (evalD cfg b >>= fun vb => binEval cfg op 0 0 v vb) d := by
        rw [evalD_bin_same cfg op acc b (hp.trans hop.symm)]
        simp only [C06.bind_apply, hv]
      have hp' : (FExpr.bin op acc b).prio = p := hop
      simp only [C06.bind_apply]
      rcases hb1 : eval cfg F' xa d with ⟨rb, d1⟩
      rcases hb2 : evalD cfg b d with ⟨rb', d1'⟩
      rw [hb1, hb2] at hxo
      obtain ⟨hrb, hd1⟩ := hxo
      simp only at hrb hd1
      subst hd1
      cases rb with
      | error y =>
        simp only [strip] at hrb
        have herr : evalD cfg (.bin op acc b) d₀ = (.error (stripErr y), d1) := by
          rw [hacc']; simp only [C06.bind_apply, hb2, ← hrb]
        rw [foldF_evalD_err cfg htail hp' d₀ d1 _ herr]
        exact ⟨rfl, rfl⟩
      | ok y =>
        simp only [strip] at hrb
        simp only [C06.force_num]
        obtain ⟨r, hr1, hr2⟩ := binEval_spans cfg op node.off node.stop v y
        rw [hr1]
        cases r with
        | error z =>
          have herr : evalD cfg (.bin op acc b) d₀ = (.error (stripErr z), d1) := by
            rw [hacc']; simp only [C06.bind_apply, hb2, ← hrb, hr2]; rfl
          rw [foldF_evalD_err cfg htail hp' d₀ d1 _ herr]
          exact ⟨rfl, rfl⟩
        | ok w =>
          have hok : evalD cfg (.bin op acc b) d₀ = (.ok w, d1) := by
            rw [hacc']; simp only [C06.bind_apply, hb2, ← hrb, hr2]; rfl
          exact ihf hp' rest' F' w node d1 d₀ h3 (by omega) hok (by omega) hl

theorem evalOKF_all (cfg : Cfg) : ∀ f, EvalOKF cfg f := by
  intro f
  induction f using Nat.strong_induction_on with
  | _ f ih =>
    intro t e off d hsz hrep hl
    have hpos := size_pos t
    obtain ⟨F, rfl⟩ : ∃ F, f = F + 1 := ⟨f - 1, by omega⟩
    have ih' : ∀ g, g ≤ F → EvalOKF cfg g := fun g hg => ih g (by omega)
    cases hrep with
    | @num _ l hk hc hp ht =>
      simp only [eval, hk, ht, fromStr_lit l hl, evalD, value_percent_false l hp]
      exact ⟨rfl, rfl⟩
    | @pct id n ks l hk ht hp =>
      simp only [eval, At.kids, kids_node, kind_node, kidsAt, hk, ht, fromStr_lit l hl, evalD,
        value_percent_true l hp]
      exact ⟨by simp [pure, strip, plain], rfl⟩
    | @fact _ first more hk hc ht =>
      have hev : eval cfg (F + 1) ⟨off, t⟩ = lookup cfg ⟨off, t⟩ := by
        by_cases hm : more = []
        · simp only [hm, ↓reduceIte] at hk; simp only [eval, hk]
        · simp only [hm, ↓reduceIte] at hk; simp only [eval, hk]
      rw [hev]
      have := sim_lookup cfg ⟨off, t⟩ d
      simp only [ht] at this
      simpa only [evalD] using this
    | @paren id ks x e' hop hx =>
      have hL := at_opKids ⟨off, .node id .OPERATION ks⟩
      simp only [kids_node, hop] at hL
      obtain ⟨xa, hLeq, hxa⟩ := map_eq_one hL
      have hs1 := opKids_size_le ks
      simp only [hop, sizeList, size_node] at hs1 hsz
      obtain ⟨F', rfl⟩ : ∃ F', F = F' + 1 := ⟨F - 1, by omega⟩
      simp only [eval, kind_node, hLeq, opFold, C06.bind_apply, pure, force]
      have := ih' F' (by omega) x e' xa.off d (by omega) hx hl
      rw [← hxa, at_eta] at this
      simpa only [evalD] using this
    | @chain id ks x₀ rest0 e₀ _ p hop hne hx0 hp0 hfold0 =>
      obtain ⟨o, x₁, rest, rfl, hfold⟩ : ∃ o x₁ rest, rest0 = o :: x₁ :: rest ∧
          FoldF RepF p e₀ (o :: x₁ :: rest) e := by
        cases hfold0 with
        | nil => exact absurd rfl hne
        | cons h1 h2 h3 h4 => exact ⟨_, _, _, rfl, .cons h1 h2 h3 h4⟩
      have hL := at_opKids ⟨off, .node id .OPERATION ks⟩
      simp only [kids_node, hop] at hL
      obtain ⟨x0a, L1, hLeq, hx0a, hL1⟩ := map_eq_cons hL
      obtain ⟨oa, L2, rfl, hoa, hL2⟩ := map_eq_cons hL1
      obtain ⟨x1a, resta, rfl, hx1a, hresta⟩ := map_eq_cons hL2
      have hs1 := opKids_size_le ks
      simp only [hop, sizeList, size_node] at hs1 hsz
      have p0 := size_pos x₀
      have p1 := size_pos x₁
      have p2 := size_pos o
      obtain ⟨F', rfl⟩ : ∃ F', F = F' + 2 := ⟨F - 2, by omega⟩
      cases hfold with
      | @cons _ _ _ _ op b _ _ ho hopp hx1 htail =>
        have hlb := foldF_litsOK htail hl
        simp only [eval, kind_node, hLeq]
        rw [C06.bind_apply, opFold_step cfg (F' + 1) _ _ oa x1a resta op (hoa ▸ ho)]
        have h1 := ih' (F' + 1) (by omega) x₁ b x1a.off d (by omega) hx1 hlb.2
        rw [← hx1a, at_eta] at h1
        have hacc' : evalD cfg (.bin op e₀ b) =
            (evalD cfg b >>= fun vb => evalD cfg e₀ >>= fun va => binEval cfg op 0 0 va vb) :=
          evalD_bin_other cfg op e₀ b (by rw [hopp]; exact hp0)
        have hp' : (FExpr.bin op e₀ b).prio = p := hopp
        rw [C06.force_node]
        simp only [C06.bind_apply]
        rcases hb1 : eval cfg (F' + 1) x1a d with ⟨rb, d1⟩
        rcases hb2 : evalD cfg b d with ⟨rb', d1'⟩
        rw [hb1, hb2] at h1
        obtain ⟨hrb, hd1⟩ := h1
        simp only at hrb hd1
        subst hd1
        cases rb with
        | error y =>
          simp only [strip] at hrb
          have herr : evalD cfg (.bin op e₀ b) d = (.error (stripErr y), d1) := by
            rw [hacc']; simp only [C06.bind_apply, hb2, ← hrb]
          rw [foldF_evalD_err cfg htail hp' d d1 _ herr]
          exact ⟨rfl, rfl⟩
        | ok y =>
          simp only [strip] at hrb
          simp only
          have h0 := ih' F' (by omega) x₀ e₀ x0a.off d1 (by omega) hx0 hlb.1
          rw [← hx0a, at_eta] at h0
          rcases ha1 : eval cfg F' x0a d1 with ⟨ra, d2⟩
          rcases ha2 : evalD cfg e₀ d1 with ⟨ra', d2'⟩
          rw [ha1, ha2] at h0
          obtain ⟨hra, hd2⟩ := h0
          simp only at hra hd2
          subst hd2
          cases ra with
          | error y0 =>
            simp only [strip] at hra
            have herr : evalD cfg (.bin op e₀ b) d = (.error (stripErr y0), d2) := by
              rw [hacc']; simp only [C06.bind_apply, hb2, ← hrb, ha2, ← hra]
            rw [foldF_evalD_err cfg htail hp' d d2 _ herr]
            exact ⟨rfl, rfl⟩
          | ok v =>
            simp only [strip] at hra
            simp only
            obtain ⟨r, hr1, hr2⟩ := binEval_spans cfg op off
              (At.stop ⟨off, .node id .OPERATION ks⟩) v y
            rw [hr1]
            cases r with
            | error z =>
              have herr : evalD cfg (.bin op e₀ b) d = (.error (stripErr z), d2) := by
                rw [hacc']; simp only [C06.bind_apply, hb2, ← hrb, ha2, ← hra, hr2]; rfl
              rw [foldF_evalD_err cfg htail hp' d d2 _ herr]
              exact ⟨rfl, rfl⟩
            | ok w =>
              have hok : evalD cfg (.bin op e₀ b) d = (.ok w, d2) := by
                rw [hacc']; simp only [C06.bind_apply, hb2, ← hrb, ha2, ← hra, hr2]; rfl
              have hf := fold_sim cfg (F' + 2) ih' htail hp' resta (F' + 1) w
                ⟨off, .node id .OPERATION ks⟩ d2 d hresta (by omega) hok (by omega) hl
              simp only
              rcases hf1 : opFold cfg (F' + 1) ⟨off, .node id .OPERATION ks⟩ (.num w) resta d2
                with ⟨rf, d3⟩
              rcases hf2 : evalD cfg e d with ⟨rf', d3'⟩
              rw [hf1, hf2] at hf
              obtain ⟨hd3, hm⟩ := hf
              simp only at hd3 hm
              subst hd3
              cases rf with
              | error z =>
                cases rf' with
                | error z' => simp only at hm; subst hm; exact ⟨rfl, rfl⟩
                | ok u => simp at hm
              | ok dl =>
                cases dl with
                | node na => simp at hm
                | num u =>
                  cases rf' with
                  | error z' => simp at hm
                  | ok u' =>
                    simp only at hm
                    subst hm
                    simp only [C06.force_num]
                    exact ⟨rfl, rfl⟩

/-- **The evaluator on trees that represent a mixed expression.** -/
theorem eval_repF (cfg : Cfg) (t : Tree) (e : FExpr) (off fuel : Nat) (d : List Desc)
    (h : RepF t e) (hl : LitsOKF e) (hf : 2 * size t ≤ fuel) :
    Sim (eval cfg fuel ⟨off, t⟩ d) (evalD cfg e d) :=
  evalOKF_all cfg fuel t e off d hf h hl

/-! ### `evalD` = (`denote`, `logD`) -/

theorem arithV_run (cfg : Cfg) (op : BinOp) (a b : Numeric) (d : List Desc) :
    binEval cfg op 0 0 a b d = (arithV cfg op a b, d) := by
  obtain ⟨r, h1, _⟩ := binEval_spans cfg op 0 0 a b
  simp only [arithV, h1]

theorem lookupD_run (cfg : Cfg) (p : List Char) (d : List Desc) :
    lookupD cfg p d =
      (lookupV cfg.db p, d ++ if cfg.describe then lookupLog cfg.db p else []) := by
  unfold lookupD lookupV lookupLog
  cases cfg.db p with
  | error => cases cfg.describe <;> simp [Eval.err, EvalM.throw]
  | nothing => cases cfg.describe <;> simp [Eval.err, EvalM.throw]
  | found c => cases cfg.describe <;> simp [C06.bind_apply, EvalM.log, pure]

/-- The specification's run: value `denote`, log `logD` appended when describing. -/
theorem evalD_run (cfg : Cfg) : ∀ (e : FExpr) (d : List Desc),
    evalD cfg e d = (denote cfg e, d ++ if cfg.describe then logD cfg e else [])
  | .lit l, d => by simp [evalD, denote, logD, pure]
  | .fact f m, d => by simp only [evalD, denote, logD, lookupD_run]
  | .paren e, d => by simp only [evalD, denote, logD, evalD_run cfg e d]
  | .bin op a b, d => by
    by_cases hp : a.prio = op.prio
    · rw [evalD_bin_same cfg op a b hp]
      simp only [denote, logD, hp, ↓reduceIte, C06.bind_apply, evalD_run cfg a d]
      cases ha : denote cfg a with
      | error x => cases cfg.describe <;> simp
      | ok va =>
        simp only [evalD_run cfg b]
        cases hb : denote cfg b with
        | error x => cases cfg.describe <;> simp
        | ok vb =>
          simp only [arithV_run]
          cases cfg.describe <;> simp
    · rw [evalD_bin_other cfg op a b hp]
      simp only [denote, logD, hp, ↓reduceIte, C06.bind_apply, evalD_run cfg b d]
      cases hb : denote cfg b with
      | error x => cases cfg.describe <;> simp
      | ok vb =>
        simp only [evalD_run cfg a]
        cases ha : denote cfg a with
        | error x => cases cfg.describe <;> simp
        | ok va =>
          simp only [arithV_run]
          cases cfg.describe <;> simp

/-- The denotation does not depend on `describe`. -/
theorem denote_describe (cfg : Cfg) (b : Bool) : ∀ e : FExpr,
    denote { cfg with describe := b } e = denote cfg e
  | .lit _ => rfl
  | .fact _ _ => rfl
  | .paren e => by simp only [denote, denote_describe cfg b e]
  | .bin op x y => by
    simp only [denote, denote_describe cfg b x, denote_describe cfg b y]
    rfl

theorem logD_describe (cfg : Cfg) (b : Bool) : ∀ e : FExpr,
    logD { cfg with describe := b } e = logD cfg e
  | .lit _ => rfl
  | .fact _ _ => rfl
  | .paren e => by simp only [logD, logD_describe cfg b e]
  | .bin op x y => by
    simp only [logD, logD_describe cfg b x, logD_describe cfg b y, denote_describe cfg b x,
      denote_describe cfg b y]

/-- Every reported entry is a fact of the database under its phrase. -/
theorem logD_sound (cfg : Cfg) : ∀ e : FExpr, ∀ x ∈ logD cfg e,
    ∃ c, cfg.db x.phrase = .found c ∧ x.description = c.description
  | .lit _, x, hx => by simp [logD] at hx
  | .fact f m, x, hx => by
    simp only [logD, lookupLog] at hx
    split at hx
    · rename_i c hc
      simp only [List.mem_singleton] at hx
      subst hx
      exact ⟨c, hc, rfl⟩
    · simp at hx
  | .paren e, x, hx => logD_sound cfg e x (by simpa [logD] using hx)
  | .bin op a b, x, hx => by
    simp only [logD] at hx
    split at hx
    · rcases List.mem_append.mp hx with h | h
      · exact logD_sound cfg a x h
      · split at h
        · exact logD_sound cfg b x h
        · simp at h
    · rcases List.mem_append.mp hx with h | h
      · exact logD_sound cfg b x h
      · split at h
        · exact logD_sound cfg a x h
        · simp at h

/-- On success every phrase of the expression was found, and the log lists them all in
evaluation order. -/
theorem logD_success (cfg : Cfg) : ∀ (e : FExpr) (v : Numeric), denote cfg e = .ok v →
    (∀ p ∈ order e, ∃ c, cfg.db p = .found c) ∧
    logD cfg e = (order e).flatMap (lookupLog cfg.db)
  | .lit _, _, _ => by simp [order, logD]
  | .fact f m, v, h => by
    simp only [denote, lookupV] at h
    simp only [order, logD, List.mem_singleton, forall_eq, List.flatMap_cons, List.flatMap_nil,
      List.append_nil, and_true]
    split at h
    · cases h
    · cases h
    · rename_i c hc; exact ⟨c, hc⟩
  | .paren e, v, h => by
    simp only [denote] at h
    simpa only [order, logD] using logD_success cfg e v h
  | .bin op a b, v, h => by
    simp only [denote] at h
    split at h
    · rename_i hp
      cases ha : denote cfg a with
      | error x => rw [ha] at h; cases h
      | ok va =>
        rw [ha] at h
        simp only at h
        cases hb : denote cfg b with
        | error x => rw [hb] at h; cases h
        | ok vb =>
          obtain ⟨a1, a2⟩ := logD_success cfg a va ha
          obtain ⟨b1, b2⟩ := logD_success cfg b vb hb
          simp only [order, logD, hp, ↓reduceIte, ha, a2, b2, List.flatMap_append]
          refine ⟨fun q hq => ?_, trivial⟩
          rcases List.mem_append.mp hq with h' | h'
          · exact a1 q h'
          · exact b1 q h'
    · rename_i hp
      cases hb : denote cfg b with
      | error x => rw [hb] at h; cases h
      | ok vb =>
        rw [hb] at h
        simp only at h
        cases ha : denote cfg a with
        | error x => rw [ha] at h; cases h
        | ok va =>
          obtain ⟨a1, a2⟩ := logD_success cfg a va ha
          obtain ⟨b1, b2⟩ := logD_success cfg b vb hb
          simp only [order, logD, hp, ↓reduceIte, hb, a2, b2, List.flatMap_append]
          refine ⟨fun q hq => ?_, trivial⟩
          rcases List.mem_append.mp hq with h' | h'
          · exact b1 q h'
          · exact a1 q h'

/-! ### Plain numbers: the denotation is exact rational arithmetic -/

/-- The value of an expression all of whose looked-up constants are plain numbers (empty unit),
by the independent specification `Spec.Arith.applyBin` (exact rational arithmetic); `none` when a
phrase is unknown or carries a unit, or an operation is undefined. -/
def plainVal (db : Db) : FExpr → Option Rat
  | .lit l => some (value l)
  | .fact first more =>
    match db (phraseText first more) with
    | .found c => if c.unit = [] then some c.value else none
    | _ => none
  | .paren e => plainVal db e
  | .bin op a b =>
    match plainVal db a, plainVal db b with
    | some x, some y => (applyBin op x y).toOption
    | _, _ => none

theorem arithV_plain (cfg : Cfg) (op : BinOp) (x y v : Rat) (h : applyBin op x y = .ok v) :
    arithV cfg op (plain x) (plain y) = .ok (plain v) := by
  have := bin_outcome cfg op 0 0 x y []
  rw [h] at this
  simp only [Outcome] at this
  simp only [arithV, this]

theorem denote_plain (cfg : Cfg) : ∀ (e : FExpr) (v : Rat), plainVal cfg.db e = some v →
    denote cfg e = .ok (plain v)
  | .lit l, v, h => by
    simp only [plainVal, Option.some.injEq] at h
    simp only [denote, h]
  | .fact f m, v, h => by
    simp only [plainVal] at h
    simp only [denote, lookupV]
    split at h
    · rename_i c hc
      split at h
      · rename_i hu
        simp only [Option.some.injEq] at h
        rw [hc]
        simp only [plain, ← h, ← hu]
      · cases h
    · cases h
  | .paren e, v, h => by
    simp only [plainVal] at h
    simp only [denote, denote_plain cfg e v h]
  | .bin op a b, v, h => by
    simp only [plainVal] at h
    split at h
    · rename_i x y hx hy
      have ha := denote_plain cfg a x hx
      have hb := denote_plain cfg b y hy
      cases hap : applyBin op x y with
      | error z => rw [hap] at h; cases h
      | ok w =>
        rw [hap] at h
        simp only [Except.toOption, Option.some.injEq] at h
        subst h
        simp only [denote, ha, hb, arithV_plain cfg op x y w hap]
        split <;> rfl
    · cases h

end Anything.FQ
