import Anything.Lemmas.C9QTemp
/-!
# C09 end to end — an offset scale anywhere but alone with power one is refused

* `OffsetMisused sem`: in the written unit expression (resolved factors `sem`) some offset scale
  has a total power that is not zero, and it does not stand alone with power one — its total power
  is not one, or another unit has a non-zero total power;
* `badOffset_of_misused`: then the compound `unitOf u` contains an offset scale that is
  `NotAlone` in the sense of `Props/C09`;
* `castQ_refused`, `addQ_refused`, `mulDivQ_refused`: the reference operations refuse
  (`C09_refuse_source`, `C09_refuse_target`, `C09_mul_refused`).
-/

namespace Anything.C9Q
open Anything Anything.Eval Anything.Spec Anything.Spec.Arith Anything.Spec.Decimal
open Anything.Spec.Quantity Anything.Spec.SI Anything.C06 Anything.QQ Anything.Props.C09

/-! ### Compounds -/

/-- The compound contains an offset scale anywhere but alone with power one. -/
def BadOffset (T : Compound) : Prop := ∃ e ∈ T, IsOffsetScale e.1 ∧ NotAlone T e

/-- The compound contains an offset scale. -/
def HasOffset (T : Compound) : Prop := ∃ e ∈ T, IsOffsetScale e.1

theorem castQ_refused (T : Compound) (r : Numeric) (hT : T ≠ []) (hr : r.unit ≠ [])
    (h : BadOffset r.unit ∨ BadOffset T) : castQ T r = none := by
  have : Compound.factor T r.unit r.value = .ok none ∨
      Compound.factor T r.unit r.value = .error .conversion := by
    rcases h with ⟨e, he, ho, hn⟩ | ⟨e, he, ho, hn⟩
    · exact C09_refuse_source T r.unit r.value hT hr e he ho hn
    · exact C09_refuse_target T r.unit r.value hT hr e he ho hn
  unfold castQ
  rcases this with h | h <;> rw [h]

theorem addQ_refused (a b : Numeric) (sub : Bool) (ha : a.unit ≠ []) (hb : b.unit ≠ [])
    (h : BadOffset a.unit ∨ BadOffset b.unit) : addQ a b sub = none := by
  have : Compound.factor a.unit b.unit b.value = .ok none ∨
      Compound.factor a.unit b.unit b.value = .error .conversion := by
    rcases h with ⟨e, he, ho, hn⟩ | ⟨e, he, ho, hn⟩
    · exact C09_refuse_target a.unit b.unit b.value ha hb e he ho hn
    · exact C09_refuse_source a.unit b.unit b.value ha hb e he ho hn
  unfold addQ
  rcases this with h | h <;> rw [h]

theorem mulDivQ_refused (cfg : Cfg) (a b : Numeric) (div : Bool) (ha : a.unit ≠ [])
    (hb : b.unit ≠ []) (h : HasOffset a.unit ∨ HasOffset b.unit) : mulDivQ cfg a b div = none := by
  have : ∃ e, (e ∈ a.unit ∨ e ∈ b.unit) ∧ IsOffsetScale e.1 := by
    rcases h with ⟨e, he, ho⟩ | ⟨e, he, ho⟩
    · exact ⟨e, Or.inl he, ho⟩
    · exact ⟨e, Or.inr he, ho⟩
  obtain ⟨e, he, ho⟩ := this
  unfold mulDivQ
  rw [C09_mul_refused cfg.debug a.unit b.unit _ a.value b.value ha hb e he ho]

/-! ### Written unit expressions -/

/-- Some offset scale has a non-zero total power and does not stand alone with power one. -/
def OffsetMisused (sem : UnitSem) : Prop :=
  ∃ k, isAffine k = true ∧ P sem k ≠ 0 ∧ (P sem k ≠ 1 ∨ ∃ k', k' ≠ k ∧ P sem k' ≠ 0)

/-- Some offset scale has a non-zero total power. -/
def OffsetPresent (sem : UnitSem) : Prop := ∃ k, isAffine k = true ∧ P sem k ≠ 0

/-- Not everything cancels: the unit is not the empty unit (which the tool reads as "no unit"). -/
def NonEmptyUnit (sem : UnitSem) : Prop := ∃ k, P sem k ≠ 0

/-- Every factor is read by the tool, and no unit is written with two different prefixes. -/
def UnitRead (u : List RTerm) : Prop := (∀ t ∈ u, WordOK t) ∧ Coherent (u.map rs)

theorem offsetMisused_present {sem : UnitSem} (h : OffsetMisused sem) : OffsetPresent sem := by
  obtain ⟨k, h1, h2, _⟩ := h; exact ⟨k, h1, h2⟩

theorem offsetPresent_nonEmpty {sem : UnitSem} (h : OffsetPresent sem) : NonEmptyUnit sem := by
  obtain ⟨k, _, h2⟩ := h; exact ⟨k, h2⟩

/-- The specification's "offset scale" is the model's "not a pure factor". -/
theorem isOffsetScale_of_affine {k : UnitKey} (h : isAffine k = true) : IsOffsetScale k := by
  unfold IsOffsetScale
  cases k with
  | base b => simp [SI.isAffine, SI.scaleOf] at h
  | derived id =>
    simp only [SI.isAffine, SI.scaleOf, isProp, Units.conversion, SI.findUnit, Units.find?] at h ⊢
    cases hf : Generated.units.find? (fun u => u.id == id) with
    | none => rw [hf] at h; simp at h
    | some d =>
      rw [hf] at h
      cases hc : d.conv <;> simp [hc] at h ⊢

theorem unitRuns_of_read {u : List RTerm} (h : UnitRead u) : UnitRuns u := unitRuns_of u h.1 h.2

theorem unitOf_ne_nil {u : List RTerm} {T : Compound} (hu : UnitRead u) (hT : unitOf u = some T)
    (hne : NonEmptyUnit (u.map rs)) : T ≠ [] := by
  obtain ⟨T', hT', _, hg⟩ := unitOf_entries u hu.1 hu.2
  rw [hT] at hT'
  cases hT'
  obtain ⟨k, hk⟩ := hne
  intro hnil
  have := hg k
  rw [hnil] at this
  simp [AMap.get?, hk] at this

theorem hasOffset_of_present {u : List RTerm} {T : Compound} (hu : UnitRead u)
    (hT : unitOf u = some T) (h : OffsetPresent (u.map rs)) : HasOffset T := by
  obtain ⟨T', hT', _, hg⟩ := unitOf_entries u hu.1 hu.2
  rw [hT] at hT'
  cases hT'
  obtain ⟨k, hk1, hk2⟩ := h
  have hk := hg k
  rw [if_neg hk2] at hk
  exact ⟨_, AMap.mem_of_get? hk, isOffsetScale_of_affine hk1⟩

theorem badOffset_of_misused {u : List RTerm} {T : Compound} (hu : UnitRead u)
    (hT : unitOf u = some T) (h : OffsetMisused (u.map rs)) : BadOffset T := by
  obtain ⟨T', hT', _, hg⟩ := unitOf_entries u hu.1 hu.2
  rw [hT] at hT'
  cases hT'
  obtain ⟨k, hk1, hk2, hk3⟩ := h
  have hk := hg k
  rw [if_neg hk2] at hk
  refine ⟨_, AMap.mem_of_get? hk, isOffsetScale_of_affine hk1, ?_⟩
  rintro ⟨hlen, hpow⟩
  rcases hk3 with h1 | ⟨k', hne, hk'⟩
  · exact h1 hpow
  · have hk'' := hg k'
    rw [if_neg hk'] at hk''
    have m1 := AMap.mem_of_get? hk
    have m2 := AMap.mem_of_get? hk''
    match T, hlen with
    | [x], _ =>
      simp only [List.mem_singleton] at m1 m2
      rw [← m1] at m2
      exact hne (congrArg Prod.fst m2)

/-! ### Reference evaluation of the refused shapes -/

theorem evQ_qty (cfg : Cfg) (l : Literal) {u : List RTerm} {T : Compound} (hT : unitOf u = some T) :
    evQ cfg (.qty l u) = some { value := value l, unit := T } := by
  simp [evQ, hT]

/-- `x u₁ to u₂` with an offset scale misused in `u₁` or in `u₂`. -/
theorem evQ_cast_refused (cfg : Cfg) (l : Literal) (u₁ u₂ : List RTerm) (h₁ : UnitRead u₁)
    (h₂ : UnitRead u₂) (n₁ : NonEmptyUnit (u₁.map rs)) (n₂ : NonEmptyUnit (u₂.map rs))
    (h : OffsetMisused (u₁.map rs) ∨ OffsetMisused (u₂.map rs)) :
    evQ cfg (.cast (.qty l u₁) u₂) = none := by
  obtain ⟨T₁, hT₁⟩ := (unitRuns_of_read h₁).2
  obtain ⟨T₂, hT₂⟩ := (unitRuns_of_read h₂).2
  simp only [evQ, hT₁, hT₂, Option.map_some]
  apply castQ_refused T₂ _ (unitOf_ne_nil h₂ hT₂ n₂) (unitOf_ne_nil h₁ hT₁ n₁)
  rcases h with h | h
  · exact Or.inl (badOffset_of_misused h₁ hT₁ h)
  · exact Or.inr (badOffset_of_misused h₂ hT₂ h)

/-- `x u₁ ± y u₂` with an offset scale misused in `u₁` or in `u₂`. -/
theorem evQ_addsub_refused (cfg : Cfg) (op : BinOp) (hop : op = .add ∨ op = .sub) (l₁ l₂ : Literal)
    (u₁ u₂ : List RTerm) (h₁ : UnitRead u₁) (h₂ : UnitRead u₂) (n₁ : NonEmptyUnit (u₁.map rs))
    (n₂ : NonEmptyUnit (u₂.map rs)) (h : OffsetMisused (u₁.map rs) ∨ OffsetMisused (u₂.map rs)) :
    evQ cfg (.bin op (.qty l₁ u₁) (.qty l₂ u₂)) = none := by
  obtain ⟨T₁, hT₁⟩ := (unitRuns_of_read h₁).2
  obtain ⟨T₂, hT₂⟩ := (unitRuns_of_read h₂).2
  have key : ∀ sub, addQ { value := value l₁, unit := T₁ } { value := value l₂, unit := T₂ } sub = none := by
    intro sub
    apply addQ_refused _ _ sub (unitOf_ne_nil h₁ hT₁ n₁) (unitOf_ne_nil h₂ hT₂ n₂)
    rcases h with h | h
    · exact Or.inl (badOffset_of_misused h₁ hT₁ h)
    · exact Or.inr (badOffset_of_misused h₂ hT₂ h)
  simp only [evQ, hT₁, hT₂, Option.map_some]
  rcases hop with rfl | rfl <;> exact key _

/-- `x u₁ * y u₂`, `x u₁ / y u₂` with an offset scale in `u₁` or in `u₂` (even alone). -/
theorem evQ_muldiv_refused (cfg : Cfg) (op : BinOp) (hop : op = .mul ∨ op = .div) (l₁ l₂ : Literal)
    (u₁ u₂ : List RTerm) (h₁ : UnitRead u₁) (h₂ : UnitRead u₂) (n₁ : NonEmptyUnit (u₁.map rs))
    (n₂ : NonEmptyUnit (u₂.map rs)) (h : OffsetPresent (u₁.map rs) ∨ OffsetPresent (u₂.map rs)) :
    evQ cfg (.bin op (.qty l₁ u₁) (.qty l₂ u₂)) = none := by
  obtain ⟨T₁, hT₁⟩ := (unitRuns_of_read h₁).2
  obtain ⟨T₂, hT₂⟩ := (unitRuns_of_read h₂).2
  have key : ∀ div, mulDivQ cfg { value := value l₁, unit := T₁ } { value := value l₂, unit := T₂ } div =
      none := by
    intro div
    apply mulDivQ_refused cfg _ _ div (unitOf_ne_nil h₁ hT₁ n₁) (unitOf_ne_nil h₂ hT₂ n₂)
    rcases h with h | h
    · exact Or.inl (hasOffset_of_present h₁ hT₁ h)
    · exact Or.inr (hasOffset_of_present h₂ hT₂ h)
  simp only [evQ, hT₁, hT₂, Option.map_some]
  rcases hop with rfl | rfl <;> exact key _

/-! ### Executable checks (for concrete examples) -/

instance (sem : UnitSem) (k : UnitKey) : Decidable (P sem k ≠ 0) := inferInstance

/-- Executable form of `UnitRead`. -/
theorem unitRead_of_check {u : List RTerm} (h : runsCheck u = true) : UnitRead u := by
  simp only [runsCheck, Bool.and_eq_true, List.all_eq_true, decide_eq_true_eq] at h
  exact ⟨fun t ht => wordOK_of_check (h.1 t ht), h.2⟩

/-- Executable sufficient condition for `OffsetMisused`: witnesses among the written factors. -/
def misusedCheck (sem : UnitSem) : Bool :=
  sem.any fun t => isAffine t.key && decide (P sem t.key ≠ 0) &&
    (decide (P sem t.key ≠ 1) || sem.any fun t' => decide (t'.key ≠ t.key) && decide (P sem t'.key ≠ 0))

theorem misused_of_check {sem : UnitSem} (h : misusedCheck sem = true) : OffsetMisused sem := by
  simp only [misusedCheck, List.any_eq_true, Bool.and_eq_true, Bool.or_eq_true,
    decide_eq_true_eq] at h
  obtain ⟨t, _, ⟨h1, h2⟩, h3⟩ := h
  refine ⟨t.key, h1, h2, ?_⟩
  rcases h3 with h3 | ⟨t', _, h4, h5⟩
  · exact Or.inl h3
  · exact Or.inr ⟨t'.key, h4, h5⟩

def presentCheck (sem : UnitSem) : Bool :=
  sem.any fun t => isAffine t.key && decide (P sem t.key ≠ 0)

theorem present_of_check {sem : UnitSem} (h : presentCheck sem = true) : OffsetPresent sem := by
  simp only [presentCheck, List.any_eq_true, Bool.and_eq_true, decide_eq_true_eq] at h
  obtain ⟨t, _, h1, h2⟩ := h
  exact ⟨t.key, h1, h2⟩

def nonEmptyCheck (sem : UnitSem) : Bool := sem.any fun t => decide (P sem t.key ≠ 0)

theorem nonEmpty_of_check {sem : UnitSem} (h : nonEmptyCheck sem = true) : NonEmptyUnit sem := by
  simp only [nonEmptyCheck, List.any_eq_true, decide_eq_true_eq] at h
  obtain ⟨t, _, h1⟩ := h
  exact ⟨t.key, h1⟩

end Anything.C9Q
