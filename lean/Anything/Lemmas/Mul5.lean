import Anything.Lemmas.Mul4
/-!
# `Compound::mul` yields a compound of proportional units again
-/

namespace Anything
open AMap Powers Spec

theorem isProp_base (b : Base) : isProp (.base b) = true := by simp [isProp, Units.conversion]

theorem prop_insert {nm : Compound} (h : Proportional nm) (k : UnitKey) (st : State) (hk : isProp k = true) :
    Proportional (AMap.insert nm k st) := by
  intro e he
  rcases AMap.mem_insert he with he | he
  · subst he; exact hk
  · exact h e he

theorem prop_erase {nm : Compound} (h : Proportional nm) (k : UnitKey) : Proportional (AMap.erase nm k) :=
  fun e he => h e (AMap.mem_erase he)

theorem prop_bump {nm : Compound} (h : Proportional nm) (k : UnitKey) (δ : Int) (hk : isProp k = true) :
    Proportional (bump nm k δ) := by
  unfold bump
  split
  · exact prop_insert h _ _ hk
  · simp only
    split
    · exact prop_erase h _
    · exact prop_insert h _ _ hk

theorem prop_names0 (l : Powers) (hb : ∀ e ∈ l, ∃ b, e.1 = .base b) :
    ∀ acc : Compound, Proportional acc →
      Proportional (l.foldl (fun nm (e : UnitKey × Int) => AMap.insert nm e.1 { power := e.2, pfx := 0 }) acc) := by
  induction l with
  | nil => intro acc h; exact h
  | cons a rest ih =>
    intro acc h
    simp only [List.foldl_cons]
    obtain ⟨b, hbk⟩ := hb a (by simp)
    exact ih (fun e he => hb e (List.mem_cons_of_mem _ he)) _ (prop_insert h _ _ (by rw [hbk]; exact isProp_base b))

theorem prop_bump_fold (l : Powers) (f : Int → Int) (hb : ∀ e ∈ l, ∃ b, e.1 = .base b) :
    ∀ acc : Compound, Proportional acc →
      Proportional (l.foldl (fun nm (e : UnitKey × Int) => bump nm e.1 (f e.2)) acc) := by
  induction l with
  | nil => intro acc h; exact h
  | cons a rest ih =>
    intro acc h
    simp only [List.foldl_cons]
    obtain ⟨b, hbk⟩ := hb a (by simp)
    exact ih (fun e he => hb e (List.mem_cons_of_mem _ he)) _ (prop_bump h _ _ (by rw [hbk]; exact isProp_base b))

theorem prop_baseUpd (modPower : Int) {nm : Compound} (h : Proportional nm) (e : UnitKey × Int)
    (hb : ∃ b, e.1 = .base b) : Proportional (baseUpd modPower nm e) := by
  unfold baseUpd
  obtain ⟨b, hbk⟩ := hb
  split
  · exact h
  · simp only
    split
    · exact prop_erase h _
    · exact prop_insert h _ _ (by rw [hbk]; exact isProp_base b)

theorem prop_baseUpd_fold (modPower : Int) (l : Powers) (hb : ∀ e ∈ l, ∃ b, e.1 = .base b) :
    ∀ acc : Compound, Proportional acc → Proportional (l.foldl (baseUpd modPower) acc) := by
  induction l with
  | nil => intro acc h; exact h
  | cons a rest ih =>
    intro acc h
    simp only [List.foldl_cons]
    exact ih (fun e he => hb e (List.mem_cons_of_mem _ he)) _ (prop_baseUpd modPower h a (hb a (by simp)))

theorem prop_derUpd {nm : Compound} (h : Proportional nm) (unit : UnitKey) (m : Int) (hk : isProp unit = true) :
    Proportional (derUpd nm unit m) := by
  unfold derUpd
  split <;> exact prop_insert h _ _ hk

theorem prop_reconstructStep (acc acc' : Rat × Compound) (d : UnitKey × Int × Int)
    (hprop : isProp d.1 = true) (h : Proportional acc.2)
    (hstep : Compound.reconstructStep acc d = .ok acc') : Proportional acc'.2 := by
  obtain ⟨out, names⟩ := acc
  obtain ⟨unit, power, n⟩ := d
  obtain ⟨hc, hpw, hbase⟩ := unit_powers_spec unit
  unfold Compound.reconstructStep at hstep
  simp only at hstep
  split at hstep
  · simp only [Except.ok.injEq] at hstep; rw [← hstep]; exact h
  · split at hstep
    · simp only [Except.ok.injEq] at hstep; rw [← hstep]; exact h
    · rename_i modPower _
      split at hstep
      · simp at hstep
      · simp only [Except.ok.injEq] at hstep
        rw [← hstep]
        exact prop_derUpd (prop_baseUpd_fold modPower _ hbase names h) unit modPower hprop

theorem prop_reconstruct (der : List (UnitKey × Int × Int)) (hprop : ∀ d ∈ der, isProp d.1 = true) :
    ∀ (acc acc' : Rat × Compound), Proportional acc.2 →
      Compound.reconstruct der acc.1 acc.2 = .ok acc' → Proportional acc'.2 := by
  unfold Compound.reconstruct
  induction der with
  | nil =>
    intro acc acc' h hr
    simp only [List.foldlM_nil, pure, Except.pure, Except.ok.injEq] at hr
    rw [← hr]; exact h
  | cons d rest ih =>
    intro acc acc' h hr
    rw [List.foldlM_cons] at hr
    cases hs : Compound.reconstructStep (acc.1, acc.2) d with
    | error e => rw [hs] at hr; simp [bind, Except.bind] at hr
    | ok acc1 =>
      rw [hs] at hr
      have h1 := prop_reconstructStep (acc.1, acc.2) acc1 d (hprop d (by simp)) h hs
      exact ih (fun x hx => hprop x (List.mem_cons_of_mem _ hx)) acc1 acc' h1 hr

/-- The unit produced by `Compound::mul` from proportional units is proportional. -/
theorem mul_prop (debug : Bool) (a b : Compound) (n : Int) (lhs rhs : Rat)
    (pa : Proportional a) (pb : Proportional b) (res : Compound × Rat × Rat)
    (h : Compound.mul debug a b n lhs rhs = .ok res) : Proportional res.1 := by
  cases a with
  | nil =>
    simp only [Compound.mul, List.isEmpty_nil, Bool.true_or, ↓reduceIte, Except.ok.injEq] at h
    rw [← h]
    intro e he
    simp only [List.mem_filter, List.mem_map] at he
    obtain ⟨⟨x, hx, rfl⟩, _⟩ := he
    exact pb x hx
  | cons a0 as =>
    cases b with
    | nil =>
      simp only [Compound.mul, List.isEmpty_cons, List.isEmpty_nil, Bool.or_true, ↓reduceIte,
        Bool.false_eq_true, Except.ok.injEq] at h
      rw [← h]; exact pa
    | cons b0 bs =>
      rw [mul_unfold debug _ _ n lhs rhs rfl rfl] at h
      rw [scaleIn_prop false _ pa, scaleIn_prop false _ pb] at h
      simp only at h
      obtain ⟨ca, _⟩ := baseUnits_spec (a0 :: as)
      have hprop : ∀ d ∈ ((Compound.baseUnits (a0 :: as)).1.map (fun e => (e.1, e.2, (1 : Int))) ++
          (Compound.baseUnits (b0 :: bs)).1.map (fun e => (e.1, e.2, n))), isProp d.1 = true := by
        intro d hd
        rcases List.mem_append.mp hd with hd | hd
        · simp only [List.mem_map] at hd
          obtain ⟨x, hx, rfl⟩ := hd
          obtain ⟨e, he, h⟩ := baseUnits_der_mem _ x hx
          simp only; rw [h]; exact pa e he
        · simp only [List.mem_map] at hd
          obtain ⟨x, hx, rfl⟩ := hd
          obtain ⟨e, he, h⟩ := baseUnits_der_mem _ x hx
          simp only; rw [h]; exact pb e he
      have p0 : Proportional (names0 (Compound.baseUnits (a0 :: as)).2) :=
        prop_names0 _ (baseUnits_keys_base _) [] (fun _ h => by simp at h)
      have p1 : Proportional (names1 (Compound.baseUnits (b0 :: bs)).2 n (names0 (Compound.baseUnits (a0 :: as)).2)) := by
        rw [names1_eq_bump]
        exact prop_bump_fold _ (fun x => x * n) (baseUnits_keys_base _) _ p0
      split at h
      · simp at h
      · rename_i lhs'' names' hrec
        have := prop_reconstruct _ hprop (_, _) (lhs'', names') p1 hrec
        split at h
        · simp at h
        · simp only [Except.ok.injEq] at h
          rw [← h]; exact this

end Anything
