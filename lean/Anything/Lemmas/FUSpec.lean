import Anything.Lemmas.FUSpecUnits
import Anything.Lemmas.UQCallEval
/-!
# The full expression language — the reference evaluation against the specification

`valF_spec`: for every expression in scope (`UnitsOKF cfg`, `DeterminateF`) the value `valF cfg e`
of the reference evaluation agrees with the specification's `denoteF e` (`OutcomeF`): a value
with `AgreeF`, an `err` when the specification has none, `badArgument` only with `PowRiskF`.
Induction on the expression; the steps are the operation-level lemmas of `Lemmas/QQEval.lean`
(`bin_step`, `cast_step`), of `Props/C10` (the builtins), and of `Props/C09` /
`Lemmas/FUSpecUnits.lean` (temperature conversions).
-/

namespace Anything.FU
open Anything Anything.Eval Anything.Spec Anything.Spec.Arith Anything.Spec.Decimal
open Anything.Spec.Quantity Anything.Spec.SI Anything.C06 Anything.QQ Anything.C9Q Anything.UQ
open Anything.Props.C09 Anything.Props.C04 Anything.FQ

/-- An error of kind `k` is an acceptable answer for `e`. -/
def BadOKF (e : FExprU) (k : ErrKind) : Prop :=
  (∃ x, denoteF e = .error x) ∨ (PowRiskF e ∧ k = .badArgument)

theorem outcomeF_iff (e : FExprU) (r : Except EvalErr Numeric) :
    OutcomeF e r ↔
      (∃ v x, denoteF e = .ok v ∧ r = .ok x ∧ AgreeF x v ∧ PowBoundedF x e) ∨
      (∃ k s t, r = .error (.err k s t) ∧ BadOKF e k) := by
  unfold OutcomeF BadOKF
  cases hd : denoteF e with
  | ok v =>
    constructor
    · rintro (⟨x, hr, ha⟩ | ⟨hp, s, t, hr⟩)
      · exact Or.inl ⟨v, x, rfl, hr, ha⟩
      · exact Or.inr ⟨_, s, t, hr, Or.inr ⟨hp, rfl⟩⟩
    · rintro (⟨v', x, hv, hr, ha⟩ | ⟨k, s, t, hr, hb⟩)
      · cases hv; exact Or.inl ⟨x, hr, ha⟩
      · rcases hb with ⟨x, hx⟩ | ⟨hp, rfl⟩
        · cases hx
        · exact Or.inr ⟨hp, s, t, hr⟩
  | error x =>
    constructor
    · rintro ⟨k, s, t, hr⟩
      exact Or.inr ⟨k, s, t, hr, Or.inl ⟨x, rfl⟩⟩
    · rintro (⟨v', r, hv, _⟩ | ⟨k, s, t, hr, _⟩)
      · cases hv
      · exact ⟨k, s, t, hr⟩

theorem badOKF_binL {op : BinOp} {a b : FExprU} {k : ErrKind} (h : BadOKF a k) :
    BadOKF (.bin op a b) k := by
  rcases h with ⟨x, hx⟩ | ⟨hp, hk⟩
  · left; rw [denoteF_bin, hx]; exact ⟨_, rfl⟩
  · right; exact ⟨Or.inl hp, hk⟩

theorem badOKF_binR {op : BinOp} {a b : FExprU} {k : ErrKind} (h : BadOKF b k) :
    BadOKF (.bin op a b) k := by
  rcases h with ⟨x, hx⟩ | ⟨hp, hk⟩
  · left; rw [denoteF_bin, hx]
    cases denoteF a <;> exact ⟨_, rfl⟩
  · right; exact ⟨Or.inr (Or.inl hp), hk⟩

theorem badOKF_cast {a : FExprU} {u : List RTerm} {k : ErrKind} (h : BadOKF a k) :
    BadOKF (.cast a u) k := by
  rcases h with ⟨x, hx⟩ | ⟨hp, hk⟩
  · left; rw [denoteF_cast, hx]; exact ⟨_, rfl⟩
  · right; exact ⟨hp, hk⟩

theorem badOKF_call {f : Fn} {a : FExprU} {prec : Option Literal} {k : ErrKind}
    (h : BadOKF a k) : BadOKF (.call f a prec) k := by
  rcases h with ⟨x, hx⟩ | ⟨hp, hk⟩
  · left; rw [denoteF_call, hx]; exact ⟨_, rfl⟩
  · right; exact ⟨hp, hk⟩

/-! ### `AgreeF` -/

theorem agreeT_K {r : Numeric} {v : Val} {p : Int} (hu : r.unit = Props.C09.cmp .K p)
    (hv : v.unit = some [⟨p, key .K, 1⟩]) (hq : v.q = ⟨toK .K (r.value * (10 : Rat) ^ p), dimK⟩)
    (hp : v.plain = false) : Agree r v := by
  have hsem : semOf r.unit = [⟨p, key .K, 1⟩] := by rw [hu]; rfl
  have hsc : SI.scale ([⟨p, key .K, 1⟩] : UnitSem) = (10 : Rat) ^ p := by
    simp [SI.scale, linFactor, scaleOf_K, arith_zpow_eq]
  refine ⟨?_, fun h => (by rw [hp] at h; cases h), ?_, ?_, ?_⟩
  · rw [hq]
    simp only [siQ, hsem, dims_scale, hsc, toK]
  · intro sem h
    rw [hv] at h
    cases h
    refine ⟨⟨by rw [hsem], by rw [hsem]⟩, ?_⟩
    rw [proportional_scale]; rfl
  · intro e he
    rw [hu] at he
    have : e = (key .K, { power := 1, pfx := p }) := by simpa [Props.C09.cmp] using he
    subst this
    rfl
  · rw [hu]; exact allKnown_cmp .K p

/-- Under `NoOffset` the two readings coincide. -/
theorem agreeF_noOffset {r : Numeric} {v : Val} (h : AgreeF r v) (hn : NoOffset v) : Agree r v := by
  rcases h with h | ⟨s, p, hu, hv, hq, hp⟩
  · exact h
  · have := hn _ hv
    rw [proportional_scale] at this
    have hs : s = .K := by simpa using this
    subst hs
    exact agreeT_K hu hv hq hp

theorem agree_num (x : Rat) :
    Agree (plain x) { q := ⟨x, DimVec.zero⟩, plain := true, unit := some [] } :=
  ⟨by rw [plain, siQ_nil], fun _ => rfl, fun sem h => by cases h; exact ⟨sameUnit_nil, rfl⟩,
    fun _ h => (nomatch h), fun _ h => (nomatch h)⟩

theorem powBoundedF_nil (v : Rat) (e : FExprU) : PowBoundedF { value := v, unit := [] } e :=
  fun _ _ _ h => (nomatch h)

/-! ### The arithmetic step as a function -/

theorem arithV_of_binEval {cfg : Cfg} {op : BinOp} {a b : Numeric}
    {r : Except EvalErr Numeric} (h : binEval cfg op 0 0 a b [] = (r, [])) :
    arithV cfg op a b = r := by
  simp only [arithV, h]

/-- `QQ.bin_step` for `arithV`. -/
theorem arith_step (cfg : Cfg) (op : BinOp) (ra rb : Numeric) (x y : Val)
    (ha : Agree ra x) (hb : Agree rb y) (hadd : (op = .add ∨ op = .sub) → AddOK x y)
    (hpow : op = .pow → y.plain = true) :
    match binVal op x y with
    | .ok v => (∃ r, arithV cfg op ra rb = .ok r ∧ binEval cfg op 0 0 ra rb [] = (.ok r, []) ∧
          Agree r v) ∨
        (op = .pow ∧ x.plain = false ∧ (rb.value.num < -2147483648 ∨ rb.value.num > 2147483647 ∨
            Compound.powFits ra.unit rb.value.num = false) ∧
          arithV cfg op ra rb = .error (.err .badArgument 0 0))
    | .error _ => ∃ k, arithV cfg op ra rb = .error (.err k 0 0) := by
  have h := bin_step cfg op 0 0 ra rb x y [] ha hb hadd hpow
  cases hv : binVal op x y with
  | ok v =>
    rw [hv] at h
    rcases h with ⟨r, hr, har⟩ | ⟨h1, h2, h3, h4⟩
    · exact Or.inl ⟨r, arithV_of_binEval hr, hr, har⟩
    · exact Or.inr ⟨h1, h2, h3, arithV_of_binEval h4⟩
  | error z =>
    rw [hv] at h
    obtain ⟨k, hk⟩ := h
    exact ⟨k, arithV_of_binEval hk⟩

/-- The result of a binary step respects the bound of the compound expression
(`UQ.bin_boundU`). -/
theorem bin_boundF {cfg : Cfg} {op : BinOp} {s e : Nat} {ra rb r : Numeric} {a : FExprU}
    {l : Literal} {b : FExprU} {d d' : List Desc} (h : binEval cfg op s e ra rb d = (.ok r, d'))
    (ha : PowBoundedF ra a) (hb : PowBoundedF rb b)
    (hpow : op = .pow → b = .num l ∧ rb.value = value l) :
    PowBoundedF r (.bin op a b) := by
  intro B hB en hen
  cases op with
  | add =>
    simp only [powBoundF] at hB
    cases hpa : powBoundF a with
    | none => rw [hpa] at hB; simp at hB
    | some x =>
      cases hpb : powBoundF b with
      | none => rw [hpa, hpb] at hB; simp at hB
      | some y =>
        rw [hpa, hpb] at hB
        simp only [Option.some.injEq] at hB
        rcases add_unit h with hu | hu <;> rw [hu] at hen
        · have := ha x hpa en hen; omega
        · have := hb y hpb en hen; omega
  | sub =>
    simp only [powBoundF] at hB
    cases hpa : powBoundF a with
    | none => rw [hpa] at hB; simp at hB
    | some x =>
      cases hpb : powBoundF b with
      | none => rw [hpa, hpb] at hB; simp at hB
      | some y =>
        rw [hpa, hpb] at hB
        simp only [Option.some.injEq] at hB
        rcases add_unit h with hu | hu <;> rw [hu] at hen
        · have := ha x hpa en hen; omega
        · have := hb y hpb en hen; omega
  | mul => simp [powBoundF] at hB
  | div => simp [powBoundF] at hB
  | pow =>
    obtain ⟨rfl, hv⟩ := hpow rfl
    simp only [powBoundF, Option.map_eq_some_iff] at hB
    obtain ⟨x, hpa, rfl⟩ := hB
    have hu := pow_ok_unit (show Eval.pow s e ra rb d = (.ok r, d') from h)
    rw [hu] at hen
    split at hen
    · have := ha x hpa en hen
      exact Nat.le_trans this (by
        rename_i hemp
        have : ra.unit = [] := by simpa using hemp
        rw [this] at hen; cases hen)
    · rw [hv] at hen
      exact checkedPow_bound _ (ha x hpa) en hen

/-! ### The value of a binary expression, whatever the order -/

theorem valF_bin_cases (cfg : Cfg) (op : BinOp) (a b : FExprU) :
    (∃ va vb, valF cfg a = .ok va ∧ valF cfg b = .ok vb ∧
      valF cfg (.bin op a b) = arithV cfg op va vb) ∨
    (∃ x, valF cfg (.bin op a b) = .error x ∧ (valF cfg a = .error x ∨ valF cfg b = .error x)) := by
  simp only [valF]
  split
  · cases ha : valF cfg a with
    | error x => exact Or.inr ⟨x, rfl, Or.inl rfl⟩
    | ok va =>
      cases hb : valF cfg b with
      | error x => exact Or.inr ⟨x, rfl, Or.inr rfl⟩
      | ok vb => exact Or.inl ⟨va, vb, rfl, rfl, rfl⟩
  · cases hb : valF cfg b with
    | error x => exact Or.inr ⟨x, rfl, Or.inr rfl⟩
    | ok vb =>
      cases ha : valF cfg a with
      | error x => exact Or.inr ⟨x, rfl, Or.inl rfl⟩
      | ok va => exact Or.inl ⟨va, vb, rfl, rfl, rfl⟩

/-! ### Leaves -/

theorem spec_num (cfg : Cfg) (l : Literal) : OutcomeF (.num l) (valF cfg (.num l)) :=
  (outcomeF_iff _ _).mpr (Or.inl ⟨_, _, denoteF_num l, rfl, Or.inl (agree_num _),
    powBoundedF_nil _ _⟩)

theorem spec_fact (cfg : Cfg) (p : List Char) (v : Rat) (u : List (UnitKey × Int × Int))
    (hu : UnitsOKF cfg (.fact p v u)) : OutcomeF (.fact p v u) (valF cfg (.fact p v u)) := by
  obtain ⟨c, hdb, hv, hcu, hprop, hknown⟩ := hu
  have hev : valF cfg (.fact p v u) = .ok { value := c.value, unit := c.unit } := by
    simp only [valF, lookupV, hdb]
  rw [hev]
  subst hv hcu
  refine (outcomeF_iff _ _).mpr (Or.inl ⟨_, _, denoteF_fact p _ _, rfl, Or.inl ?_, ?_⟩)
  · refine ⟨(siOfResult_resultUnit _ _).symm, ?_, fun _ h => (nomatch h), hprop, hknown⟩
    intro hp
    simpa [resultUnit] using hp
  · intro B hB en hen
    simp only [powBoundF, Option.some.injEq] at hB
    rw [← hB]
    have := natAbs_le_sum (fun t : UnitKey × Int × Int => t.2.1.natAbs) (resultUnit c.unit)
      (en.1, en.2.power, en.2.pfx) (List.mem_map.mpr ⟨en, hen, rfl⟩)
    simpa using this

theorem spec_qty (cfg : Cfg) (l : Literal) (u : List RTerm) (hu : UnitOKF u) :
    OutcomeF (.qty l u) (valF cfg (.qty l u)) := by
  rcases hu with hu | ⟨s, p, t, rfl, hw⟩
  · obtain ⟨sem, hsem⟩ := unitOK_resolves u hu
    have hps := unitOK_proportional u sem hu hsem
    obtain ⟨_, hTs, pT, kT, bT⟩ := unitC_ok u sem hu hsem
    refine (outcomeF_iff _ _).mpr (Or.inl
      ⟨Val.mk ⟨value l * scale sem, dims sem⟩ false (some sem), _, ?_, rfl, Or.inl ?_, ?_⟩)
    · rw [denoteF_qty, hsem]
      simp [qtyOf, hps]
    · refine ⟨?_, fun h => (nomatch h), ?_, pT, kT⟩
      · simp [siQ, hTs.1, hTs.2]
      · intro sem' h
        cases h
        exact ⟨hTs, hps⟩
    · intro B hB en hen
      simp only [powBoundF, hsem, Option.map_some, Option.some.injEq] at hB
      rw [← hB]
      exact bT en hen
  · refine (outcomeF_iff _ _).mpr (Or.inl
      ⟨Val.mk ⟨toK s (value l * (10 : Rat) ^ p), dimK⟩ false (some [⟨p, key s, 1⟩]), _, ?_, rfl,
        Or.inr ⟨s, p, ?_, rfl, rfl, rfl⟩, ?_⟩)
    · rw [denoteF_qty, resolveAll_written hw]
      simp only [qtyOf_scale]
    · simp only [unitC_written hw]
    · intro B hB en hen
      simp only [powBoundF, resolveAll_written hw, Option.map_some, Option.some.injEq] at hB
      rw [← hB]
      simp only [unitC_written hw] at hen
      have : en = (key s, { power := 1, pfx := p }) := by simpa [Props.C09.cmp] using hen
      subst this
      simp

/-! ### Binary operators -/

theorem spec_bin (cfg : Cfg) (op : BinOp) (a b : FExprU) (iha : OutcomeF a (valF cfg a))
    (ihb : OutcomeF b (valF cfg b))
    (hdet : ∀ x y, denoteF a = .ok x → denoteF b = .ok y →
      NoOffset x ∧ NoOffset y ∧ ((op = .add ∨ op = .sub) → AddOK x y))
    (hpow : op = .pow → ∃ l, b = .num l ∧ l.percent = false) :
    OutcomeF (.bin op a b) (valF cfg (.bin op a b)) := by
  refine (outcomeF_iff _ _).mpr ?_
  rcases valF_bin_cases cfg op a b with ⟨va, vb, hva, hvb, hval⟩ | ⟨x, hval, hx⟩
  · rw [hval]
    rw [hva] at iha
    rw [hvb] at ihb
    rcases (outcomeF_iff _ _).mp iha with ⟨xv, ra, hxv, hra, haa, hba⟩ | ⟨_, _, _, h, _⟩
    swap
    · cases h
    rcases (outcomeF_iff _ _).mp ihb with ⟨yv, rb, hyv, hrb, hab, hbb⟩ | ⟨_, _, _, h, _⟩
    swap
    · cases h
    cases hra
    cases hrb
    obtain ⟨nx, ny, hadd⟩ := hdet xv yv hxv hyv
    have haa' := agreeF_noOffset haa nx
    have hab' := agreeF_noOffset hab ny
    have hlit : op = .pow → ∃ l, b = .num l ∧ vb.value = value l ∧ yv.plain = true := by
      intro h
      obtain ⟨l, rfl, _⟩ := hpow h
      rw [denoteF_num] at hyv
      cases hyv
      have := (hab'.plain_eq rfl).1
      exact ⟨l, rfl, by rw [this], rfl⟩
    have hstep := arith_step cfg op va vb xv yv haa' hab' hadd
      (fun h => by obtain ⟨l, _, _, hp⟩ := hlit h; exact hp)
    have hden : denoteF (.bin op a b) = binVal op xv yv := by rw [denoteF_bin, hxv, hyv]
    cases hv : binVal op xv yv with
    | ok v =>
      rw [hv] at hstep
      rcases hstep with ⟨r, hr, hbe, har⟩ | ⟨hop, hxp, hov, hr⟩
      · left
        refine ⟨v, r, hden.trans hv, hr, Or.inl har, ?_⟩
        by_cases hop : op = .pow
        · obtain ⟨l, hbl, hvl, _⟩ := hlit hop
          exact bin_boundF (l := l) hbe hba hbb (fun _ => ⟨hbl, hvl⟩)
        · exact bin_boundF (l := ⟨none, [], none, none, false⟩) hbe hba hbb (fun h => absurd h hop)
      · right
        refine ⟨_, _, _, hr, Or.inr ⟨Or.inr (Or.inr ⟨hop, ⟨xv, hxv, hxp⟩, ?_⟩), rfl⟩⟩
        rintro ⟨B, l, hpB, hbl, hn1, hn2⟩
        obtain ⟨l', hbl', hvl, _⟩ := hlit hop
        rw [hbl] at hbl'
        cases hbl'
        rw [hvl] at hov
        have hfit := powFits_of_bound (hba B hpB) hn2
        rcases hov with h | h | h
        · omega
        · omega
        · rw [hfit] at h; cases h
    | error err =>
      rw [hv] at hstep
      obtain ⟨k, hk⟩ := hstep
      right
      exact ⟨k, _, _, hk, Or.inl ⟨err, hden.trans hv⟩⟩
  · rw [hval]
    rcases hx with hx | hx
    · rw [hx] at iha
      rcases (outcomeF_iff _ _).mp iha with ⟨_, _, _, h, _⟩ | ⟨k, s, t, h, hbad⟩
      · cases h
      · cases h
        exact Or.inr ⟨k, s, t, rfl, badOKF_binL hbad⟩
    · rw [hx] at ihb
      rcases (outcomeF_iff _ _).mp ihb with ⟨_, _, _, h, _⟩ | ⟨k, s, t, h, hbad⟩
      · cases h
      · cases h
        exact Or.inr ⟨k, s, t, rfl, badOKF_binR hbad⟩

/-! ### Casts -/

theorem castV_of_factor {T : Compound} {r : Numeric} {w : Rat}
    (h : Compound.factor T r.unit r.value = .ok (some w)) :
    castV T r = .ok { value := w, unit := T } := by
  simp only [castV, h]

theorem agreeT_dim {r : Numeric} {v : Val} (h : AgreeT r v) : v.q.dim = dimK := by
  obtain ⟨s, p, _, _, hq, _⟩ := h
  rw [hq]

/-- The temperature conversions: a non-plain value of the dimension of a temperature cast to a
unit `T` of that dimension, where `T` is proportional or a lone scale. -/
theorem cast_temp (T : Compound) (ra : Numeric) (x : Val) (sem : UnitSem) (ha : AgreeF ra x)
    (hx : x.plain = false) (hxd : x.q.dim = dimK) (hsd : dims sem = dimK)
    (hT : (SameUnit T sem ∧ Proportional T ∧ AllKnown T ∧ proportional sem = true) ∨
      (∃ t q, T = Props.C09.cmp t q ∧ sem = [⟨q, key t, 1⟩])) :
    ∃ w, castV T ra = .ok { value := w, unit := T } ∧
      AgreeF { value := w, unit := T } { q := x.q, plain := false, unit := some sem } := by
  have hq : x.q = ⟨x.q.si, dimK⟩ := by rw [← hxd]
  rcases hT with ⟨hTs, pT, kT, hps⟩ | ⟨t, q, rfl, rfl⟩
  · -- proportional target
    have hTd : dims (semOf T) = dimK := by rw [hTs.1, hsd]
    have hTne : T ≠ [] := dims_ne_nil (by rw [hTd]; exact dimK_ne_zero)
    have hsc := scale_ne_zero T
    rcases ha with ha | ⟨s, p, hu, hv, hq', hp⟩
    · -- proportional source: `QQ.cast_step`
      have hstep := cast_step T ra x sem hTs pT kT hps ha
        (Or.inr ⟨by rw [hxd]; exact dimK_ne_zero, by rw [hsd]; exact dimK_ne_zero⟩)
      have hcv : castVal x sem = .ok { q := x.q, plain := false, unit := some sem } := by
        simp only [castVal, hx, Bool.false_eq_true, ↓reduceIte, inUnit, hxd, hsd, ne_eq,
          not_true_eq_false, hps, Bool.or_true]
      rw [hcv] at hstep
      obtain ⟨w, hw, haw⟩ := hstep
      exact ⟨w, castV_of_factor hw, Or.inl haw⟩
    · -- a lone scale as source
      have hf := factor_offset_prop T s p ra.value hTne pT hTd
      rw [← hu] at hf
      refine ⟨_, castV_of_factor hf, Or.inl ⟨?_, fun h => (nomatch h), ?_, pT, kT⟩⟩
      · rw [hq']
        simp only [siQ, hTd, scale_semOf]
        congr 1
        field_simp
      · intro sem' h
        cases h
        exact ⟨hTs, hps⟩
  · -- a lone scale as target
    have h10 : (10 : Rat) ^ q ≠ 0 := zpow_ne_zero _ (by norm_num)
    rcases ha with ha | ⟨s, p, hu, hv, hq', hp⟩
    · have hua : ra.unit ≠ [] := unit_ne_nil ha.si (by rw [hxd]; exact dimK_ne_zero)
      have hrd : dims (semOf ra.unit) = dimK := by
        have := congrArg Q.dim ha.si
        simp only [siQ] at this
        rw [this, hxd]
      have hf := factor_prop_offset ra.unit t q ra.value hua ha.prop hrd
      refine ⟨_, castV_of_factor hf, Or.inr ⟨t, q, rfl, rfl, ?_, rfl⟩⟩
      have hsi : x.q.si = ra.value * scaleC ra.unit := by
        have := congrArg Q.si ha.si
        simp only [siQ, scale_semOf] at this
        exact this.symm
      rw [hq, hsi]
      simp only [div_mul_cancel₀ _ h10, toK_fromK]
    · have hf := C09_convert t q s p ra.value
      unfold convert at hf
      rw [← hu] at hf
      refine ⟨_, castV_of_factor hf, Or.inr ⟨t, q, rfl, rfl, ?_, rfl⟩⟩
      rw [hq']
      simp only [div_mul_cancel₀ _ h10, toK_fromK]

theorem castVal_temp (x : Val) (sem : UnitSem) (hx : x.plain = false) (hxd : x.q.dim = dimK)
    (hsd : dims sem = dimK)
    (hs : proportional sem = true ∨ ∃ t q, sem = [⟨q, key t, 1⟩]) :
    castVal x sem = .ok { q := x.q, plain := false, unit := some sem } := by
  have hq : x.q = ⟨x.q.si, dimK⟩ := by rw [← hxd]
  rcases hs with hps | ⟨t, q, rfl⟩
  · simp only [castVal, hx, Bool.false_eq_true, ↓reduceIte, inUnit, hxd, hsd, ne_eq,
      not_true_eq_false, hps, Bool.or_true]
  · simp only [castVal, hx, Bool.false_eq_true, ↓reduceIte]
    rw [hq, inUnit_scale]

theorem spec_cast (cfg : Cfg) (e : FExprU) (u : List RTerm) (ih : OutcomeF e (valF cfg e))
    (hu : UnitOKF u)
    (hok : ∀ v sem, denoteF e = .ok v → resolveAll u = some sem → CastOKF v sem) :
    OutcomeF (.cast e u) (valF cfg (.cast e u)) := by
  refine (outcomeF_iff _ _).mpr ?_
  -- normalise the target: proportional (`UnitOK`), or a lone offset scale
  have hu' : UnitOK u ∨ ∃ t q tt, u = [tt] ∧ Written t q tt ∧ t ≠ .K := by
    rcases hu with hu | ⟨t, q, tt, rfl, hw⟩
    · exact Or.inl hu
    · by_cases ht : t = .K
      · subst ht; exact Or.inl (unitOK_written_K hw)
      · exact Or.inr ⟨t, q, tt, rfl, hw, ht⟩
  simp only [valF]
  cases hve : valF cfg e with
  | error x =>
    rw [hve] at ih
    rcases (outcomeF_iff _ _).mp ih with ⟨_, _, _, h, _⟩ | ⟨k, s, t, h, hbad⟩
    · cases h
    · cases h
      exact Or.inr ⟨k, s, t, rfl, badOKF_cast hbad⟩
  | ok ra =>
    rw [hve] at ih
    rcases (outcomeF_iff _ _).mp ih with ⟨x, ra', hxv, hra, haa, _⟩ | ⟨_, _, _, h, _⟩
    swap
    · cases h
    cases hra
    simp only
    rcases hu' with hu | ⟨t, q, tt, rfl, hw, htK⟩
    · -- proportional target
      obtain ⟨sem, hsem⟩ := unitOK_resolves u hu
      have hps := unitOK_proportional u sem hu hsem
      obtain ⟨_, hTs, pT, kT, bT⟩ := unitC_ok u sem hu hsem
      have hden : denoteF (.cast e u) = castVal x sem := by rw [denoteF_cast, hxv, hsem]
      have hbound : ∀ w, PowBoundedF { value := w, unit := unitC u } (.cast e u) := by
        intro w B hB en hen
        simp only [powBoundF, hsem, Option.map_some, Option.some.injEq] at hB
        rw [← hB]
        exact bT en hen
      rcases hok x sem hxv hsem with ⟨hno, _, hcok⟩ | ⟨hxp, hxd, hsd⟩
      · have haa' := agreeF_noOffset haa hno
        have hstep := cast_step (unitC u) ra x sem hTs pT kT hps haa' hcok
        cases hv : castVal x sem with
        | ok v =>
          rw [hv] at hstep
          obtain ⟨w, hw, haw⟩ := hstep
          exact Or.inl ⟨v, _, hden.trans hv, castV_of_factor hw, Or.inl haw, hbound w⟩
        | error err =>
          rw [hv] at hstep
          right
          refine ⟨.illegalCast, 0, 0, ?_, Or.inl ⟨err, hden.trans hv⟩⟩
          simp only [castV, hstep]
      · obtain ⟨w, hw, haw⟩ := cast_temp (unitC u) ra x sem haa hxp hxd hsd
          (Or.inl ⟨hTs, pT, kT, hps⟩)
        exact Or.inl ⟨_, _, hden.trans (castVal_temp x sem hxp hxd hsd (Or.inl hps)), hw, haw,
          hbound w⟩
    · -- a lone offset scale as target
      have hsem := resolveAll_written hw
      have hps : proportional [⟨q, key t, 1⟩] = false := by
        rw [proportional_scale]; simpa using htK
      have hden : denoteF (.cast e [tt]) = castVal x [⟨q, key t, 1⟩] := by
        rw [denoteF_cast, hxv, hsem]
      rw [unitC_written hw]
      rcases hok x _ hxv hsem with ⟨_, hp, _⟩ | ⟨hxp, hxd, hsd⟩
      · rw [hps] at hp; cases hp
      · obtain ⟨w, hw', haw⟩ := cast_temp (Props.C09.cmp t q) ra x _ haa hxp hxd hsd
          (Or.inr ⟨t, q, rfl, rfl⟩)
        refine Or.inl ⟨_, _, hden.trans (castVal_temp x _ hxp hxd hsd (Or.inr ⟨t, q, rfl⟩)), hw',
          haw, ?_⟩
        intro B hB en hen
        simp only [powBoundF, hsem, Option.map_some, Option.some.injEq] at hB
        rw [← hB]
        have : en = (key t, { power := 1, pfx := q }) := by simpa [Props.C09.cmp] using hen
        subst this
        simp

/-! ### Calls -/

/-- The precision as the specification reads it. -/
def precOf : Option Literal → Option Int
  | none => none
  | some n => some (value n).num

/-- What the builtin does on the evaluated arguments of a call, against `roundMag`: the unit is
kept and the magnitude rounded; a wrong arity is `argumentMismatch`. -/
theorem builtinV_cases (cfg : Cfg) (f : Fn) (prec : Option Literal) (a : Numeric)
    (hn : ∀ n, prec = some n → Arith.isInt (value n) = true ∧
      -2147483648 ≤ (value n).num ∧ (value n).num ≤ 2147483647) :
    (∃ g : Rat → Rat, (∀ x, roundMag f (precOf prec) x = some (g x)) ∧
      builtinV cfg f (callArgs a prec) = .ok { value := g a.value, unit := a.unit }) ∨
    ((∀ x, roundMag f (precOf prec) x = none) ∧
      builtinV cfg f (callArgs a prec) = .error (.err .argumentMismatch 0 0)) := by
  cases prec with
  | none =>
    left
    refine ⟨roundFn f, fun x => by cases f <;> rfl, ?_⟩
    have hb := builtin_apply cfg f 0 0 a []
    simp only [builtinV, callArgs, builtinM]
    cases f <;> simp only at hb ⊢ <;> rw [hb]
  | some n =>
    obtain ⟨hint, hr⟩ := hn n rfl
    have hval : value n = (((value n).num : Int) : Rat) := by
      have hd : (value n).den = 1 := by simpa [Arith.isInt] using hint
      exact (Rat.den_eq_one_iff _).mp hd |>.symm
    cases f with
    | round =>
      left
      refine ⟨fun x => roundTo x (value n).num, fun x => rfl, ?_⟩
      have hb := Props.C10.C10_builtin_round2 cfg 0 0 a (value n).num [] hr []
      have e : ({ value := value n, unit := [] } : Numeric) =
          { value := (((value n).num : Int) : Rat), unit := [] } := by rw [← hval]
      simp only [builtinV, callArgs, builtinM, plain]
      rw [e, hb]
    | floor =>
      right
      refine ⟨fun x => rfl, ?_⟩
      simp only [builtinV, callArgs, builtinM]
      rw [Props.C10.C10_arity_floor 0 0 _ (by simp) []]
    | ceil =>
      right
      refine ⟨fun x => rfl, ?_⟩
      simp only [builtinV, callArgs, builtinM]
      rw [Props.C10.C10_arity_ceil 0 0 _ (by simp) []]

theorem callVal_eq (f : Fn) (prec : Option Literal) (v : Val) (sem : UnitSem)
    (hun : v.unit = some sem)
    (hn : ∀ n, prec = some n → Arith.isInt (value n) = true) :
    callVal f prec v =
      match inUnit false v.q sem with
      | .error e => .error e
      | .ok m =>
        match roundMag f (precOf prec) m with
        | none => .error .other
        | some m' =>
          match qtyOf false m' sem with
          | .ok q => .ok { q := q, plain := v.plain, unit := some sem }
          | .error e => .error e := by
  unfold callVal
  rw [hun]
  cases prec with
  | none => rfl
  | some n =>
    simp only [hn n rfl, ↓reduceIte, precOf]
    rfl

theorem spec_call (cfg : Cfg) (f : Fn) (arg : FExprU) (prec : Option Literal)
    (ih : OutcomeF arg (valF cfg arg))
    (hunit : ∀ v, denoteF arg = .ok v → v.unit.isSome = true)
    (hprec : ∀ n, prec = some n → Arith.isInt (value n) = true ∧
      -2147483648 ≤ (value n).num ∧ (value n).num ≤ 2147483647) :
    OutcomeF (.call f arg prec) (valF cfg (.call f arg prec)) := by
  refine (outcomeF_iff _ _).mpr ?_
  simp only [valF]
  cases hve : valF cfg arg with
  | error x =>
    rw [hve] at ih
    rcases (outcomeF_iff _ _).mp ih with ⟨_, _, _, h, _⟩ | ⟨k, s, t, h, hbad⟩
    · cases h
    · cases h
      exact Or.inr ⟨k, s, t, rfl, badOKF_call hbad⟩
  | ok a =>
    rw [hve] at ih
    rcases (outcomeF_iff _ _).mp ih with ⟨v, a', hv, hra, haa, hbd⟩ | ⟨_, _, _, h, _⟩
    swap
    · cases h
    cases hra
    simp only
    obtain ⟨sem, hun⟩ := Option.isSome_iff_exists.mp (hunit v hv)
    have hden : denoteF (.call f arg prec) = callVal f prec v := by rw [denoteF_call, hv]
    rw [callVal_eq f prec v sem hun (fun n h => (hprec n h).1)] at hden
    -- the magnitude of the argument in its unit is the tool's magnitude
    have hmag : inUnit false v.q sem = .ok a.value ∧
        ∀ m' : Rat, ∃ q, qtyOf false m' sem = .ok q ∧
          AgreeF { value := m', unit := a.unit } { q := q, plain := v.plain, unit := some sem } := by
      rcases haa with ha | ⟨s, p, hu, hvu, hq, hp⟩
      · obtain ⟨hsame, hval⟩ := agree_value ha hun
        have hps := (ha.unit sem hun).2
        have hd : v.q.dim = dims sem := by
          have := congrArg Q.dim ha.si
          simp only [siQ] at this
          rw [← this, hsame.1]
        refine ⟨by simp only [inUnit, hd, ne_eq, not_true_eq_false, ↓reduceIte, hps,
          Bool.or_true, hval], fun m' => ⟨⟨m' * scale sem, dims sem⟩, by simp [qtyOf, hps], ?_⟩⟩
        have := agree_round ha hun (fun _ => m')
        rw [hd] at this
        exact Or.inl this
      · rw [hun] at hvu
        cases hvu
        have h10 : (10 : Rat) ^ p ≠ 0 := zpow_ne_zero _ (by norm_num)
        refine ⟨by rw [hq, inUnit_scale, fromK_toK, mul_div_cancel_right₀ _ h10],
          fun m' => ⟨_, qtyOf_scale s p m', Or.inr ⟨s, p, hu, rfl, rfl, hp⟩⟩⟩
    rw [hmag.1] at hden
    simp only at hden
    rcases builtinV_cases cfg f prec a hprec with ⟨g, hg, hb⟩ | ⟨hg, hb⟩
    · rw [hg] at hden
      obtain ⟨q, hq, hagree⟩ := hmag.2 (g a.value)
      simp only [hq] at hden
      exact Or.inl ⟨_, _, hden, hb, hagree, hbd⟩
    · rw [hg] at hden
      exact Or.inr ⟨_, 0, 0, hb, Or.inl ⟨_, hden⟩⟩

/-! ### All expressions -/

/-- **The reference evaluation agrees with the specification.** -/
theorem valF_spec (cfg : Cfg) : ∀ e : FExprU, UnitsOKF cfg e → DeterminateF e →
    OutcomeF e (valF cfg e)
  | .num l, _, _ => spec_num cfg l
  | .qty l u, hu, _ => spec_qty cfg l u hu.2
  | .fact p v u, hu, _ => spec_fact cfg p v u hu
  | .paren e, hu, hd => by
    have := valF_spec cfg e hu hd
    simpa [OutcomeF, denoteF_paren, PowRiskF, PowBoundedF, powBoundF, valF] using this
  | .bin op a b, hu, hd =>
    spec_bin cfg op a b (valF_spec cfg a hu.1 hd.1) (valF_spec cfg b hu.2.1 hd.2.1) hd.2.2 hu.2.2
  | .cast e u, hu, hd => spec_cast cfg e u (valF_spec cfg e hu.1 hd.1) hu.2 hd.2
  | .call f arg prec, hu, hd =>
    spec_call cfg f arg prec (valF_spec cfg arg hu.1 hd.1) hd.2.1 hd.2.2

end Anything.FU
