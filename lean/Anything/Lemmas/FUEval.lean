import Anything.Lemmas.FUDefs
import Anything.Lemmas.UQLog
/-!
# The full expression language — the evaluator on trees that represent an expression

`evalStatement : EvalStatement`: on a tree with `RepF t e` (and `InScopeF e`) the evaluator does what
the reference evaluation `evalF cfg e` says — same result up to the spans of errors (`FQ.strip`),
same description log, for every incoming log (`FQ.Sim`).

The proof is `FQ.evalOKF_all` (strong induction on the fuel, inner induction on the operator chain
of one OPERATION node) with the `qty` / `cast` cases of `C9Q.evalOKT_all` and the FN_CALL branch of
`UQ.eval_callU`. One step of the operator loop is isolated (`step_bin`, `step_cast`) for an
arbitrary delayed base, so that the first step of a chain (base: the delayed first operand) and the
later steps (base: the accumulated value) share one proof.
-/

namespace Anything.FU
open Anything Anything.Lexer Anything.Eval Anything.Spec Anything.Spec.Arith Anything.Spec.Decimal
open Anything.Spec.Quantity Anything.Spec.SI Anything.C06 Anything.QQ Anything.FQ Anything.UQ
open Anything.C9Q

/-! ### `evalF`, constructor by constructor -/

theorem evalF_bin_same (cfg : Cfg) (op : BinOp) (a b : FExprU) (h : qprioF a = op.prio) :
    evalF cfg (.bin op a b) =
      (evalF cfg a >>= fun va => evalF cfg b >>= fun vb => binEval cfg op 0 0 va vb) := by
  simp only [evalF, h, ↓reduceIte]

theorem evalF_bin_other (cfg : Cfg) (op : BinOp) (a b : FExprU) (h : qprioF a ≠ op.prio) :
    evalF cfg (.bin op a b) =
      (evalF cfg b >>= fun vb => evalF cfg a >>= fun va => binEval cfg op 0 0 va vb) := by
  simp only [evalF, h, ↓reduceIte]

theorem evalF_cast (cfg : Cfg) (a : FExprU) (u : List RTerm) :
    evalF cfg (.cast a u) = (evalF cfg a >>= castM (unitC u)) := by
  simp only [evalF]

theorem evalF_call1 (cfg : Cfg) (f : Fn) (a : FExprU) :
    evalF cfg (.call f a none) = (evalF cfg a >>= fun v => builtinM cfg f [v]) := by
  simp only [evalF]

theorem evalF_call2 (cfg : Cfg) (f : Fn) (a : FExprU) (n : Literal) :
    evalF cfg (.call f a (some n)) =
      (evalF cfg a >>= fun v => builtinM cfg f [v, plain (value n)]) := by
  simp only [evalF]

/-! ### Spans only label errors: the builtins -/

/-- The builtin of a call as the evaluator selects it, with the spans of the call. -/
def builtinAt (cfg : Cfg) (f : Fn) (s e : Nat) (args : List Numeric) : EvalM Numeric :=
  match f with
  | .round => builtinRound cfg s e args
  | .floor => builtinFloor s e args
  | .ceil => builtinCeil s e args

theorem one_spans (s e : Nat) (args : List Numeric) (g : Numeric → Numeric) :
    ∃ r, (∀ d, (one s e args >>= fun a => (pure (g a) : EvalM Numeric)) d = (r, d)) ∧
      (∀ d, (one 0 0 args >>= fun a => (pure (g a) : EvalM Numeric)) d = (strip r, d)) := by
  rcases args with _ | ⟨a, _ | ⟨b, t⟩⟩ <;> exact ⟨_, fun _ => rfl, fun _ => rfl⟩

/-- A builtin does not touch the log, and its spans only label the error. -/
theorem builtin_spans (cfg : Cfg) (f : Fn) (s e : Nat) (args : List Numeric) :
    ∃ r, (∀ d, builtinAt cfg f s e args d = (r, d)) ∧
      (∀ d, builtinM cfg f args d = (strip r, d)) := by
  cases f with
  | floor => exact one_spans s e args _
  | ceil => exact one_spans s e args _
  | round =>
    simp only [builtinAt, builtinM]
    rcases args with _ | ⟨a, _ | ⟨b, _ | ⟨c, t⟩⟩⟩
    · exact ⟨_, fun _ => rfl, fun _ => rfl⟩
    · exact ⟨_, fun _ => rfl, fun _ => rfl⟩
    · simp only [builtinRound]
      cases RatNum.toI32 b.value with
      | none => exact ⟨_, fun _ => rfl, fun _ => rfl⟩
      | some n =>
        simp only
        split_ifs <;> exact ⟨_, fun _ => rfl, fun _ => rfl⟩
    · exact ⟨_, fun _ => rfl, fun _ => rfl⟩

theorem sim_builtin (cfg : Cfg) (f : Fn) (s e : Nat) (args : List Numeric) (d : List Desc) :
    Sim (builtinAt cfg f s e args d) (builtinM cfg f args d) := by
  obtain ⟨r, h1, h2⟩ := builtin_spans cfg f s e args
  rw [h1, h2]
  exact ⟨rfl, rfl⟩

/-- The evaluator's dispatch on the name of the function. -/
theorem dispatch_name (cfg : Cfg) (f : Fn) (s e : Nat) (args : List Numeric) :
    (if String.ofList f.name == "round" then builtinRound cfg s e args
      else if String.ofList f.name == "floor" then builtinFloor s e args
      else if String.ofList f.name == "ceil" then builtinCeil s e args
      else if (String.ofList f.name == "sin" || String.ofList f.name == "cos") then
        (match args with
          | [_] => EvalM.throw (.unsupported "sin/cos go through f64")
          | _ => err .argumentMismatch s e)
      else err .missingFunction s e) = builtinAt cfg f s e args := by
  cases f <;> simp [Fn.name, builtinAt]

/-! ### Scope and errors along a chain -/

theorem foldU_inScope {R : Tree → FExprU → Prop} {p : Nat} {acc e : FExprU} {ts : List Tree}
    (h : FoldU R p acc ts e) : InScopeF e → InScopeF acc := by
  induction h with
  | nil p acc => exact id
  | cons _ _ _ _ ih => intro he; exact (ih he).1
  | cast _ _ _ _ ih => intro he; exact (ih he).1

theorem foldU_evalF_err (cfg : Cfg) {R : Tree → FExprU → Prop} {p : Nat} {acc e : FExprU}
    {ts : List Tree} (h : FoldU R p acc ts e) (hp : qprioF acc = p) (d₀ d' : List Desc)
    (y : EvalErr) (herr : evalF cfg acc d₀ = (.error y, d')) :
    evalF cfg e d₀ = (.error y, d') := by
  induction h with
  | nil p acc => exact herr
  | @cons p acc o x op b e rest _ hop _ _ ih =>
    refine ih hop ?_
    rw [evalF_bin_same cfg op acc b (hp.trans hop.symm)]
    simp only [C06.bind_apply, herr]
  | @cast p acc o x u e rest _ hp1 _ _ ih =>
    refine ih hp1.symm ?_
    rw [evalF_cast]
    simp only [C06.bind_apply, herr]

/-! ### One step of the operator loop -/

/-- An operator step from any delayed base `base` that the specification reads as `mbase`:
the right operand first, then the base, then the arithmetic. -/
theorem step_bin (cfg : Cfg) (F : Nat) (node : At) (base : Delayed) (oa xa : At) (rest : List At)
    (op : BinOp) (mb mbase : EvalM Numeric) (d : List Desc) (ho : oa.t.kind = opKind op)
    (hx : Sim (eval cfg F xa d) (mb d))
    (hbase : ∀ d1, Sim (force cfg F base d1) (mbase d1)) :
    (∃ w d', (mb >>= fun vb => mbase >>= fun va => binEval cfg op 0 0 va vb) d = (.ok w, d') ∧
      opFold cfg (F + 1) node base (oa :: xa :: rest) d = opFold cfg F node (.num w) rest d') ∨
    (∃ y d', (mb >>= fun vb => mbase >>= fun va => binEval cfg op 0 0 va vb) d =
        (.error (stripErr y), d') ∧
      opFold cfg (F + 1) node base (oa :: xa :: rest) d = (.error y, d')) := by
  rw [opFold_step cfg F node base oa xa rest op ho]
  simp only [C06.bind_apply]
  rcases hb1 : eval cfg F xa d with ⟨rb, d1⟩
  rcases hb2 : mb d with ⟨rb', d1'⟩
  rw [hb1, hb2] at hx
  obtain ⟨hrb, hd1⟩ := hx
  simp only at hrb hd1
  subst hd1
  cases rb with
  | error y =>
    simp only [strip] at hrb
    subst hrb
    exact Or.inr ⟨y, d1, rfl, rfl⟩
  | ok y =>
    simp only [strip] at hrb
    subst hrb
    simp only
    have h0 := hbase d1
    rcases ha1 : force cfg F base d1 with ⟨ra, d2⟩
    rcases ha2 : mbase d1 with ⟨ra', d2'⟩
    rw [ha1, ha2] at h0
    obtain ⟨hra, hd2⟩ := h0
    simp only at hra hd2
    subst hd2
    cases ra with
    | error y0 =>
      simp only [strip] at hra
      subst hra
      exact Or.inr ⟨y0, d2, rfl, rfl⟩
    | ok v =>
      simp only [strip] at hra
      subst hra
      simp only
      obtain ⟨r, hr1, hr2⟩ := binEval_spans cfg op node.off node.stop v y
      rw [hr1, hr2]
      cases r with
      | error z => exact Or.inr ⟨z, d2, rfl, rfl⟩
      | ok w => exact Or.inl ⟨w, d2, rfl, rfl⟩

/-- A `to` step from any delayed base: the target unit is read first (it neither fails nor
touches the log), then the base is forced, then `Compound::factor`. -/
theorem step_cast (cfg : Cfg) (F : Nat) (node : At) (base : Delayed) (oa xa : At) (rest : List At)
    (T : Compound) (mbase : EvalM Numeric) (d : List Desc) (ho : oa.t.kind = .OP_CAST)
    (hT : ∀ d1, Eval.unit xa.kids d1 = (.ok T, d1))
    (hbase : Sim (force cfg F base d) (mbase d)) :
    (∃ w d', (mbase >>= castM T) d = (.ok w, d') ∧
      opFold cfg (F + 1) node base (oa :: xa :: rest) d = opFold cfg F node (.num w) rest d') ∨
    (∃ y d', (mbase >>= castM T) d = (.error (stripErr y), d') ∧
      opFold cfg (F + 1) node base (oa :: xa :: rest) d = (.error y, d')) := by
  rw [opFold_cast_unfold cfg F node oa xa base rest ho]
  simp only [C06.bind_apply, hT]
  rcases ha1 : force cfg F base d with ⟨ra, d2⟩
  rcases ha2 : mbase d with ⟨ra', d2'⟩
  rw [ha1, ha2] at hbase
  obtain ⟨hra, hd2⟩ := hbase
  simp only at hra hd2
  subst hd2
  cases ra with
  | error y0 =>
    simp only [strip] at hra
    subst hra
    exact Or.inr ⟨y0, d2, rfl, rfl⟩
  | ok v =>
    simp only [strip] at hra
    subst hra
    simp only [castM]
    cases hf : Compound.factor T v.unit v.value with
    | error c => exact Or.inr ⟨_, d2, rfl, rfl⟩
    | ok o =>
      cases o with
      | none => exact Or.inr ⟨_, d2, rfl, rfl⟩
      | some w => exact Or.inl ⟨_, d2, rfl, rfl⟩

/-! ### The evaluator -/

/-- The statement proved by induction on the fuel. -/
def EvalOKU (cfg : Cfg) (f : Nat) : Prop :=
  ∀ (t : Tree) (e : FExprU) (off : Nat) (d : List Desc), 2 * size t ≤ f → RepF t e →
    InScopeF e → Sim (eval cfg f ⟨off, t⟩ d) (evalF cfg e d)

theorem simD_err {y : EvalErr} {d' : List Desc} {res : Except EvalErr Delayed × List Desc}
    {res' : Except EvalErr Numeric × List Desc} (h1 : res = (.error y, d'))
    (h2 : res' = (.error (stripErr y), d')) : SimD res res' := by
  subst h1 h2
  exact ⟨rfl, rfl⟩

/-- From the outcome of the operator loop to the outcome of the OPERATION node. -/
theorem sim_of_simD (cfg : Cfg) (G : Nat) {res : Except EvalErr Delayed × List Desc}
    {res' : Except EvalErr Numeric × List Desc} (h : SimD res res') :
    Sim (match res with
      | (.ok a, d') => force cfg G a d'
      | (.error x, d') => (.error x, d')) res' := by
  obtain ⟨rf, d3⟩ := res
  obtain ⟨rf', d3'⟩ := res'
  obtain ⟨hd3, hm⟩ := h
  simp only at hd3 hm
  subst hd3
  cases rf with
  | error z =>
    cases rf' with
    | error z' => simp only at hm; subst hm; exact ⟨rfl, rfl⟩
    | ok u => simp at hm
  | ok dl =>
    cases dl with
    | node na => simp at hm
    | num u =>
      cases rf' with
      | error z' => simp at hm
      | ok u' =>
        simp only at hm
        subst hm
        simp only [C06.force_num]
        exact ⟨rfl, rfl⟩

theorem unitC_of {u : List RTerm} {T : Compound} (h : unitOf u = some T) : unitC u = T := by
  simp [unitC, h]

/-- `eval::unit` on a UNIT node spelling `u`, for every incoming log. -/
theorem unit_unitC (xa : At) (u : List RTerm) (hx : RepUnit xa.t u) (hu : UnitRuns u) :
    ∀ d, Eval.unit xa.kids d = (.ok (unitC u), d) := by
  intro d
  obtain ⟨T, hTu⟩ := hu.2
  have h := (unit_unitOf xa.t u T xa.off d hx hu hTu).1
  rw [at_eta] at h
  rw [unitC_of hTu]
  exact h

/-- The operator loop from a forced accumulator. -/
theorem fold_sim (cfg : Cfg) (N : Nat) (ih : ∀ f, f ≤ N → EvalOKU cfg f)
    {p : Nat} {acc e : FExprU} {ts : List Tree} (h : FoldU RepF p acc ts e) :
    qprioF acc = p →
    ∀ (rest : List At) (F : Nat) (v : Numeric) (node : At) (d d₀ : List Desc),
      rest.map (·.t) = ts → F ≤ N + 1 → evalF cfg acc d₀ = (.ok v, d) → 2 * sizeList ts ≤ F →
      InScopeF e → SimD (opFold cfg F node (.num v) rest d) (evalF cfg e d₀) := by
  induction h with
  | nil p acc =>
    intro _ rest F v node d d₀ hr _ hv _ _
    have : rest = [] := by simpa using hr
    subst this
    rw [hv]
    cases F <;> simp [opFold, pure, SimD]
  | @cons p acc o x op b e ts' ho hop hx htail ihf =>
    intro hp rest F v node d d₀ hr hF hv hsz hl
    match rest, hr with
    | oa :: xa :: rest', hr =>
      simp only [List.map_cons, List.cons.injEq] at hr
      obtain ⟨h1, h2, h3⟩ := hr
      simp only [sizeList] at hsz
      have hxs := C06.size_pos x
      have hos := C06.size_pos o
      obtain ⟨F', rfl⟩ : ∃ F', F = F' + 1 := ⟨F - 1, by omega⟩
      have hlb := foldU_inScope htail hl
      have hxo := ih F' (by omega) x b xa.off d (by omega) hx hlb.2
      rw [← h2, at_eta] at hxo
      have hacc' : evalF cfg (.bin op acc b) d₀ =
          (evalF cfg b >>= fun vb => (pure v : EvalM Numeric) >>= fun va =>
            binEval cfg op 0 0 va vb) d := by
        rw [evalF_bin_same cfg op acc b (hp.trans hop.symm)]
        simp only [C06.bind_apply, hv]
        rcases evalF cfg b d with ⟨_ | _, _⟩ <;> rfl
      have hp' : qprioF (.bin op acc b) = p := hop
      rcases step_bin cfg F' node (.num v) oa xa rest' op (evalF cfg b) (pure v) d (h1 ▸ ho) hxo
        (fun d1 => by rw [C06.force_num]; exact ⟨rfl, rfl⟩) with
        ⟨w, d', hw, heq⟩ | ⟨y, d', hy, heq⟩
      · rw [heq]
        exact ihf hp' rest' F' w node d' d₀ h3 (by omega) (hacc'.trans hw) (by omega) hl
      · exact simD_err heq (foldU_evalF_err cfg htail hp' d₀ d' _ (hacc'.trans hy))
  | @cast p acc o x u e ts' ho hp1 hx htail ihf =>
    intro hp rest F v node d d₀ hr hF hv hsz hl
    match rest, hr with
    | oa :: xa :: rest', hr =>
      simp only [List.map_cons, List.cons.injEq] at hr
      obtain ⟨h1, h2, h3⟩ := hr
      simp only [sizeList] at hsz
      have hxs := C06.size_pos x
      have hos := C06.size_pos o
      obtain ⟨F', rfl⟩ : ∃ F', F = F' + 1 := ⟨F - 1, by omega⟩
      have hlb := foldU_inScope htail hl
      have hacc' : evalF cfg (.cast acc u) d₀ =
          ((pure v : EvalM Numeric) >>= castM (unitC u)) d := by
        rw [evalF_cast]
        simp only [C06.bind_apply, hv]
        rfl
      have hp' : qprioF (.cast acc u) = p := hp1.symm
      rcases step_cast cfg F' node (.num v) oa xa rest' (unitC u) (pure v) d (h1 ▸ ho)
        (unit_unitC xa u (h2 ▸ hx) hlb.2)
        (by rw [C06.force_num]; exact ⟨rfl, rfl⟩) with
        ⟨w, d', hw, heq⟩ | ⟨y, d', hy, heq⟩
      · rw [heq]
        exact ihf hp' rest' F' w node d' d₀ h3 (by omega) (hacc'.trans hw) (by omega) hl
      · exact simD_err heq (foldU_evalF_err cfg htail hp' d₀ d' _ (hacc'.trans hy))

end Anything.FU
