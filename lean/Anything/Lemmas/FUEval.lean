import Anything.Lemmas.FUDefs
import Anything.Lemmas.UQLog
/-!
# The full expression language — the evaluator on trees that represent an expression

`evalStatement : EvalStatement`: on a tree with `RepF t e` (and `InScopeF e`) the evaluator does what
the reference evaluation `evalF cfg e` says — same result up to the spans of errors (`FQ.strip`),
same description log, for every incoming log (`FQ.Sim`).

The proof is `FQ.evalOKF_all` (strong induction on the fuel, inner induction on the operator chain
of one OPERATION node) with the `qty` / `cast` cases of `C9Q.evalOKT_all` and the FN_CALL branch of
`UQ.eval_callU`. One step of the operator loop is isolated (`step_bin`, `step_cast`) for an
arbitrary delayed base, so that the first step of a chain (base: the delayed first operand) and the
later steps (base: the accumulated value) share one proof.
-/

namespace Anything.FU
open Anything Anything.Lexer Anything.Eval Anything.Spec Anything.Spec.Arith Anything.Spec.Decimal
open Anything.Spec.Quantity Anything.Spec.SI Anything.C06 Anything.QQ Anything.FQ Anything.UQ
open Anything.C9Q

/-! ### `evalF`, constructor by constructor -/

theorem evalF_bin_same (cfg : Cfg) (op : BinOp) (a b : FExprU) (h : qprioF a = op.prio) :
    evalF cfg (.bin op a b) =
      (evalF cfg a >>= fun va => evalF cfg b >>= fun vb => binEval cfg op 0 0 va vb) := by
  simp only [evalF, h, ↓reduceIte]

theorem evalF_bin_other (cfg : Cfg) (op : BinOp) (a b : FExprU) (h : qprioF a ≠ op.prio) :
    evalF cfg (.bin op a b) =
      (evalF cfg b >>= fun vb => evalF cfg a >>= fun va => binEval cfg op 0 0 va vb) := by
  simp only [evalF, h, ↓reduceIte]

theorem evalF_cast (cfg : Cfg) (a : FExprU) (u : List RTerm) :
    evalF cfg (.cast a u) = (evalF cfg a >>= castM (unitC u)) := by
  simp only [evalF]

theorem evalF_call1 (cfg : Cfg) (f : Fn) (a : FExprU) :
    evalF cfg (.call f a none) = (evalF cfg a >>= fun v => builtinM cfg f [v]) := by
  simp only [evalF]

theorem evalF_call2 (cfg : Cfg) (f : Fn) (a : FExprU) (n : Literal) :
    evalF cfg (.call f a (some n)) =
      (evalF cfg a >>= fun v => builtinM cfg f [v, plain (value n)]) := by
  simp only [evalF]

/-! ### Spans only label errors: the builtins -/

/-- The builtin of a call as the evaluator selects it, with the spans of the call. -/
def builtinAt (cfg : Cfg) (f : Fn) (s e : Nat) (args : List Numeric) : EvalM Numeric :=
  match f with
  | .round => builtinRound cfg s e args
  | .floor => builtinFloor s e args
  | .ceil => builtinCeil s e args

theorem one_spans (s e : Nat) (args : List Numeric) (g : Numeric → Numeric) :
    ∃ r, (∀ d, (one s e args >>= fun a => (pure (g a) : EvalM Numeric)) d = (r, d)) ∧
      (∀ d, (one 0 0 args >>= fun a => (pure (g a) : EvalM Numeric)) d = (strip r, d)) := by
  rcases args with _ | ⟨a, _ | ⟨b, t⟩⟩ <;> exact ⟨_, fun _ => rfl, fun _ => rfl⟩

/-- A builtin does not touch the log, and its spans only label the error. -/
theorem builtin_spans (cfg : Cfg) (f : Fn) (s e : Nat) (args : List Numeric) :
    ∃ r, (∀ d, builtinAt cfg f s e args d = (r, d)) ∧
      (∀ d, builtinM cfg f args d = (strip r, d)) := by
  cases f with
  | floor => exact one_spans s e args _
  | ceil => exact one_spans s e args _
  | round =>
    simp only [builtinAt, builtinM]
    rcases args with _ | ⟨a, _ | ⟨b, _ | ⟨c, t⟩⟩⟩
    · exact ⟨_, fun _ => rfl, fun _ => rfl⟩
    · exact ⟨_, fun _ => rfl, fun _ => rfl⟩
    · simp only [builtinRound]
      cases RatNum.toI32 b.value with
      | none => exact ⟨_, fun _ => rfl, fun _ => rfl⟩
      | some n =>
        simp only
        split_ifs <;> exact ⟨_, fun _ => rfl, fun _ => rfl⟩
    · exact ⟨_, fun _ => rfl, fun _ => rfl⟩

theorem sim_builtin (cfg : Cfg) (f : Fn) (s e : Nat) (args : List Numeric) (d : List Desc) :
    Sim (builtinAt cfg f s e args d) (builtinM cfg f args d) := by
  obtain ⟨r, h1, h2⟩ := builtin_spans cfg f s e args
  rw [h1, h2]
  exact ⟨rfl, rfl⟩

/-- The evaluator's dispatch on the name of the function. -/
theorem dispatch_name (cfg : Cfg) (f : Fn) (s e : Nat) (args : List Numeric)
    (other : EvalM Numeric) :
    (if String.ofList f.name == "round" then builtinRound cfg s e args
      else if String.ofList f.name == "floor" then builtinFloor s e args
      else if String.ofList f.name == "ceil" then builtinCeil s e args
      else other) = builtinAt cfg f s e args := by
  cases f <;> simp [Fn.name, builtinAt]

/-! ### Scope and errors along a chain -/

theorem foldU_inScope {R : Tree → FExprU → Prop} {p : Nat} {acc e : FExprU} {ts : List Tree}
    (h : FoldU R p acc ts e) : InScopeF e → InScopeF acc := by
  induction h with
  | nil p acc => exact id
  | cons _ _ _ _ ih => intro he; exact (ih he).1
  | cast _ _ _ _ ih => intro he; exact (ih he).1

theorem foldU_evalF_err (cfg : Cfg) {R : Tree → FExprU → Prop} {p : Nat} {acc e : FExprU}
    {ts : List Tree} (h : FoldU R p acc ts e) (hp : qprioF acc = p) (d₀ d' : List Desc)
    (y : EvalErr) (herr : evalF cfg acc d₀ = (.error y, d')) :
    evalF cfg e d₀ = (.error y, d') := by
  induction h with
  | nil p acc => exact herr
  | @cons p acc o x op b e rest _ hop _ _ ih =>
    refine ih hop ?_
    rw [evalF_bin_same cfg op acc b (hp.trans hop.symm)]
    simp only [C06.bind_apply, herr]
  | @cast p acc o x u e rest _ hp1 _ _ ih =>
    refine ih hp1.symm ?_
    rw [evalF_cast]
    simp only [C06.bind_apply, herr]

/-! ### One step of the operator loop -/

/-- An operator step from any delayed base `base` that the specification reads as `mbase`:
the right operand first, then the base, then the arithmetic. -/
theorem step_bin (cfg : Cfg) (F : Nat) (node : At) (base : Delayed) (oa xa : At) (rest : List At)
    (op : BinOp) (mb mbase : EvalM Numeric) (d : List Desc) (ho : oa.t.kind = opKind op)
    (hx : Sim (eval cfg F xa d) (mb d))
    (hbase : ∀ d1, Sim (force cfg F base d1) (mbase d1)) :
    (∃ w d', (mb >>= fun vb => mbase >>= fun va => binEval cfg op 0 0 va vb) d = (.ok w, d') ∧
      opFold cfg (F + 1) node base (oa :: xa :: rest) d = opFold cfg F node (.num w) rest d') ∨
    (∃ y d', (mb >>= fun vb => mbase >>= fun va => binEval cfg op 0 0 va vb) d =
        (.error (stripErr y), d') ∧
      opFold cfg (F + 1) node base (oa :: xa :: rest) d = (.error y, d')) := by
  rw [opFold_step cfg F node base oa xa rest op ho]
  simp only [C06.bind_apply]
  rcases hb1 : eval cfg F xa d with ⟨rb, d1⟩
  rcases hb2 : mb d with ⟨rb', d1'⟩
  rw [hb1, hb2] at hx
  obtain ⟨hrb, hd1⟩ := hx
  simp only at hrb hd1
  subst hd1
  cases rb with
  | error y =>
    simp only [strip] at hrb
    subst hrb
    exact Or.inr ⟨y, d1, rfl, rfl⟩
  | ok y =>
    simp only [strip] at hrb
    subst hrb
    simp only
    have h0 := hbase d1
    rcases ha1 : force cfg F base d1 with ⟨ra, d2⟩
    rcases ha2 : mbase d1 with ⟨ra', d2'⟩
    rw [ha1, ha2] at h0
    obtain ⟨hra, hd2⟩ := h0
    simp only at hra hd2
    subst hd2
    cases ra with
    | error y0 =>
      simp only [strip] at hra
      subst hra
      exact Or.inr ⟨y0, d2, rfl, rfl⟩
    | ok v =>
      simp only [strip] at hra
      subst hra
      simp only
      obtain ⟨r, hr1, hr2⟩ := binEval_spans cfg op node.off node.stop v y
      rw [hr1, hr2]
      cases r with
      | error z => exact Or.inr ⟨z, d2, rfl, rfl⟩
      | ok w => exact Or.inl ⟨w, d2, rfl, rfl⟩

/-- A `to` step from any delayed base: the target unit is read first (it neither fails nor
touches the log), then the base is forced, then `Compound::factor`. -/
theorem step_cast (cfg : Cfg) (F : Nat) (node : At) (base : Delayed) (oa xa : At) (rest : List At)
    (T : Compound) (mbase : EvalM Numeric) (d : List Desc) (ho : oa.t.kind = .OP_CAST)
    (hT : ∀ d1, Eval.unit xa.kids d1 = (.ok T, d1))
    (hbase : Sim (force cfg F base d) (mbase d)) :
    (∃ w d', (mbase >>= castM T) d = (.ok w, d') ∧
      opFold cfg (F + 1) node base (oa :: xa :: rest) d = opFold cfg F node (.num w) rest d') ∨
    (∃ y d', (mbase >>= castM T) d = (.error (stripErr y), d') ∧
      opFold cfg (F + 1) node base (oa :: xa :: rest) d = (.error y, d')) := by
  rw [opFold_cast_unfold cfg F node oa xa base rest ho]
  simp only [C06.bind_apply, hT]
  rcases ha1 : force cfg F base d with ⟨ra, d2⟩
  rcases ha2 : mbase d with ⟨ra', d2'⟩
  rw [ha1, ha2] at hbase
  obtain ⟨hra, hd2⟩ := hbase
  simp only at hra hd2
  subst hd2
  cases ra with
  | error y0 =>
    simp only [strip] at hra
    subst hra
    exact Or.inr ⟨y0, d2, rfl, rfl⟩
  | ok v =>
    simp only [strip] at hra
    subst hra
    simp only [castM]
    cases hf : Compound.factor T v.unit v.value with
    | error c => exact Or.inr ⟨_, d2, rfl, rfl⟩
    | ok o =>
      cases o with
      | none => exact Or.inr ⟨_, d2, rfl, rfl⟩
      | some w => exact Or.inl ⟨_, d2, rfl, rfl⟩

/-! ### The evaluator -/

/-- The statement proved by induction on the fuel. -/
def EvalOKU (cfg : Cfg) (f : Nat) : Prop :=
  ∀ (t : Tree) (e : FExprU) (off : Nat) (d : List Desc), 2 * size t ≤ f → RepF t e →
    InScopeF e → Sim (eval cfg f ⟨off, t⟩ d) (evalF cfg e d)

theorem simD_err {y : EvalErr} {d' : List Desc} {res : Except EvalErr Delayed × List Desc}
    {res' : Except EvalErr Numeric × List Desc} (h1 : res = (.error y, d'))
    (h2 : res' = (.error (stripErr y), d')) : SimD res res' := by
  subst h1 h2
  exact ⟨rfl, rfl⟩

/-- From the outcome of the operator loop to the outcome of the OPERATION node. -/
theorem sim_of_simD (cfg : Cfg) (G : Nat) {m : EvalM Delayed} {d : List Desc}
    {res' : Except EvalErr Numeric × List Desc} (h : SimD (m d) res') :
    Sim ((m >>= fun a => force cfg G a) d) res' := by
  simp only [C06.bind_apply]
  rcases hm : m d with ⟨rf, d3⟩
  rw [hm] at h
  obtain ⟨rf', d3'⟩ := res'
  obtain ⟨hd3, hm⟩ := h
  simp only at hd3 hm
  subst hd3
  cases rf with
  | error z =>
    cases rf' with
    | error z' => simp only at hm; subst hm; exact ⟨rfl, rfl⟩
    | ok u => simp at hm
  | ok dl =>
    cases dl with
    | node na => simp at hm
    | num u =>
      cases rf' with
      | error z' => simp at hm
      | ok u' =>
        simp only at hm
        subst hm
        simp only [C06.force_num]
        exact ⟨rfl, rfl⟩

theorem unitC_of {u : List RTerm} {T : Compound} (h : unitOf u = some T) : unitC u = T := by
  simp [unitC, h]

/-- `eval::unit` on a UNIT node spelling `u`, for every incoming log. -/
theorem unit_unitC (xa : At) (u : List RTerm) (hx : RepUnit xa.t u) (hu : UnitRuns u) :
    ∀ d, Eval.unit xa.kids d = (.ok (unitC u), d) := by
  intro d
  obtain ⟨T, hTu⟩ := hu.2
  have h := (unit_unitOf xa.t u T xa.off d hx hu hTu).1
  rw [at_eta] at h
  rw [unitC_of hTu]
  exact h

/-- The operator loop from a forced accumulator. -/
theorem fold_sim (cfg : Cfg) (N : Nat) (ih : ∀ f, f ≤ N → EvalOKU cfg f)
    {p : Nat} {acc e : FExprU} {ts : List Tree} (h : FoldU RepF p acc ts e) :
    qprioF acc = p →
    ∀ (rest : List At) (F : Nat) (v : Numeric) (node : At) (d d₀ : List Desc),
      rest.map (·.t) = ts → F ≤ N + 1 → evalF cfg acc d₀ = (.ok v, d) → 2 * sizeList ts ≤ F →
      InScopeF e → SimD (opFold cfg F node (.num v) rest d) (evalF cfg e d₀) := by
  induction h with
  | nil p acc =>
    intro _ rest F v node d d₀ hr _ hv _ _
    have : rest = [] := by simpa using hr
    subst this
    rw [hv]
    cases F <;> simp [opFold, pure, SimD]
  | @cons p acc o x op b e ts' ho hop hx htail ihf =>
    intro hp rest F v node d d₀ hr hF hv hsz hl
    match rest, hr with
    | oa :: xa :: rest', hr =>
      simp only [List.map_cons, List.cons.injEq] at hr
      obtain ⟨h1, h2, h3⟩ := hr
      simp only [sizeList] at hsz
      have hxs := C06.size_pos x
      have hos := C06.size_pos o
      obtain ⟨F', rfl⟩ : ∃ F', F = F' + 1 := ⟨F - 1, by omega⟩
      have hlb := foldU_inScope htail hl
      have hxo := ih F' (by omega) x b xa.off d (by omega) hx hlb.2
      rw [← h2, at_eta] at hxo
      have hacc' : evalF cfg (.bin op acc b) d₀ =
          (evalF cfg b >>= fun vb => (pure v : EvalM Numeric) >>= fun va =>
            binEval cfg op 0 0 va vb) d := by
        rw [evalF_bin_same cfg op acc b (hp.trans hop.symm)]
        simp only [C06.bind_apply, hv]
        rcases evalF cfg b d with ⟨_ | _, _⟩ <;> rfl
      have hp' : qprioF (.bin op acc b) = p := hop
      rcases step_bin cfg F' node (.num v) oa xa rest' op (evalF cfg b) (pure v) d (h1 ▸ ho) hxo
        (fun d1 => by rw [C06.force_num]; exact ⟨rfl, rfl⟩) with
        ⟨w, d', hw, heq⟩ | ⟨y, d', hy, heq⟩
      · rw [heq]
        exact ihf hp' rest' F' w node d' d₀ h3 (by omega) (hacc'.trans hw) (by omega) hl
      · exact simD_err heq (foldU_evalF_err cfg htail hp' d₀ d' _ (hacc'.trans hy))
  | @cast p acc o x u e ts' ho hp1 hx htail ihf =>
    intro hp rest F v node d d₀ hr hF hv hsz hl
    match rest, hr with
    | oa :: xa :: rest', hr =>
      simp only [List.map_cons, List.cons.injEq] at hr
      obtain ⟨h1, h2, h3⟩ := hr
      simp only [sizeList] at hsz
      have hxs := C06.size_pos x
      have hos := C06.size_pos o
      obtain ⟨F', rfl⟩ : ∃ F', F = F' + 1 := ⟨F - 1, by omega⟩
      have hlb := foldU_inScope htail hl
      have hacc' : evalF cfg (.cast acc u) d₀ =
          ((pure v : EvalM Numeric) >>= castM (unitC u)) d := by
        rw [evalF_cast]
        simp only [C06.bind_apply, hv]
        rfl
      have hp' : qprioF (.cast acc u) = p := hp1.symm
      rcases step_cast cfg F' node (.num v) oa xa rest' (unitC u) (pure v) d (h1 ▸ ho)
        (unit_unitC xa u (h2 ▸ hx) hlb.2)
        (by rw [C06.force_num]; exact ⟨rfl, rfl⟩) with
        ⟨w, d', hw, heq⟩ | ⟨y, d', hy, heq⟩
      · rw [heq]
        exact ihf hp' rest' F' w node d' d₀ h3 (by omega) (hacc'.trans hw) (by omega) hl
      · exact simD_err heq (foldU_evalF_err cfg htail hp' d₀ d' _ (hacc'.trans hy))

/-- `eval` on a NUMBER node spelling a literal without percent sign. -/
theorem eval_number (cfg : Cfg) (G : Nat) (a : At) (l : Literal) (d : List Desc)
    (hk : a.t.kind = .NUMBER) (ht : a.t.text = renderNumber l) (hl : LitOK l)
    (hp : l.percent = false) : eval cfg (G + 1) a d = (.ok (plain (value l)), d) := by
  simp only [eval, hk, ht, fromStr_lit l hl, value_percent_false l hp]
  rfl

/-- `eval` on an FN_CALL node whose name is a builtin's. -/
theorem eval_fnCall (cfg : Cfg) (G : Nat) (a nma arga : At) (morea : List At) (f : Fn)
    (hk : a.t.kind = .FN_CALL)
    (hLeq : a.kids.filter (fun k => k.t.hasChildren) = nma :: arga :: morea)
    (hk1 : nma.t.kind = .FN_NAME) (hk2 : arga.t.kind = .FN_ARGUMENTS)
    (hnt : nma.t.text = f.name) :
    eval cfg (G + 1) a =
      (evalArgs cfg G (arga.kids.filter (fun k => k.t.hasChildren)) >>= fun args =>
        builtinAt cfg f a.off a.stop args) := by
  have h1 : (nma.t.kind != Syntax.FN_NAME) = false := by rw [hk1]; rfl
  have h2 : (arga.t.kind != Syntax.FN_ARGUMENTS) = false := by rw [hk2]; rfl
  rw [eval]
  simp only [hk, hLeq, h1, h2, Bool.false_eq_true, ↓reduceIte, hnt, dispatch_name]

theorem evalOKU_all (cfg : Cfg) : ∀ f, EvalOKU cfg f := by
  intro f
  induction f using Nat.strong_induction_on with
  | _ f ih =>
    intro t e off d hsz hrep hl
    have hpos := C06.size_pos t
    obtain ⟨F, rfl⟩ : ∃ F, f = F + 1 := ⟨f - 1, by omega⟩
    have ih' : ∀ g, g ≤ F → EvalOKU cfg g := fun g hg => ih g (by omega)
    cases hrep with
    | @num _ l hk hc hp ht =>
      rw [eval_number cfg F ⟨off, t⟩ l d hk ht hl hp]
      exact ⟨rfl, rfl⟩
    | @pct id n ks l hk ht hp =>
      simp only [eval, At.kids, kids_node, kind_node, kidsAt, hk, ht, fromStr_lit l hl, evalF,
        value_percent_true l hp]
      exact ⟨by simp [pure, strip, plain], rfl⟩
    | @qty id v un rest more l u hk ht hp hop hun =>
      obtain ⟨hlit, huo⟩ := hl
      have hL : ((kidsAt (off + v.len) rest).filter (fun k => k.t.hasChildren)).map (·.t) =
          opKids rest := by rw [filter_kids_map, kidsAt_map]
      rw [hop] at hL
      obtain ⟨ua, morea, hLeq, hua, _⟩ := map_eq_cons hL
      obtain ⟨tl, hnn⟩ := nextNode_of_filter hLeq
      have hT := unit_unitC ua u (hua ▸ hun) huo d
      simp only [At.kids] at hT
      have hkind : (ua.t.kind != Syntax.UNIT) = false := by rw [hua, hun.1]; rfl
      have hs1 := opKids_size_le rest
      simp only [hop, sizeList, size_node] at hs1 hsz
      have pv := C06.size_pos v
      have pu := C06.size_pos un
      obtain ⟨F', rfl⟩ : ∃ F', F = F' + 1 := ⟨F - 1, by omega⟩
      have hval := eval_number cfg F' ⟨off, v⟩ l d hk ht hlit hp
      rw [eval]
      simp only [kind_node, At.kids, kids_node, kidsAt, hnn, hkind, Bool.false_eq_true,
        ↓reduceIte, C06.bind_apply, hval, hT, pure, evalF]
      exact ⟨rfl, rfl⟩
    | @fact _ p v u hk hc ht =>
      have hev : eval cfg (F + 1) ⟨off, t⟩ = lookup cfg ⟨off, t⟩ := by
        by_cases hm : factMore p = []
        · simp only [hm, ↓reduceIte] at hk; simp only [eval, hk]
        · simp only [hm, ↓reduceIte] at hk; simp only [eval, hk]
      rw [hev]
      have := sim_lookup cfg ⟨off, t⟩ d
      simp only [ht] at this
      simpa only [evalF] using this
    | @paren id ks x e' hop hx =>
      have hL := at_opKids ⟨off, .node id .OPERATION ks⟩
      simp only [kids_node, hop] at hL
      obtain ⟨xa, hLeq, hxa⟩ := map_eq_one hL
      have hs1 := opKids_size_le ks
      simp only [hop, sizeList, size_node] at hs1 hsz
      obtain ⟨F', rfl⟩ : ∃ F', F = F' + 1 := ⟨F - 1, by omega⟩
      simp only [eval, kind_node, hLeq, opFold, C06.bind_apply, pure, force]
      have := ih' F' (by omega) x e' xa.off d (by omega) hx hl
      rw [← hxa, at_eta] at this
      simpa only [evalF] using this
    | @chain id ks x₀ rest0 e₀ _ p hop hne hx0 hp0 hfold0 =>
      have hL := at_opKids ⟨off, .node id .OPERATION ks⟩
      simp only [kids_node, hop] at hL
      obtain ⟨x0a, L1, hLeq, hx0a, hL1⟩ := map_eq_cons hL
      have hs1 := opKids_size_le ks
      simp only [hop, sizeList, size_node] at hs1 hsz
      have p0 := C06.size_pos x₀
      have hl0 := foldU_inScope hfold0 hl
      have hbase : ∀ G, G ≤ F → 2 * size x₀ + 1 ≤ G → ∀ d1,
          Sim (force cfg G (.node x0a) d1) (evalF cfg e₀ d1) := by
        intro G hG hGs d1
        obtain ⟨G', rfl⟩ : ∃ G', G = G' + 1 := ⟨G - 1, by omega⟩
        rw [C06.force_node]
        have := ih' G' (by omega) x₀ e₀ x0a.off d1 (by omega) hx0 hl0
        rwa [← hx0a, at_eta] at this
      have key : SimD (opFold cfg F ⟨off, .node id .OPERATION ks⟩ (.node x0a) L1 d)
          (evalF cfg e d) := by
        cases hfold0 with
        | nil => exact absurd rfl hne
        | @cons _ _ o x₁ op b _ rest ho hopp hx1 htail =>
          obtain ⟨oa, L2, rfl, hoa, hL2⟩ := map_eq_cons hL1
          obtain ⟨x1a, resta, rfl, hx1a, hresta⟩ := map_eq_cons hL2
          simp only [sizeList] at hs1 hsz
          have p1 := C06.size_pos x₁
          have p2 := C06.size_pos o
          obtain ⟨F', rfl⟩ : ∃ F', F = F' + 1 := ⟨F - 1, by omega⟩
          have hlb := foldU_inScope htail hl
          have hxo := ih' F' (by omega) x₁ b x1a.off d (by omega) hx1 hlb.2
          rw [← hx1a, at_eta] at hxo
          have hacc' : evalF cfg (.bin op e₀ b) =
              (evalF cfg b >>= fun vb => evalF cfg e₀ >>= fun va => binEval cfg op 0 0 va vb) :=
            evalF_bin_other cfg op e₀ b (by rw [hopp]; exact hp0)
          have hp' : qprioF (.bin op e₀ b) = p := hopp
          rcases step_bin cfg F' ⟨off, .node id .OPERATION ks⟩ (.node x0a) oa x1a resta op
            (evalF cfg b) (evalF cfg e₀) d (hoa ▸ ho) hxo (hbase F' (by omega) (by omega)) with
            ⟨w, d', hw, heq⟩ | ⟨y, d', hy, heq⟩
          · rw [heq]
            exact fold_sim cfg (F' + 1) ih' htail hp' resta F' w _ d' d hresta (by omega)
              (by rw [hacc']; exact hw) (by omega) hl
          · exact simD_err heq (foldU_evalF_err cfg htail hp' d d' _ (by rw [hacc']; exact hy))
        | @cast _ _ o x₁ u _ rest ho hp1 hx1 htail =>
          obtain ⟨oa, L2, rfl, hoa, hL2⟩ := map_eq_cons hL1
          obtain ⟨x1a, resta, rfl, hx1a, hresta⟩ := map_eq_cons hL2
          simp only [sizeList] at hs1 hsz
          have p1 := C06.size_pos x₁
          have p2 := C06.size_pos o
          obtain ⟨F', rfl⟩ : ∃ F', F = F' + 1 := ⟨F - 1, by omega⟩
          have hlb := foldU_inScope htail hl
          have hp' : qprioF (.cast e₀ u) = p := hp1.symm
          rcases step_cast cfg F' ⟨off, .node id .OPERATION ks⟩ (.node x0a) oa x1a resta (unitC u)
            (evalF cfg e₀) d (hoa ▸ ho) (unit_unitC x1a u (hx1a ▸ hx1) hlb.2)
            (hbase F' (by omega) (by omega) d) with
            ⟨w, d', hw, heq⟩ | ⟨y, d', hy, heq⟩
          · rw [heq]
            exact fold_sim cfg (F' + 1) ih' htail hp' resta F' w _ d' d hresta (by omega)
              (by rw [evalF_cast]; exact hw) (by omega) hl
          · exact simD_err heq (foldU_evalF_err cfg htail hp' d d' _
              (by rw [evalF_cast]; exact hy))
      simp only [eval, kind_node, hLeq]
      exact sim_of_simD cfg F key
    | @call1 id aid ks aks more nm x f arg hop hnk hnt hak hx =>
      have hL := at_opKids ⟨off, .node id .FN_CALL ks⟩
      simp only [kids_node, hop] at hL
      obtain ⟨nma, L1, hLeq, hnma, hL1⟩ := map_eq_cons hL
      obtain ⟨arga, morea, rfl, harga, _⟩ := map_eq_cons hL1
      have hA := at_opKids arga
      rw [harga] at hA
      simp only [kids_node, hak] at hA
      obtain ⟨xa, hAeq, hxa⟩ := map_eq_one hA
      have hs1 := opKids_size_le ks
      have hs2 := opKids_size_le aks
      simp only [hop, hak, sizeList, size_node] at hs1 hs2 hsz
      have p0 := C06.size_pos nm
      obtain ⟨F', rfl⟩ : ∃ F', F = F' + 1 := ⟨F - 1, by omega⟩
      have hr := ih' F' (by omega) x arg xa.off d (by omega) hx hl.1
      rw [← hxa, at_eta] at hr
      rw [evalF_call1, eval_fnCall cfg (F' + 1) _ nma arga morea f rfl hLeq (hnma ▸ hnk)
        (by rw [harga]; rfl) (hnma ▸ hnt), hAeq]
      simp only [evalArgs, C06.bind_apply]
      rcases hb1 : eval cfg F' xa d with ⟨ra, d1⟩
      rcases hb2 : evalF cfg arg d with ⟨ra', d1'⟩
      rw [hb1, hb2] at hr
      obtain ⟨hra, hd1⟩ := hr
      simp only at hra hd1
      subst hd1
      cases ra with
      | error y =>
        simp only [strip] at hra
        subst hra
        exact ⟨rfl, rfl⟩
      | ok a =>
        simp only [strip] at hra
        subst hra
        simp only [pure]
        exact sim_builtin cfg f _ _ [a] d1
    | @call2 id aid ks aks more nm x y f arg n hop hnk hnt hak hx hyk hyc hnp hyt =>
      have hL := at_opKids ⟨off, .node id .FN_CALL ks⟩
      simp only [kids_node, hop] at hL
      obtain ⟨nma, L1, hLeq, hnma, hL1⟩ := map_eq_cons hL
      obtain ⟨arga, morea, rfl, harga, _⟩ := map_eq_cons hL1
      have hA := at_opKids arga
      rw [harga] at hA
      simp only [kids_node, hak] at hA
      obtain ⟨xa, A1, hAeq, hxa, hA1⟩ := map_eq_cons hA
      obtain ⟨ya, hA2, hya⟩ := map_eq_one hA1
      subst hA2
      have hs1 := opKids_size_le ks
      have hs2 := opKids_size_le aks
      simp only [hop, hak, sizeList, size_node] at hs1 hs2 hsz
      have p0 := C06.size_pos nm
      have py := C06.size_pos y
      obtain ⟨F', rfl⟩ : ∃ F', F = F' + 3 := ⟨F - 3, by omega⟩
      have hr := ih' (F' + 2) (by omega) x arg xa.off d (by omega) hx hl.1
      rw [← hxa, at_eta] at hr
      have hy : ∀ d1, eval cfg (F' + 1) ya d1 = (.ok (plain (value n)), d1) := fun d1 =>
        eval_number cfg F' ya n d1 (hya ▸ hyk) (hya ▸ hyt) (hl.2 n rfl) hnp
      rw [evalF_call2, eval_fnCall cfg (F' + 3) _ nma arga morea f rfl hLeq (hnma ▸ hnk)
        (by rw [harga]; rfl) (hnma ▸ hnt), hAeq]
      simp only [evalArgs, C06.bind_apply]
      rcases hb1 : eval cfg (F' + 2) xa d with ⟨ra, d1⟩
      rcases hb2 : evalF cfg arg d with ⟨ra', d1'⟩
      rw [hb1, hb2] at hr
      obtain ⟨hra, hd1⟩ := hr
      simp only at hra hd1
      subst hd1
      cases ra with
      | error z =>
        simp only [strip] at hra
        subst hra
        exact ⟨rfl, rfl⟩
      | ok a =>
        simp only [strip] at hra
        subst hra
        simp only [hy, pure]
        exact sim_builtin cfg f _ _ [a, plain (value n)] d1

/-- **The evaluator on trees that represent an expression of the full language.** -/
theorem evalStatement : EvalStatement :=
  fun cfg t e off fuel d h hl hf => evalOKU_all cfg fuel t e off d hf h hl

end Anything.FU
