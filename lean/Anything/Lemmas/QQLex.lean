import Anything.Lemmas.QQLex2
/-!
# Quantity expressions end to end — the lexer on a rendered quantity expression

The analogue of `Lemmas/C06Lex.lean` for `QExpr` (helper files: `QQLex1` — rendering in projection
form, `renderUnit_items`, number / word / keyword tokens; `QQLex2` — `lex_unit`).

* `lex_q`: on the rendering of `e` under an admissible layout (`LayoutOKQ`) followed by a text that
  does not continue the last token (`StopQ`), the model's lexer produces exactly `toksQ e ws`;
* `lex_renderQ`, `lex_queryQ`: the corollaries for `Lexer.lex`;
* `queryLayoutOKQ_nil`: the default layout is admissible (`UnitsLexOK`).
-/

namespace Anything.QQ
open Anything Anything.Lexer Anything.Spec Anything.Spec.Arith Anything.Spec.Decimal
open Anything.Spec.Quantity Anything.C06 Anything.Lemmas.Number

/-! ### What may follow a rendered quantity expression -/

/-- What may follow the rendering of `e` for the lexer to cut the last token of `e` where the
rendering ends: after a written unit expression (`endsUnit e`) no word character and no dot,
otherwise (`e` ends with a number literal or a `)`) anything that does not continue a number —
for instance the keyword `to`: `3to m`, `(1 m)to cm`. -/
def StopQ (e : QExpr) (rest : List Char) : Prop :=
  (endsUnit e = true → UnitStop rest) ∧ (endsUnit e = false → NumEnd rest)

theorem exprStop_unitStop {s : List Char} (h : ExprStop s) : UnitStop s := by
  intro c r hs
  rcases h c r hs with hw | hm
  · refine ⟨?_, (ws_not_num hw).2.1⟩
    cases hc : isWordChar c with
    | false => rfl
    | true => rw [wordChar_noWS hc] at hw; exact absurd hw Bool.false_ne_true
  · have : ∀ c ∈ stops, isWordChar c = false ∧ c ≠ '.' := by decide
    exact this c hm

/-- `ExprStop` is sufficient after any expression. -/
theorem exprStop_stopQ (e : QExpr) {s : List Char} (h : ExprStop s) : StopQ e s :=
  ⟨fun _ => exprStop_unitStop h, fun _ => numStop_numEnd (exprStop_numStop h)⟩

theorem ws_not_word {c : Char} (h : isWhitespace c = true) : isWordChar c = false := by
  cases hc : isWordChar c with
  | false => rfl
  | true => rw [wordChar_noWS hc] at h; exact absurd h Bool.false_ne_true

/-- A text that begins with white space stops everything. -/
theorem blank_unitStop {b s : List Char} (hb : Blank b) (hne : b ≠ []) : UnitStop (b ++ s) := by
  cases b with
  | nil => exact absurd rfl hne
  | cons x b' =>
    have hx := hb x (by simp)
    exact head_cons ⟨ws_not_word hx, (ws_not_num hx).2.1⟩

theorem blank_numStop {b s : List Char} (hb : Blank b) (hs : NumStop s) : NumStop (b ++ s) :=
  head_append (fun c hc => by
    obtain ⟨a1, a2, a3, a4, _⟩ := ws_not_num (hb c hc)
    exact ⟨a1, a2, a3, a4⟩) hs

/-! ### The first character of a rendering -/

theorem renderNumber_head (l : Literal) (hwf : l.WF) :
    ∃ c r, renderNumber l = c :: r ∧ c ∈ operandStarts ∧
      (l.sign.isNone = false → c ∈ signedStarts) := by
  rw [renderNumber_eq]
  cases hs : l.sign with
  | some sg => cases sg <;> exact ⟨_, _, rfl, by decide, fun _ => by decide⟩
  | none =>
    simp only [renderSign, List.nil_append, Option.isNone_none, reduceCtorEq, false_implies,
      and_true]
    cases hi : l.int with
    | cons d ds =>
      have : d < 10 := hwf.1 d (by simp [hi])
      exact ⟨digitChar d, List.map digitChar ds ++ (renderFrac l.frac ++ renderExp l.exp),
        by simp [body, hi], digitChar_mem this⟩
    | nil =>
      cases hf : l.frac with
      | none =>
        have := hwf.2.2.1
        simp [hi, fracDigits, hf] at this
      | some fs => exact ⟨'.', List.map digitChar fs ++ renderExp l.exp,
          by simp [body, hi, hf, renderFrac], by decide⟩

/-- The first character of a rendered quantity expression. -/
theorem render_headQ : ∀ (e : QExpr) (ws : Layout), LayoutOKQ e ws →
    ∃ c r, (Quantity.render e ws).1 = c :: r ∧ c ∈ operandStarts ∧
      (startsUnsignedQ e = false → c ∈ signedStarts)
  | .num l, ws, h => by
    obtain ⟨c, r, hr, hc, hsg⟩ := renderNumber_head l h
    rw [render_num]
    exact ⟨c, r, hr, hc, hsg⟩
  | .qty l u, ws, h => by
    obtain ⟨c, r, hr, hc, hsg⟩ := renderNumber_head l h.1
    rw [render_qty]
    exact ⟨c, r ++ blank1 ws ++ renderUnit u, by simp [hr], hc, hsg⟩
  | .bin op a b, ws, h => by
    obtain ⟨c, r, hr, hc, hsg⟩ := render_headQ a ws h.1
    rw [render_binQ]
    exact ⟨c, _, by simp only [hr, List.cons_append]; rfl, hc, hsg⟩
  | .paren e, ws, _ => by
    rw [render_parenQ]
    exact ⟨'(', _, by simp only [List.cons_append, List.nil_append]; rfl, by decide,
      fun _ => by decide⟩
  | .cast e u, ws, h => by
    obtain ⟨c, r, hr, hc, hsg⟩ := render_headQ e ws h.1
    rw [render_cast]
    exact ⟨c, _, by simp only [hr, List.cons_append]; rfl, hc, hsg⟩
  | .fact _ _ _, _, h => h.elim

/-! ### Lexing a rendered quantity expression -/

theorem renderUnit_noWS (u : List RTerm) (hu : UnitLexOK u) (rest : List Char) :
    NoWS (renderUnit u ++ rest) := by
  obtain ⟨c, r, hcr, hc⟩ := renderUnit_head u hu
  rw [hcr]
  exact head_cons (wordChar_noWS hc)

theorem renderUnit_ne_nil (u : List RTerm) (hu : UnitLexOK u) : renderUnit u ≠ [] := by
  obtain ⟨c, r, hcr, _⟩ := renderUnit_head u hu
  rw [hcr]; simp

/-- After the number of a literal with unit: a blank, or the glued unit. -/
theorem numEnd_unit {b : List Char} {u : List RTerm} (hu : UnitLexOK u) (hb : Blank b)
    (hg : b = [] → GlueOK (renderUnit u)) (rest : List Char) :
    NumEnd (b ++ (renderUnit u ++ rest)) := by
  cases b with
  | nil =>
    show NumEnd (renderUnit u ++ rest)
    exact glueOK_numEnd (glueOK_append (hg rfl) (renderUnit_ne_nil u hu))
  | cons x b' =>
    obtain ⟨a1, a2, a3, a4, _⟩ := ws_not_num (hb x (by simp))
    exact numStop_numEnd (head_cons ⟨a1, a2, a3, a4⟩)

/-- After the left operand of a cast: a blank and the keyword. -/
theorem stopQ_to (e : QExpr) {b1 : List Char} (hb : Blank b1)
    (hne : endsUnit e = true → b1 ≠ []) (rest : List Char) :
    StopQ e (b1 ++ (['t', 'o'] ++ rest)) := by
  constructor
  · intro he; exact blank_unitStop hb (hne he)
  · intro _
    exact numStop_numEnd (blank_numStop hb (head_cons (by decide)))

theorem lex_q : ∀ (e : QExpr) (ws : Layout) (rest : List Char) (ts : List Token),
    LayoutOKQ e ws → StopQ e rest → Lexes rest ts →
    Lexes ((Quantity.render e ws).1 ++ rest) (toksQ e ws ++ ts)
  | .num l, ws, rest, ts, hl, hs, h => by
    rw [render_num]
    simp only [toksQ, List.cons_append, List.nil_append]
    exact lex_number' hl (hs.2 rfl) h
  | .qty l u, ws, rest, ts, hl, hs, h => by
    obtain ⟨hwf, hu, hb, hg⟩ := hl
    rw [render_qty]
    simp only [toksQ, List.append_assoc, List.cons_append, List.nil_append]
    exact lex_number' hwf (numEnd_unit hu hb hg rest)
      (lex_blank hb (renderUnit_noWS u hu rest) (lex_unit u hu (hs.1 rfl) h))
  | .bin op a b, ws, rest, ts, hl, hs, h => by
    obtain ⟨ha, hb1, hb2, hb, hsg, _⟩ := hl
    obtain ⟨c, r, hcr, hc, hcs⟩ := render_headQ b _ hb
    rw [render_binQ]
    simp only [toksQ, List.append_assoc]
    obtain ⟨ao1, ao2⟩ := after_op (rest := rest) hb2 hcr hc
    refine lex_q a ws _ _ ha (exprStop_stopQ a (exprStop_blank hb1 (sym_stop op _)))
      (lex_blank hb1 (sym_noWS op _) (lex_op ao1 (fun hop => ao2 fun hnil => hcs (hsg hop hnil))
        (lex_blank hb2 (noWS_of_start hcr hc rest) (lex_q b _ rest ts hb hs h))))
  | .paren e, ws, rest, ts, hl, hs, h => by
    obtain ⟨hb1, he, hb2⟩ := hl
    obtain ⟨c, r, hcr, hc, _⟩ := render_headQ e _ he
    rw [render_parenQ]
    simp only [toksQ, List.append_assoc]
    exact lex_open (lex_blank hb1 (noWS_of_start hcr hc _)
      (lex_q e _ _ _ he (exprStop_stopQ e (exprStop_blank hb2 (head_cons (Or.inr (by decide)))))
        (lex_blank hb2 (head_cons (by decide)) (lex_close h))))
  | .cast e u, ws, rest, ts, hl, hs, h => by
    obtain ⟨he, hu, hb1, hb2, hne2, hne1⟩ := hl
    rw [render_cast]
    simp only [toksQ, List.append_assoc]
    exact lex_q e ws _ _ he (stopQ_to e hb1 hne1 _)
      (lex_blank hb1 (head_cons (by decide))
        (lex_to (unitStop_wordStop (blank_unitStop hb2 hne2))
          (lex_blank hb2 (renderUnit_noWS u hu rest) (lex_unit u hu (hs.1 rfl) h))))
  | .fact _ _ _, _, _, _, hl, _, _ => hl.elim

/-- The lexer on a rendered quantity expression followed by `rest`. -/
theorem lex_renderQ (e : QExpr) (ws : Layout) (rest : List Char) (h : LayoutOKQ e ws)
    (hs : ExprStop rest) :
    Lexer.lex ((Quantity.render e ws).1 ++ rest) = toksQ e ws ++ Lexer.lex rest :=
  lexes_lex (lex_q e ws rest _ h (exprStop_stopQ e hs) (lexes_lex_self rest))

/-- The lexer on a rendered query. -/
theorem lex_queryQ (e : QExpr) (ws : Layout) (h : QueryLayoutOKQ e ws) :
    Lexer.lex (Quantity.renderQuery e ws) = queryToksQ e ws := by
  obtain ⟨hb0, he, hb1⟩ := h
  obtain ⟨c, r, hcr, hc, _⟩ := render_headQ e _ he
  apply lexes_lex
  have : Quantity.renderQuery e ws = blank1 ws ++ ((Quantity.render e (rest1 ws)).1 ++
      (blank1 (afterQ e (rest1 ws)) ++ [])) := by
    simp [renderQuery_eq]
  rw [this]
  have h2 : queryToksQ e ws = blankTok (blank1 ws) ++ (toksQ e (rest1 ws) ++
      (blankTok (blank1 (afterQ e (rest1 ws))) ++ [])) := by
    simp [queryToksQ]
  rw [h2]
  exact lex_blank hb0 (noWS_of_start hcr hc _)
    (lex_q e _ _ _ he (exprStop_stopQ e (exprStop_blank hb1 (head_nil _)))
      (lex_blank hb1 (head_nil _) lexes_nil))


/-! ### The default layout (one space at every blank position) is admissible -/

/-- Every written unit expression of the expression is spelled with lexer words (`UnitLexOK`);
no looked-up fact. -/
def UnitsLexOK : QExpr → Prop
  | .num _ => True
  | .qty _ u => UnitLexOK u
  | .bin _ a b => UnitsLexOK a ∧ UnitsLexOK b
  | .paren e => UnitsLexOK e
  | .cast e u => UnitsLexOK e ∧ UnitLexOK u
  | .fact _ _ _ => False

theorem afterQ_nil : ∀ e : QExpr, (Quantity.render e []).2 = []
  | .num l => by rw [render_num]
  | .qty l u => by rw [render_qty]; rfl
  | .bin op a b => by
    rw [render_binQ]
    simp only [afterQ, afterQ_nil a, rest1_nil]
    exact afterQ_nil b
  | .paren e => by
    rw [render_parenQ]
    simp only [afterQ, rest1_nil, afterQ_nil e]
  | .cast e u => by
    rw [render_cast]
    simp only [afterQ, afterQ_nil e, rest1_nil]
  | .fact _ _ _ => by rw [render_fact]

theorem blank1_nil_ne : blank1 [] ≠ [] := by
  simp [blank1, nextBlank]

theorem layoutOKQ_nil : ∀ e : QExpr, WFQ e → UnitsLexOK e → LayoutOKQ e []
  | .num l, h, _ => h
  | .qty l u, h, hu => ⟨h, hu, blank_default, fun hb => absurd hb blank1_nil_ne⟩
  | .bin op a b, h, hu => by
    simp only [WFQ] at h
    simp only [LayoutOKQ, afterQ, afterQ_nil a, rest1_nil]
    exact ⟨layoutOKQ_nil a h.1 hu.1, blank_default, blank_default, layoutOKQ_nil b h.2.1 hu.2,
      fun _ hb => absurd hb blank1_nil_ne, fun _ _ => blank1_nil_ne⟩
  | .paren e, h, hu => by
    simp only [WFQ] at h
    simp only [LayoutOKQ]
    refine ⟨blank_default, layoutOKQ_nil e h hu, ?_⟩
    show Blank (blank1 (Quantity.render e []).2)
    rw [afterQ_nil e]; exact blank_default
  | .cast e u, h, hu => by
    simp only [WFQ] at h
    simp only [LayoutOKQ, afterQ, afterQ_nil e, rest1_nil]
    exact ⟨layoutOKQ_nil e h hu.1, hu.2, blank_default, blank_default, blank1_nil_ne,
      fun _ => blank1_nil_ne⟩
  | .fact _ _ _, h, _ => h.elim

/-- Every well-formed quantity expression whose units are spelled with lexer words has an
admissible layout: the default one. -/
theorem queryLayoutOKQ_nil (e : QExpr) (hwf : WFQ e) (hu : UnitsLexOK e) :
    QueryLayoutOKQ e [] := by
  refine ⟨blank_default, layoutOKQ_nil e hwf hu, ?_⟩
  show Blank (blank1 (Quantity.render e []).2)
  rw [afterQ_nil e]; exact blank_default

end Anything.QQ
