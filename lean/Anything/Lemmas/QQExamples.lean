import Anything.Lemmas.QQLaws
/-!
# Quantity expressions end to end — sample data for the non-vacuity examples of
`Props/QuantityQuery.lean`

Concrete literals, written unit expressions and one expression, with the (kernel-evaluated) checks
that they are in the scope of the theorems.
-/

namespace Anything.QQ.Ex
open Anything Anything.Eval Anything.Spec Anything.Spec.Arith Anything.Spec.Decimal
open Anything.Spec.Quantity Anything.Spec.SI Anything.C06 Anything.QQ

/-- A natural-number literal with the given decimal digits. -/
def natLit (ds : List Nat) : Literal :=
  { sign := none, int := ds, frac := none, exp := none, percent := false }

/-- A written factor: prefix literal, name literal, power. -/
def T (p n : String) (k : Int) : RTerm := ⟨p.toList, n.toList, k⟩

def ft : List RTerm := [T "" "ft" 1]
def inch : List RTerm := [T "" "in" 1]
def cm : List RTerm := [T "c" "m" 1]
def m : List RTerm := [T "" "m" 1]
def s : List RTerm := [T "" "s" 1]
def kmps2 : List RTerm := [T "k" "m" 1, T "" "s" (-2)]

/-- `1 ft + 2 in to cm`. -/
def exCast : QExpr := .cast (.bin .add (.qty (natLit [1]) ft) (.qty (natLit [2]) inch)) cm
/-- Its layout: `1ft+ 2in to cm`. -/
def exLayout : Layout := [[], [], [], [' '], [], [' '], [' '], [], []]

theorem unitOK_ft : UnitOK ft := unitOK_of_check (by decide +kernel)
theorem unitOK_inch : UnitOK inch := unitOK_of_check (by decide +kernel)
theorem unitOK_cm : UnitOK cm := unitOK_of_check (by decide +kernel)
theorem unitOK_m : UnitOK m := unitOK_of_check (by decide +kernel)
theorem unitOK_s : UnitOK s := unitOK_of_check (by decide +kernel)
theorem unitOK_kmps2 : UnitOK kmps2 := unitOK_of_check (by decide +kernel)

theorem litOKQ_digit (d : Nat) (h : d < 10) : LitOKQ (natLit [d]) := by
  refine ⟨⟨⟨?_, ?_, ?_, ?_⟩, ?_, ?_⟩, rfl⟩ <;> simp [natLit, fracDigits, Number.u32Max, h]

end Anything.QQ.Ex
