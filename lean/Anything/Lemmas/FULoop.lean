import Anything.Lemmas.FUFrames
import Anything.Lemmas.FUParseDefs
import Anything.Lemmas.UQParse
/-!
# The full expression language — the grammar's operator loop on the tokens of a rendered expression

`Lemmas/UQParse.lean` over `RepF` (calls and percent literals are atoms read by `Grammar.value`):
`reduce` / `closeAll` simulate the specification-level machine of `Lemmas/FUShift.lean`, the loop
`opLoop` reads the flat form of an expression (`LoopSpecF`), and `operation` on a whole expression
builds ONE tree that represents it (`op_of_loopF : LoopSpecF e → OpSpecF e`).
-/

namespace Anything.FU
open Anything Anything.Parser Anything.Grammar Anything.PTotal Anything.Spec.Arith
open Anything.Spec.Quantity Anything.C06 Anything.QQ Anything.UQ

/-! ### Follow sets -/

/-- The left operand of an operator: `*`, `/`, `^`, `to` are separated from a unit. -/
theorem followsF_op (a : FExprU) (b1 : List Char) (op : QOp) (rest : List Token)
    (h : endsUnitF a = true →
      (op = .bin .mul ∨ op = .bin .div ∨ op = .bin .pow ∨ op = .cast) → b1 ≠ []) :
    FollowsF a (blankTok b1 ++ (qopTok op :: rest)) := by
  unfold FollowsF
  split
  · rename_i hu
    refine ⟨blankTok b1, qopTok op :: rest, rfl, allWS_blankTok b1, followKindC_qopTok op rest, ?_⟩
    intro hnil
    have hb := blankTok_eq_nil hnil
    cases op with
    | bin b =>
      cases b with
      | add => exact Or.inl rfl
      | sub => exact Or.inr (Or.inl rfl)
      | mul => exact absurd hb (h hu (by simp))
      | div => exact absurd hb (h hu (by simp))
      | pow => exact absurd hb (h hu (by simp))
    | cast => exact absurd hb (h hu (by simp))
  · exact ⟨blankTok b1, qopTok op :: rest, rfl, allWS_blankTok b1, followKindC_qopTok op rest⟩

theorem followsF_end (e : FExprU) (Wk K' : List Token) (hwk : AllWS Wk)
    (hend : EndKindC (headKind K')) : FollowsF e (Wk ++ K') := by
  unfold FollowsF
  split
  · exact ⟨Wk, K', rfl, hwk, endKindC_follow hend, fun _ => by
      rcases hend with h | h | h <;> simp [h]⟩
  · exact ⟨Wk, K', rfl, hwk, endKindC_follow hend⟩

/-! ### `reduce` simulates `reduceF` -/

theorem reduceF_lt {cur : FOpd} {acc : FExprU} {op o : QOp} {st : StackF} (h : op.prio < o.prio) :
    reduceF cur op ((acc, o) :: st) = reduceF (.ex (mkF o acc cur)) op st := by
  simp [reduceF, h]

theorem reduceF_eq {cur : FOpd} {acc : FExprU} {op o : QOp} {st : StackF} (h1 : ¬ op.prio < o.prio)
    (h2 : ¬ o.prio < op.prio) :
    reduceF cur op ((acc, o) :: st) = (mkF o acc cur, op) :: st := by
  simp [reduceF, h1, h2]

/-- An operand that is a unit is followed by `to` only. -/
def OpFitsF (ecur : FOpd) (op : QOp) : Prop := ∀ u, ecur = .un u → op = .cast

theorem qprioF_mk {o : QOp} {acc : FExprU} {b : FOpd} (hm : MatchF o b) :
    qprioF (mkF o acc b) = o.prio := by
  cases o <;> cases b <;> first | rfl | exact absurd hm (by simp [MatchF])

/-- The result of `reduce`, described against the specification-level `reduceF`. -/
def ReduceOutF (P : List Tree) (ecur : FOpd) (op : QOp) (st : StackF)
    (stack' : List (Nat × Nat × Bool)) (b' : Builder) : Prop :=
  ∃ G1 Y v st1 c1 stack1, reduceF ecur op st = (v, op) :: st1 ∧
    stack' = (c1, op.prio, op.isTo) :: stack1 ∧ b'.forest = P ++ G1 ++ Y ∧
    StackOKF b' P.length G1 stack1 st1 ∧ OpenSegF op.prio Y v ∧ Pos b' c1 (P.length + G1.length)

theorem reduce_simF (cur : Nat) (op : QOp) (P : List Tree) :
    ∀ (stack : List (Nat × Nat × Bool)) (st : StackF) (G : List Tree) (x : Tree) (ecur : FOpd)
      {s : PState}, StackOKF s.b P.length G stack st → st ≠ [] → s.b.forest = P ++ G ++ [x] →
      RepOpdF x ecur → WTf st ecur → OpFitsF ecur op → (∀ e, ecur = .ex e → op.prio < qprioF e) →
      C06.Good s.b → NoNext s.b →
      (topPrioF st < op.prio → Pos s.b cur (P.length + G.length)) →
      Tot (reduce cur op.prio op.isTo stack) s (fun stack' s' =>
        s'.toks = s.toks ∧ C06.Good s'.b ∧ NoNext s'.b ∧ Ext P.length s.b s'.b ∧
        ReduceOutF P ecur op st stack' s'.b) := by
  intro stack
  induction stack with
  | nil =>
    intro st G x ecur s hso hne
    cases hso
    exact absurd rfl hne
  | cons f rest ih =>
    intro st G x ecur s hso _ hf hx hwt hfit hpe hg hn hcur
    cases hso with
    | @cons G' S c acc o _ st' hso' hseg hpos =>
    have hm := wtF_match hwt
    unfold reduce
    by_cases h1 : op.prio < o.prio
    · -- close the frame
      simp only [h1, ↓reduceIte]
      have hf' : s.b.forest = P ++ G' ++ (S ++ [x]) := by rw [hf]; simp
      obtain ⟨htk, hdr⟩ := take_drop_at P G' (S ++ [x])
      refine tot_seq (closeAt_wrap .OPERATION hg hn hpos (by rw [hf']; simp))
        fun _ s1 ⟨ht1, ⟨id, hf1⟩, g1, n1, p1, e1⟩ => ?_
      rw [hf', htk, hdr] at hf1
      have hN := segOKF_close id hseg hx hm
      have hso1 : StackOKF s1.b P.length G' rest st' := hso'.mono e1
      have hle : P.length ≤ P.length + G'.length := Nat.le_add_right _ _
      have hOpen : OpenSegF op.prio [Tree.node id .OPERATION (S ++ [x])] (mkF o acc ecur) :=
        openSegF_single (W := []) op.prio wsTrees_nil hN (by rw [qprioF_mk hm]; omega)
      have hro : ∀ stack' b', ReduceOutF P (.ex (mkF o acc ecur)) op st' stack' b' →
          ReduceOutF P ecur op ((acc, o) :: st') stack' b' := by
        intro stack' b' hr
        unfold ReduceOutF at hr ⊢
        rw [reduceF_lt h1]; exact hr
      cases hso' with
      | nil =>
        exact tot_pure ⟨ht1, g1, n1, e1.mono hle, hro _ _
          ⟨[], _, _, [], c, [], rfl, rfl, hf1, .nil, hOpen, p1⟩⟩
      | @cons G'' S2 c2 acc2 o2 rest2 st'' hso'' hseg2 hpos2 =>
        simp only
        by_cases h3 : o2.prio ≥ op.prio
        · simp only [h3, ↓reduceIte]
          refine tot_mono (ih ((acc2, o2) :: st'') (G'' ++ S2) _ (.ex (mkF o acc ecur)) hso1 (by simp)
            hf1 hN (wtF_close hwt) (fun u hu => nomatch hu)
            (fun e he => by cases he; rw [qprioF_mk hm]; exact h1) g1 n1
            (fun hlt => by simp only [topPrioF] at hlt; omega))
            fun stack' s2 ⟨ht2, g2, n2, e2, hout⟩ => ?_
          exact ⟨ht2.trans ht1, g2, n2, (e1.mono hle).trans e2, hro _ _ hout⟩
        · simp only [h3, ↓reduceIte]
          refine tot_pure ⟨ht1, g1, n1, e1.mono hle, hro _ _ ⟨G'' ++ S2, _, _, _, c, _, ?_, rfl, hf1,
            hso1, hOpen, p1⟩⟩
          exact reduceF_push _ op _ (by simp only [topPrioF]; omega)
    · simp only [h1, ↓reduceIte]
      by_cases h2 : op.prio > o.prio
      · -- push a new frame
        simp only [h2, ↓reduceIte]
        have hex : ∃ e, ecur = .ex e := by
          cases ecur with
          | ex e => exact ⟨e, rfl⟩
          | un u =>
            have := hfit u rfl
            subst this
            have := qop_prio_pos o
            simp only [QOp.prio_cast] at h2
            omega
        obtain ⟨e, rfl⟩ := hex
        refine tot_pure ⟨rfl, hg, hn, Ext.refl (by rw [hf]; simp), G' ++ S, [x], e, _, cur, _,
          ?_, rfl, hf, .cons hso' hseg hpos,
          openSegF_single (W := []) op.prio wsTrees_nil hx (by have := hpe e rfl; omega),
          hcur (by simpa [topPrioF] using h2)⟩
        exact reduceF_push _ op _ (by simpa [topPrioF] using h2)
      · -- same priority: the frame absorbs the operand
        simp only [h2, ↓reduceIte]
        have heq : o.prio = op.prio := by omega
        refine tot_pure ⟨rfl, hg, hn, Ext.refl (by rw [hf]; simp), G', S ++ [x], _, st', c, rest,
          reduceF_eq h1 (by omega), by rw [heq, isTo_eq_of_prio heq], by rw [hf]; simp, hso',
          heq ▸ segOKF_extend hseg hx hm, hpos⟩

/-! ### `closeAll` simulates `closeAllF` -/

theorem closeAll_simF (P : List Tree) :
    ∀ (stack : List (Nat × Nat × Bool)) (st : StackF) (G : List Tree) (x : Tree) (ecur : FOpd)
      {s : PState}, StackOKF s.b P.length G stack st → s.b.forest = P ++ G ++ [x] →
      RepOpdF x ecur → WTf st ecur → C06.Good s.b → NoNext s.b →
      Tot (closeAll stack) s (fun _ s' =>
        s'.toks = s.toks ∧ C06.Good s'.b ∧ NoNext s'.b ∧ Ext P.length s.b s'.b ∧
        ∃ x', s'.b.forest = P ++ [x'] ∧ RepOpdF x' (closeAllF ecur st)) := by
  intro stack
  induction stack with
  | nil =>
    intro st G x ecur s hso hf hx _ hg hn
    cases hso
    exact tot_pure ⟨rfl, hg, hn, Ext.refl (by rw [hf]; simp), x, by simpa using hf, hx⟩
  | cons f rest ih =>
    intro st G x ecur s hso hf hx hwt hg hn
    cases hso with
    | @cons G' S c acc o _ st' hso' hseg hpos =>
    unfold closeAll
    have hf' : s.b.forest = P ++ G' ++ (S ++ [x]) := by rw [hf]; simp
    obtain ⟨htk, hdr⟩ := take_drop_at P G' (S ++ [x])
    refine tot_seq (closeAt_wrap .OPERATION hg hn hpos (by rw [hf']; simp))
      fun _ s1 ⟨ht1, ⟨id, hf1⟩, g1, n1, p1, e1⟩ => ?_
    rw [hf', htk, hdr] at hf1
    have hN := segOKF_close id hseg hx (wtF_match hwt)
    have hle : P.length ≤ P.length + G'.length := Nat.le_add_right _ _
    refine tot_mono (ih st' G' _ (.ex (mkF o acc ecur)) (hso'.mono e1) hf1 hN (wtF_close hwt) g1 n1)
      fun _ s2 ⟨ht2, g2, n2, e2, hout⟩ => ?_
    exact ⟨ht2.trans ht1, g2, n2, (e1.mono hle).trans e2, hout⟩

/-! ### Loop invariants -/

/-- The builder at the head of an `opLoop` iteration: nothing built yet (`first`), or the part
`G` of the forest beyond the prefix `P` matches the stack. -/
def LoopInvF (b : Builder) (P : List Tree) (opn : Nat) (first : Bool)
    (stack : List (Nat × Nat × Bool)) (st : StackF) : Prop :=
  if first then stack = [] ∧ st = [] ∧ b.forest = P ∧ Pos b opn P.length
  else ∃ G, b.forest = P ++ G ∧ StackOKF b P.length G stack st ∧ st ≠ []

/-- The builder after the operand `x` (representing `ecur`, checkpoint `cur`) has been parsed. -/
def AfterInvF (b : Builder) (P : List Tree) (opn : Nat) (first : Bool)
    (stack : List (Nat × Nat × Bool)) (st : StackF) (cur : Nat) (ecur : FOpd) : Prop :=
  AtomOpdF ecur ∧
  if first then stack = [] ∧ st = [] ∧ ∃ W x, b.forest = P ++ W ++ [x] ∧ WSTrees W ∧
      RepOpdF x ecur ∧ Pos b opn P.length ∧ Pos b cur (P.length + W.length)
  else ∃ G x, b.forest = P ++ G ++ [x] ∧ StackOKF b P.length G stack st ∧ st ≠ [] ∧
      RepOpdF x ecur ∧ Pos b cur (P.length + G.length)

/-- One iteration's tail when an operator follows. -/
theorem afterValue_opF {s : PState} {P : List Tree} {opn : Nat} {first : Bool}
    {stack : List (Nat × Nat × Bool)} {st : StackF} {cur : Nat} {ecur : FOpd} (F : Nat)
    (op : QOp) (Wk W2 K2 : List Token) {Q : Option Nat → PState → Prop}
    (hinv : AfterInvF s.b P opn first stack st cur ecur) (hwt : WTf st ecur)
    (hfit : OpFitsF ecur op) (hg : C06.Good s.b) (hn : NoNext s.b)
    (ht : s.toks = Wk ++ qopTok op :: (W2 ++ K2)) (hwk : AllWS Wk) (hw2 : AllWS W2)
    (hk2 : NotWSHead K2)
    (hcont : ∀ s2 stack2, LoopInvF s2.b P opn false stack2 (reduceF ecur op st) → C06.Good s2.b →
      s2.toks = W2 ++ K2 → Ext P.length s.b s2.b → Tot (opLoop F opn stack2 false W2.length) s2 Q) :
    Tot (afterValue F opn stack first cur) s Q := by
  have hnw : NotWSHead (qopTok op :: (W2 ++ K2)) := by
    intro t r htr; cases htr; exact qopTok_notWS op
  unfold afterValue
  refine tot_countSkip_ws Wk _ ht hwk hnw ?_
  refine tot_nth_ws Wk _ ht ?_
  simp only [headKind, opInfo_qopTok]
  -- common tail: the blank and the operator node are appended, then the loop goes on
  have tail : ∀ (s1 : PState) (stack1 : List (Nat × Nat × Bool)) (G1 Y : List Tree) (v : FExprU)
      (st1 : StackF) (c1 : Nat) (stackr : List (Nat × Nat × Bool)),
      s1.toks = s.toks → C06.Good s1.b → Ext P.length s.b s1.b →
      reduceF ecur op st = (v, op) :: st1 → stack1 = (c1, op.prio, op.isTo) :: stackr →
      s1.b.forest = P ++ G1 ++ Y → StackOKF s1.b P.length G1 stackr st1 → OpenSegF op.prio Y v →
      Pos s1.b c1 (P.length + G1.length) →
      Tot (do bumpN Wk.length; bumpNode (qopKind op); let skip ← countSkip
              opLoop F opn stack1 false skip) s1 Q := by
    intro s1 stack1 G1 Y v st1 c1 stackr ht1 g1 e1 hra hst1 hf1 hso1 hopen hp1
    refine tot_seq (bumpN_ws Wk (ht1.trans ht) hwk g1)
      fun _ s2 ⟨ht2, ⟨Wt, hf2, hWt, _⟩, g2, _, e2⟩ => ?_
    refine tot_seq (bumpNode_exact (qopKind op) ht2 g2)
      fun _ s3 ⟨ht3, ⟨id, id', hf3⟩, g3, n3, e3⟩ => ?_
    refine tot_countSkip_ws W2 K2 ht3 hw2 hk2 ?_
    have hle1 : P.length + G1.length ≤ s1.b.forest.length := by rw [hf1]; simp
    have e13 : Ext s1.b.forest.length s1.b s3.b := e2.trans (e3.mono (by rw [hf2]; simp))
    refine hcont s3 stack1 ?_ g3 ht3 (e1.trans (e13.mono (by rw [hf1]; simp)))
    simp only [LoopInvF, Bool.false_eq_true, ↓reduceIte]
    refine ⟨G1 ++ (Y ++ Wt ++ [.node id (qopKind op) [.tok id' (qopTok op).kind (qopTok op).text]]), ?_,
      ?_, by rw [hra]; simp⟩
    · rw [hf3, hf2, hf1]; simp
    · rw [hra, hst1]
      exact .cons (hso1.mono (e13.mono hle1)) (openSegF_op hopen hWt rfl rfl)
        (e13.pos c1 _ hle1 hp1)
  obtain ⟨hat, hinv⟩ := hinv
  have hpe : ∀ e, ecur = .ex e → op.prio < qprioF e := by
    intro e he
    subst he
    have h100 : qprioF e = 100 := hat
    have := qop_prio_lt_100 op
    omega
  cases first with
  | true =>
    simp only [↓reduceIte] at hinv
    obtain ⟨rfl, rfl, W, x, hf, hW, hx, hpo, hpc⟩ := hinv
    simp only [↓reduceIte, reduce_firstQ]
    have hex : ∃ e, ecur = .ex e := by
      cases ecur with
      | ex e => exact ⟨e, rfl⟩
      | un u => obtain ⟨acc, h⟩ := hwt; cases h
    obtain ⟨e, rfl⟩ := hex
    refine tot_seq (tot_pure (Q := fun r s' => r = [(opn, op.prio, op.isTo)] ∧ s' = s) ⟨rfl, rfl⟩)
      fun stack1 s1 ⟨hs1, hs⟩ => ?_
    subst hs
    exact tail s1 stack1 [] (W ++ [x]) e [] opn [] rfl hg (Ext.refl (by rw [hf]; simp)) rfl hs1
      (by rw [hf]; simp) .nil
      (openSegF_single op.prio hW hx (by have := hpe e rfl; omega)) (by simpa using hpo)
  | false =>
    simp only [Bool.false_eq_true, ↓reduceIte] at hinv
    obtain ⟨G, x, hf, hso, hne, hx, hpc⟩ := hinv
    simp only [Bool.false_eq_true, ↓reduceIte]
    refine tot_seq (reduce_simF cur op P stack st G x ecur hso hne hf hx hwt hfit hpe hg hn
      (fun _ => hpc))
      fun stack1 s1 ⟨ht1, g1, _, e1, G1, Y, v, st1, c1, stackr, hra, hst1, hf1, hso1, hopen, hp1⟩ => ?_
    exact tail s1 stack1 G1 Y v st1 c1 stackr ht1 g1 e1 hra hst1 hf1 hso1 hopen hp1

/-- One iteration's tail when no operator follows: all frames are closed. -/
theorem afterValue_endF {s : PState} {P : List Tree} {opn : Nat} {first : Bool}
    {stack : List (Nat × Nat × Bool)} {st : StackF} {cur : Nat} {ecur : FOpd} (F : Nat)
    (Wk K' : List Token)
    (hinv : AfterInvF s.b P opn first stack st cur ecur) (hwt : WTf st ecur) (hg : C06.Good s.b)
    (hn : NoNext s.b)
    (ht : s.toks = Wk ++ K') (hwk : AllWS Wk) (hk : EndKindC (headKind K')) :
    Tot (afterValue F opn stack first cur) s (fun r s' => r = some Wk.length ∧ s'.toks = s.toks ∧
      C06.Good s'.b ∧ NoNext s'.b ∧ Ext P.length s.b s'.b ∧
      ∃ W x', s'.b.forest = P ++ W ++ [x'] ∧ WSTrees W ∧ RepOpdF x' (closeAllF ecur st)) := by
  unfold afterValue
  refine tot_countSkip_ws Wk _ ht hwk (followKindC_notWS (endKindC_follow hk)) ?_
  refine tot_nth_ws Wk _ ht ?_
  have : opInfo (headKind K') = none := by
    rcases hk with h | h | h <;> rw [h] <;> rfl
  simp only [this]
  obtain ⟨_, hinv⟩ := hinv
  cases first with
  | true =>
    simp only [↓reduceIte] at hinv
    obtain ⟨rfl, rfl, W, x, hf, hW, hx, _, _⟩ := hinv
    simp only [closeAll]
    refine tot_seq (tot_pure (Q := fun _ s' => s' = s) rfl) fun _ s1 hs => ?_
    subst hs
    exact tot_pure ⟨rfl, rfl, hg, hn, Ext.refl (by rw [hf]; simp), W, x, hf, hW, hx⟩
  | false =>
    simp only [Bool.false_eq_true, ↓reduceIte] at hinv
    obtain ⟨G, x, hf, hso, _, hx, _⟩ := hinv
    refine tot_seq (closeAll_simF P stack st G x ecur hso hf hx hwt hg hn)
      fun _ s1 ⟨ht1, g1, n1, e1, x', hf1, hx'⟩ => ?_
    exact tot_pure ⟨rfl, ht1, g1, n1, e1, [], x', by simpa using hf1, wsTrees_nil, hx'⟩

/-! ### Specification of `opLoop` on a rendered expression -/

/-- `opLoop` across the tokens of `e` (continuation-passing): the loop arrives after the last
operand of `e` in the state the specification-level machine reaches by `runF st (flatF e)`. -/
def LoopSpecF (e : FExprU) : Prop :=
  ∃ Fe, ∀ (ws : Layout) (s : PState) (P : List Tree) (opn : Nat) (first : Bool)
    (stack : List (Nat × Nat × Bool)) (st : StackF) (W0 K : List Token)
    (Q : Option Nat → PState → Prop) (F1 : Nat),
    WFF e → LayoutOKF e ws → LoopInvF s.b P opn first stack st → NoToF st → C06.Good s.b →
    s.toks = W0 ++ (toksF e ws ++ K) → AllWS W0 → FollowsF e K →
    (∀ s1 stack1 cur,
      AfterInvF s1.b P opn (first && (flatF e).2.isEmpty) stack1 (runF st (flatF e).1 (flatF e).2).1
        cur (runF st (flatF e).1 (flatF e).2).2 →
      C06.Good s1.b → NoNext s1.b → s1.toks = K → Ext P.length s.b s1.b →
      Tot (afterValue F1 opn stack1 (first && (flatF e).2.isEmpty) cur) s1 Q) →
    Tot (opLoop (Fe + F1) opn stack first W0.length) s Q

theorem loopInvF_isUnit {b : Builder} {P : List Tree} {opn : Nat} {first : Bool}
    {stack : List (Nat × Nat × Bool)} {st : StackF} (h : LoopInvF b P opn first stack st)
    (hnt : NoToF st) : isUnitTop stack = false := by
  cases first with
  | true =>
    simp only [LoopInvF, ↓reduceIte] at h
    rw [h.1]; rfl
  | false =>
    simp only [LoopInvF, Bool.false_eq_true, ↓reduceIte] at h
    obtain ⟨G, _, hso, _⟩ := h
    rw [hso.isUnitTop, isToTopF_noTo hnt]

/-- An operand that is a single `value` is read by one loop iteration. -/
theorem loop_of_valueF (e : FExprU) (hflat : flatF e = (.ex e, [])) (hat : qprioF e = 100)
    (hv : ValueSpecF e) : LoopSpecF e := by
  obtain ⟨Fv, hv⟩ := hv
  refine ⟨Fv + 1, ?_⟩
  intro ws s P opn first stack st W0 K Q F1 hwf hlay hinv hnt hg ht hw0 hK hcont
  have hF : Fv + 1 + F1 = (Fv + F1) + 1 := by omega
  rw [hF, opLoop_unfold _ _ _ _ _ (loopInvF_isUnit hinv hnt)]
  refine tot_seq (tot_le (le_value (Nat.le_add_right Fv F1) _) (hv ws s W0 K hwf hlay hg ht hw0 hK))
    fun r s1 ⟨cur, Wt, x, hr, ht1, hf1, hWt, hx, hp1, g1, n1, e1⟩ => ?_
  subst hr
  simp only
  refine tot_le (le_afterValue (Nat.le_add_left F1 Fv) _ _ _ _) ?_
  simp only [hflat, List.isEmpty_nil, Bool.and_true, runF] at hcont
  cases first with
  | true =>
    simp only [LoopInvF, ↓reduceIte] at hinv
    obtain ⟨rfl, rfl, hf, hpo⟩ := hinv
    have hlen : s.b.forest.length = P.length := by rw [hf]
    refine hcont s1 [] cur ⟨hat, ?_⟩ g1 n1 ht1 (hlen ▸ e1)
    simp only [↓reduceIte, true_and]
    exact ⟨Wt, x, hf ▸ hf1, hWt, hx, e1.pos opn _ (by rw [hlen]) hpo, hlen ▸ hp1⟩
  | false =>
    simp only [LoopInvF, Bool.false_eq_true, ↓reduceIte] at hinv
    obtain ⟨G, hf, hso, hne⟩ := hinv
    have hlen : s.b.forest.length = P.length + G.length := by rw [hf]; simp
    refine hcont s1 stack cur ⟨hat, ?_⟩ g1 n1 ht1 (e1.mono (by omega))
    simp only [Bool.false_eq_true, ↓reduceIte]
    refine ⟨G ++ Wt, x, by rw [hf1, hf]; simp, (hso.mono (hlen ▸ e1)).ws hne hWt, hne, hx, ?_⟩
    rw [hlen] at hp1
    simpa [Nat.add_assoc] using hp1

/-! ### Heads of token lists -/

/-- The token list of a well-formed expression starts with a NUMBER, WORD or OPEN_PAREN token. -/
theorem toksF_head' : ∀ (e : FExprU) (ws : Layout), WFF e → ∃ t r, toksF e ws = t :: r ∧
    (t.kind = .NUMBER ∨ t.kind = .WORD ∨ t.kind = .OPEN_PAREN)
  | .num l, ws, _ => by
    simp only [toksF]
    split
    · exact ⟨_, _, rfl, Or.inl rfl⟩
    · exact ⟨_, _, rfl, Or.inl rfl⟩
  | .qty l u, ws, _ => by
    simp only [toksF, List.cons_append, List.nil_append]
    exact ⟨_, _, rfl, Or.inl rfl⟩
  | .bin op a b, ws, hwf => by
    simp only [WFF] at hwf
    obtain ⟨t, r, h, hk⟩ := toksF_head' a ws hwf.1
    simp only [toksF, h]
    exact ⟨t, _, rfl, hk⟩
  | .paren e, ws, _ => by
    simp only [toksF]
    exact ⟨_, _, rfl, Or.inr (Or.inr rfl)⟩
  | .cast a u, ws, hwf => by
    simp only [WFF] at hwf
    obtain ⟨t, r, h, hk⟩ := toksF_head' a ws hwf
    simp only [toksF, h]
    exact ⟨t, _, rfl, hk⟩
  | .fact _ _ _, _, _ => ⟨_, _, rfl, Or.inr (Or.inl rfl)⟩
  | .call f arg prec, ws, _ => by
    simp only [toksF, List.cons_append]
    exact ⟨_, _, rfl, Or.inr (Or.inl rfl)⟩

theorem toksF_notWS' (e : FExprU) (ws : Layout) (K : List Token) (hwf : WFF e) :
    NotWSHead (toksF e ws ++ K) := by
  obtain ⟨t, r, h, hk⟩ := toksF_head' e ws hwf
  intro t' r' heq
  rw [h] at heq
  cases heq
  rcases hk with h | h | h <;> rw [h] <;> simp

/-! ### Binary operators -/

/-- A binary expression: the loop reads `a`, the operator, then `b`. -/
theorem loop_binF (op : BinOp) (a b : FExprU) (ha : LoopSpecF a) (hb : LoopSpecF b) :
    LoopSpecF (.bin op a b) := by
  obtain ⟨Fa, ha⟩ := ha
  obtain ⟨Fb, hb⟩ := hb
  refine ⟨Fa + Fb, ?_⟩
  intro ws s P opn first stack st W0 K Q F1 hwf hlay hinv hnt hg ht hw0 hK hcont
  simp only [WFF] at hwf
  obtain ⟨wfa, wfb, hpa, _⟩ := hwf
  obtain ⟨la, hb1, hb2, lb, _, hsep⟩ := hlay
  have hF : Fa + Fb + F1 = Fa + (Fb + F1) := by omega
  rw [hF]
  have hrun : runF st (flatF (.bin op a b)).1 (flatF (.bin op a b)).2 =
      runF (reduceF (runF st (flatF a).1 (flatF a).2).2 (.bin op) (runF st (flatF a).1 (flatF a).2).1)
        (flatF b).1 (flatF b).2 := by
    simp only [flatF, runF_append, runF]
  have hemp : (flatF (.bin op a b)).2.isEmpty = false := by simp [flatF]
  simp only [hemp, Bool.and_false, hrun] at hcont
  obtain ⟨wta, xa⟩ := wt_runF a wfa st hnt
  obtain ⟨x, hx⟩ := xa (by have := two_le_prio op; omega)
  have hK' : FollowsF b K := hK
  refine ha ws s P opn first stack st W0
    (blankTok (blank1 (afterF a ws)) ++ (qopTok (.bin op) :: (blankTok (blank1 (rest1 (afterF a ws))) ++
      (toksF b (rest1 (rest1 (afterF a ws))) ++ K)))) Q (Fb + F1) wfa la hinv hnt hg
    (by rw [ht]; simp only [toksF, qopTok, List.append_assoc, List.nil_append, List.cons_append]) hw0
    (followsF_op a _ (.bin op) _ (fun hu hop => hsep hu (by
      rcases hop with h | h | h | h
      · cases h; exact Or.inl rfl
      · cases h; exact Or.inr (Or.inl rfl)
      · cases h; exact Or.inr (Or.inr rfl)
      · cases h))) ?_
  intro s1 stack1 cur hinv1 g1 n1 ht1 e1
  refine afterValue_opF (Fb + F1) (.bin op) _ _ _ hinv1 wta (fun u hu => by rw [hx] at hu; cases hu)
    g1 n1 ht1 (allWS_blankTok _) (allWS_blankTok _) (toksF_notWS' b _ K wfb) ?_
  intro s2 stack2 hinv2 g2 ht2 e2
  have hnt2 : NoToF (reduceF (runF st (flatF a).1 (flatF a).2).2 (.bin op)
      (runF st (flatF a).1 (flatF a).2).1) := by
    rw [hx] at wta ⊢
    exact noToF_reduce op _ _ wta
  refine hb _ s2 P opn false stack2 _ _ K Q F1 wfb lb hinv2 hnt2 g2 ht2 (allWS_blankTok _) hK' ?_
  intro s3 stack3 cur3 hinv3 g3 n3 ht3 e3
  simp only [Bool.false_and] at hinv3 ⊢
  exact hcont s3 stack3 cur3 hinv3 g3 n3 ht3 ((e1.trans e2).trans e3)

/-! ### Casts -/

/-- A cast: the loop reads `a`, the operator `to`, then — the top frame being the `to` frame —
the unit expression (`UQ.unitSpecC`). -/
theorem loop_castF (a : FExprU) (u : List RTerm) (ha : LoopSpecF a) : LoopSpecF (.cast a u) := by
  obtain ⟨Fa, ha⟩ := ha
  obtain ⟨Fu, hu⟩ := unitSpecC u
  refine ⟨Fa + (Fu + 1), ?_⟩
  intro ws s P opn first stack st W0 K Q F1 hwf hlay hinv hnt hg ht hw0 hK hcont
  simp only [WFF] at hwf
  obtain ⟨la, _, hb1, hb2, _, hsep⟩ := hlay
  have hF : Fa + (Fu + 1) + F1 = Fa + ((Fu + F1) + 1) := by omega
  rw [hF]
  have hrun : runF st (flatF (.cast a u)).1 (flatF (.cast a u)).2 =
      (reduceF (runF st (flatF a).1 (flatF a).2).2 .cast (runF st (flatF a).1 (flatF a).2).1,
        .un u) := by
    simp only [flatF, runF_append, runF]
  have hemp : (flatF (.cast a u)).2.isEmpty = false := by simp [flatF]
  simp only [hemp, Bool.and_false, hrun] at hcont
  obtain ⟨wta, _⟩ := wt_runF a hwf st hnt
  have hUF : UFollowC K := hK
  refine ha ws s P opn first stack st W0
    (blankTok (blank1 (afterF a ws)) ++ (qopTok .cast :: (blankTok (blank1 (rest1 (afterF a ws))) ++
      (unitToks u ++ K)))) Q ((Fu + F1) + 1) hwf la hinv hnt hg
    (by rw [ht]; simp only [toksF, qopTok, List.append_assoc, List.nil_append, List.cons_append]) hw0
    (followsF_op a _ .cast _ (fun hu _ => hsep (Or.inl hu))) ?_
  intro s1 stack1 cur hinv1 g1 n1 ht1 e1
  refine afterValue_opF ((Fu + F1) + 1) .cast _ _ _ hinv1 wta (fun _ _ => rfl)
    g1 n1 ht1 (allWS_blankTok _) (allWS_blankTok _) (unitToks_notWS u K) ?_
  intro s2 stack2 hinv2 g2 ht2 e2
  simp only [LoopInvF, Bool.false_eq_true, ↓reduceIte] at hinv2
  obtain ⟨G, hf2, hso, hne⟩ := hinv2
  obtain ⟨v, hv⟩ := reduceF_to _ _ wta
  have hunit : isUnitTop stack2 = true := by rw [hso.isUnitTop, hv]; rfl
  rw [opLoop_unfold_unit _ _ _ _ _ hunit]
  have hlen2 : s2.b.forest.length = P.length + G.length := by rw [hf2]; simp
  refine tot_seq (P := fun r s4 => ∃ cur Wt x, r = some cur ∧ s4.toks = K ∧
      s4.b.forest = s2.b.forest ++ Wt ++ [x] ∧ WSTrees Wt ∧ RepUnit x u ∧ x.hasChildren = true ∧
      Pos s4.b cur (s2.b.forest.length + Wt.length) ∧ C06.Good s4.b ∧ NoNext s4.b ∧
      Ext s2.b.forest.length s2.b s4.b) ?_ ?_
  · refine tot_seq (bumpN_ws _ ht2 (allWS_blankTok _) g2)
      fun _ s3 ⟨ht3, ⟨Wt1, hf3, hWt1, _⟩, g3, _, e3⟩ => ?_
    refine tot_mono (tot_le (le_unit (Nat.le_add_right Fu F1) _)
      (hu s3 [] K g3 (by simpa using ht3) allWS_nil hUF))
      fun r s4 ⟨cur4, Wt, x, hr, ht4, hf4, hWt, hx, hc, hp4, g4, n4, e4⟩ => ?_
    refine ⟨cur4, Wt1 ++ Wt, x, hr, ht4, by rw [hf4, hf3]; simp, wsTrees_append hWt1 hWt, hx, hc,
      ?_, g4, n4, e3.trans (e4.mono (by rw [hf3]; simp))⟩
    rw [hf3] at hp4
    simpa [Nat.add_assoc] using hp4
  · intro r s4 ⟨cur4, Wt, x, hr, ht4, hf4, hWt, hx, hc, hp4, g4, n4, e4⟩
    subst hr
    simp only
    refine tot_le (le_afterValue (Nat.le_add_left F1 Fu) _ _ _ _) ?_
    refine hcont s4 stack2 cur4 ⟨trivial, ?_⟩ g4 n4 ht4 ((e1.trans e2).trans (e4.mono (by omega)))
    simp only [Bool.false_eq_true, ↓reduceIte]
    refine ⟨G ++ Wt, x, by rw [hf4, hf2]; simp, (hso.mono (hlen2 ▸ e4)).ws hne hWt, hne, ⟨hx, hc⟩, ?_⟩
    rw [hlen2] at hp4
    simpa [Nat.add_assoc] using hp4

/-! ### `operation` -/

/-- `operation` = a checkpoint, the loop across the whole expression, and the final closing of all
frames; by precedence-climbing correctness (`closeAll_run_flatF`) the result represents `e`. -/
theorem op_of_loopF (e : FExprU) (hl : LoopSpecF e) : OpSpecF e := by
  obtain ⟨Fl, hl⟩ := hl
  refine ⟨Fl + 0 + 1, ?_⟩
  intro ws s W0 Wk K' hwf hlay hg ht hw0 hwk hend
  unfold operation
  refine tot_seq (checkpoint_exact hg) fun opn s1 ⟨ht1, hf1, _, g1, p1, e1⟩ => ?_
  refine hl ws s1 s.b.forest opn true [] [] W0 (Wk ++ K') _ 0 hwf hlay ?_ noToF_nil g1 (ht1.trans ht)
    hw0 (followsF_end e Wk K' hwk hend) ?_
  · simp only [LoopInvF, ↓reduceIte, true_and]
    exact ⟨hf1, p1⟩
  · intro s2 stack2 cur hinv2 g2 n2 ht2 e2
    refine tot_mono (afterValue_endF 0 Wk K' hinv2 (wt_runF e hwf [] noToF_nil).1 g2 n2 ht2 hwk hend)
      fun r s3 ⟨hr, ht3, g3, n3, e3, W, x', hf3, hW, hx'⟩ => ?_
    refine ⟨W, x', hr, ht3.trans ht2, hf3, hW, ?_, g3, n3, e1.trans (e2.trans e3)⟩
    rw [closeAll_run_flatF e hwf] at hx'
    exact hx'

end Anything.FU
