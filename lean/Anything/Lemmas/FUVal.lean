import Anything.Lemmas.FUSpecDefs
/-!
# The full expression language — the reference evaluation split into value and log

`evalF_run`: `evalF cfg e d = (valF cfg e, d ++ if cfg.describe then logF cfg e else [])`; the value
does not depend on `describe` (`valF_describe`), the log lists the successful lookups in
evaluation order (`logF_prefix`, `logF_success`, `logF_sound`).
-/

namespace Anything.FU
open Anything Anything.Eval Anything.Spec Anything.Spec.Arith Anything.Spec.Decimal
open Anything.Spec.Quantity Anything.C06 Anything.FQ

theorem castM_run (T : Compound) (r : Numeric) (d : List Desc) : castM T r d = (castV T r, d) := by
  unfold castM castV
  generalize Compound.factor T r.unit r.value = fr
  rcases fr with _ | _ | v <;> rfl

theorem builtinM_neutral (cfg : Cfg) (f : Fn) (args : List Numeric) :
    Neutral (builtinM cfg f args) := by
  cases f
  · exact neutral_builtinRound cfg 0 0 args
  · exact neutral_builtinFloor 0 0 args
  · exact neutral_builtinCeil 0 0 args

theorem builtinM_run (cfg : Cfg) (f : Fn) (args : List Numeric) (d : List Desc) :
    builtinM cfg f args d = (builtinV cfg f args, d) := by
  obtain ⟨r, hr⟩ := builtinM_neutral cfg f args
  simp only [builtinV, hr]

theorem evalFr_bin_same (cfg : Cfg) (op : BinOp) (a b : FExprU) (h : qprioF a = op.prio) :
    evalF cfg (.bin op a b) =
      (evalF cfg a >>= fun va => evalF cfg b >>= fun vb => binEval cfg op 0 0 va vb) := by
  simp only [evalF, h, ↓reduceIte]

theorem evalFr_bin_other (cfg : Cfg) (op : BinOp) (a b : FExprU) (h : qprioF a ≠ op.prio) :
    evalF cfg (.bin op a b) =
      (evalF cfg b >>= fun vb => evalF cfg a >>= fun va => binEval cfg op 0 0 va vb) := by
  simp only [evalF, h, ↓reduceIte]

theorem evalFr_cast (cfg : Cfg) (e : FExprU) (u : List RTerm) :
    evalF cfg (.cast e u) = (evalF cfg e >>= fun r => castM (unitC u) r) := by
  simp only [evalF]

theorem evalFr_call (cfg : Cfg) (f : Fn) (arg : FExprU) (prec : Option Literal) :
    evalF cfg (.call f arg prec) = (evalF cfg arg >>= fun a => builtinM cfg f (callArgs a prec)) := by
  cases prec <;> simp only [evalF, callArgs]

/-- **The reference run**: value `valF`, log `logF` appended when describing. -/
theorem evalF_run (cfg : Cfg) : ∀ (e : FExprU) (d : List Desc),
    evalF cfg e d = (valF cfg e, d ++ if cfg.describe then logF cfg e else [])
  | .num l, d => by simp [evalF, valF, logF, pure]
  | .qty l u, d => by simp [evalF, valF, logF, pure]
  | .fact p v u, d => by simp only [evalF, valF, logF, lookupD_run]
  | .paren e, d => by simp only [evalF, valF, logF, evalF_run cfg e d]
  | .cast e u, d => by
    rw [evalFr_cast]
    simp only [valF, logF, C06.bind_apply, evalF_run cfg e d]
    cases valF cfg e with
    | error x => rfl
    | ok r => simp only [castM_run]
  | .call f arg prec, d => by
    rw [evalFr_call]
    simp only [valF, logF, C06.bind_apply, evalF_run cfg arg d]
    cases valF cfg arg with
    | error x => rfl
    | ok r => simp only [builtinM_run]
  | .bin op a b, d => by
    by_cases hp : qprioF a = op.prio
    · rw [evalFr_bin_same cfg op a b hp]
      simp only [valF, logF, hp, ↓reduceIte, C06.bind_apply, evalF_run cfg a d]
      cases ha : valF cfg a with
      | error x => cases cfg.describe <;> simp
      | ok va =>
        simp only [evalF_run cfg b]
        cases hb : valF cfg b with
        | error x => cases cfg.describe <;> simp
        | ok vb =>
          simp only [arithV_run]
          cases cfg.describe <;> simp
    · rw [evalFr_bin_other cfg op a b hp]
      simp only [valF, logF, hp, ↓reduceIte, C06.bind_apply, evalF_run cfg b d]
      cases hb : valF cfg b with
      | error x => cases cfg.describe <;> simp
      | ok vb =>
        simp only [evalF_run cfg a]
        cases ha : valF cfg a with
        | error x => cases cfg.describe <;> simp
        | ok va =>
          simp only [arithV_run]
          cases cfg.describe <;> simp

/-- The value does not depend on `describe`. -/
theorem valF_describe (cfg : Cfg) (b : Bool) : ∀ e : FExprU,
    valF { cfg with describe := b } e = valF cfg e
  | .num _ => rfl
  | .qty _ _ => rfl
  | .fact _ _ _ => rfl
  | .paren e => by simp only [valF, valF_describe cfg b e]
  | .cast e u => by simp only [valF, valF_describe cfg b e]
  | .call f arg prec => by
    simp only [valF, valF_describe cfg b arg]
    rfl
  | .bin op x y => by
    simp only [valF, valF_describe cfg b x, valF_describe cfg b y]
    rfl

theorem logF_describe (cfg : Cfg) (b : Bool) : ∀ e : FExprU,
    logF { cfg with describe := b } e = logF cfg e
  | .num _ => rfl
  | .qty _ _ => rfl
  | .fact _ _ _ => rfl
  | .paren e => by simp only [logF, logF_describe cfg b e]
  | .cast e u => by simp only [logF, logF_describe cfg b e]
  | .call f arg prec => by simp only [logF, logF_describe cfg b arg]
  | .bin op x y => by
    simp only [logF, logF_describe cfg b x, logF_describe cfg b y, valF_describe cfg b x,
      valF_describe cfg b y]

/-- Every reported entry is a fact of the database under its phrase. -/
theorem logF_sound (cfg : Cfg) : ∀ e : FExprU, ∀ x ∈ logF cfg e,
    ∃ c, cfg.db x.phrase = .found c ∧ x.description = c.description
  | .num _, x, hx => by simp [logF] at hx
  | .qty _ _, x, hx => by simp [logF] at hx
  | .fact p v u, x, hx => by
    simp only [logF, lookupLog] at hx
    split at hx
    · rename_i c hc
      simp only [List.mem_singleton] at hx
      subst hx
      exact ⟨c, hc, rfl⟩
    · simp at hx
  | .paren e, x, hx => logF_sound cfg e x (by simpa [logF] using hx)
  | .cast e u, x, hx => logF_sound cfg e x (by simpa [logF] using hx)
  | .call f arg prec, x, hx => logF_sound cfg arg x (by simpa [logF] using hx)
  | .bin op a b, x, hx => by
    simp only [logF] at hx
    split at hx
    · rcases List.mem_append.mp hx with h | h
      · exact logF_sound cfg a x h
      · split at h
        · exact logF_sound cfg b x h
        · simp at h
    · rcases List.mem_append.mp hx with h | h
      · exact logF_sound cfg b x h
      · split at h
        · exact logF_sound cfg a x h
        · simp at h

/-- The full list: every phrase of the expression, in evaluation order, with what the database
reports for it. -/
def fullLogF (db : Db) (e : FExprU) : List Desc := (orderF e).flatMap (lookupLog db)

/-- The log is always a prefix of the full list (the lookups that succeeded before the first
failure). -/
theorem logF_prefix (cfg : Cfg) : ∀ e : FExprU, logF cfg e <+: fullLogF cfg.db e ∧
    ((∃ v, valF cfg e = .ok v) → logF cfg e = fullLogF cfg.db e)
  | .num _ => by simp [logF, fullLogF, orderF]
  | .qty _ _ => by simp [logF, fullLogF, orderF]
  | .fact p v u => by simp [logF, fullLogF, orderF]
  | .paren e => by simpa [logF, fullLogF, orderF, valF] using logF_prefix cfg e
  | .cast e u => by
    obtain ⟨h1, h2⟩ := logF_prefix cfg e
    refine ⟨by simpa [logF, fullLogF, orderF] using h1, fun ⟨v, hv⟩ => ?_⟩
    simp only [valF] at hv
    cases he : valF cfg e with
    | error x => rw [he] at hv; cases hv
    | ok r => simpa [logF, fullLogF, orderF] using h2 ⟨r, he⟩
  | .call f arg prec => by
    obtain ⟨h1, h2⟩ := logF_prefix cfg arg
    refine ⟨by simpa [logF, fullLogF, orderF] using h1, fun ⟨v, hv⟩ => ?_⟩
    simp only [valF] at hv
    cases he : valF cfg arg with
    | error x => rw [he] at hv; cases hv
    | ok r => simpa [logF, fullLogF, orderF] using h2 ⟨r, he⟩
  | .bin op a b => by
    obtain ⟨a1, a2⟩ := logF_prefix cfg a
    obtain ⟨b1, b2⟩ := logF_prefix cfg b
    simp only [fullLogF] at a1 a2 b1 b2
    by_cases hp : qprioF a = op.prio
    · simp only [logF, fullLogF, orderF, valF, hp, ↓reduceIte, List.flatMap_append]
      cases ha : valF cfg a with
      | error x =>
        refine ⟨?_, fun ⟨v, hv⟩ => by cases hv⟩
        simp only [List.append_nil]
        exact a1.trans (List.prefix_append _ _)
      | ok va =>
        rw [a2 ⟨va, ha⟩]
        refine ⟨(List.prefix_append_right_inj _).mpr b1, fun ⟨v, hv⟩ => ?_⟩
        cases hb : valF cfg b with
        | error x => rw [hb] at hv; cases hv
        | ok vb => rw [b2 ⟨vb, hb⟩]
    · simp only [logF, fullLogF, orderF, valF, hp, ↓reduceIte, List.flatMap_append]
      cases hb : valF cfg b with
      | error x =>
        refine ⟨?_, fun ⟨v, hv⟩ => by cases hv⟩
        simp only [List.append_nil]
        exact b1.trans (List.prefix_append _ _)
      | ok vb =>
        rw [b2 ⟨vb, hb⟩]
        refine ⟨(List.prefix_append_right_inj _).mpr a1, fun ⟨v, hv⟩ => ?_⟩
        cases ha : valF cfg a with
        | error x => rw [ha] at hv; cases hv
        | ok va => rw [a2 ⟨va, ha⟩]

/-- The evaluation order is a permutation of the fact leaves read left to right. -/
theorem orderF_perm : ∀ e : FExprU, (orderF e).Perm (factLeavesF e)
  | .num _ => .refl _
  | .qty _ _ => .refl _
  | .fact _ _ _ => .refl _
  | .paren e => orderF_perm e
  | .cast e _ => orderF_perm e
  | .call _ arg _ => orderF_perm arg
  | .bin op a b => by
    simp only [orderF, factLeavesF]
    split
    · exact (orderF_perm a).append (orderF_perm b)
    · exact List.perm_append_comm.trans ((orderF_perm a).append (orderF_perm b))

end Anything.FU
