import Anything.Lemmas.QQLex1
/-!
# Quantity expressions end to end — lexer, part 2: a written unit expression lexes to `unitToks`

Helper file of `Lemmas/QQLex.lean`. Main result: `lex_unit`.
-/

namespace Anything.QQ
open Anything Anything.Lexer Anything.Spec Anything.Spec.Arith Anything.Spec.Decimal
open Anything.Spec.Quantity Anything.C06 Anything.Lemmas.Number

/-! ### Decimal digits of a power -/

theorem renderInt_toDigits (n : Nat) : renderInt (Int.ofNat n) = Nat.toDigits 10 n := by
  simp [renderInt, Int.repr, Nat.repr]

theorem lexDigit_of_core {c : Char} (h : c.isDigit = true) : isDigit c = true := by
  simp only [Char.isDigit, Bool.and_eq_true, decide_eq_true_eq, ge_iff_le,
    UInt32.le_iff_toNat_le] at h
  simp only [isDigit, Bool.and_eq_true, decide_eq_true_eq]
  exact h

/-- A positive power is written as a non-empty string of digits. -/
theorem renderInt_pos (p : Int) (h : 0 < p) :
    renderInt p ≠ [] ∧ ∀ c ∈ renderInt p, isDigit c = true := by
  obtain ⟨n, rfl⟩ : ∃ n : Nat, p = Int.ofNat n := ⟨p.toNat, by simp; omega⟩
  rw [renderInt_toDigits]
  exact ⟨Nat.toDigits_ne_nil, fun c hc =>
    lexDigit_of_core (Nat.isDigit_of_mem_toDigits (by decide) (by decide) hc)⟩

/-! ### The items of a written unit expression alternate between atoms and separators -/

/-- The token of an item. -/
abbrev UItem.tok (i : UItem) : Token := ⟨i.tk, i.text⟩

/-- A word or a number item. -/
def Atom (a : UItem) : Prop :=
  (a.tk = .WORD ∧ WordLit a.text) ∨
  (a.tk = .NUMBER ∧ a.text ≠ [] ∧ ∀ c ∈ a.text, isDigit c = true)

/-- `*`, `/` or `^`. -/
def Sep (s : UItem) : Prop := s = starItem ∨ s = slashItem ∨ s = caretItem

/-- atom (separator atom)* -/
inductive Alt : List UItem → Prop
  | one {a : UItem} : Atom a → Alt [a]
  | cons {a s : UItem} {rest : List UItem} : Atom a → Sep s → Alt rest → Alt (a :: s :: rest)

theorem Alt.append {x y : List UItem} {s : UItem} (hx : Alt x) (hs : Sep s) (hy : Alt y) :
    Alt (x ++ s :: y) := by
  induction hx with
  | one ha => exact .cons ha hs hy
  | cons ha hs' _ ih => exact .cons ha hs' ih

theorem Alt.ne_nil {x : List UItem} (h : Alt x) : x ≠ [] := by
  cases h <;> simp

theorem alt_termItems (t : RTerm) (p : Int) (hw : WordLit (word t)) (hp : 0 < p) :
    Alt (termItems t p) := by
  unfold termItems
  split
  · exact .one (Or.inl ⟨rfl, hw⟩)
  · exact .cons (Or.inl ⟨rfl, hw⟩) (Or.inr (Or.inr rfl)) (.one (Or.inr ⟨rfl, renderInt_pos p hp⟩))

theorem alt_joinItems (ls : List (List UItem)) (hne : ls ≠ []) (h : ∀ x ∈ ls, Alt x) :
    Alt (joinItems ls) := by
  induction ls with
  | nil => exact absurd rfl hne
  | cons x xs ih =>
    cases xs with
    | nil => simpa [joinItems] using h x (by simp)
    | cons y ys =>
      simp only [joinItems]
      exact (h x (by simp)).append (Or.inl rfl)
        (ih (by simp) (fun z hz => h z (List.mem_cons_of_mem _ hz)))

theorem alt_unitItems (u : List RTerm) (hu : UnitLexOK u) : Alt (unitItems u) := by
  have hn : ∀ x ∈ (nums u).map (fun t => termItems t t.power), Alt x := by
    intro x hx
    obtain ⟨t, ht, rfl⟩ := List.mem_map.mp hx
    simp only [nums, List.mem_filter, decide_eq_true_eq] at ht
    exact alt_termItems t _ (hu t ht.1 (by omega)) ht.2
  have hd : ∀ x ∈ (dens u).map (fun t => termItems t (-t.power)), Alt x := by
    intro x hx
    obtain ⟨t, ht, rfl⟩ := List.mem_map.mp hx
    simp only [dens, List.mem_filter, decide_eq_true_eq] at ht
    exact alt_termItems t _ (hu t ht.1 (by omega)) (by omega)
  have h1 : Alt (if (nums u).isEmpty then [oneItem]
      else joinItems ((nums u).map (fun t => termItems t t.power))) := by
    split
    · exact .one (Or.inr ⟨rfl, by simp [oneItem], by simp [oneItem]; decide⟩)
    · rename_i hne
      exact alt_joinItems _ (by simpa using hne) hn
  unfold unitItems
  by_cases hde : (dens u).isEmpty = true
  · simp only [hde, ↓reduceIte, List.append_nil]
    exact h1
  · simp only [hde, Bool.false_eq_true, ↓reduceIte]
    exact h1.append (Or.inr (Or.inl rfl)) (alt_joinItems _ (by simpa using hde) hd)

theorem unitItems_ne_nil (u : List RTerm) (hu : UnitLexOK u) : unitItems u ≠ [] :=
  (alt_unitItems u hu).ne_nil

/-! ### Lexing a written unit expression -/

theorem lex_atom {a : UItem} {rest : List Char} {ts : List Token} (ha : Atom a)
    (hr : UnitStop rest) (h : Lexes rest ts) : Lexes (a.text ++ rest) (a.tok :: ts) := by
  rcases ha with ⟨hk, hw⟩ | ⟨hk, hne, hd⟩
  · have := lex_wordLit hw (unitStop_wordStop hr) h
    rwa [← hk] at this
  · have := lex_digits hne hd (unitStop_numEnd hr) h
    rwa [← hk] at this

theorem sep_unitStop {s : UItem} (hs : Sep s) (r : List Char) : UnitStop (s.text ++ r) := by
  rcases hs with rfl | rfl | rfl <;> exact head_cons (by decide)

/-- The first character of an atom is a word character. -/
theorem atom_head {a : UItem} (ha : Atom a) :
    ∃ c r, a.text = c :: r ∧ isWordChar c = true := by
  rcases ha with ⟨_, ⟨c, r, hcr, _⟩, hall, _⟩ | ⟨_, hne, hd⟩
  · exact ⟨c, r, hcr, hall c (by simp [hcr])⟩
  · cases ht : a.text with
    | nil => exact absurd ht hne
    | cons c r =>
      refine ⟨c, r, rfl, ?_⟩
      have := hd c (by simp [ht])
      simp [isWordChar, this]

theorem alt_head {is : List UItem} (h : Alt is) :
    ∃ c r, itemsText is = c :: r ∧ isWordChar c = true := by
  cases h with
  | one ha =>
    obtain ⟨c, r, hcr, hc⟩ := atom_head ha
    exact ⟨c, r, by simp [itemsText, hcr], hc⟩
  | cons ha _ _ =>
    obtain ⟨c, r, hcr, hc⟩ := atom_head ha
    exact ⟨c, _, by simp only [itemsText, List.flatMap_cons, hcr, List.cons_append]; rfl, hc⟩

theorem lex_sep {s : UItem} {rest : List Char} {ts : List Token} (hs : Sep s)
    (hr : Head (fun c => c ≠ '*') rest) (h : Lexes rest ts) :
    Lexes (s.text ++ rest) (s.tok :: ts) := by
  rcases hs with rfl | rfl | rfl
  · exact lex_op (op := .mul) hr (fun h => by rcases h with h | h <;> cases h) h
  · exact lex_op (op := .div) hr (fun h => by rcases h with h | h <;> cases h) h
  · exact lex_op (op := .pow) hr (fun h => by rcases h with h | h <;> cases h) h

theorem lex_alt {is : List UItem} (hi : Alt is) {rest : List Char} {ts : List Token}
    (hr : UnitStop rest) (h : Lexes rest ts) :
    Lexes (itemsText is ++ rest) (is.map UItem.tok ++ ts) := by
  induction hi with
  | one ha =>
    simpa [itemsText] using lex_atom ha hr h
  | @cons a s more ha hs hmore ih =>
    obtain ⟨c, r, hcr, hc⟩ := alt_head hmore
    have hstar : Head (fun c => c ≠ '*') (itemsText more ++ rest) := by
      rw [hcr]
      refine head_cons ?_
      intro he; subst he; exact absurd hc (by decide)
    have := lex_atom ha (sep_unitStop hs _) (lex_sep hs hstar ih)
    simpa [itemsText, List.append_assoc] using this

/-- The lexer on a written unit expression. -/
theorem lex_unit (u : List RTerm) {rest : List Char} {ts : List Token} (hu : UnitLexOK u)
    (hr : UnitStop rest) (h : Lexes rest ts) :
    Lexes (renderUnit u ++ rest) (unitToks u ++ ts) := by
  rw [renderUnit_items]
  exact lex_alt (alt_unitItems u hu) hr h

/-- The first character of a written unit expression is a word character. -/
theorem renderUnit_head (u : List RTerm) (hu : UnitLexOK u) :
    ∃ c r, renderUnit u = c :: r ∧ isWordChar c = true := by
  rw [renderUnit_items]
  exact alt_head (alt_unitItems u hu)

end Anything.QQ
