import Anything.Lemmas.FUQuery
import Anything.Lemmas.FQQuery
import Anything.Lemmas.C9QRefuse
/-!
# The full expression language — consequences used by `Props/FullQuery.lean`

* `descLogF`, `fullLogF_eq`: the description log against the database;
* `query_full_ok` / `query_full_err`: `query_spec` read off for a value / for no value;
* `query_same_describe`: the results of a query text do not depend on `describe`;
* `valF_call`: what a call node does to the value of its argument, whatever the argument;
* `arithV_muldiv_refused`, `arithV_addsub_refused`, `castV_refused`: the refusals of C09 for the
  values of arbitrary operand expressions.
-/

namespace Anything.FU
open Anything Anything.Eval Anything.Spec Anything.Spec.Arith Anything.Spec.Decimal
open Anything.Spec.Quantity Anything.Spec.SI Anything.C06 Anything.QQ Anything.C9Q Anything.UQ
open Anything.Props.C09 Anything.Props.C04

theorem key_inj {s s' : TScale} (h : key s = key s') : s = s' := by
  cases s <;> cases s' <;> first | rfl | exact absurd h (by decide)

/-- What a describing run reports when every lookup succeeds; nothing without `describe`. -/
def descLogF (cfg : Cfg) (e : FExprU) : List Desc :=
  if cfg.describe then fullLogF cfg.db e else []

/-- Every phrase of an expression in scope is a constant of the database. -/
theorem orderF_found (cfg : Cfg) : ∀ e : FExprU, UnitsOKF cfg e →
    ∀ p ∈ orderF e, ∃ c, cfg.db p = .found c
  | .num _, _, p, hp => by simp [orderF] at hp
  | .qty _ _, _, p, hp => by simp [orderF] at hp
  | .fact q v u, h, p, hp => by
    simp only [orderF, List.mem_singleton] at hp
    subst hp
    obtain ⟨c, hc, _⟩ := h
    exact ⟨c, hc⟩
  | .paren e, h, p, hp => orderF_found cfg e h p (by simpa [orderF] using hp)
  | .cast e _, h, p, hp => orderF_found cfg e h.1 p (by simpa [orderF] using hp)
  | .call _ arg _, h, p, hp => orderF_found cfg arg h.1 p (by simpa [orderF] using hp)
  | .bin op a b, h, p, hp => by
    simp only [orderF] at hp
    split at hp
    · rcases List.mem_append.mp hp with h' | h'
      · exact orderF_found cfg a h.1 p h'
      · exact orderF_found cfg b h.2.1 p h'
    · rcases List.mem_append.mp hp with h' | h'
      · exact orderF_found cfg b h.2.1 p h'
      · exact orderF_found cfg a h.1 p h'

/-- With every phrase found, the full list is one entry per phrase, in evaluation order, each with
the description the database holds. -/
theorem fullLogF_eq (cfg : Cfg) (e : FExprU) (h : UnitsOKF cfg e) :
    fullLogF cfg.db e = (orderF e).map (fun p => ⟨p, descOf cfg.db p⟩) := by
  unfold fullLogF
  exact flatMap_lookupLog cfg.db (orderF e) (orderF_found cfg e h)

/-- `query_spec` when the specification has a value (and no `PowRiskF`): that value, and the whole
description log. -/
theorem query_full_ok (cfg : Cfg) (e : FExprU) (ws : Layout) (v : Val) (hwf : WFF e)
    (hl : QueryLayoutOKF e ws) (hu : UnitsOKF cfg e) (hdet : DeterminateF e) (hp : ¬ PowRiskF e)
    (hv : denoteF e = .ok v) :
    ∃ r, Eval.query cfg (renderQuery e ws) = .ok ([.ok r], descLogF cfg e) ∧ AgreeF r v ∧
      valF cfg e = .ok r := by
  obtain ⟨r, hq, ho, hs⟩ := query_spec cfg e ws hwf hl hu hdet
  unfold OutcomeF at ho
  rw [hv] at ho
  rcases ho with ⟨x, rfl, ha, _⟩ | ⟨hr, _⟩
  · refine ⟨x, ?_, ha, hs.symm⟩
    rw [hq]
    have := (logF_prefix cfg e).2 ⟨x, hs.symm⟩
    simp only [descLogF, this]
  · exact absurd hr hp

/-- `query_spec` when the specification has no value: a single error, and a prefix of the log. -/
theorem query_full_err (cfg : Cfg) (e : FExprU) (ws : Layout) (z : QErr) (hwf : WFF e)
    (hl : QueryLayoutOKF e ws) (hu : UnitsOKF cfg e) (hdet : DeterminateF e)
    (hv : denoteF e = .error z) :
    ∃ k s t L, Eval.query cfg (renderQuery e ws) = .ok ([.error (.err k s t)], L) ∧
      L <+: descLogF cfg e := by
  obtain ⟨r, hq, ho, _⟩ := query_spec cfg e ws hwf hl hu hdet
  unfold OutcomeF at ho
  rw [hv] at ho
  obtain ⟨k, s, t, rfl⟩ := ho
  refine ⟨k, s, t, _, hq, ?_⟩
  unfold descLogF
  split
  · exact (logF_prefix cfg e).1
  · exact List.prefix_refl _

/-- The results of a query text — values and errors with their spans — do not depend on
`describe`. -/
theorem query_same_describe (cfg : Cfg) (src : List Char) (b : Bool) :
    (Eval.query { cfg with describe := b } src).map Prod.fst =
      (Eval.query cfg src).map Prod.fst := by
  have := FQ.queryFrom_results cfg b src []
  rwa [FQ.queryFrom_nil] at this

/-! ### A call node, whatever its argument -/

/-- **What a call does to the value of its argument**, for ANY argument expression: the unit is
kept, the magnitude is rounded by `roundMag` (`floorI`, `ceilI`, `roundHalfAway`, `roundTo` of
`Spec.Arith`); `floor` / `ceil` with a precision are `argumentMismatch`; an error of the argument is
passed on. (`precOf prec`: the integer the precision literal spells, `hn`: it is an integer within
`i32`.) -/
theorem valF_call (cfg : Cfg) (f : Fn) (arg : FExprU) (prec : Option Literal)
    (hn : ∀ n, prec = some n → Arith.isInt (value n) = true ∧
      -2147483648 ≤ (value n).num ∧ (value n).num ≤ 2147483647) :
    valF cfg (.call f arg prec) =
      match valF cfg arg with
      | .error x => .error x
      | .ok a =>
        match roundMag f (precOf prec) a.value with
        | some m => .ok { value := m, unit := a.unit }
        | none => .error (.err .argumentMismatch 0 0) := by
  simp only [valF]
  cases valF cfg arg with
  | error x => rfl
  | ok a =>
    simp only
    rcases builtinV_cases cfg f prec a hn with ⟨g, hg, hb⟩ | ⟨hg, hb⟩
    · rw [hb, hg]
    · rw [hb, hg]

/-! ### Refusals (C09) for the values of arbitrary operands -/

/-- `*` / `/` of two values that both carry a unit, one of them with an offset scale anywhere:
`conversionNotPossible`. -/
theorem arithV_muldiv_refused (cfg : Cfg) (op : BinOp) (hop : op = .mul ∨ op = .div)
    (a b : Numeric) (ha : a.unit ≠ []) (hb : b.unit ≠ [])
    (h : HasOffset a.unit ∨ HasOffset b.unit) :
    FQ.arithV cfg op a b = .error (.err .conversionNotPossible 0 0) := by
  have : ∃ e, (e ∈ a.unit ∨ e ∈ b.unit) ∧ IsOffsetScale e.1 := by
    rcases h with ⟨e, he, ho⟩ | ⟨e, he, ho⟩
    · exact ⟨e, Or.inl he, ho⟩
    · exact ⟨e, Or.inr he, ho⟩
  obtain ⟨e, he, ho⟩ := this
  rcases hop with rfl | rfl
  · simp only [FQ.arithV, binEval, Eval.mulDiv,
      C09_mul_refused cfg.debug a.unit b.unit _ a.value b.value ha hb e he ho]
    rfl
  · simp only [FQ.arithV, binEval, Eval.mulDiv,
      C09_mul_refused cfg.debug a.unit b.unit _ a.value b.value ha hb e he ho]
    rfl

/-- `+` / `-` of two values that both carry a unit, one of them with a misused offset scale
(`BadOffset`: not alone with power one): `illegalOperation` or `conversionNotPossible`. -/
theorem arithV_addsub_refused (cfg : Cfg) (op : BinOp) (hop : op = .add ∨ op = .sub)
    (a b : Numeric) (ha : a.unit ≠ []) (hb : b.unit ≠ [])
    (h : BadOffset a.unit ∨ BadOffset b.unit) :
    ∃ k, FQ.arithV cfg op a b = .error (.err k 0 0) ∧
      (k = .illegalOperation ∨ k = .conversionNotPossible) := by
  have hf : Compound.factor a.unit b.unit b.value = .ok none ∨
      Compound.factor a.unit b.unit b.value = .error .conversion := by
    rcases h with ⟨e, he, ho, hn⟩ | ⟨e, he, ho, hn⟩
    · exact C09_refuse_target a.unit b.unit b.value ha hb e he ho hn
    · exact C09_refuse_source a.unit b.unit b.value ha hb e he ho hn
  rcases hop with rfl | rfl <;> rcases hf with hf | hf
  · exact ⟨.illegalOperation, by simp only [FQ.arithV, binEval, Eval.add, hf]; rfl, Or.inl rfl⟩
  · exact ⟨.conversionNotPossible, by simp only [FQ.arithV, binEval, Eval.add, hf]; rfl, Or.inr rfl⟩
  · exact ⟨.illegalOperation, by simp only [FQ.arithV, binEval, Eval.add, hf]; rfl, Or.inl rfl⟩
  · exact ⟨.conversionNotPossible, by simp only [FQ.arithV, binEval, Eval.add, hf]; rfl, Or.inr rfl⟩

/-- `to` with a misused offset scale in the value's unit or in the target: `illegalCast` or
`conversionNotPossible`. -/
theorem castV_refused (T : Compound) (r : Numeric) (hT : T ≠ []) (hr : r.unit ≠ [])
    (h : BadOffset r.unit ∨ BadOffset T) :
    ∃ k, castV T r = .error (.err k 0 0) ∧ (k = .illegalCast ∨ k = .conversionNotPossible) := by
  have hf : Compound.factor T r.unit r.value = .ok none ∨
      Compound.factor T r.unit r.value = .error .conversion := by
    rcases h with ⟨e, he, ho, hn⟩ | ⟨e, he, ho, hn⟩
    · exact C09_refuse_source T r.unit r.value hT hr e he ho hn
    · exact C09_refuse_target T r.unit r.value hT hr e he ho hn
  rcases hf with hf | hf
  · exact ⟨.illegalCast, by simp only [castV, hf], Or.inl rfl⟩
  · exact ⟨.conversionNotPossible, by simp only [castV, hf], Or.inr rfl⟩

/-- The value of a binary expression both of whose operands have values. -/
theorem valF_bin_ok (cfg : Cfg) (op : BinOp) (a b : FExprU) (ra rb : Numeric)
    (ha : valF cfg a = .ok ra) (hb : valF cfg b = .ok rb) :
    valF cfg (.bin op a b) = FQ.arithV cfg op ra rb := by
  simp only [valF, ha, hb]
  split <;> rfl

theorem valF_cast_ok (cfg : Cfg) (a : FExprU) (u : List RTerm) (r : Numeric)
    (ha : valF cfg a = .ok r) : valF cfg (.cast a u) = castV (unitC u) r := by
  simp only [valF, ha]

/-- What the pipeline answers when the reference value is an error of kind `k`. -/
theorem query_err_of_valF (cfg : Cfg) (e : FExprU) (ws : Layout) (k : ErrKind) (hwf : WFF e)
    (hl : QueryLayoutOKF e ws) (hs : InScopeF e) (hv : valF cfg e = .error (.err k 0 0)) :
    ∃ s t L, Eval.query cfg (renderQuery e ws) = .ok ([.error (.err k s t)], L) := by
  obtain ⟨r, hq, hr⟩ := query_valF cfg e ws hwf hl hs
  rw [hv] at hr
  obtain ⟨s, t, rfl⟩ := strip_err_inv hr
  exact ⟨s, t, _, hq⟩

/-- What the pipeline answers when the reference value is a value. -/
theorem query_ok_of_valF (cfg : Cfg) (e : FExprU) (ws : Layout) (x : Numeric) (hwf : WFF e)
    (hl : QueryLayoutOKF e ws) (hs : InScopeF e) (hv : valF cfg e = .ok x) :
    Eval.query cfg (renderQuery e ws) = .ok ([.ok x], if cfg.describe then logF cfg e else []) := by
  obtain ⟨r, hq, hr⟩ := query_valF cfg e ws hwf hl hs
  rw [hv] at hr
  rw [strip_ok_inv hr] at hq
  exact hq

/-! ### Conservativity of the rendering -/

/-- No plain number literal of the `QExpr` is a percent literal (`Spec.Quantity.render` would write
it without its `%`). -/
def NoPctQ : QExpr → Prop
  | .num l => l.percent = false
  | .bin _ a b => NoPctQ a ∧ NoPctQ b
  | .paren e => NoPctQ e
  | .cast e _ => NoPctQ e
  | _ => True

/-- On the embedding of a `QExpr` without percent literal the rendering of the full language is
`Spec.Quantity.render`. -/
theorem render_ofQ : ∀ (e : QExpr) (ws : Layout), NoPctQ e → render (ofQ e) ws = Quantity.render e ws
  | .num l, ws, h => by rw [ofQ, render_num l ws h, QQ.render_num]
  | .qty l u, ws, _ => by rw [ofQ, render_qty, QQ.render_qty]
  | .fact p v u, ws, _ => by rw [ofQ, render_fact, QQ.render_fact]
  | .paren e, ws, h => by
    rw [ofQ, render_paren, QQ.render_parenQ]
    simp only [afterF, QQ.afterQ, render_ofQ e (rest1 ws) h]
  | .cast e u, ws, h => by
    rw [ofQ, render_cast, QQ.render_cast]
    simp only [afterF, QQ.afterQ, render_ofQ e ws h]
  | .bin op a b, ws, h => by
    rw [ofQ, render_bin, QQ.render_binQ]
    simp only [afterF, QQ.afterQ, render_ofQ a ws h.1, render_ofQ b _ h.2]

theorem renderQuery_ofQ (e : QExpr) (ws : Layout) (h : NoPctQ e) :
    renderQuery (ofQ e) ws = Quantity.renderQuery e ws := by
  rw [renderQuery_eq, QQ.renderQuery_eq]
  simp only [afterF, QQ.afterQ, render_ofQ e (rest1 ws) h]

end Anything.FU
