import Anything.Lemmas.Dims
import Mathlib.Tactic.FieldSimp
import Mathlib.Tactic.Linarith
import Mathlib.Algebra.Order.Field.Rat
import Mathlib.Algebra.GroupWithZero.Basic
/-!
# Scale of a compound: the value path of `Compound::factor` for proportional units
-/

namespace Anything
open AMap Powers Spec

theorem arith_zpow_eq (x : Rat) (n : Int) : Arith.zpow x n = x ^ n := by
  unfold Arith.zpow
  split
  · rename_i h
    conv_rhs => rw [← Int.toNat_of_nonneg h]
    rw [zpow_natCast]
  · rename_i h
    have hn : n = -(n.natAbs : Int) := by omega
    conv_rhs => rw [hn]
    rw [zpow_neg, zpow_natCast, one_div]

theorem ratZPow_eq (x : Rat) (n : Int) : ratZPow x n = x ^ n := by
  unfold ratZPow
  split
  · rename_i h
    conv_rhs => rw [← Int.toNat_of_nonneg h]
    rw [zpow_natCast]
  · rename_i h
    have hn : n = -(n.natAbs : Int) := by omega
    conv_rhs => rw [hn]
    rw [zpow_neg, zpow_natCast, one_div, inv_pow]

theorem tenPow_eq (n : Int) : Compound.tenPow n = (10 : Rat) ^ n := ratZPow_eq 10 n

/-- A unit whose conversion is a pure factor (or none): everything except the offset
temperature scales. -/
def isProp (u : UnitKey) : Bool :=
  match Units.conversion u with
  | .none => true
  | .factor _ _ => true
  | _ => false

def Proportional (c : Compound) : Prop := ∀ e ∈ c, isProp e.1 = true

/-- Proportional factor of a unit, as the specification reads it from the table. -/
abbrev lin (u : UnitKey) : Rat := SI.linFactor u

/-- Scale of one entry: `(10^prefix · factor)^power`. -/
def term (e : UnitKey × State) : Rat := ((10 : Rat) ^ e.2.pfx * lin e.1) ^ e.2.power

/-- Scale of a compound: `∏ (10^prefix · factor)^power`. -/
def scaleC (c : Compound) : Rat := (c.map term).prod

theorem foldl_mul_eq {α : Type} (g : α → Rat) (l : List α) (a : Rat) :
    l.foldl (fun acc t => acc * g t) a = a * (l.map g).prod := by
  induction l generalizing a with
  | nil => simp
  | cons x xs ih => simp [List.foldl_cons, ih, mul_assoc]

/-- The specification's scale of the compound's reading. -/
theorem scale_semOf (c : Compound) : SI.scale (semOf c) = scaleC c := by
  unfold SI.scale semOf scaleC
  rw [foldl_mul_eq, one_mul, List.map_map]
  congr 1
  apply List.map_congr_left
  intro e _
  simp [term, arith_zpow_eq, lin]

theorem proportional_semOf (c : Compound) :
    SI.proportional (semOf c) = true ↔ Proportional c := by
  unfold SI.proportional semOf Proportional
  simp only [List.all_map, List.all_eq_true, Function.comp]
  apply forall_congr'; intro e
  apply imp_congr_right; intro _
  cases hk : e.1 with
  | base b => simp [SI.isAffine, SI.scaleOf, isProp, Units.conversion]
  | derived id =>
    simp only [SI.isAffine, SI.scaleOf, isProp, Units.conversion, SI.findUnit, Units.find?]
    cases Generated.units.find? (fun u => u.id == id) with
    | none => simp
    | some d => cases hc : d.conv <;> simp [hc]

/-- What `apply_conversion` does for a proportional unit, whatever the `scale` flag. -/
theorem applyConversion_prop (u : UnitKey) (h : isProp u = true) (pow : Int) (ratio : Rat) (flag : Bool) :
    Compound.applyConversion pow ratio flag (Units.conversion u) = .ok (ratio * lin u ^ pow) := by
  cases u with
  | base b => simp [Units.conversion, Compound.applyConversion, lin, SI.linFactor, SI.scaleOf]
  | derived id =>
    simp only [isProp, Units.conversion, lin, SI.linFactor, SI.scaleOf, SI.findUnit, Units.find?] at h ⊢
    cases hf : Generated.units.find? (fun u => u.id == id) with
    | none => simp [Compound.applyConversion]
    | some d =>
      simp only [hf] at h ⊢
      cases hc : d.conv with
      | none => simp [Compound.applyConversion]
      | factor n dd =>
        simp only [Compound.applyConversion, ne_eq, ite_not]
        split
        · rename_i h0; subst h0; simp
        · rw [ratZPow_eq]; simp [mkFrac]
      | offset n dd => simp [hc] at h
      | methods a b c d' e f g i => simp [hc] at h

theorem scaleIn_fold (g : UnitKey × State → Bool) (l : Compound) (hl : Proportional l) (v : Rat) :
    l.foldlM (fun v (e : UnitKey × State) =>
      Compound.applyConversion e.2.power (v * Compound.tenPow (e.2.pfx * e.2.power)) (g e)
        (Units.conversion e.1)) v = .ok (v * scaleC l) := by
  induction l generalizing v with
  | nil => simp [scaleC, pure, Except.pure]
  | cons e rest ih =>
    have he : isProp e.1 = true := hl e (by simp)
    have hr : Proportional rest := fun x hx => hl x (List.mem_cons_of_mem _ hx)
    rw [List.foldlM_cons, applyConversion_prop e.1 he]
    show List.foldlM _ (v * Compound.tenPow (e.2.pfx * e.2.power) * lin e.1 ^ e.2.power) rest = _
    rw [ih hr]
    congr 1
    simp only [scaleC, List.map_cons, List.prod_cons, term, tenPow_eq]
    rw [mul_zpow, ← zpow_mul]
    ring

theorem scaleIn_prop (aff : Bool) (names : Compound) (h : Proportional names) (v : Rat) :
    Compound.scaleIn aff names v = .ok (v * scaleC names) :=
  scaleIn_fold (fun e => aff && Compound.isScale names e.2) names h v

theorem scaleOut_fold (g : UnitKey × State → Bool) (l : Compound) (hl : Proportional l) (v : Rat) :
    l.foldlM (fun v (e : UnitKey × State) => do
      let v' ← Compound.applyConversion (-e.2.power) v (g e) (Units.conversion e.1)
      pure (v' / Compound.tenPow (e.2.pfx * e.2.power))) v = .ok (v / scaleC l) := by
  induction l generalizing v with
  | nil => simp [scaleC, pure, Except.pure]
  | cons e rest ih =>
    have he : isProp e.1 = true := hl e (by simp)
    have hr : Proportional rest := fun x hx => hl x (List.mem_cons_of_mem _ hx)
    rw [List.foldlM_cons, applyConversion_prop e.1 he]
    show List.foldlM _ (v * lin e.1 ^ (-e.2.power) / Compound.tenPow (e.2.pfx * e.2.power)) rest = _
    rw [ih hr]
    congr 1
    simp only [scaleC, List.map_cons, List.prod_cons, term, tenPow_eq]
    rw [mul_zpow, ← zpow_mul, zpow_neg]
    rw [div_eq_mul_inv, div_eq_mul_inv, div_eq_mul_inv, mul_inv, mul_inv]
    ring

theorem scaleOut_prop (names : Compound) (h : Proportional names) (v : Rat) :
    Compound.scaleOut names v = .ok (v / scaleC names) :=
  scaleOut_fold (fun e => Compound.isScale names e.2) names h v

/-- **Value of `Compound::factor`** between proportional compounds: when the
dimensions agree the value is multiplied by `scale other / scale self`; when they do
not, the answer is `Ok(false)`. -/
theorem factor_prop (a b : Compound) (ha : a ≠ []) (hb : b ≠ []) (pa : Proportional a)
    (pb : Proportional b) (v : Rat) :
    Compound.factor a b v =
      if SI.dims (semOf a) = SI.dims (semOf b) then .ok (some (v * scaleC b / scaleC a)) else .ok none := by
  unfold Compound.factor
  have ea : a.isEmpty = false := by cases a <;> simp_all
  have eb : b.isEmpty = false := by cases b <;> simp_all
  simp only [ea, eb, Bool.or_self, Bool.false_eq_true, ↓reduceIte]
  by_cases hd : SI.dims (semOf a) = SI.dims (semOf b)
  · have := (sameBases_iff_dims a b).mpr hd
    simp only [this, Bool.not_true, Bool.false_eq_true, ↓reduceIte, hd]
    rw [scaleIn_prop true b pb]
    simp only [bind, Except.bind]
    rw [scaleOut_prop a pa]
    rfl
  · have : Compound.sameBases (Compound.baseUnits a).2 (Compound.baseUnits b).2 = false := by
      cases h : Compound.sameBases (Compound.baseUnits a).2 (Compound.baseUnits b).2
      · rfl
      · exact absurd ((sameBases_iff_dims a b).mp h) hd
    simp [this, hd]

end Anything
