import Anything.Model.Index
import Mathlib.Data.List.Perm.Basic
import Mathlib.Tactic.ByContra
/-!
# Top-1 ranking: what `top1Loop` returns
-/

namespace Anything.Index

theorem loop_cons_none (score : Doc → Option Nat) (best : Option (Nat × Doc)) (d : Doc) (rest : List Doc)
    (h : score d = none) : top1Loop score best (d :: rest) = top1Loop score best rest := by
  simp [top1Loop, h]

theorem loop_cons_first (score : Doc → Option Nat) (d : Doc) (rest : List Doc) (s : Nat)
    (h : score d = some s) : top1Loop score none (d :: rest) = top1Loop score (some (s, d)) rest := by
  simp [top1Loop, h]

theorem loop_cons_lt (score : Doc → Option Nat) (d bd : Doc) (rest : List Doc) (s b : Nat)
    (h : score d = some s) (hlt : b < s) :
    top1Loop score (some (b, bd)) (d :: rest) = top1Loop score (some (s, d)) rest := by
  simp [top1Loop, h, hlt]

theorem loop_cons_ge (score : Doc → Option Nat) (d bd : Doc) (rest : List Doc) (s b : Nat)
    (h : score d = some s) (hge : ¬ b < s) :
    top1Loop score (some (b, bd)) (d :: rest) = top1Loop score (some (b, bd)) rest := by
  simp [top1Loop, h, hge]

theorem loop_none (score : Doc → Option Nat) (docs : List Doc) :
    ∀ best, top1Loop score best docs = none → best = none ∧ ∀ d ∈ docs, score d = none := by
  induction docs with
  | nil => intro best h; simp [top1Loop] at h; simp [h]
  | cons d rest ih =>
    intro best h
    cases hs : score d with
    | none =>
      rw [loop_cons_none score best d rest hs] at h
      obtain ⟨h1, h2⟩ := ih best h
      exact ⟨h1, fun d' hd' => by
        rcases List.mem_cons.mp hd' with h' | h'
        · rw [h']; exact hs
        · exact h2 d' h'⟩
    | some s =>
      cases best with
      | none =>
        rw [loop_cons_first score d rest s hs] at h
        exact absurd (ih _ h).1 (by simp)
      | some p =>
        obtain ⟨b, bd⟩ := p
        by_cases hlt : b < s
        · rw [loop_cons_lt score d bd rest s b hs hlt] at h
          exact absurd (ih _ h).1 (by simp)
        · rw [loop_cons_ge score d bd rest s b hs hlt] at h
          exact absurd (ih _ h).1 (by simp)

/-- The result is the incoming best or a document of the list with its score; it
dominates every score in the list and the incoming best. -/
theorem loop_some (score : Doc → Option Nat) (docs : List Doc) :
    ∀ best s0 d0, top1Loop score best docs = some (s0, d0) →
      (best = some (s0, d0) ∨ (d0 ∈ docs ∧ score d0 = some s0)) ∧
      (∀ d' ∈ docs, ∀ s', score d' = some s' → s' ≤ s0) ∧
      (∀ b bd, best = some (b, bd) → b ≤ s0) := by
  induction docs with
  | nil =>
    intro best s0 d0 h
    simp only [top1Loop] at h
    refine ⟨Or.inl h, fun _ h => by simp at h, ?_⟩
    intro b bd hb
    rw [hb] at h
    simp only [Option.some.injEq, Prod.mk.injEq] at h
    omega
  | cons d rest ih =>
    intro best s0 d0 h
    cases hs : score d with
    | none =>
      rw [loop_cons_none score best d rest hs] at h
      obtain ⟨a, b, c⟩ := ih best s0 d0 h
      refine ⟨?_, ?_, c⟩
      · rcases a with a | ⟨a1, a2⟩
        · exact Or.inl a
        · exact Or.inr ⟨List.mem_cons_of_mem _ a1, a2⟩
      · intro d' hd' s' hs'
        rcases List.mem_cons.mp hd' with h' | h'
        · rw [h', hs] at hs'; exact absurd hs' (by simp)
        · exact b d' h' s' hs'
    | some s =>
      -- helper: conclusion from the recursive call with new best (s, d)
      have viaNew : top1Loop score (some (s, d)) rest = some (s0, d0) →
          (d0 ∈ d :: rest ∧ score d0 = some s0) ∧
          (∀ d' ∈ d :: rest, ∀ s', score d' = some s' → s' ≤ s0) ∧ s ≤ s0 := by
        intro h'
        obtain ⟨a, b, c⟩ := ih _ s0 d0 h'
        have hle := c s d rfl
        refine ⟨?_, ?_, hle⟩
        · rcases a with a | ⟨a1, a2⟩
          · simp only [Option.some.injEq, Prod.mk.injEq] at a
            rw [← a.1, ← a.2]; exact ⟨by simp, hs⟩
          · exact ⟨List.mem_cons_of_mem _ a1, a2⟩
        · intro d' hd' s' hs'
          rcases List.mem_cons.mp hd' with h'' | h''
          · rw [h'', hs] at hs'; simp only [Option.some.injEq] at hs'; rw [← hs']; exact hle
          · exact b d' h'' s' hs'
      cases best with
      | none =>
        rw [loop_cons_first score d rest s hs] at h
        obtain ⟨a, b, _⟩ := viaNew h
        exact ⟨Or.inr a, b, fun _ _ h => by simp at h⟩
      | some p =>
        obtain ⟨b0, bd0⟩ := p
        by_cases hlt : b0 < s
        · rw [loop_cons_lt score d bd0 rest s b0 hs hlt] at h
          obtain ⟨a, b, c⟩ := viaNew h
          refine ⟨Or.inr a, b, ?_⟩
          intro b' bd' hb'
          simp only [Option.some.injEq, Prod.mk.injEq] at hb'
          omega
        · rw [loop_cons_ge score d bd0 rest s b0 hs hlt] at h
          obtain ⟨a, b, c⟩ := ih _ s0 d0 h
          have hle := c b0 bd0 rfl
          refine ⟨?_, ?_, c⟩
          · rcases a with a | ⟨a1, a2⟩
            · exact Or.inl a
            · exact Or.inr ⟨List.mem_cons_of_mem _ a1, a2⟩
          · intro d' hd' s' hs'
            rcases List.mem_cons.mp hd' with h' | h'
            · rw [h', hs] at hs'; simp only [Option.some.injEq] at hs'; omega
            · exact b d' h' s' hs'

/-- `top1` returns a matching document of the index with the greatest score. -/
theorem top1_max (score : Doc → Option Nat) (ix : Idx) (d : Doc) (h : top1 score ix = some d) :
    d ∈ ix.flatten ∧ ∃ s, score d = some s ∧ ∀ d' ∈ ix.flatten, ∀ s', score d' = some s' → s' ≤ s := by
  unfold top1 at h
  cases hl : top1Loop score none ix.flatten with
  | none => rw [hl] at h; simp at h
  | some p =>
    obtain ⟨s, d0⟩ := p
    rw [hl] at h
    simp only [Option.map_some, Option.some.injEq] at h
    subst h
    obtain ⟨a, b, _⟩ := loop_some score ix.flatten none s d0 hl
    rcases a with a | ⟨a1, a2⟩
    · simp at a
    · exact ⟨a1, s, a2, b⟩

/-- If some document matches, there is an answer. -/
theorem top1_some (score : Doc → Option Nat) (ix : Idx) (d : Doc) (hd : d ∈ ix.flatten) (s : Nat)
    (hs : score d = some s) : ∃ d', top1 score ix = some d' := by
  unfold top1
  cases hl : top1Loop score none ix.flatten with
  | none =>
    have := (loop_none score ix.flatten none hl).2 d hd
    rw [hs] at this; simp at this
  | some p => exact ⟨p.2, rfl⟩

/-- A strict, unique maximum is returned whatever the order of the documents. -/
theorem top1_unique_max (score : Doc → Option Nat) (ix : Idx) (d0 : Doc) (s0 : Nat)
    (hd : d0 ∈ ix.flatten) (hs : score d0 = some s0)
    (huniq : ∀ d ∈ ix.flatten, d ≠ d0 → ∀ s, score d = some s → s < s0) :
    top1 score ix = some d0 := by
  obtain ⟨d', hd'⟩ := top1_some score ix d0 hd s0 hs
  obtain ⟨hm, s, hs', hmax⟩ := top1_max score ix d' hd'
  rw [hd']
  by_contra hne
  have hne' : d' ≠ d0 := fun h => hne (by rw [h])
  have h1 := huniq d' hm hne' s hs'
  have h2 := hmax d0 hd s0 hs
  omega

end Anything.Index
