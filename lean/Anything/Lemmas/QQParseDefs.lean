import Anything.Lemmas.QQLexDefs
import Anything.Lemmas.C06Builder
/-!
# Quantity expressions end to end — interfaces of the parser proofs

What may follow an operand in the token buffer, and the specifications of `Grammar.unit` and
`Grammar.value` on the tokens of a written unit expression / of an operand (in the
total-correctness style of `Lemmas/C06Builder.lean`, `Lemmas/C06Parse.lean`).
-/

namespace Anything.QQ
open Anything Anything.Parser Anything.Grammar Anything.PTotal Anything.Spec.Arith
open Anything.Spec.Quantity Anything.C06

/-- Kinds that may follow an operand (after a blank): an operator, `to`, `)` or the end. -/
def FollowKindQ (k : Syntax) : Prop :=
  k = .PLUS ∨ k = .DASH ∨ k = .STAR ∨ k = .SLASH ∨ k = .CARET ∨ k = .TO ∨ k = .CLOSE_PAREN ∨
    k = .EOF

/-- The rest of the buffer after an operand: a blank, then a token of a `FollowKindQ`. -/
def FollowQ (K : List Token) : Prop :=
  ∃ Wk K', K = Wk ++ K' ∧ AllWS Wk ∧ FollowKindQ (headKind K')

/-- The rest of the buffer after a written unit expression: as `FollowQ`, but `*`, `/`, `^` and
`to` must be separated from the unit by a blank (glued to it they continue the unit expression). -/
def UFollowQ (K : List Token) : Prop :=
  ∃ Wk K', K = Wk ++ K' ∧ AllWS Wk ∧ FollowKindQ (headKind K') ∧
    (Wk = [] → headKind K' = .PLUS ∨ headKind K' = .DASH ∨ headKind K' = .CLOSE_PAREN ∨
      headKind K' = .EOF)

/-- What must follow the tokens of `e`. -/
def FollowsQ (e : QExpr) (K : List Token) : Prop :=
  if endsUnit e = true then UFollowQ K else FollowQ K

theorem UFollowQ.follow {K : List Token} (h : UFollowQ K) : FollowQ K := by
  obtain ⟨Wk, K', h1, h2, h3, _⟩ := h
  exact ⟨Wk, K', h1, h2, h3⟩

theorem FollowsQ.follow {e : QExpr} {K : List Token} (h : FollowsQ e K) : FollowQ K := by
  unfold FollowsQ at h
  split at h
  · exact h.follow
  · exact h

/-- `Grammar.unit` on the tokens of a written unit expression `u` (after the blank `W`):
consumes the blank and the tokens, appends the blank's leaves and ONE tree — a UNIT node
spelling `u` — and returns a checkpoint at that tree. -/
def UnitSpecQ (u : List RTerm) : Prop :=
  ∃ Fu, ∀ (s : PState) (W K : List Token), C06.Good s.b → s.toks = W ++ (unitToks u ++ K) →
    AllWS W → UFollowQ K →
    Tot (Grammar.unit Fu W.length) s (fun r s' => ∃ cur Wt x, r = some cur ∧ s'.toks = K ∧
      s'.b.forest = s.b.forest ++ Wt ++ [x] ∧ WSTrees Wt ∧ RepUnit x u ∧ x.hasChildren = true ∧
      Pos s'.b cur (s.b.forest.length + Wt.length) ∧ C06.Good s'.b ∧ NoNext s'.b ∧
      Ext s.b.forest.length s.b s'.b)

/-- `Grammar.value` on the operand `e` (cf. `C06.ValueSpec`): consumes the blank `W0` and the
tokens of `e`, appends the blank's leaves and one tree representing `e`, and returns a checkpoint
at that tree. -/
def ValueSpecQ (e : QExpr) : Prop :=
  ∃ Fe, ∀ (ws : Layout) (s : PState) (W0 K : List Token), WFQ e → LayoutOKQ e ws → C06.Good s.b →
    s.toks = W0 ++ (toksQ e ws ++ K) → AllWS W0 → FollowsQ e K →
    Tot (Grammar.value Fe W0.length) s (fun r s' => ∃ cur Wt x, r = some cur ∧ s'.toks = K ∧
      s'.b.forest = s.b.forest ++ Wt ++ [x] ∧ WSTrees Wt ∧ RepresentsQL x e ∧
      Pos s'.b cur (s.b.forest.length + Wt.length) ∧ C06.Good s'.b ∧ NoNext s'.b ∧
      Ext s.b.forest.length s.b s'.b)

/-- The shape of the parsed forest of a query: blank leaves, one tree, blank leaves. -/
def ForestOKQ (forest : List Tree) (e : QExpr) : Prop :=
  ∃ Wt x Wt', forest = Wt ++ [x] ++ Wt' ∧ WSTrees Wt ∧ WSTrees Wt' ∧ RepresentsQL x e

end Anything.QQ
