import Anything.Lemmas.FQShift
import Anything.Lemmas.C06Frames
/-!
# Fact phrases end to end — the operator stack against the forest

`Lemmas/C06Frames.lean` over `FExpr`, with one more fact carried along: the first operand of
every segment is not itself an operator application of the segment's priority (so that the tree
determines the evaluation order).
-/

namespace Anything.FQ
open Anything Anything.Parser Anything.Grammar Anything.PTotal Anything.Spec.Arith Anything.C06

theorem foldF_snoc {R : Tree → FExpr → Prop} {p : Nat} {acc e b : FExpr} {ts : List Tree}
    {o x : Tree} {op : BinOp} (h : FoldF R p acc ts e) (ho : o.kind = opKind op)
    (hp : op.prio = p) (hx : R x b) : FoldF R p acc (ts ++ [o, x]) (.bin op e b) := by
  induction h with
  | nil p acc => exact .cons ho hp hx (.nil _ _)
  | cons h1 h2 h3 _ ih => exact .cons h1 h2 h3 (ih hp)

/-- An operand chain of level `p` without a pending operator. -/
def OpenSeg (p : Nat) (Y : List Tree) (v : FExpr) : Prop :=
  ∃ y ys e₀, opKids Y = y :: ys ∧ RepF y e₀ ∧ e₀.prio ≠ p ∧ FoldF RepF p e₀ ys v

/-- An operand chain of the level of `o` followed by the node of the pending operator `o`. -/
def SegOK (S : List Tree) (acc : FExpr) (o : BinOp) : Prop :=
  ∃ y ys e₀ on, opKids S = y :: (ys ++ [on]) ∧ RepF y e₀ ∧ e₀.prio ≠ o.prio ∧
    FoldF RepF o.prio e₀ ys acc ∧ on.kind = opKind o

theorem hasChildren_of_repF {x : Tree} {e : FExpr} (h : RepF x e) : x.hasChildren = true := by
  cases h with
  | num _ hc _ _ => exact hc
  | pct _ _ _ => rfl
  | fact _ hc _ => exact hc
  | paren hk _ => exact node_hasChildren hk
  | chain hk _ _ _ _ => exact node_hasChildren hk

theorem openSeg_single {W : List Tree} {x : Tree} {e : FExpr} (p : Nat) (hW : WSTrees W)
    (hx : RepF x e) (hp : e.prio ≠ p) : OpenSeg p (W ++ [x]) e :=
  ⟨x, [], e, by rw [opKids_append, opKids_ws hW, opKids_single (hasChildren_of_repF hx)]; rfl,
    hx, hp, .nil _ _⟩

theorem segOK_ws {S W : List Tree} {acc : FExpr} {o : BinOp} (h : SegOK S acc o) (hW : WSTrees W) :
    SegOK (S ++ W) acc o := by
  obtain ⟨y, ys, e₀, on, hk, hy, hp, hf, ho⟩ := h
  exact ⟨y, ys, e₀, on, by rw [opKids_append, opKids_ws hW, hk]; simp, hy, hp, hf, ho⟩

theorem segOK_extend {S : List Tree} {x : Tree} {acc b : FExpr} {o : BinOp} (h : SegOK S acc o)
    (hx : RepF x b) : OpenSeg o.prio (S ++ [x]) (.bin o acc b) := by
  obtain ⟨y, ys, e₀, on, hk, hy, hp, hf, ho⟩ := h
  refine ⟨y, ys ++ [on, x], e₀, ?_, hy, hp, foldF_snoc hf ho rfl hx⟩
  rw [opKids_append, hk, opKids_single (hasChildren_of_repF hx)]
  simp

theorem segOK_close {S : List Tree} {x : Tree} {acc b : FExpr} {o : BinOp} (id : Nat)
    (h : SegOK S acc o) (hx : RepF x b) :
    RepF (.node id .OPERATION (S ++ [x])) (.bin o acc b) := by
  obtain ⟨y, ys, e₀, hk, hy, hp, hf⟩ := segOK_extend h hx
  refine .chain hk ?_ hy hp hf
  intro hnil
  subst hnil
  obtain ⟨y', ys', e₀', on, hk', _, _, _, _⟩ := h
  rw [opKids_append, hk', opKids_single (hasChildren_of_repF hx)] at hk
  simp at hk

theorem openSeg_op {Y W : List Tree} {on : Tree} {v : FExpr} {o : BinOp} (h : OpenSeg o.prio Y v)
    (hW : WSTrees W) (hon : on.kind = opKind o) (hc : on.hasChildren = true) :
    SegOK (Y ++ W ++ [on]) v o := by
  obtain ⟨y, ys, e₀, hk, hy, hp, hf⟩ := h
  exact ⟨y, ys, e₀, on, by
    rw [opKids_append, opKids_append, opKids_ws hW, hk, opKids_single hc]; simp, hy, hp, hf, hon⟩

/-! ### The stack -/

inductive StackOK (b : Builder) (n : Nat) :
    List Tree → List (Nat × Nat × Bool) → Stack → Prop
  | nil : StackOK b n [] [] []
  | cons {G S : List Tree} {c : Nat} {acc : FExpr} {o : BinOp}
      {stack : List (Nat × Nat × Bool)} {st : Stack} :
      StackOK b n G stack st → SegOK S acc o → Pos b c (n + G.length) →
      StackOK b n (G ++ S) ((c, o.prio, false) :: stack) ((acc, o) :: st)

theorem StackOK.mono {b b' : Builder} {n : Nat} {G : List Tree}
    {stack : List (Nat × Nat × Bool)} {st : Stack} (h : StackOK b n G stack st)
    (he : Ext (n + G.length) b b') : StackOK b' n G stack st := by
  induction h with
  | nil => exact .nil
  | @cons G S c acc o stack st _ hseg hpos ih =>
    have hle : n + G.length ≤ n + (G ++ S).length := by simp
    exact .cons (ih (he.mono hle)) hseg (he.pos c _ hle hpos)

theorem StackOK.ws {b : Builder} {n : Nat} {G W : List Tree}
    {stack : List (Nat × Nat × Bool)} {st : Stack} (h : StackOK b n G stack st)
    (hne : st ≠ []) (hW : WSTrees W) : StackOK b n (G ++ W) stack st := by
  cases h with
  | nil => exact absurd rfl hne
  | cons h1 hseg hpos =>
    rw [List.append_assoc]
    exact .cons h1 (segOK_ws hseg hW) hpos

theorem stackOK_isUnit {b : Builder} {n : Nat} {G : List Tree} {stack : List (Nat × Nat × Bool)}
    {st : Stack} (h : StackOK b n G stack st) : isUnitTop stack = false := by
  cases h <;> rfl

end Anything.FQ
