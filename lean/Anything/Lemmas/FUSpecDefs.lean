import Anything.Lemmas.FUDefs
import Anything.Lemmas.UQLaws
import Anything.Lemmas.C9QSpec
/-!
# The full expression language — the SPECIFICATION side

* `denoteF`: the SI denotation of an `FExprU`, built from the clauses of `Spec.Quantity.denote`
  (the clauses for literals, literals with unit — `qtyOf`, which reads a lone offset scale with
  power one as a POINT —, facts, parentheses, `to` — `inUnit` —, and `+ - * / ^` are copied
  verbatim) plus ONE new clause for a builtin call (`callVal`): the magnitude of the argument in
  the unit the argument is expressed in (`inUnit`) is rounded by the rounding functions of
  `Spec.Arith` (`UQ.roundMag`), the unit is kept (`qtyOf`). `denoteF_ofQ`: on the embedding of a
  `QExpr` it IS `Spec.Quantity.denote false`.
* the value part `valF` and the log part `logF` of the reference evaluation `evalF`, and the
  evaluation order `orderF`;
* the side conditions of the theorem that relates `valF` to `denoteF`: `UnitsOKF cfg` (reader
  guards), `DeterminateF` (the operands of `+ - * / ^` carry no offset scale; `AddOK`; `CastOKF`;
  the argument of a call has a determined unit; an integer `i32` precision), `PowRiskF`;
* `AgreeF`: how a result of the tool matches a value of the specification — `QQ.Agree`, or, for a
  value on an offset scale, `AgreeT`: the result's unit is the lone scale and the specification's
  kelvin POINT is `toK` of the result's magnitude.
-/

namespace Anything.FU
open Anything Anything.Lexer Anything.Eval Anything.Spec Anything.Spec.Arith Anything.Spec.Decimal
open Anything.Spec.Quantity Anything.Spec.SI Anything.C06 Anything.QQ Anything.FQ Anything.UQ
open Anything.C9Q Anything.Props.C09

/-! ### The denotation -/

/-- **The clause for a builtin call**: the value `v` of the argument must be expressed in a
determined unit `sem` (`Val.unit`); its magnitude in that unit (`inUnit`: for a lone offset scale
the reading of the kelvin point on that scale) is rounded (`roundMag`: `floorI`, `ceilI`,
`roundHalfAway`, `roundTo` of `Spec.Arith`); the result is that magnitude in the same unit
(`qtyOf`). No value when the unit is undetermined, the precision is not an integer, or the arity
is wrong. -/
def callVal (f : Fn) (prec : Option Literal) (v : Val) : Except QErr Val :=
  match v.unit with
  | none => .error .other
  | some sem =>
    let prec? : Option (Option Int) :=
      match prec with
      | none => some none
      | some n => if Arith.isInt (Decimal.value n) then some (some (Decimal.value n).num) else none
    match prec? with
    | none => .error .other
    | some pr =>
      match inUnit false v.q sem with
      | .error e => .error e
      | .ok m =>
        match roundMag f pr m with
        | none => .error .other
        | some m' =>
          match qtyOf false m' sem with
          | .ok q => .ok { q := q, plain := v.plain, unit := some sem }
          | .error e => .error e

/-- **The SI denotation of the full language** (`interval = false` throughout: a lone offset scale
with power one denotes a point, any other use of an offset scale has no denotation). The clauses
other than `call` are those of `Spec.Quantity.denote`. -/
def denoteF : FExprU → Except QErr Val
  | .fact _ v u =>
    let q := siOfResult v u
    .ok { q := q, plain := u.isEmpty, unit := none }
  | .num l => .ok { q := ⟨Decimal.value l, DimVec.zero⟩, plain := true, unit := some [] }
  | .qty l u =>
    match resolveAll u with
    | none => .error .other
    | some sem => match qtyOf false (Decimal.value l) sem with
      | .ok q => .ok { q := q, plain := false, unit := some sem }
      | .error e => .error e
  | .paren e => denoteF e
  | .cast e u =>
    match denoteF e, resolveAll u with
    | .ok v, some sem =>
      if v.plain then .ok { q := ⟨v.q.si * scale sem, dims sem⟩, plain := false, unit := some sem }
      else match inUnit false v.q sem with
        | .ok _ => .ok { q := v.q, plain := false, unit := some sem }
        | .error e => .error e
    | .error e, _ => .error e
    | _, none => .error .other
  | .bin op a b =>
    match denoteF a, denoteF b with
    | .ok x, .ok y =>
      match op with
      | .add | .sub =>
        let f := if op = .add then qadd else qsub
        if x.plain && !y.plain then
          match y.unit with
          | some sem => if false || proportional sem then
              (f ⟨x.q.si * scale sem, y.q.dim⟩ y.q).map (fun q => { q := q, plain := false, unit := y.unit })
            else .error .offsetScale
          | none => .error .other
        else if !x.plain && y.plain then
          match x.unit with
          | some sem => if false || proportional sem then
              (f x.q ⟨y.q.si * scale sem, x.q.dim⟩).map (fun q => { q := q, plain := false, unit := x.unit })
            else .error .offsetScale
          | none => .error .other
        else (f x.q y.q).map (fun q => { q := q, plain := x.plain && y.plain, unit := if x.plain && y.plain then some [] else none })
      | .mul => .ok { q := qmul x.q y.q, plain := x.plain && y.plain, unit := none }
      | .div => (qdiv x.q y.q).map (fun q => { q := q, plain := x.plain && y.plain, unit := none })
      | .pow =>
        if !y.plain then .error .power
        else if !Arith.isInt y.q.si then .error .power
        else (qpow x.q y.q.si.num).map (fun q => { q := q, plain := x.plain, unit := none })
    | .error e, _ => .error e
    | _, .error e => .error e
  | .call f arg prec =>
    match denoteF arg with
    | .error e => .error e
    | .ok v => callVal f prec v

theorem denoteF_num (l : Literal) :
    denoteF (.num l) = .ok { q := ⟨Decimal.value l, DimVec.zero⟩, plain := true, unit := some [] } := by
  rw [denoteF]

theorem denoteF_fact (p : List Char) (v : Rat) (u : List (UnitKey × Int × Int)) :
    denoteF (.fact p v u) = .ok { q := siOfResult v u, plain := u.isEmpty, unit := none } := by
  rw [denoteF]

theorem denoteF_paren (e : FExprU) : denoteF (.paren e) = denoteF e := by rw [denoteF]

theorem denoteF_qty (l : Literal) (u : List RTerm) :
    denoteF (.qty l u) = match resolveAll u with
      | none => .error .other
      | some sem => match qtyOf false (Decimal.value l) sem with
        | .ok q => .ok { q := q, plain := false, unit := some sem }
        | .error e => .error e := by
  rw [denoteF]

/-- The binary clause is `QQ.binVal` (the binary step of `Spec.Quantity.denote false`). -/
theorem denoteF_bin (op : BinOp) (a b : FExprU) :
    denoteF (.bin op a b) =
      match denoteF a, denoteF b with
      | .ok x, .ok y => binVal op x y
      | .error e, _ => .error e
      | _, .error e => .error e := by
  rw [denoteF]
  rfl

/-- The cast clause is `QQ.castVal`. -/
theorem denoteF_cast (e : FExprU) (u : List RTerm) :
    denoteF (.cast e u) =
      match denoteF e, resolveAll u with
      | .ok v, some sem => castVal v sem
      | .error e, _ => .error e
      | _, none => .error .other := by
  rw [denoteF]
  rfl

theorem denoteF_call (f : Fn) (arg : FExprU) (prec : Option Literal) :
    denoteF (.call f arg prec) =
      match denoteF arg with
      | .error e => .error e
      | .ok v => callVal f prec v := by
  rw [denoteF]

/-- **Conservativity**: on (the embedding of) a `QExpr`, `denoteF` is `Spec.Quantity.denote false`. -/
theorem denoteF_ofQ : ∀ e : QExpr, denoteF (ofQ e) = denote false e
  | .num l => by rw [ofQ, denoteF_num, denote_num]
  | .qty l u => by rw [ofQ, denoteF_qty, denote_qty]; rfl
  | .fact p v u => by rw [ofQ, denoteF_fact, UQ.denote_fact]
  | .paren e => by rw [ofQ, denoteF_paren, denote_paren, denoteF_ofQ e]
  | .cast e u => by rw [ofQ, denoteF_cast, denote_cast, denoteF_ofQ e]; rfl
  | .bin op a b => by rw [ofQ, denoteF_bin, denote_bin, denoteF_ofQ a, denoteF_ofQ b]; rfl

/-! ### Value and log of the reference evaluation -/

/-- `castM` as a function. -/
def castV (T : Compound) (r : Numeric) : Except EvalErr Numeric :=
  match Compound.factor T r.unit r.value with
  | .ok (some v) => .ok { value := v, unit := T }
  | .ok none => .error (.err .illegalCast 0 0)
  | .error _ => .error (.err .conversionNotPossible 0 0)

/-- `builtinM` as a function (the builtins neither read nor write the log). -/
def builtinV (cfg : Cfg) (f : Fn) (args : List Numeric) : Except EvalErr Numeric :=
  (builtinM cfg f args []).1

/-- The evaluated arguments of a call. -/
def callArgs (a : Numeric) : Option Literal → List Numeric
  | none => [a]
  | some n => [a, plain (value n)]

/-- **The value part of the reference evaluation**: it does not depend on `cfg.describe`; the
first error in evaluation order wins. -/
def valF (cfg : Cfg) : FExprU → Except EvalErr Numeric
  | .num l => .ok (plain (value l))
  | .qty l u => .ok { value := value l, unit := unitC u }
  | .fact p _ _ => lookupV cfg.db p
  | .paren e => valF cfg e
  | .cast e u =>
    match valF cfg e with
    | .error x => .error x
    | .ok r => castV (unitC u) r
  | .bin op a b =>
    if qprioF a = op.prio then
      match valF cfg a with
      | .error x => .error x
      | .ok va =>
        match valF cfg b with
        | .error x => .error x
        | .ok vb => arithV cfg op va vb
    else
      match valF cfg b with
      | .error x => .error x
      | .ok vb =>
        match valF cfg a with
        | .error x => .error x
        | .ok va => arithV cfg op va vb
  | .call f arg prec =>
    match valF cfg arg with
    | .error x => .error x
    | .ok a => builtinV cfg f (callArgs a prec)

/-- **The log part of the reference evaluation**: the successful lookups in evaluation order — up
to the first error, if any — each with its constant's description. -/
def logF (cfg : Cfg) : FExprU → List Desc
  | .fact p _ _ => lookupLog cfg.db p
  | .paren e => logF cfg e
  | .cast e _ => logF cfg e
  | .call _ arg _ => logF cfg arg
  | .bin op a b =>
    if qprioF a = op.prio then
      logF cfg a ++ (match valF cfg a with | .ok _ => logF cfg b | .error _ => [])
    else
      logF cfg b ++ (match valF cfg b with | .ok _ => logF cfg a | .error _ => [])
  | _ => []

/-- The phrases of an expression in evaluation order (`UQ.orderU`; the argument of a call is
evaluated where the call stands). -/
def orderF : FExprU → List (List Char)
  | .fact p _ _ => [p]
  | .bin op a b => if qprioF a = op.prio then orderF a ++ orderF b else orderF b ++ orderF a
  | .paren e => orderF e
  | .cast e _ => orderF e
  | .call _ arg _ => orderF arg
  | _ => []

/-- The phrases of the fact leaves, read left to right. -/
def factLeavesF : FExprU → List (List Char)
  | .fact p _ _ => [p]
  | .bin _ a b => factLeavesF a ++ factLeavesF b
  | .paren e => factLeavesF e
  | .cast e _ => factLeavesF e
  | .call _ arg _ => factLeavesF arg
  | _ => []

/-! ### Results -/

/-- The result is a magnitude on the lone temperature scale `<p><s>` (`s` one of K, °C, °F) and the
specification's value is the kelvin POINT of that magnitude, expressed in that unit. -/
def AgreeT (r : Numeric) (v : Val) : Prop :=
  ∃ (s : TScale) (p : Int), r.unit = cmp s p ∧ v.unit = some [⟨p, key s, 1⟩] ∧
    v.q = ⟨toK s (r.value * (10 : Rat) ^ p), dimK⟩ ∧ v.plain = false

/-- A result of the tool agrees with a value of the specification: `QQ.Agree` (same SI value and
dimensions; proportional units), or `AgreeT` (a point on an offset scale). -/
def AgreeF (r : Numeric) (v : Val) : Prop := Agree r v ∨ AgreeT r v

/-! ### Side conditions -/

/-- A lone temperature scale with power one, in a spelling the tool reads (`C9Q.Written`). -/
def LoneScale (u : List RTerm) : Prop := ∃ (s : TScale) (p : Int) (t : RTerm), u = [t] ∧ Written s p t

/-- A written unit expression in scope: proportional units read by the tool (`QQ.UnitOK`), or a
lone temperature scale. -/
def UnitOKF (u : List RTerm) : Prop := UnitOK u ∨ LoneScale u

/-- Literals and units are in scope (a literal that carries a unit and a precision are written
without percent sign); the exponent of `^` is a literal; the database answers a phrase with exactly
the recorded constant, whose unit is made of proportional units of the unit table. -/
def UnitsOKF (cfg : Cfg) : FExprU → Prop
  | .num l => LitOK l
  | .qty l u => LitOKQ l ∧ UnitOKF u
  | .bin op a b => UnitsOKF cfg a ∧ UnitsOKF cfg b ∧ (op = .pow → ∃ l, b = .num l ∧ l.percent = false)
  | .paren e => UnitsOKF cfg e
  | .cast e u => UnitsOKF cfg e ∧ UnitOKF u
  | .fact p v u => ∃ c, cfg.db p = .found c ∧ c.value = v ∧ resultUnit c.unit = u ∧
      Proportional c.unit ∧ AllKnown c.unit
  | .call _ arg prec => UnitsOKF cfg arg ∧ ∀ n, prec = some n → LitOKQ n

/-- The value carries no offset scale: the unit it is expressed in, when determined, is
proportional. -/
def NoOffset (v : Val) : Prop := ∀ sem, v.unit = some sem → proportional sem = true

/-- A cast is in scope: the old `QQ.CastOK` between values and targets without offset scale; or a
TEMPERATURE conversion — an offset scale on at least one side, a quantity (not a plain number) of
the dimension of a temperature converted to a unit of that dimension. -/
def CastOKF (v : Val) (sem : UnitSem) : Prop :=
  (NoOffset v ∧ proportional sem = true ∧ CastOK v sem) ∨
  (v.plain = false ∧ v.q.dim = dimK ∧ dims sem = dimK)

/-- Every `+`, `-`, `to` is applied to operands for which tool and specification read plain
numbers alike (`QQ.AddOK`, `CastOKF`); no operand of `+ - * / ^` carries an offset scale
(`NoOffset`: the tool adds no zero point there, the specification computes with kelvin points);
the argument of a call is expressed in a determined unit; a precision is an integer within `i32`. -/
def DeterminateF : FExprU → Prop
  | .bin op a b => DeterminateF a ∧ DeterminateF b ∧
      (∀ x y, denoteF a = .ok x → denoteF b = .ok y →
        NoOffset x ∧ NoOffset y ∧ ((op = .add ∨ op = .sub) → AddOK x y))
  | .paren e => DeterminateF e
  | .cast e u => DeterminateF e ∧
      ∀ v sem, denoteF e = .ok v → resolveAll u = some sem → CastOKF v sem
  | .call _ arg prec => DeterminateF arg ∧ (∀ v, denoteF arg = .ok v → v.unit.isSome = true) ∧
      ∀ n, prec = some n → Arith.isInt (value n) = true ∧
        -2147483648 ≤ (value n).num ∧ (value n).num ≤ 2147483647
  | _ => True

/-- `UQ.powBoundU`; a call keeps the unit of its argument. -/
def powBoundF : FExprU → Option Nat
  | .num _ => some 0
  | .qty _ u => (resolveAll u).map (fun sem => (sem.map (fun t => t.power.natAbs)).sum)
  | .paren e => powBoundF e
  | .cast _ u => (resolveAll u).map (fun sem => (sem.map (fun t => t.power.natAbs)).sum)
  | .bin op a b =>
    match op with
    | .add | .sub =>
      (match powBoundF a, powBoundF b with
       | some x, some y => some (max x y)
       | _, _ => none)
    | .pow =>
      (match b with
       | .num l => (powBoundF a).map (fun B => B * (Decimal.value l).num.natAbs)
       | _ => none)
    | _ => none
  | .fact _ _ u => some ((u.map (fun t => t.2.1.natAbs)).sum)
  | .call _ arg _ => powBoundF arg

def PowSafeF (a b : FExprU) : Prop :=
  ∃ B l, powBoundF a = some B ∧ b = .num l ∧ (Decimal.value l).num.natAbs ≤ 2147483647 ∧
    B * (Decimal.value l).num.natAbs ≤ 2147483647

/-- The expression contains a `^` whose base is a quantity and which is not `PowSafeF`. -/
def PowRiskF : FExprU → Prop
  | .bin op a b => PowRiskF a ∨ PowRiskF b ∨
      (op = .pow ∧ (∃ x, denoteF a = .ok x ∧ x.plain = false) ∧ ¬ PowSafeF a b)
  | .paren e => PowRiskF e
  | .cast e _ => PowRiskF e
  | .call _ arg _ => PowRiskF arg
  | _ => False

def PowBoundedF (r : Numeric) (e : FExprU) : Prop :=
  ∀ B, powBoundF e = some B → ∀ en ∈ r.unit, en.2.power.natAbs ≤ B

/-- How a value of the reference evaluation matches the specification's reading of `e`: a value
that agrees with it (`AgreeF`), or an `err` — never a panic — when the specification has none; only
with `PowRiskF` possibly the refusal `badArgument`. -/
def OutcomeF (e : FExprU) (r : Except EvalErr Numeric) : Prop :=
  match denoteF e with
  | .ok v => (∃ x, r = .ok x ∧ AgreeF x v ∧ PowBoundedF x e) ∨
      (PowRiskF e ∧ ∃ s t, r = .error (.err .badArgument s t))
  | .error _ => ∃ k s t, r = .error (.err k s t)

end Anything.FU
