import Anything.Lemmas.QQQuery
import Mathlib.Tactic.SplitIfs
/-!
# C09 end to end — the evaluator on trees that represent a quantity expression, for ANY units

`Lemmas/QQEval.lean` relates the evaluator to the specification `denote`, for proportional units.
Here the evaluator on a tree is related to a *reference evaluation on the expression itself*
(`evQ`), built from the model's own unit operations (`Compound.factor`, `Compound.mul`,
`Compound.checkedPow`) and the compound a written unit expression stands for (`unitOf`, the run of
its `Compound::update` instructions, `Lemmas/QQUnitLoop.lean`). No hypothesis on the kind of unit
is needed, so the result also covers the offset scales `°C` / `°F`:

* `eval_evQ`: if the tree `t` represents `e` and the literals and written factors of `e` are read
  by the tool (`InScope`), then `eval` on `t` answers `evQ e` — that value, or an `err` (never a
  panic of the model) when `evQ e` is `none`; the description log is untouched;
* `query_evQ`: the same for `Eval.query` on the rendered text.
-/

namespace Anything.C9Q
open Anything Anything.Eval Anything.Spec Anything.Spec.Arith Anything.Spec.Decimal
open Anything.Spec.Quantity Anything.Spec.SI Anything.C06 Anything.QQ

/-! ### Reference evaluation -/

/-- The compound a written unit expression stands for: the run of its `update` instructions from
the empty compound (`none`: an `update` is refused, `prefixMismatch`). -/
def unitOf (u : List RTerm) : Option Compound :=
  match runUpds [] (allUpds u) with
  | .ok T => some T
  | .error _ => none

/-- `to`: `Compound::factor` of the target against the value. -/
def castQ (T : Compound) (r : Numeric) : Option Numeric :=
  match Compound.factor T r.unit r.value with
  | .ok (some v) => some { value := v, unit := T }
  | _ => none

/-- `+` / `-` (`Eval.add`). -/
def addQ (a b : Numeric) (sub : Bool) : Option Numeric :=
  match Compound.factor a.unit b.unit b.value with
  | .ok (some bv) =>
    some { value := if sub then a.value - bv else a.value + bv,
           unit := if a.unit.isEmpty then b.unit else a.unit }
  | _ => none

/-- `*` / `/` (`Eval.mulDiv`). -/
def mulDivQ (cfg : Cfg) (a b : Numeric) (div : Bool) : Option Numeric :=
  match Compound.mul cfg.debug a.unit b.unit (if div then -1 else 1) a.value b.value with
  | .ok (unit, av, bv) =>
    if div then (if bv = 0 then none else some { value := av / bv, unit := unit })
    else some { value := av * bv, unit := unit }
  | .error _ => none

/-- `^` (`Eval.pow`). -/
def powQ (base p : Numeric) : Option Numeric :=
  if !p.unit.isEmpty then none
  else if p.value.den ≠ 1 then none
  else
    let n := p.value.num
    if !base.unit.isEmpty && (n < -2147483648 || n > 2147483647 || !Compound.powFits base.unit n) then
      none
    else
      let unit := if base.unit.isEmpty then base.unit else Compound.checkedPow base.unit n
      if n = 0 then some { value := 1, unit := unit }
      else if base.value = 0 then
        if n < 0 then none else some { value := base.value, unit := unit }
      else
        some { value := powLoop (if n < 0 then 1 / base.value else base.value) n.natAbs 1, unit := unit }

def binQ (cfg : Cfg) (op : BinOp) (a b : Numeric) : Option Numeric :=
  match op with
  | .add => addQ a b false
  | .sub => addQ a b true
  | .mul => mulDivQ cfg a b false
  | .div => mulDivQ cfg a b true
  | .pow => powQ a b

/-- Reference evaluation of a quantity expression with the model's unit operations; `none`
stands for "an error". -/
def evQ (cfg : Cfg) : QExpr → Option Numeric
  | .num l => some { value := value l, unit := [] }
  | .qty l u => (unitOf u).map (fun T => { value := value l, unit := T })
  | .paren e => evQ cfg e
  | .cast e u =>
    match unitOf u, evQ cfg e with
    | some T, some r => castQ T r
    | _, _ => none
  | .bin op a b =>
    match evQ cfg a, evQ cfg b with
    | some ra, some rb => binQ cfg op ra rb
    | _, _ => none
  | .fact _ _ _ => none

/-! ### Which error -/

/-- The error of a refused `to`. -/
def castKind (T : Compound) (r : Numeric) : Option ErrKind :=
  match Compound.factor T r.unit r.value with
  | .ok (some _) => none
  | .ok none => some .illegalCast
  | .error _ => some .conversionNotPossible

/-- The error of a refused `+` / `-`. -/
def addKind (a b : Numeric) : Option ErrKind :=
  match Compound.factor a.unit b.unit b.value with
  | .ok (some _) => none
  | .ok none => some .illegalOperation
  | .error _ => some .conversionNotPossible

/-- The error of a refused `*` / `/`. -/
def mulDivKind (cfg : Cfg) (a b : Numeric) (div : Bool) : Option ErrKind :=
  match Compound.mul cfg.debug a.unit b.unit (if div then -1 else 1) a.value b.value with
  | .ok (_, _, bv) => if div then (if bv = 0 then some .divideByZero else none) else none
  | .error _ => some .conversionNotPossible

/-- The error of a refused `^`. -/
def powKind (base p : Numeric) : Option ErrKind :=
  if !p.unit.isEmpty then some .illegalPowerUnit
  else if p.value.den ≠ 1 then some .illegalPowerNonInteger
  else
    let n := p.value.num
    if !base.unit.isEmpty && (n < -2147483648 || n > 2147483647 || !Compound.powFits base.unit n) then
      some .badArgument
    else if n = 0 then none
    else if base.value = 0 then (if n < 0 then some .divideByZero else none)
    else none

def binKind (cfg : Cfg) (op : BinOp) (a b : Numeric) : Option ErrKind :=
  match op with
  | .add => addKind a b
  | .sub => addKind a b
  | .mul => mulDivKind cfg a b false
  | .div => mulDivKind cfg a b true
  | .pow => powKind a b

/-- The error kinds the evaluation of `e` may report: the kind of an operation that fails on
operands which have values, anywhere in `e`. (Which one is reported when several operations fail
depends on the shape of the tree, not only on `e`.) -/
def Kinds (cfg : Cfg) : QExpr → ErrKind → Prop
  | .bin op a b, k => Kinds cfg a k ∨ Kinds cfg b k ∨
      ∃ ra rb, evQ cfg a = some ra ∧ evQ cfg b = some rb ∧ binKind cfg op ra rb = some k
  | .cast a u, k => Kinds cfg a k ∨
      ∃ T r, unitOf u = some T ∧ evQ cfg a = some r ∧ castKind T r = some k
  | .paren e, k => Kinds cfg e k
  | _, _ => False

/-! ### Scope -/

/-- The written factor is read by the tool as the specification resolves it (one piece: this
prefix, this unit — as `QQ.TermOK`, but the unit may be an offset scale) and the power is an
`i32`. -/
structure WordOK (t : RTerm) : Prop where
  reads : ∃ ut, resolve t = some ut ∧ UnitWord.parseWord (word t) = some [(ut.pfx, ut.key)]
  pow : -2147483647 ≤ t.power ∧ t.power ≤ 2147483647

/-- Every factor is read, and no unit occurs with two different prefixes (the run of `update`s
succeeds). -/
def UnitRuns (u : List RTerm) : Prop := (∀ t ∈ u, WordOK t) ∧ ∃ T, unitOf u = some T

/-- Literals and written units of the expression are in scope. -/
def InScope : QExpr → Prop
  | .num l => LitOKQ l
  | .qty l u => LitOKQ l ∧ UnitRuns u
  | .bin _ a b => InScope a ∧ InScope b
  | .paren e => InScope e
  | .cast e u => InScope e ∧ UnitRuns u
  | .fact _ _ _ => False

theorem wordOK_rs {t : RTerm} (h : WordOK t) :
    UnitWord.parseWord (word t) = some [((rs t).pfx, (rs t).key)] := by
  obtain ⟨ut, h1, h2⟩ := h.reads
  rw [rs_of_resolve h1]; exact h2

theorem unitOf_some {u : List RTerm} {T : Compound} (h : unitOf u = some T) :
    runUpds [] (allUpds u) = .ok T := by
  unfold unitOf at h
  split at h
  · rename_i T' hT; cases h; exact hT
  · cases h

/-- **`eval::unit` on a UNIT node spelling `u`** is `unitOf u`, for any kind of unit. -/
theorem unit_unitOf (x : Tree) (u : List RTerm) (T : Compound) (off : Nat) (d : List Desc)
    (hx : RepUnit x u) (hu : UnitRuns u) (hT : unitOf u = some T) :
    Eval.unit (⟨off, x⟩ : At).kids d = (.ok T, d) ∧ AllKnown T := by
  have h := unit_run u _ d T (view_of_repUnit hx off)
    (fun t ht => ⟨wordOK_rs (hu.1 t ht), (hu.1 t ht).pow⟩) (unitOf_some hT)
  exact ⟨h, unit_known _ d T (by rw [h])⟩

/-! ### The binary operations against their reference -/

theorem add_addQ (s e : Nat) (a b : Numeric) (sub : Bool) (d : List Desc)
    (ka : AllKnown a.unit) (kb : AllKnown b.unit) :
    match addQ a b sub with
    | some r => Eval.add s e a b sub d = (.ok r, d) ∧ AllKnown r.unit
    | none => ∃ k, Eval.add s e a b sub d = (.error (.err k s e), d) ∧ addKind a b = some k := by
  unfold addQ addKind Eval.add
  cases hf : Compound.factor a.unit b.unit b.value with
  | error c => exact ⟨_, rfl, rfl⟩
  | ok o =>
    cases o with
    | none => exact ⟨_, rfl, rfl⟩
    | some bv =>
      refine ⟨rfl, ?_⟩
      simp only
      split
      · exact kb
      · exact ka

theorem mulDiv_mulDivQ (cfg : Cfg) (s e : Nat) (a b : Numeric) (div : Bool) (d : List Desc)
    (ka : AllKnown a.unit) (kb : AllKnown b.unit) :
    match mulDivQ cfg a b div with
    | some r => Eval.mulDiv cfg s e a b div d = (.ok r, d) ∧ AllKnown r.unit
    | none => ∃ k, Eval.mulDiv cfg s e a b div d = (.error (.err k s e), d) ∧
        mulDivKind cfg a b div = some k := by
  have hn : (if div then (-1 : Int) else 1) ≠ 0 := by cases div <;> simp
  have hna := Props.C11.C11_mul_no_assert cfg.debug a.unit b.unit _ a.value b.value hn ka kb
  unfold mulDivQ mulDivKind Eval.mulDiv
  cases hm : Compound.mul cfg.debug a.unit b.unit (if div then -1 else 1) a.value b.value with
  | error c =>
    cases c with
    | conversion => exact ⟨_, rfl, rfl⟩
    | zeroPower => exact absurd hm hna
  | ok res =>
    obtain ⟨unit, av, bv⟩ := res
    have hk := allKnown_mul _ _ _ _ _ _ ka kb _ hm
    simp only
    cases div with
    | true =>
      simp only [↓reduceIte]
      by_cases hz : bv = 0
      · simp only [hz, ↓reduceIte]; exact ⟨_, rfl, rfl⟩
      · simp only [hz, ↓reduceIte]; exact ⟨rfl, hk⟩
    | false =>
      simp only [Bool.false_eq_true, ↓reduceIte]; exact ⟨rfl, hk⟩

theorem pow_powQ (s e : Nat) (a b : Numeric) (d : List Desc) (ka : AllKnown a.unit) :
    match powQ a b with
    | some r => Eval.pow s e a b d = (.ok r, d) ∧ AllKnown r.unit
    | none => ∃ k, Eval.pow s e a b d = (.error (.err k s e), d) ∧ powKind a b = some k := by
  have hku : AllKnown (if a.unit.isEmpty then a.unit else Compound.checkedPow a.unit b.value.num) := by
    split
    · exact ka
    · exact allKnown_checkedPow ka _
  unfold powQ powKind Eval.pow
  by_cases h1 : (!b.unit.isEmpty) = true
  · rw [if_pos h1, if_pos h1, if_pos h1]; exact ⟨_, rfl, rfl⟩
  rw [if_neg h1, if_neg h1, if_neg h1]
  by_cases h2 : b.value.den ≠ 1
  · rw [if_pos h2, if_pos h2, if_pos h2]; exact ⟨_, rfl, rfl⟩
  rw [if_neg h2, if_neg h2, if_neg h2]
  simp only
  by_cases h3 : (!a.unit.isEmpty && (decide (b.value.num < -2147483648) ||
      decide (b.value.num > 2147483647) || !Compound.powFits a.unit b.value.num)) = true
  · rw [if_pos h3, if_pos h3, if_pos h3]; exact ⟨_, rfl, rfl⟩
  rw [if_neg h3, if_neg h3, if_neg h3]
  by_cases h4 : b.value.num = 0
  · rw [if_pos h4, if_pos h4]; exact ⟨rfl, hku⟩
  rw [if_neg h4, if_neg h4, if_neg h4]
  by_cases h5 : a.value = 0
  · rw [if_pos h5, if_pos h5, if_pos h5]
    by_cases h6 : b.value.num < 0
    · rw [if_pos h6, if_pos h6, if_pos h6]; exact ⟨_, rfl, rfl⟩
    · rw [if_neg h6, if_neg h6]; exact ⟨rfl, hku⟩
  · rw [if_neg h5, if_neg h5]; exact ⟨rfl, hku⟩

theorem binEval_binQ (cfg : Cfg) (op : BinOp) (s e : Nat) (a b : Numeric) (d : List Desc)
    (ka : AllKnown a.unit) (kb : AllKnown b.unit) :
    match binQ cfg op a b with
    | some r => binEval cfg op s e a b d = (.ok r, d) ∧ AllKnown r.unit
    | none => ∃ k, binEval cfg op s e a b d = (.error (.err k s e), d) ∧
        binKind cfg op a b = some k := by
  cases op with
  | add => exact add_addQ s e a b false d ka kb
  | sub => exact add_addQ s e a b true d ka kb
  | mul => exact mulDiv_mulDivQ cfg s e a b false d ka kb
  | div => exact mulDiv_mulDivQ cfg s e a b true d ka kb
  | pow => exact pow_powQ s e a b d ka

/-! ### Outcomes -/

/-- The evaluator answers the reference evaluation: that value (made of known units), or an
`err` of one of the kinds `Kinds`; the log is untouched. -/
def EvOK (cfg : Cfg) (e : QExpr) (d : List Desc) (res : Except EvalErr Numeric × List Desc) : Prop :=
  match evQ cfg e with
  | some r => res = (.ok r, d) ∧ AllKnown r.unit
  | none => ∃ k s t, res = (.error (.err k s t), d) ∧ Kinds cfg e k

theorem evOK_iff (cfg : Cfg) (e : QExpr) (d : List Desc) (res : Except EvalErr Numeric × List Desc) :
    EvOK cfg e d res ↔
      (∃ r, evQ cfg e = some r ∧ res = (.ok r, d) ∧ AllKnown r.unit) ∨
      (evQ cfg e = none ∧ ∃ k s t, res = (.error (.err k s t), d) ∧ Kinds cfg e k) := by
  unfold EvOK
  cases evQ cfg e with
  | none => simp
  | some r => simp

theorem evQ_bin_none_left {cfg : Cfg} {op : BinOp} {a b : QExpr} (h : evQ cfg a = none) :
    evQ cfg (.bin op a b) = none := by
  simp [evQ, h]

theorem evQ_bin_none_right {cfg : Cfg} {op : BinOp} {a b : QExpr} (h : evQ cfg b = none) :
    evQ cfg (.bin op a b) = none := by
  simp only [evQ, h]
  cases evQ cfg a <;> rfl

theorem evQ_cast_none {cfg : Cfg} {a : QExpr} {u : List RTerm} (h : evQ cfg a = none) :
    evQ cfg (.cast a u) = none := by
  simp only [evQ, h]
  cases unitOf u <;> rfl

theorem evQ_fold_none {cfg : Cfg} {R : Tree → QExpr → Prop} {acc e : QExpr} {ts : List Tree}
    (h : FoldRQ R acc ts e) : evQ cfg acc = none → evQ cfg e = none := by
  induction h with
  | nil acc => exact id
  | cons _ _ _ ih => exact fun hb => ih (evQ_bin_none_left hb)
  | cast _ _ _ ih => exact fun hb => ih (evQ_cast_none hb)

theorem kinds_fold {cfg : Cfg} {R : Tree → QExpr → Prop} {acc e : QExpr} {ts : List Tree}
    {k : ErrKind} (h : FoldRQ R acc ts e) : Kinds cfg acc k → Kinds cfg e k := by
  induction h with
  | nil acc => exact id
  | cons _ _ _ ih => exact fun hb => ih (Or.inl hb)
  | cast _ _ _ ih => exact fun hb => ih (Or.inl hb)

theorem inScope_fold {R : Tree → QExpr → Prop} {acc e : QExpr} {ts : List Tree}
    (h : FoldRQ R acc ts e) : InScope e → InScope acc := by
  induction h with
  | nil acc => exact id
  | cons _ _ _ ih => exact fun he => (ih he).1
  | cast _ _ _ ih => exact fun he => (ih he).1

/-! ### One step of the operator loop -/

theorem step_binT (cfg : Cfg) (F : Nat) (node : At) (base : Delayed) (oa xa : At) (rest : List At)
    (op : BinOp) (acc b : QExpr) (d : List Desc) (ho : oa.t.kind = opKind op)
    (hx : EvOK cfg b d (eval cfg F xa d)) (hbase : EvOK cfg acc d (force cfg F base d)) :
    (∃ r, evQ cfg (.bin op acc b) = some r ∧ AllKnown r.unit ∧
      opFold cfg (F + 1) node base (oa :: xa :: rest) d = opFold cfg F node (.num r) rest d) ∨
    (evQ cfg (.bin op acc b) = none ∧
      ∃ k s t, opFold cfg (F + 1) node base (oa :: xa :: rest) d = (.error (.err k s t), d) ∧
        Kinds cfg (.bin op acc b) k) := by
  rw [opFold_step cfg F node base oa xa rest op ho]
  simp only [bind_apply]
  rcases (evOK_iff _ _ _ _).mp hx with ⟨rb, hb, hrb, kb⟩ | ⟨hb, k, s, t, hr, hK⟩
  · rw [hrb]
    simp only
    rcases (evOK_iff _ _ _ _).mp hbase with ⟨ra, ha, hra, ka⟩ | ⟨ha, k, s, t, hr, hK⟩
    · rw [hra]
      simp only
      have hstep := binEval_binQ cfg op node.off node.stop ra rb d ka kb
      have hev : evQ cfg (.bin op acc b) = binQ cfg op ra rb := by simp [evQ, ha, hb]
      cases hq : binQ cfg op ra rb with
      | some r =>
        rw [hq] at hstep
        left
        exact ⟨r, hev.trans hq, hstep.2, by rw [hstep.1]⟩
      | none =>
        rw [hq] at hstep
        obtain ⟨k, hk, hkind⟩ := hstep
        right
        exact ⟨hev.trans hq, k, _, _, by rw [hk], Or.inr (Or.inr ⟨ra, rb, ha, hb, hkind⟩)⟩
    · rw [hr]; right; exact ⟨evQ_bin_none_left ha, k, s, t, rfl, Or.inl hK⟩
  · rw [hr]; right; exact ⟨evQ_bin_none_right hb, k, s, t, rfl, Or.inr (Or.inl hK)⟩

theorem step_castT (cfg : Cfg) (F : Nat) (node : At) (base : Delayed) (oa xa : At)
    (rest : List At) (acc : QExpr) (u : List RTerm) (d : List Desc) (ho : oa.t.kind = .OP_CAST)
    (hx : RepUnit xa.t u) (hu : UnitRuns u) (hbase : EvOK cfg acc d (force cfg F base d)) :
    (∃ r, evQ cfg (.cast acc u) = some r ∧ AllKnown r.unit ∧
      opFold cfg (F + 1) node base (oa :: xa :: rest) d = opFold cfg F node (.num r) rest d) ∨
    (evQ cfg (.cast acc u) = none ∧
      ∃ k s t, opFold cfg (F + 1) node base (oa :: xa :: rest) d = (.error (.err k s t), d) ∧
        Kinds cfg (.cast acc u) k) := by
  obtain ⟨T, hTu⟩ := hu.2
  obtain ⟨hT, kT⟩ := unit_unitOf xa.t u T xa.off d hx hu hTu
  rw [at_eta] at hT
  rcases (evOK_iff _ _ _ _).mp hbase with ⟨ra, ha, hra, ka⟩ | ⟨ha, k, s, t, hr, hK⟩
  · rw [Props.C02.opFold_cast cfg F node oa xa rest base d d d T ra ho hT hra]
    have hev : evQ cfg (.cast acc u) = castQ T ra := by simp [evQ, ha, hTu]
    have hkind : ∀ k, castKind T ra = some k → Kinds cfg (.cast acc u) k :=
      fun k hk => Or.inr ⟨T, ra, hTu, ha, hk⟩
    unfold castQ at hev
    unfold castKind at hkind
    cases hf : Compound.factor T ra.unit ra.value with
    | error c =>
      rw [hf] at hev hkind
      right; exact ⟨hev, _, _, _, rfl, hkind _ rfl⟩
    | ok o =>
      cases o with
      | none => rw [hf] at hev hkind; right; exact ⟨hev, _, _, _, rfl, hkind _ rfl⟩
      | some v => rw [hf] at hev; left; exact ⟨_, hev, kT, rfl⟩
  · right
    refine ⟨evQ_cast_none ha, k, s, t, ?_, Or.inl hK⟩
    rw [opFold]
    simp only [ho, bind, hT, hr]

/-! ### The operator loop and the evaluator -/

def EvalOKT (cfg : Cfg) (f : Nat) : Prop :=
  ∀ (t : Tree) (e : QExpr) (off : Nat) (d : List Desc), 2 * size t ≤ f → RepresentsQ t e →
    InScope e → EvOK cfg e d (eval cfg f ⟨off, t⟩ d)

def FoldOutT (cfg : Cfg) (e : QExpr) (d : List Desc) (res : Except EvalErr Delayed × List Desc) : Prop :=
  (∃ r, evQ cfg e = some r ∧ res = (.ok (.num r), d) ∧ AllKnown r.unit) ∨
  (evQ cfg e = none ∧ ∃ k s t, res = (.error (.err k s t), d) ∧ Kinds cfg e k)

theorem evOK_num (cfg : Cfg) (F : Nat) {acc : QExpr} {r : Numeric} (d : List Desc)
    (hv : evQ cfg acc = some r) (hk : AllKnown r.unit) :
    EvOK cfg acc d (force cfg F (.num r) d) := by
  rw [force_num]
  exact (evOK_iff _ _ _ _).mpr (Or.inl ⟨r, hv, rfl, hk⟩)

theorem fold_numT (cfg : Cfg) (N : Nat) (ih : ∀ f, f ≤ N → EvalOKT cfg f)
    {acc e : QExpr} {ts : List Tree} (h : FoldRQ RepresentsQ acc ts e) :
    ∀ (rest : List At) (F : Nat) (r : Numeric) (node : At) (d : List Desc),
      rest.map (·.t) = ts → F ≤ N + 1 → evQ cfg acc = some r → AllKnown r.unit →
      2 * sizeList ts ≤ F → InScope e →
      FoldOutT cfg e d (opFold cfg F node (.num r) rest d) := by
  induction h with
  | nil acc =>
    intro rest F r node d hr _ hv hk _ _
    have : rest = [] := by simpa using hr
    subst this
    left
    refine ⟨r, hv, ?_, hk⟩
    cases F <;> simp [opFold, pure]
  | @cons acc o x op b e ts' ho hx htail ihf =>
    intro rest F r node d hr hF hv hk hsz hu
    match rest, hr with
    | oa :: xa :: rest', hr =>
      simp only [List.map_cons, List.cons.injEq] at hr
      obtain ⟨h1, h2, h3⟩ := hr
      simp only [sizeList] at hsz
      have hxs := C06.size_pos x
      have hos := C06.size_pos o
      obtain ⟨F', rfl⟩ : ∃ F', F = F' + 1 := ⟨F - 1, by omega⟩
      have hub := inScope_fold htail hu
      simp only [InScope] at hub
      have hxo := ih F' (by omega) x b xa.off d (by omega) hx hub.2
      rw [← h2, at_eta] at hxo
      rcases step_binT cfg F' node (.num r) oa xa rest' op acc b d (h1 ▸ ho) hxo
        (evOK_num cfg F' d hv hk) with ⟨r', hv', hk', heq⟩ | ⟨hnone, k, s, t, heq, hK⟩
      · rw [heq]
        exact ihf rest' F' r' node d h3 (by omega) hv' hk' (by omega) hu
      · right
        exact ⟨evQ_fold_none htail hnone, k, s, t, heq, kinds_fold htail hK⟩
  | @cast acc o x u e ts' ho hx htail ihf =>
    intro rest F r node d hr hF hv hk hsz hu
    match rest, hr with
    | oa :: xa :: rest', hr =>
      simp only [List.map_cons, List.cons.injEq] at hr
      obtain ⟨h1, h2, h3⟩ := hr
      simp only [sizeList] at hsz
      have hxs := C06.size_pos x
      have hos := C06.size_pos o
      obtain ⟨F', rfl⟩ : ∃ F', F = F' + 1 := ⟨F - 1, by omega⟩
      have hub := inScope_fold htail hu
      simp only [InScope] at hub
      rcases step_castT cfg F' node (.num r) oa xa rest' acc u d (h1 ▸ ho) (h2 ▸ hx) hub.2
        (evOK_num cfg F' d hv hk) with ⟨r', hv', hk', heq⟩ | ⟨hnone, k, s, t, heq, hK⟩
      · rw [heq]
        exact ihf rest' F' r' node d h3 (by omega) hv' hk' (by omega) hu
      · right
        exact ⟨evQ_fold_none htail hnone, k, s, t, heq, kinds_fold htail hK⟩

theorem evalOKT_all (cfg : Cfg) : ∀ f, EvalOKT cfg f := by
  intro f
  induction f using Nat.strong_induction_on with
  | _ f ih =>
    intro t e off d hsz hrep hu
    have hpos := C06.size_pos t
    obtain ⟨F, rfl⟩ : ∃ F, f = F + 1 := ⟨f - 1, by omega⟩
    have ih' : ∀ g, g ≤ F → EvalOKT cfg g := fun g hg => ih g (by omega)
    cases hrep with
    | @num _ l hk hc ht =>
      simp only [InScope] at hu
      simp only [eval, hk, ht, fromStr_lit l hu.1, value_percent_false' l hu.2]
      exact (evOK_iff _ _ _ _).mpr (Or.inl ⟨_, rfl, rfl, allKnown_nil⟩)
    | @qty id v un rest more l u hk ht hop hun =>
      simp only [InScope] at hu
      obtain ⟨hlit, huo⟩ := hu
      obtain ⟨T, hTu⟩ := huo.2
      have hL : ((kidsAt (off + v.len) rest).filter (fun k => k.t.hasChildren)).map (·.t) =
          opKids rest := by rw [filter_kids_map, kidsAt_map]
      rw [hop] at hL
      obtain ⟨ua, morea, hLeq, hua, _⟩ := map_eq_cons hL
      obtain ⟨tl, hnn⟩ := nextNode_of_filter hLeq
      obtain ⟨hT, kT⟩ := unit_unitOf un u T ua.off d hun huo hTu
      rw [← hua, at_eta] at hT
      simp only [At.kids] at hT
      have hkind : (ua.t.kind != Syntax.UNIT) = false := by rw [hua, hun.1]; rfl
      have hs1 := opKids_size_le rest
      simp only [hop, sizeList, size_node] at hs1 hsz
      have pv := C06.size_pos v
      have pu := C06.size_pos un
      obtain ⟨F', rfl⟩ : ∃ F', F = F' + 1 := ⟨F - 1, by omega⟩
      have hval : eval cfg (F' + 1) ⟨off, v⟩ d =
          (.ok { value := value l, unit := [] }, d) := by
        simp only [eval, hk, ht, fromStr_lit l hlit.1, value_percent_false' l hlit.2]
        rfl
      rw [eval]
      simp only [kind_node, At.kids, kids_node, kidsAt, hnn, hkind, Bool.false_eq_true,
        ↓reduceIte, bind_apply, hval, hT, pure]
      exact (evOK_iff _ _ _ _).mpr (Or.inl ⟨_, by simp [evQ, hTu], rfl, kT⟩)
    | @paren id ks x e' hop hx =>
      simp only [InScope] at hu
      have hL := at_opKids ⟨off, .node id .OPERATION ks⟩
      simp only [kids_node, hop] at hL
      obtain ⟨xa, hLeq, hxa⟩ := map_eq_one hL
      have hs1 := opKids_size_le ks
      simp only [hop, sizeList, size_node] at hs1 hsz
      obtain ⟨F', rfl⟩ : ∃ F', F = F' + 1 := ⟨F - 1, by omega⟩
      simp only [eval, kind_node, hLeq, opFold, bind_apply, pure, force]
      have := ih' F' (by omega) x e' xa.off d (by omega) hx hu
      rw [← hxa, at_eta] at this
      simpa [EvOK, evQ, Kinds] using this
    | @chain id ks x₀ rest0 e₀ _ hop hne hx0 hfold0 =>
      have hL := at_opKids ⟨off, .node id .OPERATION ks⟩
      simp only [kids_node, hop] at hL
      obtain ⟨x0a, L1, hLeq, hx0a, hL1⟩ := map_eq_cons hL
      have hs1 := opKids_size_le ks
      simp only [hop, sizeList, size_node] at hs1 hsz
      have p0 := C06.size_pos x₀
      have hu0 := inScope_fold hfold0 hu
      have hbase : ∀ G, G ≤ F → 2 * size x₀ + 1 ≤ G →
          EvOK cfg e₀ d (force cfg G (.node x0a) d) := by
        intro G hG hGs
        obtain ⟨G', rfl⟩ : ∃ G', G = G' + 1 := ⟨G - 1, by omega⟩
        rw [force_node]
        have := ih' G' (by omega) x₀ e₀ x0a.off d (by omega) hx0 hu0
        rwa [← hx0a, at_eta] at this
      have key : FoldOutT cfg e d (opFold cfg F ⟨off, .node id .OPERATION ks⟩ (.node x0a) L1 d) := by
        cases hfold0 with
        | nil => exact absurd rfl hne
        | @cons _ o x₁ op b _ rest ho hx1 htail =>
          obtain ⟨oa, L2, rfl, hoa, hL2⟩ := map_eq_cons hL1
          obtain ⟨x1a, resta, rfl, hx1a, hresta⟩ := map_eq_cons hL2
          simp only [sizeList] at hs1 hsz
          have p1 := C06.size_pos x₁
          have p2 := C06.size_pos o
          obtain ⟨F', rfl⟩ : ∃ F', F = F' + 1 := ⟨F - 1, by omega⟩
          have hub := inScope_fold htail hu
          simp only [InScope] at hub
          have hxo := ih' F' (by omega) x₁ b x1a.off d (by omega) hx1 hub.2
          rw [← hx1a, at_eta] at hxo
          rcases step_binT cfg F' ⟨off, .node id .OPERATION ks⟩ (.node x0a) oa x1a resta op e₀ b d
            (hoa ▸ ho) hxo (hbase F' (by omega) (by omega)) with
            ⟨r', hv', hk', heq⟩ | ⟨hnone, k, s, t, heq, hK⟩
          · rw [heq]
            exact fold_numT cfg (F' + 1) ih' htail resta F' r' _ d hresta (by omega) hv' hk'
              (by omega) hu
          · right
            exact ⟨evQ_fold_none htail hnone, k, s, t, heq, kinds_fold htail hK⟩
        | @cast _ o x₁ u _ rest ho hx1 htail =>
          obtain ⟨oa, L2, rfl, hoa, hL2⟩ := map_eq_cons hL1
          obtain ⟨x1a, resta, rfl, hx1a, hresta⟩ := map_eq_cons hL2
          simp only [sizeList] at hs1 hsz
          have p1 := C06.size_pos x₁
          have p2 := C06.size_pos o
          obtain ⟨F', rfl⟩ : ∃ F', F = F' + 1 := ⟨F - 1, by omega⟩
          have hub := inScope_fold htail hu
          simp only [InScope] at hub
          rcases step_castT cfg F' ⟨off, .node id .OPERATION ks⟩ (.node x0a) oa x1a resta e₀ u d
            (hoa ▸ ho) (hx1a ▸ hx1) hub.2 (hbase F' (by omega) (by omega)) with
            ⟨r', hv', hk', heq⟩ | ⟨hnone, k, s, t, heq, hK⟩
          · rw [heq]
            exact fold_numT cfg (F' + 1) ih' htail resta F' r' _ d hresta (by omega) hv' hk'
              (by omega) hu
          · right
            exact ⟨evQ_fold_none htail hnone, k, s, t, heq, kinds_fold htail hK⟩
      simp only [eval, kind_node, hLeq, bind_apply]
      rcases key with ⟨r, hv, hr, hk⟩ | ⟨hnone, k, s, t, hr, hK⟩
      · rw [hr]
        simp only [force_num]
        exact (evOK_iff _ _ _ _).mpr (Or.inl ⟨r, hv, rfl, hk⟩)
      · rw [hr]
        exact (evOK_iff _ _ _ _).mpr (Or.inr ⟨hnone, k, s, t, rfl, hK⟩)

/-- **The evaluator on a tree that represents `e` answers the reference evaluation of `e`** —
for any units, offset scales included. -/
theorem eval_evQ (cfg : Cfg) (t : Tree) (e : QExpr) (off fuel : Nat) (d : List Desc)
    (h : RepresentsQ t e) (hu : InScope e) (hf : 2 * size t ≤ fuel) :
    EvOK cfg e d (eval cfg fuel ⟨off, t⟩ d) :=
  evalOKT_all cfg fuel t e off d hf h hu

/-! ### The whole pipeline -/

/-- What `Eval.query` answers: exactly one result, the reference value or an `err` of one of the
kinds `K`; no descriptions. -/
def QueryIs (K : ErrKind → Prop) (o : Option Numeric)
    (res : Except BErr (List (Except EvalErr Numeric) × List Desc)) : Prop :=
  match o with
  | some r => res = .ok ([.ok r], [])
  | none => ∃ k s t, res = .ok ([.error (.err k s t)], []) ∧ K k

/-- **`Eval.query` on the rendering of a quantity expression** (lexer, parser, `eval::unit`,
evaluator) answers the reference evaluation `evQ`, for any units. -/
theorem query_evQ (cfg : Cfg) (e : QExpr) (ws : Layout) (hwf : WFQ e) (hl : QueryLayoutOKQ e ws)
    (hu : InScope e) :
    QueryIs (Kinds cfg e) (evQ cfg e) (Eval.query cfg (renderQuery e ws)) := by
  obtain ⟨forest, hparse, Wt, x, Wt', hf, hWt, hWt', hx⟩ := parse_renderQ e ws hwf hl
  unfold Eval.query
  rw [hparse]
  simp only
  rw [hf, List.append_assoc]
  obtain ⟨off, h1⟩ := queryLoop_ws cfg Wt hWt ([x] ++ Wt') 0
  rw [h1]
  simp only [List.singleton_append, kidsAt, queryLoop, representsQ_kind hx, Bool.false_eq_true,
    ↓reduceIte]
  obtain ⟨off2, h2⟩ := queryLoop_ws cfg Wt' hWt' [] (off + x.len)
  have h2' := h2 []
  simp only [List.append_nil, kidsAt, queryLoop] at h2'
  have hev := eval_evQ cfg x e off (2 * size x + 2) [] (repQL_to_repQ hx) hu (by omega)
  unfold EvOK at hev
  unfold QueryIs
  cases hd : evQ cfg e with
  | some r =>
    rw [hd] at hev
    simp only [hev.1, h2']
  | none =>
    rw [hd] at hev
    obtain ⟨k, s, t, hk, hK⟩ := hev
    refine ⟨k, s, t, ?_, hK⟩
    simp only [hk, h2']

/-! ### A value has no error kind -/

theorem binKind_none_of_some {cfg : Cfg} {op : BinOp} {a b r : Numeric}
    (h : binQ cfg op a b = some r) : binKind cfg op a b = none := by
  cases op <;> simp only [binQ, binKind] at h ⊢
  · unfold addQ at h; unfold addKind
    cases hf : Compound.factor a.unit b.unit b.value with
    | error c => rw [hf] at h; cases h
    | ok o => cases o with
      | none => rw [hf] at h; cases h
      | some v => rfl
  · unfold addQ at h; unfold addKind
    cases hf : Compound.factor a.unit b.unit b.value with
    | error c => rw [hf] at h; cases h
    | ok o => cases o with
      | none => rw [hf] at h; cases h
      | some v => rfl
  · unfold mulDivQ at h; unfold mulDivKind
    cases hm : Compound.mul cfg.debug a.unit b.unit (if false = true then -1 else 1) a.value b.value with
    | error c => rw [hm] at h; cases h
    | ok res => simp
  · unfold mulDivQ at h; unfold mulDivKind
    cases hm : Compound.mul cfg.debug a.unit b.unit (if true = true then -1 else 1) a.value b.value with
    | error c => rw [hm] at h; cases h
    | ok res =>
      obtain ⟨u, av, bv⟩ := res
      rw [hm] at h
      simp only [↓reduceIte] at h ⊢
      by_cases hz : bv = 0
      · simp [hz] at h
      · simp [hz]
  · unfold powQ at h; unfold powKind
    by_cases h1 : (!b.unit.isEmpty) = true
    · rw [if_pos h1] at h; cases h
    rw [if_neg h1] at h ⊢
    by_cases h2 : b.value.den ≠ 1
    · rw [if_pos h2] at h; cases h
    rw [if_neg h2] at h ⊢
    simp only at h ⊢
    by_cases h3 : (!a.unit.isEmpty && (decide (b.value.num < -2147483648) ||
        decide (b.value.num > 2147483647) || !Compound.powFits a.unit b.value.num)) = true
    · rw [if_pos h3] at h; cases h
    rw [if_neg h3] at h ⊢
    by_cases h4 : b.value.num = 0
    · rw [if_pos h4]
    rw [if_neg h4] at h ⊢
    by_cases h5 : a.value = 0
    · rw [if_pos h5] at h ⊢
      by_cases h6 : b.value.num < 0
      · rw [if_pos h6] at h; cases h
      · rw [if_neg h6]
    · rw [if_neg h5]

theorem castKind_none_of_some {T : Compound} {a r : Numeric} (h : castQ T a = some r) :
    castKind T a = none := by
  unfold castQ at h; unfold castKind
  cases hf : Compound.factor T a.unit a.value with
  | error c => rw [hf] at h; cases h
  | ok o => cases o with
    | none => rw [hf] at h; cases h
    | some v => rfl

/-- An expression that has a reference value has no error kind. -/
theorem kinds_of_some (cfg : Cfg) : ∀ (e : QExpr) (r : Numeric) (k : ErrKind),
    evQ cfg e = some r → ¬ Kinds cfg e k
  | .num _, _, _, _ => fun h => h
  | .qty _ _, _, _, _ => fun h => h
  | .fact _ _ _, _, _, _ => fun h => h
  | .paren e, r, k, h => by
    simp only [Kinds]
    exact kinds_of_some cfg e r k (by simpa [evQ] using h)
  | .cast a u, r, k, h => by
    simp only [evQ] at h
    cases hT : unitOf u with
    | none => rw [hT] at h; cases h
    | some T =>
      cases ha : evQ cfg a with
      | none => rw [hT, ha] at h; cases h
      | some ra =>
        rw [hT, ha] at h
        simp only [Kinds]
        rintro (hK | ⟨T', r', hT', hr', hk⟩)
        · exact kinds_of_some cfg a ra k ha hK
        · rw [hT] at hT'; rw [ha] at hr'
          cases hT'; cases hr'
          rw [castKind_none_of_some h] at hk
          cases hk
  | .bin op a b, r, k, h => by
    simp only [evQ] at h
    cases ha : evQ cfg a with
    | none => rw [ha] at h; cases h
    | some ra =>
      cases hb : evQ cfg b with
      | none => rw [ha, hb] at h; cases h
      | some rb =>
        rw [ha, hb] at h
        simp only [Kinds]
        rintro (hK | hK | ⟨ra', rb', ha', hb', hk⟩)
        · exact kinds_of_some cfg a ra k ha hK
        · exact kinds_of_some cfg b rb k hb hK
        · rw [ha] at ha'; rw [hb] at hb'
          cases ha'; cases hb'
          rw [binKind_none_of_some h] at hk
          cases hk

end Anything.C9Q
