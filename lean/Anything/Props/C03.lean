import Anything.Lemmas.Mul
import Anything.Model.Eval
import Anything.Props.C02
/-!
# C03 — unit conversion preserves the physical quantity

`Compound::factor self other v` converts the magnitude `v` from the unit `other` to
the unit `self`. For proportional units it multiplies by `scale other / scale self`
where `scale = ∏ (10^prefix · factor)^power` is the specification's exact scale over
the extracted table — for **every** rational magnitude and **every** pair of
commensurable compounds. Everything the property lists is a corollary.
-/

namespace Anything.Props.C03
open Anything Anything.Spec Anything.Props.C02

/-- `x` expressed in unit `src` is converted to unit `dst`. -/
abbrev convert (dst src : Compound) (x : Rat) := Compound.factor dst src x

/-- Table fact behind `scale_ne_zero`: every factor of the extracted unit table is a
non-zero fraction (re-checked by the kernel whenever the table changes). -/
theorem C03_table_factors_ne_zero : Generated.units.all (fun d => convOk d.conv) = true :=
  table_factors_ne_zero

/-- The scale of any compound is a non-zero rational. -/
theorem C03_scale_ne_zero (c : Compound) : scaleC c ≠ 0 := scale_ne_zero c

/-- **C03 (value of a conversion).** -/
theorem C03_convert_value (dst src : Compound) (hd : dst ≠ []) (hs : src ≠ [])
    (pd : Proportional dst) (ps : Proportional src) (h : Commensurable dst src) (x : Rat) :
    convert dst src x = .ok (some (x * scaleC src / scaleC dst)) := by
  unfold convert
  rw [factor_prop dst src hd hs pd ps]
  unfold Commensurable at h
  simp [h]

/-- The scale is the specification's scale of the unit expression. -/
theorem C03_scale_is_spec (c : Compound) : scaleC c = SI.scale (semOf c) := (scale_semOf c).symm

/-- **C03 (there and back).** Converting and converting back returns the original
number exactly. -/
theorem C03_round_trip (a b : Compound) (ha : a ≠ []) (hb : b ≠ [])
    (pa : Proportional a) (pb : Proportional b) (h : Commensurable a b) (x : Rat) :
    ∃ y, convert a b x = .ok (some y) ∧ convert b a y = .ok (some x) := by
  refine ⟨_, C03_convert_value a b ha hb pa pb h x, ?_⟩
  rw [C03_convert_value b a hb ha pb pa h.symm]
  have h1 := scale_ne_zero a
  have h2 := scale_ne_zero b
  congr 2
  field_simp

/-- **C03 (via an intermediate unit).** `src → mid → dst` equals `src → dst`. -/
theorem C03_via_intermediate (dst mid src : Compound) (hd : dst ≠ []) (hm : mid ≠ []) (hs : src ≠ [])
    (pd : Proportional dst) (pm : Proportional mid) (ps : Proportional src)
    (h1 : Commensurable mid src) (h2 : Commensurable dst mid) (x : Rat) :
    ∃ y, convert mid src x = .ok (some y) ∧ convert dst mid y = convert dst src x := by
  refine ⟨_, C03_convert_value mid src hm hs pm ps h1 x, ?_⟩
  have h3 : Commensurable dst src := h2.trans h1
  rw [C03_convert_value dst mid hd hm pd pm h2, C03_convert_value dst src hd hs pd ps h3]
  have := scale_ne_zero mid
  congr 2
  field_simp

/-- **C03 (scaling the input scales the output).** -/
theorem C03_linear (dst src : Compound) (hd : dst ≠ []) (hs : src ≠ [])
    (pd : Proportional dst) (ps : Proportional src) (h : Commensurable dst src) (k x : Rat) :
    ∃ y, convert dst src x = .ok (some y) ∧ convert dst src (k * x) = .ok (some (k * y)) := by
  refine ⟨_, C03_convert_value dst src hd hs pd ps h x, ?_⟩
  rw [C03_convert_value dst src hd hs pd ps h]
  congr 2
  ring

/-- **C03 (a prefix is exactly its power of ten).** Scale of `prefix·u` (power one)
is `10^prefix` times the scale of `u`, for every unit and every integer exponent the
prefix table may hold. -/
theorem C03_prefix_scale (u : UnitKey) (p : Int) :
    scaleC [(u, { power := 1, pfx := p })] = (10 : Rat) ^ p * scaleC [(u, { power := 1, pfx := 0 })] := by
  simp [scaleC, term]

theorem C03_prefix_convert (u : UnitKey) (hu : isProp u = true) (p : Int) (x : Rat) :
    convert [(u, { power := 1, pfx := 0 })] [(u, { power := 1, pfx := p })] x = .ok (some (x * (10 : Rat) ^ p)) := by
  have pa : Proportional [(u, ({ power := 1, pfx := 0 } : State))] := by
    intro e he; simp at he; subst he; exact hu
  have pb : Proportional [(u, ({ power := 1, pfx := p } : State))] := by
    intro e he; simp at he; subst he; exact hu
  have hc : Commensurable [(u, ({ power := 1, pfx := 0 } : State))] [(u, { power := 1, pfx := p })] := by
    unfold Commensurable SI.dims semOf; simp
  rw [C03_convert_value _ _ (by simp) (by simp) pa pb hc, C03_prefix_scale]
  have := scale_ne_zero [(u, ({ power := 1, pfx := 0 } : State))]
  congr 2
  field_simp

/-- **C03 (powers).** Raising every unit of a compound to the `n`-th power raises its
scale to the `n`-th power. -/
theorem C03_power_scale (c : Compound) (n : Int) :
    scaleC (c.map (fun e => (e.1, { e.2 with power := e.2.power * n }))) = scaleC c ^ n := by
  unfold scaleC
  induction c with
  | nil => simp
  | cons e rest ih =>
    simp only [List.map_cons, List.prod_cons] at ih ⊢
    rw [ih, mul_zpow]
    congr 1
    simp only [term]
    rw [zpow_mul]

/-- **C03 (products).** The scale of a product of unit expressions is the product of
their scales. -/
theorem C03_product_scale (a b : Compound) : scaleC (a ++ b) = scaleC a * scaleC b := by
  simp [scaleC]

/-- **C03 (a product converts by the product of the individual factors).** -/
theorem C03_product_convert (a a' b b' : Compound)
    (ha : a ≠ []) (hb : b ≠ []) (ha' : a' ≠ []) (hb' : b' ≠ [])
    (pa : Proportional a) (pb : Proportional b) (pa' : Proportional a') (pb' : Proportional b')
    (h : Commensurable a b) (h' : Commensurable a' b') (x y : Rat) :
    ∃ f f', convert a b x = .ok (some f) ∧ convert a' b' y = .ok (some f') ∧
      convert (a ++ a') (b ++ b') (x * y) = .ok (some (f * f')) := by
  refine ⟨_, _, C03_convert_value a b ha hb pa pb h x, C03_convert_value a' b' ha' hb' pa' pb' h' y, ?_⟩
  have p1 : Proportional (a ++ a') := by
    intro e he; rcases List.mem_append.mp he with he | he
    · exact pa e he
    · exact pa' e he
  have p2 : Proportional (b ++ b') := by
    intro e he; rcases List.mem_append.mp he with he | he
    · exact pb e he
    · exact pb' e he
  have hc : Commensurable (a ++ a') (b ++ b') := by
    unfold Commensurable at *
    rw [dims_semOf, dims_semOf, vecOf_inj] at *
    intro bb
    have e1 := h bb
    have e2 := h' bb
    simp only [dimsFn, List.map_append, List.sum_append] at *
    omega
  rw [C03_convert_value _ _ (by simp [ha]) (by simp [hb]) p1 p2 hc, C03_product_scale, C03_product_scale]
  have := scale_ne_zero a
  have := scale_ne_zero a'
  congr 2
  field_simp

/-! ### Non-vacuity -/

def km : Compound := [(.base .Meter, { power := 1, pfx := 3 })]
def mile : Compound := [(.derived 3553165315, { power := 1, pfx := 0 })]

/-- The hypotheses are satisfiable by non-trivial units, and the theorem gives the
textbook value: 1 mi = 1.609344 km. -/
example : Commensurable km mile := by decide +kernel
example : scaleC mile / scaleC km = 1609344 / 1000000 := by
  simp [scaleC, term, mile, km, lin, SI.linFactor, SI.scaleOf, SI.findUnit, Generated.units]
  norm_num

end Anything.Props.C03
