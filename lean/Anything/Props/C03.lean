import Anything.Model.Eval
import Anything.Spec.Quantity
namespace Anything.Props.C03
theorem C03_placeholder : True := trivial
end Anything.Props.C03
