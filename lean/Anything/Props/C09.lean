import Anything.Model.Eval
import Anything.Spec.Quantity
namespace Anything.Props.C09
theorem C09_placeholder : True := trivial
end Anything.Props.C09
