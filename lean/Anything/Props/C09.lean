import Anything.Lemmas.Mul4
import Anything.Model.Eval
/-!
# C09 — temperature scales convert by their defining affine formulas

`convert t q s p x` is the model's `Compound::factor` from the scale `s` with SI
prefix exponent `p` to the scale `t` with prefix exponent `q` (each alone, power
one). The formulas hold for **every** rational magnitude and every pair of prefixes;
chains of any length compose; and an offset scale that does not stand alone with
power one never has its zero point added: the conversion is refused.
-/

namespace Anything.Props.C09
open Anything Anything.Spec

inductive TScale | K | C | F
  deriving DecidableEq, Repr

def key : TScale → UnitKey
  | .K => .base .Kelvin
  | .C => .derived 3728342790
  | .F => .derived 981617578

/-- The three scales are the table's kelvin, `°C` and `°F`. -/
theorem C09_table :
    (Generated.units.find? (fun u => u.id == 3728342790)).map (fun d => (d.sing, d.dims, d.conv))
      = some (['°', 'C'], [(.Kelvin, 1)], .offset 27315 100) ∧
    (Generated.units.find? (fun u => u.id == 981617578)).map (fun d => (d.sing, d.dims, d.conv))
      = some (['°', 'F'], [(.Kelvin, 1)], .methods 5 9 45967 180 9 5 (-45967) 100) := by
  decide +kernel

/-- The defining formulas: a point `x` on the scale, in kelvin. -/
def toK : TScale → Rat → Rat
  | .K, x => x
  | .C, x => x + 27315 / 100
  | .F, x => (x - 32) * 5 / 9 + 27315 / 100

def fromK : TScale → Rat → Rat
  | .K, y => y
  | .C, y => y - 27315 / 100
  | .F, y => (y - 27315 / 100) * 9 / 5 + 32

theorem fromK_toK (t : TScale) (x : Rat) : fromK t (toK t x) = x := by
  cases t <;> simp [fromK, toK]

theorem toK_fromK (t : TScale) (y : Rat) : toK t (fromK t y) = y := by
  cases t <;> simp [fromK, toK]

/-- The scale alone with power one, with an SI prefix exponent. -/
def cmp (t : TScale) (p : Int) : Compound := [(key t, { power := 1, pfx := p })]

theorem conv_K : Units.conversion (key .K) = .none := rfl
theorem conv_C : Units.conversion (key .C) = .offset 27315 100 := by decide +kernel
theorem conv_F : Units.conversion (key .F) = .methods 5 9 45967 180 9 5 (-45967) 100 := by decide +kernel

theorem powers_C : (UnitKey.powers (.derived 3728342790) [] 1).1 = [(.base .Kelvin, 1)] := by decide +kernel
theorem powers_F : (UnitKey.powers (.derived 981617578) [] 1).1 = [(.base .Kelvin, 1)] := by decide +kernel

theorem bases (t : TScale) (p : Int) : (Compound.baseUnits (cmp t p)).2 = [(.base .Kelvin, 1)] := by
  cases t
  · rfl
  · simp only [Compound.baseUnits, cmp, List.foldl_cons, List.foldl_nil, key]
    exact powers_C
  · simp only [Compound.baseUnits, cmp, List.foldl_cons, List.foldl_nil, key]
    exact powers_F

theorem scaleIn_cmp (s : TScale) (p : Int) (x : Rat) :
    Compound.scaleIn true (cmp s p) x = .ok (toK s (x * (10 : Rat) ^ p)) := by
  cases s
  · simp [Compound.scaleIn, cmp, conv_K, Compound.applyConversion, toK, tenPow_eq, pure, Except.pure,
      bind, Except.bind]
  · simp [Compound.scaleIn, cmp, conv_C, Compound.applyConversion, toK, tenPow_eq, pure, Except.pure,
      Compound.isScale, mkFrac, bind, Except.bind]
  · simp [Compound.scaleIn, cmp, conv_F, Compound.applyConversion, toK, tenPow_eq, pure, Except.pure,
      Compound.isScale, mkFracI, bind, Except.bind]
    ring

theorem scaleOut_cmp (t : TScale) (q : Int) (y : Rat) :
    Compound.scaleOut (cmp t q) y = .ok (fromK t y / (10 : Rat) ^ q) := by
  cases t
  · simp [Compound.scaleOut, cmp, conv_K, Compound.applyConversion, fromK, tenPow_eq, pure, Except.pure,
      bind, Except.bind]
  · simp [Compound.scaleOut, cmp, conv_C, Compound.applyConversion, fromK, tenPow_eq, pure, Except.pure,
      bind, Except.bind, Compound.isScale, mkFrac]
    ring
  · simp [Compound.scaleOut, cmp, conv_F, Compound.applyConversion, fromK, tenPow_eq, pure, Except.pure,
      bind, Except.bind, Compound.isScale, mkFracI]
    ring

/-- `x` on scale `s` (prefix `p`) converted to scale `t` (prefix `q`). -/
abbrev convert (t : TScale) (q : Int) (s : TScale) (p : Int) (x : Rat) :=
  Compound.factor (cmp t q) (cmp s p) x

/-- **C09 (all nine ordered pairs, any prefixes, every magnitude).** The conversion goes
through kelvin by the defining formulas `K = C + 273.15`, `C = (F − 32)·5/9`. -/
theorem C09_convert (t : TScale) (q : Int) (s : TScale) (p : Int) (x : Rat) :
    convert t q s p x = .ok (some (fromK t (toK s (x * (10 : Rat) ^ p)) / (10 : Rat) ^ q)) := by
  unfold convert Compound.factor
  have e1 : (cmp t q).isEmpty = false := rfl
  have e2 : (cmp s p).isEmpty = false := rfl
  simp only [e1, e2, Bool.or_self, Bool.false_eq_true, ↓reduceIte, bases]
  have : Compound.sameBases [(UnitKey.base Base.Kelvin, (1 : Int))] [(UnitKey.base Base.Kelvin, 1)] = true := by
    decide
  simp only [this, Bool.not_true, Bool.false_eq_true, ↓reduceIte, scaleIn_cmp, bind, Except.bind,
    scaleOut_cmp, pure, Except.pure]

/-- The six formulas of the property, spelled out (no prefixes). -/
theorem C09_C_to_K (x : Rat) : convert .K 0 .C 0 x = .ok (some (x + 27315 / 100)) := by
  rw [C09_convert]; simp [fromK, toK]
theorem C09_K_to_C (x : Rat) : convert .C 0 .K 0 x = .ok (some (x - 27315 / 100)) := by
  rw [C09_convert]; simp [fromK, toK]
theorem C09_F_to_C (x : Rat) : convert .C 0 .F 0 x = .ok (some ((x - 32) * 5 / 9)) := by
  rw [C09_convert]; simp [fromK, toK]
theorem C09_C_to_F (x : Rat) : convert .F 0 .C 0 x = .ok (some (x * 9 / 5 + 32)) := by
  rw [C09_convert]; simp [fromK, toK]
theorem C09_F_to_K (x : Rat) : convert .K 0 .F 0 x = .ok (some ((x - 32) * 5 / 9 + 27315 / 100)) := by
  rw [C09_convert]; simp [fromK, toK]
theorem C09_K_to_F (x : Rat) : convert .F 0 .K 0 x = .ok (some ((x - 27315 / 100) * 9 / 5 + 32)) := by
  rw [C09_convert]; simp [fromK, toK]

/-- **C09 (exactly invertible).** -/
theorem C09_inverse (t : TScale) (q : Int) (s : TScale) (p : Int) (x : Rat) :
    ∃ y, convert t q s p x = .ok (some y) ∧ convert s p t q y = .ok (some x) := by
  refine ⟨_, C09_convert t q s p x, ?_⟩
  rw [C09_convert]
  have h1 : (10 : Rat) ^ q ≠ 0 := zpow_ne_zero _ (by norm_num)
  have h2 : (10 : Rat) ^ p ≠ 0 := zpow_ne_zero _ (by norm_num)
  congr 2
  rw [div_mul_cancel₀ _ h1, toK_fromK, fromK_toK, mul_div_cancel_right₀ _ h2]

/-- Convert along a path of intermediate scales. -/
def chain (x : Rat) (s : TScale) (p : Int) : List (TScale × Int) → Except CErr (Option Rat)
  | [] => .ok (some x)
  | (t, q) :: rest =>
    match convert t q s p x with
    | .ok (some y) => chain y t q rest
    | other => other

/-- **C09 (chains compose).** Any chain of conversions — of any length — ends where the
direct conversion to its last scale does. -/
theorem C09_chain (x : Rat) (s : TScale) (p : Int) (path : List (TScale × Int)) (t : TScale) (q : Int) :
    chain x s p (path ++ [(t, q)]) = convert t q s p x := by
  induction path generalizing x s p with
  | nil => simp [chain, C09_convert]
  | cons hd rest ih =>
    obtain ⟨m, r⟩ := hd
    simp only [List.cons_append, chain, C09_convert]
    rw [ih, C09_convert]
    have h1 : (10 : Rat) ^ r ≠ 0 := zpow_ne_zero _ (by norm_num)
    rw [div_mul_cancel₀ _ h1, toK_fromK]

/-! ### An offset scale that does not stand alone with power one -/

theorem applyConversion_err (pow : Int) (ratio : Rat) (flag : Bool) (c : Conversion) (e : CErr)
    (h : Compound.applyConversion pow ratio flag c = .error e) : e = .conversion := by
  cases c with
  | none => simp [Compound.applyConversion] at h
  | factor n d =>
    simp only [Compound.applyConversion] at h
    split at h <;> simp at h
  | offset n d =>
    simp only [Compound.applyConversion] at h
    split at h
    · simp at h; exact h.symm
    · simp at h
  | methods a b c d e' f g i =>
    simp only [Compound.applyConversion] at h
    split at h
    · simp at h; exact h.symm
    · split at h <;> simp at h

theorem foldlM_err {α : Type} (f : Rat → α → Except CErr Rat) (l : List α)
    (hall : ∀ v a e, f v a = .error e → e = .conversion)
    (x : α) (hx : x ∈ l) (hf : ∀ v, f v x = .error .conversion) (v : Rat) :
    l.foldlM f v = .error .conversion := by
  induction l generalizing v with
  | nil => simp at hx
  | cons a rest ih =>
    rw [List.foldlM_cons]
    cases hfa : f v a with
    | error e => rw [hall v a e hfa]; rfl
    | ok v' =>
      rcases List.mem_cons.mp hx with h | h
      · subst h; rw [hf v] at hfa; exact absurd hfa (by simp)
      · exact ih h v'

/-- An offset scale (`°C`, `°F`): not a pure factor. -/
def IsOffsetScale (u : UnitKey) : Prop := isProp u = false

theorem applyConversion_offset_refused (u : UnitKey) (h : IsOffsetScale u) (pow : Int) (ratio : Rat)
    (flag : Bool) (hbad : flag = false ∨ pow.natAbs ≠ 1) :
    Compound.applyConversion pow ratio flag (Units.conversion u) = .error .conversion := by
  unfold IsOffsetScale isProp at h
  cases hc : Units.conversion u with
  | none => simp [hc] at h
  | factor n d => simp [hc] at h
  | offset n d =>
    simp only [Compound.applyConversion]
    rcases hbad with hb | hb
    · simp [hb]
    · simp [hb]
  | methods a b c d e f g i =>
    simp only [Compound.applyConversion]
    rcases hbad with hb | hb
    · simp [hb]
    · simp [hb]

/-- "Anywhere but alone with power one": the compound has another unit besides the
scale, or the scale is squared, inverted, …. -/
def NotAlone (c : Compound) (e : UnitKey × State) : Prop := ¬ (c.length = 1 ∧ e.2.power = 1)

theorem isScale_false (c : Compound) (e : UnitKey × State) (h : NotAlone c e) :
    Compound.isScale c e.2 = false := by
  unfold NotAlone at h
  unfold Compound.isScale
  cases h1 : (c.length == 1) <;> cases h2 : (e.2.power == 1) <;> simp_all

/-- **C09 (offset scale inside the source unit).** Converting a quantity whose unit
contains an offset scale anywhere but alone with power one is refused: the answer is
"not convertible" or a conversion error, never a number — so the zero point is never
added. -/
theorem C09_refuse_source (a b : Compound) (x : Rat) (ha : a ≠ []) (hb : b ≠ [])
    (e : UnitKey × State) (he : e ∈ b) (hoff : IsOffsetScale e.1) (hna : NotAlone b e) :
    Compound.factor a b x = .ok none ∨ Compound.factor a b x = .error .conversion := by
  unfold Compound.factor
  have ea : a.isEmpty = false := by cases a <;> simp_all
  have eb : b.isEmpty = false := by cases b <;> simp_all
  simp only [ea, eb, Bool.or_self, Bool.false_eq_true, ↓reduceIte]
  split
  · left; rfl
  · right
    have : Compound.scaleIn true b x = .error .conversion := by
      unfold Compound.scaleIn
      apply foldlM_err _ _ _ e he
      · intro v
        apply applyConversion_offset_refused e.1 hoff
        left; simp [isScale_false b e hna]
      · intro v a' e' h; exact applyConversion_err _ _ _ _ _ h
    rw [this]; rfl

/-- **C09 (offset scale inside the target unit).** Likewise for the unit converted to. -/
theorem C09_refuse_target (a b : Compound) (x : Rat) (ha : a ≠ []) (hb : b ≠ [])
    (e : UnitKey × State) (he : e ∈ a) (hoff : IsOffsetScale e.1) (hna : NotAlone a e) :
    Compound.factor a b x = .ok none ∨ Compound.factor a b x = .error .conversion := by
  unfold Compound.factor
  have ea : a.isEmpty = false := by cases a <;> simp_all
  have eb : b.isEmpty = false := by cases b <;> simp_all
  simp only [ea, eb, Bool.or_self, Bool.false_eq_true, ↓reduceIte]
  split
  · left; rfl
  · right
    cases hin : Compound.scaleIn true b x with
    | error err =>
      have : err = .conversion := by
        unfold Compound.scaleIn at hin
        -- every error of the fold is a conversion error
        have key : ∀ (l : Compound) (v : Rat) (err : CErr),
            l.foldlM (fun v (e : UnitKey × State) =>
              Compound.applyConversion e.2.power (v * Compound.tenPow (e.2.pfx * e.2.power))
                (true && Compound.isScale b e.2) (Units.conversion e.1)) v = .error err → err = .conversion := by
          intro l
          induction l with
          | nil => intro v err h; simp [pure, Except.pure] at h
          | cons a' rest ih =>
            intro v err h
            rw [List.foldlM_cons] at h
            cases hfa : Compound.applyConversion a'.2.power (v * Compound.tenPow (a'.2.pfx * a'.2.power))
                (true && Compound.isScale b a'.2) (Units.conversion a'.1) with
            | error e2 =>
              rw [hfa] at h
              have : err = e2 := by simpa [bind, Except.bind] using h.symm
              rw [this]; exact applyConversion_err _ _ _ _ _ hfa
            | ok v' => rw [hfa] at h; exact ih v' err h
        exact key b x err hin
      rw [this]; rfl
    | ok v =>
      have : Compound.scaleOut a v = .error .conversion := by
        unfold Compound.scaleOut
        apply foldlM_err _ _ _ e he
        · intro v'
          rw [applyConversion_offset_refused e.1 hoff _ _ _ (Or.inl (isScale_false a e hna))]
          rfl
        · intro v' a' e' h
          cases hfa : Compound.applyConversion (-a'.2.power) v' (Compound.isScale a a'.2) (Units.conversion a'.1) with
          | error e2 =>
            rw [hfa] at h
            have : e' = e2 := by simpa [bind, Except.bind] using h.symm
            rw [this]; exact applyConversion_err _ _ _ _ _ hfa
          | ok w => rw [hfa] at h; simp [bind, Except.bind, pure, Except.pure] at h
      simp only [bind, Except.bind, this]

/-- **C09 (products and quotients).** Multiplying or dividing a quantity whose unit
contains an offset scale by another quantity with a unit is refused. -/
theorem C09_mul_refused (debug : Bool) (a b : Compound) (n : Int) (x y : Rat) (ha : a ≠ []) (hb : b ≠ [])
    (e : UnitKey × State) (he : e ∈ a ∨ e ∈ b) (hoff : IsOffsetScale e.1) :
    Compound.mul debug a b n x y = .error .conversion := by
  have ea : a.isEmpty = false := by cases a <;> simp_all
  have eb : b.isEmpty = false := by cases b <;> simp_all
  rw [mul_unfold debug a b n x y ea eb]
  have herr : ∀ (c : Compound) (v : Rat), e ∈ c → Compound.scaleIn false c v = .error .conversion := by
    intro c v hc
    unfold Compound.scaleIn
    apply foldlM_err _ _ _ e hc
    · intro v'
      exact applyConversion_offset_refused e.1 hoff _ _ _ (Or.inl (by simp))
    · intro v' a' e' h; exact applyConversion_err _ _ _ _ _ h
  rcases he with he | he
  · rw [herr a x he]
  · cases hin : Compound.scaleIn false a x with
    | error err =>
      -- an earlier offset scale on the left: also a conversion error
      have : err = .conversion := by
        unfold Compound.scaleIn at hin
        have key : ∀ (l : Compound) (v : Rat) (err : CErr),
            l.foldlM (fun v (e : UnitKey × State) =>
              Compound.applyConversion e.2.power (v * Compound.tenPow (e.2.pfx * e.2.power))
                (false && Compound.isScale a e.2) (Units.conversion e.1)) v = .error err → err = .conversion := by
          intro l
          induction l with
          | nil => intro v err h; simp [pure, Except.pure] at h
          | cons a' rest ih =>
            intro v err h
            rw [List.foldlM_cons] at h
            cases hfa : Compound.applyConversion a'.2.power (v * Compound.tenPow (a'.2.pfx * a'.2.power))
                (false && Compound.isScale a a'.2) (Units.conversion a'.1) with
            | error e2 =>
              rw [hfa] at h
              have : err = e2 := by simpa [bind, Except.bind] using h.symm
              rw [this]; exact applyConversion_err _ _ _ _ _ hfa
            | ok v' => rw [hfa] at h; exact ih v' err h
        exact key a x err hin
      rw [this]
    | ok v => simp only; rw [herr b y he]

/-- Non-vacuity: `m/°C` is such a unit, and `°C` alone is not. -/
example : IsOffsetScale (key .C) ∧ NotAlone [(key .C, { power := -1, pfx := 0 }), (.base .Meter, { power := 1, pfx := 0 })]
    (key .C, { power := -1, pfx := 0 }) := by
  refine ⟨by unfold IsOffsetScale isProp; rw [conv_C], ?_⟩
  unfold NotAlone; simp

end Anything.Props.C09
