import Anything.Model.Recovery
import Mathlib.Tactic.IntervalCases
/-!
# C15 — the on-disk index always recovers to the shipped data

State machine of `open_inner` / `open_index` (`Model/Recovery.lean`): a start of
the tool killed at any crash point, or left to complete; damage done to the
directory between starts. The theorems quantify over **every** directory state
satisfying the invariant, every crash point (any natural number, not only the
thirteen the hooks define) and histories of **unbounded** length.
-/

namespace Anything.Props.C15
open Anything.Recovery

/-- A crash point number no hook uses behaves like "no crash". -/
theorem run_unused_cp (d : Dir) (k : Nat) (hk : 17 < k) : run d (some k) = run d none := by
  have h : ∀ j, j ≤ 17 → hit (some k) j = false := by
    intro j hj
    simp only [hit, beq_eq_false_iff_ne, ne_eq, Option.some.injEq]
    omega
  have h' : ∀ j, hit none j = false := fun j => rfl
  simp only [run, run.afterOpen, h 0 (by omega), h 1 (by omega), h 2 (by omega), h 3 (by omega),
    h 4 (by omega), h 5 (by omega), h 6 (by omega), h 10 (by omega), h 11 (by omega), h 12 (by omega), h 13 (by omega),
    h 14 (by omega), h 15 (by omega), h 16 (by omega), h 17 (by omega), h']

/-- Case analysis over the thirty directory states. -/
theorem dir_cases (P : Dir → Prop)
    (h : ∀ md ∈ [MetaSt.absent, .garbage, .parsed false false, .parsed false true, .parsed true false, .parsed true true],
         ∀ ix ∈ [IndexSt.absent, .unopenable, .opens .empty, .opens .old, .opens .current], P ⟨md, ix⟩)
    (d : Dir) : P d := by
  obtain ⟨md, ix⟩ := d
  apply h
  · cases md with
    | absent => simp
    | garbage => simp
    | parsed v hh => cases v <;> cases hh <;> simp
  · cases ix with
    | absent => simp
    | unopenable => simp
    | opens c => cases c <;> simp

theorem inv_run_small (k : Nat) (hk : k ≤ 17) : ∀ d : Dir, Inv d → Inv (run d (some k)).dir := by
  interval_cases k <;> (apply dir_cases; decide)

theorem inv_run_none : ∀ d : Dir, Inv d → Inv (run d none).dir := by
  apply dir_cases; decide

/-- **C15 (invariant, one start).** Whatever the crash point, a start of the tool
preserves: "metadata says current ∧ the index opens → the committed index is the
shipped data". -/
theorem C15_inv_run (d : Dir) (cp : Crash) (h : Inv d) : Inv (run d cp).dir := by
  cases cp with
  | none => exact inv_run_none d h
  | some k =>
    by_cases hk : k ≤ 17
    · exact inv_run_small k hk d h
    · rw [run_unused_cp d k (by omega)]; exact inv_run_none d h

/-- **C15 (invariant, damage).** The listed kinds of damage preserve the invariant. -/
theorem C15_inv_damage (d : Dir) (x : Damage) (h : Inv d) : Inv (damage d x) := by
  revert h; revert d
  cases x with
  | metaOtherVersion hh => cases hh <;> (apply dir_cases; decide)
  | _ => apply dir_cases; decide

theorem runOther_unused_cp (t : Bool) (d : Dir) (k : Nat) (hk : 17 < k) : runOther t d (some k) = runOther t d none := by
  simp only [runOther, run_unused_cp _ k hk]

theorem inv_other_small (t : Bool) (k : Nat) (hk : k ≤ 17) : ∀ d : Dir, Inv d → Inv (runOther t d (some k)) := by
  cases t <;> interval_cases k <;> (apply dir_cases; decide)

theorem inv_other_none (t : Bool) : ∀ d : Dir, Inv d → Inv (runOther t d none) := by
  cases t <;> (apply dir_cases; decide)

/-- **C15 (invariant, another build on the same directory).** A start of ANOTHER build of the
same version that ships other data — killed at any point or complete, whether or not the
metadata it finds records its own hash — preserves the invariant of the tool under test:
it never leaves its data behind under metadata that records OUR hash. (Before the repair
`05762de` this was false: the in-place rebuild kept the metadata while it rewrote the index;
`C15_foreign_needed_the_fix` below.) -/
theorem C15_inv_foreign (d : Dir) (t : Bool) (cp : Crash) (h : Inv d) : Inv (runOther t d cp) := by
  cases cp with
  | none => exact inv_other_none t d h
  | some k =>
    by_cases hk : k ≤ 17
    · exact inv_other_small t k hk d h
    · rw [runOther_unused_cp t d k (by omega)]; exact inv_other_none t d h

/-- **C15 (invariant, every history).** Induction over histories of any length. -/
theorem C15_inv_history (d : Dir) (es : List Event) (h : Inv d) : Inv (history d es) := by
  induction es generalizing d with
  | nil => exact h
  | cons e es ih =>
    apply ih
    cases e with
    | start cp => exact C15_inv_run d cp h
    | damaged x => exact C15_inv_damage d x h
    | memSession => exact h
    | foreign t cp => exact C15_inv_foreign d t cp h

/-- **C15 (a complete start answers from the shipped data).** From any state
satisfying the invariant a start that is not killed answers exactly as the freshly
built database, and leaves the directory complete. -/
theorem C15_complete_start : ∀ d : Dir, Inv d →
    run d none = ⟨⟨.current, .opens .current⟩, some true⟩ ∨
    (run d none).answers = some true ∧ (run d none).dir = d := by
  apply dir_cases; decide

theorem C15_answers : ∀ d : Dir, Inv d → (run d none).answers = some true := by
  apply dir_cases; decide

/-- Every state the property lists satisfies the invariant. -/
theorem C15_priors_inv : ∀ n ∈ ["absent", "complete", "other-version", "other-data", "meta-missing",
    "meta-truncated", "meta-garbage", "index-missing", "index-damaged", "index-emptied",
    "stale-wrong-hash", "stale-no-hash", "stale-null-hash", "olddocs-wrong-hash", "olddocs-other-version",
    "olddocs-no-hash", "foreign-other-version", "foreign-meta-missing", "partial-meta-missing",
    "partial-other-version"],
    ∃ d, prior n = some d ∧ Inv d := by
  decide

/-- **C15 (recovery, full statement).** Start from any listed state (or any state
satisfying the invariant), let any number of starts be killed at any points and any
listed damage happen in between, in any order: the next complete start answers
exactly as a freshly built database. -/
theorem C15_recover (d : Dir) (es : List Event) (h : Inv d) :
    (run (history d es) none).answers = some true :=
  C15_answers _ (C15_inv_history d es h)

/-- **C15 (an in-memory session leaves the data directory alone).** In the model `Db::in_memory()`
performs none of the directory steps, so histories may contain such sessions anywhere
(`C15_inv_history`, `C15_recover` quantify over them). That the REAL `open_inner(true)` writes
nothing is checked by the correspondence: histories with an in-memory session between on-disk
starts, from every prior state and after builds killed at the crash points. -/
theorem C15_mem_session (d : Dir) : event d .memSession = d ∧ (runMem d).answers = some true := ⟨rfl, rfl⟩

/-- What the other build's killed run looks like from our side: on our complete directory, killed
between its commit and its metadata write, it leaves ITS data and NO metadata, so our next start
rebuilds. -/
theorem C15_foreign_killed_after_commit :
    runOther false ⟨.current, .opens .current⟩ (some 13) = ⟨.absent, .opens .old⟩ ∧
    (run (runOther false ⟨.current, .opens .current⟩ (some 13)) none).answers = some true := by decide

/-- Why the repair was needed: a start that rewrites the index in place WITHOUT invalidating the
metadata first (the code before `05762de`), killed after its commit, leaves the state below when
it is the other build's start — metadata recording our hash over their data — and from that state
we never recover (`C15_inv_needed`). -/
theorem C15_foreign_needed_the_fix :
    ¬ Inv ⟨.current, .opens .old⟩ ∧ (run ⟨.current, .opens .old⟩ none).answers = some false := by decide

/-- **C15 (never current before committed).** Whatever state a start begins in —
even one violating the invariant — and wherever it is killed, it leaves the metadata
saying "current" only if it found it so and did not touch the index, or the index it
leaves is completely committed with the shipped data. -/
theorem C15_never_early_small (k : Nat) (hk : k ≤ 17) : ∀ d : Dir,
    (run d (some k)).dir.md = .current →
      (run d (some k)).dir.index = .opens .current ∨ (run d (some k)).dir = d := by
  interval_cases k <;> (apply dir_cases; decide)

theorem C15_never_early_none : ∀ d : Dir,
    (run d none).dir.md = .current →
      (run d none).dir.index = .opens .current ∨ (run d none).dir = d := by
  apply dir_cases; decide

theorem C15_never_early (d : Dir) (cp : Crash) (h : (run d cp).dir.md = .current) :
    (run d cp).dir.index = .opens .current ∨ (run d cp).dir = d := by
  cases cp with
  | none => exact C15_never_early_none d h
  | some k =>
    by_cases hk : k ≤ 17
    · exact C15_never_early_small k hk d h
    · rw [run_unused_cp d k (by omega)] at h ⊢; exact C15_never_early_none d h

/-- The invariant is needed: a directory recorded as current over an empty index is
never repaired (this is the state the defect repaired by 78292ab used to reach). -/
theorem C15_inv_needed : (run ⟨.current, .opens .empty⟩ none).answers = some false := by decide

/-- Non-vacuity: a non-trivial history — complete run, index directory removed, a start
killed between index creation and commit, metadata damaged, two more killed starts. -/
example : Inv ⟨.current, .opens .current⟩ ∧
    history ⟨.current, .opens .current⟩
      [.damaged .indexRemoved, .start (some 11), .memSession, .damaged .metaGarbage, .start (some 3), .memSession, .start (some 14)]
      = ⟨.absent, .opens .current⟩ := by decide

/-- Non-vacuity with another build in the history: it is killed after its commit on our complete
directory, we are killed while repairing, it completes a start, we complete one. -/
example : history ⟨.current, .opens .current⟩
      [.foreign false (some 13), .start (some 11), .foreign false none, .start none]
      = ⟨.current, .opens .current⟩ := by decide

end Anything.Props.C15
