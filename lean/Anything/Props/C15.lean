import Anything.Model.Cbor
namespace Anything.Props.C15
theorem C15_placeholder : True := trivial
end Anything.Props.C15
