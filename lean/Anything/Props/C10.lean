import Anything.Model.Eval
import Anything.Spec.Arith
import Mathlib.Data.Rat.Floor
import Mathlib.Tactic.Ring
import Mathlib.Tactic.FieldSimp
import Mathlib.Tactic.Linarith
import Mathlib.Tactic.Positivity
import Mathlib.Algebra.Order.Field.Rat
import Anything.Generated.KnobsBuiltins
/-!
# C10 — rounding functions return the mathematically defined integer or decimal

The model mirrors num-rational's integer algorithms (`RatNum`); the theorems
identify them with the order-theoretic specification for **every** rational.
-/

namespace Anything.Props.C10
open Anything Anything.Eval Anything.Spec.Arith

theorem ediv_of_decomp {a d q r : Int} (h : a = d * q + r) (h0 : 0 ≤ r) (h1 : r < d) :
    a / d = q := by
  have hd : 0 < d := by omega
  exact ((Int.ediv_emod_unique hd).2 ⟨by omega, h0, h1⟩).1

theorem tdiv_of_decomp_nonneg {a d q r : Int} (h : a = d * q + r) (h0 : 0 ≤ r) (h1 : r < d)
    (ha : 0 ≤ a) : Int.tdiv a d = q := by
  rw [Int.tdiv_eq_ediv_of_nonneg ha]; exact ediv_of_decomp h h0 h1

theorem tdiv_of_decomp_nonpos {a d q r : Int} (h : a = -(d * q + r)) (h0 : 0 ≤ r) (h1 : r < d)
    (ha : a ≤ 0) : Int.tdiv a d = -q := by
  have h2 : Int.tdiv (-a) d = q := tdiv_of_decomp_nonneg (by omega) h0 h1 (by omega)
  rw [Int.neg_tdiv] at h2; omega

theorem tmod_of_decomp_nonneg {a d q r : Int} (h : a = d * q + r) (h0 : 0 ≤ r) (h1 : r < d)
    (ha : 0 ≤ a) : Int.tmod a d = r := by
  have h2 := Int.mul_tdiv_add_tmod a d
  rw [tdiv_of_decomp_nonneg h h0 h1 ha] at h2; omega

theorem tmod_of_decomp_nonpos {a d q r : Int} (h : a = -(d * q + r)) (h0 : 0 ≤ r) (h1 : r < d)
    (ha : a ≤ 0) : Int.tmod a d = -r := by
  have h2 := Int.mul_tdiv_add_tmod a d
  rw [tdiv_of_decomp_nonpos h h0 h1 ha, Int.mul_neg] at h2; omega

theorem decomp (a d : Int) (hd : 0 < d) : a = d * (a / d) + a % d ∧ 0 ≤ a % d ∧ a % d < d :=
  ⟨(Int.mul_ediv_add_emod a d).symm, Int.emod_nonneg _ (by omega), Int.emod_lt_of_pos _ hd⟩

/-- **C10 (floor).** The greatest integer not above `x`. -/
theorem C10_floor (x : Rat) : RatNum.floor x = floorI x := by
  have hd : (0 : Int) < x.den := by exact_mod_cast x.den_pos
  obtain ⟨h, h0, h1⟩ := decomp x.num x.den hd
  unfold RatNum.floor floorI
  rw [Rat.floor_def]
  split
  · rename_i hx
    have hn : x.num < 0 := Rat.num_neg.2 hx
    have := tdiv_of_decomp_nonpos (a := x.num - x.den + 1) (d := x.den) (q := -(x.num / x.den))
      (r := x.den - 1 - x.num % x.den) (by rw [Int.mul_neg]; omega) (by omega) (by omega) (by omega)
    rw [this]; omega
  · rename_i hx
    have hn : 0 ≤ x.num := Rat.num_nonneg.2 (not_lt.1 hx)
    exact tdiv_of_decomp_nonneg h h0 h1 hn

/-- Order-theoretic reading of `C10_floor`. -/
theorem C10_floor_char (x : Rat) : ((RatNum.floor x : Int) : Rat) ≤ x ∧ x < (RatNum.floor x : Rat) + 1 := by
  rw [C10_floor]
  exact ⟨Int.floor_le x, Int.lt_floor_add_one x⟩

/-- **C10 (ceil).** The least integer not below `x`. -/
theorem C10_ceil (x : Rat) : RatNum.ceil x = ceilI x := by
  have hd : (0 : Int) < x.den := by exact_mod_cast x.den_pos
  obtain ⟨h, h0, h1⟩ := decomp (-x.num) x.den hd
  unfold RatNum.ceil ceilI
  rw [Rat.floor_def, Rat.num_neg_eq_neg_num, Rat.den_neg_eq_den]
  split
  · rename_i hx
    have hn : x.num < 0 := Rat.num_neg.2 hx
    exact tdiv_of_decomp_nonpos (r := -x.num % x.den) (by omega) h0 h1 (by omega)
  · rename_i hx
    have hn : 0 ≤ x.num := Rat.num_nonneg.2 (not_lt.1 hx)
    exact tdiv_of_decomp_nonneg (r := x.den - 1 - -x.num % x.den) (by rw [Int.mul_neg]; omega)
      (by omega) (by omega) (by omega)

theorem C10_ceil_char (x : Rat) : x ≤ ((RatNum.ceil x : Int) : Rat) ∧ (RatNum.ceil x : Rat) - 1 < x := by
  rw [C10_ceil]
  have e : ceilI x = ⌈x⌉ := by
    show -⌊-x⌋ = ⌈x⌉
    rw [Int.floor_neg, neg_neg]
  rw [e]
  exact ⟨Int.le_ceil x, by linarith [Int.ceil_lt_add_one x]⟩

theorem half_test (r : Int) (d : Nat) (hr : 0 ≤ r) :
    (if d % 2 = 0 then decide (r.natAbs ≥ d / 2) else decide (r.natAbs ≥ d / 2 + 1))
      = decide ((d : Int) ≤ 2 * r) := by
  split <;> (rw [decide_eq_decide]; omega)

theorem half_core (x D : Rat) (q r : Int) (hD : 0 < D) (hx : x = (D * q + r) / D)
    (h0 : (0 : Rat) ≤ r) (h1 : (r : Rat) < D) :
    (D ≤ 2 * r → ((q + 1 : Int) : Rat) ≤ x + 1 / 2 ∧ x + 1 / 2 < ((q + 1 : Int) : Rat) + 1) ∧
    (2 * r < D → (q : Rat) ≤ x + 1 / 2 ∧ x + 1 / 2 < (q : Rat) + 1) := by
  have e : x = q + r / D := by rw [hx]; field_simp
  have b0 : 0 ≤ (r : Rat) / D := div_nonneg h0 hD.le
  have b1 : (r : Rat) / D < 1 := (div_lt_one hD).2 h1
  subst e
  refine ⟨fun hc => ?_, fun hc => ?_⟩
  · have : 1 / 2 ≤ (r : Rat) / D := (le_div_iff₀ hD).2 (by linarith)
    push_cast
    constructor <;> linarith
  · have : (r : Rat) / D < 1 / 2 := (div_lt_iff₀ hD).2 (by linarith)
    constructor <;> linarith

/-- `⌊n/d + 1/2⌋` for a nonnegative numerator, by Euclidean decomposition. -/
theorem floor_half (x : Rat) (q r : Int) (h : x.num = x.den * q + r) (h0 : 0 ≤ r) (h1 : r < x.den) :
    (x + 1 / 2).floor = if (x.den : Int) ≤ 2 * r then q + 1 else q := by
  have hd : (0 : Rat) < x.den := by exact_mod_cast x.den_pos
  have hx : x = (x.den * q + r : Rat) / x.den := by
    have := Rat.num_div_den x
    rw [h] at this; push_cast at this; exact this.symm
  have core := half_core x x.den q r hd hx (by exact_mod_cast h0) (by exact_mod_cast h1)
  show ⌊x + 1 / 2⌋ = _
  rw [Int.floor_eq_iff]
  split
  · rename_i hc
    exact core.1 (by exact_mod_cast hc)
  · rename_i hc
    exact core.2 (by exact_mod_cast not_le.1 hc)

/-- **C10 (round).** Nearest integer, halves away from zero. -/
theorem C10_round (x : Rat) : RatNum.round x = roundHalfAway x := by
  have hd : (0 : Int) < x.den := by exact_mod_cast x.den_pos
  unfold RatNum.round roundHalfAway RatNum.trunc
  by_cases hx : 0 ≤ x
  · have hn : 0 ≤ x.num := Rat.num_nonneg.2 hx
    obtain ⟨h, h0, h1⟩ := decomp x.num x.den hd
    have ht := tdiv_of_decomp_nonneg h h0 h1 hn
    have hm := tmod_of_decomp_nonneg h h0 h1 hn
    simp only [hx, if_true, ge_iff_le]
    rw [floor_half x _ _ h h0 h1, ht, hm]
    have := half_test (x.num % x.den) x.den h0
    simp only [ge_iff_le] at this
    rw [this]
    by_cases hc : (x.den : Int) ≤ 2 * (x.num % x.den) <;> simp [hc]
  · have hx' : x < 0 := not_le.1 hx
    have hn : x.num < 0 := Rat.num_neg.2 hx'
    obtain ⟨h, h0, h1⟩ := decomp (-x.num) x.den hd
    have ht := tdiv_of_decomp_nonpos (a := x.num) (q := -x.num / x.den) (r := -x.num % x.den) (by omega) h0 h1 (by omega)
    have hm := tmod_of_decomp_nonpos (a := x.num) (q := -x.num / x.den) (r := -x.num % x.den) (by omega) h0 h1 (by omega)
    have hf := floor_half (-x) (-x.num / x.den) (-x.num % x.den)
      (by rw [Rat.num_neg_eq_neg_num, Rat.den_neg_eq_den]; exact h) h0
      (by rw [Rat.den_neg_eq_den]; exact h1)
    rw [Rat.den_neg_eq_den] at hf
    simp only [hx, if_false, ge_iff_le]
    rw [hf, ht, hm, Int.natAbs_neg]
    have := half_test (-x.num % x.den) x.den h0
    simp only [ge_iff_le] at this
    rw [this]
    by_cases hc : (x.den : Int) ≤ 2 * (-x.num % x.den)
    · simp [hc]; omega
    · simp [hc]

/-- Distance characterisation: the result is within one half of `x`, and exactly one
half away only on the side away from zero. -/
theorem C10_round_char (x : Rat) :
    |x - (RatNum.round x : Rat)| ≤ 1 / 2 ∧
    (|x - (RatNum.round x : Rat)| = 1 / 2 → |x| < |(RatNum.round x : Rat)|) := by
  rw [C10_round]
  unfold roundHalfAway
  by_cases hx : 0 ≤ x
  · simp only [hx, if_true]
    have a := Int.floor_le (x + 1 / 2)
    have b := Int.lt_floor_add_one (x + 1 / 2)
    change ((x + 1 / 2).floor : Rat) ≤ _ at a
    change _ < ((x + 1 / 2).floor : Rat) + 1 at b
    generalize ((x + 1 / 2).floor : Rat) = z at *
    constructor
    · rw [abs_le]; constructor <;> linarith
    · intro h
      have : x - z = -(1 / 2) := by
        rcases abs_eq (by norm_num : (0 : Rat) ≤ 1 / 2) |>.1 h with h | h
        · linarith
        · exact h
      rw [abs_of_nonneg hx, abs_of_nonneg (by linarith)]
      linarith
  · simp only [hx, if_false]
    have hx' : x < 0 := not_le.1 hx
    have a := Int.floor_le (-x + 1 / 2)
    have b := Int.lt_floor_add_one (-x + 1 / 2)
    change ((-x + 1 / 2).floor : Rat) ≤ _ at a
    change _ < ((-x + 1 / 2).floor : Rat) + 1 at b
    push_cast
    generalize ((-x + 1 / 2).floor : Rat) = z at *
    constructor
    · rw [abs_le]; constructor <;> linarith
    · intro h
      have : x - -z = 1 / 2 := by
        rcases abs_eq (by norm_num : (0 : Rat) ≤ 1 / 2) |>.1 h with h | h
        · exact h
        · linarith
      rw [abs_of_neg hx', abs_neg, abs_of_nonneg (by linarith)]
      linarith

/-- **C10 (builtins: floor).** `floor(x)` with any unit: value is the floor, unit unchanged. -/
theorem C10_builtin_floor (s e : Nat) (a : Numeric) (d : List Desc) :
    builtinFloor s e [a] d = (.ok { value := (floorI a.value : Rat), unit := a.unit }, d) := by
  rw [← C10_floor]; rfl

theorem C10_builtin_ceil (s e : Nat) (a : Numeric) (d : List Desc) :
    builtinCeil s e [a] d = (.ok { value := (ceilI a.value : Rat), unit := a.unit }, d) := by
  rw [← C10_ceil]; rfl

theorem floor_int_add_half (k : Int) : ((k : Rat) + 1 / 2).floor = k := by
  show ⌊(k : Rat) + 1 / 2⌋ = k
  rw [Int.floor_eq_iff]; constructor <;> linarith

theorem roundHalfAway_intCast (k : Int) : roundHalfAway (k : Rat) = k := by
  unfold roundHalfAway
  split
  · exact floor_int_add_half k
  · have : -(k : Rat) = ((-k : Int) : Rat) := by push_cast; rfl
    rw [this, floor_int_add_half]; omega

theorem roundHalfAway_of_den (x : Rat) (h : x.den = 1) : (roundHalfAway x : Rat) = x := by
  have e := Rat.coe_int_num_of_den_eq_one h
  rw [← e, roundHalfAway_intCast]

/-- **C10 (builtins: round with one argument).** -/
theorem C10_builtin_round1 (cfg : Cfg) (s e : Nat) (a : Numeric) (d : List Desc) :
    builtinRound cfg s e [a] d = (.ok { value := (roundHalfAway a.value : Rat), unit := a.unit }, d) := by
  have : (if a.value.den = 1 then a.value else (RatNum.round a.value : Rat))
      = (roundHalfAway a.value : Rat) := by
    split
    · rename_i h; exact (roundHalfAway_of_den _ h).symm
    · rw [C10_round]
  rw [← this]; rfl

theorem ratZPow_eq_zpow (x : Rat) (n : Int) : ratZPow x n = zpow x n := by
  unfold ratZPow zpow
  split
  · rfl
  · rw [one_div_pow]

theorem zpow_ten_ne_zero (n : Int) : zpow 10 n ≠ 0 := by
  unfold zpow; split <;> positivity

theorem toI32_intCast (n : Int) (hn : -2147483648 ≤ n ∧ n ≤ 2147483647) :
    RatNum.toI32 (n : Rat) = some n := by
  unfold RatNum.toI32 RatNum.trunc
  simp only [Rat.num_intCast, Rat.den_intCast, Nat.cast_one, Int.tdiv_one]
  have h1 : ¬ n < -2147483648 := by omega
  have h2 : ¬ n > 2147483647 := by omega
  simp [h1, h2]

/-- For `n ≤ 0` the result of `roundTo` is an integer. -/
theorem roundTo_den (x : Rat) (n : Int) (hn : n ≤ 0) : (roundTo x n).den = 1 := by
  have hz : zpow 10 n = 1 / (10 : Rat) ^ n.natAbs := by
    unfold zpow
    split
    · have : n = 0 := by omega
      subst this; simp
    · rfl
  unfold roundTo
  rw [hz]
  have : ((roundHalfAway (x * (1 / 10 ^ n.natAbs)) : Int) : Rat) / (1 / 10 ^ n.natAbs)
      = ((roundHalfAway (x * (1 / 10 ^ n.natAbs)) * 10 ^ n.natAbs : Int) : Rat) := by
    push_cast; field_simp
  rw [this, Rat.den_intCast]

/-- For `n ≥ 0` and an integer `x`, `roundTo` is the identity. -/
theorem roundTo_of_den (x : Rat) (n : Int) (hn : 0 ≤ n) (h : x.den = 1) : roundTo x n = x := by
  have hz : zpow 10 n = (((10 : Int) ^ n.toNat : Int) : Rat) := by
    unfold zpow; rw [if_pos hn]; push_cast; rfl
  have e := Rat.coe_int_num_of_den_eq_one h
  unfold roundTo
  have hne := zpow_ten_ne_zero n
  rw [hz] at hne ⊢
  rw [← e, ← Int.cast_mul, roundHalfAway_intCast, Int.cast_mul, mul_div_assoc, div_self hne, mul_one]

/-- The value computed by the two-argument branch is `roundTo`. -/
theorem round2_value (x : Rat) (n : Int) :
    (if (n ≥ 0 && x.den = 1) then x
      else if n = 0 then (RatNum.round x : Rat)
      else ((RatNum.round (x * ratZPow 10 n) : Int) : Rat) / ratZPow 10 n) = roundTo x n := by
  split
  · rename_i h
    simp only [Bool.and_eq_true, decide_eq_true_eq] at h
    exact (roundTo_of_den x n h.1 h.2).symm
  · split
    · rename_i h; subst h
      simp [roundTo, zpow, C10_round]
    · rw [ratZPow_eq_zpow, C10_round]; rfl

/-- **C10 (builtins: round to `n` digits).** For every rational `x` and every integer
`n` in the `i32` range, positive or negative: the nearest multiple of `10^-n`, halves away
from zero; the unit of the first argument is kept (the second argument's unit is ignored by the code). -/
theorem C10_builtin_round2 (cfg : Cfg) (s e : Nat) (a : Numeric) (n : Int) (u : Compound)
    (hn : -2147483648 ≤ n ∧ n ≤ 2147483647) (d : List Desc) :
    builtinRound cfg s e [a, { value := (n : Rat), unit := u }] d =
      (.ok { value := roundTo a.value n, unit := a.unit }, d) := by
  unfold builtinRound
  simp only [toI32_intCast n hn]
  rw [round2_value]
  have hdbg : (cfg.debug && !(decide (n > 0) || decide ((roundTo a.value n).den = 1))) = false := by
    by_cases h : n > 0
    · simp [h]
    · simp [roundTo_den a.value n (by omega)]
  simp only [hdbg]
  rfl

theorem one_arity (s e : Nat) (args : List Numeric) (h : args.length ≠ 1) :
    one s e args = err .argumentMismatch s e := by
  match args, h with
  | [], _ => rfl
  | [_], h => exact absurd rfl h
  | _ :: _ :: _, _ => rfl

/-- **C10 (arity).** A wrong number of arguments is an error. -/
theorem C10_arity_floor (s e : Nat) (args : List Numeric) (h : args.length ≠ 1) (d : List Desc) :
    builtinFloor s e args d = (.error (.err .argumentMismatch s e), d) := by
  unfold builtinFloor; rw [one_arity s e args h]; rfl

theorem C10_arity_ceil (s e : Nat) (args : List Numeric) (h : args.length ≠ 1) (d : List Desc) :
    builtinCeil s e args d = (.error (.err .argumentMismatch s e), d) := by
  unfold builtinCeil; rw [one_arity s e args h]; rfl

theorem C10_arity_round (cfg : Cfg) (s e : Nat) (args : List Numeric)
    (h : args.length ≠ 1 ∧ args.length ≠ 2) (d : List Desc) :
    builtinRound cfg s e args d = (.error (.err .argumentMismatch s e), d) := by
  match args, h with
  | [], _ => rfl
  | [_], h => exact absurd rfl h.1
  | [_, _], h => exact absurd rfl h.2
  | _ :: _ :: _ :: _, _ => rfl

/-- Non-vacuity / sanity on concrete values (tests, labelled as tests). -/
example : RatNum.floor (-5 / 2) = -3 ∧ RatNum.ceil (-5 / 2) = -2 ∧ RatNum.round (-5 / 2) = -3
    ∧ RatNum.round (5 / 2) = 3 ∧ RatNum.round (7 / 3) = 2 := by decide +kernel


/-- **C10 (the builtin table of the source).** `eval.rs` binds exactly the names `sin`,
`cos`, `round`, `floor`, `ceil`, each to the function of that name (re-extracted on every
run); the model's `FN_CALL` branch dispatches on the same names. -/
theorem C10_builtin_table :
    Anything.Generated.Knobs.builtins =
      [("ceil", "ceil"), ("cos", "cos"), ("floor", "floor"), ("round", "round"), ("sin", "sin")] := rfl

end Anything.Props.C10
