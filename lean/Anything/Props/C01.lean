import Anything.Model.Eval
import Anything.Spec.Arith
import Mathlib.Tactic.Ring
import Mathlib.Tactic.FieldSimp
import Mathlib.Tactic.Linarith
import Mathlib.Algebra.Order.Field.Rat
/-!
# C01 — numeric expressions evaluate to the exact rational value

Evaluator-level theorems: the five binary operations of `eval.rs` on plain
numbers are exactly the field operations of `Spec.Arith.applyBin`, for all
rationals and all integer exponents (the `pow` loop by induction on the
exponent), and division by zero — including zero to a negative power — is an
error and never a number.
-/

namespace Anything.Props.C01
open Anything Anything.Eval Anything.Spec.Arith

/-- A plain number. -/
def plain (x : Rat) : Numeric := { value := x, unit := [] }

theorem powLoop_eq (b : Rat) (n : Nat) (v : Rat) : powLoop b n v = v * b ^ n := by
  induction n generalizing v with
  | zero => simp [powLoop]
  | succ k ih => rw [powLoop, ih]; ring

/-- The operators of the evaluator applied to plain numbers, as one function. -/
def evalBin (cfg : Cfg) (op : BinOp) (s e : Nat) (a b : Rat) : EvalM Numeric :=
  match op with
  | .add => Eval.add s e (plain a) (plain b) false
  | .sub => Eval.add s e (plain a) (plain b) true
  | .mul => Eval.mulDiv cfg s e (plain a) (plain b) false
  | .div => Eval.mulDiv cfg s e (plain a) (plain b) true
  | .pow => Eval.pow s e (plain a) (plain b)

theorem zpow_pos (a : Rat) (n : Int) (h : 0 < n) : zpow a n = a ^ n.toNat := by
  simp [zpow, Int.le_of_lt h]

theorem zpow_neg (a : Rat) (n : Int) (h : n < 0) : zpow a n = 1 / a ^ n.natAbs := by
  have : ¬ (0 ≤ n) := by omega
  simp [zpow, this]

/-- **C01 (operators, value case).** Whenever exact arithmetic assigns a value,
the evaluator returns exactly that value as a plain number, for every rational
operands and every integer exponent; the description log is untouched. -/
theorem C01_bin_ok (cfg : Cfg) (op : BinOp) (s e : Nat) (a b v : Rat) (d : List Desc)
    (h : applyBin op a b = .ok v) :
    evalBin cfg op s e a b d = (.ok (plain v), d) := by
  cases op with
  | add =>
    simp only [applyBin, Except.ok.injEq] at h; subst h
    simp [evalBin, Eval.add, plain, Compound.factor, pure]
  | sub =>
    simp only [applyBin, Except.ok.injEq] at h; subst h
    simp [evalBin, Eval.add, plain, Compound.factor, pure]
  | mul =>
    simp only [applyBin, Except.ok.injEq] at h; subst h
    simp [evalBin, Eval.mulDiv, plain, Compound.mul, pure]
  | div =>
    simp only [applyBin] at h
    split at h
    · exact absurd h (by simp)
    · rename_i hb
      simp only [Except.ok.injEq] at h; subst h
      simp [evalBin, Eval.mulDiv, plain, Compound.mul, pure, hb]
  | pow =>
    simp only [applyBin] at h
    split at h
    · exact absurd h (by simp)
    · rename_i hint
      split at h
      · exact absurd h (by simp)
      · rename_i hz
        simp only [Except.ok.injEq] at h; subst h
        have hden : b.den = 1 := by simpa [isInt] using hint
        simp only [evalBin, Eval.pow, plain, List.isEmpty_nil, Bool.not_true, Bool.false_eq_true,
          ↓reduceIte, hden, ne_eq, not_true_eq_false, Bool.false_and]
        by_cases hn0 : b.num = 0
        · simp [hn0, zpow, pure]
        · simp only [hn0, ↓reduceIte]
          by_cases ha0 : a = 0
          · subst ha0
            have hpos : ¬ b.num < 0 := fun hlt => hz ⟨rfl, hlt⟩
            have hp : 0 < b.num := by omega
            simp only [↓reduceIte, hpos, pure]
            rw [zpow_pos _ _ hp]
            have : b.num.toNat ≠ 0 := by omega
            simp [zero_pow this]
          · simp only [ha0, ↓reduceIte, pure, powLoop_eq, one_mul]
            by_cases hneg : b.num < 0
            · simp only [hneg, ↓reduceIte]
              rw [zpow_neg _ _ hneg]
              simp [one_div, inv_pow]
            · simp only [hneg, ↓reduceIte]
              have hp : 0 < b.num := by omega
              rw [zpow_pos _ _ hp]
              have hnat : b.num.natAbs = b.num.toNat := by omega
              rw [hnat]

/-- **C01 (operators, error case).** Whenever exact arithmetic reports an error
(division by zero, zero to a negative power, non-integer exponent), the
evaluator reports an error and never a number. -/
theorem C01_bin_err (cfg : Cfg) (op : BinOp) (s e : Nat) (a b : Rat) (d : List Desc) (x : ArithErr)
    (h : applyBin op a b = .error x) :
    ∃ k, evalBin cfg op s e a b d = (.error (.err k s e), d) := by
  cases op with
  | add => simp [applyBin] at h
  | sub => simp [applyBin] at h
  | mul => simp [applyBin] at h
  | div =>
    simp only [applyBin] at h
    split at h
    · rename_i hb
      exact ⟨.divideByZero, by simp [evalBin, Eval.mulDiv, plain, Compound.mul, hb, err, EvalM.throw]⟩
    · exact absurd h (by simp)
  | pow =>
    simp only [applyBin] at h
    split at h
    · rename_i hint
      have hden : b.den ≠ 1 := by simpa [isInt] using hint
      exact ⟨.illegalPowerNonInteger, by simp [evalBin, Eval.pow, plain, hden, err, EvalM.throw]⟩
    · rename_i hint
      have hden : b.den = 1 := by simpa [isInt] using hint
      split at h
      · rename_i hz
        obtain ⟨ha, hb⟩ := hz
        have hn0 : b.num ≠ 0 := by omega
        exact ⟨.divideByZero, by simp [evalBin, Eval.pow, plain, hden, hn0, ha, hb, err, EvalM.throw]⟩
      · exact absurd h (by simp)

/-- **C01 (division by zero, stated outright).** -/
theorem C01_div_zero (cfg : Cfg) (s e : Nat) (a : Rat) (d : List Desc) :
    evalBin cfg .div s e a 0 d = (.error (.err .divideByZero s e), d) := by
  simp [evalBin, Eval.mulDiv, plain, Compound.mul, err, EvalM.throw]

/-- **C01 (zero to a negative power).** -/
theorem C01_zero_pow_neg (cfg : Cfg) (s e : Nat) (n : Int) (hn : n < 0) (d : List Desc) :
    evalBin cfg .pow s e 0 (n : Rat) d = (.error (.err .divideByZero s e), d) := by
  have hn0 : n ≠ 0 := by omega
  simp [evalBin, Eval.pow, plain, hn0, hn, err, EvalM.throw]

/-- Non-vacuity: the hypotheses are met by concrete non-trivial operands. -/
example : applyBin .pow (3 / 2) (-2) = .ok (4 / 9) := by decide +kernel
example : applyBin .div 1 0 = .error .divByZero := by decide +kernel

end Anything.Props.C01
