import Anything.Lemmas.Mul5
import Anything.Props.C04
import Anything.Generated.Facts
/-!
# C13 — quantity arithmetic obeys the field laws

The evaluator's `+`, `-`, `*`, `/` on quantities in proportional units are
homomorphic images of the specification's operations on SI quantities
(`Spec.SI.qadd`, `qsub`, `qmul`, `qdiv`) under the reading `siQ` (value in base SI
units, base dimensions). The field laws then hold for the evaluator's results
because they hold for `Spec.SI`: for **all** quantities — any rational magnitude, any
compound of proportional units (literals or facts alike) — where "equal" means the
same base-SI value and the same base dimensions.

Offset scales (`°C`, `°F`) are excluded by the hypothesis `Proportional`: for them
`a + b = b + a` is false by the nature of affine units (known finding
`C13/offset-scale-sum`); the full statement stays visible as `FieldLawsFull`.
-/

namespace Anything.Props.C13
open Anything Anything.Eval Anything.Spec Anything.Props.C02 Anything.Props.C04

/-! ### The laws at the specification level -/

theorem dimvec_add_comm (a b : SI.DimVec) : SI.DimVec.add a b = SI.DimVec.add b a := by
  unfold SI.DimVec.add
  exact List.zipWith_comm_of_comm (fun x y => Int.add_comm x y)

theorem dimvec_add_assoc (a b c : SI.DimVec) :
    SI.DimVec.add (SI.DimVec.add a b) c = SI.DimVec.add a (SI.DimVec.add b c) := by
  unfold SI.DimVec.add
  induction a generalizing b c with
  | nil => simp
  | cons x xs ih =>
    cases b with
    | nil => simp
    | cons y ys =>
      cases c with
      | nil => simp
      | cons z zs => simp [ih, Int.add_assoc]

theorem qmul_comm (a b : SI.Q) : SI.qmul a b = SI.qmul b a := by
  simp [SI.qmul, mul_comm, dimvec_add_comm]

theorem qmul_assoc (a b c : SI.Q) : SI.qmul (SI.qmul a b) c = SI.qmul a (SI.qmul b c) := by
  simp [SI.qmul, mul_assoc, dimvec_add_assoc]

theorem qadd_comm (a b r1 r2 : SI.Q) (h1 : SI.qadd a b = .ok r1) (h2 : SI.qadd b a = .ok r2) : r1 = r2 := by
  unfold SI.qadd at h1 h2
  split at h1 <;> simp at h1
  split at h2 <;> simp at h2
  rename_i hd _
  rw [← h1, ← h2, hd, add_comm]

theorem qadd_assoc (a b c ab bc r1 r2 : SI.Q) (h1 : SI.qadd a b = .ok ab) (h2 : SI.qadd ab c = .ok r1)
    (h3 : SI.qadd b c = .ok bc) (h4 : SI.qadd a bc = .ok r2) : r1 = r2 := by
  unfold SI.qadd at h1 h2 h3 h4
  split at h1 <;> simp at h1
  split at h2 <;> simp at h2
  split at h3 <;> simp at h3
  split at h4 <;> simp at h4
  rw [← h2, ← h4, ← h1, ← h3]
  simp [add_assoc]

theorem qdistrib (a b c bc r : SI.Q) (h1 : SI.qadd b c = .ok bc)
    (h2 : SI.qadd (SI.qmul a b) (SI.qmul a c) = .ok r) : SI.qmul a bc = r := by
  unfold SI.qadd at h1 h2
  split at h1 <;> simp at h1
  split at h2 <;> simp at h2
  rw [← h1, ← h2]
  simp [SI.qmul, mul_add]

/-! ### The evaluator refines the specification -/

/-- Both operands carry a unit, or both are plain numbers. -/
def SameKind (x y : Numeric) : Prop := (x.unit ≠ [] ∧ y.unit ≠ []) ∨ (x.unit = [] ∧ y.unit = [])

/-- **`+` and `-` refine `qadd` / `qsub`.** -/
theorem add_refines (s e : Nat) (x y : Numeric) (sub : Bool) (d d' : List Desc) (r : Numeric)
    (hk : SameKind x y) (px : Proportional x.unit) (py : Proportional y.unit)
    (h : Eval.add s e x y sub d = (.ok r, d')) :
    (if sub then SI.qsub (siQ x) (siQ y) else SI.qadd (siQ x) (siQ y)) = .ok (siQ r) ∧ r.unit = x.unit := by
  rcases hk with ⟨hx, hy⟩ | ⟨hx, hy⟩
  · unfold Eval.add at h
    rw [factor_prop x.unit y.unit hx hy px py] at h
    have ex : x.unit.isEmpty = false := by cases hu : x.unit <;> simp_all
    by_cases hc : SI.dims (semOf x.unit) = SI.dims (semOf y.unit)
    · simp only [hc, ↓reduceIte, ex, Bool.false_eq_true, pure, Prod.mk.injEq, Except.ok.injEq] at h
      obtain ⟨h, _⟩ := h
      have hs := scale_ne_zero x.unit
      subst h
      refine ⟨?_, rfl⟩
      cases sub
      · simp only [Bool.false_eq_true, ↓reduceIte, siQ, SI.qadd, hc, scale_semOf, Except.ok.injEq,
          SI.Q.mk.injEq, and_true]
        field_simp
      · simp only [↓reduceIte, siQ, SI.qsub, hc, scale_semOf, Except.ok.injEq, SI.Q.mk.injEq, and_true]
        field_simp
    · simp only [hc, ↓reduceIte] at h
      simp [err, EvalM.throw] at h
  · unfold Eval.add at h
    simp only [hx, hy, Compound.factor, List.isEmpty_nil, Bool.or_self, ↓reduceIte, pure, Prod.mk.injEq,
      Except.ok.injEq] at h
    obtain ⟨h, _⟩ := h
    subst h
    refine ⟨?_, by simp [hx]⟩
    cases sub <;> simp [siQ, SI.qadd, SI.qsub, hx, hy] <;> ring

/-- **`*` refines `qmul`**, and yields proportional units again. -/
theorem mul_refines (cfg : Cfg) (s e : Nat) (a b : Numeric) (d d' : List Desc) (r : Numeric)
    (pa : Proportional a.unit) (pb : Proportional b.unit)
    (h : mulDiv cfg s e a b false d = (.ok r, d')) :
    siQ r = SI.qmul (siQ a) (siQ b) ∧ Proportional r.unit := by
  constructor
  · rcases C04_mul cfg s e a b d pa pb with ⟨r', hr', heq⟩ | ⟨_, hr'⟩
    · rw [hr'] at h
      simp only [Prod.mk.injEq, Except.ok.injEq] at h
      rw [← h.1]; exact heq
    · rw [hr'] at h; simp at h
  · unfold mulDiv at h
    simp only [Bool.false_eq_true, ↓reduceIte] at h
    cases hm : Compound.mul cfg.debug a.unit b.unit 1 a.value b.value with
    | error c =>
      rw [hm] at h
      cases c <;> simp [err, EvalM.throw] at h
    | ok res =>
      obtain ⟨unit, av, bv⟩ := res
      rw [hm] at h
      simp only [pure, Prod.mk.injEq, Except.ok.injEq] at h
      rw [← h.1]
      exact mul_prop _ _ _ _ _ _ pa pb _ hm

/-- **`/` refines `qdiv`.** -/
theorem div_refines (cfg : Cfg) (s e : Nat) (a b : Numeric) (d d' : List Desc) (r : Numeric)
    (pa : Proportional a.unit) (pb : Proportional b.unit)
    (h : mulDiv cfg s e a b true d = (.ok r, d')) :
    SI.qdiv (siQ a) (siQ b) = .ok (siQ r) := by
  by_cases hb : b.value = 0
  · rcases C04_div_zero cfg s e a b d pa pb hb with hr' | ⟨_, hr'⟩ <;> (rw [hr'] at h; simp at h)
  · rcases C04_div cfg s e a b d pa pb hb with ⟨r', hr', heq⟩ | ⟨_, hr'⟩
    · rw [hr'] at h
      simp only [Prod.mk.injEq, Except.ok.injEq] at h
      rw [← h.1]; exact heq
    · rw [hr'] at h; simp at h

/-! ### The field laws for the evaluator's results -/

section Laws
variable (cfg : Cfg) (s e : Nat)

/-- **C13 (a + b = b + a).** -/
theorem C13_add_comm (a b r1 r2 : Numeric) (d d1 d2 : List Desc)
    (hk : SameKind a b) (pa : Proportional a.unit) (pb : Proportional b.unit)
    (h1 : Eval.add s e a b false d = (.ok r1, d1)) (h2 : Eval.add s e b a false d = (.ok r2, d2)) :
    siQ r1 = siQ r2 := by
  have hk' : SameKind b a := by
    rcases hk with ⟨x, y⟩ | ⟨x, y⟩
    · exact Or.inl ⟨y, x⟩
    · exact Or.inr ⟨y, x⟩
  have e1 := (add_refines s e a b false d d1 r1 hk pa pb h1).1
  have e2 := (add_refines s e b a false d d2 r2 hk' pb pa h2).1
  simp only [Bool.false_eq_true, ↓reduceIte] at e1 e2
  exact qadd_comm _ _ _ _ e1 e2

/-- **C13 (`a + b` is defined exactly when `b + a` is).** -/
theorem C13_add_comm_defined (a b : Numeric) (d : List Desc)
    (ha : a.unit ≠ []) (hb : b.unit ≠ []) (pa : Proportional a.unit) (pb : Proportional b.unit) :
    (∃ r, Eval.add s e a b false d = (.ok r, d)) ↔ (∃ r, Eval.add s e b a false d = (.ok r, d)) := by
  rw [C02_add_iff s e a b false d ha hb pa pb, C02_add_iff s e b a false d hb ha pb pa]
  exact ⟨Eq.symm, Eq.symm⟩

/-- **C13 (a · b = b · a).** -/
theorem C13_mul_comm (a b r1 r2 : Numeric) (d d1 d2 : List Desc)
    (pa : Proportional a.unit) (pb : Proportional b.unit)
    (h1 : mulDiv cfg s e a b false d = (.ok r1, d1)) (h2 : mulDiv cfg s e b a false d = (.ok r2, d2)) :
    siQ r1 = siQ r2 := by
  rw [(mul_refines cfg s e a b d d1 r1 pa pb h1).1, (mul_refines cfg s e b a d d2 r2 pb pa h2).1, qmul_comm]

/-- **C13 ((a + b) + c = a + (b + c)).** -/
theorem C13_add_assoc (a b c ab bc r1 r2 : Numeric) (d d1 d2 d3 d4 : List Desc)
    (ha : a.unit ≠ []) (hb : b.unit ≠ []) (hc : c.unit ≠ [])
    (pa : Proportional a.unit) (pb : Proportional b.unit) (pc : Proportional c.unit)
    (h1 : Eval.add s e a b false d = (.ok ab, d1)) (h2 : Eval.add s e ab c false d = (.ok r1, d2))
    (h3 : Eval.add s e b c false d = (.ok bc, d3)) (h4 : Eval.add s e a bc false d = (.ok r2, d4)) :
    siQ r1 = siQ r2 := by
  obtain ⟨e1, u1⟩ := add_refines s e a b false d d1 ab (Or.inl ⟨ha, hb⟩) pa pb h1
  obtain ⟨e3, u3⟩ := add_refines s e b c false d d3 bc (Or.inl ⟨hb, hc⟩) pb pc h3
  have e2 := (add_refines s e ab c false d d2 r1 (Or.inl ⟨by rw [u1]; exact ha, hc⟩) (by rw [u1]; exact pa) pc h2).1
  have e4 := (add_refines s e a bc false d d4 r2 (Or.inl ⟨ha, by rw [u3]; exact hb⟩) pa (by rw [u3]; exact pb) h4).1
  simp only [Bool.false_eq_true, ↓reduceIte] at e1 e2 e3 e4
  exact qadd_assoc _ _ _ _ _ _ _ e1 e2 e3 e4

/-- **C13 ((a · b) · c = a · (b · c)).** -/
theorem C13_mul_assoc (a b c ab bc r1 r2 : Numeric) (d d1 d2 d3 d4 : List Desc)
    (pa : Proportional a.unit) (pb : Proportional b.unit) (pc : Proportional c.unit)
    (h1 : mulDiv cfg s e a b false d = (.ok ab, d1)) (h2 : mulDiv cfg s e ab c false d = (.ok r1, d2))
    (h3 : mulDiv cfg s e b c false d = (.ok bc, d3)) (h4 : mulDiv cfg s e a bc false d = (.ok r2, d4)) :
    siQ r1 = siQ r2 := by
  obtain ⟨e1, p1⟩ := mul_refines cfg s e a b d d1 ab pa pb h1
  obtain ⟨e3, p3⟩ := mul_refines cfg s e b c d d3 bc pb pc h3
  rw [(mul_refines cfg s e ab c d d2 r1 p1 pc h2).1, (mul_refines cfg s e a bc d d4 r2 pa p3 h4).1, e1, e3,
    qmul_assoc]

/-- **C13 (a · (b + c) = a · b + a · c).** The two products are of the same kind
(both still carry a unit, or both came out dimensionless). -/
theorem C13_distrib (a b c bc abc ab ac r : Numeric) (d d1 d2 d3 d4 d5 : List Desc)
    (hb : b.unit ≠ []) (hc : c.unit ≠ [])
    (pa : Proportional a.unit) (pb : Proportional b.unit) (pc : Proportional c.unit)
    (h1 : Eval.add s e b c false d = (.ok bc, d1)) (h2 : mulDiv cfg s e a bc false d = (.ok abc, d2))
    (h3 : mulDiv cfg s e a b false d = (.ok ab, d3)) (h4 : mulDiv cfg s e a c false d = (.ok ac, d4))
    (hk : SameKind ab ac) (h5 : Eval.add s e ab ac false d = (.ok r, d5)) :
    siQ abc = siQ r := by
  obtain ⟨e1, u1⟩ := add_refines s e b c false d d1 bc (Or.inl ⟨hb, hc⟩) pb pc h1
  obtain ⟨e3, p3⟩ := mul_refines cfg s e a b d d3 ab pa pb h3
  obtain ⟨e4, p4⟩ := mul_refines cfg s e a c d d4 ac pa pc h4
  have e2 := (mul_refines cfg s e a bc d d2 abc pa (by rw [u1]; exact pb) h2).1
  have e5 := (add_refines s e ab ac false d d5 r hk p3 p4 h5).1
  simp only [Bool.false_eq_true, ↓reduceIte] at e1 e5
  rw [e3, e4] at e5
  rw [e2]
  exact qdistrib _ _ _ _ _ e1 e5

/-- **C13 (a − a = 0)** in `a`'s dimensions. -/
theorem C13_sub_self (a : Numeric) (d : List Desc) (pa : Proportional a.unit) :
    ∃ r, Eval.add s e a a true d = (.ok r, d) ∧ siQ r = ⟨0, (siQ a).dim⟩ := by
  by_cases ha : a.unit = []
  · refine ⟨{ value := a.value - a.value, unit := [] }, ?_, ?_⟩
    · simp [Eval.add, Compound.factor, ha, pure]
    · simp [siQ, ha]
  · obtain ⟨v, hv⟩ := C02_add_ok s e a a true d ha ha pa pa rfl
    have := (add_refines s e a a true d d _ (Or.inl ⟨ha, ha⟩) pa pa hv).1
    refine ⟨_, hv, ?_⟩
    simp only [↓reduceIte, SI.qsub, sub_self, Except.ok.injEq] at this
    exact this.symm

/-- **C13 (a / a = 1)**, dimensionless, for non-zero `a`. -/
theorem C13_div_self (a r : Numeric) (d d' : List Desc) (pa : Proportional a.unit)
    (h : mulDiv cfg s e a a true d = (.ok r, d')) :
    siQ r = ⟨1, SI.DimVec.zero⟩ := by
  have hq := div_refines cfg s e a a d d' r pa pa h
  rw [siQ_eq] at hq ⊢
  unfold SI.qdiv at hq
  split at hq
  · simp at hq
  · rename_i hne
    simp only [Except.ok.injEq] at hq
    rw [siQ_eq, vecOf_smul, vecOf_add] at hq
    rw [← hq, div_self hne, vecOf_zero]
    congr 2; funext b; ring

end Laws

/-! ### "Including looked-up facts" -/

/-- The quantity a shipped constant contributes when it is looked up. -/
def factNumeric (r : Generated.FactRow) : Numeric := { value := mkFracI r.num r.den, unit := r.unit }

/-- **C13 (every shipped fact is in the scope of the laws).** Each of the shipped constants
(table regenerated from `db/*.bin.gz` through the real decoder on every run) is a quantity
in proportional units with a non-zero denominator — so all the theorems above apply to
looked-up facts exactly as to literals. -/
theorem C13_facts_in_scope :
    Generated.factChunks.all (fun c => c.all (fun r => r.den != 0 && r.unit.all (fun e => isProp e.1))) = true := by
  decide +kernel

theorem C13_fact_proportional (r : Generated.FactRow) (h : r ∈ Generated.facts) :
    Proportional (factNumeric r).unit := by
  unfold Generated.facts at h
  rw [List.mem_flatten] at h
  obtain ⟨c, hc, hr⟩ := h
  have h1 := List.all_eq_true.mp C13_facts_in_scope c hc
  have h2 := List.all_eq_true.mp h1 r hr
  simp only [Bool.and_eq_true, List.all_eq_true] at h2
  intro e he
  exact h2.2 e he

/-- The full statement (all quantities, offset scales included) — **not** a theorem:
`1 °C + 1 K` and `1 K + 1 °C` differ in SI (known finding `C13/offset-scale-sum`).
Kept visible; the proved theorems above carry `Proportional`. -/
def FieldLawsFull : Prop :=
  ∀ (s e : Nat) (a b r1 r2 : Numeric) (d d1 d2 : List Desc), SameKind a b →
    Eval.add s e a b false d = (.ok r1, d1) → Eval.add s e b a false d = (.ok r2, d2) → siQ r1 = siQ r2

end Anything.Props.C13
