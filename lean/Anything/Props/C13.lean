import Anything.Model.Eval
import Anything.Spec.Quantity
namespace Anything.Props.C13
theorem C13_placeholder : True := trivial
end Anything.Props.C13
